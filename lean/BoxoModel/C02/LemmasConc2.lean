import BoxoModel.C02.LemmasConc
/-!
C02 — every event of the small-step Bloom-cache model preserves the invariant.
-/
namespace C02.Conc
open C02

variable {hash : Nat → List Nat}

theorem pendW_true_iff {s : St} {k : Nat} : pendW s k = true ↔
    ∃ w th, s.writer k = some w ∧ s.threads[w]? = some th ∧ pendingAt s.cur k th.pc = true := by
  unfold pendW
  constructor
  · intro h
    cases hw : s.writer k with
    | none => simp [hw] at h
    | some w =>
      cases ht : s.threads[w]? with
      | none => simp [hw, ht] at h
      | some th => exact ⟨w, th, rfl, ht, by simpa [hw, ht] using h⟩
  · rintro ⟨w, th, hw, ht, hp⟩
    simp [hw, ht, hp]

theorem mem_foldl_store {ks : List Nat} {st : List Nat} {j : Nat} :
    j ∈ ks.foldl (fun st k => if st.contains k then st else k :: st) st ↔ j ∈ ks ∨ j ∈ st := by
  induction ks generalizing st with
  | nil => simp
  | cons k ks ih =>
    simp only [List.foldl_cons, ih, List.mem_cons]
    split
    · rename_i h; simp at h; constructor
      · rintro (h' | h') <;> simp [h']
      · rintro ((rfl | h') | h')
        · exact Or.inr h
        · exact Or.inl h'
        · exact Or.inr h'
    · simp only [List.mem_cons]; constructor
      · rintro (h' | rfl | h') <;> simp_all
      · rintro ((rfl | h') | h') <;> simp_all

/-- a step that only moves one thread between program counters with the same pending status -/
theorem covStep_thread {s : St} {t : Nat} {th0 th' : Thread} (hth : s.threads[t]? = some th0)
    (hp : ∀ k, pendingAt s.cur k th'.pc = pendingAt s.cur k th0.pc) :
    CovStep hash s (setThread s t th') := by
  intro k hk
  refine ⟨fun _ h => (covered_setThread hth hp k).2 h, fun hn => absurd hk hn⟩

/-- pendW of a key whose writer is not the moving thread (or whose status the move keeps) -/
theorem pendW_keep {s s' : St} {t : Nat} {th0 th' : Thread} {j : Nat} (hth : s.threads[t]? = some th0)
    (hthr : s'.threads = s.threads.set t th') (hc : s'.cur = s.cur) (hw : s'.writer j = s.writer j)
    (hp : s.writer j = some t → pendingAt s.cur j th0.pc = true → pendingAt s.cur j th'.pc = true)
    (h : pendW s j = true) : pendW s' j = true := by
  obtain ⟨w, thw, hwj, htw, hpw⟩ := pendW_true_iff.1 h
  refine pendW_true_iff.2 ⟨w, ?_⟩
  by_cases hwt : w = t
  · subst hwt
    rw [hth] at htw; cases htw
    exact ⟨th', hw ▸ hwj, by rw [hthr]; exact threads_set_self hth, by rw [hc]; exact hp hwj hpw⟩
  · exact ⟨thw, hw ▸ hwj, by rw [hthr, threads_set_other hwt]; exact htw, by rw [hc]; exact hpw⟩

theorem afterW_writing_pending {cur j : Nat} {ks : List Nat} (h : ks.contains j = true) :
    pendingAt cur j (afterW ks) = true := by
  cases ks with
  | nil => simp at h
  | cons k ks => simpa [afterW, pendingAt] using h

theorem afterW_not_locked (ks : List Nat) : (afterW ks).locked = false := by
  cases ks <;> rfl

theorem afterW_pcInv {s : St} {th : Thread} {ks : List Nat} (h : th.pc = afterW ks) : pcInv hash s th := by
  unfold pcInv; cases ks <;> simp [afterW] at h <;> simp [h]

theorem afterW_progOK {ks ks' : List Nat} : progOK (.put ks') (afterW ks) = true := by
  cases ks <;> rfl

theorem afterAdd_locked (tg : Nat) (rem : List Nat) (e : Bool) : (afterAdd tg rem e).locked = true := by
  cases rem <;> rfl

theorem afterAdd_not_writing (tg : Nat) (rem : List Nat) (e : Bool) : (afterAdd tg rem e).writing = false := by
  cases rem <;> rfl

theorem afterAdd_progOK {pr : Prog} (h : pr = .rebuild ∨ pr = .build) (tg : Nat) (rem : List Nat) (e : Bool) :
    progOK pr (afterAdd tg rem e) = true := by
  rcases h with rfl | rfl <;> cases rem <;> rfl

/-- the invariant of a builder that has just taken / advanced its list of keys to add -/
theorem afterAdd_pcInv {s : St} {th : Thread} {tg : Nat} {rem : List Nat} {e : Bool}
    (h : th.pc = afterAdd tg rem e) (htg : tg = s.cur) (hact : th.prog = .rebuild → s.active = false)
    (hcov : e = false → ∀ k, k ∈ s.store → covered hash s k ∨ k ∈ rem) : pcInv hash s th := by
  unfold pcInv
  cases rem with
  | nil =>
    simp only [afterAdd] at h
    simp only [h]
    exact ⟨hact, fun he k hk => (hcov he k hk).elim id (fun h' => by simp at h')⟩
  | cons k rem =>
    simp only [afterAdd] at h
    simp only [h]
    exact ⟨htg, hact, hcov⟩

end C02.Conc

namespace C02.Conc
open C02
variable {hash : Nat → List Nat}

/-- reader steps that change nothing but the reader itself -/
theorem Inv.readerStep {s : St} {t : Nat} {th0 : Thread} {pc' : PC} (hI : Inv hash s)
    (hth : s.threads[t]? = some th0) (hw : th0.pc.writing = false) (hl : th0.pc.locked = false)
    (hw' : pc'.writing = false) (hl' : pc'.locked = false) (hprog : progOK th0.prog pc' = true)
    (hpc : pcInv hash (setThread s t (mv s th0 pc')) (mv s th0 pc')) :
    Inv hash (setThread s t (mv s th0 pc')) := by
  have hT := hI.thr t th0 hth
  refine hI.classA hth rfl rfl rfl rfl rfl (fun _ _ h => h) (covStep_thread hth ?_) ⟨hprog, ?_, hpc, mv_ghost hT.ghost⟩
  · intro k
    show pendingAt s.cur k pc' = pendingAt s.cur k th0.pc
    rw [pendingAt_of_not_writing hw, pendingAt_of_not_writing hw']
  · have := hT.lock
    rw [hl] at this
    show pc'.locked = true ↔ s.lock = some t
    rw [hl']; exact this

theorem hasK_setThread {s : St} {t : Nat} {th' : Thread} {p : Nat} {key : Key} :
    hasK hash (setThread s t th') p key = hasK hash s p key := by
  cases key <;> rfl

end C02.Conc

namespace C02.Conc
open C02
variable {hash : Nat → List Nat}

/-- coverage only reads the filters, the live pointer, the writer table and the threads -/
theorem covered_congr {s₁ s₂ : St} (hf : s₁.filters = s₂.filters) (hc : s₁.cur = s₂.cur)
    (hw : s₁.writer = s₂.writer) (ht : s₁.threads = s₂.threads) (k : Nat) :
    covered hash s₁ k ↔ covered hash s₂ k := by
  simp only [covered, hasF, getF, pendW, hf, hc, hw, ht]

/-- DeleteBlock reaching the store -/
theorem covStep_del {s : St} {t : Nat} {th0 th' : Thread} {k0 : Nat} (hth : s.threads[t]? = some th0)
    (hw : th0.pc.writing = false) :
    CovStep hash s (setThread { s with store := s.store.filter (· != k0), writer := fun j => if j = k0 then none else s.writer j } t th') := by
  intro j hj
  have hj' : j ∈ s.store ∧ j ≠ k0 := by simpa [setThread] using hj
  refine ⟨fun _ h => ?_, fun hn => absurd hj'.1 hn⟩
  rcases h with h | h
  · exact Or.inl h
  · right
    refine pendW_keep (th' := th') hth rfl rfl ?_ ?_ h
    · simp [setThread, hj'.2]
    · intro _ hp; rw [pendingAt_of_not_writing hw] at hp; cases hp

/-- Put / PutMany writing the store -/
theorem covStep_store {s : St} {t : Nat} {th0 th' : Thread} {ks : List Nat} (hth : s.threads[t]? = some th0)
    (hpc0 : th0.pc = .wStore) (hpc' : th'.pc = afterW ks) :
    CovStep hash s (setThread { s with store := ks.foldl (fun st k => if st.contains k then st else k :: st) s.store, writer := fun j => if ks.contains j && !s.store.contains j then some t else s.writer j } t th') := by
  intro j hj
  have hj' : j ∈ ks ∨ j ∈ s.store := mem_foldl_store.1 hj
  refine ⟨fun hin h => ?_, fun hn => ?_⟩
  · rcases h with h | h
    · exact Or.inl h
    · right
      refine pendW_keep (th' := th') hth rfl rfl ?_ ?_ h
      · simp [setThread, hin]
      · intro _ hp; rw [hpc0] at hp; simp [pendingAt] at hp
  · have hjk : j ∈ ks := hj'.elim id (fun h => absurd h hn)
    right
    refine pendW_true_iff.2 ⟨t, th', ?_, threads_set_self hth, ?_⟩
    · simp [setThread, hjk, hn]
    · rw [hpc']; exact afterW_writing_pending (by simpa using hjk)

/-- a filter gains one key; the moving thread is not a pending writer before or after -/
theorem covStep_addF {s : St} {t : Nat} {th0 th' : Thread} {q i : Nat} (hth : s.threads[t]? = some th0)
    (hw : th0.pc.writing = false) :
    CovStep hash s (setThread { s with filters := addF hash s q i } t th') := by
  intro j hj
  refine ⟨fun _ h => ?_, fun hn => absurd hj hn⟩
  rcases h with h | h
  · exact Or.inl (hasBits_addF_mono h)
  · right
    refine pendW_keep (th' := th') hth rfl rfl rfl ?_ h
    intro _ hp; rw [pendingAt_of_not_writing hw] at hp; cases hp

/-- Put adding its key to the filter it loaded -/
theorem covStep_adding {s : St} {t : Nat} {th0 th' : Thread} {p k : Nat} {ks : List Nat}
    (hth : s.threads[t]? = some th0) (hpc0 : th0.pc = .wAdding p (k :: ks)) (hpc' : th'.pc = afterW ks)
    (hcur : s.cur < s.filters.length) :
    CovStep hash s (setThread { s with filters := addF hash s p k } t th') := by
  intro j hj
  refine ⟨fun _ h => ?_, fun hn => absurd hj hn⟩
  rcases h with h | h
  · exact Or.inl (hasBits_addF_mono h)
  · obtain ⟨w, thw, hwj, htw, hpw⟩ := pendW_true_iff.1 h
    by_cases hwt : w = t
    · subst hwt
      rw [hth] at htw; cases htw
      rw [hpc0] at hpw
      simp only [pendingAt, List.tail_cons, List.head?_cons, Bool.or_eq_true, Bool.and_eq_true,
        beq_iff_eq, Option.some.injEq] at hpw
      rcases hpw with hpw | ⟨rfl, rfl⟩
      · right
        exact pendW_true_iff.2 ⟨w, th', hwj, threads_set_self hth, by rw [hpc']; exact afterW_writing_pending hpw⟩
      · left
        exact hasBits_addF_self hcur
    · right
      exact pendW_true_iff.2 ⟨w, thw, hwj, by simpa [setThread, threads_set_other hwt] using htw, hpw⟩

theorem pendingAt_wAdding_eq (cur j k : Nat) (ks : List Nat) :
    pendingAt cur j (.wAdding cur (k :: ks)) = pendingAt cur j (.wAdd (k :: ks)) := by
  simp only [pendingAt, List.tail_cons, List.head?_cons, beq_self_eq_true, Bool.and_true, List.contains_cons]
  by_cases h : k = j
  · subst h; simp
  · have e1 : (k == j) = false := by simpa using h
    have e2 : (j == k) = false := by simpa using fun e : j = k => h e.symm
    simp [e1, e2]

end C02.Conc
