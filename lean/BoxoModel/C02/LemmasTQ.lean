import BoxoModel.C02.Lemmas
/-!
C02 — the 2Q layer refines the uncached store, for every lawful cache (arbitrary eviction).
-/
namespace C02

/-- What tqcache needs from its cache: entries never appear out of thin air, `Add k` replaces every
older entry of `k`, `Remove k` leaves no entry of `k`.  Nothing is said about which entries survive:
every eviction policy (and every size) is covered.  `wf` is a representation invariant of the cache
(for golang-lru's 2Q: the frequent and recent lists have no key in common). -/
structure Lawful {C : Type} (P : CacheOps C) where
  wf : C → Prop
  ents : C → List (Nat × Entry)
  get_some : ∀ c k e, wf c → (P.get c k).2 = some e → (k, e) ∈ ents c
  get_wf : ∀ c k, wf c → wf (P.get c k).1
  get_ents : ∀ c k x, wf c → x ∈ ents (P.get c k).1 → x ∈ ents c
  add_wf : ∀ c k e, wf c → wf (P.add c k e)
  add_ents : ∀ c k e x, wf c → x ∈ ents (P.add c k e) → x = (k, e) ∨ (x ∈ ents c ∧ x.1 ≠ k)
  remove_wf : ∀ c k, wf c → wf (P.remove c k)
  remove_ents : ∀ c k x, wf c → x ∈ ents (P.remove c k) → x ∈ ents c ∧ x.1 ≠ k

variable {C σ : Type} {P : CacheOps C}

/-- a cached value tells the truth about the store -/
def agrees (sz : Nat → Nat) (b : Base) (k : Nat) : Entry → Prop
  | .have v => v = b.present (some k)
  | .size n => b.present (some k) = true ∧ n = sz k

/-- `TQInv`: every cached entry agrees with the store -/
def TQInv (sz : Nat → Nat) (L : Lawful P) (c : C) (b : Base) : Prop :=
  ∀ k e, (k, e) ∈ L.ents c → agrees sz b k e

def TQ.Rel (sz : Nat → Nat) (L : Lawful P) (R : σ → Base → Prop) : C × σ → Base → Prop :=
  fun cs b => L.wf cs.1 ∧ R cs.2 b ∧ TQInv sz L cs.1 b

theorem agrees_of_present_eq {sz : Nat → Nat} {b b' : Base} {k : Nat} {e : Entry}
    (h : b'.present (some k) = b.present (some k)) (ha : agrees sz b k e) : agrees sz b' k e := by
  cases e <;> simp_all [agrees]

theorem agrees_isHave {sz : Nat → Nat} {b : Base} {k : Nat} {e : Entry} (ha : agrees sz b k e) :
    e.isHave = b.present (some k) := by
  cases e <;> simp_all [agrees, Entry.isHave]

theorem TQInv.congr {sz : Nat → Nat} {L : Lawful P} {c : C} {b b' : Base}
    (h : TQInv sz L c b) (he : Base.Equiv b b') : TQInv sz L c b' :=
  fun k e hm => agrees_of_present_eq (he.present _).symm (h k e hm)

theorem TQInv.get {sz : Nat → Nat} {L : Lawful P} {c : C} {b : Base} (hw : L.wf c)
    (h : TQInv sz L c b) (k : Nat) : TQInv sz L (P.get c k).1 b :=
  fun j e hm => h j e (L.get_ents c k _ hw hm)

/-- adding a truthful entry for `k` when every other key keeps its status -/
theorem TQInv.add {sz : Nat → Nat} {L : Lawful P} {c : C} {b b' : Base} {k : Nat} {e : Entry} (hw : L.wf c)
    (h : TQInv sz L c b) (hoth : ∀ j, j ≠ k → b'.present (some j) = b.present (some j))
    (ha : agrees sz b' k e) : TQInv sz L (P.add c k e) b' := by
  intro j e' hm
  rcases L.add_ents c k e _ hw hm with heq | ⟨hm', hne⟩
  · cases heq; exact ha
  · exact agrees_of_present_eq (hoth j hne) (h j e' hm')

theorem TQInv.remove {sz : Nat → Nat} {L : Lawful P} {c : C} {b b' : Base} {k : Nat} (hw : L.wf c)
    (h : TQInv sz L c b) (hoth : ∀ j, j ≠ k → b'.present (some j) = b.present (some j)) :
    TQInv sz L (P.remove c k) b' := by
  intro j e' hm
  obtain ⟨hm', hne⟩ := L.remove_ents c k _ hw hm
  exact agrees_of_present_eq (hoth j hne) (h j e' hm')

/-! ### what `OutOK` says about the answers of the wrapped store -/

theorem outOK_has {sz : Nat → Nat} {b : Base} {k : Key} {f : Bool} {o : Out}
    (h : OutOK sz b (.has k f) o) : o = .err ∨ o = .bool (b.present k) := by
  rcases h with h | h | ⟨_, h, _⟩
  · simp [Op.maint] at h
  · cases f <;> simp_all [Base.step]
  · simp_all [Base.step, Op.clear]

theorem outOK_size {sz : Nat → Nat} {b : Base} {k : Nat} {f : Bool} {o : Out}
    (h : OutOK sz b (.size (some k) f) o) :
    o = .err ∨ o = (if b.present (some k) then .size (sz k) else .notfound) := by
  rcases h with h | h | ⟨_, h, _⟩
  · simp [Op.maint] at h
  · cases f <;> simp_all [Base.step]
  · simp_all [Base.step, Op.clear]

theorem outOK_get {sz : Nat → Nat} {b : Base} {k : Nat} {f : Bool} {o : Out}
    (h : OutOK sz b (.get (some k) f) o) :
    o = .err ∨ o = (if b.present (some k) then .found (sz k) else .notfound) := by
  rcases h with h | h | ⟨_, h, _⟩
  · simp [Op.maint] at h
  · cases f <;> simp_all [Base.step]
  · simp_all [Base.step, Op.clear]

theorem outOK_get_view {sz : Nat → Nat} {b : Base} {k : Key} {f : Bool} {o : Out} :
    OutOK sz b (.get k f) o ↔ OutOK sz b (.view k f) o := by
  simp [OutOK, Base.step, Op.maint, Op.failing, Op.clear]

theorem outOK_del {sz : Nat → Nat} {b : Base} {k : Nat} {f : Bool} {o : Out}
    (h : OutOK sz b (.del (some k) f) o) :
    (f = false ∧ o = .ok) ∨ (f = true ∧ (o = .err ∨ (o = .ok ∧ k ∉ b.keys))) := by
  rcases h with h | h | ⟨hf, h, he⟩
  · simp [Op.maint] at h
  · cases f <;> simp_all [Base.step]
  · simp only [Op.failing] at hf
    subst hf
    refine Or.inr ⟨rfl, Or.inr ⟨by simpa [Base.step, Op.clear] using h, ?_⟩⟩
    intro hk
    have := (he k).2 hk
    simp [Base.step, Op.clear, Base.mem_erase] at this

theorem outOK_put {sz : Nat → Nat} {b : Base} {k : Nat} {f : Bool} {o : Out}
    (h : OutOK sz b (.put k f) o) :
    (f = false ∧ o = .ok) ∨ (f = true ∧ (o = .err ∨ (o = .ok ∧ k ∈ b.keys))) := by
  rcases h with h | h | ⟨hf, h, he⟩
  · simp [Op.maint] at h
  · cases f <;> simp_all [Base.step]
  · simp only [Op.failing] at hf
    subst hf
    refine Or.inr ⟨rfl, Or.inr ⟨by simpa [Base.step, Op.clear] using h, ?_⟩⟩
    exact (he k).1 (by simp [Base.step, Op.clear, Base.mem_insert])

theorem outOK_putMany {sz : Nat → Nat} {b : Base} {ks : List Nat} {f : Bool} {o : Out}
    (h : OutOK sz b (.putMany ks f) o) :
    (f = false ∧ o = .ok) ∨ (f = true ∧ (o = .err ∨ (o = .ok ∧ ∀ k ∈ ks, k ∈ b.keys))) := by
  rcases h with h | h | ⟨hf, h, he⟩
  · simp [Op.maint] at h
  · cases f <;> simp_all [Base.step]
  · simp only [Op.failing] at hf
    subst hf
    refine Or.inr ⟨rfl, Or.inr ⟨by simpa [Base.step, Op.clear] using h, ?_⟩⟩
    intro k hk
    exact (he k).1 (by simp [Base.step, Op.clear, Base.mem_foldl_insert, hk])

/-- the answers of two PutMany calls whose batches differ only by keys that are already stored -/
theorem outOK_putMany_congr {sz : Nat → Nat} {b : Base} {ks good : List Nat} {f : Bool} {o : Out}
    (hrest : ∀ x, x ∈ ks → x ∉ good → x ∈ b.keys)
    (h : OutOK sz b (.putMany good f) o) : OutOK sz b (.putMany ks f) o := by
  rcases h with h | h | ⟨hf, h, he⟩
  · simp [Op.maint] at h
  · refine Or.inr (Or.inl ?_)
    cases f <;> simp_all [Base.step]
  · refine Or.inr (Or.inr ⟨hf, by simpa [Base.step, Op.clear] using h, ?_⟩)
    intro a
    have := he a
    simp [Base.step, Op.clear, Base.mem_foldl_insert] at this ⊢
    intro ha
    by_cases hg : a ∈ good
    · exact this hg
    · exact hrest a ha hg

/-! ### the PutMany filter loop -/

theorem mem_ite_cons {c : Prop} [Decidable c] {x k : Nat} {l : List Nat}
    (h : x ∈ (if c then k :: l else l)) : x = k ∨ x ∈ l := by
  split at h <;> simp_all

theorem not_mem_ite_cons {c : Prop} [Decidable c] {x k : Nat} {l : List Nat}
    (h : x ∉ (if c then k :: l else l)) : x ∉ l ∧ (c → x ≠ k) := by
  split at h <;> simp_all

theorem TQ.filterGood_spec {sz : Nat → Nat} (L : Lawful P) {b : Base} (ks : List Nat) :
    ∀ c, L.wf c → TQInv sz L c b →
      L.wf (TQ.filterGood P c ks).1 ∧ TQInv sz L (TQ.filterGood P c ks).1 b ∧
      (∀ x, x ∈ (TQ.filterGood P c ks).2 → x ∈ ks) ∧
      (∀ x, x ∈ ks → x ∉ (TQ.filterGood P c ks).2 → x ∈ b.keys) := by
  induction ks with
  | nil => intro c hw hi; simp [TQ.filterGood, hw, hi]
  | cons k ks ih =>
    intro c hw hi
    obtain ⟨h1, h2, h3, h4⟩ := ih (P.get c k).1 (L.get_wf c k hw) (hi.get hw k)
    simp only [TQ.filterGood]
    refine ⟨h1, h2, ?_, ?_⟩
    · intro x hx
      rcases mem_ite_cons hx with rfl | hx
      · simp
      · exact List.mem_cons_of_mem _ (h3 x hx)
    · intro x hx hnot
      obtain ⟨hn1, hn2⟩ := not_mem_ite_cons hnot
      rcases List.mem_cons.1 hx with rfl | hx
      · cases hq : (P.get c x).2 with
        | none => simp [hq] at hn2
        | some e =>
          have ha := hi x e (L.get_some c x e hw hq)
          cases hh : e.isHave with
          | true => rw [agrees_isHave ha] at hh; exact (Base.present_some b x).1 hh
          | false => simp [hq, hh] at hn2
      · exact h4 x hx hn1

/-- the cache updates after a successful PutMany -/
theorem TQ.foldl_add_inv {sz : Nat → Nat} (L : Lawful P) {b' : Base} (good : List Nat) :
    ∀ c, L.wf c → (∀ j e, (j, e) ∈ L.ents c → j ∈ good ∨ agrees sz b' j e) →
      (∀ k, k ∈ good → k ∈ b'.keys) →
      L.wf (good.foldl (fun c k => P.add c k (.size (sz k))) c) ∧
      TQInv sz L (good.foldl (fun c k => P.add c k (.size (sz k))) c) b' := by
  induction good with
  | nil =>
    intro c hw h _
    refine ⟨hw, fun j e hm => ?_⟩
    rcases h j e hm with h | h
    · simp at h
    · exact h
  | cons k rest ih =>
    intro c hw h hk
    simp only [List.foldl_cons]
    apply ih _ (L.add_wf c k _ hw)
    · intro j e hm
      rcases L.add_ents c k _ _ hw hm with heq | ⟨hm', hne⟩
      · cases heq
        right
        exact ⟨(Base.present_some b' k).2 (hk k (by simp)), rfl⟩
      · rcases h j e hm' with h | h
        · rcases List.mem_cons.1 h with rfl | h
          · exact absurd rfl hne
          · exact Or.inl h
        · exact Or.inr h
    · intro j hj; exact hk j (List.mem_cons_of_mem _ hj)

/-! ### the refinement -/

section main
variable {sz rank : Nat → Nat} {inner : StepFn σ} {R : σ → Base → Prop}

theorem present_insert_other {b : Base} {k j : Nat} (h : j ≠ k) :
    (b.insert k).present (some j) = b.present (some j) := by
  have : j ∈ (b.insert k).keys ↔ j ∈ b.keys := by rw [Base.mem_insert]; simp [h]
  cases h1 : (b.insert k).present (some j) <;> cases h2 : b.present (some j) <;>
    simp_all [Base.present]

theorem present_erase_other {b : Base} {k j : Nat} (h : j ≠ k) :
    (b.erase k).present (some j) = b.present (some j) := by
  have : j ∈ (b.erase k).keys ↔ j ∈ b.keys := by rw [Base.mem_erase]; simp [h]
  cases h1 : (b.erase k).present (some j) <;> cases h2 : b.present (some j) <;>
    simp_all [Base.present]

theorem TQ.readBlock_hit {c : C} {s : σ} {k : Nat} {iop : Op}
    (h : (P.get c k).2 = some (.have false)) :
    TQ.readBlock P inner c s k iop = (((P.get c k).1, s), .notfound) := by
  simp only [TQ.readBlock, h]

theorem TQ.readBlock_miss {c : C} {s : σ} {k : Nat} {iop : Op}
    (h : (P.get c k).2 ≠ some (.have false)) :
    TQ.readBlock P inner c s k iop =
      match (inner s iop).2 with
      | .notfound => ((P.add (P.get c k).1 k (.have false), (inner s iop).1), .notfound)
      | .found n => ((P.add (P.get c k).1 k (.size n), (inner s iop).1), .found n)
      | o => (((P.get c k).1, (inner s iop).1), o) := by
  simp only [TQ.readBlock]
  generalize (P.get c k).2 = q at h ⊢
  match q, h with
  | none, _ => rfl
  | some (.size n), _ => rfl
  | some (.have true), _ => rfl
  | some (.have false), h => exact absurd rfl h

/-- Get / View through the cache -/
theorem TQ.readBlock_sim (L : Lawful P) (h : Refines sz inner R) {c : C} {s : σ} {b : Base} {k : Nat}
    {f : Bool} {iop : Op} (hiop : iop = .get (some k) f ∨ iop = .view (some k) f)
    (hr : TQ.Rel sz L R (c, s) b) :
    TQ.Rel sz L R (TQ.readBlock P inner c s k iop).1 b ∧
      OutOK sz b (.get (some k) f) (TQ.readBlock P inner c s k iop).2 := by
  obtain ⟨hw, hR, hi⟩ := hr
  have hw1 := L.get_wf c k hw
  have hi1 := hi.get hw k
  have hsim := h.sim s b iop hR
  have hb : (Base.step sz b iop).1 = b := by rcases hiop with rfl | rfl <;> simp [Base.step]
  rw [hb] at hsim
  have hO : OutOK sz b (.get (some k) f) (inner s iop).2 := by
    rcases hiop with rfl | rfl
    · exact hsim.2
    · exact outOK_get_view.2 hsim.2
  have hclear : (Base.step sz b (Op.get (some k) f).clear).1 = b := by simp [Base.step, Op.clear]
  by_cases hq : (P.get c k).2 = some (.have false)
  · rw [TQ.readBlock_hit hq]
    have ha := hi k _ (L.get_some c k _ hw hq)
    refine ⟨⟨hw1, hR, hi1⟩, OutOK.of_clear ?_ (hclear ▸ Base.Equiv.refl b)⟩
    simp only [agrees] at ha
    simp [Base.step, Op.clear, ← ha]
  · rw [TQ.readBlock_miss hq]
    -- whatever the cache said, a truthful answer of the store is cached truthfully
    rcases outOK_get hO with he | he
    · simp only [he]; exact ⟨⟨hw1, hsim.1, hi1⟩, he ▸ hO⟩
    · cases hp : b.present (some k) with
      | true =>
        simp only [hp, if_true] at he
        simp only [he]
        exact ⟨⟨L.add_wf _ _ _ hw1, hsim.1, hi1.add hw1 (fun _ _ => rfl) ⟨hp, rfl⟩⟩, he ▸ hO⟩
      | false =>
        simp only [hp] at he
        have he' : (inner s iop).2 = .notfound := by simpa using he
        simp only [he']
        exact ⟨⟨L.add_wf _ _ _ hw1, hsim.1, hi1.add hw1 (fun _ _ => rfl) (by simp [agrees, hp])⟩, he' ▸ hO⟩


theorem TQ.Rel.congr (L : Lawful P) (h : Refines sz inner R) {cs : C × σ} {b b' : Base}
    (hr : TQ.Rel sz L R cs b) (he : Base.Equiv b b') : TQ.Rel sz L R cs b' :=
  ⟨hr.1, h.congr _ _ _ hr.2.1 he, hr.2.2.congr he⟩

/-- The 2Q layer over any store that refines the map refines the map: for every lawful cache
(any eviction policy, any size), whether or not the wrapped store is a Viewer. -/
theorem TQ.refines (L : Lawful P) (h : Refines sz inner R) (viewer : Bool) :
    Refines sz (TQ.step sz rank P inner viewer) (TQ.Rel sz L R) where
  congr := fun _ _ _ hr he => hr.congr L h he
  sim := by
    rintro ⟨c, s⟩ b op hr
    have hr0 := hr
    obtain ⟨hw, hR, hi⟩ := hr
    cases op with
    | has k f =>
      cases k with
      | none =>
        simp only [TQ.step]
        exact ⟨by simpa [Base.step] using hr0, OutOK.of_clear (by simp [Base.step, Op.clear, Base.present])
          (by simpa [Base.step, Op.clear] using Base.Equiv.refl b)⟩
      | some k =>
        have hw1 := L.get_wf c k hw
        have hi1 := hi.get hw k
        have hb : (Base.step sz b (.has (some k) f)).1 = b := by simp [Base.step]
        simp only [TQ.step, hb]
        cases hq : (P.get c k).2 with
        | some e =>
          have ha := hi k e (L.get_some c k e hw hq)
          simp only []
          exact ⟨⟨hw1, hR, hi1⟩, OutOK.of_clear (by simp [Base.step, Op.clear, agrees_isHave ha])
            (by simpa [Base.step, Op.clear] using Base.Equiv.refl b)⟩
        | none =>
          simp only []
          have hsim := h.sim s b (.has (some k) f) hR
          rw [hb] at hsim
          rcases outOK_has hsim.2 with he | he
          · simp only [he]; exact ⟨⟨hw1, hsim.1, hi1⟩, he ▸ hsim.2⟩
          · simp only [he]
            exact ⟨⟨L.add_wf _ _ _ hw1, hsim.1, hi1.add hw1 (fun _ _ => rfl) (by simp [agrees])⟩, he ▸ hsim.2⟩
    | size k f =>
      cases k with
      | none =>
        simp only [TQ.step]
        exact ⟨by simpa [Base.step] using hr0, OutOK.of_clear (by simp [Base.step, Op.clear])
          (by simpa [Base.step, Op.clear] using Base.Equiv.refl b)⟩
      | some k =>
        have hw1 := L.get_wf c k hw
        have hi1 := hi.get hw k
        have hb : (Base.step sz b (.size (some k) f)).1 = b := by simp [Base.step]
        have hsim := h.sim s b (.size (some k) f) hR
        rw [hb] at hsim
        -- the store's answer, cached truthfully
        have miss : ∀ c1, L.wf c1 → TQInv sz L c1 b →
            TQ.Rel sz L R
              (match (inner s (.size (some k) f)).2 with
                | .notfound => ((P.add c1 k (.have false), (inner s (.size (some k) f)).1), Out.notfound)
                | .size n => ((P.add c1 k (.size n), (inner s (.size (some k) f)).1), Out.size n)
                | o => ((c1, (inner s (.size (some k) f)).1), o)).1 b ∧
            OutOK sz b (.size (some k) f)
              (match (inner s (.size (some k) f)).2 with
                | .notfound => ((P.add c1 k (.have false), (inner s (.size (some k) f)).1), Out.notfound)
                | .size n => ((P.add c1 k (.size n), (inner s (.size (some k) f)).1), Out.size n)
                | o => ((c1, (inner s (.size (some k) f)).1), o)).2 := by
          intro c1 hw1 hi1
          rcases outOK_size hsim.2 with he | he
          · simp only [he]; exact ⟨⟨hw1, hsim.1, hi1⟩, he ▸ hsim.2⟩
          · cases hp : b.present (some k) with
            | true =>
              simp only [hp, if_true] at he
              simp only [he]
              exact ⟨⟨L.add_wf _ _ _ hw1, hsim.1, hi1.add hw1 (fun _ _ => rfl) ⟨hp, rfl⟩⟩, he ▸ hsim.2⟩
            | false =>
              simp only [hp] at he
              have he' : (inner s (.size (some k) f)).2 = .notfound := by simpa using he
              simp only [he']
              exact ⟨⟨L.add_wf _ _ _ hw1, hsim.1, hi1.add hw1 (fun _ _ => rfl) (by simp [agrees, hp])⟩, he' ▸ hsim.2⟩
        simp only [TQ.step, hb]
        cases hq : (P.get c k).2 with
        | none => simp only []; exact miss _ hw1 hi1
        | some e =>
          have ha := hi k e (L.get_some c k e hw hq)
          cases e with
          | size n =>
            simp only []
            refine ⟨⟨hw1, hR, hi1⟩, OutOK.of_clear ?_ (by simpa [Base.step, Op.clear] using Base.Equiv.refl b)⟩
            simp [Base.step, Op.clear, ha.1, ha.2]
          | «have» v =>
            cases v with
            | false =>
              simp only []
              refine ⟨⟨hw1, hR, hi1⟩, OutOK.of_clear ?_ (by simpa [Base.step, Op.clear] using Base.Equiv.refl b)⟩
              simp only [agrees] at ha
              simp [Base.step, Op.clear, ← ha]
            | true => simp only []; exact miss _ hw1 hi1
    | get k f =>
      cases k with
      | none =>
        simp only [TQ.step]
        exact ⟨by simpa [Base.step] using hr0, OutOK.of_clear (by simp [Base.step, Op.clear])
          (by simpa [Base.step, Op.clear] using Base.Equiv.refl b)⟩
      | some k =>
        have hb : (Base.step sz b (.get (some k) f)).1 = b := by simp [Base.step]
        simp only [TQ.step, hb]
        exact TQ.readBlock_sim L h (Or.inl rfl) hr0
    | view k f =>
      cases k with
      | none =>
        simp only [TQ.step]
        exact ⟨by simpa [Base.step] using hr0, OutOK.of_clear (by simp [Base.step, Op.clear])
          (by simpa [Base.step, Op.clear] using Base.Equiv.refl b)⟩
      | some k =>
        have hb : (Base.step sz b (.view (some k) f)).1 = b := by simp [Base.step]
        simp only [TQ.step, hb]
        have := TQ.readBlock_sim (k := k) (f := f) (iop := if viewer = true then Op.view (some k) f else Op.get (some k) f) L h
          (by cases viewer <;> simp) hr0
        exact ⟨this.1, outOK_get_view.1 this.2⟩
    | del k f =>
      cases k with
      | none =>
        simp only [TQ.step]
        refine ⟨?_, OutOK.of_clear (by simp [Base.step, Op.clear])
          (by simpa [Base.step, Op.clear] using Base.Equiv.refl b)⟩
        cases f <;> simpa [Base.step] using hr0
      | some k =>
        have hw1 := L.get_wf c k hw
        have hi1 := hi.get hw k
        have hsim := h.sim s b (.del (some k) f) hR
        have miss :
            TQ.Rel sz L R
              (match (inner s (.del (some k) f)).2 with
                | .ok => ((P.add (P.get c k).1 k (.have false), (inner s (.del (some k) f)).1), Out.ok)
                | o => ((P.remove (P.get c k).1 k, (inner s (.del (some k) f)).1), o)).1
              (Base.step sz b (.del (some k) f)).1 ∧
            OutOK sz b (.del (some k) f)
              (match (inner s (.del (some k) f)).2 with
                | .ok => ((P.add (P.get c k).1 k (.have false), (inner s (.del (some k) f)).1), Out.ok)
                | o => ((P.remove (P.get c k).1 k, (inner s (.del (some k) f)).1), o)).2 := by
          rcases outOK_del hsim.2 with ⟨hf, he⟩ | ⟨hf, he | ⟨he, hk⟩⟩
          · subst hf
            simp only [he]
            refine ⟨⟨L.add_wf _ _ _ hw1, hsim.1, hi1.add hw1 ?_ ?_⟩, he ▸ hsim.2⟩
            · intro j hj; simp [Base.step, present_erase_other hj]
            · simp [agrees, Base.step, Base.present, Base.erase]
          · subst hf
            simp only [he]
            refine ⟨⟨L.remove_wf _ _ hw1, hsim.1, hi1.remove hw1 ?_⟩, he ▸ hsim.2⟩
            intro j _; simp [Base.step]
          · subst hf
            simp only [he]
            refine ⟨⟨L.add_wf _ _ _ hw1, hsim.1, hi1.add hw1 ?_ ?_⟩, he ▸ hsim.2⟩
            · intro j _; simp [Base.step]
            · simp [agrees, Base.step, Base.present, hk]
        simp only [TQ.step]
        cases hq : (P.get c k).2 with
        | none => simp only []; exact miss
        | some e =>
          have ha := hi k e (L.get_some c k e hw hq)
          cases e with
          | size n => simp only []; exact miss
          | «have» v =>
            cases v with
            | true => simp only []; exact miss
            | false =>
              simp only []
              simp only [agrees] at ha
              have hk : k ∉ b.keys := by
                intro hk; have := (Base.present_some b k).2 hk; simp [this] at ha
              have heq : Base.Equiv (b.erase k) b := Base.erase_equiv_of_not_mem hk
              refine ⟨?_, OutOK.of_clear (by simp [Base.step, Op.clear]) (by simpa [Base.step, Op.clear] using heq)⟩
              have hrel : TQ.Rel sz L R ((P.get c k).1, s) b := ⟨hw1, hR, hi1⟩
              cases f
              · simpa [Base.step] using hrel.congr L h heq.symm
              · simpa [Base.step] using hrel
    | put k f =>
      have hw1 := L.get_wf c k hw
      have hi1 := hi.get hw k
      have hsim := h.sim s b (.put k f) hR
      have miss :
          TQ.Rel sz L R
            (match (inner s (.put k f)).2 with
              | .ok => ((P.add (P.get c k).1 k (.size (sz k)), (inner s (.put k f)).1), Out.ok)
              | o => ((P.remove (P.get c k).1 k, (inner s (.put k f)).1), o)).1
            (Base.step sz b (.put k f)).1 ∧
          OutOK sz b (.put k f)
            (match (inner s (.put k f)).2 with
              | .ok => ((P.add (P.get c k).1 k (.size (sz k)), (inner s (.put k f)).1), Out.ok)
              | o => ((P.remove (P.get c k).1 k, (inner s (.put k f)).1), o)).2 := by
        rcases outOK_put hsim.2 with ⟨hf, he⟩ | ⟨hf, he | ⟨he, hk⟩⟩
        · subst hf
          simp only [he]
          refine ⟨⟨L.add_wf _ _ _ hw1, hsim.1, hi1.add hw1 ?_ ?_⟩, he ▸ hsim.2⟩
          · intro j hj; simp [Base.step, present_insert_other hj]
          · refine ⟨?_, rfl⟩
            simp [Base.step, Base.present_some, Base.mem_insert]
        · subst hf
          simp only [he]
          refine ⟨⟨L.remove_wf _ _ hw1, hsim.1, hi1.remove hw1 ?_⟩, he ▸ hsim.2⟩
          intro j _; simp [Base.step]
        · subst hf
          simp only [he]
          refine ⟨⟨L.add_wf _ _ _ hw1, hsim.1, hi1.add hw1 ?_ ?_⟩, he ▸ hsim.2⟩
          · intro j _; simp [Base.step]
          · exact ⟨by simpa [Base.step, Base.present_some] using hk, rfl⟩
      simp only [TQ.step]
      cases hq : (P.get c k).2 with
      | none => simp only [Bool.false_eq_true, if_false]; exact miss
      | some e =>
        have ha := hi k e (L.get_some c k e hw hq)
        cases hh : e.isHave with
        | false => simp only [hh, Bool.false_eq_true, if_false]; exact miss
        | true =>
          simp only [hh, if_true]
          have hk : k ∈ b.keys := by
            rw [agrees_isHave ha] at hh; exact (Base.present_some b k).1 hh
          have heq : Base.Equiv (b.insert k) b := Base.insert_equiv_of_mem hk
          refine ⟨?_, OutOK.of_clear (by simp [Base.step, Op.clear]) (by simpa [Base.step, Op.clear] using heq)⟩
          have hrel : TQ.Rel sz L R ((P.get c k).1, s) b := ⟨hw1, hR, hi1⟩
          cases f
          · simpa [Base.step] using hrel.congr L h heq.symm
          · simpa [Base.step] using hrel
    | putMany ks f =>
      obtain ⟨hw1, hi1, hsub, hrest⟩ := TQ.filterGood_spec (sz := sz) L (b := b) ks c hw hi
      simp only [TQ.step]
      by_cases hemp : (TQ.filterGood P c ks).2.isEmpty = true
      · simp only [hemp, if_true]
        have hall : ∀ x, x ∈ ks → x ∈ b.keys := by
          intro x hx; apply hrest x hx
          have : (TQ.filterGood P c ks).2 = [] := by simpa using hemp
          simp [this]
        have heq : Base.Equiv (ks.foldl Base.insert b) b := by
          intro a; rw [Base.mem_foldl_insert]
          exact ⟨fun h' => h'.elim (hall a) id, Or.inr⟩
        refine ⟨?_, OutOK.of_clear (by simp [Base.step, Op.clear]) (by simpa [Base.step, Op.clear] using heq)⟩
        have hrel : TQ.Rel sz L R ((TQ.filterGood P c ks).1, s) b := ⟨hw1, hR, hi1⟩
        cases f
        · simpa [Base.step] using hrel.congr L h heq.symm
        · simpa [Base.step] using hrel
      · simp only [hemp, Bool.false_eq_true, if_false]
        -- the batch that reaches the store: sorted, without duplicates, same members as the filtered list
        have hmem : ∀ x, x ∈ sortDedupBy rank (TQ.filterGood P c ks).2 ↔ x ∈ (TQ.filterGood P c ks).2 :=
          fun x => mem_sortDedupBy
        generalize hgood : sortDedupBy rank (TQ.filterGood P c ks).2 = good at hmem ⊢
        have hsub' : ∀ x, x ∈ good → x ∈ ks := fun x hx => hsub x ((hmem x).1 hx)
        have hrest' : ∀ x, x ∈ ks → x ∉ good → x ∈ b.keys := fun x hx hn => hrest x hx (fun h' => hn ((hmem x).2 h'))
        have hsim := h.sim s b (.putMany good f) hR
        have hO : OutOK sz b (.putMany ks f) (inner s (.putMany good f)).2 := outOK_putMany_congr hrest' hsim.2
        have hbeq : Base.Equiv (Base.step sz b (.putMany good f)).1 (Base.step sz b (.putMany ks f)).1 := by
          cases f
          · intro a
            simp only [Base.step, Bool.false_eq_true, if_false, Base.mem_foldl_insert]
            constructor
            · rintro (ha | ha)
              · exact Or.inl (hsub' a ha)
              · exact Or.inr ha
            · rintro (ha | ha)
              · by_cases hg : a ∈ good
                · exact Or.inl hg
                · exact Or.inr (hrest' a ha hg)
              · exact Or.inr ha
          · simpa [Base.step] using Base.Equiv.refl b
        have hR' := h.congr _ _ _ hsim.1 hbeq
        rcases outOK_putMany hsim.2 with ⟨hf, he⟩ | ⟨hf, he | ⟨he, hk⟩⟩
        · subst hf
          simp only [he]
          have := TQ.foldl_add_inv (sz := sz) L (b' := (Base.step sz b (.putMany ks false)).1) good
            (TQ.filterGood P c ks).1 hw1 ?_ ?_
          · exact ⟨⟨this.1, hR', this.2⟩, he ▸ hO⟩
          · intro j e hm
            by_cases hj : j ∈ good
            · exact Or.inl hj
            · right
              refine agrees_of_present_eq ?_ (hi1 j e hm)
              have : j ∈ (ks.foldl Base.insert b).keys ↔ j ∈ b.keys := by
                rw [Base.mem_foldl_insert]
                exact ⟨fun h' => h'.elim (fun hjk => hrest' j hjk hj) id, Or.inr⟩
              simp only [Base.step, Bool.false_eq_true, if_false]
              cases h1 : (ks.foldl Base.insert b).present (some j) <;> cases h2 : b.present (some j) <;>
                simp_all [Base.present]
          · intro k hk
            simp only [Base.step, Bool.false_eq_true, if_false, Base.mem_foldl_insert]
            exact Or.inl (hsub' k hk)
        · subst hf
          simp only [he]
          exact ⟨⟨hw1, hR', by simpa [Base.step] using hi1⟩, he ▸ hO⟩
        · subst hf
          simp only [he]
          have := TQ.foldl_add_inv (sz := sz) L (b' := b) good (TQ.filterGood P c ks).1 hw1
            (fun j e hm => Or.inr (hi1 j e hm)) hk
          exact ⟨⟨this.1, hR', by simpa [Base.step] using this.2⟩, he ▸ hO⟩
    | enum cut err =>
      have hsim := h.sim s b (.enum cut err) hR
      simp only [TQ.step]
      exact ⟨⟨hw, hsim.1, by simpa [Base.step] using hi⟩, hsim.2⟩
    | build cut err =>
      have hsim := h.sim s b (.build cut err) hR
      simp only [TQ.step]
      exact ⟨⟨hw, hsim.1, by simpa [Base.step] using hi⟩, hsim.2⟩
    | rebuild cut err =>
      have hsim := h.sim s b (.rebuild cut err) hR
      simp only [TQ.step]
      exact ⟨⟨hw, hsim.1, by simpa [Base.step] using hi⟩, hsim.2⟩

end main

end C02
