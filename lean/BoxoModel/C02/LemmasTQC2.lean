import BoxoModel.C02.LemmasTQC
/-! C02 — every event of the tqcache small-step model preserves the invariant. -/
namespace C02.TQC
open C02

theorem dirty_self {s : St} {t : Nat} {th : Thread} {k : Nat} (hw : s.writer k = some t) (ht : s.threads[t]? = some th) :
    dirty s k = dirtyAt th.prog k th.pc := by
  simp [dirty, hw, ht]

theorem dirty_none {s : St} {k : Nat} (hw : s.writer k = none) : dirty s k = false := by
  simp [dirty, hw]

theorem Inv.mk_step {s s' : St} {t : Nat} {th th' : Thread} (hI : Inv s) (hth : s.threads[t]? = some th)
    (hthr : s'.threads = s.threads.set t th') (hF : Frame s s' t) (hself : TI s' t th')
    (wvt : ∀ k, s'.writer k = some t → holdsW th'.prog th'.pc k = true)
    (rvt : ∀ k, t ∈ s'.rholders k → th'.pc.rsec = true ∧ readKey th'.prog = some k)
    (ex' : ∀ k w, s'.writer k = some w → s'.rholders k = [])
    (ci' : ∀ k e, s'.cache k = some e → agr (present s' k) e ∨ dirty s' k = true) : Inv s' := by
  refine ⟨?_, ?_, ?_, ex', ci'⟩
  · intro u thu hu
    rw [hthr] at hu
    by_cases hut : u = t
    · subst hut; rw [set_self hth] at hu; cases hu; exact hself
    · rw [set_other hut] at hu; exact TI.frame hI hF hut hu
  · intro k x hk
    by_cases hxt : x = t
    · subst hxt; exact ⟨th', by rw [hthr]; exact set_self hth, wvt k hk⟩
    · rcases hF.hw k with e | ⟨_, e⟩ | ⟨_, e⟩
      · rw [e] at hk
        obtain ⟨thx, h1, h2⟩ := hI.wv k x hk
        exact ⟨thx, by rw [hthr, set_other hxt]; exact h1, h2⟩
      · rw [e] at hk; cases hk; exact absurd rfl hxt
      · rw [e] at hk; cases hk
  · intro k x hk
    by_cases hxt : x = t
    · subst hxt
      obtain ⟨a, b⟩ := rvt k hk
      exact ⟨th', by rw [hthr]; exact set_self hth, a, b⟩
    · obtain ⟨thx, h1, h2, h3⟩ := hI.rv k x ((hF.hr k x hxt).1 hk)
      exact ⟨thx, by rw [hthr, set_other hxt]; exact h1, h2, h3⟩

/-- the cache invariant after a step of thread `t` -/
theorem ci_step {s s' : St} {t : Nat} {th th' : Thread} (hI : Inv s) (hth : s.threads[t]? = some th)
    (hthr : s'.threads = s.threads.set t th') (hF : Frame s s' t)
    (ha : ∀ k e, s'.cache k = some e → s.cache k = some e ∨ agr (present s' k) e)
    (hb : ∀ k, present s' k ≠ present s k → dirtyAt th'.prog k th'.pc = true ∧ s'.writer k = some t)
    (hc : ∀ k, s.writer k = some t → dirtyAt th.prog k th.pc = true →
      (dirtyAt th'.prog k th'.pc = true ∧ s'.writer k = some t) ∨ (∀ e, s'.cache k = some e → agr (present s' k) e)) :
    ∀ k e, s'.cache k = some e → agr (present s' k) e ∨ dirty s' k = true := by
  have hth' : s'.threads[t]? = some th' := by rw [hthr]; exact set_self hth
  have selfDirty : ∀ k, dirtyAt th'.prog k th'.pc = true → s'.writer k = some t → dirty s' k = true := by
    intro k h1 h2; rw [dirty_self h2 hth']; exact h1
  intro k e hk
  rcases ha k e hk with hold | hnew
  · rcases hI.ci k e hold with hagr | hd
    · by_cases hp : present s' k = present s k
      · rw [hp]; exact Or.inl hagr
      · obtain ⟨h1, h2⟩ := hb k hp
        exact Or.inr (selfDirty k h1 h2)
    · obtain ⟨u, thu, hw, htu, hdu⟩ := dirty_true_iff.1 hd
      by_cases hut : u = t
      · subst hut
        rw [hth] at htu; cases htu
        rcases hc k hw hdu with ⟨h1, h2⟩ | h1
        · exact Or.inr (selfDirty k h1 h2)
        · exact Or.inl (h1 e hk)
      · right
        have hw' : s'.writer k = some u := by
          rcases hF.hw k with e1 | ⟨e1, _⟩ | ⟨e1, _⟩
          · rw [e1]; exact hw
          · rw [e1] at hw; cases hw
          · rw [e1] at hw; cases hw; exact absurd rfl hut
        exact dirty_true_iff.2 ⟨u, thu, hw', by rw [hthr, set_other hut]; exact htu, hdu⟩
  · exact Or.inl hnew

/-- the record of the thread after its step -/
def mv (th : Thread) (pc' : PC) (j : Bool) : Thread := { th with pc := pc', just := th.just || j }

theorem Frame.refl' (s : St) (t : Nat) (th' : Thread) : Frame s (setThread s t th') t :=
  ⟨fun _ => Or.inl rfl, fun _ _ _ => Iff.rfl, fun _ => Or.inl rfl⟩

/-- steps that change nothing but the thread's own pc, between pcs that hold no lock and are not dirty -/
theorem Inv.localStep {s : St} {t : Nat} {th : Thread} {pc' : PC} {j : Bool} (hI : Inv s) (hth : s.threads[t]? = some th)
    (hold : ∀ k, holdsW th.prog th.pc k = false) (hrs : th.pc.rsec = false)
    (hold' : ∀ k, holdsW th.prog pc' k = false) (hrs' : pc'.rsec = false)
    (hd' : ∀ k, dirtyAt th.prog k pc' = false)
    (hpk : progOK th.prog pc' = true)
    (hml : ∀ todo held, pc' = .mLock todo held → (todo ++ held).Nodup)
    (hjs : ∀ a, pc' = .done a → readKey th.prog ≠ none → (th.just || j) = true)
    (hne : (∀ p, pc' ≠ .rCache p) ∧ (∀ p, pc' ≠ .rUnlock p) ∧ pc' ≠ .wCache ∧ (∀ a b, pc' ≠ .mCache a b) ∧ (∀ a, pc' ≠ .mWrite a) ∧ (∀ a, pc' ≠ .mUnlock a)) :
    Inv (setThread s t (mv th pc' j)) := by
  have hT := hI.thr t th hth
  refine hI.mk_step hth rfl (Frame.refl' s t _) ?_ ?_ ?_ hI.ex ?_
  · refine ⟨hpk, ?_, ?_, ?_, ?_, ?_, hml, ?_, ?_, ?_, hjs, ?_⟩
    · intro k hk; have := hold' k; simp [mv] at hk; rw [this] at hk; cases hk
    · intro h; simp [mv] at h; rw [hrs'] at h; cases h
    · intro p k hp; exact absurd hp (hne.1 p)
    · intro hp; exact absurd hp hne.2.2.1
    · intro a b hp; exact absurd hp (hne.2.2.2.1 a b)
    · intro a hp; exact absurd hp (hne.2.2.2.2.1 a)
    · intro a b hp; exact absurd hp (hne.2.2.2.1 a b)
    · intro a hp; exact absurd hp (hne.2.2.2.2.2 a)
    · intro p hp; rcases hp with hp | hp
      · exact absurd hp (hne.1 p)
      · exact absurd hp (hne.2.1 p)
  · intro k hk
    obtain ⟨thx, h1, h2⟩ := hI.wv k t hk
    rw [hth] at h1; cases h1
    rw [hold k] at h2; cases h2
  · intro k hk
    obtain ⟨thx, h1, h2, _⟩ := hI.rv k t hk
    rw [hth] at h1; cases h1
    rw [hrs] at h2; cases h2
  · refine ci_step hI hth rfl (Frame.refl' s t _) (fun k e h => Or.inl h) (fun k h => absurd rfl h) ?_
    intro k hw _
    obtain ⟨thx, h1, h2⟩ := hI.wv k t hw
    rw [hth] at h1; cases h1
    rw [hold k] at h2; cases h2

end C02.TQC
