import BoxoModel.C02.ConcTQ
import BoxoModel.C02.Lemmas
/-!
C02 — inductive invariant of the small-step tqcache model (every interleaving, arbitrary eviction).
-/
namespace C02.TQC
open C02

def PC.rsec : PC → Bool
  | .rRead | .rCache _ | .rUnlock _ => true
  | _ => false

def readKey : Prog → Option Nat
  | .read _ k => some k
  | _ => none

/-- does the thread (program, pc) hold the write lock of key `k`? -/
def holdsW (prog : Prog) (pc : PC) (k : Nat) : Bool :=
  match prog, pc with
  | .put j, .wWrite | .put j, .wCache | .put j, .wUnlock => j == k
  | .del j, .wWrite | .del j, .wCache | .del j, .wUnlock => j == k
  | .putMany _, .mLock _ held => held.contains k
  | .putMany _, .mWrite held => held.contains k
  | .putMany _, .mCache _ held => held.contains k
  | .putMany _, .mUnlock todo => todo.contains k
  | _, _ => false

/-- a cached value tells the truth about presence -/
def agr (p : Bool) : Entry → Prop
  | .have v => v = p
  | .size _ => p = true

theorem hit_agr {kind : RKind} {e : Entry} {a p : Bool} (h : hit kind (some e) = some a) (ha : agr p e) : a = p := by
  cases kind <;> cases e <;> simp_all [hit, agr, Entry.isHave]
  all_goals (rename_i v; cases v <;> simp_all)

theorem dirtyAt_holdsW {prog : Prog} {pc : PC} {k : Nat} (h : dirtyAt prog k pc = true) : holdsW prog pc k = true ∨ True := Or.inr trivial

def progOK : Prog → PC → Bool
  | _, .qQuery => true
  | .read _ _, .rLock | .read _ _, .rRead | .read _ _, .rCache _ | .read _ _, .rUnlock _ => true
  | .put _, .wLock | .put _, .wWrite | .put _, .wCache | .put _, .wUnlock => true
  | .del _, .wLock | .del _, .wWrite | .del _, .wCache | .del _, .wUnlock => true
  | .putMany _, .mQuery _ _ | .putMany _, .mLock _ _ | .putMany _, .mWrite _ | .putMany _, .mCache _ _ | .putMany _, .mUnlock _ => true
  | _, .done _ => true
  | _, _ => false

/-- per-thread part of the invariant -/
structure TI (s : St) (t : Nat) (th : Thread) : Prop where
  pk : progOK th.prog th.pc = true
  wl : ∀ k, holdsW th.prog th.pc k = true → s.writer k = some t
  rl : th.pc.rsec = true → ∀ k, readKey th.prog = some k → t ∈ s.rholders k
  rc : ∀ p k, th.pc = .rCache p → readKey th.prog = some k → p = present s k
  wc : th.pc = .wCache → (∀ k, th.prog = .put k → present s k = true) ∧ (∀ k, th.prog = .del k → present s k = false)
  mc : ∀ todo held, th.pc = .mCache todo held → (∀ k, k ∈ held → present s k = true) ∧ (∀ k, k ∈ todo → k ∈ held)
  ml : ∀ todo held, th.pc = .mLock todo held → (todo ++ held).Nodup
  mw : ∀ held, th.pc = .mWrite held → held.Nodup
  mh : ∀ todo held, th.pc = .mCache todo held → held.Nodup
  mu : ∀ todo, th.pc = .mUnlock todo → todo.Nodup
  js : ∀ a, th.pc = .done a → readKey th.prog ≠ none → th.just = true
  jr : ∀ p, th.pc = .rCache p ∨ th.pc = .rUnlock p → th.just = true

structure Inv (s : St) : Prop where
  thr : ∀ t th, s.threads[t]? = some th → TI s t th
  wv : ∀ k t, s.writer k = some t → ∃ th, s.threads[t]? = some th ∧ holdsW th.prog th.pc k = true
  rv : ∀ k t, t ∈ s.rholders k → ∃ th, s.threads[t]? = some th ∧ th.pc.rsec = true ∧ readKey th.prog = some k
  ex : ∀ k w, s.writer k = some w → s.rholders k = []
  ci : ∀ k e, s.cache k = some e → agr (present s k) e ∨ dirty s k = true

theorem Inv.init {s : St} (h : init s) : Inv s := by
  obtain ⟨hc, hr, hw, ht⟩ := h
  refine ⟨?_, ?_, ?_, ?_, ?_⟩
  · intro t th hth; rw [ht] at hth; simp at hth
  · intro k t hk; rw [hw] at hk; cases hk
  · intro k t hk; rw [hr] at hk; simp at hk
  · intro k w hk; rw [hw] at hk; cases hk
  · intro k e hk; rw [hc] at hk; cases hk

/-! ### list / function-update facts -/

theorem set_self {l : List Thread} {t : Nat} {a b : Thread} (h : l[t]? = some a) : (l.set t b)[t]? = some b := by
  have : t < l.length := by
    cases hlt : decide (t < l.length) with
    | true => simpa using hlt
    | false =>
      have : l.length ≤ t := by simpa using hlt
      rw [List.getElem?_eq_none this] at h; cases h
  simp [this]

theorem set_other {l : List Thread} {t u : Nat} {b : Thread} (h : u ≠ t) : (l.set t b)[u]? = l[u]? := by
  simp [Ne.symm h]

theorem upd_same {α : Type} (f : Nat → α) (k : Nat) (v : α) : upd f k v k = v := by simp [upd]
theorem upd_other {α : Type} (f : Nat → α) {k j : Nat} (v : α) (h : j ≠ k) : upd f k v j = f j := by simp [upd, h]

theorem present_insert (st : List Nat) (k j : Nat) :
    (if st.contains k then st else k :: st).contains j = (st.contains j || j == k) := by
  rw [Bool.eq_iff_iff]
  by_cases h : k ∈ st <;> by_cases hj : j = k <;> simp_all

theorem present_erase (st : List Nat) (k j : Nat) : (st.filter (· != k)).contains j = (st.contains j && j != k) := by
  rw [Bool.eq_iff_iff]
  simp [List.mem_filter]

theorem present_foldl (held st : List Nat) (j : Nat) :
    (held.foldl (fun st k => if st.contains k then st else k :: st) st).contains j = (st.contains j || held.contains j) := by
  induction held generalizing st with
  | nil => simp
  | cons k ks ih =>
    simp only [List.foldl_cons, ih, present_insert]
    rw [Bool.eq_iff_iff]
    simp
    grind

/-! ### dirty -/

theorem dirty_true_iff {s : St} {k : Nat} : dirty s k = true ↔
    ∃ t th, s.writer k = some t ∧ s.threads[t]? = some th ∧ dirtyAt th.prog k th.pc = true := by
  unfold dirty
  constructor
  · intro h
    cases hw : s.writer k with
    | none => simp [hw] at h
    | some t =>
      cases ht : s.threads[t]? with
      | none => simp [hw, ht] at h
      | some th => exact ⟨t, th, rfl, ht, by simpa [hw, ht] using h⟩
  · rintro ⟨t, th, hw, ht, hd⟩; simp [hw, ht, hd]

/-- the frame conditions of one step of thread `t` -/
structure Frame (s s' : St) (t : Nat) : Prop where
  hw : ∀ k, s'.writer k = s.writer k ∨ (s.writer k = none ∧ s'.writer k = some t) ∨ (s.writer k = some t ∧ s'.writer k = none)
  hr : ∀ k x, x ≠ t → (x ∈ s'.rholders k ↔ x ∈ s.rholders k)
  hs : ∀ k, present s' k = present s k ∨ s.writer k = some t

theorem TI.frame {s s' : St} {t u : Nat} {th : Thread} (hI : Inv s) (hF : Frame s s' t) (hut : u ≠ t)
    (hth : s.threads[u]? = some th) : TI s' u th := by
  have h := hI.thr u th hth
  have hpres : ∀ k, s.writer k = some u ∨ u ∈ s.rholders k → present s' k = present s k := by
    intro k hk
    rcases hF.hs k with e | e
    · exact e
    · rcases hk with hk | hk
      · rw [e] at hk; cases hk; exact absurd rfl hut
      · have := hI.ex k t e; rw [this] at hk; simp at hk
  refine ⟨h.pk, ?_, ?_, ?_, ?_, ?_, h.ml, h.mw, h.mh, h.mu, h.js, h.jr⟩
  · intro k hk
    have hwk := h.wl k hk
    rcases hF.hw k with e | ⟨e, _⟩ | ⟨e, _⟩
    · rw [e]; exact hwk
    · rw [e] at hwk; cases hwk
    · rw [e] at hwk; cases hwk; exact absurd rfl hut
  · intro hrs k hk
    exact (hF.hr k u hut).2 (h.rl hrs k hk)
  · intro p k hp hk
    rw [hpres k (Or.inr (h.rl (by rw [hp]; rfl) k hk))]
    exact h.rc p k hp hk
  · intro hp
    refine ⟨fun k hk => ?_, fun k hk => ?_⟩
    · rw [hpres k (Or.inl (h.wl k (by rw [hk, hp]; simp [holdsW])))]; exact (h.wc hp).1 k hk
    · rw [hpres k (Or.inl (h.wl k (by rw [hk, hp]; simp [holdsW])))]; exact (h.wc hp).2 k hk
  · intro todo held hp
    refine ⟨fun k hk => ?_, (h.mc todo held hp).2⟩
    have hprog : ∃ ks, th.prog = .putMany ks := by
      have := h.pk
      rw [hp] at this
      cases hpg : th.prog <;> simp [hpg, progOK] at this
      exact ⟨_, rfl⟩
    obtain ⟨ks, hks⟩ := hprog
    rw [hpres k (Or.inl (h.wl k (by rw [hks, hp]; simpa [holdsW] using hk)))]
    exact (h.mc todo held hp).1 k hk

end C02.TQC
