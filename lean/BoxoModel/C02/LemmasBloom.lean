import BoxoModel.C02.LemmasTQ
/-!
C02 — the Bloom layer refines the uncached store, for every hash family and every enumeration fault.
-/
namespace C02

variable {σ : Type} {hash : Nat → List Nat}

namespace Bloom

theorem hasBits_mono {bits bits' : List Nat} {k : Nat} (hsub : ∀ p, p ∈ bits → p ∈ bits')
    (h : hasBits hash bits k = true) : hasBits hash bits' k = true := by
  simp only [hasBits, List.all_eq_true, List.contains_iff_mem] at h ⊢
  intro p hp
  exact hsub p (h p hp)

theorem mem_addBits {bits : List Nat} {k p : Nat} (h : p ∈ bits) : p ∈ addBits hash bits k := by
  simp [addBits, h]

theorem hasBits_addBits_self (bits : List Nat) (k : Nat) : hasBits hash (addBits hash bits k) k = true := by
  simp only [hasBits, addBits, List.all_eq_true, List.contains_iff_mem]
  intro p hp
  simp [hp]

theorem mem_foldl_addBits {ks bits : List Nat} {p : Nat} (h : p ∈ bits) :
    p ∈ ks.foldl (addBits hash) bits := by
  induction ks generalizing bits with
  | nil => exact h
  | cons k ks ih => exact ih (mem_addBits h)

theorem hasBits_foldl_mem {ks bits : List Nat} {k : Nat} (h : k ∈ ks) :
    hasBits hash (ks.foldl (addBits hash) bits) k = true := by
  induction ks generalizing bits with
  | nil => simp at h
  | cons j ks ih =>
    rcases List.mem_cons.1 h with rfl | h
    · simp only [List.foldl_cons]
      exact hasBits_mono (fun p hp => mem_foldl_addBits hp) (hasBits_addBits_self bits k)
    · exact ih h

end Bloom

/-- `BloomInv`: an active filter contains every key of the store -/
def BloomInv (hash : Nat → List Nat) (st : BloomSt) (b : Base) : Prop :=
  st.active = true → ∀ k, k ∈ b.keys → Bloom.hasBits hash st.bits k = true

def Bloom.Rel (hash : Nat → List Nat) (R : σ → Base → Prop) : BloomSt × σ → Base → Prop :=
  fun x b => R x.2 b ∧ BloomInv hash x.1 b

theorem BloomInv.congr {st : BloomSt} {b b' : Base} (h : BloomInv hash st b)
    (hsub : ∀ k, k ∈ b'.keys → k ∈ b.keys) : BloomInv hash st b' :=
  fun ha k hk => h ha k (hsub k hk)

/-- a conclusive "absent" of the filter is right -/
theorem Bloom.absent_sound {st : BloomSt} {b : Base} (h : BloomInv hash st b) {k : Key}
    (ha : Bloom.absent hash st k = true) : b.present k = false := by
  cases k with
  | none => rfl
  | some j =>
    simp only [Bloom.absent, Bool.and_eq_true, Bool.not_eq_true'] at ha
    cases hp : b.present (some j) with
    | false => rfl
    | true =>
      have := h ha.1 j ((Base.present_some b j).1 hp)
      simp [this] at ha

section main
variable {sz : Nat → Nat} {inner : StepFn σ} {R : σ → Base → Prop}

theorem Bloom.populate_sim (h : Refines sz inner R) {st : BloomSt} {s : σ} {b : Base} (cut : Nat) (err : Bool)
    (hR : R s b) (hinv : BloomInv hash st b) :
    Bloom.Rel hash R (Bloom.populate hash inner st s cut err).1 b := by
  have hsim := h.sim s b (.enum cut err) hR
  have hb : (Base.step sz b (.enum cut err)).1 = b := by simp [Base.step]
  rw [hb] at hsim
  have ho : (inner s (.enum cut err)).2 =
      .keys ((canon b.keys).take cut) (err || decide (cut < (canon b.keys).length)) := by
    have := hsim.2.transparent (by simp [Op.transparent])
    simpa [Base.step] using this
  simp only [Bloom.populate, ho]
  split
  · refine ⟨hsim.1, fun ha k hk => ?_⟩
    exact Bloom.hasBits_mono (fun p hp => Bloom.mem_foldl_addBits hp) (hinv ha k hk)
  · rename_i he
    refine ⟨hsim.1, fun _ k hk => ?_⟩
    have hcut : ¬ cut < (canon b.keys).length := by
      intro hlt; apply he; simp [hlt]
    apply Bloom.hasBits_foldl_mem
    rw [List.take_of_length_le (by omega)]
    exact mem_canon.2 hk

/-- The Bloom layer over any store that refines the map refines the map: for every hash family,
every filter content reachable or not that satisfies `BloomInv`, every enumeration cut / error. -/
theorem Bloom.refines (h : Refines sz inner R) (viewer : Bool) :
    Refines sz (Bloom.step hash inner viewer) (Bloom.Rel hash R) where
  congr := fun _ _ _ hr he => ⟨h.congr _ _ _ hr.1 he, hr.2.congr (fun k hk => (he k).2 hk)⟩
  sim := by
    rintro ⟨st, s⟩ b op ⟨hR, hinv⟩
    have hrel : Bloom.Rel hash R (st, s) b := ⟨hR, hinv⟩
    cases op with
    | has k f =>
      have hb : (Base.step sz b (.has k f)).1 = b := by simp [Base.step]
      simp only [Bloom.step, hb]
      split
      · rename_i ha
        exact ⟨hrel, OutOK.of_clear (by simp [Base.step, Op.clear, Bloom.absent_sound hinv ha])
          (by simpa [Base.step, Op.clear] using Base.Equiv.refl b)⟩
      · have hsim := h.sim s b (.has k f) hR
        rw [hb] at hsim
        exact ⟨⟨hsim.1, hinv⟩, hsim.2⟩
    | size k f =>
      have hb : (Base.step sz b (.size k f)).1 = b := by simp [Base.step]
      simp only [Bloom.step, hb]
      split
      · rename_i ha
        refine ⟨hrel, OutOK.of_clear ?_ (by simpa [Base.step, Op.clear] using Base.Equiv.refl b)⟩
        cases k <;> simp [Base.step, Op.clear, Bloom.absent_sound hinv ha]
      · have hsim := h.sim s b (.size k f) hR
        rw [hb] at hsim
        exact ⟨⟨hsim.1, hinv⟩, hsim.2⟩
    | get k f =>
      have hb : (Base.step sz b (.get k f)).1 = b := by simp [Base.step]
      simp only [Bloom.step, hb]
      split
      · rename_i ha
        refine ⟨hrel, OutOK.of_clear ?_ (by simpa [Base.step, Op.clear] using Base.Equiv.refl b)⟩
        cases k <;> simp [Base.step, Op.clear, Bloom.absent_sound hinv ha]
      · have hsim := h.sim s b (.get k f) hR
        rw [hb] at hsim
        exact ⟨⟨hsim.1, hinv⟩, hsim.2⟩
    | view k f =>
      have hb : (Base.step sz b (.view k f)).1 = b := by simp [Base.step]
      simp only [Bloom.step, hb]
      split
      · rename_i ha
        refine ⟨hrel, OutOK.of_clear ?_ (by simpa [Base.step, Op.clear] using Base.Equiv.refl b)⟩
        cases k <;> simp [Base.step, Op.clear, Bloom.absent_sound hinv ha]
      · cases viewer with
        | true =>
          have hsim := h.sim s b (.view k f) hR
          rw [hb] at hsim
          exact ⟨⟨hsim.1, hinv⟩, hsim.2⟩
        | false =>
          have hsim := h.sim s b (.get k f) hR
          have hb' : (Base.step sz b (.get k f)).1 = b := by simp [Base.step]
          rw [hb'] at hsim
          exact ⟨⟨hsim.1, hinv⟩, outOK_get_view.1 hsim.2⟩
    | del k f =>
      simp only [Bloom.step]
      have hsub : ∀ j, j ∈ (Base.step sz b (.del k f)).1.keys → j ∈ b.keys := by
        intro j hj
        cases f <;> cases k <;> simp [Base.step, Base.mem_erase] at hj <;> simp [hj]
      split
      · rename_i ha
        have hp := Bloom.absent_sound hinv ha
        have heq : Base.Equiv (Base.step sz b (.del k false)).1 b := by
          cases k with
          | none => simpa [Base.step] using Base.Equiv.refl b
          | some j =>
            have hj : j ∉ b.keys := by
              intro hj; have := (Base.present_some b j).2 hj; simp [this] at hp
            simpa [Base.step] using Base.erase_equiv_of_not_mem hj
        refine ⟨⟨?_, hinv.congr hsub⟩, OutOK.of_clear (by cases k <;> simp [Base.step, Op.clear])
          (by simpa [Op.clear] using heq)⟩
        cases f
        · exact h.congr _ _ _ hR heq.symm
        · simpa [Base.step] using hR
      · have hsim := h.sim s b (.del k f) hR
        exact ⟨⟨hsim.1, hinv.congr hsub⟩, hsim.2⟩
    | put k f =>
      have hsim := h.sim s b (.put k f) hR
      simp only [Bloom.step]
      rcases outOK_put hsim.2 with ⟨hf, he⟩ | ⟨hf, he | ⟨he, hk⟩⟩
      · subst hf
        simp only [he]
        refine ⟨⟨hsim.1, fun ha j hj => ?_⟩, he ▸ hsim.2⟩
        simp only [Base.step, Bool.false_eq_true, if_false, Base.mem_insert] at hj
        rcases hj with rfl | hj
        · exact Bloom.hasBits_addBits_self _ _
        · exact Bloom.hasBits_mono (fun p hp => Bloom.mem_addBits hp) (hinv ha j hj)
      · subst hf
        simp only [he]
        exact ⟨⟨hsim.1, by simpa [Base.step] using hinv⟩, he ▸ hsim.2⟩
      · subst hf
        simp only [he]
        refine ⟨⟨hsim.1, fun ha j hj => ?_⟩, he ▸ hsim.2⟩
        simp only [Base.step, if_true] at hj
        exact Bloom.hasBits_mono (fun p hp => Bloom.mem_addBits hp) (hinv ha j hj)
    | putMany ks f =>
      have hsim := h.sim s b (.putMany ks f) hR
      simp only [Bloom.step]
      rcases outOK_putMany hsim.2 with ⟨hf, he⟩ | ⟨hf, he | ⟨he, hk⟩⟩
      · subst hf
        simp only [he]
        refine ⟨⟨hsim.1, fun ha j hj => ?_⟩, he ▸ hsim.2⟩
        simp only [Base.step, Bool.false_eq_true, if_false, Base.mem_foldl_insert] at hj
        rcases hj with hj | hj
        · exact Bloom.hasBits_foldl_mem hj
        · exact Bloom.hasBits_mono (fun p hp => Bloom.mem_foldl_addBits hp) (hinv ha j hj)
      · subst hf
        simp only [he]
        exact ⟨⟨hsim.1, by simpa [Base.step] using hinv⟩, he ▸ hsim.2⟩
      · subst hf
        simp only [he]
        refine ⟨⟨hsim.1, fun ha j hj => ?_⟩, he ▸ hsim.2⟩
        simp only [Base.step, if_true] at hj
        exact Bloom.hasBits_mono (fun p hp => Bloom.mem_foldl_addBits hp) (hinv ha j hj)
    | enum cut err =>
      have hsim := h.sim s b (.enum cut err) hR
      simp only [Bloom.step]
      exact ⟨⟨hsim.1, by simpa [Base.step] using hinv⟩, hsim.2⟩
    | build cut err =>
      simp only [Bloom.step]
      exact ⟨by simpa [Base.step] using Bloom.populate_sim h cut err hR hinv, Or.inl rfl⟩
    | rebuild cut err =>
      simp only [Bloom.step]
      have hfresh : BloomInv hash { active := false, bits := [] } b := by
        intro ha; simp at ha
      have := Bloom.populate_sim (hash := hash) h cut err hR hfresh
      exact ⟨by simpa [Base.step] using this, Or.inl rfl⟩

end main

end C02
