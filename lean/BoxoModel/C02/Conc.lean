import BoxoModel.C02.Model
import BoxoModel.Lib.Steps
/-
C02 — small-step model of `bloomcache` (blockstore/bloom_cache.go, AFTER the `fix:` commit that makes
`hasCached` load the filter pointer first, then `active`, then re-check the pointer).

Granularity: one event = one access to shared memory, in program order:

  hasCached (Has/Get/GetSize/View/DeleteBlock)
      rPtr      bl := b.bloom.Load()
      rActive   b.active.Load()                 false → pass through to the store
      rRecheck  b.bloom.Load() == bl            changed → pass through
      rFilter   bl.HasTS(k)                     false → conclusive "absent" (DeleteBlock: return nil)
      rPass     the call on the wrapped blockstore (atomic map)
  Put/PutMany
      wStore    b.blockstore.Put/PutMany        (the backing map is atomic; store failures are not modelled here)
      wAdd      b.bloom.Load()      } once per block, in order
      wAdding   .AddTS(k)           }
  Rebuild                                       build (the goroutine started by bloomCached)
      bLock     b.buildMu.Lock()                iLock
      bDeact    b.active.Store(false)
      bSwap     b.bloom.Store(fresh)
      bPop      AllKeysChanWithErr (snapshot)   iPop: b.bloom.Load(); iSnap: snapshot
      bAdd      target.AddTS(key)   per delivered key
      bErrFn    errFn()                         error → unlock, return the error (filter stays inactive)
      bActivate b.active.Store(true)
      bUnlock   b.buildMu.Unlock()

Filters are heap objects addressed by an id (`cur` is the atomic pointer), so stale pointers exist
in the model.  Any number of threads, spawned at any time (`Ev.spawn`); the scheduler is the event
list.  The enumeration is an explicit parameter of the snapshot event: `Ev.snap t ks e` delivers the
keys `ks` and the error flag `e`; the only assumption (the one the Go comment in `Rebuild` states) is
the guard `snapOK`: an enumeration that reports no error contains every key that was in the store
when the query was issued.

Ghost state (never read by the program): `writer k` = the Put thread whose store write made `k`
present; per reader `okAbs` / `stable` record, at each of its own steps, whether
`k ∉ store ∨ (the writer of k has not finished adding k to the live filter)` held.
Core-only (imported by the driver).
-/
namespace C02.Conc
open C02

inductive ReadKind where
  | has | get | size | view
  deriving Repr, DecidableEq

inductive Prog where
  | read (kind : ReadKind) (k : Key)
  | del (k : Key)
  | put (ks : List Nat)
  | rebuild
  | build
  deriving Repr, DecidableEq

inductive Res where
  | present | absent | ok | err
  deriving Repr, DecidableEq

inductive PC where
  | rPtr | rActive (p : Nat) | rRecheck (p : Nat) | rFilter (p : Nat) | rPass
  | wStore | wAdd (ks : List Nat) | wAdding (p : Nat) (ks : List Nat)
  | bLock | bDeact | bSwap | bPop
  | iLock | iPop | iSnap (target : Nat)
  | bAdd (target : Nat) (rem : List Nat) (err : Bool)
  | bErrFn (err : Bool)
  | bActivate
  | bUnlock (res : Res)
  | done (res : Res)
  deriving Repr, DecidableEq

structure Thread where
  prog : Prog
  pc : PC
  okAbs : Bool := false    -- ghost
  stable : Bool := true    -- ghost
  deriving Repr

structure St where
  store : List Nat := []
  active : Bool := false
  cur : Nat := 0
  filters : List (List Nat) := [[]]
  lock : Option Nat := none
  threads : List Thread := []
  writer : Nat → Option Nat := fun _ => none   -- ghost

inductive Ev where
  | spawn (p : Prog)
  | step (t : Nat)
  | snap (t : Nat) (ks : List Nat) (e : Bool)
  deriving Repr, DecidableEq

def firstPC : Prog → PC
  | .read _ none | .del none => .rPass          -- undefined CID: hasCached is inconclusive at once
  | .read _ (some _) | .del (some _) => .rPtr
  | .put _ => .wStore
  | .rebuild => .bLock
  | .build => .iLock

def Prog.key : Prog → Key
  | .read _ k | .del k => k
  | _ => none

def getF (s : St) (id : Nat) : List Nat := s.filters.getD id []
def hasF (hash : Nat → List Nat) (s : St) (id : Nat) (k : Nat) : Bool := Bloom.hasBits hash (getF s id) k
def addF (hash : Nat → List Nat) (s : St) (id : Nat) (k : Nat) : List (List Nat) :=
  s.filters.set id (Bloom.addBits hash (getF s id) k)

/-- is the thread at `pc` still going to add `k` to the filter that is live now? -/
def pendingAt (cur : Nat) (k : Nat) : PC → Bool
  | .wAdd ks => ks.contains k
  | .wAdding p ks => ks.tail.contains k || (ks.head? == some k && p == cur)
  | _ => false

/-- ghost: the put that made `k` present has not finished adding `k` to the live filter -/
def pendW (s : St) (k : Nat) : Bool :=
  match s.writer k with
  | some t => match s.threads[t]? with
    | some th => pendingAt s.cur k th.pc
    | none => false
  | none => false

/-- the justification of an "absent" answer, evaluated in one state -/
def absentOK (s : St) (k : Key) : Bool :=
  match k with
  | none => true
  | some k => !s.store.contains k || pendW s k

/-- the only assumption on the backing store's enumeration -/
def snapOK (s : St) (ks : List Nat) (e : Bool) : Bool := e || s.store.all (ks.contains ·)

def setThread (s : St) (t : Nat) (th : Thread) : St := { s with threads := s.threads.set t th }

/-- record the ghost observation of a reader step (evaluated in the state before the step) -/
def observe (s : St) (th : Thread) : Thread :=
  let c := absentOK s th.prog.key
  { th with okAbs := th.okAbs || c, stable := th.stable && !c }

def lockFree (s : St) : Bool := s.lock.isNone

def afterW (ks : List Nat) : PC := match ks with
  | [] => .done .ok
  | _ => .wAdd ks

def afterAdd (tg : Nat) (rem : List Nat) (e : Bool) : PC := match rem with
  | [] => .bErrFn e
  | _ => .bAdd tg rem e

/-- one atomic action of thread `t` (whose record is `th0`) -/
def stepThread (hash : Nat → List Nat) (s : St) (t : Nat) (th0 : Thread) : Option St :=
  let th := observe s th0
  let go (pc : PC) (s' : St) : Option St := some (setThread s' t { th with pc := pc })
  match th.pc with
  -- hasCached
  | .rPtr => go (.rActive s.cur) s
  | .rActive p => if s.active then go (.rRecheck p) s else go .rPass s
  | .rRecheck p => if s.cur == p then go (.rFilter p) s else go .rPass s
  | .rFilter p =>
    match th.prog.key with
    | some k =>
      -- conclusive: "absent" (DeleteBlock then returns nil without deleting; shown as `ok` by the driver)
      if hasF hash s p k then go .rPass s else go (.done .absent) s
    | none => go .rPass s
  | .rPass =>
    match th.prog with
    | .read _ k => go (.done (if (Base.present ⟨s.store⟩ k) then .present else .absent)) s
    | .del (some k) =>
      go (.done .ok) { s with store := s.store.filter (· != k), writer := fun j => if j = k then none else s.writer j }
    | .del none => go (.done .ok) s
    | _ => none
  -- Put / PutMany
  | .wStore =>
    match th.prog with
    | .put ks =>
      let store' := ks.foldl (fun st k => if st.contains k then st else k :: st) s.store
      let writer' := fun j => if ks.contains j && !s.store.contains j then some t else s.writer j
      go (afterW ks) { s with store := store', writer := writer' }
    | _ => none
  | .wAdd [] => go (.done .ok) s
  | .wAdd (k :: ks) => go (.wAdding s.cur (k :: ks)) s
  | .wAdding _ [] => go (.done .ok) s
  | .wAdding p (k :: ks) => go (afterW ks) { s with filters := addF hash s p k }
  -- Rebuild
  | .bLock => if lockFree s then go .bDeact { s with lock := some t } else none
  | .bDeact => go .bSwap { s with active := false }
  | .bSwap => go .bPop { s with cur := s.filters.length, filters := s.filters ++ [[]] }
  | .bPop => none                                  -- needs Ev.snap
  -- initial build
  | .iLock => if lockFree s then go .iPop { s with lock := some t } else none
  | .iPop => go (.iSnap s.cur) s
  | .iSnap _ => none                               -- needs Ev.snap
  -- populate
  | .bAdd tg (k :: rem) e => go (afterAdd tg rem e) { s with filters := addF hash s tg k }
  | .bAdd _ [] e => go (.bErrFn e) s
  | .bErrFn e => if e then go (.bUnlock .err) s else go .bActivate s
  | .bActivate => go (.bUnlock .ok) { s with active := true }
  | .bUnlock r => go (.done r) { s with lock := none }
  | .done _ => none

/-- the snapshot event of a builder -/
def snapThread (s : St) (t : Nat) (th : Thread) (ks : List Nat) (e : Bool) : Option St :=
  if !snapOK s ks e then none
  else match th.pc with
    | .bPop => some (setThread s t { th with pc := afterAdd s.cur ks e })
    | .iSnap tg => some (setThread s t { th with pc := afterAdd tg ks e })
    | _ => none

def step (hash : Nat → List Nat) (s : St) : Ev → Option St
  | .spawn p => some { s with threads := s.threads ++ [{ prog := p, pc := firstPC p }] }
  | .step t => match s.threads[t]? with
    | some th => stepThread hash s t th
    | none => none
  | .snap t ks e => match s.threads[t]? with
    | some th => snapThread s t th ks e
    | none => none

/-- initial states: any store content, filter 0 empty and inactive, no threads -/
def init (s : St) : Prop :=
  s.active = false ∧ s.cur = 0 ∧ s.filters = [[]] ∧ s.lock = none ∧ s.threads = [] ∧ s.writer = fun _ => none

/-! ## schedule points of the harness

The Go hooks can park a goroutine only between source lines, so one harness step may cover two model
events (`rActive;rRecheck`, `wAdd;wAdding`, `iPop;iSnap`, `bActivate;bUnlock`, `bErrFn;bUnlock`).
`pointName` gives the hook a parked thread is waiting at (`none`: not a hook position). -/

def pointName (th : Thread) : Option String :=
  match th.pc with
  | .rPtr => some "has.ptr"
  | .rActive _ => some "has.active"
  | .rFilter _ => some "has.filter"
  | .rPass => some "pass"
  | .wStore => some "put.store"
  | .wAdd (_ :: _) => some "put.add"
  | .bLock => some "rebuild.lock"
  | .bDeact => some "rebuild.deactivate"
  | .bSwap => some "rebuild.swap"
  | .bPop => some "rebuild.populate"
  | .iLock => some "build.lock"
  | .iPop => some "build.populate"
  | .bAdd _ (_ :: _) _ => some "populate.add"
  | .bErrFn _ => some "populate.errfn"
  | .bActivate => some (if th.prog = .build then "build.activate" else "rebuild.activate")
  | _ => none

/-! ## the accesses the program counters stand for (names of the T-gen-4 `steps` extractor)

`Props/C02.lean` compares these lists, by `decide`, with the ordered access lists regenerated from
the Go source on every run (`BoxoModel/Gen/C02.lean`). -/

def accessOf (many : Bool) (prog : Prog) : PC → Option String
  | .rPtr => some "bloom.Load"
  | .rActive _ => some "active.Load"
  | .rRecheck _ => some "bloom.Load"
  | .rFilter _ => some "filter.Has"
  | .rPass => match prog with
    | .read .has _ => some "store.Has"
    | .read .get _ => some "store.Get"
    | .read .size _ => some "store.GetSize"
    | .read .view _ => some "store.View"
    | .del _ => some "store.Delete"
    | _ => none
  | .wStore => some (if many then "store.PutMany" else "store.Put")
  | .wAdd _ => some "bloom.Load"
  | .wAdding _ _ => some "filter.Add"
  | .bLock | .iLock => some "buildMu.Lock"
  | .bUnlock _ => some "defer buildMu.Unlock"
  | .bDeact => some "active.Store(false)"
  | .bSwap => some "bloom.Store"
  | .iPop => some "bloom.Load"
  | .bPop | .iSnap _ => some "store.Enum"
  | .bAdd _ _ _ => some "filter.Add"
  | .bErrFn _ => some "errFn"
  | .bActivate => some "active.Store(true)"
  | .done _ => none

/-- program counters of `hasCached`, `Put`/`PutMany`, `Rebuild`, `build`, `populate` in SOURCE order
(a deferred unlock is listed where the `defer` statement stands; `populate`'s closed-channel branch
with `errFn` precedes the `AddTS` of the loop body in the source text) -/
def pcsHasCached : List PC := [.rPtr, .rActive 0, .rRecheck 0, .rFilter 0]
def pcsPut : List PC := [.wStore, .wAdd [0], .wAdding 0 [0]]
def pcsRebuildHead : List PC := [.bLock, .bUnlock .ok, .bDeact, .bSwap]
def pcsBuildHead : List PC := [.iLock, .bUnlock .ok, .iPop]
def pcsPopulate : List PC := [.bPop, .bErrFn false, .bAdd 0 [0] false]

def accesses (many : Bool) (prog : Prog) (pcs : List PC) : List String := pcs.filterMap (accessOf many prog)

end C02.Conc
