import BoxoModel.C07.Lemmas
import BoxoModel.C08.Model
/-! Helper lemmas for C08: trickle.Append conserves bytes and recorded sizes, terminates without error on
well-sized trickle trees, and keeps the shape `VerifyTrickleDagStructure` checks. -/
set_option linter.unusedSimpArgs false
set_option linter.unusedVariables false
namespace C08
open FileTree C07

/-! ### conservation -/

/-- appendRec-style result `(fsn', fsn'.FileSize(), db')` -/
def RecSpec (b : Builder) (db : DB) (r : Builder × Nat × DB) : Prop :=
  LoopSpec b db (r.1, r.2.2) ∧ r.2.1 = r.1.filesize

theorem newSubtree_spec (w : Nat) (d : Int) (db : DB) (r : DB × FNode × Nat)
    (h : newSubtree w d db = some r) : ChildSpec db r :=
  (fillTrickleRec_spec w _ d {} db r Builder.ok_empty h).child

theorem links_of_getLast {α : Type} (l : List α) (x : α) (h : l.getLast? = some x) :
    l = l.dropLast ++ [x] := by
  have hne : l ≠ [] := by intro e; simp [e] at h
  rw [List.getLast?_eq_some_getLast hne] at h
  simp only [Option.some.injEq] at h
  rw [← h]; exact (List.dropLast_concat_getLast hne).symm

/-- opening the last child and putting a grown version back -/
theorem replaceLast_spec {fsn : Builder} {last : FNode × Nat} {lastChild r1 : Builder} {sz : Nat}
    (hok : fsn.ok) (hl : fsn.links.getLast? = some last) (hg : getChild last.1 = some lastChild) :
    lastChild.ok ∧ contentL fsn.links = contentL fsn.links.dropLast ++ contentL lastChild.links ∧
    (r1.ok → sz = r1.filesize →
      ((Builder'.removeLast fsn).addChild r1.commit sz).ok ∧
      contentL ((Builder'.removeLast fsn).addChild r1.commit sz).links =
        contentL fsn.links.dropLast ++ contentL r1.links ∧
      ((Builder'.removeLast fsn).addChild r1.commit sz).numChildren = fsn.numChildren) := by
  have hsplit := links_of_getLast _ _ hl
  obtain ⟨h1, h2⟩ := hok
  rw [hsplit, wellSizedL_append] at h2
  rw [hsplit, recSum_append] at h1
  simp only [Bool.and_eq_true, wellSizedL_cons, wellSizedL_nil, Bool.and_true, beq_iff_eq] at h2
  simp only [recSum_cons, recSum_nil, Nat.add_zero] at h1
  cases hc : last.1 with
  | leaf d => simp [hc, getChild] at hg
  | node fs cs =>
    simp only [hc, getChild, Option.some.injEq] at hg
    subst hg
    rw [hc] at h2
    simp only [size_node, wellSized_node, Bool.and_eq_true, beq_iff_eq] at h2
    refine ⟨⟨h2.2.2.1, h2.2.2.2⟩, ?_, ?_⟩
    · have e : contentL fsn.links = contentL (fsn.links.dropLast ++ [last]) := congrArg contentL hsplit
      rw [e, contentL_append, contentL_cons, hc]
      simp
    · intro hr hs
      have hrm : Builder'.removeLast fsn = { links := fsn.links.dropLast, filesize := fsn.filesize - last.2 } := by
        simp [Builder'.removeLast, hl]
      rw [hrm]
      refine ⟨?_, ?_, ?_⟩
      · refine Builder.ok_addChild ⟨?_, h2.1⟩ (Builder.wellSized_commit hr) (by simp [hs])
        simp only; omega
      · simp [contentL_append]
      · have : fsn.links.length = fsn.links.dropLast.length + 1 := by
          have := congrArg List.length hsplit
          simpa using this
        simp only [Builder.numChildren, Builder.links_addChild, List.length_append, List.length_cons,
          List.length_nil]
        omega

theorem appendFillLastChildWith_spec (recf : Builder → DB → Int → Option (Builder × Nat × DB))
    (hrec : ∀ b db m r, b.ok → recf b db m = some r → RecSpec b db r)
    (w : Nat) (fsn : Builder) (depth : Int) (rep : Nat) (db : DB) (a : Builder × DB) (hok : fsn.ok)
    (h : appendFillLastChildWith recf w fsn depth rep db = some a) : LoopSpec fsn db a := by
  unfold appendFillLastChildWith at h
  by_cases hn : fsn.numChildren ≤ w
  · simp only [hn, if_true, Option.some.injEq] at h
    subst h; exact LoopSpec.refl hok db
  · simp only [hn, if_false] at h
    cases hl : fsn.links.getLast? with
    | none => simp [hl] at h
    | some last =>
      simp only [hl] at h
      cases hg : getChild last.1 with
      | none => simp [hg] at h
      | some lastChild =>
        simp only [hg] at h
        cases hr : recf lastChild db (depth - 1) with
        | none => simp [hr] at h
        | some r =>
          simp only [hr] at h
          obtain ⟨lok, hcont, hput⟩ := replaceLast_spec (r1 := r.1) (sz := r.2.1) hok hl hg
          obtain ⟨⟨rok, x, t, e⟩, hsz⟩ := hrec _ _ _ _ lok hr
          obtain ⟨pok, pcont, _⟩ := hput rok hsz
          have base : LoopSpec fsn db ((Builder'.removeLast fsn).addChild r.1.commit r.2.1, r.2.2) := by
            refine ⟨pok, x, t, ?_⟩
            simp only at e
            rw [pcont, hcont, e, List.append_assoc]
          by_cases hrep : rep ≠ 0
          · simp only [hrep, ne_eq, not_false_eq_true, if_true] at h
            exact LoopSpec.trans base (repeatLoop_spec _ (newSubtree_spec w depth) _ _ _ _ pok h)
          · simp only [hrep, if_false, Option.some.injEq] at h
            subst h; exact base

theorem enterLayer_spec (w : Nat) (fsn : Builder) (db : DB) (hok : fsn.ok) :
    LoopSpec fsn db ((enterLayer w fsn db).fsn, (enterLayer w fsn db).db) := by
  unfold enterLayer
  simp only
  split
  · exact fillNodeLayer_spec w fsn db hok
  · exact LoopSpec.refl hok db

@[simp] theorem bumpDepth_pending (rep depth : Nat) (db : DB) : (bumpDepth rep depth db).1.pending = db.pending := by
  unfold bumpDepth
  split <;> simp

theorem appendTail_spec (recf : Builder → DB → Int → Option (Builder × Nat × DB))
    (hrec : ∀ b db m r, b.ok → recf b db m = some r → RecSpec b db r)
    (w : Nat) (cond : Nat → Bool) (fsn : Builder) (p : Int) (depth rep : Nat) (db : DB) (r : Builder × DB)
    (hok : fsn.ok) (h : appendTail recf w cond fsn p depth rep db = some r) : LoopSpec fsn db r := by
  unfold appendTail at h
  cases ha : appendFillLastChildWith recf w fsn p rep db with
  | none => simp [ha] at h
  | some a =>
    simp only [ha] at h
    have hsa := appendFillLastChildWith_spec recf hrec w _ _ _ _ _ hok ha
    have h3 := depthLoopC_spec _ _ (fun i db r hr => newSubtree_spec w i db r hr) _ _ _ _ _ hsa.1 h
    have hb : LoopSpec a.1 a.2 (a.1, (bumpDepth rep depth a.2).1) :=
      ⟨hsa.1, [], Took.of_pending_eq (by simp), by simp⟩
    exact LoopSpec.trans hsa (LoopSpec.trans hb h3)

theorem appendRec_spec (w : Nat) : ∀ (fuel : Nat) (fsn : Builder) (db : DB) (m : Int) (r : Builder × Nat × DB),
    fsn.ok → appendRec w fuel fsn db m = some r → RecSpec fsn db r := by
  intro fuel
  induction fuel with
  | zero => intro fsn db m r _ h; simp [appendRec] at h
  | succ fuel ih =>
    intro fsn db m r hok h
    unfold appendRec at h
    by_cases hm : m = 0
    · simp only [hm, if_true, Option.some.injEq] at h
      subst h; exact ⟨LoopSpec.refl hok db, rfl⟩
    · simp only [hm, if_false] at h
      cases hd : db.done.2 with
      | true =>
        simp only [hd, if_true, Option.some.injEq] at h
        subst h
        exact ⟨⟨hok, [], Took.of_pending_eq (by simp), by simp⟩, rfl⟩
      | false =>
        simp only [hd, Bool.false_eq_true, if_false] at h
        have hl := enterLayer_spec w fsn db.done.1 hok
        by_cases he : ((enterLayer w fsn db.done.1).depth : Int) = m
        · simp only [he, if_true, Option.some.injEq] at h
          subst h
          exact ⟨LoopSpec.of_done hl, rfl⟩
        · simp only [he, if_false] at h
          cases ht : appendTail (appendRec w fuel) w (fun i => decide ((i : Int) < m))
              (enterLayer w fsn db.done.1).fsn ((enterLayer w fsn db.done.1).depth : Int)
              (enterLayer w fsn db.done.1).depth (enterLayer w fsn db.done.1).rep (enterLayer w fsn db.done.1).db with
          | none => simp [ht] at h
          | some r1 =>
            simp only [ht, Option.some.injEq] at h
            subst h
            have h2 := appendTail_spec _ (fun b db m r hb hr => ih b db m r hb hr) w _ _ _ _ _ _ _ hl.1 ht
            exact ⟨LoopSpec.of_done (LoopSpec.trans hl h2), rfl⟩

theorem appendB_spec (w hfuel : Nat) (fsn : Builder) (db : DB) (o : AppendOut) (hok : fsn.ok)
    (h : appendB w hfuel fsn db = some o) :
    wellSized o.root = true ∧ content o.root = contentL fsn.links ++ db.flat := by
  unfold appendB at h
  simp only at h
  have hl := enterLayer_spec w fsn db hok
  generalize hdn : (if (enterLayer w fsn db).was0 = true then (enterLayer w fsn db).db.done
    else ((enterLayer w fsn db).db, false)) = dn at h
  have hdnp : dn.1.pending = (enterLayer w fsn db).db.pending := by
    rw [← hdn]; split <;> simp
  have hdn2 : dn.2 = true → (enterLayer w fsn db).db.pending = [] := by
    rw [← hdn]; split
    · intro h2; exact (DB.done_true _).1 h2
    · intro h2; simp at h2
  cases hb : dn.2 with
  | true =>
    simp only [hb, if_true, Option.some.injEq] at h
    subst h
    obtain ⟨lok, x, t, e⟩ := hl
    have := t.all (hdn2 hb)
    exact ⟨Builder.wellSized_commit lok, by simp [e, this]⟩
  | false =>
    simp only [hb, Bool.false_eq_true, if_false] at h
    cases ht : appendTail (appendRec w hfuel) w (fun _ => true) (enterLayer w fsn db).fsn
        (((enterLayer w fsn db).depth : Int) - 1) (enterLayer w fsn db).depth (enterLayer w fsn db).rep dn.1 with
    | none => simp [ht] at h
    | some r1 =>
      simp only [ht, Option.some.injEq] at h
      subst h
      have h2 := appendTail_spec _ (fun b db m r hb hr => appendRec_spec w hfuel b db m r hb hr)
        w _ _ _ _ _ _ _ hl.1 ht
      have hmid : LoopSpec (enterLayer w fsn db).fsn (enterLayer w fsn db).db ((enterLayer w fsn db).fsn, dn.1) :=
        ⟨hl.1, [], Took.of_pending_eq hdnp, by simp⟩
      obtain ⟨fok, x, t, e⟩ := LoopSpec.trans hl (LoopSpec.trans hmid h2)
      have hdone : r1.2.pending = [] := by
        unfold appendTail at ht
        split at ht
        · simp at ht
        · exact depthLoopC_done _ (fun _ => rfl) _ _ _ _ _ _ ht
      have := t.all hdone
      exact ⟨Builder.wellSized_commit fok, by simp [e, this]⟩

/-! ### shape -/

/-- the check `verifyTDagRec(node, D)` applies to the child at index `i` -/
def childOK (st : Bool) (w : Nat) (D : Int) (i : Nat) (t : FNode) : Bool :=
  if i < w then (!st || tshape w 0 t)
  else !(decide ((((i - w) / depthRepeat + 1 : Nat) : Int) ≥ D) && decide (D > 0)) &&
    tshape w (((i - w) / depthRepeat + 1 : Nat) : Int) t

theorem tshapeL_cons' (st : Bool) (w : Nat) (D : Int) (i : Nat) (c : FNode × Nat) (r : List (FNode × Nat)) :
    tshapeL st w D i (c :: r) = (childOK st w D i c.1 && tshapeL st w D (i + 1) r) := by
  rw [tshapeL_cons]; rfl

theorem tshapeL_snoc (st : Bool) (w : Nat) (D : Int) (i : Nat) (a : List (FNode × Nat)) (c : FNode × Nat) :
    tshapeL st w D i (a ++ [c]) = (tshapeL st w D i a && childOK st w D (i + a.length) c.1) := by
  rw [tshapeL_append, tshapeL_cons']; simp

theorem tshapeL_mono (st : Bool) (w : Nat) (a b : Int) (ha : 1 ≤ a) (hab : a ≤ b) (cs : List (FNode × Nat)) :
    ∀ i, tshapeL st w a i cs = true → tshapeL st w b i cs = true := by
  induction cs with
  | nil => intro i _; simp
  | cons c r ih =>
    intro i h
    rw [tshapeL_cons'] at h ⊢
    simp only [Bool.and_eq_true] at h ⊢
    refine ⟨?_, ih _ h.2⟩
    have h1 := h.1
    unfold childOK at h1 ⊢
    by_cases hi : i < w
    · simpa [hi] using h1
    · simp only [hi, if_false, Bool.and_eq_true, Bool.not_eq_true', Bool.and_eq_false_iff,
        decide_eq_false_iff_not, decide_eq_true_eq] at h1 ⊢
      refine ⟨?_, h1.2⟩
      rcases h1.1 with h' | h'
      · left; omega
      · omega

theorem tshape_mono (w : Nat) (a b : Int) (ha : 1 ≤ a) (hab : a ≤ b) (t : FNode)
    (h : tshape w a t = true) : tshape w b t = true := by
  cases t with
  | leaf x => simp at h; omega
  | node fs cs =>
    simp only [tshape_node, Bool.and_eq_true, bne_iff_ne, ne_eq] at h ⊢
    exact ⟨by omega, tshapeL_mono true w a b ha hab cs 0 h.2⟩

/-- `fillTrickleRec(db, node, 0)` (reachable through Append's `depth-1`): leaves only -/
theorem fillTrickleRec_shape0 (w : Nat) (hw : 1 ≤ w) (fuel : Nat) (db : DB) (r : DB × FNode × Nat)
    (h : fillTrickleRec w fuel 0 {} db = some r) : tshape w 1 r.2.1 = true := by
  cases fuel with
  | zero => simp [fillTrickleRec] at h
  | succ fuel =>
    unfold fillTrickleRec at h
    cases fuel with
    | zero => simp [depthLoop, depthLoopC] at h
    | succ f =>
      simp only [depthLoop, depthLoopC] at h
      simp only [Int.reduceNeg, Int.reduceEq, false_or, decide_eq_true_eq] at h
      have : ¬ ((1 : Nat) : Int) < 0 := by omega
      simp only [this, if_false, Option.some.injEq] at h
      subst h
      obtain ⟨l1, l2, _⟩ := fillNodeLayer_leaves w hw db
      simp [Builder.commit, tshapeL_leaves true w 1 _ l1 0 (by simpa [Builder.numChildren] using l2)]

theorem newSubtree_shape (w : Nat) (hw : 1 ≤ w) (p : Int) (g : Nat) (hp0 : 0 ≤ p) (hpg : p ≤ g) (hg : 1 ≤ g)
    (db : DB) (r : DB × FNode × Nat) (h : newSubtree w p db = some r) : tshape w (g : Int) r.2.1 = true := by
  unfold newSubtree at h
  by_cases h0 : p = 0
  · subst h0
    exact tshape_mono w 1 g (by omega) (by omega) _ (fillTrickleRec_shape0 w hw _ db r h)
  · exact tshape_mono w p g (by omega) hpg _ (fillTrickleRec_shape w hw _ p db r (Or.inr (by omega)) h)

theorem newSubtree_subShape (w : Nat) (hw : 1 ≤ w) : SubShape w (fun i => newSubtree w (i : Int)) := by
  intro d db r hd h
  exact newSubtree_shape w hw d d (by omega) (by omega) hd db r h

/-- FillNodeLayer on a node that already has children: only leaves are added, up to `Maxlinks` -/
theorem fillLoop_leaves (w : Nat) : ∀ (fuel : Nat) (b : Builder) (db : DB), w - b.numChildren ≤ fuel →
    b.numChildren ≤ w →
    ∃ new, (fillLoop w newLeafDataNode fuel b db).1.links = b.links ++ new ∧ fullL w 0 new = true ∧
      b.numChildren + new.length ≤ w ∧
      ((fillLoop w newLeafDataNode fuel b db).2.pending ≠ [] → b.numChildren + new.length = w) := by
  intro fuel
  induction fuel with
  | zero =>
    intro b db hf hn
    exact ⟨[], by simp [fillLoop], by simp, by simpa using hn, fun _ => by simp; omega⟩
  | succ fuel ih =>
    intro b db hf hn
    unfold fillLoop
    by_cases hlt : b.numChildren < w
    · simp only [hlt, if_true]
      cases hd : db.done.2 with
      | true =>
        simp only [if_true]
        have hp := (DB.done_true db).1 hd
        exact ⟨[], by simp, by simp, by simpa using hn, fun h => absurd (by simpa using hp) h⟩
      | false =>
        simp only [Bool.false_eq_true, if_false]
        obtain ⟨new, e1, e2, e3, e4⟩ := ih (b.addChild (newLeafDataNode db.done.1).2.1 (newLeafDataNode db.done.1).2.2)
          (newLeafDataNode db.done.1).1 (by simp; omega) (by simp; omega)
        refine ⟨((newLeafDataNode db.done.1).2.1, (newLeafDataNode db.done.1).2.2) :: new, ?_, ?_, ?_, ?_⟩
        · rw [e1]; simp
        · simp [e2, newLeafDataNode]
        · simp at e3 ⊢; omega
        · intro h; have := e4 h; simp at this ⊢; omega
    · simp only [hlt, if_false]
      exact ⟨[], by simp, by simp, by simpa using hn, fun _ => by simp; omega⟩

theorem trickleDepthInfo_spec (n w : Nat) :
    (n < w ∧ trickleDepthInfo n w = (0, 0)) ∨
    (w ≤ n ∧ 1 ≤ (trickleDepthInfo n w).1 ∧ (trickleDepthInfo n w).2 < 4 ∧
      n = w + 4 * ((trickleDepthInfo n w).1 - 1) + (trickleDepthInfo n w).2) := by
  unfold trickleDepthInfo depthRepeat
  by_cases h : n < w
  · left; simp [h]
  · right; simp only [h, if_false]; omega

/-- the situation in which appendFillLastChild / the tail loops run: `g` = current group, `rep` sub-graphs in it -/
def AtGroup (w : Nat) (fsn : Builder) (db : DB) (g rep : Nat) : Prop :=
  1 ≤ g ∧ rep < 4 ∧
  (fsn.numChildren = w + 4 * (g - 1) + rep ∨
    (fsn.numChildren ≤ w ∧ g = 1 ∧ rep = 0 ∧ (db.pending ≠ [] → fsn.numChildren = w)))

theorem enterLayer_shape (st : Bool) (w : Nat) (D : Int) (fsn : Builder) (db : DB) (hs : tshapeL st w D 0 fsn.links = true) :
    tshapeL st w D 0 (enterLayer w fsn db).fsn.links = true ∧
    AtGroup w (enterLayer w fsn db).fsn (enterLayer w fsn db).db (enterLayer w fsn db).depth (enterLayer w fsn db).rep := by
  unfold enterLayer
  simp only
  rcases trickleDepthInfo_spec fsn.numChildren w with ⟨hlt, e⟩ | ⟨hge, h1, h2, h3⟩
  · simp only [e, if_true]
    obtain ⟨new, e1, e2, e3, e4⟩ := fillLoop_leaves w (w - fsn.numChildren) fsn db (Nat.le_refl _) (by omega)
    refine ⟨?_, by omega, by omega, Or.inr ⟨?_, rfl, rfl, ?_⟩⟩
    · show tshapeL st w D 0 (fillLoop w newLeafDataNode (w - fsn.numChildren) fsn db).1.links = true
      rw [e1, tshapeL_append, hs]
      simp only [Bool.true_and, Nat.zero_add]
      exact tshapeL_leaves st w D new e2 _ e3
    · show (fillLoop w newLeafDataNode (w - fsn.numChildren) fsn db).1.links.length ≤ w
      rw [e1]; simpa [Builder.numChildren] using e3
    · intro hp
      show (fillLoop w newLeafDataNode (w - fsn.numChildren) fsn db).1.links.length = w
      rw [e1]; simpa [Builder.numChildren] using e4 hp
  · have hne : ¬ (trickleDepthInfo fsn.numChildren w).1 = 0 := by omega
    simp only [hne, if_false]
    exact ⟨hs, h1, h2, Or.inl h3⟩

/-- what the recursive call must preserve -/
def RecShape (w : Nat) (recf : Builder → DB → Int → Option (Builder × Nat × DB)) : Prop :=
  ∀ b db (m : Int) (D' : Nat) r, 1 ≤ D' → m ≤ D' → tshapeL true w D' 0 b.links = true → recf b db m = some r →
    tshapeL true w D' 0 r.1.links = true

theorem appendFillLastChildWith_shape (st : Bool) (w : Nat) (hw : 1 ≤ w) (recf : Builder → DB → Int → Option (Builder × Nat × DB))
    (hrec : RecShape w recf) (D : Int) (hD : D = -1 ∨ 1 ≤ D) (fsn : Builder) (p : Int) (g rep : Nat) (db : DB)
    (a : Builder × DB) (hat : AtGroup w fsn db g rep) (hp0 : 0 ≤ p) (hpg : p ≤ g)
    (hs : tshapeL st w D 0 fsn.links = true)
    (h : appendFillLastChildWith recf w fsn p rep db = some a) :
    tshapeL st w D 0 a.1.links = true ∧
    (rep ≠ 0 → a.2.pending ≠ [] → a.1.numChildren = w + 4 * g) ∧
    (rep = 0 → a.2.pending ≠ [] → a.1.numChildren = w + 4 * (g - 1)) := by
  obtain ⟨hg, hrep, hcase⟩ := hat
  unfold appendFillLastChildWith at h
  by_cases hn : fsn.numChildren ≤ w
  · simp only [hn, if_true, Option.some.injEq] at h
    subst h
    refine ⟨hs, ?_, ?_⟩
    · intro h0 _; simp only; rcases hcase with h1 | h1 <;> omega
    · intro h0 hp
      simp only at hp ⊢
      rcases hcase with h1 | ⟨_, h2, _, h4⟩
      · omega
      · have := h4 hp; omega
  · simp only [hn, if_false] at h
    have hnum : fsn.numChildren = w + 4 * (g - 1) + rep := by
      rcases hcase with h1 | h1
      · exact h1
      · omega
    cases hl : fsn.links.getLast? with
    | none => simp [hl] at h
    | some last =>
      simp only [hl] at h
      cases hgc : getChild last.1 with
      | none => simp [hgc] at h
      | some lastChild =>
        simp only [hgc] at h
        cases hr : recf lastChild db (p - 1) with
        | none => simp [hr] at h
        | some r =>
          simp only [hr] at h
          have hsplit := links_of_getLast _ _ hl
          have hlen : fsn.links.dropLast.length = fsn.numChildren - 1 := by simp [Builder.numChildren]
          rw [hsplit, tshapeL_snoc] at hs
          simp only [Bool.and_eq_true, Nat.zero_add, hlen] at hs
          obtain ⟨hinit, hlast⟩ := hs
          have hidx : ¬ (fsn.numChildren - 1 < w) := by omega
          unfold childOK at hlast
          simp only [hidx, if_false, Bool.and_eq_true, Bool.not_eq_true', Bool.and_eq_false_iff,
            decide_eq_false_iff_not, decide_eq_true_eq, depthRepeat] at hlast
          cases hc : last.1 with
          | leaf d => simp [hc, getChild] at hgc
          | node fs cs =>
            simp only [hc, getChild, Option.some.injEq] at hgc
            subst hgc
            rw [hc] at hlast
            simp only [tshape_node, Bool.and_eq_true, bne_iff_ne, ne_eq] at hlast
            have hrd1 : 1 ≤ (fsn.numChildren - 1 - w) / 4 + 1 := by omega
            have hpm : p - 1 ≤ (((fsn.numChildren - 1 - w) / 4 + 1 : Nat) : Int) := by omega
            have hnew := hrec _ db (p - 1) _ r hrd1 hpm hlast.2.2 hr
            have hrm : Builder'.removeLast fsn = { links := fsn.links.dropLast, filesize := fsn.filesize - last.2 } := by
              simp [Builder'.removeLast, hl]
            have hs1 : tshapeL st w D 0 ((Builder'.removeLast fsn).addChild r.1.commit r.2.1).links = true := by
              rw [hrm]
              simp only [Builder.links_addChild, tshapeL_snoc, hinit, Bool.true_and, Nat.zero_add, hlen]
              unfold childOK
              simp only [hidx, if_false, Bool.and_eq_true, Bool.not_eq_true', Bool.and_eq_false_iff,
                decide_eq_false_iff_not, decide_eq_true_eq, depthRepeat, Builder.commit, tshape_node,
                bne_iff_ne, ne_eq]
              exact ⟨hlast.1, hlast.2.1, hnew⟩
            have hn1 : ((Builder'.removeLast fsn).addChild r.1.commit r.2.1).numChildren = fsn.numChildren := by
              rw [hrm]
              simp only [Builder.numChildren, Builder.links_addChild, List.length_append, List.length_cons,
                List.length_nil, hlen]
              simp only [Builder.numChildren] at hn
              omega
            by_cases hrep0 : rep ≠ 0
            · simp only [hrep0, ne_eq, not_false_eq_true, if_true] at h
              have hrdg : (fsn.numChildren - 1 - w) / 4 + 1 = g := by omega
              have hm : D = -1 ∨ (g : Int) < D := by
                rcases hlast.1 with h' | h'
                · have h'' := of_decide_eq_false h'
                  right; omega
                · rcases hD with hD | hD
                  · left; exact hD
                  · omega
              obtain ⟨s1, s2⟩ := repeatLoop_shape st w D g hg hm (newSubtree w p)
                (fun db r hr => newSubtree_shape w hw p g hp0 hpg hg db r hr)
                (depthRepeat - rep) rep _ _ a (by simp [depthRepeat]; omega) (by rw [hn1, hnum]) hs1 h
              exact ⟨s1, fun _ hp => s2 hp, fun h0 => absurd h0 hrep0⟩
            · simp only [hrep0, if_false, Option.some.injEq] at h
              subst h
              refine ⟨hs1, fun h0 => absurd h0 hrep0, fun _ _ => ?_⟩
              rw [hn1, hnum]; omega

theorem appendTail_shape (st : Bool) (w : Nat) (hw : 1 ≤ w) (recf : Builder → DB → Int → Option (Builder × Nat × DB))
    (hrec : RecShape w recf) (D : Int) (hD : D = -1 ∨ 1 ≤ D) (cond : Nat → Bool)
    (hcond : ∀ i, cond i = true → D = -1 ∨ (i : Int) < D)
    (fsn : Builder) (p : Int) (g rep : Nat) (db : DB) (r : Builder × DB)
    (hat : AtGroup w fsn db g rep) (hp0 : 0 ≤ p) (hpg : p ≤ g) (hs : tshapeL st w D 0 fsn.links = true)
    (h : appendTail recf w cond fsn p g rep db = some r) : tshapeL st w D 0 r.1.links = true := by
  unfold appendTail at h
  cases ha : appendFillLastChildWith recf w fsn p rep db with
  | none => simp [ha] at h
  | some a =>
    simp only [ha] at h
    obtain ⟨s1, s2, s3⟩ := appendFillLastChildWith_shape st w hw recf hrec D hD fsn p g rep db a hat hp0 hpg hs ha
    have hg := hat.1
    have hb : 1 ≤ (bumpDepth rep g a.2).2 ∧
        ((bumpDepth rep g a.2).1.pending ≠ [] → a.1.numChildren = w + 4 * ((bumpDepth rep g a.2).2 - 1)) := by
      unfold bumpDepth
      by_cases hrep0 : rep ≠ 0
      · simp only [hrep0, ne_eq, not_false_eq_true, if_true]
        cases hd : a.2.done.2 with
        | true =>
          simp only [if_true]
          exact ⟨hg, fun hp => absurd (by simpa using (DB.done_true a.2).1 hd) hp⟩
        | false =>
          simp only [Bool.false_eq_true, if_false]
          refine ⟨by omega, fun hp => ?_⟩
          have := s2 hrep0 (by simpa using hp)
          rw [this]; omega
      · simp only [hrep0, if_false]
        have hr0 : rep = 0 := by omega
        exact ⟨hg, fun hp => s3 hr0 hp⟩
    exact depthLoopC_shape st w D cond hcond _ (newSubtree_subShape w hw) _ _ _ _ _ hb.1 s1 hb.2 h

theorem appendRec_shape (w : Nat) (hw : 1 ≤ w) : ∀ fuel, RecShape w (appendRec w fuel) := by
  intro fuel
  induction fuel with
  | zero => intro b db m D' r _ _ _ h; simp [appendRec] at h
  | succ fuel ih =>
    intro fsn db m D r hD hm hs h
    unfold appendRec at h
    by_cases hm0 : m = 0
    · simp only [hm0, if_true, Option.some.injEq] at h
      subst h; exact hs
    · simp only [hm0, if_false] at h
      cases hd : db.done.2 with
      | true =>
        simp only [hd, if_true, Option.some.injEq] at h
        subst h; exact hs
      | false =>
        simp only [hd, Bool.false_eq_true, if_false] at h
        obtain ⟨e1, e2⟩ := enterLayer_shape true w D fsn db.done.1 hs
        by_cases he : ((enterLayer w fsn db.done.1).depth : Int) = m
        · simp only [he, if_true, Option.some.injEq] at h
          subst h; exact e1
        · simp only [he, if_false] at h
          cases ht : appendTail (appendRec w fuel) w (fun i => decide ((i : Int) < m))
              (enterLayer w fsn db.done.1).fsn ((enterLayer w fsn db.done.1).depth : Int)
              (enterLayer w fsn db.done.1).depth (enterLayer w fsn db.done.1).rep (enterLayer w fsn db.done.1).db with
          | none => simp [ht] at h
          | some r1 =>
            simp only [ht, Option.some.injEq] at h
            subst h
            exact appendTail_shape true w hw _ ih D (Or.inr (by omega)) _
              (fun i hi => Or.inr (by simp only [decide_eq_true_eq] at hi; omega))
              _ _ _ _ _ _ e2 (by omega) (Int.le_refl _) e1 ht

/-- the (possibly relaxed) shape of a root: an internal node whose children satisfy `tshapeL st w D 0` -/
def rootShape (st : Bool) (w : Nat) (D : Int) : FNode → Bool
  | .leaf _ => false
  | .node _ cs => tshapeL st w D 0 cs

theorem rootShape_true (w : Nat) (t : FNode) : rootShape true w (-1) t = tshape w (-1) t := by
  cases t <;> simp [rootShape]

theorem appendB_shape (st : Bool) (w : Nat) (hw : 1 ≤ w) (hfuel : Nat) (fsn : Builder) (db : DB) (o : AppendOut)
    (hs : tshapeL st w (-1) 0 fsn.links = true) (h : appendB w hfuel fsn db = some o) :
    rootShape st w (-1) o.root = true := by
  unfold appendB at h
  simp only at h
  obtain ⟨e1, e2⟩ := enterLayer_shape st w (-1) fsn db hs
  generalize hdn : (if (enterLayer w fsn db).was0 = true then (enterLayer w fsn db).db.done
    else ((enterLayer w fsn db).db, false)) = dn at h
  have hdnp : dn.1.pending = (enterLayer w fsn db).db.pending := by
    rw [← hdn]; split <;> simp
  cases hb : dn.2 with
  | true =>
    simp only [hb, if_true, Option.some.injEq] at h
    subst h
    simp [Builder.commit, rootShape, e1]
  | false =>
    simp only [hb, Bool.false_eq_true, if_false] at h
    cases ht : appendTail (appendRec w hfuel) w (fun _ => true) (enterLayer w fsn db).fsn
        (((enterLayer w fsn db).depth : Int) - 1) (enterLayer w fsn db).depth (enterLayer w fsn db).rep dn.1 with
    | none => simp [ht] at h
    | some r1 =>
      simp only [ht, Option.some.injEq] at h
      subst h
      have e2' : AtGroup w (enterLayer w fsn db).fsn dn.1 (enterLayer w fsn db).depth (enterLayer w fsn db).rep := by
        obtain ⟨a1, a2, a3⟩ := e2
        exact ⟨a1, a2, by rw [hdnp]; exact a3⟩
      have := appendTail_shape st w hw _ (appendRec_shape w hw hfuel) (-1) (Or.inl rfl) _ (fun _ _ => Or.inl rfl)
        _ _ _ _ _ _ e2' (by have := e2.1; omega) (by omega) e1 ht
      simp [Builder.commit, rootShape, this]

/-! ### no error, enough fuel -/

theorem newSubtree_total (w : Nat) (hw : 1 ≤ w) (d : Int) (n : Nat) : SubTotal (newSubtree w d) n := by
  intro db hp _
  unfold newSubtree tfuel
  exact fillTrickleRec_total w hw db.pending.length d db hp (Nat.le_refl _)

theorem height_le_heightL (cs : List (FNode × Nat)) : ∀ c ∈ cs, height c.1 ≤ height.heightL cs := by
  induction cs with
  | nil => intro c hc; simp at hc
  | cons x r ih =>
    intro c hc
    simp only [List.mem_cons] at hc
    simp only [height.heightL]
    rcases hc with rfl | hc
    · omega
    · have := ih c hc; omega

theorem last_is_node (st : Bool) (w : Nat) (D : Int) (fsn : Builder) (last : FNode × Nat)
    (hl : fsn.links.getLast? = some last) (hn : ¬ fsn.numChildren ≤ w) (hs : tshapeL st w D 0 fsn.links = true) :
    ∃ fs cs, last.1 = .node fs cs ∧ ∃ rd : Nat, 1 ≤ rd ∧ tshapeL true w rd 0 cs = true := by
  have hsplit := links_of_getLast _ _ hl
  have hlen : fsn.links.dropLast.length = fsn.numChildren - 1 := by simp [Builder.numChildren]
  rw [hsplit, tshapeL_snoc] at hs
  simp only [Bool.and_eq_true, Nat.zero_add, hlen] at hs
  have hidx : ¬ (fsn.numChildren - 1 < w) := by omega
  have hlast := hs.2
  unfold childOK at hlast
  simp only [hidx, if_false, Bool.and_eq_true] at hlast
  cases hc : last.1 with
  | leaf d =>
    rw [hc] at hlast
    have := hlast.2
    simp only [tshape_leaf, beq_iff_eq, depthRepeat] at this
    omega
  | node fs cs =>
    rw [hc] at hlast
    have := hlast.2
    simp only [tshape_node, Bool.and_eq_true] at this
    exact ⟨fs, cs, rfl, _, Nat.le_add_left 1 _, this.2⟩

/-- what the recursive call must deliver for the last child -/
def RecTotal (w : Nat) (recf : Builder → DB → Int → Option (Builder × Nat × DB)) (F : Nat) : Prop :=
  1 ≤ F → ∀ b db (m : Int), b.ok → (∃ D : Int, tshapeL true w D 0 b.links = true) → (∀ c ∈ b.links, height c.1 + 1 < F) →
    ∃ r, recf b db m = some r

theorem appendFillLastChildWith_total (st : Bool) (w : Nat) (hw : 1 ≤ w)
    (recf : Builder → DB → Int → Option (Builder × Nat × DB)) (F : Nat)
    (hspec : ∀ b db m r, b.ok → recf b db m = some r → RecSpec b db r) (htot : RecTotal w recf F)
    (fsn : Builder) (p : Int) (rep : Nat) (db : DB) (hok : fsn.ok) (D : Int)
    (hs : tshapeL st w D 0 fsn.links = true) (hh : ¬ fsn.numChildren ≤ w → ∀ c ∈ fsn.links, height c.1 < F) :
    ∃ a, appendFillLastChildWith recf w fsn p rep db = some a := by
  unfold appendFillLastChildWith
  by_cases hn : fsn.numChildren ≤ w
  · simp [hn]
  · simp only [hn, if_false]
    cases hl : fsn.links.getLast? with
    | none =>
      have : fsn.links = [] := by simpa using hl
      simp [Builder.numChildren, this] at hn
    | some last =>
      simp only
      obtain ⟨fs, cs, hc, rd, hrd, hcs⟩ := last_is_node st w D fsn last hl hn hs
      have hmem : last ∈ fsn.links := by
        rw [links_of_getLast _ _ hl]; simp
      have hhl := hh hn last hmem
      rw [hc] at hhl
      simp only [height] at hhl
      have hg : getChild last.1 = some { links := cs, filesize := fs } := by simp [hc, getChild]
      simp only [hg]
      obtain ⟨lok, _, hput⟩ := replaceLast_spec (r1 := ({} : Builder)) (sz := 0) hok hl hg
      obtain ⟨r, hr⟩ := htot (by omega) { links := cs, filesize := fs } db (p - 1) lok ⟨rd, hcs⟩
        (fun c hcm => by have := height_le_heightL cs c hcm; simp only at hcm; omega)
      simp only [hr]
      by_cases hrep : rep ≠ 0
      · simp only [hrep, ne_eq, not_false_eq_true, if_true]
        obtain ⟨⟨rok, _⟩, hsz⟩ := hspec _ _ _ _ lok hr
        obtain ⟨_, _, hput'⟩ := replaceLast_spec (r1 := r.1) (sz := r.2.1) hok hl hg
        obtain ⟨pok, _, _⟩ := hput' rok hsz
        obtain ⟨a, ha, _⟩ := repeatLoop_total (newSubtree w p) (depthRepeat - rep) _ r.2.2 pok
          (newSubtree_total w hw p _)
        exact ⟨a, ha⟩
      · simp [hrep]

theorem appendTail_total (st : Bool) (w : Nat) (hw : 1 ≤ w)
    (recf : Builder → DB → Int → Option (Builder × Nat × DB)) (F : Nat)
    (hspec : ∀ b db m r, b.ok → recf b db m = some r → RecSpec b db r) (htot : RecTotal w recf F)
    (cond : Nat → Bool) (fsn : Builder) (p : Int) (depth rep : Nat) (db : DB) (hok : fsn.ok) (D : Int)
    (hs : tshapeL st w D 0 fsn.links = true) (hh : ¬ fsn.numChildren ≤ w → ∀ c ∈ fsn.links, height c.1 < F) :
    ∃ r, appendTail recf w cond fsn p depth rep db = some r := by
  unfold appendTail
  obtain ⟨a, ha⟩ := appendFillLastChildWith_total st w hw recf F hspec htot fsn p rep db hok D hs hh
  simp only [ha]
  have hsa := appendFillLastChildWith_spec recf hspec w _ _ _ _ _ hok ha
  exact depthLoopC_total cond _ _ _ _ _ hsa.1 (by simp [tfuel])
    (fun d => newSubtree_total w hw d _)

theorem fullL_zero_height (w : Nat) (l : List (FNode × Nat)) (h : fullL w 0 l = true) :
    ∀ c ∈ l, height c.1 = 0 := by
  induction l with
  | nil => intro c hc; simp at hc
  | cons x r ih =>
    intro c hc
    simp only [fullL_cons, Bool.and_eq_true] at h
    simp only [List.mem_cons] at hc
    rcases hc with rfl | hc
    · obtain ⟨d, hd⟩ := (full_zero_iff w c.1).1 h.1
      rw [hd]; simp [height]
    · exact ih h.2 c hc

theorem enterLayer_height (w : Nat) (fsn : Builder) (db : DB) (F : Nat)
    (hh : ∀ c ∈ fsn.links, height c.1 < F) :
    ¬ (enterLayer w fsn db).fsn.numChildren ≤ w → ∀ c ∈ (enterLayer w fsn db).fsn.links, height c.1 < F := by
  unfold enterLayer
  simp only
  split
  · rename_i h0
    have hlt : fsn.numChildren < w := by
      rcases trickleDepthInfo_spec fsn.numChildren w with ⟨h, _⟩ | ⟨_, h, _⟩
      · exact h
      · omega
    obtain ⟨new, e1, _, e3, _⟩ := fillLoop_leaves w (w - fsn.numChildren) fsn db (Nat.le_refl _) (by omega)
    intro hn
    exfalso; apply hn
    show (fillLoop w newLeafDataNode (w - fsn.numChildren) fsn db).1.links.length ≤ w
    rw [e1]; simpa [Builder.numChildren] using e3
  · intro _; exact hh

theorem appendRec_total (w : Nat) (hw : 1 ≤ w) : ∀ F, RecTotal w (appendRec w F) F := by
  intro F
  induction F with
  | zero => intro h; omega
  | succ F ih =>
    intro _ fsn db m hok ⟨D, hs⟩ hh
    unfold appendRec
    by_cases hm0 : m = 0
    · simp [hm0]
    · simp only [hm0, if_false]
      cases hd : db.done.2 with
      | true => simp
      | false =>
        simp only [Bool.false_eq_true, if_false]
        by_cases he : ((enterLayer w fsn db.done.1).depth : Int) = m
        · simp [he]
        · simp only [he, if_false]
          obtain ⟨e1, _⟩ := enterLayer_shape true w D fsn db.done.1 hs
          have hl := enterLayer_spec w fsn db.done.1 hok
          obtain ⟨r, hr⟩ := appendTail_total true w hw (appendRec w F) F
            (fun b db m r hb hr => appendRec_spec w F b db m r hb hr) ih
            (fun i => decide ((i : Int) < m)) (enterLayer w fsn db.done.1).fsn
            ((enterLayer w fsn db.done.1).depth : Int)
            (enterLayer w fsn db.done.1).depth (enterLayer w fsn db.done.1).rep (enterLayer w fsn db.done.1).db
            hl.1 D e1
            (enterLayer_height w fsn db.done.1 F (fun c hc => by have := hh c hc; omega))
          simp [hr]

theorem append_total (st : Bool) (w : Nat) (hw : 1 ≤ w) (t : FNode) (cs : List Chunk) (hws : wellSized t = true)
    (hs : rootShape st w (-1) t = true) : ∃ o, append w t cs = some o := by
  cases t with
  | leaf d => simp [rootShape] at hs
  | node fs links =>
    simp only [rootShape] at hs
    simp only [wellSized_node, Bool.and_eq_true, beq_iff_eq] at hws
    have hok : ({ links := links, filesize := fs } : Builder).ok := ⟨hws.1, hws.2⟩
    simp only [append, getChild, appendB]
    generalize hdn : (if (enterLayer w { links := links, filesize := fs } { spl := cs }).was0 = true then
      (enterLayer w { links := links, filesize := fs } { spl := cs }).db.done
      else ((enterLayer w { links := links, filesize := fs } { spl := cs }).db, false)) = dn
    cases hb : dn.2 with
    | true => simp
    | false =>
      simp only [Bool.false_eq_true, if_false]
      obtain ⟨e1, _⟩ := enterLayer_shape st w (-1) { links := links, filesize := fs } { spl := cs } hs
      have hl := enterLayer_spec w { links := links, filesize := fs } { spl := cs } hok
      obtain ⟨r, hr⟩ := appendTail_total st w hw (appendRec w (height (.node fs links) + 1)) (height (.node fs links) + 1)
        (fun b db m r hb hr => appendRec_spec w _ b db m r hb hr) (appendRec_total w hw _)
        (fun _ => true) (enterLayer w { links := links, filesize := fs } { spl := cs }).fsn
        (((enterLayer w { links := links, filesize := fs } { spl := cs }).depth : Int) - 1)
        (enterLayer w { links := links, filesize := fs } { spl := cs }).depth
        (enterLayer w { links := links, filesize := fs } { spl := cs }).rep dn.1 hl.1 (-1) e1
        (enterLayer_height w _ _ _ (fun c hc => by
          have := height_le_heightL links c hc
          simp only [height]; omega))
      simp [hr]

/-- the mtime of the root is touched only on the early return: the FillNodeLayer branch was taken and
consumed everything; the result is that layer committed -/
theorem appendB_touched (w hfuel : Nat) (fsn : Builder) (db : DB) (o : AppendOut)
    (h : appendB w hfuel fsn db = some o) (ht : o.mtimeTouched = true) :
    (enterLayer w fsn db).was0 = true ∧ o.root = (enterLayer w fsn db).fsn.commit := by
  unfold appendB at h
  simp only at h
  generalize hdn : (if (enterLayer w fsn db).was0 = true then (enterLayer w fsn db).db.done
    else ((enterLayer w fsn db).db, false)) = dn at h
  cases hb : dn.2 with
  | true =>
    simp only [hb, if_true, Option.some.injEq] at h
    subst h
    refine ⟨?_, rfl⟩
    cases hw0 : (enterLayer w fsn db).was0 with
    | true => rfl
    | false => simp [hw0] at hdn; rw [← hdn] at hb; simp at hb
  | false =>
    simp only [hb, Bool.false_eq_true, if_false] at h
    split at h
    · simp at h
    · simp only [Option.some.injEq] at h
      subst h; simp at ht

theorem enterLayer_was0 (w : Nat) (fsn : Builder) (db : DB) (h : (enterLayer w fsn db).was0 = true) :
    fsn.numChildren < w ∧ ∃ new, (enterLayer w fsn db).fsn.links = fsn.links ++ new ∧ fullL w 0 new = true := by
  unfold enterLayer at h ⊢
  simp only at h ⊢
  rcases trickleDepthInfo_spec fsn.numChildren w with ⟨hlt, e⟩ | ⟨hge, h1, _, _⟩
  · simp only [e, if_true]
    obtain ⟨new, e1, e2, _, _⟩ := fillLoop_leaves w (w - fsn.numChildren) fsn db (Nat.le_refl _) (by omega)
    exact ⟨hlt, new, e1, e2⟩
  · have hne : ¬ (trickleDepthInfo fsn.numChildren w).1 = 0 := by omega
    simp [hne] at h

end C08
