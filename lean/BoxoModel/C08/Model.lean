import BoxoModel.C07.Model
/-!
C08 — trickle.Append: executable model.

Transcribed from /repo/ipld/unixfs/importer/trickle/trickledag.go:
  trickleDepthInfo      ~ `trickleDepthInfo`
  Append                ~ `append`            (on the `FSNodeOverDag` made by `NewFSNFromDag(base)`)
  appendFillLastChild   ~ `appendFillLastChildWith` (parametrised by the recursive `appendRec`)
  appendRec             ~ `appendRec`         (fuel bounds the descent along the last-child spine)
  fsn.GetChild(last)    ~ `getChild`          (a leaf there ⇒ `none`: Go returns ErrNotProtobuf for a RawNode;
                                               never reached on trees that verify as trickle DAGs)
  fsn.RemoveChild(last) ~ `Builder.removeLast` (drops the link and its block size, subtracts it from filesize)
The builders (`fillNodeLayer`, `fillTrickleRec`, the repeat / depth loops, `DB`, `Builder`) are those of C07.
`maxDepth` / `depth` are Go `int`s that do become negative here (`Append` passes `depth-1`,
`appendFillLastChild` passes `depth-1` again), hence `Int`.
`none` = error or out of fuel; C08.append_total shows neither happens on well-sized trickle trees.
The model follows the code AFTER the fix "trickle.Append skipped a depth level …" (worktree branch
verif/import): `depth++` after appendFillLastChild happens only when `repeatNumber != 0`.
Core-only.
-/
namespace C08
open FileTree C07

/-- trickleDepthInfo(node, maxlinks) on the number of children -/
def trickleDepthInfo (n w : Nat) : Nat × Nat :=
  if n < w then (0, 0) else ((n - w) / depthRepeat + 1, (n - w) % depthRepeat)

/-- NewFSNFromDag on the node behind a link: only dag-pb nodes with links are expected here -/
def getChild : FNode → Option Builder
  | .leaf _ => none
  | .node fs cs => some { links := cs, filesize := fs }

namespace Builder'
/-- RemoveChild(last) -/
def removeLast (b : Builder) : Builder :=
  match b.links.getLast? with
  | none => b
  | some c => { links := b.links.dropLast, filesize := b.filesize - c.2 }
end Builder'

/-- fuel for a `fillTrickleRec` call: C07.fillTrickleRec_total shows `pending + 2` always suffices -/
def tfuel (db : DB) : Nat := db.pending.length + 2

/-- the sub-tree constructor used by all the append loops: `fillTrickleRec(db, NewFSNodeOverDag, depth)` -/
def newSubtree (w : Nat) (depth : Int) (db : DB) : Option (DB × FNode × Nat) :=
  fillTrickleRec w (tfuel db) depth {} db

/-- appendFillLastChild(ctx, fsn, depth, repeatNumber, db), with the recursive appendRec as a parameter -/
def appendFillLastChildWith (recf : Builder → DB → Int → Option (Builder × Nat × DB)) (w : Nat)
    (fsn : Builder) (depth : Int) (repeatNumber : Nat) (db : DB) : Option (Builder × DB) :=
  if fsn.numChildren ≤ w then some (fsn, db)
  else
    match fsn.links.getLast? with
    | none => none
    | some last =>
      match getChild last.1 with
      | none => none
      | some lastChild =>
        match recf lastChild db (depth - 1) with
        | none => none
        | some r =>
          let fsn1 := (Builder'.removeLast fsn).addChild r.1.commit r.2.1
          if repeatNumber ≠ 0 then
            repeatLoop (newSubtree w depth) (depthRepeat - repeatNumber) fsn1 r.2.2
          else some (fsn1, r.2.2)

/-- state after `depth, repeatNumber := trickleDepthInfo(fsn, maxlinks); if depth == 0 { FillNodeLayer(fsn); depth++ }`
(`was0` remembers that the FillNodeLayer branch was taken) -/
structure Layer where
  fsn : Builder
  db : DB
  depth : Nat
  rep : Nat
  was0 : Bool

def enterLayer (w : Nat) (fsn : Builder) (db : DB) : Layer :=
  let di := trickleDepthInfo fsn.numChildren w
  if di.1 = 0 then
    let l := fillNodeLayer w fsn db
    { fsn := l.1, db := l.2, depth := 1, rep := di.2, was0 := true }
  else { fsn := fsn, db := db, depth := di.1, rep := di.2, was0 := false }

/-- `if repeatNumber != 0 && !db.Done() { depth++ }` — the code after the fix (before it: `if !db.Done()`) -/
def bumpDepth (rep depth : Nat) (db : DB) : DB × Nat :=
  if rep ≠ 0 then
    let d := db.done
    (d.1, if d.2 then depth else depth + 1)
  else (db, depth)

/-- common tail of Append and appendRec: appendFillLastChild(fsn, p, repeatNumber); the depth bump;
`for i := depth; cond(i) && !db.Done(); i++ { for j := 0; j < depthRepeat && !db.Done(); j++ { … } }` -/
def appendTail (recf : Builder → DB → Int → Option (Builder × Nat × DB)) (w : Nat) (cond : Nat → Bool)
    (fsn : Builder) (p : Int) (depth rep : Nat) (db : DB) : Option (Builder × DB) :=
  match appendFillLastChildWith recf w fsn p rep db with
  | none => none
  | some a =>
    let bd := bumpDepth rep depth a.2
    depthLoopC cond (fun i => newSubtree w i) (tfuel bd.1) bd.2 a.1 bd.1

/-- appendRec(ctx, fsn, db, maxDepth): `(fsn', fsn'.FileSize(), db')` -/
def appendRec (w : Nat) : Nat → Builder → DB → Int → Option (Builder × Nat × DB)
  | 0, _, _, _ => none
  | fuel + 1, fsn, db, maxDepth =>
    if maxDepth = 0 then some (fsn, fsn.filesize, db)
    else
      let d0 := db.done
      if d0.2 then some (fsn, fsn.filesize, d0.1)
      else
        let e := enterLayer w fsn d0.1
        if (e.depth : Int) = maxDepth then some (e.fsn, e.fsn.filesize, e.db)
        else
          match appendTail (appendRec w fuel) w (fun i => decide ((i : Int) < maxDepth))
              e.fsn e.depth e.depth e.rep e.db with
          | none => none
          | some r => some (r.1, r.1.filesize, r.2)

/-- height of a file tree: bounds the descent of appendRec along the last children -/
def height : FNode → Nat
  | .leaf _ => 0
  | .node _ cs => heightL cs + 1
where
  heightL : List (FNode × Nat) → Nat
    | [] => 0
    | c :: r => max (height c.1) (heightL r)

structure AppendOut where
  root : FNode
  /-- `fsn.SetModTime(time.Now())` was executed (it is, only if the old root had an mtime) -/
  mtimeTouched : Bool

/-- Append(ctx, basen, db) for `basen` a ProtoNode given as its `FSNodeOverDag` (`NewFSNFromDag(base)`);
`hfuel` bounds the recursion along the spine of last children. -/
def appendB (w : Nat) (hfuel : Nat) (fsn : Builder) (db : DB) : Option AppendOut :=
  let e := enterLayer w fsn db
  -- inside `if depth == 0 { … }`: `if db.Done() { touch mtime; return fsn.Commit() }`
  let dn := if e.was0 then e.db.done else (e.db, false)
  if dn.2 then some { root := e.fsn.commit, mtimeTouched := true }
  else
    match appendTail (appendRec w hfuel) w (fun _ => true) e.fsn ((e.depth : Int) - 1) e.depth e.rep dn.1 with
    | none => none
    | some r => some { root := r.1.commit, mtimeTouched := false }

/-- Append on a tree: the base must be a dag-pb node with links (a trickle root always is) -/
def append (w : Nat) (t : FNode) (cs : List Chunk) : Option AppendOut :=
  match getChild t with
  | none => none
  | some fsn => appendB w (height t + 1) fsn { spl := cs }

end C08
