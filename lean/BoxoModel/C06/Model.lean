/-
C06 — chunker: executable model of the splitters and of the spec-string parser.

Transcribed from /repo/chunker/{splitting,buzhash,rabin,parse,registry}.go and from `io.ReadFull`/`io.ReadAtLeast`.

* `Rd` is an `io.Reader` over a byte string with a *fragmentation oracle*: the k-th `Read` call delivers at most
  `frags[k]` bytes (0 = an empty read with a nil error); once the oracle is exhausted every `Read` delivers as
  much as was asked for.  `eofWithData` makes the `Read` that delivers the last byte return `io.EOF` with it.
* `readFull` is `io.ReadFull` (the `for n < min && err == nil` loop of `io.ReadAtLeast` and its error mapping).
* `SizeSt` = `sizeSplitterv2 {r, size, err}`, `BuzSt` = `Buzhash {r, buf[:n], err}`.
* `Cdc`/`CdcSt`: a generic content-defined chunker (the shape of `whyrusleeping/chunker`, which is external):
  the boundary decision is an arbitrary rolling automaton over the bytes of the current chunk
  (`init` may depend on the absolute offset where the chunk starts).  Rabin is an instance only by T-corr.
* `parseSpec` = `FromString` + `parseSizeString`/`parseRabinString`/`parseBuzhashString` with `strconv.Atoi`,
  `strings.Split`, `strings.Cut` on ASCII strings.
Core-only (no Mathlib): this file is imported by the line-protocol driver.
-/
namespace C06

abbrev Bytes := List UInt8

/-! ## io.Reader with a fragmentation oracle, io.ReadFull -/

structure Rd where
  data : Bytes
  frags : List Nat := []
  eofWithData : Bool := false

/-- error classes of `io.ReadFull` -/
inductive RErr where
  | ok | eof | unexpectedEOF
  deriving DecidableEq, Repr, Inhabited

/-- The loop of `io.ReadAtLeast(r, buf, len(buf))`: `need` bytes still missing, `acc` = bytes read so far
(reversed).  Result: (bytes in buf[:n], oracle left, data left, error after the `n >= min` mapping). -/
def readFullGo (ewd : Bool) : List Nat → Bytes → Nat → Bytes → Bytes × List Nat × Bytes × RErr
  | frags, data, 0, acc => (acc.reverse, frags, data, .ok)                     -- `n < min` false: no Read call
  | frags, [], _ + 1, acc =>                                                    -- Read = (0, io.EOF)
    (acc.reverse, frags.tail, [], if acc.isEmpty then .eof else .unexpectedEOF)
  | [], b :: data, need + 1, acc =>                                             -- unfragmented Read
    let got := (b :: data).take (need + 1)
    let rest := (b :: data).drop (need + 1)
    -- a short read is followed by Read = (0, EOF) (or EOF came with the data): n > 0 ⇒ ErrUnexpectedEOF
    ((got.reverse ++ acc).reverse, [], rest, if got.length = need + 1 then .ok else .unexpectedEOF)
  | f :: fs, b :: data, need + 1, acc =>
    let k := min f (need + 1)
    let got := (b :: data).take k
    let rest := (b :: data).drop k
    if ewd && rest.isEmpty && !got.isEmpty then
      -- this Read returned (len got, io.EOF): loop ends; `n >= min` maps the error to nil
      ((got.reverse ++ acc).reverse, fs, rest, if got.length = need + 1 then .ok else .unexpectedEOF)
    else readFullGo ewd fs rest (need + 1 - got.length) (got.reverse ++ acc)

/-- `io.ReadFull(r, buf)` with `len(buf) = want`. -/
def Rd.readFull (r : Rd) (want : Nat) : Rd × Bytes × RErr :=
  let x := readFullGo r.eofWithData r.frags r.data want []
  ({ r with data := x.2.2.1, frags := x.2.1 }, x.1, x.2.2.2)

/-- All `some` answers of a `NextBytes`-like step function until the first error answer. -/
def drain {σ : Type} (next : σ → σ × Option Bytes) : Nat → σ → List Bytes × σ
  | 0, s => ([], s)
  | fuel + 1, s =>
    match next s with
    | (s', some c) => let r := drain next fuel s'; (c :: r.1, r.2)
    | (s', none) => ([], s')

/-! ## sizeSplitterv2 -/

structure SizeSt where
  r : Rd
  size : Nat
  err : Bool := false      -- ss.err == io.EOF

/-- `NextBytes`; `none` = `(nil, io.EOF)`. -/
def SizeSt.next (s : SizeSt) : SizeSt × Option Bytes :=
  if s.err then (s, none)
  else
    match s.r.readFull s.size with
    | (r', got, .ok) => ({ s with r := r' }, some got)
    | (r', got, .unexpectedEOF) => ({ s with r := r', err := true }, some got)   -- reallocChunk(full, n), n > 0
    | (r', _, .eof) => ({ s with r := r' }, none)

/-- every chunk of `NewSizeSplitter(rd, size)`; `data.length + 1` calls always reach the EOF answer
(no chunk is empty, and `c06_size_concat` shows nothing is cut off). -/
def sizeChunks (rd : Rd) (size : Nat) : List Bytes :=
  (drain SizeSt.next (rd.data.length + 1) { r := rd, size := size }).1

/-! ## Buzhash -/

structure BuzP where
  min : Nat
  max : Nat
  mask : UInt32
  tbl : UInt8 → UInt32

def rotl1 (x : UInt32) : UInt32 := (x <<< 1) ||| (x >>> 31)

/-- `for ; i < buzMin; i++ { state = RotateLeft32(state,1) ^ bytehash[buf[i]] }` over the 32-byte window -/
def buzInit (P : BuzP) (window : Bytes) : UInt32 :=
  window.foldl (fun st b => rotl1 st ^^^ P.tbl b) 0

/-- The scan loop: `out` = buf[i:], `inc` = buf[i+32:]; stops at the first `i` with `state & mask == 0`
or when `i > max` (`inc` exhausted); returns `i`. -/
def buzScan (P : BuzP) : UInt32 → Bytes → Bytes → Nat → Nat
  | st, o :: os, c :: cs, i =>
    if st &&& P.mask == 0 then i else buzScan P (rotl1 st ^^^ P.tbl o ^^^ P.tbl c) os cs (i + 1)
  | _, _, _, i => i

/-- cut index inside the buffered bytes (`len buf ≥ min`): the `i` after `i += 32`. -/
def buzCut (P : BuzP) (buf : Bytes) : Nat :=
  let out := buf.drop (P.min - 32)
  buzScan P (buzInit P (out.take 32)) out (buf.drop P.min) (P.min - 32) + 32

structure BuzSt where
  r : Rd
  buf : Bytes := []        -- b.buf[:b.n]
  err : Bool := false      -- b.err == io.EOF

def BuzSt.next (P : BuzP) (s : BuzSt) : BuzSt × Option Bytes :=
  if s.err then (s, none)
  else
    let x := s.r.readFull (P.max - s.buf.length)
    let buffered := s.buf ++ x.2.1
    if x.2.2 ≠ .ok ∧ buffered.length < P.min then
      if buffered.isEmpty then ({ r := x.1, buf := [], err := true }, none)
      else ({ r := x.1, buf := [], err := true }, some buffered)
    else
      let i := buzCut P buffered
      ({ r := x.1, buf := buffered.drop i, err := false }, some (buffered.take i))

def buzChunks (P : BuzP) (rd : Rd) : List Bytes :=
  (drain (BuzSt.next P) (rd.data.length + 1) { r := rd }).1

/-! ## generic content-defined chunker (rabin's shape) -/

structure Cdc (σ : Type) where
  min : Nat
  max : Nat
  blk : Nat                 -- refill size (512 KiB in the library)
  init : Nat → σ            -- automaton state at the start of a chunk beginning at this absolute offset
  upd : σ → UInt8 → σ
  isB : σ → Bool

/-- first cut: after consuming a byte, `add >= MinSize && (boundary || add >= MaxSize)` -/
def cdcScan {σ : Type} (A : Cdc σ) : σ → Nat → Bytes → Option Nat
  | _, _, [] => none
  | s, p, b :: rest =>
    let s' := A.upd s b
    if p + 1 ≥ A.min ∧ (A.isB s' ∨ p + 1 ≥ A.max) then some (p + 1) else cdcScan A s' (p + 1) rest

structure CdcSt where
  r : Rd
  pending : Bytes := []     -- read but not yet emitted
  start : Nat := 0          -- absolute offset of pending[0]
  closed : Bool := false

/-- `Next()`: scan what is buffered; refill with ReadFull(blk) while no cut is found; at EOF emit the rest. -/
def CdcSt.next {σ : Type} (A : Cdc σ) : Nat → CdcSt → CdcSt × Option Bytes
  | 0, s => (s, none)
  | fuel + 1, s =>
    if s.closed then (s, none)
    else
      match cdcScan A (A.init s.start) 0 s.pending with
      | some c => ({ s with pending := s.pending.drop c, start := s.start + c }, some (s.pending.take c))
      | none =>
        let x := s.r.readFull A.blk
        if x.2.1.isEmpty then
          if s.pending.isEmpty then ({ s with r := x.1, closed := true }, none)
          else ({ r := x.1, pending := [], start := s.start + s.pending.length, closed := true }, some s.pending)
        else CdcSt.next A fuel { s with r := x.1, pending := s.pending ++ x.2.1 }

def cdcChunks {σ : Type} (A : Cdc σ) (rd : Rd) : List Bytes :=
  (drain (fun s => CdcSt.next A (s.r.data.length + 2) s) (rd.data.length + 1) { r := rd }).1

/-! ## rabin: `whyrusleeping/chunker.(*Chunker).Next` transcribed

Fields: `rd, closed, chunkbuf, buf[bpos:bmax]` (`buf`), `count, pos, pre, MinSize, MaxSize`; the rolling
fingerprint (`window, wpos, digest, tables`) is the parameter: `init pos` = the state after `reset()` when hashing
starts at absolute offset `pos`, `upd` = one `slide`, `isB` = `digest & sizeMask == 0`.  (`start`, `h`/`Digest`
and the `Chunk` metadata are not observable through boxo's `Rabin.NextBytes` and are left out.) -/

structure Rab (σ : Type) where
  min : Nat                -- MinSize
  max : Nat                -- MaxSize
  blk : Nat                -- chunkerBufSize
  win : Nat                -- windowSize
  init : Nat → σ
  upd : σ → UInt8 → σ
  isB : σ → Bool

/-- `c.pre = c.MinSize - windowSize` in uint64 arithmetic -/
def Rab.pre0 {σ : Type} (A : Rab σ) : Nat := (A.min + 2 ^ 64 - A.win) % 2 ^ 64

structure RabSt (σ : Type) where
  r : Rd
  closed : Bool := false
  chunkbuf : Bytes := []
  buf : Bytes := []         -- c.buf[c.bpos:c.bmax]
  count : Nat := 0
  pos : Nat := 0
  pre : Nat
  dig : Option σ := none    -- `none` = window/digest as left by reset()

/-- the `for _, b := range c.buf[c.bpos:c.bmax]` loop: `inl (add, rest)` = cut after `add` bytes, `rest` unscanned;
`inr s` = no cut in this block, fingerprint state `s` -/
def rabScan {σ : Type} (A : Rab σ) : σ → Nat → Bytes → (Nat × Bytes) ⊕ σ
  | s, _, [] => .inr s
  | s, add, b :: rest =>
    let s' := A.upd s b
    if add + 1 < A.min then rabScan A s' (add + 1) rest
    else if A.isB s' ∨ add + 1 ≥ A.max then .inl (add + 1, rest)
    else rabScan A s' (add + 1) rest

/-- `Next()`; `none` = an error is returned (io.EOF here). One unit of fuel per iteration of the outer `for`. -/
def RabSt.next {σ : Type} (A : Rab σ) : Nat → RabSt σ → RabSt σ × Option Bytes
  | 0, s => (s, none)
  | fuel + 1, s =>
    if s.closed then (s, none)
    else if s.buf.isEmpty then
      -- `if c.bpos >= c.bmax`: refill
      let x := s.r.readFull A.blk
      let cb := s.chunkbuf ++ x.2.1
      if x.2.1.isEmpty then
        -- err == io.EOF: close; nextBytes(); return the rest if count > 0, else the error
        if s.count > 0 then
          ({ s with r := x.1, closed := true, chunkbuf := cb.drop s.count }, some (cb.take s.count))
        else ({ s with r := x.1, closed := true, chunkbuf := cb.drop s.count }, none)
      else RabSt.next A fuel { s with r := x.1, chunkbuf := cb, buf := x.2.1 }
    else if s.pre > s.buf.length then
      -- still inside the first MinSize - windowSize bytes: skip the whole block
      RabSt.next A fuel { s with pre := s.pre - s.buf.length, count := s.count + s.buf.length,
                                 pos := s.pos + s.buf.length, buf := [] }
    else
      let buf := s.buf.drop s.pre
      let count := s.count + s.pre
      let pos := s.pos + s.pre
      match rabScan A (s.dig.getD (A.init pos)) count buf with
      | .inl (add, rest) =>
        -- cut: nextBytes() and reset()
        ({ s with chunkbuf := s.chunkbuf.drop add, buf := rest, count := 0, pos := pos + (add - count),
                  pre := A.pre0, dig := none }, some (s.chunkbuf.take add))
      | .inr d =>
        RabSt.next A fuel { s with pre := 0, count := count + buf.length, pos := pos + buf.length, buf := [],
                                   dig := some d }

def rabChunks {σ : Type} (A : Rab σ) (rd : Rd) : List Bytes :=
  (drain (fun s => RabSt.next A (2 * s.r.data.length + 4) s) (rd.data.length + 1) { r := rd, pre := A.pre0 }).1

/-! ## spec strings -/

structure Limits where
  chunkSizeLimit : Nat
  defaultBlockSize : Nat
  rabinMinFloor : Nat      -- the 16 of `min < 16`
  deriving Repr

inductive Spec where
  | size (n : Nat)
  | rabin (min avg max : Nat)
  | buzhash
  deriving DecidableEq, Repr

/-- `strings.Split(s, sep)` for a one-character separator -/
def splitOn (sep : Char) : List Char → List (List Char)
  | [] => [[]]
  | c :: r =>
    match splitOn sep r with
    | [] => [[c]]                                   -- unreachable: splitOn never returns []
    | h :: t => if c = sep then [] :: h :: t else (c :: h) :: t

def digitsVal : List Char → Nat → Option Nat
  | [], acc => some acc
  | c :: r, acc => if c.isDigit then digitsVal r (acc * 10 + (c.toNat - '0'.toNat)) else none

/-- `strconv.Atoi`: optional sign, at least one decimal digit, value within int64. -/
def atoi (s : List Char) : Option Int :=
  let (neg, ds) := match s with
    | '-' :: r => (true, r)
    | '+' :: r => (false, r)
    | _ => (false, s)
  if ds.isEmpty then none
  else
    match digitsVal ds 0 with
    | none => none
    | some v =>
      if neg then (if v ≤ 9223372036854775808 then some (-(v : Int)) else none)
      else (if v ≤ 9223372036854775807 then some (v : Int) else none)

/-- one `min:`/`avg:`/`max:` component of the three-parameter rabin form -/
def labelled (label : List Char) (part : List Char) : Option Int :=
  let sub := splitOn ':' part
  if sub.length > 1 ∧ sub.head! ≠ label then none else atoi sub.getLast!

def parseSize (L : Limits) (parts : List (List Char)) : Option Spec :=
  match parts with
  | [_, p] =>
    match atoi p with
    | none => none
    | some size =>
      if size ≤ 0 then none
      else if size > L.chunkSizeLimit then none
      else some (.size size.toNat)
  | _ => none

/-- `NewRabin(r, avg)`: min = avg/3, max = avg + avg/2 -/
def rabinOfAvg (avg : Nat) : Spec := .rabin (avg / 3) avg (avg + avg / 2)

/-- `parseRabinString` AFTER the `fix:` commit (lower bound `size/3 < 16`, `size > ChunkSizeLimit ||`).
`int(float32(size)*1.5)` is evaluated only for `0 ≤ size ≤ ChunkSizeLimit < 2^22`, where every float32
operation is exact, i.e. it equals `size*3/2`. -/
def parseRabin (L : Limits) (parts : List (List Char)) : Option Spec :=
  match parts with
  | [_] => some (rabinOfAvg L.defaultBlockSize)
  | [_, p] =>
    match atoi p with
    | none => none
    | some size =>
      if Int.tdiv size 3 < L.rabinMinFloor then none
      else if size > L.chunkSizeLimit ∨ Int.tdiv (size * 3) 2 > L.chunkSizeLimit then none
      else some (rabinOfAvg size.toNat)
  | [_, p1, p2, p3] =>
    match labelled ['m', 'i', 'n'] p1 with
    | none => none
    | some mn =>
      if mn < L.rabinMinFloor then none
      else
        match labelled ['a', 'v', 'g'] p2 with
        | none => none
        | some avg =>
          match labelled ['m', 'a', 'x'] p3 with
          | none => none
          | some mx =>
            if mn ≥ avg then none
            else if avg ≥ mx then none
            else if mx > L.chunkSizeLimit then none
            else some (.rabin mn.toNat avg.toNat mx.toNat)
  | _ => none

/-- `FromString` on the characters of the spec; `none` = an error is returned. -/
def parseChars (L : Limits) (cs : List Char) : Option Spec :=
  if cs = [] ∨ cs = ['d', 'e', 'f', 'a', 'u', 'l', 't'] then some (.size L.defaultBlockSize)
  else
    let parts := splitOn '-' cs
    let name := parts.head!                                 -- strings.Cut(chunker, "-")
    if name = ['s', 'i', 'z', 'e'] then parseSize L parts
    else if name = ['r', 'a', 'b', 'i', 'n'] then parseRabin L parts
    else if name = ['b', 'u', 'z', 'h', 'a', 's', 'h'] then some .buzhash
    else none

def parseSpec (L : Limits) (s : String) : Option Spec := parseChars L s.toList

/-- side conditions on accepted parameters that the chunk bounds rest on -/
def Spec.wf (L : Limits) : Spec → Prop
  | .size n => 0 < n ∧ n ≤ L.chunkSizeLimit
  | .rabin mn _ mx => L.rabinMinFloor ≤ mn ∧ mn ≤ mx ∧ 0 < mx ∧ mx ≤ L.chunkSizeLimit
  | .buzhash => True

/-- what must hold of the constants (checked for the extracted ones by `decide` in Props) -/
def Limits.ok (L : Limits) : Prop :=
  16 ≤ L.rabinMinFloor ∧ L.chunkSizeLimit < 2 ^ 64 ∧ 0 < L.defaultBlockSize ∧ L.defaultBlockSize + L.defaultBlockSize / 2 ≤ L.chunkSizeLimit ∧
  L.rabinMinFloor ≤ L.defaultBlockSize / 3

instance (L : Limits) : Decidable L.ok := by unfold Limits.ok; infer_instance

/-- minimum / maximum size of a non-final chunk for a spec -/
def Spec.lo (P : BuzP) : Spec → Nat
  | .size n => n
  | .rabin mn _ _ => mn
  | .buzhash => P.min
def Spec.hi (P : BuzP) : Spec → Nat
  | .size n => n
  | .rabin _ _ mx => mx
  | .buzhash => P.max

/-! ## registry (`Register`, dispatch in `FromString`) -/

abbrev Registry := List (List Char)

def builtinNames : Registry :=
  [['s', 'i', 'z', 'e'], ['r', 'a', 'b', 'i', 'n'], ['b', 'u', 'z', 'h', 'a', 's', 'h']]

/-- `Register(name, fn)` with a non-nil `fn`; `none` = panic (empty name, dash in the name, duplicate) -/
def register (reg : Registry) (name : List Char) : Option Registry :=
  if name = [] ∨ '-' ∈ name ∨ name ∈ reg then none else some (name :: reg)

inductive Parsed where
  | builtin (s : Spec)
  | custom (name : List Char)     -- the registered SplitterFunc is called with the whole string
  deriving DecidableEq, Repr

/-- `FromString` with a registry that may contain custom chunkers -/
def parseWith (L : Limits) (reg : Registry) (cs : List Char) : Option Parsed :=
  if cs = [] ∨ cs = ['d', 'e', 'f', 'a', 'u', 'l', 't'] then some (.builtin (.size L.defaultBlockSize))
  else
    let name := (splitOn '-' cs).head!
    if name ∈ reg then
      if name ∈ builtinNames then (parseChars L cs).map .builtin else some (.custom name)
    else none

/-- The chunk list of the splitter `FromString(rd, spec)` returns; the rabin fingerprint automaton is a parameter
(`blk` = chunkerBufSize, window 16). -/
def chunksOf {σ : Type} (P : BuzP) (blk : Nat) (init : Nat → σ) (upd : σ → UInt8 → σ) (isB : σ → Bool)
    (spec : Spec) (rd : Rd) : List Bytes :=
  match spec with
  | .size n => sizeChunks rd n
  | .buzhash => buzChunks P rd
  | .rabin mn _ mx =>
    rabChunks { min := mn, max := mx, blk := blk, win := 16, init := init, upd := upd, isB := isB } rd

end C06
