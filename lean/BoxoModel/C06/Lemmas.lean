import BoxoModel.C06.Model
/-! C06 — helper lemmas (core only). -/
namespace C06

/-- error class of `io.ReadFull` as a function of the request and of what the reader still holds -/
def errOf (want len : Nat) : RErr :=
  if want ≤ len then .ok else if len = 0 then .eof else .unexpectedEOF

theorem take_split {α : Type} (l : List α) (k m : Nat) (hk : k ≤ m) :
    l.take k ++ (l.drop k).take (m - (l.take k).length) = l.take m := by
  by_cases h : k ≤ l.length
  · have : (l.take k).length = k := by simp [List.length_take, Nat.min_eq_left h]
    rw [this]
    have hm : m = k + (m - k) := by omega
    conv => rhs; rw [hm, List.take_add]
  · have h1 : l.take k = l := List.take_of_length_le (by omega)
    have h2 : l.drop k = [] := List.drop_eq_nil_iff.mpr (by omega)
    have h3 : l.take m = l := List.take_of_length_le (by omega)
    rw [h1, h2, h3]; simp

theorem drop_split {α : Type} (l : List α) (k m : Nat) (hk : k ≤ m) :
    (l.drop k).drop (m - (l.take k).length) = l.drop m := by
  rw [List.drop_drop]
  by_cases h : k ≤ l.length
  · have : (l.take k).length = k := by simp [List.length_take, Nat.min_eq_left h]
    rw [this]; congr 1; omega
  · rw [List.drop_eq_nil_iff.mpr (by omega), List.drop_eq_nil_iff.mpr (by omega)]

theorem drop_take_append_drop {α : Type} (l : List α) (i m : Nat) (h : i ≤ (l.take m).length) :
    (l.take m).drop i ++ l.drop m = l.drop i := by
  have : l.drop i = (l.take m ++ l.drop m).drop i := by rw [List.take_append_drop]
  rw [this, List.drop_append_of_le_length h]

theorem readFullGo_spec (ewd : Bool) (frags : List Nat) (data : Bytes) (need : Nat) (acc : Bytes) :
    (readFullGo ewd frags data need acc).1 = acc.reverse ++ data.take need ∧
    (readFullGo ewd frags data need acc).2.2.1 = data.drop need ∧
    (readFullGo ewd frags data need acc).2.2.2 =
      (if need ≤ data.length then .ok else if acc.isEmpty ∧ data.isEmpty then .eof else .unexpectedEOF) := by
  induction frags generalizing data need acc with
  | nil =>
    cases need with
    | zero => simp [readFullGo]
    | succ n =>
      cases data with
      | nil => cases acc <;> simp [readFullGo]
      | cons b d =>
        simp only [readFullGo]
        refine ⟨by simp, by simp, ?_⟩
        simp only [List.length_take, List.length_cons]
        by_cases h : n + 1 ≤ d.length + 1
        · simp [h, Nat.min_eq_left h]
        · have : min (n + 1) (d.length + 1) = d.length + 1 := by omega
          simp [h, this]; omega
  | cons f fs ih =>
    cases need with
    | zero => simp [readFullGo]
    | succ n =>
      cases data with
      | nil => cases acc <;> simp [readFullGo]
      | cons b d =>
        simp only [readFullGo]
        split
        · rename_i hc
          simp only [Bool.and_eq_true, List.isEmpty_iff, Bool.not_eq_eq_eq_not, Bool.not_true] at hc
          obtain ⟨⟨_, hrest⟩, hgot⟩ := hc
          -- the Read delivered everything that was left
          have hk : (b :: d).length ≤ min f (n + 1) := by
            have := List.drop_eq_nil_iff.mp hrest; simpa using this
          have htake : (b :: d).take (min f (n + 1)) = b :: d := List.take_of_length_le hk
          have hle : (b :: d).length ≤ n + 1 := by omega
          refine ⟨?_, ?_, ?_⟩
          · simp [htake, List.take_of_length_le hle]
          · rw [hrest]; exact (List.drop_eq_nil_iff.mpr hle).symm
          · rw [htake]
            simp only [List.length_cons] at hle ⊢
            by_cases h : n + 1 ≤ d.length + 1
            · have : d.length + 1 = n + 1 := by omega
              simp [this]
            · simp [h]; omega
        · rename_i hc
          have ih' := ih ((b :: d).drop (min f (n + 1))) (n + 1 - ((b :: d).take (min f (n + 1))).length)
            (((b :: d).take (min f (n + 1))).reverse ++ acc)
          obtain ⟨h1, h2, h3⟩ := ih'
          have hlen : ((b :: d).take (min f (n + 1))).length = min (min f (n + 1)) (d.length + 1) := by
            simp [List.length_take]
          have hkle : ((b :: d).take (min f (n + 1))).length ≤ n + 1 := by rw [hlen]; omega
          refine ⟨?_, ?_, ?_⟩
          · rw [h1]
            simp only [List.reverse_append, List.reverse_reverse, List.append_assoc]
            rw [take_split (b :: d) (min f (n + 1)) (n + 1) (by omega)]
          · rw [h2, drop_split (b :: d) (min f (n + 1)) (n + 1) (by omega)]
          · rw [h3]
            have hrl : ((b :: d).drop (min f (n + 1))).length = d.length + 1 - min f (n + 1) := by simp
            by_cases hok : n + 1 ≤ d.length + 1
            · have h1' : n + 1 - ((b :: d).take (min f (n + 1))).length ≤ ((b :: d).drop (min f (n + 1))).length := by
                rw [hrl, hlen]; omega
              have h2' : n + 1 ≤ (b :: d).length := by simpa using hok
              rw [if_pos h1', if_pos h2']
            · have h1' : ¬ n + 1 - ((b :: d).take (min f (n + 1))).length ≤ ((b :: d).drop (min f (n + 1))).length := by
                rw [hrl, hlen]; omega
              have h2' : ¬ n + 1 ≤ (b :: d).length := by simpa using hok
              rw [if_neg h1', if_neg h2']
              have h3' : ¬ ((((b :: d).take (min f (n + 1))).reverse ++ acc).isEmpty = true ∧
                  ((b :: d).drop (min f (n + 1))).isEmpty = true) := by
                rintro ⟨ha, hb⟩
                have ha' : ((b :: d).take (min f (n + 1))).length = 0 := by
                  have := List.isEmpty_iff.mp ha
                  have := congrArg List.length this
                  simp only [List.length_append, List.length_reverse, List.length_nil] at this
                  omega
                have hb' : ((b :: d).drop (min f (n + 1))).length = 0 := by
                  rw [List.isEmpty_iff.mp hb]; rfl
                rw [hlen] at ha'; rw [hrl] at hb'; omega
              have h4' : ¬ (acc.isEmpty = true ∧ (b :: d).isEmpty = true) := by simp
              rw [if_neg h3', if_neg h4']


theorem readFull_got (r : Rd) (want : Nat) : (r.readFull want).2.1 = r.data.take want := by
  simp [Rd.readFull, (readFullGo_spec r.eofWithData r.frags r.data want []).1]

theorem readFull_data (r : Rd) (want : Nat) : (r.readFull want).1.data = r.data.drop want := by
  simp [Rd.readFull, (readFullGo_spec r.eofWithData r.frags r.data want []).2.1]

theorem readFull_err (r : Rd) (want : Nat) : (r.readFull want).2.2 = errOf want r.data.length := by
  simp only [Rd.readFull, (readFullGo_spec r.eofWithData r.frags r.data want []).2.2, errOf]
  cases r.data <;> simp

/-! ## fragmentation-independent specification of a splitter: repeated `cut` -/

/-- chunk list determined by a cut function (`off` = absolute offset of the remaining data) -/
def specChunks (cut : Nat → Bytes → Nat) : Nat → Nat → Bytes → List Bytes
  | 0, _, _ => []
  | fuel + 1, off, d =>
    if d = [] then [] else d.take (cut off d) :: specChunks cut fuel (off + cut off d) (d.drop (cut off d))

def CutOk (cut : Nat → Bytes → Nat) : Prop := ∀ off d, d ≠ [] → 1 ≤ cut off d ∧ cut off d ≤ d.length

theorem spec_flatten {cut} (h : CutOk cut) : ∀ fuel off d, d.length < fuel →
    (specChunks cut fuel off d).flatten = d := by
  intro fuel
  induction fuel with
  | zero => intro off d hd; omega
  | succ n ih =>
    intro off d hd
    simp only [specChunks]
    split
    · rename_i h0; simp [h0]
    · rename_i h0
      have hc := h off d h0
      simp only [List.flatten_cons]
      rw [ih _ _ (by simp only [List.length_drop]; omega), List.take_append_drop]

theorem spec_nonempty {cut} (h : CutOk cut) : ∀ fuel off d, ∀ c ∈ specChunks cut fuel off d, c ≠ [] := by
  intro fuel
  induction fuel with
  | zero => intro off d c hc; simp [specChunks] at hc
  | succ n ih =>
    intro off d c hc
    simp only [specChunks] at hc
    split at hc
    · simp at hc
    · rename_i h0
      have hk := h off d h0
      rcases List.mem_cons.mp hc with rfl | hc
      · intro he
        have := congrArg List.length he
        simp only [List.length_take, List.length_nil] at this
        omega
      · exact ih _ _ c hc

theorem spec_le {cut} {M : Nat} (h : ∀ off d, d ≠ [] → cut off d ≤ M) :
    ∀ fuel off d, ∀ c ∈ specChunks cut fuel off d, c.length ≤ M := by
  intro fuel
  induction fuel with
  | zero => intro off d c hc; simp [specChunks] at hc
  | succ n ih =>
    intro off d c hc
    simp only [specChunks] at hc
    split at hc
    · simp at hc
    · rename_i h0
      rcases List.mem_cons.mp hc with rfl | hc
      · have := h off d h0
        simp only [List.length_take]; omega
      · exact ih _ _ c hc

theorem spec_dropLast_ge {cut} {m : Nat} (hok : CutOk cut)
    (h : ∀ off d, cut off d < d.length → m ≤ cut off d) :
    ∀ fuel off d, ∀ c ∈ (specChunks cut fuel off d).dropLast, m ≤ c.length := by
  intro fuel
  induction fuel with
  | zero => intro off d c hc; simp [specChunks] at hc
  | succ n ih =>
    intro off d c hc
    simp only [specChunks] at hc
    split at hc
    · simp at hc
    · rename_i h0
      cases hrest : specChunks cut n (off + cut off d) (d.drop (cut off d)) with
      | nil => rw [hrest] at hc; simp at hc
      | cons x xs =>
        rw [hrest, List.dropLast_cons₂] at hc
        rcases List.mem_cons.mp hc with rfl | hc
        · have hne : d.drop (cut off d) ≠ [] := by
            intro he; rw [he] at hrest
            cases n <;> simp [specChunks] at hrest
          have hlt : cut off d < d.length := by
            by_cases hx : cut off d < d.length
            · exact hx
            · exact absurd (List.drop_eq_nil_iff.mpr (by omega)) hne
          have := h off d hlt
          simp only [List.length_take]; omega
        · rw [← hrest] at hc
          exact ih _ _ c hc

/-- A step function simulates a cut function through an invariant and an abstraction (`rem`, `off`). -/
theorem drain_sim {σ : Type} (next : σ → σ × Option Bytes) (cut : Nat → Bytes → Nat)
    (Inv : σ → Prop) (rem : σ → Bytes) (off : σ → Nat)
    (hsome : ∀ s, Inv s → rem s ≠ [] → ∃ s', next s = (s', some ((rem s).take (cut (off s) (rem s)))) ∧
      Inv s' ∧ rem s' = (rem s).drop (cut (off s) (rem s)) ∧ off s' = off s + cut (off s) (rem s))
    (hnone : ∀ s, Inv s → rem s = [] → ∃ s', next s = (s', none)) :
    ∀ fuel s, Inv s → (drain next fuel s).1 = specChunks cut fuel (off s) (rem s) := by
  intro fuel
  induction fuel with
  | zero => intro s _; simp [drain, specChunks]
  | succ n ih =>
    intro s hs
    by_cases h0 : rem s = []
    · obtain ⟨s', hn⟩ := hnone s hs h0
      simp [drain, specChunks, hn, h0]
    · obtain ⟨s', hn, hi, hr, ho⟩ := hsome s hs h0
      simp only [drain, specChunks, hn, h0, if_false]
      rw [ih s' hi, hr, ho]


theorem spec_off_irrel (cut : Bytes → Nat) : ∀ fuel o1 o2 d,
    specChunks (fun _ => cut) fuel o1 d = specChunks (fun _ => cut) fuel o2 d := by
  intro fuel
  induction fuel with
  | zero => intros; rfl
  | succ n ih => intro o1 o2 d; simp only [specChunks]; rw [ih (o1 + cut d) (o2 + cut d)]

/-- `drain_sim` for cut functions that ignore the absolute offset -/
theorem drain_sim0 {σ : Type} (next : σ → σ × Option Bytes) (cut : Bytes → Nat)
    (Inv : σ → Prop) (rem : σ → Bytes)
    (hsome : ∀ s, Inv s → rem s ≠ [] → ∃ s', next s = (s', some ((rem s).take (cut (rem s)))) ∧
      Inv s' ∧ rem s' = (rem s).drop (cut (rem s)))
    (hnone : ∀ s, Inv s → rem s = [] → ∃ s', next s = (s', none)) :
    ∀ fuel s, Inv s → (drain next fuel s).1 = specChunks (fun _ => cut) fuel 0 (rem s) := by
  intro fuel
  induction fuel with
  | zero => intro s _; simp [drain, specChunks]
  | succ n ih =>
    intro s hs
    by_cases h0 : rem s = []
    · obtain ⟨s', hn⟩ := hnone s hs h0
      simp [drain, specChunks, hn, h0]
    · obtain ⟨s', hn, hi, hr⟩ := hsome s hs h0
      simp only [drain, specChunks, hn, h0, if_false]
      rw [ih s' hi, hr, spec_off_irrel cut n 0 (0 + cut (rem s))]

/-! ## size splitter -/

def cutSize (n : Nat) (d : Bytes) : Nat := min n d.length

theorem cutSize_ok {n : Nat} (hn : 0 < n) : CutOk (fun _ => cutSize n) := by
  intro off d hd
  have : 0 < d.length := List.length_pos_iff.mpr hd
  simp only [cutSize]; omega

theorem size_sim (n : Nat) (hn : 0 < n) : ∀ fuel (s : SizeSt), (s.size = n ∧ (s.err = true → s.r.data = [])) →
    (drain SizeSt.next fuel s).1 = specChunks (fun _ => cutSize n) fuel 0 s.r.data := by
  apply drain_sim0 SizeSt.next (cutSize n) (fun s => s.size = n ∧ (s.err = true → s.r.data = [])) (fun s => s.r.data)
  · intro s ⟨hsz, herr⟩ hne
    have hlen : 0 < s.r.data.length := List.length_pos_iff.mpr hne
    have he : s.err = false := by
      cases h : s.err with
      | false => rfl
      | true => exact absurd (herr h) hne
    have hE := readFull_err s.r s.size
    have hG := readFull_got s.r s.size
    have hD := readFull_data s.r s.size
    simp only [SizeSt.next, he, Bool.false_eq_true, if_false]
    rcases hx : s.r.readFull s.size with ⟨r', got, e⟩
    rw [hx] at hE hG hD
    simp only at hE hG hD
    subst hsz
    by_cases hle : s.size ≤ s.r.data.length
    · have : e = .ok := by rw [hE]; simp [errOf, hle]
      subst this
      refine ⟨{ s with r := r' }, ?_, ⟨rfl, ?_⟩, ?_⟩
      · simp [hG, cutSize, Nat.min_eq_left hle, he]
      · simp [he]
      · simp [hD, cutSize, Nat.min_eq_left hle]
    · have : e = .unexpectedEOF := by
        rw [hE]; simp only [errOf, hle, if_false]; rw [if_neg (by omega)]
      subst this
      have hmin : min s.size s.r.data.length = s.r.data.length := by omega
      refine ⟨{ s with r := r', err := true }, ?_, ⟨rfl, ?_⟩, ?_⟩
      · simp only [cutSize, hmin, hG]
        rw [List.take_of_length_le (by omega), List.take_of_length_le (by omega)]
      · intro _; simp only [hD]; exact List.drop_eq_nil_iff.mpr (by omega)
      · simp only [cutSize, hmin, hD]
        rw [List.drop_eq_nil_iff.mpr (by omega), List.drop_eq_nil_iff.mpr (by omega)]
  · intro s ⟨hsz, herr⟩ h0
    by_cases he : s.err = true
    · exact ⟨s, by simp [SizeSt.next, he]⟩
    · have hE := readFull_err s.r s.size
      rcases hx : s.r.readFull s.size with ⟨r', got, e⟩
      rw [hx] at hE
      simp only at hE
      have : e = .eof := by
        rw [hE, h0]; simp only [errOf, List.length_nil]; rw [if_neg (by omega)]; simp
      subst this
      exact ⟨{ s with r := r' }, by simp [SizeSt.next, he, hx]⟩

theorem sizeChunks_eq (rd : Rd) (n : Nat) (hn : 0 < n) :
    sizeChunks rd n = specChunks (fun _ => cutSize n) (rd.data.length + 1) 0 rd.data := by
  simp only [sizeChunks]
  exact size_sim n hn _ { r := rd, size := n } ⟨rfl, by simp⟩


/-! ## buzhash -/

def BuzOk (P : BuzP) : Prop := 32 ≤ P.min ∧ P.min ≤ P.max

/-- hypotheses on the constants of the buzhash splitter w.r.t. the chunk size limit -/
def BuzFits (L : Limits) (P : BuzP) : Prop := BuzOk P ∧ P.max ≤ L.chunkSizeLimit

def cutBuz (P : BuzP) (d : Bytes) : Nat := if d.length < P.min then d.length else buzCut P (d.take P.max)

theorem buzScan_bounds (P : BuzP) : ∀ (inc out : Bytes) (st : UInt32) (i : Nat),
    i ≤ buzScan P st out inc i ∧ buzScan P st out inc i ≤ i + inc.length := by
  intro inc
  induction inc with
  | nil => intro out st i; cases out <;> simp [buzScan]
  | cons c cs ih =>
    intro out st i
    cases out with
    | nil => simp [buzScan]
    | cons o os =>
      simp only [buzScan]
      split
      · simp
      · have := ih os (rotl1 st ^^^ P.tbl o ^^^ P.tbl c) (i + 1)
        simp only [List.length_cons]; omega

theorem buzCut_bounds (P : BuzP) (h : BuzOk P) (buf : Bytes) (hb : P.min ≤ buf.length) :
    P.min ≤ buzCut P buf ∧ buzCut P buf ≤ buf.length := by
  have := buzScan_bounds P (buf.drop P.min) (buf.drop (P.min - 32))
    (buzInit P ((buf.drop (P.min - 32)).take 32)) (P.min - 32)
  simp only [List.length_drop] at this
  obtain ⟨h1, h2⟩ := h
  simp only [buzCut]; omega

theorem cutBuz_ok (P : BuzP) (h : BuzOk P) : CutOk (fun _ => cutBuz P) := by
  intro off d hd
  have hl : 0 < d.length := List.length_pos_iff.mpr hd
  simp only [cutBuz]
  split
  · omega
  · have := buzCut_bounds P h (d.take P.max) (by simp only [List.length_take]; have := h.2; omega)
    simp only [List.length_take] at this
    have := h.1; omega

theorem buz_sim (P : BuzP) (h : BuzOk P) : ∀ fuel (s : BuzSt),
    (s.buf.length ≤ P.max ∧ (s.err = true → s.buf = [] ∧ s.r.data = [])) →
    (drain (BuzSt.next P) fuel s).1 = specChunks (fun _ => cutBuz P) fuel 0 (s.buf ++ s.r.data) := by
  obtain ⟨h32, hmm⟩ := h
  apply drain_sim0 (BuzSt.next P) (cutBuz P)
    (fun s => s.buf.length ≤ P.max ∧ (s.err = true → s.buf = [] ∧ s.r.data = [])) (fun s => s.buf ++ s.r.data)
  · intro s ⟨hbuf, herr⟩ hne
    have he : s.err = false := by
      cases hh : s.err with
      | false => rfl
      | true => obtain ⟨a, b⟩ := herr hh; rw [a, b] at hne; exact absurd rfl hne
    have hE := readFull_err s.r (P.max - s.buf.length)
    have hG := readFull_got s.r (P.max - s.buf.length)
    have hD := readFull_data s.r (P.max - s.buf.length)
    have hbuffered : s.buf ++ (s.r.readFull (P.max - s.buf.length)).2.1 = (s.buf ++ s.r.data).take P.max := by
      rw [hG, List.take_append, List.take_of_length_le hbuf]
    have hdropmax : (s.buf ++ s.r.data).drop P.max = s.r.data.drop (P.max - s.buf.length) := by
      rw [List.drop_append, List.drop_eq_nil_iff.mpr hbuf]; rfl
    have hremlen : (s.buf ++ s.r.data).length = s.buf.length + s.r.data.length := by simp
    have hrl : 0 < (s.buf ++ s.r.data).length := List.length_pos_iff.mpr hne
    simp only [BuzSt.next, he, Bool.false_eq_true, if_false]
    rw [hbuffered]
    by_cases hA : (s.r.readFull (P.max - s.buf.length)).2.2 ≠ .ok ∧ ((s.buf ++ s.r.data).take P.max).length < P.min
    · rw [if_pos hA]
      obtain ⟨hA1, hA2⟩ := hA
      have hshort : (s.buf ++ s.r.data).length < P.max := by
        rw [hE] at hA1
        simp only [errOf] at hA1
        by_cases hq : P.max - s.buf.length ≤ s.r.data.length
        · simp [hq] at hA1
        · omega
      have hall : (s.buf ++ s.r.data).take P.max = s.buf ++ s.r.data := List.take_of_length_le (by omega)
      rw [hall] at hA2 ⊢
      have hne' : (s.buf ++ s.r.data).isEmpty = false := by
        cases hh : (s.buf ++ s.r.data) with
        | nil => exact absurd hh hne
        | cons _ _ => rfl
      rw [hne']
      have hcut : cutBuz P (s.buf ++ s.r.data) = (s.buf ++ s.r.data).length := by
        unfold cutBuz; rw [if_pos hA2]
      refine ⟨{ r := (s.r.readFull (P.max - s.buf.length)).1, buf := [], err := true }, ?_, ⟨?_, ?_⟩, ?_⟩
      · simp only [Bool.false_eq_true, if_false, hcut, List.take_length]
      · simp
      · intro _; simp only [hD, true_and]; exact List.drop_eq_nil_iff.mpr (by omega)
      · simp only [hcut, List.drop_length, hD, List.nil_append]
        exact List.drop_eq_nil_iff.mpr (by omega)
    · rw [if_neg hA]
      have hlong : P.min ≤ ((s.buf ++ s.r.data).take P.max).length := by
        by_cases hq : (s.r.readFull (P.max - s.buf.length)).2.2 = .ok
        · rw [hE] at hq
          simp only [errOf] at hq
          by_cases hq2 : P.max - s.buf.length ≤ s.r.data.length
          · simp only [List.length_take]; omega
          · rw [if_neg hq2] at hq; split at hq <;> cases hq
        · have : ¬ ((s.buf ++ s.r.data).take P.max).length < P.min := fun hx => hA ⟨hq, hx⟩
          omega
      have hlong' : ¬ (s.buf ++ s.r.data).length < P.min := by
        simp only [List.length_take] at hlong; omega
      have hcut : cutBuz P (s.buf ++ s.r.data) = buzCut P ((s.buf ++ s.r.data).take P.max) := by
        unfold cutBuz; rw [if_neg hlong']
      have hb := buzCut_bounds P ⟨h32, hmm⟩ _ hlong
      have hile : buzCut P ((s.buf ++ s.r.data).take P.max) ≤ P.max := by
        have := hb.2; simp only [List.length_take] at this; omega
      refine ⟨{ r := (s.r.readFull (P.max - s.buf.length)).1,
                buf := ((s.buf ++ s.r.data).take P.max).drop (buzCut P ((s.buf ++ s.r.data).take P.max)),
                err := false }, ?_, ⟨?_, ?_⟩, ?_⟩
      · rw [hcut, List.take_take, Nat.min_eq_left hile]
      · simp only [List.length_drop, List.length_take]; omega
      · simp
      · simp only [hcut, hD]
        rw [← hdropmax]
        exact drop_take_append_drop _ _ _ hb.2
  · intro s ⟨hbuf, herr⟩ h0
    by_cases he : s.err = true
    · exact ⟨s, by simp [BuzSt.next, he]⟩
    · have hb0 : s.buf = [] := (List.append_eq_nil_iff.mp h0).1
      have hd0 : s.r.data = [] := (List.append_eq_nil_iff.mp h0).2
      have hE := readFull_err s.r (P.max - s.buf.length)
      have hG := readFull_got s.r (P.max - s.buf.length)
      have hne : (s.r.readFull (P.max - s.buf.length)).2.2 ≠ .ok := by
        rw [hE, hd0, hb0]; simp only [errOf, List.length_nil]; rw [if_neg (by omega)]; simp
      have hgot : (s.r.readFull (P.max - s.buf.length)).2.1 = [] := by rw [hG, hd0]; simp
      refine ⟨{ r := (s.r.readFull (P.max - s.buf.length)).1, buf := [], err := true }, ?_⟩
      have he' : s.err = false := by cases hh : s.err <;> simp_all
      simp only [BuzSt.next, he', Bool.false_eq_true, if_false, hgot, List.append_nil]
      rw [if_pos ⟨hne, by rw [hb0]; simp only [List.length_nil]; omega⟩, hb0]
      simp

theorem buzChunks_eq (P : BuzP) (h : BuzOk P) (rd : Rd) :
    buzChunks P rd = specChunks (fun _ => cutBuz P) (rd.data.length + 1) 0 rd.data := by
  simp only [buzChunks]
  have := buz_sim P h (rd.data.length + 1) { r := rd } ⟨by simp, by simp⟩
  simpa using this


/-! ## generic content-defined chunker -/

def CdcOk {σ : Type} (A : Cdc σ) : Prop := 0 < A.max ∧ A.min ≤ A.max ∧ 0 < A.blk

def cutCdc {σ : Type} (A : Cdc σ) (off : Nat) (d : Bytes) : Nat :=
  match cdcScan A (A.init off) 0 d with
  | some c => c
  | none => d.length

theorem cdcScan_bounds {σ : Type} (A : Cdc σ) : ∀ (d : Bytes) (s : σ) (p c : Nat),
    cdcScan A s p d = some c → p < c ∧ c ≤ p + d.length ∧ A.min ≤ c := by
  intro d
  induction d with
  | nil => intro s p c h; simp [cdcScan] at h
  | cons b r ih =>
    intro s p c h
    simp only [cdcScan] at h
    split at h
    · rename_i hc
      cases h
      simp only [List.length_cons]; omega
    · have := ih _ _ _ h
      simp only [List.length_cons]; omega

theorem cdcScan_le_max {σ : Type} (A : Cdc σ) (hmm : A.min ≤ A.max) : ∀ (d : Bytes) (s : σ) (p c : Nat),
    cdcScan A s p d = some c → p < A.max → c ≤ A.max := by
  intro d
  induction d with
  | nil => intro s p c h; simp [cdcScan] at h
  | cons b r ih =>
    intro s p c h hp
    simp only [cdcScan] at h
    split at h
    · cases h; omega
    · rename_i hc
      have hp' : p + 1 < A.max := by
        by_cases hx : p + 1 < A.max
        · exact hx
        · exact absurd ⟨by omega, Or.inr (by omega)⟩ hc
      exact ih _ _ _ h hp'

theorem cdcScan_none_lt {σ : Type} (A : Cdc σ) (hmm : A.min ≤ A.max) : ∀ (d : Bytes) (s : σ) (p : Nat),
    cdcScan A s p d = none → p < A.max → p + d.length < A.max := by
  intro d
  induction d with
  | nil => intro s p _ hp; simpa using hp
  | cons b r ih =>
    intro s p h hp
    simp only [cdcScan] at h
    split at h
    · cases h
    · rename_i hc
      have hp' : p + 1 < A.max := by
        by_cases hx : p + 1 < A.max
        · exact hx
        · exact absurd ⟨by omega, Or.inr (by omega)⟩ hc
      have := ih _ _ h hp'
      simp only [List.length_cons]; omega

theorem cdcScan_append_some {σ : Type} (A : Cdc σ) (ys : Bytes) : ∀ (xs : Bytes) (s : σ) (p c : Nat),
    cdcScan A s p xs = some c → cdcScan A s p (xs ++ ys) = some c := by
  intro xs
  induction xs with
  | nil => intro s p c h; simp [cdcScan] at h
  | cons b r ih =>
    intro s p c h
    simp only [cdcScan, List.cons_append] at h ⊢
    split
    · rename_i hc; rw [if_pos hc] at h; exact h
    · rename_i hc; rw [if_neg hc] at h; exact ih _ _ _ h

theorem cutCdc_ok {σ : Type} (A : Cdc σ) : CutOk (cutCdc A) := by
  intro off d hd
  have hl : 0 < d.length := List.length_pos_iff.mpr hd
  simp only [cutCdc]
  split
  · rename_i c hc
    have := cdcScan_bounds A d _ _ _ hc
    omega
  · omega

theorem cutCdc_le_max {σ : Type} (A : Cdc σ) (h : CdcOk A) (off : Nat) (d : Bytes) : cutCdc A off d ≤ A.max := by
  simp only [cutCdc]
  split
  · rename_i c hc; exact cdcScan_le_max A h.2.1 d _ _ _ hc h.1
  · rename_i hc
    have := cdcScan_none_lt A h.2.1 d _ _ hc h.1
    omega

theorem cutCdc_ge_min {σ : Type} (A : Cdc σ) (off : Nat) (d : Bytes) (hlt : cutCdc A off d < d.length) :
    A.min ≤ cutCdc A off d := by
  simp only [cutCdc] at hlt ⊢
  split
  · rename_i c hc; exact (cdcScan_bounds A d _ _ _ hc).2.2
  · rename_i hc; rw [hc] at hlt; simp at hlt

def CdcInv (s : CdcSt) : Prop := s.closed = true → s.pending = [] ∧ s.r.data = []

theorem cdc_next_spec {σ : Type} (A : Cdc σ) (hblk : 0 < A.blk) : ∀ (fuel : Nat) (s : CdcSt),
    s.closed = false → s.r.data.length + 2 ≤ fuel →
    (s.pending ++ s.r.data = [] → ∃ s', CdcSt.next A fuel s = (s', none)) ∧
    (s.pending ++ s.r.data ≠ [] → ∃ s', CdcSt.next A fuel s =
        (s', some ((s.pending ++ s.r.data).take (cutCdc A s.start (s.pending ++ s.r.data)))) ∧
      CdcInv s' ∧ s'.pending ++ s'.r.data = (s.pending ++ s.r.data).drop (cutCdc A s.start (s.pending ++ s.r.data)) ∧
      s'.start = s.start + cutCdc A s.start (s.pending ++ s.r.data)) := by
  intro fuel
  induction fuel with
  | zero => intro s _ h; omega
  | succ n ih =>
    intro s hcl hf
    simp only [CdcSt.next, hcl, Bool.false_eq_true, if_false]
    cases hscan : cdcScan A (A.init s.start) 0 s.pending with
    | some c =>
      have hb := cdcScan_bounds A _ _ _ _ hscan
      have hfull := cdcScan_append_some A s.r.data _ _ _ _ hscan
      have hcut : cutCdc A s.start (s.pending ++ s.r.data) = c := by simp [cutCdc, hfull]
      have hcl' : c ≤ s.pending.length := by omega
      constructor
      · intro h0
        have : s.pending = [] := (List.append_eq_nil_iff.mp h0).1
        rw [this] at hscan; simp [cdcScan] at hscan
      · intro _
        refine ⟨{ r := s.r, pending := s.pending.drop c, start := s.start + c, closed := false }, ?_, ?_, ?_, ?_⟩
        · simp only [hcut, List.take_append_of_le_length hcl']
        · intro hx; simp at hx
        · simp only [hcut, List.drop_append_of_le_length hcl']
        · simp [hcut]
    | none =>
      have hG := readFull_got s.r A.blk
      have hD := readFull_data s.r A.blk
      simp only
      by_cases hemp : (s.r.readFull A.blk).2.1.isEmpty = true
      · rw [if_pos hemp]
        have hdata : s.r.data = [] := by
          rw [hG] at hemp
          cases hd : s.r.data with
          | nil => rfl
          | cons b r =>
            rw [hd] at hemp
            cases hb : A.blk with
            | zero => omega
            | succ k => rw [hb] at hemp; simp at hemp
        constructor
        · intro h0
          have hp : s.pending = [] := (List.append_eq_nil_iff.mp h0).1
          exact ⟨{ r := (s.r.readFull A.blk).1, pending := [], start := s.start, closed := true }, by simp [hp]⟩
        · intro hne
          have hp : s.pending ≠ [] := by rw [hdata] at hne; simpa using hne
          have hpe : s.pending.isEmpty = false := by
            cases hh : s.pending with
            | nil => exact absurd hh hp
            | cons _ _ => rfl
          have hcut : cutCdc A s.start s.pending = s.pending.length := by
            simp [cutCdc, hscan]
          refine ⟨{ r := (s.r.readFull A.blk).1, pending := [], start := s.start + s.pending.length,
                    closed := true }, ?_, ?_, ?_, ?_⟩
          · simp [hpe, hcut, hdata]
          · intro _; simp only [hD, hdata, true_and]; simp
          · simp [hcut, hD, hdata]
          · simp [hcut, hdata]
      · rw [if_neg hemp]
        have hdne : s.r.data ≠ [] := by
          intro hd; rw [hG, hd] at hemp; simp at hemp
        have hdl : 0 < s.r.data.length := List.length_pos_iff.mpr hdne
        have hih := ih { r := (s.r.readFull A.blk).1, pending := s.pending ++ (s.r.readFull A.blk).2.1,
                         start := s.start, closed := false }
          rfl (by simp only [hD, List.length_drop]; omega)
        have hrem : (s.pending ++ (s.r.readFull A.blk).2.1) ++ (s.r.readFull A.blk).1.data = s.pending ++ s.r.data := by
          rw [hG, hD, List.append_assoc, List.take_append_drop]
        simp only [hrem] at hih
        exact hih

theorem cdc_sim {σ : Type} (A : Cdc σ) (h : CdcOk A) : ∀ fuel (s : CdcSt), CdcInv s →
    (drain (fun s => CdcSt.next A (s.r.data.length + 2) s) fuel s).1 =
      specChunks (cutCdc A) fuel s.start (s.pending ++ s.r.data) := by
  apply drain_sim (fun s => CdcSt.next A (s.r.data.length + 2) s) (cutCdc A) CdcInv
    (fun s => s.pending ++ s.r.data) (fun s => s.start)
  · intro s hinv hne
    have hcl : s.closed = false := by
      cases hh : s.closed with
      | false => rfl
      | true => obtain ⟨a, b⟩ := hinv hh; rw [a, b] at hne; exact absurd rfl hne
    exact (cdc_next_spec A h.2.2 _ s hcl (Nat.le_refl _)).2 hne
  · intro s hinv h0
    cases hh : s.closed with
    | true => exact ⟨s, by simp [CdcSt.next, hh]⟩
    | false => exact (cdc_next_spec A h.2.2 _ s hh (Nat.le_refl _)).1 h0

theorem cdcChunks_eq {σ : Type} (A : Cdc σ) (h : CdcOk A) (rd : Rd) :
    cdcChunks A rd = specChunks (cutCdc A) (rd.data.length + 1) 0 rd.data := by
  simp only [cdcChunks]
  have := cdc_sim A h (rd.data.length + 1) { r := rd } (by intro hx; simp at hx)
  simpa using this


/-! ## rabin: the transcribed `Next()` loop -/

/-- `drain_sim` where the offset need not be maintained once nothing is left -/
theorem drain_sim' {σ : Type} (next : σ → σ × Option Bytes) (cut : Nat → Bytes → Nat)
    (Inv : σ → Prop) (rem : σ → Bytes) (off : σ → Nat)
    (hsome : ∀ s, Inv s → rem s ≠ [] → ∃ s', next s = (s', some ((rem s).take (cut (off s) (rem s)))) ∧
      Inv s' ∧ rem s' = (rem s).drop (cut (off s) (rem s)) ∧ (rem s' = [] ∨ off s' = off s + cut (off s) (rem s)))
    (hnone : ∀ s, Inv s → rem s = [] → ∃ s', next s = (s', none)) :
    ∀ fuel s, Inv s → (drain next fuel s).1 = specChunks cut fuel (off s) (rem s) := by
  intro fuel
  induction fuel with
  | zero => intro s _; simp [drain, specChunks]
  | succ n ih =>
    intro s hs
    by_cases h0 : rem s = []
    · obtain ⟨s', hn⟩ := hnone s hs h0
      simp [drain, specChunks, hn, h0]
    · obtain ⟨s', hn, hi, hr, ho⟩ := hsome s hs h0
      simp only [drain, specChunks, hn, h0, if_false]
      rw [ih s' hi]
      rcases ho with ho | ho
      · rw [ho, ← hr, ho]
        cases n <;> simp [specChunks]
      · rw [hr, ho]

def Rab.toCdc {σ : Type} (A : Rab σ) : Cdc σ :=
  { min := A.min, max := A.max, blk := A.blk, init := A.init, upd := A.upd, isB := A.isB }

/-- the block scan is a prefix of the one-pass scan `cdcScan` -/
theorem rabScan_cdc {σ : Type} (A : Rab σ) : ∀ (buf : Bytes) (s : σ) (add : Nat),
    (∀ c rest, rabScan A s add buf = .inl (c, rest) →
        cdcScan A.toCdc s add buf = some c ∧ rest = buf.drop (c - add) ∧ add < c ∧ c ≤ add + buf.length) ∧
    (∀ s', rabScan A s add buf = .inr s' →
        ∀ ys, cdcScan A.toCdc s add (buf ++ ys) = cdcScan A.toCdc s' (add + buf.length) ys) := by
  intro buf
  induction buf with
  | nil =>
    intro s add
    refine ⟨fun c rest h => by simp [rabScan] at h, fun s' h ys => ?_⟩
    simp only [rabScan, Sum.inr.injEq] at h
    subst h; simp
  | cons b r ih =>
    intro s add
    obtain ⟨ih1, ih2⟩ := ih (A.upd s b) (add + 1)
    simp only [rabScan]
    by_cases hmin : add + 1 < A.min
    · simp only [hmin, if_true]
      have hc : ¬ (add + 1 ≥ A.toCdc.min ∧ (A.toCdc.isB (A.toCdc.upd s b) = true ∨ add + 1 ≥ A.toCdc.max)) := by
        simp only [Rab.toCdc]; omega
      refine ⟨fun c rest h => ?_, fun s' h ys => ?_⟩
      · obtain ⟨a1, a2, a3, a4⟩ := ih1 c rest h
        refine ⟨by simp only [cdcScan]; rw [if_neg hc]; exact a1, ?_, by omega, by simp only [List.length_cons]; omega⟩
        rw [a2]
        have : c - add = (c - (add + 1)) + 1 := by omega
        rw [this, List.drop_succ_cons]
      · have := ih2 s' h ys
        simp only [cdcScan, List.cons_append, List.length_cons]
        rw [if_neg hc]
        show cdcScan A.toCdc (A.upd s b) (add + 1) (r ++ ys) = _
        rw [this]
        congr 1; omega
    · simp only [hmin, if_false]
      by_cases hcut : A.isB (A.upd s b) = true ∨ add + 1 ≥ A.max
      · simp only [hcut, if_true]
        have hc : (add + 1 ≥ A.toCdc.min ∧ (A.toCdc.isB (A.toCdc.upd s b) = true ∨ add + 1 ≥ A.toCdc.max)) := by
          simp only [Rab.toCdc]; exact ⟨by omega, hcut⟩
        refine ⟨fun c rest h => ?_, fun s' h ys => by cases h⟩
        simp only [Sum.inl.injEq, Prod.mk.injEq] at h
        obtain ⟨h1, h2⟩ := h
        subst h1 h2
        refine ⟨by simp only [cdcScan]; rw [if_pos hc], ?_, by omega, by simp only [List.length_cons]; omega⟩
        have : add + 1 - add = 1 := by omega
        rw [this]; rfl
      · simp only [hcut, if_false]
        have hc : ¬ (add + 1 ≥ A.toCdc.min ∧ (A.toCdc.isB (A.toCdc.upd s b) = true ∨ add + 1 ≥ A.toCdc.max)) := by
          simp only [Rab.toCdc]; exact fun h => hcut h.2
        refine ⟨fun c rest h => ?_, fun s' h ys => ?_⟩
        · obtain ⟨a1, a2, a3, a4⟩ := ih1 c rest h
          refine ⟨by simp only [cdcScan]; rw [if_neg hc]; exact a1, ?_, by omega, by simp only [List.length_cons]; omega⟩
          rw [a2]
          have : c - add = (c - (add + 1)) + 1 := by omega
          rw [this, List.drop_succ_cons]
        · have := ih2 s' h ys
          simp only [cdcScan, List.cons_append, List.length_cons]
          rw [if_neg hc]
          show cdcScan A.toCdc (A.upd s b) (add + 1) (r ++ ys) = _
          rw [this]
          congr 1; omega

/-- where the chunk under construction will end, from a state in the middle of `Next()`: `U` = bytes not yet
scanned (rest of the block, then the reader's data) -/
def rabFinish {σ : Type} (A : Rab σ) (pre count pos : Nat) (dig : Option σ) (U : Bytes) : Nat :=
  match cdcScan A.toCdc (dig.getD (A.init (pos + pre))) (count + pre) (U.drop pre) with
  | some c => c
  | none => count + U.length

/-- the cut function of the rabin splitter: skip `pre0` bytes unhashed, then the first position ≥ min that is a
boundary or reaches max -/
def cutRab {σ : Type} (A : Rab σ) (off : Nat) (d : Bytes) : Nat := rabFinish A A.pre0 0 off none d

/-- state in the middle of `Next()`: the first `count` bytes of `chunkbuf` are scanned, the rest is the block -/
def RabMid {σ : Type} (s : RabSt σ) : Prop :=
  ∃ S, s.chunkbuf = S ++ s.buf ∧ S.length = s.count ∧ (s.dig.isSome = true → s.pre = 0)

/-- what a finished `Next()` call leaves behind, given everything `D` that was pending and the cut `c` -/
def RabPost {σ : Type} (A : Rab σ) (s s' : RabSt σ) (D : Bytes) (c : Nat) : Prop :=
  if s'.closed then s'.chunkbuf ++ s'.r.data = [] ∧ D.drop c = []
  else s'.count = 0 ∧ s'.chunkbuf = s'.buf ∧ s'.pre = A.pre0 ∧ s'.dig = none ∧
    s'.chunkbuf ++ s'.r.data = D.drop c ∧ s'.pos = s.pos + (c - s.count)

theorem rab_next_spec {σ : Type} (A : Rab σ) (hblk : 0 < A.blk) : ∀ (fuel : Nat) (s : RabSt σ),
    s.closed = false → RabMid s → 2 * s.r.data.length + (if s.buf.isEmpty then 1 else 2) ≤ fuel →
    (s.chunkbuf ++ s.r.data = [] → ∃ s', RabSt.next A fuel s = (s', none) ∧ s'.closed = true) ∧
    (s.chunkbuf ++ s.r.data ≠ [] → ∃ s', RabSt.next A fuel s =
        (s', some ((s.chunkbuf ++ s.r.data).take (rabFinish A s.pre s.count s.pos s.dig (s.buf ++ s.r.data)))) ∧
      s.count ≤ rabFinish A s.pre s.count s.pos s.dig (s.buf ++ s.r.data) ∧
      RabPost A s s' (s.chunkbuf ++ s.r.data) (rabFinish A s.pre s.count s.pos s.dig (s.buf ++ s.r.data))) := by
  intro fuel
  induction fuel with
  | zero => intro s _ _ h; split at h <;> omega
  | succ f ih =>
    intro s hcl hmid hf
    obtain ⟨S, hcb, hSl, hdig⟩ := hmid
    simp only [RabSt.next, hcl, Bool.false_eq_true, if_false]
    by_cases hbe : s.buf.isEmpty = true
    · -- refill
      have hb : s.buf = [] := List.isEmpty_iff.mp hbe
      rw [if_pos hbe]
      rw [hbe] at hf
      simp only [if_true] at hf
      have hG := readFull_got s.r A.blk
      have hD := readFull_data s.r A.blk
      rw [hb, List.append_nil] at hcb
      by_cases hemp : (s.r.readFull A.blk).2.1.isEmpty = true
      · rw [if_pos hemp]
        have hdata : s.r.data = [] := by
          rw [hG] at hemp
          cases hd : s.r.data with
          | nil => rfl
          | cons b r =>
            rw [hd] at hemp
            cases hbk : A.blk with
            | zero => omega
            | succ k => rw [hbk] at hemp; simp at hemp
        have hgot : (s.r.readFull A.blk).2.1 = [] := List.isEmpty_iff.mp hemp
        have hfin : rabFinish A s.pre s.count s.pos s.dig (s.buf ++ s.r.data) = s.count := by
          simp [rabFinish, hb, hdata, cdcScan]
        rw [hgot, List.append_nil, hfin, hdata, List.append_nil, hcb]
        constructor
        · intro h0
          have : ¬ s.count > 0 := by rw [← hSl, h0]; simp
          rw [if_neg this]
          exact ⟨_, rfl, rfl⟩
        · intro hne
          have hpos : s.count > 0 := by
            rw [← hSl]; exact List.length_pos_iff.mpr hne
          rw [if_pos hpos]
          refine ⟨_, rfl, Nat.le_refl _, ?_⟩
          simp only [RabPost, if_true, hD, hdata]
          simp [← hSl]
      · rw [if_neg hemp]
        have hdne : s.r.data ≠ [] := by
          intro hd; rw [hG, hd] at hemp; simp at hemp
        have hdl : 0 < s.r.data.length := List.length_pos_iff.mpr hdne
        have hgne : (s.r.readFull A.blk).2.1.isEmpty = false := by simpa using hemp
        have hih := ih { r := (s.r.readFull A.blk).1, closed := false, chunkbuf := s.chunkbuf ++ (s.r.readFull A.blk).2.1, buf := (s.r.readFull A.blk).2.1, count := s.count, pos := s.pos, pre := s.pre, dig := s.dig } rfl
          ⟨S, by simp [hcb], hSl, hdig⟩
          (by simp only [hD, List.length_drop, hgne, Bool.false_eq_true, if_false]; omega)
        have hU : (s.r.readFull A.blk).2.1 ++ (s.r.readFull A.blk).1.data = s.r.data := by
          rw [hG, hD, List.take_append_drop]
        simp only [List.append_assoc, hU] at hih
        rw [hb, List.nil_append]
        rw [hcb] at hih ⊢
        exact hih
    · rw [if_neg hbe]
      have hbne : s.buf ≠ [] := fun h => hbe (List.isEmpty_iff.mpr h)
      have hbl : 0 < s.buf.length := List.length_pos_iff.mpr hbne
      have hbf : s.buf.isEmpty = false := by simpa using hbe
      rw [hbf] at hf
      simp only [Bool.false_eq_true, if_false] at hf
      have hDne : s.chunkbuf ++ s.r.data ≠ [] := by
        rw [hcb]; intro h
        have := congrArg List.length h
        simp only [List.length_append, List.length_nil] at this; omega
      refine ⟨fun h => absurd h hDne, fun _ => ?_⟩
      by_cases hpre : s.pre > s.buf.length
      · -- the whole block lies inside the unhashed prefix
        rw [if_pos hpre]
        have hdn : s.dig = none := by
          cases hd : s.dig with
          | none => rfl
          | some _ => have := hdig (by simp [hd]); omega
        have hih := ih { r := s.r, closed := false, chunkbuf := s.chunkbuf, buf := [], count := s.count + s.buf.length, pos := s.pos + s.buf.length, pre := s.pre - s.buf.length, dig := s.dig } rfl
          ⟨S ++ s.buf, by simp [hcb], by simp [hSl], fun h => by simp [hdn] at h⟩
          (by simp only [List.isEmpty_nil, if_true]; omega)
        obtain ⟨_, h2⟩ := hih
        obtain ⟨s', hn, hle, hpost⟩ := h2 hDne
        have hdrop : (s.buf ++ s.r.data).drop s.pre = s.r.data.drop (s.pre - s.buf.length) := by
          rw [List.drop_append, List.drop_eq_nil_iff.mpr (by omega), List.nil_append]
        have hfin : rabFinish A (s.pre - s.buf.length) (s.count + s.buf.length) (s.pos + s.buf.length) s.dig
            ([] ++ s.r.data) = rabFinish A s.pre s.count s.pos s.dig (s.buf ++ s.r.data) := by
          have e1 : s.pos + s.buf.length + (s.pre - s.buf.length) = s.pos + s.pre := by omega
          have e2 : s.count + s.buf.length + (s.pre - s.buf.length) = s.count + s.pre := by omega
          have e3 : s.count + s.buf.length + s.r.data.length = s.count + (s.buf.length + s.r.data.length) := by omega
          unfold rabFinish
          rw [List.nil_append, hdrop, e1, e2, List.length_append, e3]
        have hn' : RabSt.next A f ({ r := s.r, closed := false, chunkbuf := s.chunkbuf, buf := [], count := s.count + s.buf.length, pos := s.pos + s.buf.length, pre := s.pre - s.buf.length, dig := s.dig } : RabSt σ) =
            (s', some ((s.chunkbuf ++ s.r.data).take (rabFinish A (s.pre - s.buf.length) (s.count + s.buf.length)
              (s.pos + s.buf.length) s.dig ([] ++ s.r.data)))) := hn
        have hle' : s.count + s.buf.length ≤ rabFinish A (s.pre - s.buf.length) (s.count + s.buf.length)
              (s.pos + s.buf.length) s.dig ([] ++ s.r.data) := hle
        rw [hfin] at hn' hle'
        refine ⟨s', hn', by omega, ?_⟩
        have hpost' : RabPost A ({ r := s.r, closed := false, chunkbuf := s.chunkbuf, buf := [], count := s.count + s.buf.length, pos := s.pos + s.buf.length, pre := s.pre - s.buf.length, dig := s.dig } : RabSt σ) s' (s.chunkbuf ++ s.r.data)
            (rabFinish A (s.pre - s.buf.length) (s.count + s.buf.length) (s.pos + s.buf.length) s.dig
              ([] ++ s.r.data)) := hpost
        rw [hfin] at hpost'
        simp only [RabPost] at hpost' ⊢
        split
        · rename_i hc; rw [if_pos hc] at hpost'; exact hpost'
        · rename_i hc; rw [if_neg hc] at hpost'
          obtain ⟨a, b, c, d, e, g⟩ := hpost'
          exact ⟨a, b, c, d, e, by rw [g]; omega⟩
      · rw [if_neg hpre]
        have hple : s.pre ≤ s.buf.length := by omega
        -- the one-pass scan over everything that is left
        have hUd : (s.buf ++ s.r.data).drop s.pre = s.buf.drop s.pre ++ s.r.data :=
          List.drop_append_of_le_length hple
        obtain ⟨sc1, sc2⟩ := rabScan_cdc A (s.buf.drop s.pre) (s.dig.getD (A.init (s.pos + s.pre))) (s.count + s.pre)
        have hbdl : (s.buf.drop s.pre).length = s.buf.length - s.pre := by simp
        cases hsc : rabScan A (s.dig.getD (A.init (s.pos + s.pre))) (s.count + s.pre) (s.buf.drop s.pre) with
        | inl cr =>
          obtain ⟨add, rest⟩ := cr
          obtain ⟨a1, a2, a3, a4⟩ := sc1 add rest hsc
          have hfull := cdcScan_append_some A.toCdc s.r.data _ _ _ _ a1
          have hfin : rabFinish A s.pre s.count s.pos s.dig (s.buf ++ s.r.data) = add := by
            simp only [rabFinish, hUd, hfull]
          rw [hfin]
          have hle : add ≤ s.chunkbuf.length := by rw [hcb]; simp [hSl]; omega
          have hrest : rest = s.chunkbuf.drop add := by
            have h1 : (s.buf.drop s.pre).drop (add - (s.count + s.pre)) = s.buf.drop (add - s.count) := by
              rw [List.drop_drop]; congr 1; omega
            have h2 : (S ++ s.buf).drop add = s.buf.drop (add - s.count) := by
              rw [List.drop_append, List.drop_eq_nil_iff.mpr (by omega), List.nil_append, hSl]
            rw [a2, hcb, h1, h2]
          simp only
          refine ⟨({ r := s.r, closed := false, chunkbuf := s.chunkbuf.drop add, buf := rest, count := 0, pos := s.pos + s.pre + (add - (s.count + s.pre)), pre := A.pre0, dig := none } : RabSt σ), ?_, by omega, ?_⟩
          · rw [List.take_append_of_le_length hle]
          · simp only [RabPost, Bool.false_eq_true, if_false]
            refine ⟨trivial, hrest.symm, trivial, trivial, ?_, by omega⟩
            rw [List.drop_append_of_le_length hle]
        | inr d =>
          have hcont := sc2 d hsc s.r.data
          simp only
          have hih := ih { r := s.r, closed := false, chunkbuf := s.chunkbuf, buf := [], count := s.count + s.pre + (s.buf.drop s.pre).length, pos := s.pos + s.pre + (s.buf.drop s.pre).length, pre := 0, dig := some d } rfl
            ⟨S ++ s.buf, by simp [hcb], by simp [hSl]; omega, fun _ => rfl⟩
            (by simp only [List.isEmpty_nil, if_true]; omega)
          obtain ⟨_, h2⟩ := hih
          obtain ⟨s', hn, hle, hpost⟩ := h2 hDne
          have hfin : rabFinish A 0 (s.count + s.pre + (s.buf.drop s.pre).length)
              (s.pos + s.pre + (s.buf.drop s.pre).length) (some d) ([] ++ s.r.data) =
              rabFinish A s.pre s.count s.pos s.dig (s.buf ++ s.r.data) := by
            have e3 : s.count + s.pre + (s.buf.drop s.pre).length + s.r.data.length =
                s.count + (s.buf.length + s.r.data.length) := by rw [hbdl]; omega
            unfold rabFinish
            rw [List.nil_append, List.drop_zero, Option.getD_some, Nat.add_zero, hUd, hcont, List.length_append, e3]
          have hn' : RabSt.next A f ({ r := s.r, closed := false, chunkbuf := s.chunkbuf, buf := [], count := s.count + s.pre + (s.buf.drop s.pre).length, pos := s.pos + s.pre + (s.buf.drop s.pre).length, pre := 0, dig := some d } : RabSt σ) =
              (s', some ((s.chunkbuf ++ s.r.data).take (rabFinish A 0 (s.count + s.pre + (s.buf.drop s.pre).length)
                (s.pos + s.pre + (s.buf.drop s.pre).length) (some d) ([] ++ s.r.data)))) := hn
          have hle' : s.count + s.pre + (s.buf.drop s.pre).length ≤ rabFinish A 0
                (s.count + s.pre + (s.buf.drop s.pre).length)
                (s.pos + s.pre + (s.buf.drop s.pre).length) (some d) ([] ++ s.r.data) := hle
          have hpost' : RabPost A ({ r := s.r, closed := false, chunkbuf := s.chunkbuf, buf := [], count := s.count + s.pre + (s.buf.drop s.pre).length, pos := s.pos + s.pre + (s.buf.drop s.pre).length, pre := 0, dig := some d } : RabSt σ) s'
              (s.chunkbuf ++ s.r.data) (rabFinish A 0 (s.count + s.pre + (s.buf.drop s.pre).length)
                (s.pos + s.pre + (s.buf.drop s.pre).length) (some d) ([] ++ s.r.data)) := hpost
          rw [hfin] at hn' hle' hpost'
          refine ⟨s', hn', by omega, ?_⟩
          simp only [RabPost] at hpost' ⊢
          split
          · rename_i hc; rw [if_pos hc] at hpost'; exact hpost'
          · rename_i hc; rw [if_neg hc] at hpost'
            obtain ⟨a, b, c, e, g, h⟩ := hpost'
            exact ⟨a, b, c, e, g, by rw [h, hbdl]; omega⟩

def rabRem {σ : Type} (s : RabSt σ) : Bytes := if s.closed then [] else s.chunkbuf ++ s.r.data
def RabInv {σ : Type} (A : Rab σ) (s : RabSt σ) : Prop :=
  s.closed = false → s.count = 0 ∧ s.chunkbuf = s.buf ∧ s.pre = A.pre0 ∧ s.dig = none

theorem rab_some {σ : Type} (A : Rab σ) (hblk : 0 < A.blk) (s : RabSt σ) (hinv : RabInv A s) (hne : rabRem s ≠ []) :
    ∃ s', RabSt.next A (2 * s.r.data.length + 4) s = (s', some ((rabRem s).take (cutRab A s.pos (rabRem s)))) ∧
      RabInv A s' ∧ rabRem s' = (rabRem s).drop (cutRab A s.pos (rabRem s)) ∧
      (rabRem s' = [] ∨ s'.pos = s.pos + cutRab A s.pos (rabRem s)) := by
  have hcl : s.closed = false := by
    cases hh : s.closed with
    | false => rfl
    | true => exact absurd (by simp [rabRem, hh]) hne
  obtain ⟨h1, h2, h3, h4⟩ := hinv hcl
  have hrem : rabRem s = s.chunkbuf ++ s.r.data := by simp [rabRem, hcl]
  rw [hrem] at hne ⊢
  have hmid : RabMid s := ⟨[], by rw [List.nil_append]; exact h2, by rw [h1]; rfl, fun h => by rw [h4] at h; cases h⟩
  have hfu : 2 * s.r.data.length + (if s.buf.isEmpty then 1 else 2) ≤ 2 * s.r.data.length + 4 := by
    split <;> omega
  obtain ⟨s', hn, _, hpost⟩ := (rab_next_spec A hblk (2 * s.r.data.length + 4) s hcl hmid hfu).2 hne
  have hc : rabFinish A s.pre s.count s.pos s.dig (s.buf ++ s.r.data) = cutRab A s.pos (s.chunkbuf ++ s.r.data) := by
    rw [h1, h3, h4, ← h2]; rfl
  rw [hc] at hn hpost
  refine ⟨s', hn, ?_, ?_, ?_⟩
  · intro hcl'
    unfold RabPost at hpost
    rw [hcl'] at hpost
    exact ⟨hpost.1, hpost.2.1, hpost.2.2.1, hpost.2.2.2.1⟩
  · unfold RabPost at hpost
    cases hcl' : s'.closed with
    | true =>
      rw [hcl'] at hpost
      have := hpost.2
      rw [this]; simp [rabRem, hcl']
    | false =>
      rw [hcl'] at hpost
      have := hpost.2.2.2.2.1
      rw [← this]; simp [rabRem, hcl']
  · unfold RabPost at hpost
    cases hcl' : s'.closed with
    | true => left; simp [rabRem, hcl']
    | false =>
      right
      rw [hcl'] at hpost
      have := hpost.2.2.2.2.2
      rw [this, h1, Nat.sub_zero]
theorem rab_none {σ : Type} (A : Rab σ) (hblk : 0 < A.blk) (s : RabSt σ) (hinv : RabInv A s) (h0 : rabRem s = []) :
    ∃ s', RabSt.next A (2 * s.r.data.length + 4) s = (s', none) := by
  cases hcl : s.closed with
  | true => exact ⟨s, by simp [RabSt.next, hcl]⟩
  | false =>
    obtain ⟨h1, h2, h3, h4⟩ := hinv hcl
    have hmid : RabMid s := ⟨[], by rw [List.nil_append]; exact h2, by rw [h1]; rfl, fun h => by rw [h4] at h; cases h⟩
    have hfu : 2 * s.r.data.length + (if s.buf.isEmpty then 1 else 2) ≤ 2 * s.r.data.length + 4 := by
      split <;> omega
    have h0' : s.chunkbuf ++ s.r.data = [] := by simpa [rabRem, hcl] using h0
    obtain ⟨s', hn, _⟩ := (rab_next_spec A hblk (2 * s.r.data.length + 4) s hcl hmid hfu).1 h0'
    exact ⟨s', hn⟩

theorem rab_sim {σ : Type} (A : Rab σ) (hblk : 0 < A.blk) : ∀ fuel (s : RabSt σ), RabInv A s →
    (drain (fun s => RabSt.next A (2 * s.r.data.length + 4) s) fuel s).1 =
      specChunks (cutRab A) fuel s.pos (rabRem s) :=
  drain_sim' (fun s => RabSt.next A (2 * s.r.data.length + 4) s) (cutRab A) (RabInv A) rabRem (fun s => s.pos)
    (fun s hi hne => rab_some A hblk s hi hne) (fun s hi h0 => rab_none A hblk s hi h0)

theorem rabFinish_cases {σ : Type} (A : Rab σ) (pre count pos : Nat) (dig : Option σ) (U : Bytes) :
    (∃ c, cdcScan A.toCdc (dig.getD (A.init (pos + pre))) (count + pre) (U.drop pre) = some c ∧
        rabFinish A pre count pos dig U = c) ∨
    (cdcScan A.toCdc (dig.getD (A.init (pos + pre))) (count + pre) (U.drop pre) = none ∧
        rabFinish A pre count pos dig U = count + U.length) := by
  unfold rabFinish
  cases h : cdcScan A.toCdc (dig.getD (A.init (pos + pre))) (count + pre) (U.drop pre) with
  | none => exact Or.inr ⟨rfl, rfl⟩
  | some c => exact Or.inl ⟨c, rfl, rfl⟩

theorem rabChunks_eq {σ : Type} (A : Rab σ) (hblk : 0 < A.blk) (rd : Rd) :
    rabChunks A rd = specChunks (cutRab A) (rd.data.length + 1) 0 rd.data := by
  simp only [rabChunks]
  have := rab_sim A hblk (rd.data.length + 1) { r := rd, pre := A.pre0 } (by intro _; simp)
  simpa [rabRem] using this

theorem cutRab_ok {σ : Type} (A : Rab σ) : CutOk (cutRab A) := by
  intro off d hd
  have hl : 0 < d.length := List.length_pos_iff.mpr hd
  rcases rabFinish_cases A A.pre0 0 off none d with ⟨c, hc, he⟩ | ⟨_, he⟩
  · have hb := cdcScan_bounds A.toCdc _ _ _ _ hc
    rw [List.length_drop] at hb
    have hcut : cutRab A off d = c := he
    rw [hcut]
    by_cases hp : A.pre0 ≤ d.length
    · omega
    · have : d.drop A.pre0 = [] := List.drop_eq_nil_iff.mpr (by omega)
      rw [this] at hc; simp [cdcScan] at hc
  · have hcut : cutRab A off d = 0 + d.length := he
    rw [hcut]; omega

/-- parameters as the parser guarantees them: window ≤ min ≤ max (so `pre` does not wrap) -/
def RabOk {σ : Type} (A : Rab σ) : Prop :=
  0 < A.win ∧ A.win ≤ A.min ∧ A.min ≤ A.max ∧ A.min < 2 ^ 64 ∧ 0 < A.blk

theorem pre0_eq {σ : Type} (A : Rab σ) (h : RabOk A) : A.pre0 = A.min - A.win := by
  obtain ⟨_, h2, _, h4, _⟩ := h
  unfold Rab.pre0
  have : A.min + 2 ^ 64 - A.win = (A.min - A.win) + 2 ^ 64 := by omega
  rw [this, Nat.add_mod_right, Nat.mod_eq_of_lt (by omega)]

theorem cutRab_le_max {σ : Type} (A : Rab σ) (h : RabOk A) (off : Nat) (d : Bytes) : cutRab A off d ≤ A.max := by
  have hp := pre0_eq A h
  obtain ⟨h1, h2, h3, h4, _⟩ := h
  have hplt : 0 + A.pre0 < A.toCdc.max := by show 0 + A.pre0 < A.max; omega
  rcases rabFinish_cases A A.pre0 0 off none d with ⟨c, hc, he⟩ | ⟨hc, he⟩
  · have hcut : cutRab A off d = c := he
    rw [hcut]
    exact cdcScan_le_max A.toCdc h3 _ _ _ _ hc hplt
  · have hcut : cutRab A off d = 0 + d.length := he
    rw [hcut]
    have := cdcScan_none_lt A.toCdc h3 _ _ _ hc hplt
    rw [List.length_drop] at this
    have hm : A.toCdc.max = A.max := rfl
    rw [hm] at this
    omega

theorem cutRab_ge_min {σ : Type} (A : Rab σ) (off : Nat) (d : Bytes) (hlt : cutRab A off d < d.length) :
    A.min ≤ cutRab A off d := by
  rcases rabFinish_cases A A.pre0 0 off none d with ⟨c, hc, he⟩ | ⟨hc, he⟩
  · have hcut : cutRab A off d = c := he
    rw [hcut]
    exact (cdcScan_bounds A.toCdc _ _ _ _ hc).2.2
  · have hcut : cutRab A off d = 0 + d.length := he
    rw [hcut] at hlt; omega

/-- with `MinSize < windowSize` the unhashed prefix `MinSize - windowSize` wraps around: everything is one chunk -/
theorem cutRab_small_min {σ : Type} (A : Rab σ) (hmin : A.min < A.win) (hw : A.win ≤ 2 ^ 64) (off : Nat) (d : Bytes)
    (hd : d.length ≤ 2 ^ 64 - A.win) : cutRab A off d = d.length := by
  have hp : d.length ≤ A.pre0 := by
    unfold Rab.pre0
    rw [Nat.mod_eq_of_lt (by omega)]; omega
  rcases rabFinish_cases A A.pre0 0 off none d with ⟨c, hc, he⟩ | ⟨hc, he⟩
  · rw [List.drop_eq_nil_iff.mpr hp] at hc; simp [cdcScan] at hc
  · have hcut : cutRab A off d = 0 + d.length := he
    rw [hcut]; omega
end C06

namespace C06

/-! ## parser -/

theorem tdiv_neg_le (a : Int) (h : a < 0) : a.tdiv 3 ≤ 0 := by
  rw [Int.tdiv_eq_ediv]; split <;> simp [Int.sign] <;> omega

theorem parseSize_sound (L : Limits) (parts : List (List Char)) (spec : Spec)
    (h : parseSize L parts = some spec) : spec.wf L := by
  unfold parseSize at h
  split at h
  · split at h
    · cases h
    · rename_i size _
      split at h
      · cases h
      · split at h
        · cases h
        · cases h
          simp only [Spec.wf]; omega
  · cases h

theorem rabinOfAvg_wf (L : Limits) (n : Nat) (h1 : L.rabinMinFloor ≤ n / 3) (h2 : n + n / 2 ≤ L.chunkSizeLimit)
    (h0 : 0 < L.rabinMinFloor) : (rabinOfAvg n).wf L := by
  simp only [rabinOfAvg, Spec.wf]; omega

theorem parseRabin_sound (L : Limits) (hL : L.ok) (parts : List (List Char)) (spec : Spec)
    (h : parseRabin L parts = some spec) : spec.wf L := by
  obtain ⟨hf16, _, hd, hdm, hdf⟩ := hL
  have hf : 0 < L.rabinMinFloor := by omega
  unfold parseRabin at h
  split at h
  · cases h; exact rabinOfAvg_wf L _ hdf hdm hf
  · split at h
    · cases h
    · rename_i size _
      split at h
      · cases h
      · rename_i hlo
        split at h
        · cases h
        · rename_i hhi
          cases h
          have hnn : 0 ≤ size := by
            by_cases hx : 0 ≤ size
            · exact hx
            · have := tdiv_neg_le size (by omega); omega
          rw [Int.tdiv_eq_ediv_of_nonneg hnn] at hlo
          rw [Int.tdiv_eq_ediv_of_nonneg (by omega)] at hhi
          apply rabinOfAvg_wf L _ _ _ hf <;> omega
  · split at h
    · cases h
    · rename_i mn _
      split at h
      · cases h
      · split at h
        · cases h
        · rename_i avg _
          split at h
          · cases h
          · rename_i mx _
            split at h
            · cases h
            · split at h
              · cases h
              · split at h
                · cases h
                · cases h
                  simp only [Spec.wf]; omega
  · cases h

theorem parseChars_sound (L : Limits) (hL : L.ok) (cs : List Char) (spec : Spec)
    (h : parseChars L cs = some spec) : spec.wf L := by
  unfold parseChars at h
  split at h
  · cases h
    obtain ⟨_, _, hd, hdm, _⟩ := hL
    simp only [Spec.wf]; omega
  · simp only at h
    split at h
    · exact parseSize_sound L _ _ h
    · split at h
      · exact parseRabin_sound L hL _ _ h
      · split at h
        · cases h; trivial
        · cases h

/-! ## registry -/

theorem register_mono (reg reg' : Registry) (n : List Char) (h : register reg n = some reg') :
    ∀ m ∈ reg, m ∈ reg' := by
  unfold register at h
  split at h
  · cases h
  · cases h; intro m hm; exact List.mem_cons_of_mem _ hm

theorem parseWith_register (L : Limits) (reg reg' : Registry) (n : List Char) (h : register reg n = some reg')
    (cs : List Char) (hk : cs = [] ∨ cs = ['d', 'e', 'f', 'a', 'u', 'l', 't'] ∨ (splitOn '-' cs).head! ∈ reg) :
    parseWith L reg' cs = parseWith L reg cs := by
  unfold parseWith
  by_cases hd : cs = [] ∨ cs = ['d', 'e', 'f', 'a', 'u', 'l', 't']
  · simp only [hd, if_true]
  · simp only [hd, if_false]
    have hin : (splitOn '-' cs).head! ∈ reg := by
      rcases hk with h1 | h1 | h1
      · exact absurd (Or.inl h1) hd
      · exact absurd (Or.inr h1) hd
      · exact h1
    have hin' := register_mono reg reg' n h _ hin
    simp only [hin, hin', if_true]

theorem register_builtin_panics (reg : Registry) (n : List Char) (hb : ∀ m ∈ builtinNames, m ∈ reg)
    (hn : n ∈ builtinNames) : register reg n = none := by
  unfold register
  rw [if_pos (Or.inr (Or.inr (hb n hn)))]

end C06
