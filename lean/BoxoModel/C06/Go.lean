import BoxoModel.C06.Model
import BoxoModel.Gen.BuzTable
/-! C06 — the model instantiated with the constants regenerated from the Go source (T-gen). Core-only. -/
namespace C06

def goLimits : Limits :=
  { chunkSizeLimit := Gen.Buz.chunkSizeLimit, defaultBlockSize := Gen.Buz.defaultBlockSize,
    -- the last `x < literal` comparison in parseRabinString is `min < 16`
    rabinMinFloor := (Gen.Buz.rabinLowerGuards.getLast?.map (·.2)).getD 0 }

def goBuzP : BuzP :=
  { min := Gen.Buz.buzMin, max := Gen.Buz.buzMax, mask := Gen.Buz.buzMask,
    tbl := fun b => Gen.Buz.bytehash[b.toNat]! }

end C06
