import BoxoModel.C41.Model
import BoxoModel.Lib.PathCleanLemmas
/-! Helper lemmas for C41. -/
namespace C41
open PathClean

/-- no two consecutive `/` -/
def noDoubleSlash : Str → Bool
  | a :: b :: t => !(a == '/' && b == '/') && noDoubleSlash (b :: t)
  | _ => true

theorem noDoubleSlash_noslash {s : Str} (h : '/' ∉ s) : noDoubleSlash s = true := by
  induction s with
  | nil => rfl
  | cons a t ih =>
    cases t with
    | nil => rfl
    | cons b t' =>
      have ha : a ≠ '/' := by intro e; apply h; simp [e]
      have : '/' ∉ b :: t' := by intro e; apply h; simp [e]
      simp [noDoubleSlash, ha, ih this]

/-- `a ++ "/" ++ rest` has no `//` when `a` has no slash, `rest` has no `//` and does not start with `/` -/
theorem noDoubleSlash_append {a rest : Str} (ha : '/' ∉ a) (hane : a ≠ [])
    (hr : noDoubleSlash rest = true) (hh : rest.head? ≠ some '/') :
    noDoubleSlash (a ++ '/' :: rest) = true := by
  induction a with
  | nil => exact absurd rfl hane
  | cons x xs ih =>
    have hx : x ≠ '/' := by intro e; apply ha; simp [e]
    have hxs : '/' ∉ xs := by intro e; apply ha; simp [e]
    cases xs with
    | nil =>
      cases rest with
      | nil => simp [noDoubleSlash, hx]
      | cons y ys =>
        have hy : y ≠ '/' := by intro e; apply hh; simp [e]
        simp [noDoubleSlash, hx, hy]
        simpa [noDoubleSlash] using hr
    | cons y ys =>
      have := ih hxs (by simp)
      simp [noDoubleSlash, hx]
      simpa using this

theorem noDoubleSlash_joinSlash {cs : List Str} (h : ∀ c ∈ cs, Normal c = true) :
    noDoubleSlash (joinSlash cs) = true := by
  induction cs with
  | nil => rfl
  | cons a t ih =>
    cases t with
    | nil => exact noDoubleSlash_noslash (normal_noslash (h a (by simp)))
    | cons b t' =>
      have hb := h b (by simp)
      have hh : (joinSlash (b :: t')).head? ≠ some '/' := by
        rw [joinSlash_cons_head (normal_ne_nil hb)]
        have := normal_noslash hb
        cases b with
        | nil => simp
        | cons x xs =>
          have : x ≠ '/' := by intro e; apply this; simp [e]
          simp [this]
      exact noDoubleSlash_append (normal_noslash (h a (by simp))) (normal_ne_nil (h a (by simp)))
        (ih (fun c hc => h c (by simp [hc]))) hh

/-- a URL (in the sense of `IsURL`) contains `//` -/
theorem isURL_doubleSlash {s : Str} (h : isURL s = true) : noDoubleSlash s = false := by
  unfold isURL at h
  match s with
  | [] => simp at h
  | [_] => simp at h
  | [_, _] => simp at h
  | [_, _, _] => simp at h
  | [_, _, _, _] => simp at h
  | [_, _, _, _, _] => simp at h
  | [_, _, _, _, _, _] => simp at h
  | a :: b :: c :: d :: e :: f :: g :: t =>
    simp at h
    rcases h with ⟨_, h | h⟩
    · cases t with
      | nil => simp at h
      | cons i t' =>
        simp at h
        obtain ⟨_, _, _, h6, h7⟩ := h
        subst h6; subst h7
        simp [noDoubleSlash]
    · obtain ⟨_, h5, h6⟩ := h
      subst h5; subst h6
      simp [noDoubleSlash]


theorem physical_append (links : List (List Str × List Str)) (R rest : List Str) :
    physical links (R ++ rest) = rest.foldl (physStep links) (physical links R) := by
  simp [physical, List.foldl_append]

theorem foldl_physStep_nolink (links : List (List Str × List Str)) (rest acc : List Str)
    (h : ∀ k, 0 < k → k ≤ rest.length → lookupLink links (acc ++ rest.take k) = none) :
    rest.foldl (physStep links) acc = acc ++ rest := by
  induction rest generalizing acc with
  | nil => simp
  | cons c t ih =>
    have h1 := h 1 (by omega) (by simp)
    simp only [List.take_succ_cons, List.take_zero] at h1
    simp only [List.foldl_cons, physStep, h1]
    rw [ih (acc ++ [c])]
    · simp
    · intro k hk hkl
      have := h (k + 1) (by omega) (by simp; omega)
      simpa using this

end C41
