import BoxoModel.Lib.PathClean
/-
C41 — filestore/fsrefstore.go: executable model of `FileManager.putTo` (the containment check and
the stored path) and of the path `Get` opens (`readDataObj` / `readFileDataObj`).

Transcribed branch for branch:
  putTo:  IsURL(FullPath) ? (AllowUrls ? store FullPath : ErrUrlstoreNotEnabled)
          : !AllowFiles ? ErrFilestoreNotEnabled
          : !filepath.HasPrefix(FullPath, root) ? error            -- plain string prefix
          : p, err := filepath.Rel(root, FullPath); err ? error
          : [fix] p == ".." || HasPrefix(p, "../") ? error          -- component check, added by the fix: commit
          : store filepath.ToSlash(p)
  Get:    IsURL(stored) ? (AllowUrls ? HTTP : ErrUrlstoreNotEnabled) : !AllowFiles ? ErrFilestoreNotEnabled : open filepath.Join(root, FromSlash(stored))
`fixed = false` is the code before the fix: commit (kept for the counterexample theorem).
Strings are byte strings (`PathClean.Str`); `filepath.*` are the Unix versions from `Lib.PathClean`.
Core-only: imported by the driver.
-/
namespace C41
open PathClean

/-- `filestore.IsURL` -/
def isURL (s : Str) : Bool :=
  (s.length > 7 && s.take 4 == ['h', 't', 't', 'p']) &&
    ((s.length > 8 && (s.drop 4).take 4 == ['s', ':', '/', '/']) || (s.drop 4).take 3 == [':', '/', '/'])

structure Cfg where
  allowFiles : Bool
  allowUrls : Bool
  fixed : Bool := true

inductive PutRes where
  | urlDisabled
  | fileDisabled
  | reject
  | url (stored : Str)
  | file (stored : Str)
deriving DecidableEq, Repr

/-- the component check added by the fix: the relative path leaves the root -/
def leavesRoot (p : Str) : Bool := relEscapes p

def put (cfg : Cfg) (root full : Str) : PutRes :=
  if isURL full then (if !cfg.allowUrls then .urlDisabled else .url full)
  else if !cfg.allowFiles then .fileDisabled
  else if !root.isPrefixOf full then .reject
  else match rel root full with
    | none => .reject
    | some p => if cfg.fixed && leavesRoot p then .reject else .file p

inductive GetRes where
  | http
  /-- readURLDataObj with the urlstore off: ErrUrlstoreNotEnabled -/
  | urlDisabled
  | disabled
  | openFile (abspath : Str)
deriving DecidableEq, Repr

def get (cfg : Cfg) (root stored : Str) : GetRes :=
  -- the kind of a reference is decided by its stored form, never by the current flags
  if isURL stored then (if !cfg.allowUrls then .urlDisabled else .http)
  else if !cfg.allowFiles then .disabled
  else .openFile (join2 root stored)


/-- PutMany: every reference goes through putTo into one batch; the first error aborts and nothing is
committed. `.error i` = index of the first refused reference, `.ok` = what is stored for each block. -/
def putMany (cfg : Cfg) (root : Str) : List Str → Except Nat (List Str)
  | [] => .ok []
  | full :: rest =>
    match put cfg root full with
    | .file s | .url s =>
      match putMany cfg root rest with
      | .ok ss => .ok (s :: ss)
      | .error i => .error (i + 1)
    | _ => .error 0

/-! ### what the operating system does with the opened path

`Get` hands the lexical path to `os.Open`; the kernel resolves it element by element and follows symbolic
links.  `links` maps the (physical, absolute) element list of a symbolic link to the element list of its
absolute, already physical target. -/

def lookupLink (links : List (List Str × List Str)) (p : List Str) : Option (List Str) :=
  (links.find? (·.1 = p)).map (·.2)

def physStep (links : List (List Str × List Str)) (acc : List Str) (c : Str) : List Str :=
  match lookupLink links (acc ++ [c]) with
  | some t => t
  | none => acc ++ [c]

/-- physical location of the rooted element list `p` -/
def physical (links : List (List Str × List Str)) (p : List Str) : List Str :=
  p.foldl (physStep links) []

end C41
