import BoxoModel.C39.Lemmas
/-! C39: the reader walks a serialized tree back (path bookkeeping and the induction over trees). -/
namespace C39
open PathClean

/-- directory path of the name stack `P` as the reader sees it -/
def dp (P : List Str) : Str := '/' :: joinSlash P
/-- `dirName (dp P)` -/
def dd (P : List Str) : Str := '/' :: P.flatMap (· ++ ['/'])

/-- an entry name inside the quantifier: an ordinary path element made of bytes -/
def NameOK (c : Str) : Prop := Normal c = true ∧ IsBytes c

theorem joinSlash_snoc (P : List Str) (name : Str) :
    joinSlash (P ++ [name]) = P.flatMap (· ++ ['/']) ++ name := by
  induction P with
  | nil => simp [joinSlash]
  | cons a t ih =>
    cases t with
    | nil => simp [joinSlash]
    | cons b t' =>
      have : joinSlash (a :: (b :: t') ++ [name]) = a ++ '/' :: joinSlash ((b :: t') ++ [name]) := by
        simp [joinSlash]
      rw [this, ih]; simp

theorem dp_snoc (P : List Str) (name : Str) : dp (P ++ [name]) = dd P ++ name := by
  simp [dp, dd, joinSlash_snoc]

theorem dd_snoc (P : List Str) (c : Str) : dd (P ++ [c]) = dd P ++ (c ++ ['/']) := by
  simp [dd]

theorem dirName_dp {P : List Str} (h : ∀ c ∈ P, Normal c = true) : dirName (dp P) = dd P := by
  cases hP : P with
  | nil => simp [dirName, dp, dd, joinSlash]
  | cons a t =>
    rw [← hP]
    have hne : P ≠ [] := by rw [hP]; simp
    have hl := joinSlash_getLast hne (fun c hc => ⟨normal_ne_nil (h c hc), normal_noslash (h c hc)⟩)
    have hj : joinSlash P ≠ [] := by
      rw [hP]; exact joinSlash_ne_nil (normal_ne_nil (h a (by rw [hP]; simp)))
    unfold dirName dp
    have : ('/' :: joinSlash P).getLast? = (joinSlash P).getLast? := by
      cases hq : joinSlash P with
      | nil => exact absurd hq hj
      | cons y ys => simp
    rw [this]
    have hne' : ¬ ((joinSlash P).getLast? == some '/') = true := by simpa using hl
    rw [if_neg hne']
    obtain ⟨Q, c, hQ⟩ : ∃ Q c, P = Q ++ [c] := ⟨P.dropLast, P.getLast hne, (List.dropLast_concat_getLast hne).symm⟩
    rw [hQ, joinSlash_snoc]
    simp [dd]


theorem normal_of_nameOK {c : Str} (h : NameOK c) : Normal c = true := h.1

theorem cleanForm_normal_true {cs : List Str} (h : ∀ c ∈ cs, Normal c = true) : CleanForm true cs = true :=
  stkOK_of_normal (by simpa using h)
theorem cleanForm_normal_false {cs : List Str} (h : ∀ c ∈ cs, Normal c = true) : CleanForm false cs = true :=
  stkOK_of_normal (by simpa using h)

theorem cleanCP_dp {P : List Str} (h : ∀ c ∈ P, Normal c = true) : cleanCP (dp P) = { rooted := true, comps := P } := by
  have := cleanCP_render (p := { rooted := true, comps := P }) (cleanForm_normal_true h)
  simpa [CP.render, render, dp] using this

theorem clean_dp {P : List Str} (h : ∀ c ∈ P, Normal c = true) : clean (dp P) = dp P := by
  unfold clean; rw [cleanCP_dp h]; simp [CP.render, render, dp]

theorem clean_joinSlash {Q : List Str} (hne : Q ≠ []) (h : ∀ c ∈ Q, Normal c = true) :
    clean (joinSlash Q) = joinSlash Q := by
  have := cleanCP_render (p := { rooted := false, comps := Q }) (cleanForm_normal_false h)
  unfold clean
  have e : joinSlash Q = CP.render { rooted := false, comps := Q } := by simp [CP.render, render, hne]
  rw [e, this]

theorem joinSlash_append_one {P : List Str} (hne : P ≠ []) (name : Str) :
    joinSlash P ++ '/' :: name = joinSlash (P ++ [name]) := by
  induction P with
  | nil => exact absurd rfl hne
  | cons a t ih =>
    cases t with
    | nil => simp [joinSlash]
    | cons b t' =>
      have : joinSlash (a :: (b :: t') ++ [name]) = a ++ '/' :: joinSlash ((b :: t') ++ [name]) := by
        simp [joinSlash]
      rw [this, ← ih (by simp)]
      simp [joinSlash]

/-- the writer's `path.Join(path.Join(mfr.path...), name)` -/
theorem pathJoin_stack {P : List Str} {name : Str} (hP : ∀ c ∈ P, Normal c = true) (hn : Normal name = true) :
    pathJoin [pathJoin ([] :: P), name] = joinSlash (P ++ [name]) := by
  have hall : ∀ c ∈ P ++ [name], Normal c = true := by
    intro c hc; simp at hc; rcases hc with e | e
    · exact hP c e
    · subst e; exact hn
  have hnne : name ≠ [] := normal_ne_nil hn
  cases hPc : P with
  | nil =>
    simp only [pathJoin, List.dropWhile, decide_true, List.nil_append]
    simp only [if_true, List.dropWhile]
    simp [hnne, joinSlash]
    have := clean_joinSlash (Q := [name]) (by simp) (by simpa using hn)
    simpa [joinSlash] using this
  | cons a t =>
    rw [← hPc]
    have hPne : P ≠ [] := by rw [hPc]; simp
    have ha : a ≠ [] := normal_ne_nil (hP a (by rw [hPc]; simp))
    have h1 : pathJoin ([] :: P) = joinSlash P := by
      unfold pathJoin
      have : ([] :: P).dropWhile (· = []) = P := by
        rw [hPc]; simp [List.dropWhile, ha]
      simp only [this, hPne, if_false]
      exact clean_joinSlash hPne hP
    rw [h1]
    have hj : joinSlash P ≠ [] := by rw [hPc]; exact joinSlash_ne_nil ha
    unfold pathJoin
    have : [joinSlash P, name].dropWhile (· = []) = [joinSlash P, name] := by
      simp [List.dropWhile, hj]
    simp only [this]
    rw [if_neg (by simp)]
    have : joinSlash [joinSlash P, name] = joinSlash (P ++ [name]) := by
      simp only [joinSlash]; exact joinSlash_append_one hPne name
    rw [this]
    exact clean_joinSlash (by simp) hall

theorem isBytes_joinSlash {Q : List Str} (h : ∀ c ∈ Q, IsBytes c) : IsBytes (joinSlash Q) := by
  induction Q with
  | nil => intro c hc; simp [joinSlash] at hc
  | cons a t ih =>
    cases t with
    | nil => simpa [joinSlash] using h a (by simp)
    | cons b t' =>
      intro c hc
      simp only [joinSlash, List.mem_append, List.mem_cons] at hc
      rcases hc with e | e | e
      · exact h a (by simp) c e
      · subst e; decide
      · exact ih (fun x hx => h x (by simp [hx])) c e

/-- the reader's name of the part written for entry `name` under the stack `P` -/
theorem fileName_mkPart {P : List Str} {name : Str} (hP : ∀ c ∈ P, NameOK c) (hn : NameOK name)
    (form : Bool) (mode : Nat) (mt : Option (Int × Nat)) (ct : CType) (body a : Str) :
    fileName (mkPart form ([] :: P) name mode mt ct body a) = dp (P ++ [name]) := by
  have hall : ∀ c ∈ P ++ [name], NameOK c := by
    intro c hc; simp at hc; rcases hc with e | e
    · exact hP c e
    · subst e; exact hn
  unfold fileName mkPart
  simp only
  rw [pathJoin_stack (fun c hc => (hP c hc).1) hn.1]
  rw [unescape_escape _ (isBytes_joinSlash (fun c hc => (hall c hc).2))]
  simp only
  exact clean_dp (fun c hc => (hall c hc).1)

theorem pathJoin_dp {P : List Str} {cur : Str} (hP : ∀ c ∈ P, Normal c = true) (hc : Normal cur = true) :
    pathJoin [dp P, cur] = dp (P ++ [cur]) := by
  have hall : ∀ c ∈ P ++ [cur], Normal c = true := by
    intro c hc'; simp at hc'; rcases hc' with e | e
    · exact hP c e
    · subst e; exact hc
  unfold pathJoin
  have : [dp P, cur].dropWhile (· = []) = [dp P, cur] := by simp [List.dropWhile, dp]
  simp only [this]
  rw [if_neg (by simp)]
  simp only [joinSlash]
  unfold clean
  have hr : isRooted (dp P) = true := rfl
  have hcp := cleanCP_dp hP
  have := cleanCP_append_rest (a := dp P) (rest := [cur]) (by simp [dp]) (by simp)
    (by rw [hr, hcp]; exact cleanForm_normal_true hall)
  simp only [joinSlash] at this
  rw [this, hr, hcp]
  simp [CP.render, render, dp]

/-! ### child tests -/

theorem isChild_dp {P : List Str} (h : ∀ c ∈ P, Normal c = true) (x : Str) :
    isChild x (dp P) = (dd P).isPrefixOf x := by
  unfold isChild; rw [dirName_dp h]

theorem isPrefixOf_append_self (a b : Str) : a.isPrefixOf (a ++ b) = true := by
  rw [List.isPrefixOf_iff_prefix]; exact List.prefix_append a b

theorem isPrefixOf_append_left (l a b : Str) : (l ++ a).isPrefixOf (l ++ b) = a.isPrefixOf b := by
  rw [Bool.eq_iff_iff, List.isPrefixOf_iff_prefix, List.isPrefixOf_iff_prefix]
  exact List.prefix_append_right_inj l

theorem not_prefix_slash {cur name : Str} (hn : '/' ∉ name) : (cur ++ ['/']).isPrefixOf name = false := by
  cases h : (cur ++ ['/']).isPrefixOf name with
  | false => rfl
  | true =>
    exfalso
    rw [List.isPrefixOf_iff_prefix] at h
    obtain ⟨t, ht⟩ := h
    apply hn
    rw [← ht]; simp

theorem child_of_parent {P : List Str} {name : Str} (hP : ∀ c ∈ P, Normal c = true) :
    isChild (dp (P ++ [name])) (dp P) = true := by
  rw [isChild_dp hP, dp_snoc]; exact isPrefixOf_append_self _ _

theorem not_child_of_sibling {P : List Str} {name cur : Str} (hP : ∀ c ∈ P, Normal c = true)
    (hc : Normal cur = true) (hn : '/' ∉ name) :
    isChild (dp (P ++ [name])) (dp (P ++ [cur])) = false := by
  have hall : ∀ c ∈ P ++ [cur], Normal c = true := by
    intro c hc'; simp at hc'; rcases hc' with e | e
    · exact hP c e
    · subst e; exact hc
  rw [isChild_dp hall, dp_snoc, dd_snoc, isPrefixOf_append_left]
  exact not_prefix_slash hn

theorem not_child_deeper {P : List Str} {c x : Str} (hP : ∀ c ∈ P, Normal c = true) (hc : Normal c = true)
    (h : isChild x (dp P) = false) : isChild x (dp (P ++ [c])) = false := by
  have hall : ∀ c' ∈ P ++ [c], Normal c' = true := by
    intro c' hc'; simp at hc'; rcases hc' with e | e
    · exact hP c' e
    · subst e; exact hc
  rw [isChild_dp hP] at h
  rw [isChild_dp hall, dd_snoc]
  cases h2 : (dd P ++ (c ++ ['/'])).isPrefixOf x with
  | false => rfl
  | true =>
    exfalso
    rw [List.isPrefixOf_iff_prefix] at h2
    have : dd P <+: x := List.IsPrefix.trans (List.prefix_append _ _) h2
    rw [← List.isPrefixOf_iff_prefix] at this
    rw [this] at h; exact absurd h (by simp)

theorem makeRelative_child (P : List Str) {name : Str} (hP : ∀ c ∈ P, Normal c = true) :
    makeRelative (dp (P ++ [name])) (dp P) = name := by
  unfold makeRelative
  rw [dirName_dp hP, dp_snoc, isPrefixOf_append_self]
  simp

end C39
