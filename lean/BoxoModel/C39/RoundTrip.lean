import BoxoModel.C39.Walk
/-! C39: the induction over trees — walking the serialization of a tree gives the tree back. -/
namespace C39
open PathClean

mutual
def needNode : Node → Nat
  | .dir _ kids => needKids kids
  | .file _ _ _ => 0
  | .link _ _ => 0
def needKids : Kids → Nat
  | .nil => 1
  | .cons _ n rest => 1 + max (needNode n) (needKids rest)
end

-- every entry name is an ordinary path element made of bytes
mutual
def NamesOKNode : Node → Prop
  | .dir _ kids => NamesOK kids
  | .file _ a _ => IsBytes a
  | .link _ _ => True
def NamesOK : Kids → Prop
  | .nil => True
  | .cons name n rest => NameOK name ∧ NamesOKNode n ∧ NamesOK rest
end

-- every mode / time is one the header format can carry
mutual
def MetaOKNode : Node → Prop
  | .dir m kids => ValidMeta m.mode m.mtime ∧ MetaOK kids
  | .file m _ _ => ValidMeta m.mode m.mtime
  | .link mt _ => ValidMeta symlinkMode mt
def MetaOK : Kids → Prop
  | .nil => True
  | .cons _ n rest => MetaOKNode n ∧ MetaOK rest
end

/-- what the reader is expected to hand back -/
def expectKids (form : Bool) (ks : Kids) : Kids := if form then ks else stripKids ks
def expectNode (form : Bool) (n : Node) : Node := if form then n else stripNode n

/-- the first part left over does not belong to the directory `P` -/
def TailOK (P : List Str) : List Part → Prop
  | [] => True
  | p :: _ => isChild (fileName p) (dp P) = false

theorem next_nil (d cur : Str) : next d cur [] = .stop [] := rfl

theorem next_stop {P : List Str} (cur : Str) {p : Part} (X : List Part)
    (h : isChild (fileName p) (dp P) = false) : next (dp P) cur (p :: X) = .stop (p :: X) := by
  simp [next, h]

theorem next_head {P : List Str} {cur name : Str} (hP : ∀ c ∈ P, Normal c = true)
    (hcur : cur = [] ∨ Normal cur = true) (hn : Normal name = true) (p : Part)
    (hp : fileName p = dp (P ++ [name])) (X : List Part) :
    next (dp P) cur (p :: X) = .entry name p X := by
  have h1 := child_of_parent (name := name) hP
  have h2 : (cur ≠ [] && isChild (dp (P ++ [name])) (pathJoin [dp P, cur])) = false := by
    rcases hcur with e | e
    · simp [e]
    · rw [pathJoin_dp hP e, not_child_of_sibling hP e (normal_noslash hn)]; simp
  have h3 := makeRelative_child P (name := name) hP
  have h4 : cutChar '/' name = none := cutChar_none (normal_noslash hn)
  unfold next
  simp only [hp, h1, h3, h4]
  simp only [Bool.not_true, Bool.false_eq_true, if_false]
  rw [if_neg (by simpa using h2)]

theorem walk_stop (fixed : Bool) (fuel : Nat) {P : List Str} (cur : Str) (tail : List Part) (ht : TailOK P tail) :
    walk fixed (fuel + 1) (dp P) cur tail = (.nil, tail) := by
  cases tail with
  | nil => simp [walk, next_nil]
  | cons p X => simp [walk, next_stop cur X ht]

theorem serKids_stack (form : Bool) (P : List Str) (name : Str) (ks : Kids) :
    serKids form (([] : Str) :: P ++ [name]) ks = serKids form ([] :: (P ++ [name])) ks := by simp

/-- the head of a non-empty serialization is the entry's own part -/
theorem serKids_cons (form : Bool) (S : List Str) (name : Str) (n : Node) (rest : Kids) :
    serKids form S (.cons name n rest) =
      headPart form S name n ::
        ((match n with
          | .dir _ kids => serKids form (S ++ [name]) kids
          | _ => []) ++ serKids form S rest) := by
  cases n <;> simp [serKids, serNode, headPart]

theorem fileName_headPart {P : List Str} {name : Str} (hP : ∀ c ∈ P, NameOK c) (hn : NameOK name)
    (form : Bool) (n : Node) : fileName (headPart form ([] :: P) name n) = dp (P ++ [name]) := by
  cases n <;> exact fileName_mkPart hP hn _ _ _ _ _ _

theorem tailOK_after {P : List Str} {name : Str} (hP : ∀ c ∈ P, NameOK c) (hn : NameOK name) (form : Bool)
    (rest : Kids) (hr : NamesOK rest) (tail : List Part) (ht : TailOK P tail) :
    TailOK (P ++ [name]) (serKids form ([] :: P) rest ++ tail) := by
  have hPn : ∀ c ∈ P, Normal c = true := fun c hc => (hP c hc).1
  cases rest with
  | nil =>
    simp only [serKids, List.nil_append]
    cases tail with
    | nil => trivial
    | cons p X => exact not_child_deeper hPn hn.1 ht
  | cons name2 n2 rest2 =>
    rw [serKids_cons]
    simp only [NamesOK] at hr
    show isChild (fileName (headPart form ([] :: P) name2 n2)) (dp (P ++ [name])) = false
    rw [fileName_headPart hP hr.1]
    exact not_child_of_sibling hPn hn.1 (normal_noslash hr.1.1)

theorem metaOf_headPart_form {name : Str} (S : List Str) (n : Node) (hm : MetaOKNode n) :
    metaOf (fileInfo true (headPart true S name n)) =
      (match n with
       | .file m _ _ => m
       | .link mt _ => ⟨symlinkMode, mt⟩
       | .dir m _ => m) := by
  cases n with
  | file m a c => simp only [headPart]; rw [fileInfo_written _ _ hm]; rfl
  | link mt t => simp only [headPart]; rw [fileInfo_written _ _ hm]; rfl
  | dir m kids => simp only [headPart]; rw [fileInfo_written _ _ hm.1]; rfl

theorem metaOf_headPart_mixed (fixed : Bool) {name : Str} (S : List Str) (n : Node) :
    metaOf (fileInfo fixed (headPart false S name n)) = ⟨0, none⟩ := by
  cases n <;> simp [headPart, fileInfo_mixed, metaOf]

theorem absPathOf_headPart_file (form : Bool) (S : List Str) (name : Str) (m : Meta) (a c : Str) (ha : IsBytes a) :
    absPathOf (headPart form S name (.file m a c)) = a := by
  simp only [headPart]; exact absPathOf_mkPart _ _ _ _ _ _ _ _ ha

theorem headPart_ctype_body (form : Bool) (S : List Str) (name : Str) (n : Node) :
    (headPart form S name n).ctype = (match n with | .file _ _ _ => .file | .link _ _ => .symlink | .dir _ _ => .dir) ∧
    (headPart form S name n).body = (match n with | .file _ _ c => c | .link _ t => t | .dir _ _ => []) := by
  cases n <;> simp [headPart, mkPart]

/-- **Walking a serialized directory gives its entries back** (form mode, fixed reader). -/
theorem walk_serKids_form : (ks : Kids) → (P : List Str) → (cur : Str) → (tail : List Part) → (fuel : Nat) →
    (∀ c ∈ P, NameOK c) → (cur = [] ∨ Normal cur = true) → NamesOK ks → MetaOK ks →
    needKids ks ≤ fuel → TailOK P tail →
    walk true fuel (dp P) cur (serKids true ([] :: P) ks ++ tail) = (ks, tail)
  | .nil, P, cur, tail, fuel, hP, hcur, hn, hm, hf, ht => by
    cases fuel with
    | zero => simp [needKids] at hf
    | succ f => simp only [serKids, List.nil_append]; exact walk_stop _ f cur tail ht
  | .cons name (.file m a c) rest, P, cur, tail, fuel, hP, hcur, hn, hm, hf, ht => by
    have hPn : ∀ c ∈ P, Normal c = true := fun c hc => (hP c hc).1
    cases fuel with
    | zero => simp [needKids] at hf
    | succ f =>
    simp only [NamesOK] at hn
    simp only [MetaOK] at hm
    obtain ⟨hname, hnn, hnr⟩ := hn
    obtain ⟨hmn, hmr⟩ := hm
    have hfr : needKids rest ≤ f := by simp [needKids] at hf; omega
    rw [serKids_cons, List.cons_append]
    rw [walk, next_head hPn hcur hname.1 _ (fileName_headPart hP hname true _)]
    have hcb := headPart_ctype_body true ([] :: P) name (.file m a c)
    have hmeta := metaOf_headPart_form (name := name) ([] :: P) (.file m a c) hmn
    have habs := absPathOf_headPart_file true ([] :: P) name m a c hnn
    simp only [hcb.1, hcb.2, hmeta, habs, List.nil_append]
    rw [walk_serKids_form rest P name tail f hP (Or.inr hname.1) hnr hmr hfr ht]
  | .cons name (.link mt t) rest, P, cur, tail, fuel, hP, hcur, hn, hm, hf, ht => by
    have hPn : ∀ c ∈ P, Normal c = true := fun c hc => (hP c hc).1
    cases fuel with
    | zero => simp [needKids] at hf
    | succ f =>
    simp only [NamesOK] at hn
    simp only [MetaOK] at hm
    obtain ⟨hname, hnn, hnr⟩ := hn
    obtain ⟨hmn, hmr⟩ := hm
    have hfr : needKids rest ≤ f := by simp [needKids] at hf; omega
    rw [serKids_cons, List.cons_append]
    rw [walk, next_head hPn hcur hname.1 _ (fileName_headPart hP hname true _)]
    have hcb := headPart_ctype_body true ([] :: P) name (.link mt t)
    have hmeta := metaOf_headPart_form (name := name) ([] :: P) (.link mt t) hmn
    simp only [hcb.1, hcb.2, hmeta, List.nil_append]
    rw [walk_serKids_form rest P name tail f hP (Or.inr hname.1) hnr hmr hfr ht]
  | .cons name (.dir m kids) rest, P, cur, tail, fuel, hP, hcur, hn, hm, hf, ht => by
    have hPn : ∀ c ∈ P, Normal c = true := fun c hc => (hP c hc).1
    cases fuel with
    | zero => simp [needKids] at hf
    | succ f =>
    simp only [NamesOK] at hn
    simp only [MetaOK] at hm
    obtain ⟨hname, hnn, hnr⟩ := hn
    obtain ⟨hmn, hmr⟩ := hm
    have hfr : needKids rest ≤ f := by simp [needKids] at hf; omega
    rw [serKids_cons, List.cons_append]
    rw [walk, next_head hPn hcur hname.1 _ (fileName_headPart hP hname true _)]
    have hcb := headPart_ctype_body true ([] :: P) name (.dir m kids)
    have hmeta := metaOf_headPart_form (name := name) ([] :: P) (.dir m kids) hmn
    simp only [hcb.1, hmeta]
    have hfk : needKids kids ≤ f := by simp [needKids, needNode] at hf; omega
    have hP' : ∀ c ∈ P ++ [name], NameOK c := by
      intro c hc; simp at hc; rcases hc with e | e
      · exact hP c e
      · subst e; exact hname
    rw [fileName_headPart hP hname true]
    rw [List.append_assoc]
    have hstack : serKids true (([] : Str) :: P ++ [name]) kids = serKids true ([] :: (P ++ [name])) kids := by simp
    rw [hstack]
    rw [walk_serKids_form kids (P ++ [name]) [] (serKids true ([] :: P) rest ++ tail) f hP' (Or.inl rfl)
      hnn hmn.2 hfk (tailOK_after hP hname true rest hnr tail ht)]
    simp only
    rw [walk_serKids_form rest P name tail f hP (Or.inr hname.1) hnr hmr hfr ht]
termination_by ks => sizeOf ks
decreasing_by all_goals simp_wf <;> omega

/-- **Walking a serialized directory gives its entries back** (mixed mode: modes and times are not transported; either reader). -/
theorem walk_serKids_mixed (fixed : Bool) : (ks : Kids) → (P : List Str) → (cur : Str) → (tail : List Part) → (fuel : Nat) →
    (∀ c ∈ P, NameOK c) → (cur = [] ∨ Normal cur = true) → NamesOK ks →
    needKids ks ≤ fuel → TailOK P tail →
    walk fixed fuel (dp P) cur (serKids false ([] :: P) ks ++ tail) = (stripKids ks, tail)
  | .nil, P, cur, tail, fuel, hP, hcur, hn, hf, ht => by
    cases fuel with
    | zero => simp [needKids] at hf
    | succ f => simp only [serKids, List.nil_append, stripKids]; exact walk_stop _ f cur tail ht
  | .cons name (.file m a c) rest, P, cur, tail, fuel, hP, hcur, hn, hf, ht => by
    have hPn : ∀ c ∈ P, Normal c = true := fun c hc => (hP c hc).1
    cases fuel with
    | zero => simp [needKids] at hf
    | succ f =>
    simp only [NamesOK] at hn
    obtain ⟨hname, hnn, hnr⟩ := hn
    have hfr : needKids rest ≤ f := by simp [needKids] at hf; omega
    rw [serKids_cons, List.cons_append]
    rw [walk, next_head hPn hcur hname.1 _ (fileName_headPart hP hname false _)]
    have hcb := headPart_ctype_body false ([] :: P) name (.file m a c)
    have hmeta := metaOf_headPart_mixed fixed (name := name) ([] :: P) (.file m a c)
    have habs := absPathOf_headPart_file false ([] :: P) name m a c hnn
    simp only [hcb.1, hcb.2, hmeta, habs, List.nil_append, stripKids, stripNode]
    rw [walk_serKids_mixed fixed rest P name tail f hP (Or.inr hname.1) hnr hfr ht]
  | .cons name (.link mt t) rest, P, cur, tail, fuel, hP, hcur, hn, hf, ht => by
    have hPn : ∀ c ∈ P, Normal c = true := fun c hc => (hP c hc).1
    cases fuel with
    | zero => simp [needKids] at hf
    | succ f =>
    simp only [NamesOK] at hn
    obtain ⟨hname, hnn, hnr⟩ := hn
    have hfr : needKids rest ≤ f := by simp [needKids] at hf; omega
    rw [serKids_cons, List.cons_append]
    rw [walk, next_head hPn hcur hname.1 _ (fileName_headPart hP hname false _)]
    have hcb := headPart_ctype_body false ([] :: P) name (.link mt t)
    have hmeta := metaOf_headPart_mixed fixed (name := name) ([] :: P) (.link mt t)
    simp only [hcb.1, hcb.2, hmeta, List.nil_append, stripKids, stripNode]
    rw [walk_serKids_mixed fixed rest P name tail f hP (Or.inr hname.1) hnr hfr ht]
  | .cons name (.dir m kids) rest, P, cur, tail, fuel, hP, hcur, hn, hf, ht => by
    have hPn : ∀ c ∈ P, Normal c = true := fun c hc => (hP c hc).1
    cases fuel with
    | zero => simp [needKids] at hf
    | succ f =>
    simp only [NamesOK] at hn
    obtain ⟨hname, hnn, hnr⟩ := hn
    have hfr : needKids rest ≤ f := by simp [needKids] at hf; omega
    rw [serKids_cons, List.cons_append]
    rw [walk, next_head hPn hcur hname.1 _ (fileName_headPart hP hname false _)]
    have hcb := headPart_ctype_body false ([] :: P) name (.dir m kids)
    have hmeta := metaOf_headPart_mixed fixed (name := name) ([] :: P) (.dir m kids)
    simp only [hcb.1, hmeta, stripKids, stripNode]
    have hfk : needKids kids ≤ f := by simp [needKids, needNode] at hf; omega
    have hP' : ∀ c ∈ P ++ [name], NameOK c := by
      intro c hc; simp at hc; rcases hc with e | e
      · exact hP c e
      · subst e; exact hname
    rw [fileName_headPart hP hname false]
    rw [List.append_assoc]
    have hstack : serKids false (([] : Str) :: P ++ [name]) kids = serKids false ([] :: (P ++ [name])) kids := by simp
    rw [hstack]
    rw [walk_serKids_mixed fixed kids (P ++ [name]) [] (serKids false ([] :: P) rest ++ tail) f hP' (Or.inl rfl)
      hnn hfk (tailOK_after hP hname false rest hnr tail ht)]
    simp only
    rw [walk_serKids_mixed fixed rest P name tail f hP (Or.inr hname.1) hnr hfr ht]
termination_by ks => sizeOf ks
decreasing_by all_goals simp_wf <;> omega


theorem needKids_le (form : Bool) (S : List Str) (ks : Kids) : needKids ks ≤ (serKids form S ks).length + 1 := by
  match ks with
  | .nil => simp [needKids]
  | .cons name (.file m a c) rest =>
    have := needKids_le form S rest
    simp [needKids, needNode, serKids, serNode]; omega
  | .cons name (.link mt t) rest =>
    have := needKids_le form S rest
    simp [needKids, needNode, serKids, serNode]; omega
  | .cons name (.dir m kids) rest =>
    have h1 := needKids_le form S rest
    have h2 := needKids_le form (S ++ [name]) kids
    simp [needKids, needNode, serKids, serNode]; omega

end C39
