import BoxoModel.C39.Mime
import BoxoModel.C39.Lemmas
/-! C39: the header value written by the writer is read back by the modelled fragment of mime.ParseMediaType. -/
namespace C39
open PathClean

/-- content of a quoted-string that needs no escaping -/
def QSafe (x : Str) : Prop := ∀ c ∈ x, c ≠ '"' ∧ c ≠ '\\' ∧ c ≠ '\r' ∧ c ≠ '\n'

theorem consumeQuoted_quote (r : Str) : consumeQuoted ('"' :: r) = some ([], r) := by
  rw [consumeQuoted.eq_def]; simp

theorem consumeQuoted_plain (c : Char) (r : Str) (h1 : c ≠ '"') (h2 : c ≠ '\\') (h3 : c ≠ '\r') (h4 : c ≠ '\n') :
    consumeQuoted (c :: r) = (consumeQuoted r).map (fun p => (c :: p.1, p.2)) := by
  rw [consumeQuoted.eq_def]; simp [h1, h2, h3, h4]

theorem token_not_space {a : Char} (h : isTokenChar a = true) : isSpaceA a = false := by
  unfold isTokenChar at h
  unfold isSpaceA
  simp only [Bool.and_eq_true, decide_eq_true_eq] at h
  have := h.1.1
  simp; omega

theorem consumeQuoted_safe (x rest : Str) (h : QSafe x) : consumeQuoted (x ++ '"' :: rest) = some (x, rest) := by
  induction x with
  | nil => rw [List.nil_append, consumeQuoted_quote]
  | cons c t ih =>
    have ⟨h1, h2, h3, h4⟩ := h c (by simp)
    have ht : QSafe t := fun y hy => h y (by simp [hy])
    rw [List.cons_append, consumeQuoted_plain c _ h1 h2 h3 h4, ih ht]
    rfl

theorem consumeToken_append (t : Str) (ht : ∀ c ∈ t, isTokenChar c = true) (d : Char) (hd : isTokenChar d = false)
    (X : Str) : consumeToken (t ++ d :: X) = (t, d :: X) := by
  unfold consumeToken
  induction t with
  | nil => simp [List.takeWhile_cons, List.dropWhile_cons, hd]
  | cons c r ih =>
    have hc := ht c (by simp)
    have := ih (fun y hy => ht y (by simp [hy]))
    simp only [Prod.mk.injEq] at this
    simp [List.takeWhile_cons, List.dropWhile_cons, hc, this.1, this.2]

/-- a parameter name as the writer spells it: token characters, already lower case, not empty, no `*` -/
structure KeyOK (key : Str) : Prop where
  tok : ∀ c ∈ key, isTokenChar c = true
  low : key.map toLowerA = key
  ne : key ≠ []
  nostar : key.contains '*' = false

theorem consumeMediaParam_quoted {key : Str} (hk : KeyOK key) (x rest : Str) (hx : QSafe x) :
    consumeMediaParam (';' :: ' ' :: (key ++ '=' :: '"' :: (x ++ '"' :: rest))) = some (key, x, rest) := by
  unfold consumeMediaParam
  have h0 : trimLeftSp (';' :: ' ' :: (key ++ '=' :: '"' :: (x ++ '"' :: rest))) =
      ';' :: ' ' :: (key ++ '=' :: '"' :: (x ++ '"' :: rest)) := by
    simp [trimLeftSp, List.dropWhile_cons, isSpaceA]
  rw [h0]
  simp only
  have hkhead : trimLeftSp (' ' :: (key ++ '=' :: '"' :: (x ++ '"' :: rest))) = key ++ '=' :: '"' :: (x ++ '"' :: rest) := by
    cases hkey : key with
    | nil => exact absurd hkey hk.ne
    | cons a t =>
      have hns := token_not_space (hk.tok a (by rw [hkey]; simp))
      have hsp : isSpaceA ' ' = true := by decide
      simp [trimLeftSp, List.dropWhile_cons, hsp, hns]
  rw [hkhead]
  have heq : isTokenChar '=' = false := by decide
  rw [consumeToken_append key hk.tok '=' heq]
  simp only [hk.low, hk.ne, if_false]
  have h1 : trimLeftSp ('=' :: '"' :: (x ++ '"' :: rest)) = '=' :: '"' :: (x ++ '"' :: rest) := by
    simp [trimLeftSp, List.dropWhile_cons, isSpaceA]
  rw [h1]
  simp only
  have h2 : trimLeftSp ('"' :: (x ++ '"' :: rest)) = '"' :: (x ++ '"' :: rest) := by
    simp [trimLeftSp, List.dropWhile_cons, isSpaceA]
  rw [h2]
  simp only [consumeValue, consumeQuoted_safe x rest hx]
  have hne : ¬ (x = [] ∧ rest = '"' :: (x ++ '"' :: rest)) := by
    intro ⟨_, e⟩
    have := congrArg List.length e
    simp at this; omega
  rw [if_neg hne]


theorem keyOK_name : KeyOK hName := ⟨by decide, by decide, by decide, by decide⟩
theorem keyOK_filename : KeyOK hFilename := ⟨by decide, by decide, by decide, by decide⟩

theorem parseParams_step (fuel : Nat) {key : Str} (hk : KeyOK key) (x rest : Str) (hx : QSafe x)
    (acc : List (Str × Str)) (hacc : acc.any (·.1 = key) = false) :
    parseParams (fuel + 1) (quotedParam key x ++ rest) acc = parseParams fuel rest ((key, x) :: acc) := by
  have e : quotedParam key x ++ rest = ';' :: ' ' :: (key ++ '=' :: '"' :: (x ++ '"' :: rest)) := by
    simp [quotedParam]
  rw [e, parseParams]
  have h0 : trimLeftSp (';' :: ' ' :: (key ++ '=' :: '"' :: (x ++ '"' :: rest))) =
      ';' :: ' ' :: (key ++ '=' :: '"' :: (x ++ '"' :: rest)) := by
    simp [trimLeftSp, List.dropWhile_cons, isSpaceA]
  simp only [h0, consumeMediaParam_quoted hk x rest hx, hk.nostar, hacc]
  simp

theorem parseParams_end (fuel : Nat) (acc : List (Str × Str)) : parseParams (fuel + 1) [] acc = some acc.reverse := by
  simp [parseParams, trimLeftSp]

theorem takeWhile_stop {p : Char → Bool} (t : Str) (ht : ∀ c ∈ t, p c = true) (d : Char) (hd : p d = false) (X : Str) :
    (t ++ d :: X).takeWhile p = t := by
  induction t with
  | nil => simp [List.takeWhile_cons, hd]
  | cons c r ih => simp [List.takeWhile_cons, ht c (by simp), ih (fun y hy => ht y (by simp [hy]))]

/-- **The written header is read back**: disposition kind, form name and escaped file name. -/
theorem partFieldsOf_written (form : Bool) (mode : Nat) (mt : Option (Int × Nat)) (fe : Str)
    (hN : QSafe (formNameOf mode mt)) (hF : QSafe fe) :
    partFieldsOf (dispositionHeader form mode mt fe) =
      some (form, if form then formNameOf mode mt else [], fe) := by
  cases form with
  | true =>
    have hbase : (dispositionHeader true mode mt fe).takeWhile (· ≠ ';') = hFormData := by
      have e : dispositionHeader true mode mt fe =
          hFormData ++ ';' :: (' ' :: (hName ++ '=' :: '"' :: (formNameOf mode mt ++ ['"'])) ++ quotedParam hFilename fe) := by
        simp [dispositionHeader, quotedParam]
      rw [e]
      exact takeWhile_stop hFormData (by decide) ';' (by decide) _
    have hdrop : (dispositionHeader true mode mt fe).drop hFormData.length =
        quotedParam hName (formNameOf mode mt) ++ (quotedParam hFilename fe ++ []) := by
      simp [dispositionHeader, List.drop_append]
    have hfuel : (dispositionHeader true mode mt fe).length + 1 = ((dispositionHeader true mode mt fe).length - 2) + 3 := by
      have : 2 ≤ (dispositionHeader true mode mt fe).length := by simp [dispositionHeader, quotedParam]; omega
      omega
    unfold partFieldsOf parseMediaType
    simp only [hbase]
    have hmt : trimSp (hFormData.map toLowerA) = hFormData := by decide
    have hck : checkMediaType hFormData = true := by decide
    rw [hmt, hck, hdrop, hfuel]
    have k1 : hName ≠ hFilename := by decide
    have k2 : hFilename ≠ hName := by decide
    rw [parseParams_step _ keyOK_name _ _ hN [] (by simp)]
    rw [parseParams_step _ keyOK_filename _ _ hF _ (by simp [k1])]
    rw [parseParams_end]
    simp [lookup, k1, k2]
  | false =>
    have hbase : (dispositionHeader false mode mt fe).takeWhile (· ≠ ';') = hAttachment := by
      have e : dispositionHeader false mode mt fe =
          hAttachment ++ ';' :: (' ' :: (hFilename ++ '=' :: '"' :: (fe ++ ['"']))) := by
        simp [dispositionHeader, quotedParam]
      rw [e]
      exact takeWhile_stop hAttachment (by decide) ';' (by decide) _
    have hdrop : (dispositionHeader false mode mt fe).drop hAttachment.length = quotedParam hFilename fe ++ [] := by
      simp [dispositionHeader, List.drop_append]
    have hfuel : (dispositionHeader false mode mt fe).length + 1 = ((dispositionHeader false mode mt fe).length - 1) + 2 := by
      have : 1 ≤ (dispositionHeader false mode mt fe).length := by simp [dispositionHeader, quotedParam]; omega
      omega
    unfold partFieldsOf parseMediaType
    simp only [hbase]
    have hmt : trimSp (hAttachment.map toLowerA) = hAttachment := by decide
    have hck : checkMediaType hAttachment = true := by decide
    rw [hmt, hck, hdrop, hfuel]
    rw [parseParams_step _ keyOK_filename _ _ hF [] (by simp)]
    rw [parseParams_end]
    have k0 : hAttachment ≠ hFormData := by decide
    simp [lookup, k0]

/-- what the writer puts between the quotes needs no escaping -/
theorem qsafe_escape (s : Str) : QSafe (escape s) := by
  intro c hc
  have := escape_out s c hc
  refine ⟨?_, ?_, ?_, ?_⟩ <;> (intro e; subst e; revert this; decide)

theorem qsafe_of_safe {s : Str} (h : Safe s) : QSafe s := by
  intro c hc
  have := h c hc
  refine ⟨?_, ?_, ?_, ?_⟩ <;> (intro e; subst e; revert this; decide)

theorem qsafe_append {a b : Str} (ha : QSafe a) (hb : QSafe b) : QSafe (a ++ b) := by
  intro c hc
  rcases List.mem_append.1 hc with h | h
  · exact ha c h
  · exact hb c h

theorem qsafe_encodeParams (ps : List (Str × Str)) : QSafe (encodeParams ps) := by
  induction ps with
  | nil => intro c hc; simp [encodeParams] at hc
  | cons kv t ih =>
    obtain ⟨k, v⟩ := kv
    have hkv : QSafe (escape k ++ '=' :: escape v) :=
      qsafe_append (qsafe_escape k) (by
        intro c hc
        rcases List.mem_cons.1 hc with e | e
        · subst e; decide
        · exact qsafe_escape v c e)
    cases t with
    | nil => simpa [encodeParams] using hkv
    | cons p t' =>
      have : encodeParams ((k, v) :: p :: t') = (escape k ++ '=' :: escape v) ++ '&' :: encodeParams (p :: t') := by
        simp [encodeParams]
      rw [this]
      exact qsafe_append hkv (by
        intro c hc
        rcases List.mem_cons.1 hc with e | e
        · subst e; decide
        · exact ih c e)

theorem qsafe_formNameOf (mode : Nat) (mt : Option (Int × Nat)) : QSafe (formNameOf mode mt) := by
  unfold formNameOf
  apply qsafe_append
  · intro c hc; revert c; decide
  · split
    · intro c hc; simp at hc
    · intro c hc
      rcases List.mem_cons.1 hc with e | e
      · subst e; decide
      · exact qsafe_encodeParams _ c e

end C39
