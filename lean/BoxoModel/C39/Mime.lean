import BoxoModel.C39.Model
/-
C39 — the textual header layer: the `Content-Disposition` value written by
MultiFileReader.addContentDisposition and the fragment of Go's `mime.ParseMediaType`
(consumeToken / consumeValue / consumeMediaParam / the parameter loop, Go 1.25) that reads it back.
Fragment restrictions (the parser returns `none` = "outside the modelled fragment" instead of guessing):
parameter names containing `*` (RFC 2231 continuations) and duplicate parameter names.
White space is `unicode.IsSpace` on ASCII (space, \t \n \v \f \r).  Core-only (imported by the driver).
-/
namespace C39
open PathClean

def isTSpecial (c : Char) : Bool := "()<>@,;:\\\"/[]?=".toList.contains c
def isTokenChar (c : Char) : Bool := decide (c.toNat > 0x20) && decide (c.toNat < 0x7f) && !isTSpecial c
def isSpaceA (c : Char) : Bool := decide (c.toNat = 32) || (decide (9 ≤ c.toNat) && decide (c.toNat ≤ 13))
def toLowerA (c : Char) : Char := if 'A' ≤ c ∧ c ≤ 'Z' then Char.ofNat (c.toNat + 32) else c
def trimLeftSp (s : Str) : Str := s.dropWhile isSpaceA
def trimSp (s : Str) : Str := ((s.dropWhile isSpaceA).reverse.dropWhile isSpaceA).reverse

def consumeToken (s : Str) : Str × Str := (s.takeWhile isTokenChar, s.dropWhile isTokenChar)

/-- the body of a quoted-string, after the opening quote: value and rest, `none` = no closing quote or CR/LF -/
def consumeQuoted : Str → Option (Str × Str)
  | [] => none
  | c :: r =>
    if c = '"' then some ([], r)
    else if c = '\\' then
      match r with
      | d :: r' =>
        if isTSpecial d then (consumeQuoted r').map (fun p => (d :: p.1, p.2))
        else (consumeQuoted (d :: r')).map (fun p => (c :: p.1, p.2))
      | [] => none
    else if c = '\r' ∨ c = '\n' then none
    else (consumeQuoted r).map (fun p => (c :: p.1, p.2))
termination_by s => s.length
decreasing_by all_goals (simp_wf; try omega)

def consumeValue (s : Str) : Str × Str :=
  match s with
  | [] => ([], [])
  | '"' :: r =>
    match consumeQuoted r with
    | some p => p
    | none => ([], s)
  | _ => consumeToken s

/-- consumeMediaParam; `none` = the ("", "", v) failure answer -/
def consumeMediaParam (v : Str) : Option (Str × Str × Str) :=
  match trimLeftSp v with
  | ';' :: r0 =>
    let tk := consumeToken (trimLeftSp r0)
    let param := tk.1.map toLowerA
    if param = [] then none
    else
      match trimLeftSp tk.2 with
      | '=' :: r1 =>
        let rest := trimLeftSp r1
        let vr := consumeValue rest
        if vr.1 = [] ∧ vr.2 = rest then none else some (param, vr.1, vr.2)
      | _ => none
  | _ => none

/-- the parameter loop; outer `none` = error or outside the fragment -/
def parseParams : Nat → Str → List (Str × Str) → Option (List (Str × Str))
  | 0, _, _ => none
  | fuel + 1, v, acc =>
    let v := trimLeftSp v
    if v = [] then some acc.reverse
    else
      match consumeMediaParam v with
      | none => if trimSp v = [';'] then some acc.reverse else none
      | some (key, value, rest) =>
        if key.contains '*' then none
        else if acc.any (·.1 = key) then none
        else parseParams fuel rest ((key, value) :: acc)

/-- checkMediaTypeDisposition -/
def checkMediaType (s : Str) : Bool :=
  let t := consumeToken s
  if t.1 = [] then false
  else if t.2 = [] then true
  else match t.2 with
    | '/' :: r =>
      let u := consumeToken r
      u.1 ≠ [] && u.2 = []
    | _ => false

/-- mime.ParseMediaType on the modelled fragment -/
def parseMediaType (v : Str) : Option (Str × List (Str × Str)) :=
  let base := v.takeWhile (· ≠ ';')
  let mt := trimSp (base.map toLowerA)
  if !checkMediaType mt then none
  else (parseParams (v.length + 1) (v.drop base.length) []).map (fun ps => (mt, ps))

def hFormData : Str := "form-data".toList
def hAttachment : Str := "attachment".toList
def hName : Str := "name".toList
def hFilename : Str := "filename".toList

/-- one `; key="value"` parameter as the writer prints it -/
def quotedParam (key value : Str) : Str := ';' :: ' ' :: (key ++ '=' :: '"' :: (value ++ ['"']))

/-- the header value written by addContentDisposition:
`form-data; name="file[?…]"; filename="<escaped>"` or `attachment; filename="<escaped>"` -/
def dispositionHeader (form : Bool) (mode : Nat) (mtime : Option (Int × Nat)) (filenameEsc : Str) : Str :=
  (if form then hFormData ++ quotedParam hName (formNameOf mode mtime) else hAttachment) ++
    quotedParam hFilename filenameEsc

/-- what `part.FormName()` and `params["filename"]` give for a header value -/
def partFieldsOf (hdr : Str) : Option (Bool × Str × Str) :=
  match parseMediaType hdr with
  | none => none
  | some (disp, ps) =>
    let form := disp = hFormData
    some (form, if form then (lookup ps hName).getD [] else [], (lookup ps hFilename).getD [])

end C39
