import BoxoModel.C39.Model
import BoxoModel.Lib.PathCleanLemmas
/-! Helper lemmas for C39. -/
namespace C39
open PathClean

/-! ### QueryEscape / QueryUnescape -/

/-- a byte string: every element is a byte (`Char.ofNat b`, b < 256) -/
def IsBytes (s : Str) : Prop := ∀ c ∈ s, c.toNat < 256

theorem unhex_hexUpper : ∀ n, n < 16 → unhexDigit (hexUpper n) = some n := by decide

theorem unreserved_ne_pct {c : Char} (h : isUnreserved c = true) : c ≠ '%' ∧ c ≠ '+' := by
  constructor <;> (intro e; subst e; revert h; decide)

theorem unescape_plain {c : Char} (h1 : c ≠ '%') (h2 : c ≠ '+') (r : Str) :
    unescape (c :: r) = (unescape r).map (c :: ·) := by
  conv => lhs; unfold unescape
  simp [h1, h2]

theorem unescape_plus (r : Str) : unescape ('+' :: r) = (unescape r).map (' ' :: ·) := by
  conv => lhs; unfold unescape
  simp

theorem unescape_pct (a b : Char) (x y : Nat) (ha : unhexDigit a = some x) (hb : unhexDigit b = some y) (r : Str) :
    unescape ('%' :: a :: b :: r) = (unescape r).map (Char.ofNat (x * 16 + y) :: ·) := by
  conv => lhs; unfold unescape
  simp [ha, hb]

theorem unescape_escapeChar (c : Char) (hc : c.toNat < 256) (r : Str) :
    unescape (escapeChar c ++ r) = (unescape r).map (c :: ·) := by
  unfold escapeChar
  split
  · rename_i hu
    have ⟨h1, h2⟩ := unreserved_ne_pct hu
    simp [unescape_plain h1 h2]
  · split
    · rename_i hs
      have : c = ' ' := by simpa using hs
      subst this
      simp [unescape_plus]
    · have h1 := unhex_hexUpper (c.toNat / 16 % 16) (Nat.mod_lt _ (by decide))
      have h2 := unhex_hexUpper (c.toNat % 16) (Nat.mod_lt _ (by decide))
      have hv : c.toNat / 16 % 16 * 16 + c.toNat % 16 = c.toNat := by omega
      simp [unescape_pct _ _ _ _ h1 h2, hv]

theorem unescape_escape (s : Str) (hs : IsBytes s) : unescape (escape s) = some s := by
  induction s with
  | nil => simp [escape, unescape]
  | cons c t ih =>
    have hc := hs c (by simp)
    have ht : IsBytes t := fun x hx => hs x (by simp [hx])
    have : escape (c :: t) = escapeChar c ++ escape t := by simp [escape]
    rw [this, unescape_escapeChar c hc, ih ht]
    rfl

/-- characters `QueryEscape` can produce -/
def isEscOut (c : Char) : Bool := isUnreserved c || c == '+' || c == '%'

theorem hexUpper_unreserved : ∀ n, n < 16 → isUnreserved (hexUpper n) = true := by decide

theorem escape_out (s : Str) : ∀ c ∈ escape s, isEscOut c = true := by
  intro c hc
  simp only [escape, List.mem_flatMap] at hc
  obtain ⟨x, _, hx⟩ := hc
  unfold escapeChar at hx
  split at hx
  · rename_i hu; simp at hx; subst hx; simp [isEscOut, hu]
  · split at hx
    · simp at hx; subst hx; decide
    · simp at hx
      rcases hx with e | e | e
      · subst e; decide
      · subst e; simp [isEscOut, hexUpper_unreserved _ (Nat.mod_lt _ (by decide : 16 > 0))]
      · subst e; simp [isEscOut, hexUpper_unreserved _ (Nat.mod_lt _ (by decide : 16 > 0))]

theorem escape_unreserved {s : Str} (h : ∀ c ∈ s, isUnreserved c = true) : escape s = s := by
  induction s with
  | nil => rfl
  | cons c t ih =>
    have : escape (c :: t) = escapeChar c ++ escape t := by simp [escape]
    rw [this, ih (fun x hx => h x (by simp [hx]))]
    simp [escapeChar, h c (by simp)]

/-! ### strconv -/

theorem digitVal_digitChar : ∀ d, d < 10 → digitVal (digitChar d) = some d := by decide
theorem digitChar_unreserved : ∀ d, d < 10 → isUnreserved (digitChar d) = true := by decide
theorem digitChar_ne_sign : ∀ d, d < 10 → digitChar d ≠ '-' ∧ digitChar d ≠ '+' := by decide

theorem digitsRev_lt {b : Nat} (hb : 2 ≤ b) (fuel n : Nat) : ∀ d ∈ digitsRev b fuel n, d < b := by
  induction fuel generalizing n with
  | zero => simp [digitsRev]
  | succ f ih =>
    intro d hd
    unfold digitsRev at hd
    split at hd
    · simp at hd; omega
    · rcases List.mem_cons.1 hd with e | e
      · subst e; exact Nat.mod_lt _ (by omega)
      · exact ih _ d e

theorem digitsRev_ne_nil {b : Nat} (fuel n : Nat) (hf : 0 < fuel) : digitsRev b fuel n ≠ [] := by
  cases fuel with
  | zero => omega
  | succ f => unfold digitsRev; split <;> simp

/-- value of least-significant-first digits -/
def valRev (b : Nat) : List Nat → Nat
  | [] => 0
  | d :: r => d + b * valRev b r

theorem valRev_digitsRev {b : Nat} (hb : 2 ≤ b) (fuel n : Nat) (hf : n < fuel) :
    valRev b (digitsRev b fuel n) = n := by
  induction fuel generalizing n with
  | zero => omega
  | succ f ih =>
    unfold digitsRev
    split
    · simp [valRev]
    · rename_i hn
      have hlt : n / b < f := by
        have : n / b < n := Nat.div_lt_self (by omega) (by omega)
        omega
      simp only [valRev, ih _ hlt]
      have := Nat.div_add_mod n b
      omega

/-- the digit loop over most-significant-first digits -/
theorem parse_fold {b : Nat} (hb : b ≤ 10) (ds : List Nat) (hd : ∀ d ∈ ds, d < b) (acc : Nat) :
    (ds.map digitChar).foldl (parseStep b) (some acc) = some (ds.foldl (fun a d => a * b + d) acc) := by
  induction ds generalizing acc with
  | nil => rfl
  | cons d t ih =>
    have hdb := hd d (by simp)
    simp only [List.map_cons, List.foldl_cons, parseStep, digitVal_digitChar d (by omega), hdb, if_true]
    exact ih (fun x hx => hd x (by simp [hx])) _

theorem foldl_reverse_valRev (b : Nat) (l : List Nat) :
    (l.reverse).foldl (fun a d => a * b + d) 0 = valRev b l := by
  induction l with
  | nil => rfl
  | cons d t ih =>
    simp only [List.reverse_cons, List.foldl_append, List.foldl_cons, List.foldl_nil, ih, valRev]
    rw [Nat.mul_comm]; omega

theorem parseNat_fmtNat {b : Nat} (hb2 : 2 ≤ b) (hb : b ≤ 10) (n : Nat) :
    parseNat b (fmtNat b n) = some n := by
  unfold parseNat fmtNat
  have hne : (digitsRev b (n + 1) n).reverse.map digitChar ≠ [] := by
    simp; exact digitsRev_ne_nil _ _ (by omega)
  rw [if_neg hne]
  rw [parse_fold hb _ (fun d hd => digitsRev_lt hb2 _ _ d (by simpa using hd))]
  rw [foldl_reverse_valRev, valRev_digitsRev hb2 _ _ (by omega)]

theorem fmtNat_ne_nil (b n : Nat) : fmtNat b n ≠ [] := by
  unfold fmtNat; simp; exact digitsRev_ne_nil _ _ (by omega)

theorem fmtNat_digits {b : Nat} (hb2 : 2 ≤ b) (hb : b ≤ 10) (n : Nat) :
    ∀ c ∈ fmtNat b n, ∃ d, d < 10 ∧ c = digitChar d := by
  intro c hc
  unfold fmtNat at hc
  simp at hc
  obtain ⟨d, hd, e⟩ := hc
  exact ⟨d, by have := digitsRev_lt hb2 _ _ d hd; omega, e.symm⟩

/-- a leading "0" does not change the value -/
theorem parseNat_zero_cons {b : Nat} (hb : 0 < b) (s : Str) (hs : s ≠ []) :
    parseNat b ('0' :: s) = parseNat b s := by
  unfold parseNat
  rw [if_neg (by simp), if_neg hs]
  simp only [List.foldl_cons]
  have : digitVal '0' = some 0 := by decide
  simp [parseStep, this, hb]

theorem parseOct32_mode (m : Nat) (hm : m < 2 ^ 32) : parseOct32 ('0' :: fmtNat 8 m) = some m := by
  unfold parseOct32
  rw [parseNat_zero_cons (by decide) _ (fmtNat_ne_nil 8 m), parseNat_fmtNat (by decide) (by decide)]
  simp [hm]

theorem parseDec64_fmtDec (i : Int) (hlo : -(2 ^ 63 : Int) ≤ i) (hhi : i < (2 ^ 63 : Int)) :
    parseDec64 (fmtDec i) = some i := by
  unfold fmtDec
  split
  · rename_i hneg
    have hp := parseNat_fmtNat (b := 10) (by decide) (by decide) i.natAbs
    have hle : i.natAbs ≤ 2 ^ 63 := by omega
    simp only [parseDec64, hp, hle, if_true]
    congr 1; omega
  · rename_i hneg
    have hp := parseNat_fmtNat (b := 10) (by decide) (by decide) i.natAbs
    have hlt : i.natAbs < 2 ^ 63 := by omega
    have hne := fmtNat_ne_nil 10 i.natAbs
    cases hf : fmtNat 10 i.natAbs with
    | nil => exact absurd hf hne
    | cons c t =>
      obtain ⟨d, hd, e⟩ := fmtNat_digits (b := 10) (by decide) (by decide) i.natAbs c (by rw [hf]; simp)
      have ⟨h1, h2⟩ := digitChar_ne_sign d hd
      rw [← e] at h1 h2
      rw [hf] at hp
      unfold parseDec64
      split
      · rename_i r heq; simp at heq; exact absurd heq.1 h1
      · rename_i r heq; simp at heq; exact absurd heq.1 h2
      · simp only [hp, hlt, if_true]
        congr 1; omega

/-- where ParseInt succeeds, the value it returns is the parsed number -/
theorem parseDecVal_of_parse {s : Str} {i : Int} (h : parseDec64 s = some i) : parseDecVal s = i := by
  unfold parseDec64 at h
  unfold parseDecVal
  split at h
  · rename_i r
    cases hp : parseNat 10 r with
    | none => simp [hp] at h
    | some n =>
      simp only [hp] at h ⊢
      split at h
      · rename_i hle
        simp at h
        have : ¬ n > 2 ^ 63 := by omega
        simp [this, h]
      · simp at h
  · rename_i r
    cases hp : parseNat 10 r with
    | none => simp [hp] at h
    | some n =>
      simp only [hp] at h ⊢
      split at h
      · rename_i hlt
        simp at h
        have : ¬ n ≥ 2 ^ 63 := by omega
        simp [this, h]
      · simp at h
  · cases hp : parseNat 10 s with
    | none => simp [hp] at h
    | some n =>
      simp only [hp] at h ⊢
      split at h
      · rename_i hlt
        simp at h
        have hge : ¬ n ≥ 2 ^ 63 := by omega
        simp [hge, h]
      · simp at h

theorem fmtNat_unreserved {b : Nat} (hb2 : 2 ≤ b) (hb : b ≤ 10) (n : Nat) :
    ∀ c ∈ fmtNat b n, isUnreserved c = true := by
  intro c hc
  obtain ⟨d, hd, e⟩ := fmtNat_digits hb2 hb n c hc
  subst e; exact digitChar_unreserved d hd

theorem fmtDec_unreserved (i : Int) : ∀ c ∈ fmtDec i, isUnreserved c = true := by
  intro c hc
  unfold fmtDec at hc
  split at hc
  · rcases List.mem_cons.1 hc with e | e
    · subst e; decide
    · exact fmtNat_unreserved (by decide) (by decide) _ c e
  · exact fmtNat_unreserved (by decide) (by decide) _ c hc


/-! ### query strings -/

theorem cutChar_append {d : Char} {a : Str} (b : Str) (h : d ∉ a) : cutChar d (a ++ d :: b) = some (a, b) := by
  induction a with
  | nil => simp [cutChar]
  | cons c t ih =>
    have hc : c ≠ d := by intro e; apply h; simp [e]
    have ht : d ∉ t := by intro e; apply h; simp [e]
    simp [cutChar, hc, ih ht]

theorem cutChar_none {d : Char} {a : Str} (h : d ∉ a) : cutChar d a = none := by
  induction a with
  | nil => rfl
  | cons c t ih =>
    have hc : c ≠ d := by intro e; apply h; simp [e]
    have ht : d ∉ t := by intro e; apply h; simp [e]
    simp [cutChar, hc, ih ht]

/-- strings made of unreserved characters only (digits, letters, `-`, `_`, `.`, `~`) -/
def Safe (s : Str) : Prop := ∀ c ∈ s, isUnreserved c = true

theorem safe_not_mem {s : Str} (h : Safe s) {d : Char} (hd : isUnreserved d = false) : d ∉ s := by
  intro e; have := h d e; rw [hd] at this; exact absurd this (by simp)

theorem unescape_safe {s : Str} (h : Safe s) : unescape s = some s := by
  induction s with
  | nil => simp [unescape]
  | cons c t ih =>
    have ⟨h1, h2⟩ := unreserved_ne_pct (h c (by simp))
    rw [unescape_plain h1 h2, ih (fun x hx => h x (by simp [hx]))]
    rfl

/-- the pairs written by the writer: safe keys and values, non-empty keys -/
def SafePairs (ps : List (Str × Str)) : Prop := ∀ kv ∈ ps, Safe kv.1 ∧ Safe kv.2 ∧ kv.1 ≠ []

theorem pair_no {k v : Str} (hk : Safe k) (hv : Safe v) {d : Char} (hd : isUnreserved d = false) (hne : d ≠ '=') :
    d ∉ k ++ '=' :: v := by
  intro e
  simp at e
  rcases e with e | e | e
  · exact safe_not_mem hk hd e
  · exact hne e
  · exact safe_not_mem hv hd e

theorem cutOr_append {d : Char} {a : Str} (b : Str) (h : d ∉ a) : cutOr d (a ++ d :: b) = (a, b) := by
  simp [cutOr, cutChar_append b h]

theorem cutOr_none {d : Char} {a : Str} (h : d ∉ a) : cutOr d a = (a, []) := by
  simp [cutOr, cutChar_none h]

/-- one `key=value` pair at the front of the query, `rest` after the `&` (or nothing) -/
theorem parseQuery_pair (fuel : Nat) {k v : Str} (hk : Safe k) (hv : Safe v) (rest q : Str)
    (hq : cutOr '&' q = (k ++ '=' :: v, rest)) :
    parseQuery (fuel + 1) q = (parseQuery fuel rest).map ((k, v) :: ·) := by
  have hqne : q ≠ [] := by
    intro e; subst e
    simp [cutOr, cutChar] at hq
  have hsemi : (k ++ '=' :: v).contains ';' = false := by
    have := pair_no hk hv (d := ';') (by decide) (by decide)
    simpa using this
  have hkne : k ++ '=' :: v ≠ [] := by simp
  have hcut : cutOr '=' (k ++ '=' :: v) = (k, v) := cutOr_append v (safe_not_mem hk (by decide))
  rw [parseQuery]
  simp only [hq, if_neg hqne, hsemi, hkne, hcut, unescape_safe hk, unescape_safe hv]
  simp

theorem parseQuery_nil (fuel : Nat) : parseQuery fuel [] = some [] := by
  cases fuel <;> simp [parseQuery]

theorem escape_safe {s : Str} (h : Safe s) : escape s = s := escape_unreserved h

theorem parseQuery_encode (ps : List (Str × Str)) (h : SafePairs ps) (fuel : Nat) (hf : ps.length < fuel) :
    parseQuery fuel (encodeParams ps) = some ps := by
  induction ps generalizing fuel with
  | nil => simp [encodeParams, parseQuery_nil]
  | cons kv t ih =>
    obtain ⟨k, v⟩ := kv
    have ⟨hk, hv, _⟩ := h (k, v) (by simp)
    have hk : Safe k := hk
    have hv : Safe v := hv
    have ht : SafePairs t := fun x hx => h x (by simp [hx])
    cases fuel with
    | zero => omega
    | succ f =>
      cases t with
      | nil =>
        simp only [encodeParams, escape_safe hk, escape_safe hv]
        rw [parseQuery_pair f hk hv [] _ (cutOr_none (pair_no hk hv (by decide) (by decide)))]
        simp [parseQuery_nil]
      | cons p t' =>
        obtain ⟨k2, v2⟩ := p
        simp only [encodeParams, escape_safe hk, escape_safe hv]
        have hcut : cutOr '&' ((k ++ '=' :: v) ++ '&' :: encodeParams ((k2, v2) :: t'))
            = (k ++ '=' :: v, encodeParams ((k2, v2) :: t')) :=
          cutOr_append _ (pair_no hk hv (by decide) (by decide))
        have e : k ++ '=' :: v ++ '&' :: encodeParams ((k2, v2) :: t') =
            (k ++ '=' :: v) ++ '&' :: encodeParams ((k2, v2) :: t') := by simp
        rw [e, parseQuery_pair f hk hv _ _ hcut]
        rw [ih ht f (by simp at hf ⊢; omega)]
        rfl

theorem encodeParams_length (ps : List (Str × Str)) : ps.length ≤ (encodeParams ps).length := by
  induction ps with
  | nil => simp
  | cons kv t ih =>
    obtain ⟨k, v⟩ := kv
    cases t with
    | nil => simp [encodeParams]; omega
    | cons p t' =>
      simp only [encodeParams, List.length_append, List.length_cons] at ih ⊢
      omega

/-! ### fileInfo of a written part -/

/-- modes and times the header format can carry: a 32-bit mode; a non-zero time with normalized nanoseconds
and int64 seconds -/
def ValidMeta (mode : Nat) (mtime : Option (Int × Nat)) : Prop :=
  mode < 2 ^ 32 ∧
  match mtime with
  | none => True
  | some (s, n) => n < 1000000000 ∧ -(2 ^ 63 : Int) ≤ s ∧ s < (2 ^ 63 : Int) ∧ ¬ (s = zeroSecs ∧ n = 0)

theorem mkTime_valid {s : Int} {n : Nat} (hn : n < 1000000000) (hz : ¬ (s = zeroSecs ∧ n = 0)) :
    mkTime s n = some (s, n) := by
  unfold mkTime
  have h1 : (n : Int) / 1000000000 = 0 := by omega
  have h2 : ((n : Int) % 1000000000).toNat = n := by omega
  simp only [h1, h2, Int.add_zero]
  rw [if_neg hz]

theorem safe_mode_val (mode : Nat) : Safe ('0' :: fmtNat 8 mode) := by
  intro c hc
  rcases List.mem_cons.1 hc with e | e
  · subst e; decide
  · exact fmtNat_unreserved (by decide) (by decide) _ c e

theorem safe_kMode : Safe kMode := by unfold Safe; decide
theorem safe_kMtime : Safe kMtime := by unfold Safe; decide
theorem safe_kNsecs : Safe kNsecs := by unfold Safe; decide

theorem safePairs_params (mode : Nat) (mt : Option (Int × Nat)) : SafePairs (params mode mt) := by
  intro kv hkv
  unfold params at hkv
  simp only [List.mem_append] at hkv
  rcases hkv with h | h
  · split at h
    · simp at h; subst h
      exact ⟨safe_kMode, safe_mode_val mode, by show kMode ≠ []; decide⟩
    · simp at h
  · cases mt with
    | none => simp at h
    | some sn =>
      obtain ⟨s, n⟩ := sn
      simp only [List.mem_cons] at h
      rcases h with h | h
      · subst h
        exact ⟨safe_kMtime, fmtDec_unreserved s, by show kMtime ≠ []; decide⟩
      · split at h
        · simp at h; subst h
          exact ⟨safe_kNsecs, fmtDec_unreserved (n : Int), by show kNsecs ≠ []; decide⟩
        · simp at h

theorem k12 : kMode ≠ kMtime := by decide
theorem k13 : kMode ≠ kNsecs := by decide
theorem k23 : kMtime ≠ kNsecs := by decide
theorem k21 : kMtime ≠ kMode := by decide
theorem k31 : kNsecs ≠ kMode := by decide
theorem k32 : kNsecs ≠ kMtime := by decide

/-- the reader's interpretation of the writer's parameters gives the mode and the time back -/
theorem metaFromQuery_params (mode : Nat) (mt : Option (Int × Nat)) (hv : ValidMeta mode mt) :
    metaFromQuery true (params mode mt) = ⟨mode, mt⟩ := by
  obtain ⟨hm, hmt⟩ := hv
  have hpo := parseOct32_mode mode hm
  cases mt with
  | none =>
    by_cases h0 : mode = 0
    · subst h0; simp [metaFromQuery, params, lookup]
    · simp [metaFromQuery, params, h0, lookup, k12, k13, hpo]
  | some sn =>
    obtain ⟨s, n⟩ := sn
    obtain ⟨hn, hlo, hhi, hz⟩ := hmt
    have hs := parseDec64_fmtDec s hlo hhi
    have hnn := parseDecVal_of_parse (parseDec64_fmtDec (n : Int) (by omega) (by omega))
    have hmk := mkTime_valid hn hz
    by_cases h0 : mode = 0 <;> by_cases hn0 : n > 0
    · subst h0
      simp [metaFromQuery, params, hn0, lookup, k21, k23, k31, k32, hs, hnn, hmk]
    · have : n = 0 := by omega
      subst this
      subst h0
      simp [metaFromQuery, params, lookup, k21, k23, hs]
      simpa using hmk
    · simp [metaFromQuery, params, h0, hn0, lookup, k12, k13, k21, k23, k31, k32, hs, hnn, hpo, hmk]
    · have : n = 0 := by omega
      subst this
      simp [metaFromQuery, params, h0, lookup, k12, k13, k21, k23, hs, hpo]
      simpa using hmk

theorem params_nil {mode : Nat} {mt : Option (Int × Nat)} (h : params mode mt = []) : mode = 0 ∧ mt = none := by
  unfold params at h
  cases mt with
  | none =>
    by_cases h0 : mode = 0
    · exact ⟨h0, rfl⟩
    · simp [h0] at h
  | some sn => obtain ⟨s, n⟩ := sn; simp at h

theorem fileInfo_written (mode : Nat) (mt : Option (Int × Nat)) (hv : ValidMeta mode mt)
    (stack : List Str) (name : Str) (ct : CType) (body : Str) (a : Str) :
    fileInfo true (mkPart true stack name mode mt ct body a) = some ⟨mode, mt⟩ := by
  unfold fileInfo mkPart formNameOf
  simp only [Bool.not_true, Bool.false_eq_true, if_false, if_true]
  have hfile : '?' ∉ "file".toList := by decide
  by_cases hps : params mode mt = []
  · rw [if_pos hps, List.append_nil, cutChar_none hfile]
    have := params_nil hps
    rw [this.1, this.2]
  · rw [if_neg hps, cutChar_append _ hfile]
    simp only
    rw [parseQuery_encode _ (safePairs_params mode mt) _ (by have := encodeParams_length (params mode mt); omega)]
    simp only [Option.map_some]
    rw [metaFromQuery_params mode mt hv]

theorem fileInfo_mixed (fixed : Bool) (mode : Nat) (mt : Option (Int × Nat))
    (stack : List Str) (name : Str) (ct : CType) (body : Str) (a : Str) :
    fileInfo fixed (mkPart false stack name mode mt ct body a) = some ⟨0, none⟩ := by
  simp [fileInfo, mkPart]

theorem escape_ne_nil {s : Str} (h : s ≠ []) : escape s ≠ [] := by
  cases s with
  | nil => exact absurd rfl h
  | cons c t =>
    have : escape (c :: t) = escapeChar c ++ escape t := by simp [escape]
    rw [this]
    unfold escapeChar
    split
    · simp
    · split <;> simp

/-- the reader recovers the `AbsPath()` the writer sent -/
theorem absPathOf_mkPart (form : Bool) (stack : List Str) (name : Str) (mode : Nat) (mt : Option (Int × Nat))
    (ct : CType) (body a : Str) (ha : IsBytes a) :
    absPathOf (mkPart form stack name mode mt ct body a) = a := by
  unfold absPathOf mkPart
  simp only
  by_cases h : a = []
  · subst h; simp [escape]
  · rw [if_pos (escape_ne_nil h), unescape_escape a ha]; rfl

end C39
