import BoxoModel.Lib.PathClean
/-
C39 — files/multifilereader.go (writer) and files/multipartfile.go (reader): executable model.

Writer, transcribed from MultiFileReader.Read / addContentDisposition:
  depth-first over the directory iterators with the stack `mfr.path` (initially [""]); for every entry one
  part with  filename = url.QueryEscape(path.Join(path.Join(mfr.path...), entry.Name()));
  form mode: disposition form-data with name = "file" [ "?" + url.Values{mode, mtime, mtime-nsecs}.Encode() ],
  mode written as "0"+octal when Mode() != 0, mtime (Unix seconds) when !ModTime().IsZero(), mtime-nsecs when > 0;
  mixed mode: disposition attachment (no name);  Content-Type by node type; body = file bytes / link target.
Reader, transcribed from multipartWalker.nextFile, fileName, fileInfo, isChild, makeRelative,
multipartIterator.Next (the peeked part is the head of the remaining part list; consumePart drops it):
  `next` is one call of Next, `walk` is the depth-first consumer (it descends into every directory it is handed
  before asking the parent iterator for the next entry, like any tree walk over the lazy multipart stream).
`fixed = false` is fileInfo before the fix: commit (mtime = time.Unix(secs, nsecs) set whenever a query is present).
MIME framing (mime/multipart, mime.ParseMediaType) is a parameter: a `Part` is what the reader gets from
`part.FormName()`, the `filename` parameter, the media type and the body.
Byte strings are `PathClean.Str` (byte b ↦ Char.ofNat b).  Core-only: imported by the driver.
-/
namespace C39
open PathClean

/-! ### url.QueryEscape / url.QueryUnescape -/

def isUnreserved (c : Char) : Bool :=
  ('a' ≤ c && c ≤ 'z') || ('A' ≤ c && c ≤ 'Z') || ('0' ≤ c && c ≤ '9') ||
    c == '-' || c == '_' || c == '.' || c == '~'

/-- "0123456789ABCDEF"[n] -/
def hexUpper (n : Nat) : Char := if n < 10 then Char.ofNat (48 + n) else Char.ofNat (55 + n)

def escapeChar (c : Char) : Str :=
  if isUnreserved c then [c]
  else if c == ' ' then ['+']
  else ['%', hexUpper (c.toNat / 16 % 16), hexUpper (c.toNat % 16)]

/-- url.QueryEscape -/
def escape (s : Str) : Str := s.flatMap escapeChar

/-- ishex / unhex -/
def unhexDigit (c : Char) : Option Nat :=
  if '0' ≤ c ∧ c ≤ '9' then some (c.toNat - 48)
  else if 'a' ≤ c ∧ c ≤ 'f' then some (c.toNat - 97 + 10)
  else if 'A' ≤ c ∧ c ≤ 'F' then some (c.toNat - 65 + 10)
  else none

/-- url.QueryUnescape; `none` = EscapeError -/
def unescape : Str → Option Str
  | [] => some []
  | c :: r =>
    if c = '%' then
      match r with
      | a :: b :: r' =>
        match unhexDigit a, unhexDigit b with
        | some x, some y => (unescape r').map (Char.ofNat (x * 16 + y) :: ·)
        | _, _ => none
      | _ => none
    else if c = '+' then (unescape r).map (' ' :: ·)
    else (unescape r).map (c :: ·)

/-! ### strconv -/

def digitChar (d : Nat) : Char := Char.ofNat (48 + d)

/-- digits of `n` in base `b`, least significant first (`fuel > n` always suffices) -/
def digitsRev (b : Nat) : Nat → Nat → List Nat
  | 0, _ => []
  | fuel + 1, n => if n < b then [n] else (n % b) :: digitsRev b fuel (n / b)

/-- strconv.FormatUint(n, b) for b ≤ 10 -/
def fmtNat (b n : Nat) : Str := ((digitsRev b (n + 1) n).reverse).map digitChar

/-- strconv.FormatInt(i, 10) -/
def fmtDec (i : Int) : Str := if i < 0 then '-' :: fmtNat 10 i.natAbs else fmtNat 10 i.natAbs

def digitVal (c : Char) : Option Nat := if '0' ≤ c ∧ c ≤ '9' then some (c.toNat - 48) else none

/-- the digit loop of strconv.ParseUint for an explicit base ≤ 10: no sign, no underscore, not empty -/
def parseStep (b : Nat) (acc : Option Nat) (c : Char) : Option Nat :=
  match acc, digitVal c with
  | some a, some d => if d < b then some (a * b + d) else none
  | _, _ => none

def parseNat (b : Nat) (s : Str) : Option Nat :=
  if s = [] then none else s.foldl (parseStep b) (some 0)

/-- strconv.ParseUint(s, 8, 32) -/
def parseOct32 (s : Str) : Option Nat :=
  match parseNat 8 s with
  | some n => if n < 2 ^ 32 then some n else none
  | none => none

/-- strconv.ParseInt(s, 10, 64) -/
def parseDec64 (s : Str) : Option Int :=
  match s with
  | '-' :: r => match parseNat 10 r with
    | some n => if n ≤ 2 ^ 63 then some (-(n : Int)) else none
    | none => none
  | '+' :: r => match parseNat 10 r with
    | some n => if n < 2 ^ 63 then some (n : Int) else none
    | none => none
  | _ => match parseNat 10 s with
    | some n => if n < 2 ^ 63 then some (n : Int) else none
    | none => none

/-- the VALUE strconv.ParseInt(s, 10, 64) returns (used where the error is ignored): 0 on a syntax error,
the clamped bound on a range error -/
def parseDecVal (s : Str) : Int :=
  match s with
  | '-' :: r => match parseNat 10 r with
    | some n => if n > 2 ^ 63 then -(2 ^ 63 : Int) else -(n : Int)
    | none => 0
  | '+' :: r => match parseNat 10 r with
    | some n => if n ≥ 2 ^ 63 then (2 ^ 63 : Int) - 1 else (n : Int)
    | none => 0
  | _ => match parseNat 10 s with
    | some n => if n ≥ 2 ^ 63 then (2 ^ 63 : Int) - 1 else (n : Int)
    | none => 0

/-! ### trees -/

/-- `Mode()` (0 = unset) and `ModTime()` (`none` = the zero time, else Unix seconds and nanoseconds) -/
structure Meta where
  mode : Nat
  mtime : Option (Int × Nat)
deriving DecidableEq, Repr

mutual
inductive Node where
  /-- a regular file: stat, `AbsPath()` ("" when unknown) and content -/
  | file (m : Meta) (abspath : Str) (content : Str)
  /-- `files.Symlink`: its mode is the constant ModeSymlink|ModePerm, only the time is stored -/
  | link (mtime : Option (Int × Nat)) (target : Str)
  | dir (m : Meta) (kids : Kids)
inductive Kids where
  | nil
  | cons (name : Str) (n : Node) (rest : Kids)
end

inductive CType where
  | dir      -- application/x-directory or multipart/form-data
  | symlink  -- application/symlink
  | file     -- anything else
deriving DecidableEq, Repr

structure Part where
  /-- disposition is form-data (otherwise FormName() is "") -/
  form : Bool
  formName : Str
  /-- the `filename` parameter as transmitted (still escaped) -/
  filename : Str
  ctype : CType
  body : Str
  /-- value of the `abspath-encoded` header ("" = absent or empty) -/
  absEnc : Str := []
  /-- value of the legacy raw `abspath` header -/
  absRaw : Str := []
deriving DecidableEq, Repr

/-! ### writer -/

/-- Go path.Join: drop leading empty elements, join the rest with "/", Clean; "" if everything is empty -/
def pathJoin (elems : List Str) : Str :=
  let es := elems.dropWhile (· = [])
  if es = [] then [] else clean (joinSlash es)

def symlinkMode : Nat := 2 ^ 27 + 511

def kMode : Str := "mode".toList
def kMtime : Str := "mtime".toList
def kNsecs : Str := "mtime-nsecs".toList


def params (mode : Nat) (mtime : Option (Int × Nat)) : List (Str × Str) :=
  (if mode ≠ 0 then [(kMode, '0' :: fmtNat 8 mode)] else []) ++
  (match mtime with
   | none => []
   | some (s, n) => (kMtime, fmtDec s) :: (if n > 0 then [(kNsecs, fmtDec n)] else []))

/-- url.Values.Encode for keys already in sorted order -/
def encodeParams : List (Str × Str) → Str
  | [] => []
  | [(k, v)] => escape k ++ '=' :: escape v
  | (k, v) :: p :: ps => escape k ++ '=' :: escape v ++ '&' :: encodeParams (p :: ps)

def formNameOf (mode : Nat) (mtime : Option (Int × Nat)) : Str :=
  let ps := params mode mtime
  "file".toList ++ (if ps = [] then [] else '?' :: encodeParams ps)

def mkPart (form : Bool) (stack : List Str) (name : Str) (mode : Nat) (mtime : Option (Int × Nat))
    (ct : CType) (body : Str) (abspath : Str := []) : Part :=
  { form := form
    formName := if form then formNameOf mode mtime else []
    filename := escape (pathJoin [pathJoin stack, name])
    ctype := ct
    body := body
    -- `header.Set("abspath-encoded", url.QueryEscape(rf.AbsPath()))` for nodes implementing FileInfo (files)
    absEnc := escape abspath }

/-- the part announcing one entry -/
def headPart (form : Bool) (stack : List Str) (name : Str) : Node → Part
  | .file m a c => mkPart form stack name m.mode m.mtime .file c a
  | .link mt t => mkPart form stack name symlinkMode mt .symlink t
  | .dir m _ => mkPart form stack name m.mode m.mtime .dir []

mutual
def serNode (form : Bool) (stack : List Str) (name : Str) : Node → List Part
  | .file m a c => [mkPart form stack name m.mode m.mtime .file c a]
  | .link mt t => [mkPart form stack name symlinkMode mt .symlink t]
  | .dir m kids => mkPart form stack name m.mode m.mtime .dir [] :: serKids form (stack ++ [name]) kids
def serKids (form : Bool) (stack : List Str) : Kids → List Part
  | .nil => []
  | .cons name n rest => serNode form stack name n ++ serKids form stack rest
end

/-- NewMultiFileReader(dir, form, _) read to the end -/
def serialize (form : Bool) (kids : Kids) : List Part := serKids form [[]] kids

/-! ### reader -/

def fileName (p : Part) : Str :=
  clean ('/' :: (match unescape p.filename with
    | some e => e
    | none => p.filename))

def dirName (s : Str) : Str := if s.getLast? == some '/' then s else s ++ ['/']
def isChild (child parent : Str) : Bool := (dirName parent).isPrefixOf child
/-- strings.TrimPrefix(child, dirName(parent)) -/
def makeRelative (child parent : Str) : Str :=
  if (dirName parent).isPrefixOf child then child.drop (dirName parent).length else child

/-- strings.Cut(s, string(d)) -/
def cutChar (d : Char) : Str → Option (Str × Str)
  | [] => none
  | c :: r => if c = d then some ([], r) else
    match cutChar d r with
    | some (a, b) => some (c :: a, b)
    | none => none

/-- `a, b, _ := strings.Cut(q, d)`: without the separator everything is `a` -/
def cutOr (d : Char) (q : Str) : Str × Str :=
  match cutChar d q with
  | some ab => ab
  | none => (q, [])

/-- url.ParseQuery; `none` = an error was returned -/
def parseQuery : Nat → Str → Option (List (Str × Str))
  | 0, _ => some []
  | fuel + 1, q =>
    if q = [] then some []
    else
      let key := (cutOr '&' q).1
      let rest := (cutOr '&' q).2
      if key.contains ';' then (parseQuery fuel rest).bind (fun _ => none)
      else if key = [] then parseQuery fuel rest
      else
        match unescape (cutOr '=' key).1, unescape (cutOr '=' key).2 with
        | some k', some v' => (parseQuery fuel rest).map ((k', v') :: ·)
        | _, _ => (parseQuery fuel rest).bind (fun _ => none)

def lookup : List (Str × Str) → Str → Option Str
  | [], _ => none
  | (k, v) :: ps, key => if k = key then some v else lookup ps key

def zeroSecs : Int := -62135596800

/-- time.Unix(secs, nsecs) observed through IsZero / Unix / Nanosecond -/
def mkTime (secs nsecs : Int) : Option (Int × Nat) :=
  let s := secs + nsecs / 1000000000
  let n := (nsecs % 1000000000).toNat
  if s = zeroSecs ∧ n = 0 then none else some (s, n)

/-- the part of fileInfo after url.ParseQuery succeeded -/
def metaFromQuery (fixed : Bool) (ps : List (Str × Str)) : Meta :=
  let mode := match lookup ps kMode with
    | some v => (parseOct32 v).getD 0
    | none => 0
  let nsecs : Int := match lookup ps kNsecs with
    | some v => parseDecVal v   -- `nsecs, _ = strconv.ParseInt(...)`: the error is ignored
    | none => 0
  match lookup ps kMtime with
  | some v =>
    match parseDec64 v with
    | none => ⟨mode, none⟩
    | some secs => ⟨mode, mkTime secs nsecs⟩
  | none => if fixed then ⟨mode, none⟩ else ⟨mode, mkTime 0 nsecs⟩

/-- fileInfo(name, part) without the name; `none` = the nil FileInfo returned on a query parse error -/
def fileInfo (fixed : Bool) (p : Part) : Option Meta :=
  if !p.form then some ⟨0, none⟩
  else match cutChar '?' p.formName with
    | none => some ⟨0, none⟩
    | some (_, after) => (parseQuery (after.length + 1) after).map (metaFromQuery fixed)

/-- nextFile: `abspath-encoded` (unescaped) when non-empty, else the raw `abspath` header.
(An undecodable `abspath-encoded` makes nextFile fail; that error path is not modelled.) -/
def absPathOf (p : Part) : Str :=
  if p.absEnc ≠ [] then (unescape p.absEnc).getD [] else p.absRaw

def metaOf (fi : Option Meta) : Meta := fi.getD ⟨0, none⟩

inductive Nx where
  | stop (parts : List Part)
  | implicitDir (name : Str) (parts : List Part)
  | entry (name : Str) (p : Part) (parts : List Part)

/-- one call of multipartIterator.Next for the directory `dpath` whose previous entry was `cur` -/
def next (dpath cur : Str) : List Part → Nx
  | [] => .stop []
  | p :: rest =>
    let name := fileName p
    if !isChild name dpath then .stop (p :: rest)
    else if cur ≠ [] && isChild name (pathJoin [dpath, cur]) then next dpath cur rest
    else
      let rel := makeRelative name dpath
      match cutChar '/' rel with
      | some (before, _) => .implicitDir before (p :: rest)
      | none => .entry rel p rest

/-- depth-first walk of the directory `dpath`; returns its entries and the parts left over -/
def walk (fixed : Bool) : Nat → Str → Str → List Part → Kids × List Part
  | 0, _, _, parts => (.nil, parts)
  | fuel + 1, dpath, cur, parts =>
    match next dpath cur parts with
    | .stop ps => (.nil, ps)
    | .implicitDir name ps =>
      let sub := walk fixed fuel (pathJoin [dpath, name]) [] ps
      let more := walk fixed fuel dpath name sub.2
      (.cons name (.dir ⟨0, none⟩ sub.1) more.1, more.2)
    | .entry name p ps =>
      match p.ctype with
      | .dir =>
        let sub := walk fixed fuel (fileName p) [] ps
        let more := walk fixed fuel dpath name sub.2
        (.cons name (.dir (metaOf (fileInfo fixed p)) sub.1) more.1, more.2)
      | .symlink =>
        let more := walk fixed fuel dpath name ps
        (.cons name (.link (metaOf (fileInfo fixed p)).mtime p.body) more.1, more.2)
      | .file =>
        let more := walk fixed fuel dpath name ps
        (.cons name (.file (metaOf (fileInfo fixed p)) (absPathOf p) p.body) more.1, more.2)

def fuelFor (parts : List Part) : Nat :=
  parts.length + (parts.map (fun p => p.filename.length)).sum + 2

/-- NewFileFromPartReader + full walk -/
def parse (fixed : Bool) (parts : List Part) : Kids := (walk fixed (fuelFor parts) ['/'] [] parts).1

-- what mixed mode can transport: no modes, no times
mutual
def stripNode : Node → Node
  | .file _ a c => .file ⟨0, none⟩ a c
  | .link _ t => .link none t
  | .dir _ kids => .dir ⟨0, none⟩ (stripKids kids)
def stripKids : Kids → Kids
  | .nil => .nil
  | .cons name n rest => .cons name (stripNode n) (stripKids rest)
end

end C39
