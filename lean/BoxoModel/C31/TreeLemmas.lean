import BoxoModel.C31.Tree
import BoxoModel.C31.Lemmas
/-! C31 (deepening) — the offline replay over a partial block set succeeds iff the set contains the
model's block set, and then returns the complete answer. Core only. -/
namespace C31
open FileTree

theorem ite_all_append {β : Type} (hv : Nat → Bool) (a b : List Nat) (x : β) :
    (if (a ++ b).all hv then some x else none)
      = if a.all hv then (if b.all hv then some x else none) else none := by
  simp only [List.all_append]
  cases a.all hv <;> cases b.all hv <;> simp

/-! ### HAMT lookup -/

theorem hlookupAtP_eq {α : Type} (hv : Nat → Bool) (key : Bytes) :
    ∀ (s : HSlots α) (idx pad : Nat) (hb : C33.HashBits),
      hlookupAtP hv key s idx pad hb
        = if (hlookupAt key s idx pad hb).2.all hv then some (hlookupAt key s idx pad hb).1 else none := by
  intro s
  induction s with
  | nil => intro idx pad hb; simp [hlookupAtP, hlookupAt]
  | val name v rest ih =>
    intro idx pad hb
    cases idx with
    | zero =>
      simp only [hlookupAtP, hlookupAt]
      split
      · simp
      · split <;> simp
    | succ i => simp only [hlookupAtP, hlookupAt]; exact ih i pad hb
  | sub name lbl fanout bf slots rest ih1 ih2 =>
    intro idx pad hb
    cases idx with
    | zero =>
      simp only [hlookupAtP, hlookupAt]
      split
      · simp
      · by_cases hl : hv lbl = true
        · simp only [hl, Bool.not_true, Bool.false_eq_true, if_false]
          cases hn : hb.next (C33.log2Size fanout) with
          | none => simp [hl]
          | some p =>
            obtain ⟨ci, hv'⟩ := p
            simp only
            split
            · rw [ih1]
              simp [hl]
            · simp [hl]
        · have hl' : hv lbl = false := by simpa using hl
          simp only [hl', Bool.not_false, if_true]
          cases hn : hb.next (C33.log2Size fanout) with
          | none => simp [hl']
          | some p =>
            obtain ⟨ci, hv'⟩ := p
            simp only
            split <;> simp [hl']
    | succ i => simp only [hlookupAtP, hlookupAt]; exact ih2 i pad hb

theorem hlookupRootP_eq {α : Type} (hv : Nat → Bool) (key : Bytes) (fanout bf : Nat) (slots : HSlots α)
    (x : Option (Nat × C33.HashBits)) :
    hlookupRootP hv key fanout bf slots x
      = if (hlookupRoot key fanout bf slots x).2.all hv then some (hlookupRoot key fanout bf slots x).1 else none := by
  cases x with
  | none => simp [hlookupRootP, hlookupRoot]
  | some p =>
    obtain ⟨ci, hv'⟩ := p
    simp only [hlookupRootP, hlookupRoot]
    split
    · exact hlookupAtP_eq hv key slots _ _ _
    · simp

theorem lookupTrP_eq (hv : Nat → Bool) (H : Bytes → Bytes) (n : Tr) (s : Bytes) :
    lookupTrP hv H n s = if (lookupTr H n s).2.all hv then some (lookupTr H n s).1 else none := by
  cases n with
  | file l raw f labels => simp [lookupTrP, lookupTr]
  | sym l => simp [lookupTrP, lookupTr]
  | dir l ents => simp [lookupTrP, lookupTr]
  | hdir l fanout bf slots =>
    simp only [lookupTrP, lookupTr, hlookup]
    exact hlookupRootP_eq hv s fanout bf slots _

/-! ### path -/

theorem walkFromP_eq (hv : Nat → Bool) (H : Bytes → Bytes) :
    ∀ (segs : List Bytes) (n : Tr),
      walkFromP hv H n segs = if (walkFrom H n segs).2.all hv then some (walkFrom H n segs).1 else none := by
  intro segs
  induction segs with
  | nil => intro n; simp [walkFromP, walkFrom]
  | cons s rest ih =>
    intro n
    cases rest with
    | nil =>
      simp only [walkFromP, walkFrom, lookupTrP_eq]
      by_cases ha : (lookupTr H n s).2.all hv = true
      · simp only [ha, if_true]
        cases (lookupTr H n s).1 <;> rfl
      · have ha' : (lookupTr H n s).2.all hv = false := by simpa using ha
        simp [ha']
    | cons s2 rest =>
      simp only [walkFromP, walkFrom]
      by_cases hm : n.isMap = true
      · simp only [hm, Bool.not_true, Bool.false_eq_true, if_false, lookupTrP_eq]
        by_cases ha : (lookupTr H n s).2.all hv = true
        · simp only [ha, if_true]
          cases hl : (lookupTr H n s).1 with
          | found ch =>
            simp only [List.all_append, ha, Bool.true_and, List.all_cons]
            by_cases hc : hv ch.lbl = true
            · simp only [hc, if_true, Bool.true_and]
              exact ih ch
            · have hc' : hv ch.lbl = false := by simpa using hc
              simp [hc']
          | noSuchField => simp [ha]
          | err => simp [ha]
        · have ha' : (lookupTr H n s).2.all hv = false := by simpa using ha
          simp only [ha']
          cases hl : (lookupTr H n s).1 with
          | found ch => simp [List.all_append, ha']
          | noSuchField => simp [ha']
          | err => simp [ha']
      · have hm' : n.isMap = false := by simpa using hm
        simp [hm']

theorem resolveP_eq (hv : Nat → Bool) (H : Bytes → Bytes) (root : Tr) (segs : List Bytes) :
    resolveP hv H root segs
      = if (pathBlocks H root segs).all hv then some (resolveT H root segs).1 else none := by
  unfold resolveP pathBlocks resolveT
  by_cases he : segs.isEmpty = true
  · simp [he]
  · simp only [he, Bool.false_eq_true, if_false, List.all_cons]
    by_cases hr : hv root.lbl = true
    · simp only [hr, if_true, Bool.true_and]
      exact walkFromP_eq hv H segs root
    · have hr' : hv root.lbl = false := by simpa using hr
      simp [hr']

/-! ### scopes -/

theorem hentriesP_eq {α : Type} (hv : Nat → Bool) : ∀ (s : HSlots α) (pad : Nat),
    hentriesP hv pad s = if (shardLabels s).all hv then some (hentries pad s) else none := by
  intro s
  induction s with
  | nil => intro pad; simp [hentriesP, shardLabels, hentries]
  | val name v rest ih =>
    intro pad
    simp only [hentriesP, shardLabels, hentries, ih]
    by_cases hb : (shardLabels rest).all hv = true
    · simp only [hb, if_true, Option.map_some]
    · have hb' : (shardLabels rest).all hv = false := by simpa using hb
      simp only [hb', Bool.false_eq_true, if_false, Option.map_none]
  | sub name lbl fanout bf slots rest ih1 ih2 =>
    intro pad
    simp only [hentriesP, shardLabels, hentries, ih1, ih2, List.all_cons, List.all_append]
    by_cases h1 : hv lbl = true
    · by_cases h2 : (shardLabels slots).all hv = true
      · by_cases h3 : (shardLabels rest).all hv = true
        · simp [h1, h2, h3]
        · have h3' : (shardLabels rest).all hv = false := by simpa using h3
          simp [h1, h2, h3']
      · have h2' : (shardLabels slots).all hv = false := by simpa using h2
        simp [h1, h2']
    · have h1' : hv lbl = false := by simpa using h1
      simp [h1']

mutual
theorem allP_eq (hv : Nat → Bool) : (t : Tr) → allP hv t = (allBlocks t).all hv
  | .file l raw f labels => by simp [allP, allBlocks]
  | .sym l => by simp [allP, allBlocks]
  | .dir l ents => by simp [allP, allBlocks, allPE_eq hv ents]
  | .hdir l fanout bf slots => by simp [allP, allBlocks, allPS_eq hv slots]
theorem allPE_eq (hv : Nat → Bool) : (es : List (Bytes × Tr)) → allPE hv es = (allBlocksE es).all hv
  | [] => by simp [allPE, allBlocksE]
  | e :: r => by simp [allPE, allBlocksE, allP_eq hv e.2, allPE_eq hv r, List.all_append]
theorem allPS_eq (hv : Nat → Bool) : (s : HSlots Tr) → allPS hv s = (allBlocksS s).all hv
  | .nil => by simp [allPS, allBlocksS]
  | .val name v rest => by simp [allPS, allBlocksS, allP_eq hv v, allPS_eq hv rest, List.all_append]
  | .sub name lbl fanout bf slots rest => by
    simp [allPS, allBlocksS, allPS_eq hv slots, allPS_eq hv rest, List.all_append]
end

theorem scopeP_eq (hv : Nat → Bool) (t : Tr) (sc : Scope) (r : Rng) (hw : t.wellSizedFile = true) :
    scopeP hv t sc r = if (scopeBlocks t sc r).2.all hv then some (scopeSpec t sc r) else none := by
  cases sc with
  | block => simp [scopeP, scopeBlocks, scopeSpec]
  | all => simp [scopeP, scopeBlocks, scopeSpec, allP_eq]
  | entity =>
    cases t with
    | sym l => simp [scopeP, scopeBlocks, scopeSpec]
    | dir l ents => simp [scopeP, scopeBlocks, scopeSpec]
    | hdir l fanout bf slots =>
      simp only [scopeP, scopeBlocks, scopeSpec, List.all_cons, hentriesP_eq]
      by_cases h1 : hv l = true
      · by_cases h2 : (shardLabels slots).all hv = true
        · simp [h1, h2]
        · have h2' : (shardLabels slots).all hv = false := by simpa using h2
          simp [h1, h2']
      · have h1' : hv l = false := by simpa using h1
        simp [h1']
    | file l raw f labels =>
      simp only [Tr.wellSizedFile] at hw
      simp only [scopeP, scopeBlocks, scopeSpec, entityBlocks]
      by_cases hraw : raw = true
      · simp [hraw]
      · have hraw' : raw = false := by simpa using hraw
        simp only [hraw', Bool.false_eq_true, if_false]
        cases hsp : span (size f) (plan (size f) r) with
        | none => simp
        | some p =>
          obtain ⟨off, n⟩ := p
          simp only [coverTop]
          by_cases hn : n = 0
          · simp [hn]
          · simp only [hn, if_false]
            rw [readP_eq (fun i => hv (labels.getD i l)) f 0 off n hw]
            simp only [List.all_map]
            have : ((cover f 0 off n).all fun i => hv (labels.getD i l))
                = (cover f 0 off n).all (hv ∘ fun i => labels.getD i l) := rfl
            rw [this]
            split <;> simp

/-- The whole replay: it succeeds iff every block of the model's CAR block set is available, and then
yields the complete answer. -/
theorem replayP_eq (hv : Nat → Bool) (H : Bytes → Bytes) (root : Tr) (segs : List Bytes) (sc : Scope) (r : Rng)
    (t : Tr) (ht : (resolveT H root segs).1 = .ok t) (hw : t.wellSizedFile = true) :
    replayP hv H root segs sc r
      = if (pathBlocks H root segs ++ (scopeBlocks t sc r).2).all hv then some (some (scopeSpec t sc r)) else none := by
  unfold replayP
  rw [resolveP_eq, ht, ite_all_append]
  by_cases hp : (pathBlocks H root segs).all hv = true
  · simp only [hp, if_true]
    rw [scopeP_eq hv t sc r hw]
    split <;> simp
  · have hp' : (pathBlocks H root segs).all hv = false := by simpa using hp
    simp [hp']

end C31
