import BoxoModel.Lib.FileTree
/-
C31 — trustless gateway CAR/raw responses: the range / scope logic boxo itself contributes.  Core-only.

Transcribed from
  * /repo/gateway/gateway.go `NewDagByteRange` (with `strconv.ParseInt(s, 10, 64)` and `strings.Split`),
  * /repo/gateway/backend_blocks.go `walkGatewaySimpleSelector`, case `Data_File`: how `entity-bytes`
    becomes Seek + Copy/CopyN (AFTER the fix "entity-bytes 'to' = MaxInt64 overflowed the byte count":
    the count is `to-from+1` guarded by `to < from-1`, and `to-from = MaxInt64` reads to the end),
  * the block-loading discipline of the lazy file reader the CAR is recorded through
    (go-unixfsnode file/shard.go `makeReader`: children wholly before the offset are skipped using the
    link sizes, the others are opened lazily and read sequentially; io.CopyN never reads past the count):
    `cover`, over `Lib/FileTree` trees.
`readP` is the reader over a PARTIAL block set (the CAR): it fails exactly when it needs an absent block.
Not modelled: path traversal, directories, HAMT, dag-scope=all (decided by the offline replay in the harness).
-/
namespace C31
open FileTree

abbrev Bytes := List UInt8

/-! ## entity-bytes parser -/

def isDigit (b : UInt8) : Bool := 48 ≤ b && b ≤ 57

/-- value of a digit string, most significant first -/
def digitsVal : Nat → Bytes → Nat
  | acc, [] => acc
  | acc, d :: r => digitsVal (acc * 10 + (d.toNat - 48)) r

/-- `strconv.ParseUint(s, 10, 64)` restricted to what ParseInt needs: non-empty, ASCII digits only.
(Overflow is decided by the caller on the exact value: Go's cutoff test is equivalent.) -/
def parseDigits (s : Bytes) : Option Nat :=
  if s.isEmpty then none else if s.all isDigit then some (digitsVal 0 s) else none

/-- `strconv.ParseInt(s, 10, 64)`; `none` = any error (syntax or range) -/
def parseInt64 (s : Bytes) : Option Int :=
  match s with
  | [] => none
  | 43 :: r => (parseDigits r).bind fun v => if v < 2 ^ 63 then some (v : Int) else none       -- '+'
  | 45 :: r => (parseDigits r).bind fun v => if v ≤ 2 ^ 63 then some (-(v : Int)) else none    -- '-'
  | _ => (parseDigits s).bind fun v => if v < 2 ^ 63 then some (v : Int) else none

/-- `strings.Split(s, ":")` -/
def splitColon : Bytes → List Bytes
  | [] => [[]]
  | c :: r =>
    if c = 58 then [] :: splitColon r
    else match splitColon r with
      | [] => [[c]]          -- unreachable: the result is never empty
      | h :: t => (c :: h) :: t

structure Rng where
  from_ : Int
  to : Option Int
  deriving DecidableEq, Repr

/-- `NewDagByteRange` -/
def newDagByteRange (s : Bytes) : Option Rng :=
  match splitColon s with
  | [a, b] =>
    match parseInt64 a with
    | none => none
    | some f =>
      if b = [42] then some ⟨f, none⟩          -- "*"
      else match parseInt64 b with
        | none => none
        | some t =>
          if f ≥ 0 ∧ t ≥ 0 ∧ f > t then none
          else if f < 0 ∧ t < 0 ∧ f > t then none
          else some ⟨f, some t⟩
  | _ => none

/-! ## from the range to Seek + Copy -/

inductive Plan where
  | toEnd (start : Int)                 -- Seek(start); io.Copy
  | count (start : Int) (n : Int)       -- Seek(start); io.CopyN(n)
  | err                                 -- "tried to read less than zero bytes"
  deriving DecidableEq, Repr

/-- the Data_File branch of walkGatewaySimpleSelector, `size` = f.Seek(0, io.SeekEnd).
`params.Range == nil` is `⟨0, none⟩`. Computed in `Int`; `C31.plan_no_overflow` shows every intermediate
value fits int64 for int64 inputs. -/
def plan (size : Int) (r : Rng) : Plan :=
  let start := if r.from_ < 0 then max (size + r.from_) 0 else r.from_
  match r.to with
  | none => .toEnd start
  | some t =>
    let to := if t < 0 then size + t else t
    if to < start - 1 then .err
    else if to - start = 2 ^ 63 - 1 then .toEnd start
    else .count start (to - start + 1)

/-- (offset, number of bytes) actually delivered by the reads of a plan on a file of `size` bytes -/
def span (size : Nat) : Plan → Option (Nat × Nat)
  | .err => none
  | .toEnd s => some (s.toNat, size - s.toNat)
  | .count s n => some (s.toNat, min n.toNat (size - s.toNat))

/-! ## which blocks a ranged read loads -/

mutual
/-- number of blocks of a file DAG -/
def nodes : FNode → Nat
  | .leaf _ => 1
  | .node _ cs => 1 + nodesL cs
def nodesL : List (FNode × Nat) → Nat
  | [] => 0
  | c :: r => nodes c.1 + nodesL r
end

mutual
/-- preorder indices (this node = `idx`) of the blocks loaded when `n > 0` bytes are read from offset
`off` of this node -/
def cover : FNode → Nat → Nat → Nat → List Nat
  | .leaf _, idx, _, _ => [idx]
  | .node _ cs, idx, off, n => idx :: coverL cs (idx + 1) off n
/-- `makeReader` + sequential reading: skip children wholly before the offset (by recorded size), read
`min n (size - off)` from the first one, continue at offset 0 with what is left -/
def coverL : List (FNode × Nat) → Nat → Nat → Nat → List Nat
  | [], _, _, _ => []
  | c :: r, idx, off, n =>
    if off ≥ c.2 then coverL r (idx + nodes c.1) (off - c.2) n
    else
      cover c.1 idx off (min n (c.2 - off))
        ++ (if n - min n (c.2 - off) > 0 then coverL r (idx + nodes c.1) 0 (n - min n (c.2 - off)) else [])
end

mutual
/-- the same reader over a partial block set `have_` (the blocks of a CAR), returning the bytes:
`none` as soon as a block it has to load is absent. The block `idx` itself is loaded first. -/
def readP (have_ : Nat → Bool) : FNode → Nat → Nat → Nat → Option Bytes
  | .leaf d, idx, off, n => if have_ idx then some ((d.drop off).take n) else none
  | .node _ cs, idx, off, n => if have_ idx then readPL have_ cs (idx + 1) off n else none
def readPL (have_ : Nat → Bool) : List (FNode × Nat) → Nat → Nat → Nat → Option Bytes
  | [], _, _, _ => some []
  | c :: r, idx, off, n =>
    if off ≥ c.2 then readPL have_ r (idx + nodes c.1) (off - c.2) n
    else
      match readP have_ c.1 idx off (min n (c.2 - off)) with
      | none => none
      | some a =>
        if n - min n (c.2 - off) > 0 then
          match readPL have_ r (idx + nodes c.1) 0 (n - min n (c.2 - off)) with
          | none => none
          | some b => some (a ++ b)
        else some a
end

/-- blocks of the terminal file loaded for an entity request: the root always (it is the terminal block
of the path), then the cover of the delivered span when it is non-empty -/
def coverTop (t : FNode) (off n : Nat) : List Nat :=
  if n = 0 then [0] else cover t 0 off n

/-- dag-scope=entity on a file with links: (stream error?, blocks) -/
def entityBlocks (t : FNode) (r : Rng) : Bool × List Nat :=
  match span (size t) (plan (size t) r) with
  | none => (true, [0])
  | some (off, n) => (false, coverTop t off n)

mutual
/-- every recorded child size is positive (boxo's builders never emit empty chunks inside a file) -/
def posSized : FNode → Bool
  | .leaf _ => true
  | .node _ cs => posSizedL cs
def posSizedL : List (FNode × Nat) → Bool
  | [] => true
  | c :: r => (decide (0 < c.2) && posSized c.1) && posSizedL r
end

/-- raw block response: the body is what the blockstore holds under the resolved CID -/
def rawResponse {κ : Type} [DecidableEq κ] (store : κ → Option Bytes) (c : κ) : Option Bytes := store c

end C31
