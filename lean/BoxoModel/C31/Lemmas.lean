import BoxoModel.C31.Model
/-! C31 — helper lemmas (core only). -/
namespace C31
open FileTree

/-! ### slices of concatenations -/

theorem slice_skip (A B : Bytes) (off n : Nat) (h : A.length ≤ off) :
    ((A ++ B).drop off).take n = (B.drop (off - A.length)).take n := by
  rw [List.drop_append]
  have : A.drop off = [] := List.drop_eq_nil_of_le h
  simp [this]

theorem slice_split (A B : Bytes) (off n : Nat) (h : off < A.length) :
    ((A ++ B).drop off).take n
      = (A.drop off).take (min n (A.length - off)) ++ (B.drop 0).take (n - min n (A.length - off)) := by
  rw [List.drop_append]
  have h0 : off - A.length = 0 := by omega
  rw [h0, List.take_append]
  simp only [List.length_drop, List.drop_zero]
  congr 1
  · by_cases hn : n ≤ A.length - off
    · rw [Nat.min_eq_left hn]
    · have hn' : A.length - off ≤ n := by omega
      rw [Nat.min_eq_right hn']
      rw [List.take_of_length_le (by simp; omega), List.take_of_length_le (by simp)]
  · by_cases hn : n ≤ A.length - off
    · rw [Nat.min_eq_left hn]
      have : n - (A.length - off) = 0 := by omega
      simp [this]
    · have hn' : A.length - off ≤ n := by omega
      rw [Nat.min_eq_right hn']

/-! ### the partial-store reader needs exactly `cover` -/

mutual
theorem readP_eq (hv : Nat → Bool) : (t : FNode) → (idx off n : Nat) → wellSized t = true →
    readP hv t idx off n
      = if (cover t idx off n).all hv then some (((content t).drop off).take n) else none
  | .leaf d, idx, off, n, _ => by
    simp only [readP, cover, content_leaf, List.all_cons, List.all_nil, Bool.and_true]
  | .node fs cs, idx, off, n, h => by
    simp only [wellSized_node, Bool.and_eq_true] at h
    simp only [readP, cover, content_node, List.all_cons]
    by_cases hi : hv idx = true
    · simp only [hi, if_true, Bool.true_and]
      exact readPL_eq hv cs (idx + 1) off n h.2
    · have hi' : hv idx = false := by simpa using hi
      simp [hi']
theorem readPL_eq (hv : Nat → Bool) : (cs : List (FNode × Nat)) → (idx off n : Nat) → wellSizedL cs = true →
    readPL hv cs idx off n
      = if (coverL cs idx off n).all hv then some (((contentL cs).drop off).take n) else none
  | [], idx, off, n, _ => by simp [readPL, coverL]
  | c :: r, idx, off, n, h => by
    simp only [wellSizedL_cons, Bool.and_eq_true, beq_iff_eq] at h
    obtain ⟨⟨hsz, hwc⟩, hwr⟩ := h
    have hlen : c.2 = (content c.1).length := by rw [hsz]; exact size_eq_of_wellSized c.1 hwc
    simp only [readPL, coverL, contentL_cons]
    by_cases hoff : off ≥ c.2
    · simp only [hoff, if_true]
      rw [readPL_eq hv r (idx + nodes c.1) (off - c.2) n hwr]
      rw [slice_skip (content c.1) (contentL r) off n (by omega), hlen]
    · simp only [hoff, if_false]
      rw [readP_eq hv c.1 idx off (min n (c.2 - off)) hwc]
      rw [slice_split (content c.1) (contentL r) off n (by omega), ← hlen]
      by_cases hc : (cover c.1 idx off (min n (c.2 - off))).all hv = true
      · simp only [hc, if_true, List.all_append, Bool.true_and]
        by_cases hmore : n - min n (c.2 - off) > 0
        · simp only [hmore, if_true]
          rw [readPL_eq hv r (idx + nodes c.1) 0 (n - min n (c.2 - off)) hwr]
          by_cases hr : (coverL r (idx + nodes c.1) 0 (n - min n (c.2 - off))).all hv = true
          · simp [hr]
          · have hr' : (coverL r (idx + nodes c.1) 0 (n - min n (c.2 - off))).all hv = false := by
              simpa using hr
            simp [hr']
        · have hz : n - min n (c.2 - off) = 0 := by omega
          simp [hz]
      · have hc' : (cover c.1 idx off (min n (c.2 - off))).all hv = false := by simpa using hc
        simp [hc', List.all_append]
end

/-! ### range → plan -/

/-- first requested byte (documented meaning of `From`) -/
def startOf (size : Int) (r : Rng) : Int := if r.from_ < 0 then max (size + r.from_) 0 else r.from_
/-- last requested byte, inclusive (documented meaning of `To`), `none` = to the end -/
def endOf (size : Int) (r : Rng) : Option Int := r.to.map fun t => if t < 0 then size + t else t

/-- byte `i` of a file of `size` bytes is requested by `r` -/
def wanted (size : Int) (r : Rng) (i : Int) : Prop :=
  0 ≤ i ∧ i < size ∧ startOf size r ≤ i ∧ (∀ e, endOf size r = some e → i ≤ e)

def int64 (x : Int) : Prop := -(2 ^ 63) ≤ x ∧ x < 2 ^ 63

theorem plan_eq (size : Int) (r : Rng) :
    plan size r = (match endOf size r with
      | none => .toEnd (startOf size r)
      | some e =>
        if e < startOf size r - 1 then .err
        else if e - startOf size r = 2 ^ 63 - 1 then .toEnd (startOf size r)
        else .count (startOf size r) (e - startOf size r + 1)) := by
  unfold plan endOf startOf
  cases r.to <;> rfl

theorem startOf_bounds (size : Int) (r : Rng) (hs0 : 0 ≤ size) (hs : size < 2 ^ 63) (hf : int64 r.from_) :
    0 ≤ startOf size r ∧ startOf size r < 2 ^ 63 := by
  unfold int64 at hf
  unfold startOf
  split <;> omega

theorem endOf_bounds (size : Int) (r : Rng) (hs0 : 0 ≤ size) (hs : size < 2 ^ 63)
    (ht : ∀ t, r.to = some t → int64 t) (e : Int) (he : endOf size r = some e) : int64 e := by
  unfold endOf at he
  cases hto : r.to with
  | none => simp [hto] at he
  | some t =>
    have := ht t hto
    unfold int64 at this ⊢
    simp only [hto, Option.map_some, Option.some.injEq] at he
    subst he
    split <;> omega

theorem plan_err_iff (size : Int) (r : Rng) :
    plan size r = .err ↔ ∃ e, endOf size r = some e ∧ e < startOf size r - 1 := by
  rw [plan_eq]
  cases endOf size r with
  | none => simp
  | some e =>
    simp only [Option.some.injEq, exists_eq_left']
    constructor
    · intro h
      split at h
      · assumption
      · split at h <;> simp at h
    · intro h; simp [h]

/-- the bytes delivered by the Seek/Copy plan are exactly the requested bytes that exist -/
theorem span_iff_wanted (size : Nat) (r : Rng) (hf : int64 r.from_) (ht : ∀ t, r.to = some t → int64 t)
    (hs : (size : Int) < 2 ^ 63) (off n : Nat) (hsp : span size (plan size r) = some (off, n)) (i : Nat) :
    (off ≤ i ∧ i < off + n) ↔ wanted size r i := by
  unfold wanted
  rw [plan_eq] at hsp
  have hst := startOf_bounds size r (by omega) hs hf
  have hen := endOf_bounds size r (by omega) hs ht
  generalize startOf (size : Int) r = st at *
  cases hend : endOf (size : Int) r with
  | none =>
    simp only [hend, span, Option.some.injEq, Prod.mk.injEq] at hsp
    obtain ⟨h1, h2⟩ := hsp
    subst h1; subst h2
    constructor
    · rintro ⟨a, b⟩
      exact ⟨by omega, by omega, by omega, by simp⟩
    · rintro ⟨_, b, c, _⟩
      omega
  | some e =>
    have hen' := hen e hend
    unfold int64 at hen'
    simp only [hend] at hsp
    by_cases h1 : e < st - 1
    · simp [h1, span] at hsp
    · simp only [h1, if_false] at hsp
      by_cases h2 : e - st = 2 ^ 63 - 1
      · simp only [h2, if_true, span, Option.some.injEq, Prod.mk.injEq] at hsp
        obtain ⟨h3, h4⟩ := hsp
        subst h3; subst h4
        constructor
        · rintro ⟨a, b⟩
          refine ⟨by omega, by omega, by omega, ?_⟩
          intro e' he'
          simp only [Option.some.injEq] at he'
          omega
        · rintro ⟨_, b, c, _⟩
          omega
      · simp only [h2, if_false, span, Option.some.injEq, Prod.mk.injEq] at hsp
        obtain ⟨h3, h4⟩ := hsp
        subst h3; subst h4
        constructor
        · rintro ⟨a, b⟩
          refine ⟨by omega, by omega, by omega, ?_⟩
          intro e' he'
          simp only [Option.some.injEq] at he'
          omega
        · rintro ⟨_, b, c, d⟩
          have d' := d e rfl
          omega

/-- with int64 inputs no intermediate value of the (fixed) Go computation leaves int64 -/
theorem plan_no_overflow (size : Int) (r : Rng) (hs0 : 0 ≤ size) (hs : size < 2 ^ 63) (hf : int64 r.from_)
    (ht : ∀ t, r.to = some t → int64 t) :
    (r.from_ < 0 → int64 (size + r.from_)) ∧ int64 (startOf size r) ∧ int64 (startOf size r - 1)
    ∧ ∀ e, endOf size r = some e →
        int64 e ∧ (¬ e < startOf size r - 1 → int64 (e - startOf size r)
          ∧ (e - startOf size r ≠ 2 ^ 63 - 1 → int64 (e - startOf size r + 1))) := by
  have hst := startOf_bounds size r hs0 hs hf
  have hen := endOf_bounds size r hs0 hs ht
  generalize startOf size r = st at *
  unfold int64 at *
  refine ⟨by omega, by omega, by omega, ?_⟩
  intro e he
  have := hen e he
  exact ⟨this, fun _ => ⟨by omega, fun _ => by omega⟩⟩

/-! ### parser -/

theorem splitColon_ne_nil (s : Bytes) : splitColon s ≠ [] := by
  induction s with
  | nil => simp [splitColon]
  | cons c r ih =>
    simp only [splitColon]
    split
    · simp
    · split <;> simp

theorem splitColon_length (s : Bytes) : (splitColon s).length = (s.filter (· = 58)).length + 1 := by
  induction s with
  | nil => simp [splitColon]
  | cons c r ih =>
    simp only [splitColon]
    by_cases hc : c = 58
    · simp [hc, ih]
    · simp only [hc, if_false]
      cases hs : splitColon r with
      | nil => exact absurd hs (splitColon_ne_nil r)
      | cons h t =>
        rw [hs] at ih
        simp [hc, ← ih]

theorem bind_if_some {β : Type} (o : Option Nat) (P : Nat → Prop) [DecidablePred P] (f : Nat → β) (x : β)
    (h : (o.bind fun v => if P v then some (f v) else none) = some x) : ∃ v, o = some v ∧ P v ∧ x = f v := by
  cases o with
  | none => simp at h
  | some v =>
    simp only [Option.bind_some] at h
    split at h
    · rename_i hp; simp at h; exact ⟨v, rfl, hp, h.symm⟩
    · simp at h

/-- what `strconv.ParseInt(s, 10, 64)` accepts: optional sign, then at least one ASCII digit, value in range -/
theorem parseInt64_some (s : Bytes) (v : Int) (h : parseInt64 s = some v) :
    ∃ (neg : Bool) (ds : Bytes), (s = ds ∨ s = 43 :: ds ∨ s = 45 :: ds) ∧ (neg = true ↔ s = 45 :: ds)
      ∧ ds ≠ [] ∧ ds.all isDigit = true
      ∧ v = (if neg then -(digitsVal 0 ds : Int) else (digitsVal 0 ds : Int)) ∧ int64 v := by
  have pd : ∀ (ds : Bytes) (n : Nat), parseDigits ds = some n → ds ≠ [] ∧ ds.all isDigit = true ∧ n = digitsVal 0 ds := by
    intro ds n hp
    unfold parseDigits at hp
    split at hp
    · simp at hp
    · rename_i hne
      split at hp
      · rename_i hall
        simp at hp
        exact ⟨by intro he; simp [he] at hne, hall, hp.symm⟩
      · simp at hp
  unfold int64
  unfold parseInt64 at h
  split at h
  · simp at h
  · rename_i r
    obtain ⟨n, hn, hlt, hv⟩ := bind_if_some _ _ _ _ h
    obtain ⟨h1, h2, h3⟩ := pd r n hn
    refine ⟨false, r, Or.inr (Or.inl rfl), by simp, h1, h2, by simp [hv, h3], by omega⟩
  · rename_i r
    obtain ⟨n, hn, hlt, hv⟩ := bind_if_some _ _ _ _ h
    obtain ⟨h1, h2, h3⟩ := pd r n hn
    refine ⟨true, r, Or.inr (Or.inr rfl), by simp, h1, h2, by simp [hv, h3], by omega⟩
  · rename_i hnp hnm
    obtain ⟨n, hn, hlt, hv⟩ := bind_if_some _ _ _ _ h
    obtain ⟨h1, h2, h3⟩ := pd s n hn
    refine ⟨false, s, Or.inl rfl, ?_, h1, h2, by simp [hv, h3], by omega⟩
    constructor
    · intro hf; simp at hf
    · intro hs
      -- s = 45 :: s is impossible
      have := congrArg List.length hs
      simp at this

theorem parseInt64_bounds (s : Bytes) (v : Int) (h : parseInt64 s = some v) : int64 v := by
  obtain ⟨_, _, _, _, _, _, _, hb⟩ := parseInt64_some s v h
  exact hb

theorem splitColon_nocolon (b : Bytes) (hb : 58 ∉ b) : splitColon b = [b] := by
  induction b with
  | nil => simp [splitColon]
  | cons c r ih =>
    simp only [List.mem_cons, not_or] at hb
    have hc : ¬ c = 58 := fun h => hb.1 h.symm
    simp [splitColon, hc, ih hb.2]

theorem splitColon_two (a b : Bytes) (ha : 58 ∉ a) (hb : 58 ∉ b) : splitColon (a ++ 58 :: b) = [a, b] := by
  induction a with
  | nil => simp [splitColon, splitColon_nocolon b hb]
  | cons c r ih =>
    simp only [List.mem_cons, not_or] at ha
    have hc : ¬ c = 58 := fun h => ha.1 h.symm
    simp [splitColon, hc, ih ha.2]

theorem splitColon_join : ∀ (s : Bytes) (a b : Bytes), splitColon s = [a, b] → s = a ++ 58 :: b ∧ 58 ∉ a ∧ 58 ∉ b := by
  intro s
  induction s with
  | nil => intro a b h; simp [splitColon] at h
  | cons c r ih =>
    intro a b h
    simp only [splitColon] at h
    by_cases hc : c = 58
    · simp only [hc, if_true, List.cons.injEq] at h
      obtain ⟨h1, h2⟩ := h
      subst h1
      -- splitColon r = [b] : no colon in r
      have hlen := splitColon_length r
      rw [h2] at hlen
      simp only [List.length_cons, List.length_nil, Nat.zero_add, Nat.right_eq_add,
        List.length_eq_zero_iff, List.filter_eq_nil_iff, decide_eq_true_eq] at hlen
      have hr : 58 ∉ r := fun hm => hlen 58 hm rfl
      rw [splitColon_nocolon r hr] at h2
      simp only [List.cons.injEq, and_true] at h2
      subst h2
      exact ⟨by simp [hc], by simp, hr⟩
    · simp only [hc, if_false] at h
      cases hs : splitColon r with
      | nil => exact absurd hs (splitColon_ne_nil r)
      | cons x t =>
        simp only [hs, List.cons.injEq] at h
        obtain ⟨h1, h2⟩ := h
        subst h1; subst h2
        obtain ⟨e1, e2, e3⟩ := ih x b hs
        refine ⟨by simp [e1], ?_, e3⟩
        simp only [List.mem_cons, not_or]
        exact ⟨fun h => hc h.symm, e2⟩

end C31
