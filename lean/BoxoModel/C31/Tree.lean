import BoxoModel.C31.Model
import BoxoModel.C33.Model
/-
C31 (deepening) — which blocks a trustless CAR response contains, for EVERY terminal kind and scope,
over a labelled model of the whole UnixFS tree.  Core-only.

Blocks are identified by labels (`Nat`; the harness maps CIDs to labels, equal CIDs → equal label).
  * `Tr`          the tree as the gateway sees it: files (a `FileTree.FNode` + the labels of its blocks in
                  preorder), symlinks, basic directories, HAMT directories whose child shard BLOCKS carry
                  labels (`HSlots.sub`).
  * `pathBlocks`  blocks loaded by `ResolveToLastNode` through the recording block getter of
                  `BlocksBackend.GetCAR`: nothing for an empty remainder; otherwise the root, every
                  intermediate node, and for every lookup in a HAMT directory the child shards on the
                  digit path of the name (also when the name is absent) — the final link's target is NOT
                  loaded by the resolver.
  * `scopeBlocks` what `walkGatewaySimpleSelector` loads from the terminal element: `block` → the terminal
                  block; `all` → every block of the sub-DAG (ExploreAllRecursively over raw dag-pb);
                  `entity` → file: `C31.entityBlocks`; basic directory / symlink: the node; HAMT directory:
                  the root and ALL shard blocks ("unixfs-preload"), not the entries' content.
  * `carBlocks`   their union = the expected block SET of the CAR (diffed with the real response).
  * `resolveP`, `scopeP`, `replayP`  the offline replay over a PARTIAL block set; `none` as soon as an absent
                  block is needed.
HAMT digit extraction, bitfield and pad functions are those of `BoxoModel/C33/Model.lean`.
-/
namespace C31
open FileTree

/-- links of one HAMT shard block, in block order; a child shard link carries the child block's label -/
inductive HSlots (α : Type) where
  | nil
  | val (name : Bytes) (v : α) (rest : HSlots α)
  | sub (name : Bytes) (lbl : Nat) (fanout : Nat) (bf : Nat) (slots : HSlots α) (rest : HSlots α)

inductive Tr where
  | file (lbl : Nat) (raw : Bool) (t : FNode) (labels : List Nat)   -- labels: preorder, labels[0] = lbl
  | sym (lbl : Nat)
  | dir (lbl : Nat) (ents : List (Bytes × Tr))
  | hdir (lbl : Nat) (fanout bf : Nat) (slots : HSlots Tr)
  deriving Inhabited

def Tr.lbl : Tr → Nat
  | .file l _ _ _ => l
  | .sym l => l
  | .dir l _ => l
  | .hdir l _ _ _ => l

def Tr.isMap : Tr → Bool
  | .file _ _ _ _ => false
  | _ => true

inductive LR (α : Type) where
  | found (v : α)
  | noSuchField
  | err

/-- go-unixfsnode `hamt.lookup` from link `idx` of the current shard on (as `C33.lookupAt`), returning also
the labels of the child shard blocks it loads, in load order -/
def hlookupAt {α : Type} (key : Bytes) : HSlots α → Nat → Nat → C33.HashBits → LR α × List Nat
  | .nil, _, _, _ => (.err, [])
  | .val name v _, 0, pad, _ =>
    if name.length ≤ pad then (.err, [])
    else if name.drop pad = key then (.found v, []) else (.noSuchField, [])
  | .val _ _ rest, i + 1, pad, hv => hlookupAt key rest i pad hv
  | .sub name lbl fanout bf slots _, 0, pad, hv =>
    if name.length ≠ pad then (.err, [])
    else
      -- loadChild: the child shard block is loaded before its digit is read
      match hv.next (C33.log2Size fanout) with
      | none => (.err, [lbl])
      | some (ci, hv') =>
        if C33.bit bf ci then
          let r := hlookupAt key slots (C33.onesBefore bf ci) (C33.padLen fanout) hv'
          (r.1, lbl :: r.2)
        else (.noSuchField, [lbl])
  | .sub _ _ _ _ _ rest, i + 1, pad, hv => hlookupAt key rest i pad hv

/-- the root shard's step, given the outcome of `hv.Next(log2 fanout)` -/
def hlookupRoot {α : Type} (key : Bytes) (fanout bf : Nat) (slots : HSlots α) :
    Option (Nat × C33.HashBits) → LR α × List Nat
  | none => (.err, [])
  | some (ci, hv') =>
    if C33.bit bf ci then hlookupAt key slots (C33.onesBefore bf ci) (C33.padLen fanout) hv' else (.noSuchField, [])

def hlookup {α : Type} (H : Bytes → Bytes) (key : Bytes) (fanout bf : Nat) (slots : HSlots α) : LR α × List Nat :=
  hlookupRoot key fanout bf slots ((C33.HashBits.mk (H key) 0).next (C33.log2Size fanout))

/-- `LookupBySegment` on a loaded node: result and the further blocks it loads -/
def lookupTr (H : Bytes → Bytes) (n : Tr) (s : Bytes) : LR Tr × List Nat :=
  match n with
  | .file _ _ _ _ => (.err, [])
  | .sym _ => (.noSuchField, [])
  | .dir _ ents =>
    (match ents.find? (fun e => e.1 == s) with
      | some e => .found e.2
      | none => .noSuchField, [])
  | .hdir _ fanout bf slots => hlookup H s fanout bf slots

inductive PRes where
  | ok (t : Tr)
  | noLink (name : Bytes)
  | err
  deriving Inhabited

/-- the walk below a loaded node `n` along `segs ≠ []`: (result, blocks loaded after `n`) -/
def walkFrom (H : Bytes → Bytes) : Tr → List Bytes → PRes × List Nat
  | n, [] => (.ok n, [])
  | n, [s] =>
    -- final `parent.LookupBySegment(lastSegment)`: the link target is not loaded
    let r := lookupTr H n s
    (match r.1 with
      | .found ch => .ok ch
      | .noSuchField => .noLink s
      | .err => .err, r.2)
  | n, s :: s2 :: rest =>
    if !n.isMap then (.noLink s, [])
    else
      let r := lookupTr H n s
      match r.1 with
      | .found ch =>
        let w := walkFrom H ch (s2 :: rest)
        (w.1, r.2 ++ ch.lbl :: w.2)
      | _ => (.noLink s, r.2)

/-- ResolveToLastNode: result and the blocks it loads -/
def resolveT (H : Bytes → Bytes) (root : Tr) (segs : List Bytes) : PRes × List Nat :=
  if segs.isEmpty then (.ok root, [])
  else
    let w := walkFrom H root segs
    (w.1, root.lbl :: w.2)

def pathBlocks (H : Bytes → Bytes) (root : Tr) (segs : List Bytes) : List Nat := (resolveT H root segs).2

/-! ## scope -/

/-- labels of all shard blocks below a link list -/
def shardLabels {α : Type} : HSlots α → List Nat
  | .nil => []
  | .val _ _ rest => shardLabels rest
  | .sub _ lbl _ _ slots rest => lbl :: shardLabels slots ++ shardLabels rest

def hvalues {α : Type} : HSlots α → List α
  | .nil => []
  | .val _ v rest => v :: hvalues rest
  | .sub _ _ _ _ slots rest => hvalues slots ++ hvalues rest

/-- (key, value) pairs of a HAMT directory in block order; `pad` of the owning shard -/
def hentries {α : Type} : Nat → HSlots α → List (Bytes × α)
  | _, .nil => []
  | pad, .val name v rest => (name.drop pad, v) :: hentries pad rest
  | pad, .sub _ _ fanout _ slots rest => hentries (C33.padLen fanout) slots ++ hentries pad rest

mutual
/-- every block of the DAG below (and including) a node: dag-scope=all -/
def allBlocks : Tr → List Nat
  | .file _ _ _ labels => labels
  | .sym l => [l]
  | .dir l ents => l :: allBlocksE ents
  | .hdir l _ _ slots => l :: allBlocksS slots
def allBlocksE : List (Bytes × Tr) → List Nat
  | [] => []
  | e :: r => allBlocks e.2 ++ allBlocksE r
def allBlocksS : HSlots Tr → List Nat
  | .nil => []
  | .val _ v rest => allBlocks v ++ allBlocksS rest
  | .sub _ lbl _ _ slots rest => lbl :: allBlocksS slots ++ allBlocksS rest
end

inductive Scope where
  | block | entity | all
  deriving DecidableEq, Repr

/-- (stream error?, blocks loaded from the terminal element) -/
def scopeBlocks (t : Tr) (sc : Scope) (r : Rng) : Bool × List Nat :=
  match sc with
  | .block => (false, [t.lbl])
  | .all => (false, allBlocks t)
  | .entity =>
    match t with
    | .file l raw f labels =>
      if raw then (false, [l])
      else
        let e := entityBlocks f r
        (e.1, e.2.map fun i => labels.getD i l)
    | .sym l => (false, [l])
    | .dir l _ => (false, [l])
    | .hdir l _ _ slots => (false, l :: shardLabels slots)

/-- the expected block set of a CAR response: `none` = the path does not resolve to a node (the response
then carries only the blocks of the failed resolution: `pathBlocks`) -/
def carBlocks (H : Bytes → Bytes) (root : Tr) (segs : List Bytes) (sc : Scope) (r : Rng) : Option (Bool × List Nat) :=
  match (resolveT H root segs).1 with
  | .ok t =>
    let s := scopeBlocks t sc r
    some (s.1, pathBlocks H root segs ++ s.2)
  | _ => none

/-! ## offline replay over a partial block set -/

/-- hamt lookup over a partial block set -/
def hlookupAtP {α : Type} (hv_ : Nat → Bool) (key : Bytes) : HSlots α → Nat → Nat → C33.HashBits → Option (LR α)
  | .nil, _, _, _ => some .err
  | .val name v _, 0, pad, _ =>
    if name.length ≤ pad then some .err
    else if name.drop pad = key then some (.found v) else some .noSuchField
  | .val _ _ rest, i + 1, pad, hv => hlookupAtP hv_ key rest i pad hv
  | .sub name lbl fanout bf slots _, 0, pad, hv =>
    if name.length ≠ pad then some .err
    else if !hv_ lbl then none
    else
      match hv.next (C33.log2Size fanout) with
      | none => some .err
      | some (ci, hv') =>
        if C33.bit bf ci then hlookupAtP hv_ key slots (C33.onesBefore bf ci) (C33.padLen fanout) hv'
        else some .noSuchField
  | .sub _ _ _ _ _ rest, i + 1, pad, hv => hlookupAtP hv_ key rest i pad hv

def hlookupRootP {α : Type} (hv_ : Nat → Bool) (key : Bytes) (fanout bf : Nat) (slots : HSlots α) :
    Option (Nat × C33.HashBits) → Option (LR α)
  | none => some .err
  | some (ci, hv') =>
    if C33.bit bf ci then hlookupAtP hv_ key slots (C33.onesBefore bf ci) (C33.padLen fanout) hv'
    else some .noSuchField

def lookupTrP (hv_ : Nat → Bool) (H : Bytes → Bytes) (n : Tr) (s : Bytes) : Option (LR Tr) :=
  match n with
  | .file _ _ _ _ => some .err
  | .sym _ => some .noSuchField
  | .dir _ ents =>
    some (match ents.find? (fun e => e.1 == s) with
      | some e => .found e.2
      | none => .noSuchField)
  | .hdir _ fanout bf slots =>
    hlookupRootP hv_ s fanout bf slots ((C33.HashBits.mk (H s) 0).next (C33.log2Size fanout))

def walkFromP (hv_ : Nat → Bool) (H : Bytes → Bytes) : Tr → List Bytes → Option PRes
  | n, [] => some (.ok n)
  | n, [s] =>
    match lookupTrP hv_ H n s with
    | none => none
    | some (.found ch) => some (.ok ch)
    | some .noSuchField => some (.noLink s)
    | some .err => some .err
  | n, s :: s2 :: rest =>
    if !n.isMap then some (.noLink s)
    else
      match lookupTrP hv_ H n s with
      | none => none
      | some (.found ch) => if hv_ ch.lbl then walkFromP hv_ H ch (s2 :: rest) else none
      | some _ => some (.noLink s)

/-- offline ResolveToLastNode -/
def resolveP (hv_ : Nat → Bool) (H : Bytes → Bytes) (root : Tr) (segs : List Bytes) : Option PRes :=
  if segs.isEmpty then some (.ok root)
  else if hv_ root.lbl then walkFromP hv_ H root segs else none

/-- all entries of a HAMT directory over a partial block set (what "unixfs-preload" / a listing needs) -/
def hentriesP {α : Type} (hv_ : Nat → Bool) : Nat → HSlots α → Option (List (Bytes × α))
  | _, .nil => some []
  | pad, .val name v rest => (hentriesP hv_ pad rest).map ((name.drop pad, v) :: ·)
  | pad, .sub _ lbl fanout _ slots rest =>
    if !hv_ lbl then none
    else match hentriesP hv_ (C33.padLen fanout) slots with
      | none => none
      | some a => (hentriesP hv_ pad rest).map (a ++ ·)

mutual
/-- walking the whole DAG below a node over a partial block set -/
def allP (hv_ : Nat → Bool) : Tr → Bool
  | .file _ _ _ labels => labels.all hv_
  | .sym l => hv_ l
  | .dir l ents => hv_ l && allPE hv_ ents
  | .hdir l _ _ slots => hv_ l && allPS hv_ slots
def allPE (hv_ : Nat → Bool) : List (Bytes × Tr) → Bool
  | [] => true
  | e :: r => allP hv_ e.2 && allPE hv_ r
def allPS (hv_ : Nat → Bool) : HSlots Tr → Bool
  | .nil => true
  | .val _ v rest => allP hv_ v && allPS hv_ rest
  | .sub _ lbl _ _ slots rest => hv_ lbl && (allPS hv_ slots && allPS hv_ rest)
end

/-- what the offline replay of the requested scope yields -/
inductive SR where
  | block                                   -- the terminal block is there
  | dag (blocks : List Nat)                 -- the whole DAG was walked
  | bytes (b : Bytes)                       -- the requested window of the file
  | names (l : List (Bytes × Nat))          -- the directory listing: (name, label of the entry's root block)
  | nothing                                 -- symlink node / inverted window: only the terminal block
  deriving DecidableEq

/-- offline replay of the scope on the terminal element over a partial block set -/
def scopeP (hv_ : Nat → Bool) (t : Tr) (sc : Scope) (r : Rng) : Option SR :=
  match sc with
  | .block => if hv_ t.lbl then some .block else none
  | .all => if allP hv_ t then some (.dag (allBlocks t)) else none
  | .entity =>
    match t with
    | .file l raw f labels =>
      if raw then (if hv_ l then some (.bytes (content f)) else none)
      else
        match span (size f) (plan (size f) r) with
        | none => if hv_ (labels.getD 0 l) then some .nothing else none
        | some (off, n) =>
          if n = 0 then (if hv_ (labels.getD 0 l) then some (.bytes []) else none)
          else (readP (fun i => hv_ (labels.getD i l)) f 0 off n).map .bytes
    | .sym l => if hv_ l then some .nothing else none
    | .dir l ents => if hv_ l then some (.names (ents.map fun e => (e.1, e.2.lbl))) else none
    | .hdir l fanout _ slots =>
      if hv_ l then (hentriesP hv_ (C33.padLen fanout) slots).map fun es => .names (es.map fun e => (e.1, e.2.lbl))
      else none

/-- the complete answer (all blocks available) -/
def scopeSpec (t : Tr) (sc : Scope) (r : Rng) : SR :=
  match sc with
  | .block => .block
  | .all => .dag (allBlocks t)
  | .entity =>
    match t with
    | .file _ raw f _ =>
      if raw then .bytes (content f)
      else match span (size f) (plan (size f) r) with
        | none => .nothing
        | some (off, n) => .bytes (((content f).drop off).take n)
    | .sym _ => .nothing
    | .dir _ ents => .names (ents.map fun e => (e.1, e.2.lbl))
    | .hdir _ fanout _ slots => .names ((hentries (C33.padLen fanout) slots).map fun e => (e.1, e.2.lbl))

/-- the whole offline replay of a CAR request: resolve the path, then the scope on the terminal -/
def replayP (hv_ : Nat → Bool) (H : Bytes → Bytes) (root : Tr) (segs : List Bytes) (sc : Scope) (r : Rng) :
    Option (Option SR) :=
  match resolveP hv_ H root segs with
  | none => none
  | some (.ok t) => (scopeP hv_ t sc r).map some
  | some _ => some none          -- the absence of the path is established

/-- files of the terminal element are well-sized -/
def Tr.wellSizedFile : Tr → Bool
  | .file _ _ f _ => wellSized f
  | _ => true

end C31
