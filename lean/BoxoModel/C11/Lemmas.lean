import BoxoModel.C11.Model
/-! C11 helper lemmas: the name order, the stable sort, the codec round trip, the cache invariant. -/
namespace C11
open Varint Proto

/-! ### byte-wise order -/

theorem bytesLe_refl (a : Bytes) : bytesLe a a = true := by
  induction a with
  | nil => rfl
  | cons x xs ih => simp [bytesLe, ih]

theorem bytesLe_total (a b : Bytes) : (bytesLe a b || bytesLe b a) = true := by
  induction a generalizing b with
  | nil => simp [bytesLe]
  | cons x xs ih =>
    cases b with
    | nil => simp [bytesLe]
    | cons y ys =>
      simp only [bytesLe]
      by_cases h1 : x.toNat < y.toNat
      · simp [h1]
      · by_cases h2 : y.toNat < x.toNat
        · simp [h1, h2]
        · simpa [h1, h2] using ih ys

theorem bytesLe_trans (a b c : Bytes) (h1 : bytesLe a b = true) (h2 : bytesLe b c = true) :
    bytesLe a c = true := by
  induction a generalizing b c with
  | nil => simp [bytesLe]
  | cons x xs ih =>
    cases b with
    | nil => simp [bytesLe] at h1
    | cons y ys =>
      cases c with
      | nil => simp [bytesLe] at h2
      | cons z zs =>
        simp only [bytesLe] at h1 h2 ⊢
        by_cases hxy : x.toNat < y.toNat
        · by_cases hyz : y.toNat < z.toNat
          · have : x.toNat < z.toNat := by omega
            simp [this]
          · by_cases hzy : z.toNat < y.toNat
            · simp [hyz, hzy] at h2
            · have : x.toNat < z.toNat := by omega
              simp [this]
        · by_cases hyx : y.toNat < x.toNat
          · simp [hxy, hyx] at h1
          · simp only [hxy, hyx, if_false] at h1
            by_cases hyz : y.toNat < z.toNat
            · have : x.toNat < z.toNat := by omega
              simp [this]
            · by_cases hzy : z.toNat < y.toNat
              · simp [hyz, hzy] at h2
              · simp only [hyz, hzy, if_false] at h2
                have e1 : ¬ x.toNat < z.toNat := by omega
                have e2 : ¬ z.toNat < x.toNat := by omega
                simp only [e1, e2, if_false]
                exact ih ys zs h1 h2

theorem bytesLe_antisymm (a b : Bytes) (h1 : bytesLe a b = true) (h2 : bytesLe b a = true) : a = b := by
  induction a generalizing b with
  | nil => cases b with
    | nil => rfl
    | cons y ys => simp [bytesLe] at h2
  | cons x xs ih =>
    cases b with
    | nil => simp [bytesLe] at h1
    | cons y ys =>
      simp only [bytesLe] at h1 h2
      by_cases hxy : x.toNat < y.toNat
      · have : ¬ y.toNat < x.toNat := by omega
        simp [hxy, this] at h2
      · by_cases hyx : y.toNat < x.toNat
        · simp [hxy, hyx] at h1
        · simp only [hxy, hyx, if_false] at h1 h2
          have : x = y := UInt8.toNat_inj.1 (by omega)
          rw [this, ih ys h1 h2]

theorem nameLe_trans (a b c : Link) (h1 : nameLe a b = true) (h2 : nameLe b c = true) : nameLe a c = true :=
  bytesLe_trans _ _ _ h1 h2

theorem nameLe_total (a b : Link) : (nameLe a b || nameLe b a) = true := bytesLe_total _ _

/-! ### the stable sort -/

theorem sortLinks_perm (ls : List Link) : (sortLinks ls).Perm ls := List.mergeSort_perm ls nameLe

theorem sortLinks_sorted (ls : List Link) : (sortLinks ls).Pairwise (fun a b => nameLe a b = true) :=
  List.pairwise_mergeSort nameLe_trans nameLe_total ls

theorem sortLinks_of_sorted {ls : List Link} (h : ls.Pairwise (fun a b => nameLe a b = true)) :
    sortLinks ls = ls := List.mergeSort_of_pairwise h

theorem sortLinks_idem (ls : List Link) : sortLinks (sortLinks ls) = sortLinks ls :=
  sortLinks_of_sorted (sortLinks_sorted ls)

theorem mem_sortLinks {ls : List Link} {l : Link} : l ∈ sortLinks ls ↔ l ∈ ls :=
  (sortLinks_perm ls).mem_iff

/-- equal names keep their relative (insertion) order -/
theorem sortLinks_stable (ls : List Link) (x : Bytes) :
    (sortLinks ls).filter (fun l => l.name == x) = ls.filter (fun l => l.name == x) := by
  have hsub : (ls.filter (fun l => l.name == x)).Sublist (sortLinks ls) := by
    apply List.sublist_mergeSort nameLe_trans nameLe_total
    · rw [List.pairwise_filter]
      apply List.Pairwise.imp_of_mem (R := fun _ _ => True)
      · intro a b _ _ _ ha hb
        have ha' : a.name = x := by simpa using ha
        have hb' : b.name = x := by simpa using hb
        simp [nameLe, ha', hb', bytesLe_refl]
      · exact List.pairwise_of_forall (fun _ _ => trivial)
    · exact List.filter_sublist
  have h2 : (ls.filter (fun l => l.name == x)).Sublist ((sortLinks ls).filter (fun l => l.name == x)) := by
    have := hsub.filter (fun l => l.name == x)
    simpa using this
  have hlen : (ls.filter (fun l => l.name == x)).length = ((sortLinks ls).filter (fun l => l.name == x)).length :=
    ((sortLinks_perm ls).filter _).length_eq.symm
  exact (h2.eq_of_length hlen).symm

theorem eq_of_nodup_map {α β : Type} (f : α → β) {l : List α} (hn : (l.map f).Nodup) {x y : α}
    (hx : x ∈ l) (hy : y ∈ l) (h : f x = f y) : x = y := by
  induction l with
  | nil => cases hx
  | cons a as ih =>
    simp only [List.map_cons, List.nodup_cons, List.mem_map, not_exists, not_and] at hn
    rcases List.mem_cons.1 hx with rfl | hx'
    · rcases List.mem_cons.1 hy with rfl | hy'
      · rfl
      · exact absurd h.symm (hn.1 y hy')
    · rcases List.mem_cons.1 hy with rfl | hy'
      · exact absurd h (hn.1 x hx')
      · exact ih hn.2 hx' hy'

/-- with pairwise distinct names the sorted list does not depend on the insertion order -/
theorem sortLinks_perm_eq {a b : List Link} (hp : a.Perm b) (hn : (a.map (·.name)).Nodup) :
    sortLinks a = sortLinks b := by
  apply List.Perm.eq_of_pairwise (le := fun x y => nameLe x y = true) _ (sortLinks_sorted a) (sortLinks_sorted b)
  · exact (sortLinks_perm a).trans (hp.trans (sortLinks_perm b).symm)
  · intro x y hx hy h1 h2
    have hx' : x ∈ a := mem_sortLinks.1 hx
    have hy' : y ∈ a := hp.mem_iff.2 (mem_sortLinks.1 hy)
    have hname : x.name = y.name := bytesLe_antisymm _ _ h1 h2
    exact eq_of_nodup_map (·.name) hn hx' hy' hname

/-! ### codec round trip -/

/-- what a link looks like after encode/decode: Tsize clamped as `max(int64(size), 0)` -/
def normLink (l : Link) : Link := ⟨l.name, l.cid, if l.size < 2 ^ 63 then l.size else 0⟩

theorem normLink_of_check {l : Link} (h : checkLink l = true) : normLink l = l := by
  simp [checkLink] at h
  simp [normLink, h.1]

def linkMsg (l : Link) : Field := Field.msg 2 (linkFields l)

theorem nodeFields_eq (ls : List Link) (d : Option Bytes) :
    nodeFields ls d = (sortLinks (ls.filter fun l => cidDefined l.cid)).map linkMsg ++ dataFields d := rfl

/-- the bytes are exactly one well-formed CID (what every Go `cid.Cid` value is) -/
def cidWf (c : Bytes) : Prop := parseCid c = some c

instance : DecidablePred cidWf := fun c => inferInstanceAs (Decidable (parseCid c = some c))

theorem linkFromFields_linkFields (l : Link) (hc : cidWf l.cid) :
    linkFromFields (linkFields l) none none none = some (normLink l) := by
  unfold cidWf at hc
  simp [linkFields, linkFromFields, Field.byts, Field.vint, hc, normLink]

theorem decodeLink_encode (l : Link) (hc : cidWf l.cid)
    (hlen : (encodeMsg (linkFields l)).length < 2 ^ 64) :
    decodeLink (encodeMsg (linkFields l)) = some (normLink l) := by
  have hwf : ∀ f ∈ linkFields l, f.wf := by
    apply wf_of_length_lt _ hlen
    · intro f hf
      simp [linkFields, Field.byts, Field.vint] at hf
      rcases hf with rfl | rfl | rfl <;> simp
    · intro f hf
      simp [linkFields, Field.byts, Field.vint] at hf
      rcases hf with rfl | rfl | rfl
      · trivial
      · trivial
      · show (if l.size < 2 ^ 63 then l.size else 0) < 2 ^ 64
        split <;> omega
  simp [decodeLink, decodeMsg_encodeMsg _ hwf, linkFromFields_linkFields l hc]

theorem nodeFromFields_links (xs : List Link) (d : Option Bytes) (acc : List Link) (opn have_ : Bool)
    (hst : opn = true ∨ have_ = false)
    (hdec : ∀ l ∈ xs, decodeLink (encodeMsg (linkFields l)) = some (normLink l)) :
    nodeFromFields (xs.map linkMsg ++ dataFields d) none acc opn have_
      = some (acc.reverse ++ xs.map normLink, d) := by
  induction xs generalizing acc opn have_ with
  | nil =>
    cases d with
    | none => simp [dataFields, nodeFromFields]
    | some c => simp [dataFields, nodeFromFields, Field.byts]
  | cons x xs ih =>
    have hx := hdec x (List.mem_cons_self ..)
    have hcond : (!opn && have_) = false := by
      rcases hst with h | h <;> simp [h]
    simp only [List.map_cons, List.cons_append, linkMsg, Field.msg, nodeFromFields, hcond, hx]
    have := ih (normLink x :: acc) true true (Or.inl rfl)
      (fun l hl => hdec l (List.mem_cons_of_mem _ hl))
    simp [this]

/-- every link message inside a node shorter than 2^64 bytes is itself shorter -/
theorem linkMsg_len_of_node (ls : List Link) (d : Option Bytes) (hlen : (encodePB ls d).length < 2 ^ 64)
    (l : Link) (hl : l ∈ sortLinks (ls.filter fun l => cidDefined l.cid)) :
    (encodeMsg (linkFields l)).length < 2 ^ 64 := by
  have hmem : linkMsg l ∈ nodeFields ls d := by
    rw [nodeFields_eq]; exact List.mem_append_left _ (List.mem_map_of_mem hl)
  have h1 := Field.encode_length_le_of_mem hmem
  have h2 := Field.bytes_length_le 2 (encodeMsg (linkFields l))
  have : (encodeMsg (nodeFields ls d)).length < 2 ^ 64 := hlen
  show (encodeMsg (linkFields l)).length < 2 ^ 64
  have h3 : (linkMsg l).encode.length = (Field.mk 2 (.bytes (encodeMsg (linkFields l)))).encode.length := rfl
  omega

theorem nodeFields_wf (ls : List Link) (d : Option Bytes) (hlen : (encodePB ls d).length < 2 ^ 64) :
    ∀ f ∈ nodeFields ls d, f.wf := by
  apply wf_of_length_lt _ hlen
  · intro f hf
    rw [nodeFields_eq] at hf
    rcases List.mem_append.1 hf with h | h
    · obtain ⟨l, _, rfl⟩ := List.mem_map.1 h
      simp [linkMsg, Field.msg]
    · cases d with
      | none => simp [dataFields] at h
      | some c => simp [dataFields, Field.byts] at h; subst h; simp
  · intro f hf
    rw [nodeFields_eq] at hf
    rcases List.mem_append.1 hf with h | h
    · obtain ⟨l, _, rfl⟩ := List.mem_map.1 h
      simp [linkMsg, Field.msg]
    · cases d with
      | none => simp [dataFields] at h
      | some c => simp [dataFields, Field.byts] at h; subst h; trivial

/-- decoding an encoding returns the sorted (defined) links with clamped sizes, and the data -/
theorem decodePB_encodePB (ls : List Link) (d : Option Bytes) (hlen : (encodePB ls d).length < 2 ^ 64)
    (hcid : ∀ l ∈ ls, cidWf l.cid) :
    decodePB (encodePB ls d) =
      some ((sortLinks (ls.filter fun l => cidDefined l.cid)).map normLink, d) := by
  have hwf := nodeFields_wf ls d hlen
  unfold decodePB encodePB
  rw [decodeMsg_encodeMsg _ hwf, nodeFields_eq]
  simp only []
  rw [nodeFromFields_links _ d [] false false (Or.inr rfl)]
  · simp
  · intro l hl
    apply decodeLink_encode l
    · exact hcid l (List.mem_filter.1 (mem_sortLinks.1 hl)).1
    · exact linkMsg_len_of_node ls d hlen l hl

theorem filter_defined_of_check {ls : List Link} (h : ∀ l ∈ ls, checkLink l = true) :
    ls.filter (fun l => cidDefined l.cid) = ls := by
  rw [List.filter_eq_self]
  intro l hl
  have := h l hl
  simp [checkLink] at this
  exact this.2

theorem map_normLink_of_check {ls : List Link} (h : ∀ l ∈ ls, checkLink l = true) :
    ls.map normLink = ls := by
  induction ls with
  | nil => rfl
  | cons x xs ih =>
    simp [normLink_of_check (h x (List.mem_cons_self ..)), ih (fun l hl => h l (List.mem_cons_of_mem _ hl))]

theorem decodePB_encodePB_checked (ls : List Link) (d : Option Bytes)
    (hc : ∀ l ∈ ls, checkLink l = true) (hcid : ∀ l ∈ ls, cidWf l.cid) (hlen : (encodePB ls d).length < 2 ^ 64) :
    decodePB (encodePB ls d) = some (sortLinks ls, d) := by
  rw [decodePB_encodePB ls d hlen hcid, filter_defined_of_check hc,
    map_normLink_of_check (fun l hl => hc l (mem_sortLinks.1 hl))]

/-- sorting in place does not change the encoding -/
theorem encodePB_sortLinks (ls : List Link) (d : Option Bytes) (hc : ∀ l ∈ ls, checkLink l = true) :
    encodePB (sortLinks ls) d = encodePB ls d := by
  unfold encodePB nodeFields
  rw [filter_defined_of_check hc, filter_defined_of_check (fun l hl => hc l (mem_sortLinks.1 hl)),
    sortLinks_idem]

/-! ### the cache invariant -/

variable {B C : Type}

/-- the builder in force (`nil` means the default) -/
def eff (P : Params B C) (n : Node B C) : B := n.builder.getD P.v0

/-- Coherence of the caches with the non-cache fields `links`, `data`, `builder`. -/
structure Inv (P : Params B C) (n : Node B C) : Prop where
  /-- a cached encoding is the encoding of the current links and data -/
  enc : ∀ e, n.encoded = some e → e = encodePB n.links n.data
  /-- a cached CID that can be returned (the encoding is still cached) is the hash of that encoding
  under the builder in force -/
  cch : ∀ c e, n.cached = some c → n.encoded = some e → c = P.sum (eff P n) e
  /-- every link passed `checkLink` -/
  chk : ∀ l ∈ n.links, checkLink l = true
  /-- every link's CID is a well-formed CID (true of every Go `cid.Cid` value that is defined) -/
  cids : ∀ l ∈ n.links, cidWf l.cid

theorem inv_fresh (P : Params B C) (d : Option Bytes) : Inv P (fresh d : Node B C) :=
  ⟨by simp [fresh], by simp [fresh], by simp [fresh], by simp [fresh]⟩

theorem inv_addLink (P : Params B C) (n : Node B C) (l : Link) (h : Inv P n)
    (hl : checkLink l = true → cidWf l.cid) : Inv P (addLink n l).1 := by
  unfold addLink
  by_cases hc : checkLink l = true
  · simp only [hc, Bool.not_true, Bool.false_eq_true, if_false]
    refine ⟨by simp, by simp, ?_, ?_⟩
    · intro x hx
      rcases List.mem_append.1 hx with hx | hx
      · exact h.chk x hx
      · simp at hx; subst hx; exact hc
    · intro x hx
      rcases List.mem_append.1 hx with hx | hx
      · exact h.cids x hx
      · simp at hx; subst hx; exact hl hc
  · simp [hc]; exact h

theorem inv_removeLink (P : Params B C) (n : Node B C) (nm : Bytes) (h : Inv P n) :
    Inv P (removeLink n nm).1 := by
  unfold removeLink
  simp only []
  split
  · exact h
  · refine ⟨by simp, by simp, ?_, ?_⟩
    · intro x hx
      exact h.chk x (List.mem_filter.1 hx).1
    · intro x hx
      exact h.cids x (List.mem_filter.1 hx).1

theorem inv_setLinks (P : Params B C) (n : Node B C) (ls : List Link) (h : Inv P n)
    (hl : ∀ l ∈ ls, cidWf l.cid) : Inv P (setLinks n ls).1 := by
  unfold setLinks
  by_cases hc : ls.all checkLink = true
  · simp only [hc, Bool.not_true, Bool.false_eq_true, if_false]
    exact ⟨by simp, by simp, List.all_eq_true.1 hc, hl⟩
  · simp [hc]; exact h

theorem inv_setData (P : Params B C) (n : Node B C) (d : Option Bytes) (h : Inv P n) :
    Inv P (setData n d) :=
  ⟨by simp [setData], by simp [setData], h.chk, h.cids⟩

theorem inv_setBuilder (P : Params B C) (n : Node B C) (b : Option B) (h : Inv P n) :
    Inv P (setBuilder P n b).1 := by
  cases b with
  | none => exact ⟨h.enc, by simp [setBuilder], h.chk, h.cids⟩
  | some b =>
    simp only [setBuilder]
    split
    · exact h
    · exact ⟨h.enc, by simp, h.chk, h.cids⟩

theorem inv_copy (P : Params B C) (n : Node B C) (h : Inv P n) : Inv P (copy n) := by
  refine ⟨by simp [copy], by simp [copy], ?_, ?_⟩
  · intro l hl
    simp only [copy] at hl
    split at hl
    · exact h.chk l (mem_sortLinks.1 hl)
    · cases hl
  · intro l hl
    simp only [copy] at hl
    split at hl
    · exact h.cids l (mem_sortLinks.1 hl)
    · cases hl

theorem inv_cleanLinks (P : Params B C) (n : Node B C) (h : Inv P n) : Inv P (cleanLinks n) := by
  unfold cleanLinks
  split
  · exact ⟨by simp, by simp, fun l hl => h.chk l (mem_sortLinks.1 hl), fun l hl => h.cids l (mem_sortLinks.1 hl)⟩
  · exact h

theorem cleanLinks_links (n : Node B C) :
    (cleanLinks n).links = if n.linksDirty then sortLinks n.links else n.links := by
  unfold cleanLinks; split <;> simp [*]

theorem cleanLinks_data (n : Node B C) : (cleanLinks n).data = n.data := by
  unfold cleanLinks; split <;> rfl

theorem cleanLinks_builder (n : Node B C) : (cleanLinks n).builder = n.builder := by
  unfold cleanLinks; split <;> rfl

/-- the links a read sees / leaves behind: sorted in place when the node was dirty -/
def linksAfterRead (n : Node B C) : List Link := if n.linksDirty then sortLinks n.links else n.links

theorem encodePB_linksAfterRead (P : Params B C) (n : Node B C) (h : Inv P n) :
    encodePB (linksAfterRead n) n.data = encodePB n.links n.data := by
  unfold linksAfterRead
  split
  · exact encodePB_sortLinks _ _ h.chk
  · rfl

theorem sortLinks_linksAfterRead (n : Node B C) : sortLinks (linksAfterRead n) = sortLinks n.links := by
  unfold linksAfterRead
  split
  · exact sortLinks_idem _
  · rfl

/-- `Marshal()` returns the encoding of the current links and data -/
theorem marshal_spec (P : Params B C) (n : Node B C) (h : Inv P n) :
    (marshal n).2 = encodePB n.links n.data ∧ Inv P (marshal n).1 := by
  refine ⟨?_, inv_cleanLinks P n h⟩
  show encodePB (cleanLinks n).links (cleanLinks n).data = _
  rw [cleanLinks_links, cleanLinks_data]
  exact encodePB_linksAfterRead P n h

theorem reencode_spec (P : Params B C) (n : Node B C) (force : Bool) (h : Inv P n) :
    Inv P (reencode n force) ∧
    (reencode n force).encoded = some (encodePB n.links n.data) ∧
    (reencode n force).links = linksAfterRead n ∧
    (reencode n force).data = n.data ∧
    (reencode n force).builder = n.builder ∧
    (reencode n force).linksDirty = false := by
  have hchk := h.chk
  have hcids := h.cids
  have henc := h.enc
  obtain ⟨links, dirty, data, encoded, cached, builder⟩ := n
  simp only at hchk hcids henc
  cases dirty with
  | true =>
    have he := encodePB_sortLinks links data hchk
    simp only [reencode, marshal, getLinks, cleanLinks, linksAfterRead, Bool.or_true, Bool.true_or,
      if_true, Bool.false_eq_true, if_false, he]
    refine ⟨⟨?_, ?_, ?_, ?_⟩, trivial, trivial, trivial, trivial, trivial⟩
    · intro e hh; simp at hh; subst hh; exact he.symm
    · intro c e hh; simp at hh
    · intro l hl; exact hchk l (mem_sortLinks.1 hl)
    · intro l hl; exact hcids l (mem_sortLinks.1 hl)
  | false =>
    by_cases hc : (encoded.isNone || force) = true
    · simp only [reencode, marshal, getLinks, cleanLinks, linksAfterRead, Bool.or_false, hc,
        if_true, Bool.false_eq_true, if_false]
      refine ⟨⟨?_, ?_, ?_, ?_⟩, trivial, trivial, trivial, trivial, trivial⟩
      · intro e hh; simp at hh; exact hh.symm
      · intro c e hh; simp at hh
      · exact hchk
      · exact hcids
    · simp only [reencode, linksAfterRead, Bool.or_false, hc, Bool.false_eq_true, if_false]
      cases encoded with
      | none => simp at hc
      | some e =>
        refine ⟨h, ?_, trivial, trivial, trivial, trivial⟩
        rw [henc e rfl]

theorem fillCached_spec (P : Params B C) (n : Node B C) (e : Bytes) (h : Inv P n) (he : n.encoded = some e) :
    (fillCached P n).2 = e ∧
    (fillCached P n).1.cached = some (P.sum (eff P n) e) ∧
    (fillCached P n).1.encoded = some e ∧
    (fillCached P n).1.links = n.links ∧
    (fillCached P n).1.data = n.data ∧
    eff P (fillCached P n).1 = eff P n ∧
    (fillCached P n).1.linksDirty = n.linksDirty ∧
    Inv P (fillCached P n).1 := by
  have hchk := h.chk
  have hcids := h.cids
  have henc := h.enc
  have hcch := h.cch
  obtain ⟨links, dirty, data, encoded, cached, builder⟩ := n
  simp only at hchk hcids henc hcch he
  subst he
  cases cached with
  | some c =>
    have := hcch c e rfl rfl
    simp only [fillCached, Option.getD_some]
    exact ⟨trivial, congrArg some this, trivial, trivial, trivial, trivial, trivial, h⟩
  | none =>
    cases builder with
    | none =>
      simp only [fillCached, Option.getD_some, cidBuilder, eff, Option.getD_none]
      refine ⟨trivial, trivial, trivial, trivial, trivial, trivial, trivial, ⟨henc, ?_, hchk, hcids⟩⟩
      intro c e' h1 h2
      simp at h1 h2
      subst h2
      simp [eff, ← h1]
    | some b =>
      simp only [fillCached, Option.getD_some, cidBuilder, eff]
      refine ⟨trivial, trivial, trivial, trivial, trivial, trivial, trivial, ⟨henc, ?_, hchk, hcids⟩⟩
      intro c e' h1 h2
      simp at h1 h2
      subst h2
      simp [eff, ← h1]

/-- `EncodeProtobuf`: returns the encoding of the current links and data, leaves the hash of exactly
these bytes under the builder in force in `cached`, and changes no non-cache field except sorting. -/
theorem encodeProtobuf_spec (P : Params B C) (n : Node B C) (force : Bool) (h : Inv P n) :
    (encodeProtobuf P n force).2 = encodePB n.links n.data ∧
    (encodeProtobuf P n force).1.cached = some (P.sum (eff P n) (encodePB n.links n.data)) ∧
    (encodeProtobuf P n force).1.links = linksAfterRead n ∧
    (encodeProtobuf P n force).1.data = n.data ∧
    eff P (encodeProtobuf P n force).1 = eff P n ∧
    (encodeProtobuf P n force).1.linksDirty = false ∧
    (encodeProtobuf P n force).1.encoded = some (encodePB n.links n.data) ∧
    Inv P (encodeProtobuf P n force).1 := by
  obtain ⟨hi, he, hl, hd, hb, hdirty⟩ := reencode_spec P n force h
  obtain ⟨f1, f2, f3, f4, f5, f6, f7, f8⟩ := fillCached_spec P (reencode n force) _ hi he
  have heff : eff P (reencode n force) = eff P n := by simp [eff, hb]
  unfold encodeProtobuf
  refine ⟨f1, ?_, ?_, ?_, ?_, ?_, f3, f8⟩
  · rw [f2, heff]
  · rw [f4, hl]
  · rw [f5, hd]
  · rw [f6, heff]
  · rw [f7, hdirty]

/-- `DecodeProtobuf(n.RawData())` of a coherent node (block smaller than 2^64 bytes) succeeds and gives
a coherent node with the same data and the sorted links; the builder is reset. -/
theorem reload_spec (P : Params B C) (n : Node B C) (h : Inv P n)
    (hlen : (encodePB n.links n.data).length < 2 ^ 64) :
    ∃ m, reload P n = some m ∧ Inv P m ∧ m.links = sortLinks n.links ∧ m.data = n.data ∧
      m.builder = none ∧ m.encoded = some (encodePB n.links n.data) := by
  have hs := (encodeProtobuf_spec P n false h).1
  unfold reload fromBytes rawData
  rw [hs, decodePB_encodePB_checked _ _ h.chk h.cids hlen]
  refine ⟨_, rfl, ⟨?_, ?_, ?_, ?_⟩, rfl, rfl, rfl, rfl⟩
  · intro e he; simp at he; rw [← he]; exact (encodePB_sortLinks _ _ h.chk).symm
  · intro c e hc; simp at hc
  · intro l hl; exact h.chk l (mem_sortLinks.1 hl)
  · intro l hl; exact h.cids l (mem_sortLinks.1 hl)


/-! ### JSON, UpdateNodeLink, Stat, DecodeProtobufBlock -/

theorem inv_unmarshalJSON (P : Params B C) (n : Node B C) (d : Option Bytes) (ls : List Link) (h : Inv P n)
    (hl : ∀ l ∈ ls, cidWf l.cid) : Inv P (unmarshalJSON n d ls).1 := by
  unfold unmarshalJSON
  by_cases hc : ls.all checkLink = true
  · simp only [hc, Bool.not_true, Bool.false_eq_true, if_false]
    exact ⟨by simp, by simp, List.all_eq_true.1 hc, hl⟩
  · simp [hc]; exact h

theorem inv_updateNodeLink (P : Params B C) (n : Node B C) (l : Link) (h : Inv P n)
    (hl : checkLink l = true → cidWf l.cid) : Inv P (updateNodeLink n l).1 :=
  inv_addLink P _ l (inv_removeLink P _ l.name (inv_copy P n h)) hl

/-- `Stat()` = three cached reads in a row -/
theorem stat_spec (P : Params B C) (n : Node B C) (h : Inv P n) :
    Inv P (stat P n).1 ∧ (stat P n).2.2 = some (P.sum (eff P n) (encodePB n.links n.data)) ∧
    (stat P n).2.1.2.1 = (encodePB n.links n.data).length ∧
    (stat P n).1.data = n.data ∧ eff P (stat P n).1 = eff P n ∧
    sortLinks (stat P n).1.links = sortLinks n.links ∧
    encodePB (stat P n).1.links (stat P n).1.data = encodePB n.links n.data := by
  obtain ⟨a1, a2, a3, a4, a5, a6, a7, a8⟩ := encodeProtobuf_spec P n false h
  obtain ⟨b1, b2, b3, b4, b5, b6, b7, b8⟩ := encodeProtobuf_spec P (encodeProtobuf P n false).1 false a8
  obtain ⟨c1, c2, c3, c4, c5, c6, c7, c8⟩ :=
    encodeProtobuf_spec P (encodeProtobuf P (encodeProtobuf P n false).1 false).1 false b8
  have e1 : encodePB (encodeProtobuf P n false).1.links (encodeProtobuf P n false).1.data = encodePB n.links n.data := by
    rw [a3, a4]; exact encodePB_linksAfterRead P n h
  have e2 : encodePB (encodeProtobuf P (encodeProtobuf P n false).1 false).1.links
      (encodeProtobuf P (encodeProtobuf P n false).1 false).1.data = encodePB n.links n.data := by
    rw [b3, b4, encodePB_linksAfterRead P _ a8, e1]
  have s1 : sortLinks (encodeProtobuf P n false).1.links = sortLinks n.links := by
    rw [a3]; exact sortLinks_linksAfterRead n
  have s2 : sortLinks (encodeProtobuf P (encodeProtobuf P n false).1 false).1.links = sortLinks n.links := by
    rw [b3, sortLinks_linksAfterRead, s1]
  refine ⟨c8, ?_, a1 ▸ rfl, ?_, ?_, ?_, ?_⟩
  · show (encodeProtobuf P (encodeProtobuf P (encodeProtobuf P n false).1 false).1 false).1.cached = _
    rw [c2, e2, b5, a5]
  · show (encodeProtobuf P (encodeProtobuf P (encodeProtobuf P n false).1 false).1 false).1.data = _
    rw [c4, b4, a4]
  · show eff P (encodeProtobuf P (encodeProtobuf P (encodeProtobuf P n false).1 false).1 false).1 = _
    rw [c5, b5, a5]
  · show sortLinks (encodeProtobuf P (encodeProtobuf P (encodeProtobuf P n false).1 false).1 false).1.links = _
    rw [c3, sortLinks_linksAfterRead, s2]
  · show encodePB (encodeProtobuf P (encodeProtobuf P (encodeProtobuf P n false).1 false).1 false).1.links
      (encodeProtobuf P (encodeProtobuf P (encodeProtobuf P n false).1 false).1 false).1.data = _
    rw [c3, c4, encodePB_linksAfterRead P _ b8, e2]

/-- `DecodeProtobufBlock` of the node's own block: coherent, same data, sorted links, and the CID of the
block stays cached with a builder that sums like the one in force -/
theorem reloadBlock_spec (P : Params B C) (n : Node B C) (h : Inv P n)
    (hlen : (encodePB n.links n.data).length < 2 ^ 64) :
    Inv P (step P n .reloadBlock).1 ∧ (step P n .reloadBlock).1.data = n.data ∧
    (step P n .reloadBlock).1.links = sortLinks n.links ∧ eff P (step P n .reloadBlock).1 = eff P n := by
  obtain ⟨a1, a2, a3, a4, a5, a6, a7, a8⟩ := encodeProtobuf_spec P n false h
  have hd := decodePB_encodePB_checked _ _ h.chk h.cids hlen
  have hb : (encodeProtobuf P n false).1.builder.getD P.v0 = eff P n := a5
  simp only [step, cid, a2, a7, fromBlock, hd, hb]
  refine ⟨⟨?_, ?_, ?_, ?_⟩, trivial, trivial, ?_⟩
  rotate_left 4
  · simp [eff]
  · intro e he; simp at he; rw [← he]; exact (encodePB_sortLinks _ _ h.chk).symm
  · intro c e hc he
    simp at hc he
    rw [← hc, ← he]; simp [eff]
  · intro l hl; exact h.chk l (mem_sortLinks.1 hl)
  · intro l hl; exact h.cids l (mem_sortLinks.1 hl)

/-! ### sortedness of the links held (separate from cache coherence: `UnmarshalJSON` may install an
unsorted list without flagging it) -/

/-- links are sorted by name unless flagged dirty -/
def Srt (n : Node B C) : Prop := n.linksDirty = false → n.links.Pairwise (fun a b => nameLe a b = true)

theorem srt_fresh (d : Option Bytes) : Srt (fresh d : Node B C) := by
  intro _; exact List.Pairwise.nil

theorem srt_of_dirty (n : Node B C) (h : n.linksDirty = true) : Srt n := by
  intro hd; rw [h] at hd; cases hd

theorem srt_addLink (n : Node B C) (l : Link) (h : Srt n) : Srt (addLink n l).1 := by
  unfold addLink; split
  · exact h
  · exact srt_of_dirty _ rfl

theorem srt_removeLink (n : Node B C) (nm : Bytes) (h : Srt n) : Srt (removeLink n nm).1 := by
  unfold removeLink; simp only []; split
  · exact h
  · exact srt_of_dirty _ rfl

theorem srt_setLinks (n : Node B C) (ls : List Link) (h : Srt n) : Srt (setLinks n ls).1 := by
  unfold setLinks; split
  · exact h
  · exact srt_of_dirty _ rfl

theorem srt_setBuilder (P : Params B C) (n : Node B C) (b : Option B) (h : Srt n) : Srt (setBuilder P n b).1 := by
  cases b with
  | none => exact h
  | some b => simp only [setBuilder]; split <;> exact h

theorem srt_copy (n : Node B C) : Srt (copy n) := by
  intro _
  simp only [copy]
  split
  · exact sortLinks_sorted _
  · exact List.Pairwise.nil

theorem srt_cleanLinks (n : Node B C) (h : Srt n) : Srt (cleanLinks n) := by
  unfold cleanLinks; split
  · intro _; exact sortLinks_sorted _
  · exact h

theorem srt_of_links (n m : Node B C) (h : Srt n) (hl : m.links = linksAfterRead n) : Srt m := by
  intro _
  rw [hl]; unfold linksAfterRead
  split
  · exact sortLinks_sorted _
  · next hd => exact h (by simpa using hd)

end C11
