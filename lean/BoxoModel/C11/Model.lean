import BoxoModel.Lib.Proto
/-
C11 — ipld/merkledag ProtoNode: executable model of the cached encoding / cached CID mechanism and of
the dag-pb codec, transcribed from /repo/ipld/merkledag/{node.go,coding.go} (with the `fix:` commit
"merkledag: SetCidBuilder(nil) must drop the cached CID") and go-codec-dagpb {marshal,unmarshal}.go.

Go field                         model field
  links []*format.Link             `links : List Link`      (name / cid / size, cid opaque bytes)
  linksDirty bool                  `linksDirty`
  data []byte                      `data : Option Bytes`    (nil vs empty is observable: `Data` field)
  encoded *immutableProtoNode      `encoded : Option Bytes` (only the bytes; the ipld-prime view is not modelled)
  cached cid.Cid                   `cached : Option C`      (cid.Undef = none)
  builder cid.Builder              `builder : Option B`     (nil = none)

Hash functions are parameters: `P.sum b bytes` is `builder.WithCodec(DagProtobuf).Sum(bytes)`, `P.v0` is
`v0CidPrefix`, `P.usable b` says whether `SetCidBuilder` accepts the builder. Nothing is assumed of them.
Core-only (no Mathlib): this file is imported by the line-protocol driver.
-/
namespace C11
open Varint Proto

structure Link where
  name : Bytes
  cid : Bytes
  size : Nat
  deriving DecidableEq, Repr

/-- Go string comparison `a <= b` (byte-wise lexicographic) -/
def bytesLe : Bytes → Bytes → Bool
  | [], _ => true
  | _ :: _, [] => false
  | a :: as, b :: bs => if a.toNat < b.toNat then true else if b.toNat < a.toNat then false else bytesLe as bs

def nameLe (a b : Link) : Bool := bytesLe a.name b.name

/-- `sortLinks` (`slices.SortStableFunc` by `strings.Compare` of the names) and go-codec-dagpb's
`sort.Stable(pbLinkSlice)`: a stable sort by name. Modelled by core's stable `mergeSort`
(`c11_sorted_stable` characterises the result: sorted by name, equal names in insertion order). -/
def sortLinks (ls : List Link) : List Link := ls.mergeSort nameLe

/-- `cid.Cid.Defined()` -/
def cidDefined (c : Bytes) : Bool := !c.isEmpty

/-- `checkLink`: Tsize ≤ math.MaxInt64 and a defined CID -/
def checkLink (l : Link) : Bool := decide (l.size < 2 ^ 63) && cidDefined l.cid

/-! ### dag-pb codec (go-codec-dagpb `AppendEncode` as driven by `marshalImmutable`) -/

/-- the three fields of a PBLink, always all present (`marshalImmutable` always assigns Name and Tsize);
`sz := max(int64(link.Size), 0)` -/
def linkFields (l : Link) : List Field :=
  [Field.byts 1 l.cid, Field.byts 2 l.name, Field.vint 3 (if l.size < 2 ^ 63 then l.size else 0)]

def dataFields : Option Bytes → List Field
  | none => []
  | some d => [Field.byts 1 d]

/-- fields of the PBNode message: Links (field 2) in stable name order — links with an undefined CID are
dropped —, then Data (field 1) when non-nil. -/
def nodeFields (ls : List Link) (d : Option Bytes) : List Field :=
  ((sortLinks (ls.filter fun l => cidDefined l.cid)).map fun l => Field.msg 2 (linkFields l)) ++ dataFields d

def encodePB (ls : List Link) (d : Option Bytes) : Bytes := encodeMsg (nodeFields ls d)

/-- go-varint `FromUvarint`: at most 9 bytes (63 bits), minimal encoding required -/
def uvarAux : Nat → Nat → Bytes → Option (Nat × Bytes)
  | 0, _, _ => none
  | _ + 1, _, [] => none
  | k + 1, i, b :: r =>
    if b.toNat < 128 then (if b.toNat = 0 ∧ i > 0 then none else some (b.toNat, r))
    else match uvarAux k (i + 1) r with
      | none => none
      | some (v, r') => some (b.toNat - 128 + 128 * v, r')

def uvarint63 (b : Bytes) : Option (Nat × Bytes) := uvarAux 9 0 b

/-- go-cid `CidFromBytes`: the CID at the front of the bytes (trailing bytes are ignored, as the dag-pb
decoder does: `_, c, err := cid.CidFromBytes(chunk)`). CIDv0 = a bare sha2-256 multihash (0x12 0x20 + 32
bytes) when more than two bytes are present; otherwise version varint = 1, codec varint, multihash
(code varint, length varint ≤ 2^31−1, that many digest bytes). `cidLen` is the number of bytes the CID
occupies. -/
def cidLen (b : Bytes) : Option Nat :=
  match b with
  | 0x12 :: 0x20 :: _ :: _ => if b.length < 34 then none else some 34
  | _ =>
    match uvarint63 b with
    | none => none
    | some (vers, r1) =>
      if vers ≠ 1 then none
      else match uvarint63 r1 with
        | none => none
        | some (_, r2) =>
          if r2.length < 2 then none
          else match uvarint63 r2 with
            | none => none
            | some (_, r3) =>
              match uvarint63 r3 with
              | none => none
              | some (len, r4) =>
                if len > 2 ^ 31 - 1 ∨ len > r4.length then none
                else some (b.length - r4.length + len)

def parseCid (b : Bytes) : Option Bytes := (cidLen b).map b.take

/-- `unmarshalLink`: Hash, Name, Tsize at most once each and in this order, Hash required; wire types
2, 2, 0; any other field number is an error; the Hash must start with a well-formed CID (`parseCid`),
which is what the link gets. The three options are haveHash / haveName / haveTsize. -/
def linkFromFields : List Field → Option Bytes → Option Bytes → Option Nat → Option Link
  | [], some h, n, t => some ⟨n.getD [], h, t.getD 0⟩
  | [], none, _, _ => none
  | ⟨1, .bytes h⟩ :: fs, none, none, none =>
    match parseCid h with
    | none => none
    | some c => linkFromFields fs (some c) none none
  | ⟨2, .bytes n⟩ :: fs, h, none, none => linkFromFields fs h (some n) none
  | ⟨3, .varint t⟩ :: fs, h, n, none => linkFromFields fs h n (some t)
  | _ :: _, _, _, _ => none

def decodeLink (b : Bytes) : Option Link :=
  match decodeMsg b with
  | none => none
  | some fs => linkFromFields fs none none none

/-- `DecodeBytes`: every field must have wire type 2; field 1 = Data (at most once), field 2 = a link;
the links must be contiguous ("duplicate Links section" otherwise); Data may come first or last.
State: data seen so far, links so far (reversed), `open` = the links list is being assembled,
`haveLinks`. -/
def nodeFromFields : List Field → Option Bytes → List Link → Bool → Bool → Option (List Link × Option Bytes)
  | [], d, ls, _, _ => some (ls.reverse, d)
  | ⟨1, .bytes c⟩ :: fs, d, ls, _, have_ =>
    match d with
    | some _ => none
    | none => nodeFromFields fs (some c) ls false have_
  | ⟨2, .bytes c⟩ :: fs, d, ls, opn, have_ =>
    if !opn && have_ then none
    else match decodeLink c with
      | none => none
      | some l => nodeFromFields fs d (l :: ls) true true
  | _ :: _, _, _, _, _ => none

/-- `DecodeProtobuf` up to the (links, data) it produces -/
def decodePB (b : Bytes) : Option (List Link × Option Bytes) :=
  match decodeMsg b with
  | none => none
  | some fs => nodeFromFields fs none [] false false

/-! ### the node -/

/-- the hash side, a parameter of the model -/
structure Params (B C : Type) where
  v0 : B
  usable : B → Bool
  sum : B → Bytes → C

structure Node (B C : Type) where
  links : List Link := []
  linksDirty : Bool := false
  data : Option Bytes := none
  encoded : Option Bytes := none
  cached : Option C := none
  builder : Option B := none

variable {B C : Type}

/-- `NodeWithData(d)` -/
def fresh (d : Option Bytes) : Node B C := { data := d }

/-- `AddRawLink`: (node, ok) -/
def addLink (n : Node B C) (l : Link) : Node B C × Bool :=
  if !checkLink l then (n, false)
  else ({ n with links := n.links ++ [l], linksDirty := true, encoded := none }, true)

/-- `RemoveNodeLink`: (node, found) -/
def removeLink (n : Node B C) (name : Bytes) : Node B C × Bool :=
  let ref := n.links.filter fun l => l.name != name
  let found := n.links.any fun l => l.name == name
  if !found then (n, false)
  else ({ n with links := ref, linksDirty := true, encoded := none }, true)

/-- `SetLinks` -/
def setLinks (n : Node B C) (ls : List Link) : Node B C × Bool :=
  if !ls.all checkLink then (n, false)
  else ({ n with links := ls, linksDirty := true, encoded := none }, true)

/-- `SetData` -/
def setData (n : Node B C) (d : Option Bytes) : Node B C :=
  { n with encoded := none, cached := none, data := d }

/-- `SetCidBuilder` (with the fix: the nil branch clears `cached` too) -/
def setBuilder (P : Params B C) (n : Node B C) : Option B → Node B C × Bool
  | none => ({ n with builder := some P.v0, cached := none }, true)
  | some b => if !P.usable b then (n, false) else ({ n with builder := some b, cached := none }, true)

/-- the code before the fix: `SetCidBuilder(nil)` returns without clearing `cached` -/
def setBuilderNilUnfixed (P : Params B C) (n : Node B C) : Node B C :=
  { n with builder := some P.v0 }

/-- the `if n.linksDirty { sortLinks; linksDirty = false; encoded = nil }` block of `Links()` -/
def cleanLinks (n : Node B C) : Node B C :=
  if n.linksDirty then { n with links := sortLinks n.links, linksDirty := false, encoded := none } else n

/-- `Links()`: (node, returned copy) -/
def getLinks (n : Node B C) : Node B C × List Link :=
  let n' := cleanLinks n
  (n', n'.links)

/-- `marshalImmutable` / `Marshal()`: calls `Links()`, then encodes -/
def marshal (n : Node B C) : Node B C × Bytes :=
  let r := getLinks n
  (r.1, encodePB r.2 r.1.data)

/-- `CidBuilder()`: lazily installs the default -/
def cidBuilder (P : Params B C) (n : Node B C) : Node B C × B :=
  match n.builder with
  | none => ({ n with builder := some P.v0 }, P.v0)
  | some b => (n, b)

/-- first half of `EncodeProtobuf(force)`: `if n.encoded == nil || n.linksDirty || force { sort if
dirty; cached = Undef; encoded = marshalImmutable() }` -/
def reencode (n : Node B C) (force : Bool) : Node B C :=
  if n.encoded.isNone || n.linksDirty || force then
    let a : Node B C := if n.linksDirty then { n with links := sortLinks n.links, linksDirty := false } else n
    let b : Node B C := { a with cached := none }
    let m := marshal b
    { m.1 with encoded := some m.2 }
  else n

/-- second half: `if !n.cached.Defined() { n.cached = n.CidBuilder().Sum(n.encoded.encoded) }`,
returns the encoded bytes -/
def fillCached (P : Params B C) (n : Node B C) : Node B C × Bytes :=
  let e := n.encoded.getD []
  match n.cached with
  | some _ => (n, e)
  | none =>
    let r := cidBuilder P n
    ({ r.1 with cached := some (P.sum r.2 e) }, e)

/-- `EncodeProtobuf(force)`: (node, bytes) -/
def encodeProtobuf (P : Params B C) (n : Node B C) (force : Bool) : Node B C × Bytes :=
  fillCached P (reencode n force)

/-- `RawData()` -/
def rawData (P : Params B C) (n : Node B C) : Node B C × Bytes := encodeProtobuf P n false

/-- `Cid()` (the encode-error branch is unreachable: `checkLink` keeps Tsize non-negative) -/
def cid (P : Params B C) (n : Node B C) : Node B C × Option C :=
  let r := encodeProtobuf P n false
  (r.1, r.1.cached)

/-- `Size()` (uint64 arithmetic: the sum wraps) -/
def size (P : Params B C) (n : Node B C) : Node B C × Nat :=
  let r := encodeProtobuf P n false
  (r.1, (r.2.length + (r.1.links.map (·.size)).sum) % 2 ^ 64)

/-- `Copy()` -/
def copy (n : Node B C) : Node B C :=
  { data := match n.data with
      | some d => if d.length > 0 then some d else none
      | none => none
    links := if n.links.length > 0 then sortLinks n.links else []
    builder := n.builder }

/-- `GetNodeLink` -/
def getLink (n : Node B C) (name : Bytes) : Option Link := n.links.find? fun l => l.name == name

/-- `DecodeProtobuf(bytes)` as a node (`fromImmutableNode`): the bytes become the cached encoding -/
def fromBytes (b : Bytes) : Option (Node B C) :=
  match decodePB b with
  | none => none
  | some (ls, d) => some { links := ls, data := d, encoded := some b }

/-- `DecodeProtobuf(n.RawData())`; the old node is dropped. `none` = decode error -/
def reload (P : Params B C) (n : Node B C) : Option (Node B C) := fromBytes (rawData P n).2

/-- `Tree("", _)`: sorts if dirty (as `Links()`), returns the names -/
def tree (n : Node B C) : Node B C × List Bytes :=
  let n' := cleanLinks n
  (n', n'.links.map (·.name))

/-- `MarshalJSON`: sorts if dirty (as `Links()`), then the `{"data", "links"}` object -/
def marshalJSON (n : Node B C) : Node B C × (Option Bytes × List Link) :=
  let n' := cleanLinks n
  (n', (n'.data, n'.links))

/-- `UnmarshalJSON` of a well-formed `{"data", "links"}` object: the links are validated, then data and
links are replaced and the cached encoding dropped; `linksDirty` and `cached` are left alone (the list is
kept "as serialized"). A link that fails `checkLink` leaves the node untouched. -/
def unmarshalJSON (n : Node B C) (d : Option Bytes) (ls : List Link) : Node B C × Bool :=
  if !ls.all checkLink then (n, false)
  else ({ n with data := d, links := ls, encoded := none }, true)

/-- the code before the fix: data and links were assigned BEFORE the links were validated, and the
cached encoding was only dropped on success -/
def unmarshalJSONUnfixed (n : Node B C) (d : Option Bytes) (ls : List Link) : Node B C × Bool :=
  let n1 := { n with data := d, links := ls }
  if !ls.all checkLink then (n1, false) else ({ n1 with encoded := none }, true)

/-- `GetPBNode()`: a sorted copy of the links and the data when non-empty; the node is not touched -/
def getPBNode (n : Node B C) : List Link × Option Bytes :=
  (sortLinks n.links, match n.data with
    | some d => if d.length > 0 then some d else none
    | none => none)

/-- `Stat()`: (NumLinks, BlockSize, LinksSize, DataSize, CumulativeSize) and the CID -/
def stat (P : Params B C) (n : Node B C) : Node B C × (Nat × Nat × Int × Nat × Nat) × Option C :=
  let r := encodeProtobuf P n false
  let r2 := size P r.1
  let r3 := cid P r2.1
  let dl := (n.data.getD []).length
  (r3.1, (r.1.links.length, r.2.length, (r.2.length : Int) - dl, dl, r2.2), r3.2)

/-- `UpdateNodeLink(name, that)`: a copy with the links of that name replaced by one to `that`
(cid and size are those of `that`); the receiver is not touched -/
def updateNodeLink (n : Node B C) (l : Link) : Node B C × Bool :=
  addLink (removeLink (copy n) l.name).1 l

/-- `DecodeProtobufBlock(block)`: as `DecodeProtobuf`, then the block's CID is trusted as the cached CID
and its prefix becomes the builder -/
def fromBlock (b : Bytes) (c : C) (pre : B) : Option (Node B C) :=
  match decodePB b with
  | none => none
  | some (ls, d) => some { links := ls, data := d, encoded := some b, cached := some c, builder := some pre }

/-! ### operations of the line protocol -/

inductive Op (B : Type) where
  | addLink (l : Link)
  | removeLink (name : Bytes)
  | setLinks (ls : List Link)
  | setData (d : Option Bytes)
  | setBuilder (b : Option B)
  | copy
  | reload
  | links
  | getLink (name : Bytes)
  | data
  | marshal
  | rawData
  | size
  | cid
  | tree
  | marshalJSON
  | unmarshalJSON (d : Option Bytes) (ls : List Link)
  | getPBNode
  | stat
  | updateNodeLink (l : Link)
  | reloadBlock

inductive Out (C : Type) where
  | ok
  | err
  | notfound
  | links (ls : List Link)
  | link (l : Link)
  | data (d : Option Bytes)
  | bytes (b : Bytes)
  | nat (n : Nat)
  | cid (c : Option C)
  | names (ns : List Bytes)
  | json (d : Option Bytes) (ls : List Link)
  | pbnode (ls : List Link) (d : Option Bytes)
  | stat (v : Nat × Nat × Int × Nat × Nat) (c : Option C)

def step (P : Params B C) (n : Node B C) : Op B → Node B C × Out C
  | .addLink l => let r := addLink n l; (r.1, if r.2 then .ok else .err)
  | .removeLink nm => let r := removeLink n nm; (r.1, if r.2 then .ok else .notfound)
  | .setLinks ls => let r := setLinks n ls; (r.1, if r.2 then .ok else .err)
  | .setData d => (setData n d, .ok)
  | .setBuilder b => let r := setBuilder P n b; (r.1, if r.2 then .ok else .err)
  | .copy => (copy n, .ok)
  | .reload => match reload P n with
    | some m => (m, .ok)
    | none => ((rawData P n).1, .err)
  | .links => let r := getLinks n; (r.1, .links r.2)
  | .getLink nm => (n, match getLink n nm with | some l => .link l | none => .notfound)
  | .data => (n, .data n.data)
  | .marshal => let r := marshal n; (r.1, .bytes r.2)
  | .rawData => let r := rawData P n; (r.1, .bytes r.2)
  | .size => let r := size P n; (r.1, .nat r.2)
  | .cid => let r := cid P n; (r.1, .cid r.2)
  | .tree => let r := tree n; (r.1, .names r.2)
  | .marshalJSON => let r := marshalJSON n; (r.1, .json r.2.1 r.2.2)
  | .unmarshalJSON d ls => let r := unmarshalJSON n d ls; (r.1, if r.2 then .ok else .err)
  | .getPBNode => let r := getPBNode n; (n, .pbnode r.1 r.2)
  | .stat => let r := stat P n; (r.1, .stat r.2.1 r.2.2)
  | .updateNodeLink l => let r := updateNodeLink n l; (r.1, if r.2 then .ok else .err)
  | .reloadBlock =>
    -- DecodeProtobufBlock(NewBlockWithCid(n.RawData(), n.Cid())); the prefix of a CID made by a builder
    -- sums like that builder
    let r := cid P n
    match r.2, r.1.encoded with
    | some c, some e => match fromBlock e c (r.1.builder.getD P.v0) with
      | some m => (m, .ok)
      | none => (r.1, .err)
    | _, _ => (r.1, .err)

def run (P : Params B C) (n : Node B C) : List (Op B) → Node B C
  | [] => n
  | op :: ops => run P (step P n op).1 ops

end C11
