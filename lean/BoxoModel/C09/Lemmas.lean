import BoxoModel.C09.Model
/-! C09 — helper lemmas (core only). -/
namespace C09
open FileTree

/-! ### trees -/

theorem content_of_children (t : FNode) (h : childTotal t > 0) : content t = contentL (children t) := by
  cases t with
  | leaf d => simp [childTotal, children] at h
  | node fs cs => simp [children]

theorem content_of_leaf (t : FNode) (h : ¬ childTotal t > 0) : content t = leafData t := by
  cases t with
  | leaf d => simp [leafData]
  | node fs cs =>
    have : cs = [] := by
      cases cs with
      | nil => rfl
      | cons _ _ => simp [childTotal, children] at h
    simp [this, leafData]

theorem nodes_eq (t : FNode) : nodes t = 1 + nodesL (children t) := by
  cases t <;> simp [nodes, nodesL, children]

theorem nodesL_cons (c : FNode × Nat) (r : List (FNode × Nat)) : nodesL (c :: r) = nodes c.1 + nodesL r := by
  simp [nodesL]

theorem nodesL_of_leaf (t : FNode) (h : ¬ childTotal t > 0) : nodesL (children t) = 0 := by
  have : children t = [] := by
    cases hc : children t with
    | nil => rfl
    | cons _ _ => simp [childTotal, hc] at h
  simp [this, nodesL]

theorem drop_of_getElem? {α : Type} (l : List α) (i : Nat) (x : α) (h : l[i]? = some x) :
    i < l.length ∧ l.drop i = x :: l.drop (i + 1) := by
  obtain ⟨hi, hx⟩ := List.getElem?_eq_some_iff.mp h
  exact ⟨hi, by rw [List.drop_eq_getElem_cons hi, hx]⟩

/-! ### what is left to read, as a function of the walker -/

/-- bytes under the frames below the active one (all frames, in the second loop of Iterate) -/
def remRest : List (FNode × Nat) → Bytes
  | [] => []
  | (n, i) :: r => contentL ((children n).drop (i + 1)) ++ remRest r

/-- bytes still to be visited by a walker that is about to run the first loop of `Iterate` -/
def remDown (w : Walker) : Bytes :=
  match w.stack with
  | [] => content w.root
  | (n, i) :: r => contentL ((children n).drop i) ++ remRest r

def framesOk (st : List (FNode × Nat)) : Prop := ∀ f ∈ st, f.2 ≤ childTotal f.1

/-! ### the read visitor -/

/-- `v'` results from `v` by delivering the bytes `X` -/
def Trans (v v' : RV) (X : Bytes) : Prop :=
  v'.outRev.reverse = v.outRev.reverse ++ X ∧
  (match v.need with
   | some k => X.length ≤ k ∧ v'.need = some (k - X.length)
   | none => v'.need = none)

theorem Trans.refl (v : RV) : Trans v v [] := by
  refine ⟨by simp, ?_⟩
  cases h : v.need <;> simp

theorem Trans.trans {v v1 v2 : RV} {X1 X2 : Bytes} (h1 : Trans v v1 X1) (h2 : Trans v1 v2 X2) :
    Trans v v2 (X1 ++ X2) := by
  obtain ⟨a1, b1⟩ := h1
  obtain ⟨a2, b2⟩ := h2
  refine ⟨by rw [a2, a1, List.append_assoc], ?_⟩
  cases h : v.need with
  | none =>
    rw [h] at b1; simp only at b1
    rw [b1] at b2; simpa using b2
  | some k =>
    rw [h] at b1; simp only at b1
    rw [b1.2] at b2; simp only at b2
    simp only [List.length_append]
    refine ⟨by omega, ?_⟩
    rw [b2.2]; congr 1; omega

theorem consume_spec (v : RV) (d : Bytes) :
    ∃ X, Trans v (consume v d) X ∧ X ++ ((consume v d).cur.getD []) = d ∧
      ((consume v d).need ≠ some 0 → (consume v d).cur = none) := by
  cases h : v.need with
  | none =>
    refine ⟨d, ⟨?_, ?_⟩, ?_, ?_⟩
    · simp [consume, h]
    · simp [h, consume]
    · simp [consume, h]
    · intro _; simp [consume, h]
  | some k =>
    refine ⟨d.take (min k d.length), ⟨?_, ?_⟩, ?_, ?_⟩
    · simp [consume, h]
    · simp only [h, consume, List.length_take, Option.map_some]
      exact ⟨by omega, by congr 1; omega⟩
    · simp only [consume, h]
      split
      · simp
      · rename_i hk
        have : d.length ≤ min k d.length := by omega
        simp [List.take_of_length_le this]
    · intro hn
      simp only [consume, h, Option.map_some] at hn ⊢
      have : ¬ (min k d.length < d.length) := by
        intro hlt
        apply hn
        congr 1; omega
      simp [this]


theorem popFail_root (w : Walker) : w.popFail.root = w.root := by
  unfold Walker.popFail; split <;> rfl

theorem popFail_stack (w : Walker) : w.popFail.stack = w.stack := by
  unfold Walker.popFail; split <;> rfl

/-! ### Walker.Iterate with the read visitor -/

/-- outcome of a run of `Iterate` started at `(w, v)` with `R` still to be read -/
def IterOk (w : Walker) (v : RV) (R : Bytes) (x : Walker × RV × IterRes) : Prop :=
  x.2.2 ≠ .outOfFuel ∧ framesOk x.1.stack ∧ x.1.root = w.root ∧
  ∃ X, Trans v x.2.1 X ∧ X ++ (x.2.1.cur.getD []) ++ remDown x.1 = R ∧
    (x.2.2 = .paused → x.2.1.need = some 0) ∧
    (x.2.2 = .endOfDag → x.2.1.cur = none ∧ remDown x.1 = [] ∧ (v.need ≠ some 0 → x.2.1.need ≠ some 0))

theorem IterOk.prepend {w w1 : Walker} {v v1 : RV} {X1 R1 : Bytes} {x : Walker × RV × IterRes}
    (hT : Trans v v1 X1) (hn : v.need ≠ some 0 → v1.need ≠ some 0) (hr : w1.root = w.root)
    (h : IterOk w1 v1 R1 x) : IterOk w v (X1 ++ R1) x := by
  obtain ⟨h1, h2, h3, X, hX, hR, hp, he⟩ := h
  refine ⟨h1, h2, by rw [h3, hr], X1 ++ X, hT.trans hX, by rw [← hR]; simp [List.append_assoc], hp, ?_⟩
  intro hh
  obtain ⟨a, b, c⟩ := he hh
  exact ⟨a, b, fun h0 => c (hn h0)⟩

theorem framesOk_cons {f : FNode × Nat} {st : List (FNode × Nat)} :
    framesOk (f :: st) ↔ f.2 ≤ childTotal f.1 ∧ framesOk st := by
  simp [framesOk]

theorem iterate_ok : ∀ (fuel : Nat) (mode : Bool) (w : Walker) (v : RV), v.cur = none → framesOk w.stack →
    (mode = true → downW w < fuel) → (mode = false → w.stack ≠ [] ∧ restW w.stack < fuel) →
    IterOk w v (if mode then remDown w else remRest w.stack) (iterate readVisit fuel mode w v) := by
  intro fuel
  induction fuel with
  | zero =>
    intro mode w v _ _ h1 h2
    cases mode
    · exact absurd (h2 rfl).2 (by omega)
    · exact absurd (h1 rfl) (by omega)
  | succ f ih =>
    intro mode w v hcur hok h1 h2
    cases mode with
    | true =>
      have hW := h1 rfl
      simp only [iterate, if_true]
      -- the node `down` would step to
      cases hst : w.stack with
      | nil =>
        -- first `down`: the root
        have hfc : w.fetchChild = some w.root := by simp [Walker.fetchChild, hst]
        rw [hfc]
        simp only
        have hff : w.fetchFails = false := by simp [Walker.fetchFails, hst]
        have hpf : w.popFail = w := by simp [Walker.popFail, hst]
        rw [hff, hpf]
        simp only [Bool.false_eq_true, if_false]
        have hW' : 4 * nodes w.root + 1 < f + 1 := by simpa [downW, hst] using hW
        have hR : remDown w = content w.root := by simp [remDown, hst]
        rw [hR]
        by_cases hint : childTotal w.root > 0
        · -- internal root: visited, not read
          have hv : readVisit v w.root = (v, false) := by simp [readVisit, hint]
          rw [hv]
          simp only [Bool.false_eq_true, if_false]
          have := ih true (w.extend w.root) v hcur
            (by simp only [Walker.extend, hst]; exact framesOk_cons.mpr ⟨Nat.zero_le _, by simp [framesOk]⟩)
            (by
              intro _
              simp only [downW, Walker.extend, hst, restW, List.drop_zero, hint, if_true]
              have := nodes_eq w.root; omega)
            (by intro h; cases h)
          simp only [if_true] at this
          have hrem : remDown (w.extend w.root) = content w.root := by
            simp [remDown, Walker.extend, hst, remRest, content_of_children _ hint]
          rw [hrem] at this
          have := IterOk.prepend (w := w) (Trans.refl v) (fun h => h) (by simp [Walker.extend]) this
          simpa using this
        · -- the root is a leaf
          have hv : readVisit v w.root = (consume v (leafData w.root), (consume v (leafData w.root)).need == some 0) := by
            simp [readVisit, hint]
          rw [hv]
          obtain ⟨X, hT, hX, hc⟩ := consume_spec v (leafData w.root)
          have hrem : remDown (w.extend w.root) = [] := by
            have : children w.root = [] := by
              cases hc' : children w.root with
              | nil => rfl
              | cons _ _ => simp [childTotal, hc'] at hint
            simp [remDown, Walker.extend, hst, remRest, this]
          have hfo : framesOk (w.extend w.root).stack := by
            simp only [Walker.extend, hst]; exact framesOk_cons.mpr ⟨Nat.zero_le _, by simp [framesOk]⟩
          by_cases hp : (consume v (leafData w.root)).need = some 0
          · simp only [hp, beq_self_eq_true, if_true]
            refine ⟨by simp, hfo, by simp [Walker.extend], X, hT, ?_, (fun _ => hp), (fun h => by cases h)⟩
            simp only [hrem, List.append_nil, hX, content_of_leaf _ hint]
          · have hp' : ((consume v (leafData w.root)).need == some 0) = false := by simpa using hp
            simp only [hp', Bool.false_eq_true, if_false]
            have hcn := hc hp
            have := ih true (w.extend w.root) (consume v (leafData w.root)) hcn hfo
              (by
                intro _
                simp only [downW, Walker.extend, hst, restW, List.drop_zero, nodesL_of_leaf _ hint]
                have := nodes_eq w.root
                have := nodesL_of_leaf _ hint
                split <;> omega)
              (by intro h; cases h)
            simp only [if_true, hrem] at this
            have := IterOk.prepend (w := w) hT (fun _ => hp) (by simp [Walker.extend]) this
            rw [hcn] at hX
            simp only [Option.getD_none, List.append_nil] at hX
            rw [content_of_leaf _ hint]
            rw [List.append_nil] at this
            rw [hX] at this
            exact this
      | cons top r =>
        obtain ⟨n, i⟩ := top
        have hfr := framesOk_cons.mp (hst ▸ hok)
        simp only at hfr
        cases hget : (children n)[i]? with
        | none =>
          -- ErrDownNoChild: second loop
          have hfc : w.fetchChild = none := by simp [Walker.fetchChild, hst, hget]
          rw [hfc]
          simp only
          have hge : childTotal n ≤ i := by
            have := List.getElem?_eq_none_iff.mp hget; simpa [childTotal] using this
          have hdrop : (children n).drop i = [] := List.drop_eq_nil_iff.mpr hge
          have hdrop1 : (children n).drop (i + 1) = [] := List.drop_eq_nil_iff.mpr (by simp only [childTotal] at hge; omega)
          have := ih false w v hcur hok (by intro h; cases h)
            (by
              intro _
              refine ⟨by simp [hst], ?_⟩
              simp only [downW, hst, hdrop, nodesL] at hW
              have hni : ¬ i < childTotal n := by omega
              simp only [hni, if_false] at hW
              simp only [hst, restW, hdrop1, nodesL]; omega)
          simp only [Bool.false_eq_true, if_false] at this
          have hR : remDown w = remRest w.stack := by
            simp [remDown, hst, remRest, hdrop, hdrop1]
          rw [hR]; exact this
        | some csz =>
          obtain ⟨c, sz⟩ := csz
          have hfc : w.fetchChild = some c := by simp [Walker.fetchChild, hst, hget]
          rw [hfc]
          simp only
          obtain ⟨hi, hdrop⟩ := drop_of_getElem? _ _ _ hget
          have hilt : i < childTotal n := hi
          have hW' : 4 * (nodes c + nodesL ((children n).drop (i + 1))) + restW r < f + 1 := by
            simpa [downW, hst, hdrop, nodesL_cons, hilt] using hW
          have hR : remDown w = content c ++ (contentL ((children n).drop (i + 1)) ++ remRest r) := by
            simp [remDown, hst, hdrop, List.append_assoc]
          have hst1 : w.popFail.stack = (n, i) :: r := by rw [popFail_stack, hst]
          have hfo : framesOk (w.popFail.extend c).stack := by
            simp only [Walker.extend, hst1]
            exact framesOk_cons.mpr ⟨Nat.zero_le _, framesOk_cons.mpr ⟨hfr.1, hfr.2⟩⟩
          rw [hR]
          by_cases hff : w.fetchFails = true
          · -- FetchChild failed: `down` returns the error, the walker has not moved
            rw [if_pos hff]
            refine ⟨by simp, by rw [popFail_stack, hst]; exact framesOk_cons.mpr hfr, popFail_root w, [], Trans.refl v, ?_,
              (fun h => by cases h), (fun h => by cases h)⟩
            simp only [hcur, Option.getD_none, List.nil_append, remDown, hst1, hdrop, contentL_cons, List.append_assoc]
          rw [if_neg hff]
          by_cases hint : childTotal c > 0
          · have hv : readVisit v c = (v, false) := by simp [readVisit, hint]
            rw [hv]
            simp only [Bool.false_eq_true, if_false]
            have := ih true (w.popFail.extend c) v hcur hfo
              (by
                intro _
                simp only [downW, Walker.extend, hst1, restW, List.drop_zero, hint, if_true]
                have := nodes_eq c; omega)
              (by intro h; cases h)
            simp only [if_true] at this
            have hrem : remDown (w.popFail.extend c) = content c ++ (contentL ((children n).drop (i + 1)) ++ remRest r) := by
              simp [remDown, Walker.extend, hst1, remRest, content_of_children _ hint]
            rw [hrem] at this
            have := IterOk.prepend (w := w) (Trans.refl v) (fun h => h) (by simp [Walker.extend, popFail_root]) this
            rw [List.nil_append] at this
            exact this
          · have hv : readVisit v c = (consume v (leafData c), (consume v (leafData c)).need == some 0) := by
              simp [readVisit, hint]
            rw [hv]
            obtain ⟨X, hT, hX, hc⟩ := consume_spec v (leafData c)
            have hrem : remDown (w.popFail.extend c) = contentL ((children n).drop (i + 1)) ++ remRest r := by
              have : children c = [] := by
                cases hc' : children c with
                | nil => rfl
                | cons _ _ => simp [childTotal, hc'] at hint
              simp [remDown, Walker.extend, hst1, remRest, this]
            by_cases hp : (consume v (leafData c)).need = some 0
            · simp only [hp, beq_self_eq_true, if_true]
              refine ⟨by simp, hfo, by simp [Walker.extend, popFail_root], X, hT, ?_, (fun _ => hp), (fun h => by cases h)⟩
              simp only [hrem]
              rw [← List.append_assoc, hX, content_of_leaf _ hint, List.append_assoc]
            · have hp' : ((consume v (leafData c)).need == some 0) = false := by simpa using hp
              simp only [hp', Bool.false_eq_true, if_false]
              have hcn := hc hp
              have := ih true (w.popFail.extend c) (consume v (leafData c)) hcn hfo
                (by
                  intro _
                  simp only [downW, Walker.extend, hst1, restW, List.drop_zero, nodesL_of_leaf _ hint]
                  have := nodes_eq c
                  have := nodesL_of_leaf _ hint
                  split <;> omega)
                (by intro h; cases h)
              simp only [if_true, hrem] at this
              have := IterOk.prepend (w := w) hT (fun _ => hp) (by simp [Walker.extend, popFail_root]) this
              rw [hcn] at hX
              simp only [Option.getD_none, List.append_nil] at hX
              rw [content_of_leaf _ hint]
              rw [hX] at this
              exact this
    | false =>
      obtain ⟨hne, hW⟩ := h2 rfl
      simp only [iterate, Bool.false_eq_true, if_false]
      cases hst : w.stack with
      | nil => exact absurd hst hne
      | cons top r =>
        obtain ⟨n, i⟩ := top
        have hfr := framesOk_cons.mp (hst ▸ hok)
        simp only at hfr
        have hW' : 4 * nodesL ((children n).drop (i + 1)) + 1 + restW r < f + 1 := by simpa [hst, restW] using hW
        by_cases hlt : i + 1 < childTotal n
        · -- NextChild succeeds: first loop again
          have hnc : w.nextChild = ({ w with stack := (n, i + 1) :: r }, true) := by
            have h1 : i + 1 ≤ childTotal n := by omega
            have h2 : (i + 1 != childTotal n) = true := by simp; omega
            simp [Walker.nextChild, hst, h1, h2]
          rw [hnc]
          simp only [if_true]
          have := ih true { w with stack := (n, i + 1) :: r } v hcur
            (framesOk_cons.mpr ⟨by simp only; omega, hfr.2⟩)
            (by intro _; simp only [downW, hlt, if_true]; omega)
            (by intro h; cases h)
          simp only [if_true] at this
          have hrem : remDown { w with stack := (n, i + 1) :: r } = remRest ((n, i) :: r) := by
            simp [remDown, remRest]
          rw [hrem] at this
          obtain ⟨a, b, c, d⟩ := this
          exact ⟨a, b, c, d⟩
        · -- no more children here: up, or the end of the DAG
          have hdrop1 : (children n).drop (i + 1) = [] := List.drop_eq_nil_iff.mpr (by simp only [childTotal] at hlt; omega)
          have hnc : w.nextChild = ({ w with stack := (n, childTotal n) :: r }, false) := by
            by_cases h1 : i + 1 ≤ childTotal n
            · have : i + 1 = childTotal n := by omega
              simp [Walker.nextChild, hst, h1, this]
            · have : i = childTotal n := by omega
              simp [Walker.nextChild, hst, this]
          rw [hnc]
          simp only [Bool.false_eq_true, if_false]
          have hR : remRest ((n, i) :: r) = remRest r := by simp [remRest, hdrop1]
          rw [hR]
          cases r with
          | nil =>
            simp only [Walker.up]
            refine ⟨by simp, framesOk_cons.mpr ⟨by simp, by simp [framesOk]⟩, rfl, [], Trans.refl v, ?_,
              (fun h => by cases h), fun _ => ⟨hcur, ?_, fun h => h⟩⟩
            · simp [remDown, remRest, hcur, childTotal]
            · simp [remDown, remRest, childTotal]
          | cons p r' =>
            simp only [Walker.up]
            have := ih false { w with stack := p :: r' } v hcur hfr.2 (by intro h; cases h)
              (by
                intro _
                refine ⟨by simp, ?_⟩
                simp only [hdrop1, nodesL] at hW'
                simp only; omega)
            simp only [Bool.false_eq_true, if_false] at this
            obtain ⟨a, b, c, d⟩ := this
            exact ⟨a, b, c, d⟩


/-! ### Walker.Seek with the seek visitor -/

theorem height_child_lt (t : FNode) (c : FNode × Nat) (h : c ∈ children t) : height c.1 < height t := by
  cases t with
  | leaf d => simp [children] at h
  | node fs cs =>
    simp only [children] at h
    simp only [height]
    have : ∀ (l : List (FNode × Nat)), c ∈ l → height c.1 ≤ heightL l := by
      intro l
      induction l with
      | nil => intro h; cases h
      | cons x xs ihx =>
        intro h
        simp only [heightL]
        rcases List.mem_cons.mp h with rfl | h
        · omega
        · have := ihx h; omega
    have := this cs h
    omega

theorem wellSized_child (t : FNode) (hws : wellSized t = true) :
    wellSizedL (children t) = true := by
  cases t with
  | leaf d => simp [children]
  | node fs cs => simp only [wellSized_node, Bool.and_eq_true] at hws; simpa [children] using hws.2

/-- drop past a well-sized child: `sz = |content c| ≤ left` -/
theorem drop_skip (c : FNode) (sz : Nat) (rest : List (FNode × Nat)) (left : Nat)
    (hsz : sz = (content c).length) (hle : sz ≤ left) :
    (contentL ((c, sz) :: rest)).drop left = (contentL rest).drop (left - sz) := by
  simp only [contentL_cons, List.drop_append]
  rw [List.drop_eq_nil_iff.mpr (by omega), ← hsz, List.nil_append]

/-- The `for` loop of the Seek visitor on an internal node `t` whose active index is `pre.length`. -/
theorem skip_spec (t : FNode) (below : List (FNode × Nat)) : ∀ (rest pre : List (FNode × Nat)) (left : Nat)
    (w : Walker), children t = pre ++ rest → w.stack = (t, pre.length) :: below → wellSizedL rest = true →
    (skipLoop rest w left).1.root = w.root ∧
    ((∃ pre2 c sz rest2, children t = pre2 ++ (c, sz) :: rest2 ∧
        (skipLoop rest w left).1.stack = (t, pre2.length) :: below ∧ (skipLoop rest w left).2 < sz ∧
        sz = (content c).length ∧ wellSized c = true ∧
        (contentL rest).drop left = (contentL ((c, sz) :: rest2)).drop (skipLoop rest w left).2) ∨
     ((skipLoop rest w left).1.stack = (t, childTotal t) :: below ∧ (contentL rest).drop left = [])) := by
  intro rest
  induction rest with
  | nil =>
    intro pre left w hch hst _
    refine ⟨rfl, Or.inr ⟨?_, by simp⟩⟩
    simp only [skipLoop, hst, childTotal, hch, List.append_nil]
  | cons x rest' ih =>
    intro pre left w hch hst hws
    obtain ⟨c, sz⟩ := x
    simp only [wellSizedL_cons, Bool.and_eq_true, beq_iff_eq] at hws
    obtain ⟨⟨hsz, hwc⟩, hwr⟩ := hws
    have hszc : sz = (content c).length := by rw [hsz, size_eq_of_wellSized c hwc]
    simp only [skipLoop]
    by_cases hgt : sz > left
    · rw [if_pos hgt]
      exact ⟨rfl, Or.inl ⟨pre, c, sz, rest', hch, hst, hgt, hszc, hwc, rfl⟩⟩
    · rw [if_neg hgt]
      have htot : childTotal t = pre.length + 1 + rest'.length := by
        simp [childTotal, hch]; omega
      have hnc : w.nextChild = ({ w with stack := (t, pre.length + 1) :: below }, pre.length + 1 != childTotal t) := by
        have h1 : pre.length + 1 ≤ childTotal t := by omega
        simp [Walker.nextChild, hst, h1]
      rw [hnc]
      simp only
      by_cases hok : (pre.length + 1 != childTotal t) = true
      · rw [if_pos hok]
        have := ih (pre ++ [(c, sz)]) (left - sz) { w with stack := (t, pre.length + 1) :: below }
          (by simp [hch]) (by simp) hwr
        obtain ⟨hr, hcase⟩ := this
        refine ⟨hr, ?_⟩
        rw [drop_skip c sz rest' left hszc (by omega)]
        exact hcase
      · rw [if_neg hok]
        have heq : pre.length + 1 = childTotal t := by simpa using hok
        have hre : rest' = [] := by
          cases rest' with
          | nil => rfl
          | cons _ _ => simp at htot; omega
        refine ⟨rfl, Or.inr ⟨by simp [heq], ?_⟩⟩
        rw [drop_skip c sz rest' left hszc (by omega), hre]
        simp

/-- outcome of `Walker.Seek` after stepping down into `t` with `left` bytes to skip: either some fetch failed, or
the walk is complete and what is left to read is `content t` from `left` on (then the rest of the file) -/
theorem seek_spec : ∀ (fuel : Nat) (t : FNode) (w : Walker) (left : Nat), wellSized t = true → height t < fuel →
    framesOk w.stack →
    let r := seekVisit (w.extend t) (left, none)
    let x := wseek seekVisit fuel r.1 r.2
    x.2.2 = .fetchErr ∨ (x.2.2 = .done ∧ x.1.root = w.root ∧ framesOk x.1.stack ∧
      (x.2.1.2.getD []) ++ remDown x.1 = (content t).drop left ++ remRest w.stack) := by
  intro fuel
  induction fuel with
  | zero => intro t w left _ h; omega
  | succ f ih =>
    intro t w left hws hh hok
    by_cases hint : childTotal t > 0
    · -- internal node: skip children, then go down (or stop: every child skipped)
      have hsv : seekVisit (w.extend t) (left, none) =
          ((skipLoop (children t) (w.extend t) left).1, ((skipLoop (children t) (w.extend t) left).2, none)) := by
        simp [seekVisit, Walker.extend, hint]
      simp only [hsv]
      obtain ⟨hroot, hcase⟩ := skip_spec t w.stack (children t) [] left (w.extend t) (by simp)
        (by simp [Walker.extend]) (wellSized_child t hws)
      rcases hcase with ⟨pre2, c, sz, rest2, hch, hst, hlt, hszc, hwc, hdrop⟩ | ⟨hst, hdrop⟩
      · -- child `c` contains the target
        have hget : (children t)[pre2.length]? = some (c, sz) := by simp [hch]
        have hfc : (skipLoop (children t) (w.extend t) left).1.fetchChild = some c := by
          simp [Walker.fetchChild, hst, hget]
        have hmem : (c, sz) ∈ children t := by rw [hch]; simp
        have hhc : height c < height t := height_child_lt t (c, sz) hmem
        have hfo : framesOk (skipLoop (children t) (w.extend t) left).1.stack := by
          rw [hst]
          refine framesOk_cons.mpr ⟨?_, hok⟩
          simp [childTotal, hch]
        simp only [wseek, hfc]
        by_cases hff : (skipLoop (children t) (w.extend t) left).1.fetchFails = true
        · rw [if_pos hff]; exact Or.inl rfl
        · rw [if_neg hff]
          have := ih c (skipLoop (children t) (w.extend t) left).1.popFail (skipLoop (children t) (w.extend t) left).2
            hwc (by omega) (by rw [popFail_stack]; exact hfo)
          simp only at this
          rcases this with h | ⟨a, b, c', d⟩
          · exact Or.inl h
          · refine Or.inr ⟨a, by rw [b, popFail_root, hroot]; rfl, c', ?_⟩
            rw [d, popFail_stack, hst]
            simp only [remRest]
            have hd2 : (children t).drop (pre2.length + 1) = rest2 := by
              rw [hch]; simp
            have hle : (skipLoop (children t) (w.extend t) left).2 ≤ (content (c, sz).1).length := by
              show _ ≤ (content c).length
              omega
            rw [hd2, content_of_children t hint, hdrop, contentL_cons, List.drop_append_of_le_length hle,
              List.append_assoc]
      · -- past the last child: the Seek stops here
        have hfc : (skipLoop (children t) (w.extend t) left).1.fetchChild = none := by
          simp [Walker.fetchChild, hst, childTotal]
        simp only [wseek, hfc]
        refine Or.inr ⟨trivial, by rw [hroot]; rfl, ?_, ?_⟩
        · rw [hst]; exact framesOk_cons.mpr ⟨Nat.le_refl _, hok⟩
        · simp only [Option.getD_none, List.nil_append, remDown, hst]
          rw [content_of_children t hint, hdrop]
          simp [childTotal]
    · -- leaf: save its data and seek inside
      have hch : children t = [] := by
        cases hc' : children t with
        | nil => rfl
        | cons _ _ => simp [childTotal, hc'] at hint
      have hsv : seekVisit (w.extend t) (left, none) = (w.extend t, (left, some ((leafData t).drop left))) := by
        simp [seekVisit, Walker.extend, hint]
      simp only [hsv]
      have hfc : (w.extend t).fetchChild = none := by simp [Walker.fetchChild, Walker.extend, hch]
      simp only [wseek, hfc]
      refine Or.inr ⟨trivial, rfl, ?_, ?_⟩
      · simp only [Walker.extend]; exact framesOk_cons.mpr ⟨Nat.zero_le _, hok⟩
      · simp [remDown, Walker.extend, hch, content_of_leaf t hint]

/-! ### without fetch failures nothing fails -/

theorem nextChild_fails (w : Walker) : w.nextChild.1.fails = w.fails := by
  unfold Walker.nextChild; split <;> rfl

theorem up_fails (w w' : Walker) (h : w.up = some w') : w'.fails = w.fails := by
  unfold Walker.up at h; split at h <;> cases h; rfl

theorem iterate_nofail {V : Type} (visit : V → FNode → V × Bool) : ∀ (fuel : Nat) (mode : Bool) (w : Walker) (v : V),
    w.fails = [] → (iterate visit fuel mode w v).2.2 ≠ .fetchErr ∧ (iterate visit fuel mode w v).1.fails = [] := by
  intro fuel
  induction fuel with
  | zero => intro mode w v hf; exact ⟨by simp [iterate], by simpa [iterate] using hf⟩
  | succ f ih =>
    intro mode w v hf
    have hff : w.fetchFails = false := by simp [Walker.fetchFails, hf]
    have hpf : w.popFail.fails = [] := by unfold Walker.popFail; split <;> simp [hf]
    cases mode with
    | true =>
      simp only [iterate]
      cases w.fetchChild with
      | none => exact ih false w v hf
      | some c =>
        simp only [hff, Bool.false_eq_true, if_false]
        split
        · exact ⟨by simp, by simpa [Walker.extend] using hpf⟩
        · exact ih true _ _ (by simpa [Walker.extend] using hpf)
    | false =>
      simp only [iterate]
      have hn := nextChild_fails w
      split
      · exact ih true _ _ (by rw [hn, hf])
      · cases hu : w.nextChild.1.up with
        | none => exact ⟨by simp, by simp only; rw [hn, hf]⟩
        | some w' => exact ih false _ _ (by rw [up_fails _ _ hu, hn, hf])

theorem skipLoop_fails : ∀ (cs : List (FNode × Nat)) (w : Walker) (left : Nat), (skipLoop cs w left).1.fails = w.fails := by
  intro cs
  induction cs with
  | nil => intro w left; rfl
  | cons x rest ih =>
    intro w left
    obtain ⟨c, sz⟩ := x
    simp only [skipLoop]
    split
    · rfl
    · split
      · rw [ih, nextChild_fails]
      · exact nextChild_fails w

theorem seekVisit_fails (w : Walker) (v : Nat × Option Bytes) : (seekVisit w v).1.fails = w.fails := by
  unfold seekVisit
  split
  · split
    · exact skipLoop_fails _ _ _
    · rfl
  · rfl

theorem wseek_nofail : ∀ (fuel : Nat) (w : Walker) (v : Nat × Option Bytes), w.fails = [] →
    (wseek seekVisit fuel w v).2.2 ≠ .fetchErr ∧ (wseek seekVisit fuel w v).1.fails = [] := by
  intro fuel
  induction fuel with
  | zero => intro w v hf; exact ⟨by simp [wseek], by simpa [wseek] using hf⟩
  | succ f ih =>
    intro w v hf
    have hff : w.fetchFails = false := by simp [Walker.fetchFails, hf]
    have hpf : w.popFail.fails = [] := by unfold Walker.popFail; split <;> simp [hf]
    simp only [wseek]
    cases w.fetchChild with
    | none => exact ⟨by simp, hf⟩
    | some c =>
      simp only [hff, Bool.false_eq_true, if_false]
      exact ih _ _ (by rw [seekVisit_fails]; simpa [Walker.extend] using hpf)

/-! ### the reader refines the byte-slice reader -/

/-- representation invariant: the reader over `root` stands at position `pos` -/
def Inv (root : FNode) (r : Reader) (pos : Nat) : Prop :=
  r.w.root = root ∧ r.size = size root ∧ framesOk r.w.stack ∧ r.offset = pos ∧
  (r.cur.getD []) ++ remDown r.w = (content root).drop pos

theorem prefix_eq_take {α : Type} {X Y R : List α} (h : X ++ Y = R) : X = R.take X.length ∧ Y = R.drop X.length := by
  subst h; simp

theorem inv_new (root : FNode) : Inv root (newReader root) 0 := by
  simp [Inv, newReader, framesOk, remDown]

/-- everything `readGen` does, in terms of the bytes `R` that are left -/
theorem readGen_spec (root : FNode) (r : Reader) (pos : Nat) (need : Option Nat) (h : Inv root r pos) :
    ∃ B, (r.readGen need).2.1 = B ∧ Inv root (r.readGen need).1 (pos + B.length) ∧
      (((r.readGen need).2.2 = .err ∧ B = ((content root).drop pos).take B.length ∧
          (∀ k, need = some k → B.length ≤ k)) ∨
       (match need with
        | some k => B = ((content root).drop pos).take k ∧
          ((r.readGen need).2.2 = .nil ∨ (r.readGen need).2.2 = .eof) ∧
          ((r.readGen need).2.2 = .eof → B = (content root).drop pos ∧ (0 < k → B.length < k)) ∧
          ((r.readGen need).2.2 = .nil → 0 < k → B.length = k)
        | none => B = (content root).drop pos ∧ (r.readGen need).2.2 = .nil)) ∧
      (r.w.fails = [] → (r.readGen need).2.2 ≠ .err ∧ (r.readGen need).1.w.fails = []) := by
  obtain ⟨hroot, hsize, hfo, hoff, hrem⟩ := h
  -- the buffered part
  have hv1 : ∃ X0 v1, r.drainCur need = v1 ∧
      Trans { need := need } v1 X0 ∧ X0 ++ (v1.cur.getD []) = r.cur.getD [] ∧
      (v1.need ≠ some 0 → v1.cur = none) ∧ (r.cur = none → v1 = { need := need }) := by
    cases hc : r.cur with
    | none => exact ⟨[], _, by simp [Reader.drainCur, hc], Trans.refl _, by simp, fun _ => rfl, fun _ => rfl⟩
    | some d =>
      obtain ⟨X, hT, hX, hn⟩ := consume_spec { need := need } d
      exact ⟨X, _, by simp only [Reader.drainCur, hc], hT, by simpa using hX, hn, fun h => by cases h⟩
  obtain ⟨X0, v1, hv1e, hT0, hX0, hcn, hnone⟩ := hv1
  simp only [Reader.readGen]
  rw [hv1e]
  have hT0' := hT0
  obtain ⟨hout0, hneed0⟩ := hT0
  simp only [List.reverse_nil, List.nil_append] at hout0
  by_cases hearly : r.cur.isSome = true ∧ v1.need = some 0
  · -- output buffer filled from the current leaf
    rw [if_pos hearly]
    have hB : v1.outRev.reverse = X0 := hout0
    have hlen : v1.outRev.length = X0.length := by rw [← hB]; simp
    have hsplit := prefix_eq_take (X := X0) (Y := v1.cur.getD [] ++ remDown r.w)
      (R := (content root).drop pos) (by rw [← hrem, ← hX0, List.append_assoc])
    refine ⟨X0, hB, ⟨hroot, hsize, hfo, by simp [hoff, hlen], ?_⟩, Or.inr ?_, fun hf => ⟨by simp, hf⟩⟩
    · show v1.cur.getD [] ++ remDown r.w = _
      rw [hsplit.2, List.drop_drop]
    · cases hn : need with
      | none => rw [hn] at hneed0; simp only at hneed0; rw [hneed0] at hearly; cases hearly.2
      | some k =>
        rw [hn] at hneed0; simp only at hneed0
        have hk : k - X0.length = 0 := by
          have := hearly.2; rw [hneed0.2] at this; simpa using this
        have hxk : X0.length = k := by omega
        simp only
        refine ⟨by rw [← hxk]; exact hsplit.1, by simp, (fun h => by cases h), fun _ _ => hxk⟩
  · rw [if_neg hearly]
    have hcur1 : v1.cur = none := by
      by_cases hs : r.cur.isSome = true
      · exact hcn (fun h0 => hearly ⟨hs, h0⟩)
      · have : r.cur = none := by
          cases hc : r.cur with
          | none => rfl
          | some _ => rw [hc] at hs; simp at hs
        rw [hnone this]
    have hX0' : X0 = r.cur.getD [] := by rw [← hX0, hcur1]; simp
    have hit := iterate_ok (downW r.w + 1) true r.w v1 hcur1 hfo (fun _ => Nat.lt_succ_self _) (by intro h; cases h)
    simp only [if_true] at hit
    obtain ⟨hfuel, hfo', hroot', X, hT, hR, hp, he⟩ := hit
    have hTall := hT0'.trans hT
    obtain ⟨houtA, hneedA⟩ := hTall
    simp only [List.reverse_nil, List.nil_append] at houtA
    have hsplit := prefix_eq_take (X := X0 ++ X)
      (Y := (iterate readVisit (downW r.w + 1) true r.w v1).2.1.cur.getD [] ++
        remDown (iterate readVisit (downW r.w + 1) true r.w v1).1)
      (R := (content root).drop pos) (by rw [← hrem, ← hR, hX0']; simp [List.append_assoc])
    refine ⟨X0 ++ X, houtA, ⟨by simp [hroot', hroot], hsize, hfo', by simp [hoff, houtA], ?_⟩, ?_, ?_⟩
    · show _ ++ remDown _ = _
      rw [hsplit.2, List.drop_drop]
    · cases hres : (iterate readVisit (downW r.w + 1) true r.w v1).2.2 with
      | outOfFuel => exact absurd hres hfuel
      | fetchErr =>
        refine Or.inl ⟨rfl, hsplit.1, fun k hn => ?_⟩
        rw [hn] at hneedA; exact hneedA.1
      | paused =>
        refine Or.inr ?_
        have hn0 := hp hres
        cases hn : need with
        | none => rw [hn] at hneedA; simp only at hneedA; rw [hneedA] at hn0; cases hn0
        | some k =>
          rw [hn] at hneedA; simp only at hneedA
          have hxk : (X0 ++ X).length = k := by
            have := hneedA.2; rw [hn0] at this
            have h2 := hneedA.1
            have : k - (X0 ++ X).length = 0 := by simpa using this.symm
            omega
          simp only
          refine ⟨by rw [← hxk]; exact hsplit.1, by simp, (fun h => by cases h), fun _ _ => hxk⟩
      | endOfDag =>
        refine Or.inr ?_
        obtain ⟨hc', hr', hnz⟩ := he hres
        have hall : X0 ++ X = (content root).drop pos := by
          rw [← hrem, ← hR, hX0', hc', hr']; simp
        cases hn : need with
        | none => simp only [Option.isSome_none, Bool.false_eq_true, if_false]; exact ⟨hall, trivial⟩
        | some k =>
          rw [hn] at hneedA; simp only at hneedA
          simp only [Option.isSome_some, if_true]
          refine ⟨?_, by simp, fun _ => ⟨hall, fun hk => ?_⟩, (fun h => by cases h)⟩
          · rw [← hall, List.take_of_length_le hneedA.1]
          · -- the output buffer was not filled: otherwise the walk would have paused
            have h0 : ({ need := need } : RV).need ≠ some 0 := by simp [hn]; omega
            have h1 : v1.need ≠ some 0 := by
              by_cases hs : r.cur.isSome = true
              · exact fun h0' => hearly ⟨hs, h0'⟩
              · have : r.cur = none := by
                  cases hc : r.cur with
                  | none => rfl
                  | some _ => rw [hc] at hs; simp at hs
                rw [hnone this]; exact h0
            have := hnz h1
            rw [hneedA.2] at this
            have h2 := hneedA.1
            by_cases hlt : (X0 ++ X).length < k
            · exact hlt
            · exact absurd (by congr 1; omega) this
    · intro hf
      obtain ⟨hne, hfl⟩ := iterate_nofail readVisit (downW r.w + 1) true r.w v1 hf
      refine ⟨?_, hfl⟩
      cases hres : (iterate readVisit (downW r.w + 1) true r.w v1).2.2 with
      | outOfFuel => exact absurd hres hfuel
      | fetchErr => exact absurd hres hne
      | paused => simp
      | endOfDag => cases need <;> simp

theorem seekTo_bytes (s : Spec) (t : Int) : (Spec.seekTo s t).2.bytes = [] := by
  unfold Spec.seekTo; split <;> rfl

theorem out_eq (a : Int × Err) (so : Out) (hb : so.bytes = []) (h : a = (so.off, so.err)) :
    ({ bytes := [], off := a.1, err := a.2 } : Out) = so := by
  cases so; cases a; simp_all

/-- `Seek(t, SeekStart)`: as the byte-slice reader, or — only when a fetch failed — error and back at the start -/
theorem seekStart_spec (root : FNode) (hws : wellSized root = true) (r : Reader) (pos : Nat)
    (h : Inv root r pos) (t : Int) :
    ((((r.seekStart t).2 = ((Spec.seekTo ⟨content root, pos⟩ t).2.off, (Spec.seekTo ⟨content root, pos⟩ t).2.err) ∧
        Inv root (r.seekStart t).1 (Spec.seekTo ⟨content root, pos⟩ t).1.pos)) ∨
     ((r.seekStart t).2 = (0, .err) ∧ Inv root (r.seekStart t).1 0)) ∧
    (r.w.fails = [] →
      ((r.seekStart t).2 = ((Spec.seekTo ⟨content root, pos⟩ t).2.off, (Spec.seekTo ⟨content root, pos⟩ t).2.err) ∧
        Inv root (r.seekStart t).1 (Spec.seekTo ⟨content root, pos⟩ t).1.pos) ∧ (r.seekStart t).1.w.fails = []) := by
  obtain ⟨hroot, hsize, hfo, hoff, hrem⟩ := h
  simp only [Reader.seekStart, Spec.seekTo]
  by_cases hneg : t < 0
  · simp only [hneg, if_true, hoff]
    have hA : True ∧ Inv root r pos := ⟨trivial, hroot, hsize, hfo, hoff, hrem⟩
    exact ⟨Or.inl hA, fun hf => ⟨hA, hf⟩⟩
  · simp only [hneg, if_false]
    by_cases hsame : t = (r.offset : Int)
    · rw [if_pos hsame]
      have : t.toNat = pos := by omega
      have hA : (r, t, Err.nil).2 = (t, Err.nil) ∧ Inv root r t.toNat :=
        ⟨rfl, hroot, hsize, hfo, by rw [this]; exact hoff, by rw [this]; exact hrem⟩
      exact ⟨Or.inl hA, fun hf => ⟨hA, hf⟩⟩
    · rw [if_neg hsame]
      by_cases hzero : t = 0
      · rw [if_pos hzero]
        subst hzero
        have hA : (({ r with cur := none, offset := 0, w := { root := r.w.root, fails := r.w.fails } } : Reader), (0 : Int), Err.nil).2 = ((0 : Int), Err.nil) ∧
            Inv root ({ r with cur := none, offset := 0, w := { root := r.w.root, fails := r.w.fails } } : Reader) (0 : Int).toNat := by
          refine ⟨rfl, hroot, hsize, by simp [framesOk], rfl, ?_⟩
          simp [remDown, hroot]
        exact ⟨Or.inl hA, fun hf => ⟨hA, hf⟩⟩
      · rw [if_neg hzero]
        -- the first `down` of Walker.Seek steps to the root (which is in memory)
        have hsk := seek_spec (height r.w.root + 1) r.w.root { root := r.w.root, fails := r.w.fails } t.toNat (hroot ▸ hws)
          (Nat.lt_succ_self _) (by simp [framesOk])
        have hw : wseek seekVisit (height r.w.root + 2) { root := r.w.root, fails := r.w.fails } (t.toNat, none) =
            wseek seekVisit (height r.w.root + 1)
              (seekVisit (({ root := r.w.root, fails := r.w.fails } : Walker).extend r.w.root) (t.toNat, none)).1
              (seekVisit (({ root := r.w.root, fails := r.w.fails } : Walker).extend r.w.root) (t.toNat, none)).2 := by
          simp [wseek, Walker.fetchChild, Walker.fetchFails, Walker.popFail]
        have hnf := wseek_nofail (height r.w.root + 2) { root := r.w.root, fails := r.w.fails } (t.toNat, none)
        rw [hw] at hnf ⊢
        dsimp only at hsk
        generalize wseek seekVisit (height r.w.root + 1)
              (seekVisit (({ root := r.w.root, fails := r.w.fails } : Walker).extend r.w.root) (t.toNat, none)).1
              (seekVisit (({ root := r.w.root, fails := r.w.fails } : Walker).extend r.w.root) (t.toNat, none)).2 = W
          at hsk hnf ⊢
        cases hres : W.2.2 with
        | done =>
          rcases hsk with hx | ⟨_, hr, hf, hc⟩
          · rw [hres] at hx; cases hx
          · have hA : ((t, Err.nil) : Int × Err) = (t, Err.nil) ∧
                Inv root ({ w := W.1, cur := W.2.1.2, size := r.size, offset := t.toNat } : Reader) t.toNat :=
              ⟨rfl, by show W.1.root = root; rw [hr]; exact hroot, hsize, hf, rfl,
                by show W.2.1.2.getD [] ++ remDown W.1 = _; rw [hc, hroot]; simp [remRest]⟩
            exact ⟨Or.inl hA, fun hf0 => ⟨hA, (hnf hf0).2⟩⟩
        | outOfFuel =>
          rcases hsk with hx | ⟨hx, _⟩ <;> (rw [hres] at hx; cases hx)
        | fetchErr =>
          have hF : ((0, Err.err) : Int × Err) = (0, Err.err) ∧
              Inv root ({ w := { root := r.w.root, fails := W.1.fails }, cur := none, size := r.size, offset := 0 } : Reader) 0 :=
            ⟨rfl, hroot, hsize, by simp [framesOk], rfl, by simp [remDown, hroot]⟩
          exact ⟨Or.inr hF, fun hf0 => absurd hres (hnf hf0).1⟩

theorem seek_step (root : FNode) (hws : wellSized root = true) (r : Reader) (pos : Nat)
    (h : Inv root r pos) (off : Int) (wh : Nat) :
    (((r.step (.seek off wh)).2 = (Spec.step ⟨content root, pos⟩ (.seek off wh)).2 ∧
        Inv root (r.step (.seek off wh)).1 (Spec.step ⟨content root, pos⟩ (.seek off wh)).1.pos) ∨
     ((r.step (.seek off wh)).2 = ⟨[], 0, .err⟩ ∧ Inv root (r.step (.seek off wh)).1 0)) ∧
    (r.w.fails = [] →
      ((r.step (.seek off wh)).2 = (Spec.step ⟨content root, pos⟩ (.seek off wh)).2 ∧
        Inv root (r.step (.seek off wh)).1 (Spec.step ⟨content root, pos⟩ (.seek off wh)).1.pos) ∧
      (r.step (.seek off wh)).1.w.fails = []) := by
  have hoff := h.2.2.2.1
  have hsize : r.size = (content root).length := by rw [h.2.1, size_eq_of_wellSized root hws]
  -- all three valid whence values reduce to seekStart with some target `t`
  have key : ∀ t : Int,
      ((({ bytes := [], off := (r.seekStart t).2.1, err := (r.seekStart t).2.2 } : Out) = (Spec.seekTo ⟨content root, pos⟩ t).2 ∧
          Inv root (r.seekStart t).1 (Spec.seekTo ⟨content root, pos⟩ t).1.pos) ∨
        (({ bytes := [], off := (r.seekStart t).2.1, err := (r.seekStart t).2.2 } : Out) = ⟨[], 0, .err⟩ ∧
          Inv root (r.seekStart t).1 0)) ∧
      (r.w.fails = [] →
        (({ bytes := [], off := (r.seekStart t).2.1, err := (r.seekStart t).2.2 } : Out) = (Spec.seekTo ⟨content root, pos⟩ t).2 ∧
          Inv root (r.seekStart t).1 (Spec.seekTo ⟨content root, pos⟩ t).1.pos) ∧ (r.seekStart t).1.w.fails = []) := by
    intro t
    obtain ⟨hAF, hNF⟩ := seekStart_spec root hws r pos h t
    refine ⟨?_, fun hf => ?_⟩
    · rcases hAF with ⟨h1, h2⟩ | ⟨h1, h2⟩
      · exact Or.inl ⟨out_eq _ _ (seekTo_bytes _ _) h1, h2⟩
      · exact Or.inr ⟨by rw [h1], h2⟩
    · obtain ⟨⟨h1, h2⟩, h3⟩ := hNF hf
      exact ⟨⟨out_eq _ _ (seekTo_bytes _ _) h1, h2⟩, h3⟩
  match wh with
  | 0 => simpa only [Reader.step, Reader.seek, Spec.step] using key off
  | 1 =>
    simp only [Reader.step, Reader.seek, Spec.step]
    by_cases h0 : off = 0
    · subst h0
      simp only [if_true, Spec.seekTo]
      have : ¬ ((pos : Int) < 0) := by omega
      simp only [this, if_false, hoff, Int.toNat_natCast]
      exact ⟨Or.inl ⟨trivial, h⟩, fun hf => ⟨⟨trivial, h⟩, hf⟩⟩
    · simp only [h0, if_false]
      have := key (wrap64 (r.offset + off))
      rw [hoff] at this ⊢
      exact this
  | 2 =>
    simp only [Reader.step, Reader.seek, Spec.step]
    have := key (wrap64 (r.size + off))
    rw [hsize] at this ⊢
    exact this
  | n + 3 =>
    simp only [Reader.step, Reader.seek, Spec.step]
    exact ⟨Or.inl ⟨trivial, h⟩, fun hf => ⟨⟨trivial, h⟩, hf⟩⟩

/-- one operation: it agrees with the byte-slice reader, or (only if a fetch failed during the call) it is a
`faulty` outcome; either way the representation invariant holds afterwards -/
theorem step_okF (root : FNode) (r : Reader) (pos : Nat) (h : Inv root r pos)
    (op : Op) (hws : op.isSeek = true → wellSized root = true) :
    ((agrees op pos (content root).length (r.step op).2 (Spec.step ⟨content root, pos⟩ op).2 ∧
        Inv root (r.step op).1 (Spec.step ⟨content root, pos⟩ op).1.pos) ∨
     (∃ s', faulty op ⟨content root, pos⟩ (r.step op).2 s' ∧ s'.content = content root ∧
        Inv root (r.step op).1 s'.pos)) ∧
    (r.w.fails = [] →
      (agrees op pos (content root).length (r.step op).2 (Spec.step ⟨content root, pos⟩ op).2 ∧
        Inv root (r.step op).1 (Spec.step ⟨content root, pos⟩ op).1.pos) ∧ (r.step op).1.w.fails = []) := by
  cases op with
  | seek off wh =>
    obtain ⟨hAF, hNF⟩ := seek_step root (hws rfl) r pos h off wh
    refine ⟨?_, fun hf => ?_⟩
    · rcases hAF with ⟨h1, h2⟩ | ⟨h1, h2⟩
      · exact Or.inl ⟨Or.inl h1, h2⟩
      · exact Or.inr ⟨⟨content root, 0⟩, ⟨by rw [h1], by rw [h1]; exact ⟨rfl, rfl, rfl⟩⟩, rfl, h2⟩
    · obtain ⟨⟨h1, h2⟩, h3⟩ := hNF hf
      exact ⟨⟨Or.inl h1, h2⟩, h3⟩
  | writeTo =>
    obtain ⟨B, hB, hinv, hm, hnf⟩ := readGen_spec root r pos none h
    simp only [Reader.step, Reader.writeTo, Spec.step]
    have hgood : ∀ (hq : B = (content root).drop pos ∧ (r.readGen none).2.2 = .nil),
        agrees .writeTo pos (content root).length
          ⟨(r.readGen none).2.1, ((r.readGen none).2.1.length : Int), (r.readGen none).2.2⟩
          ⟨(content root).drop pos, (((content root).drop pos).length : Int), .nil⟩ ∧
        Inv root (r.readGen none).1 (pos + ((content root).drop pos).length) := by
      intro hq
      refine ⟨Or.inl ?_, ?_⟩
      · rw [hB, hq.2, hq.1]
      · rw [hq.1] at hinv; exact hinv
    refine ⟨?_, fun hf => ?_⟩
    · rcases hm with ⟨he, hpre, _⟩ | hq
      · refine Or.inr ⟨⟨content root, pos + B.length⟩, ⟨by rw [he], ?_⟩, rfl, hinv⟩
        simp only
        rw [hB]
        exact ⟨hpre, trivial, rfl⟩
      · exact Or.inl (hgood hq)
    · obtain ⟨hne, hfl⟩ := hnf hf
      rcases hm with ⟨he, _⟩ | hq
      · exact absurd he hne
      · exact ⟨hgood hq, hfl⟩
  | read k =>
    obtain ⟨B, hB, hinv, hm, hnf⟩ := readGen_spec root r pos (some k) h
    simp only [Reader.step, Reader.read, Spec.step]
    have hgood : ∀ (hq : B = ((content root).drop pos).take k ∧
          ((r.readGen (some k)).2.2 = .nil ∨ (r.readGen (some k)).2.2 = .eof) ∧
          ((r.readGen (some k)).2.2 = .eof → B = (content root).drop pos ∧ (0 < k → B.length < k)) ∧
          ((r.readGen (some k)).2.2 = .nil → 0 < k → B.length = k)),
        agrees (.read k) pos (content root).length
          ⟨(r.readGen (some k)).2.1, ((r.readGen (some k)).2.1.length : Int), (r.readGen (some k)).2.2⟩
          ⟨((content root).drop pos).take k, ((((content root).drop pos).take k).length : Int),
            if (((content root).drop pos).take k).length < k then .eof else .nil⟩ ∧
        Inv root (r.readGen (some k)).1 (pos + (((content root).drop pos).take k).length) := by
      intro hq
      obtain ⟨hBe, herr, heof, hnil⟩ := hq
      refine ⟨?_, ?_⟩
      · rw [hB]
        by_cases hk : 0 < k
        · left
          rcases herr with he | he
          · have := hnil he hk
            rw [he, ← hBe]
            simp [this]
          · have := (heof he).2 hk
            rw [he, ← hBe]
            simp [this]
        · have hk0 : k = 0 := by omega
          subst hk0
          rcases herr with he | he
          · left; rw [he, ← hBe]; simp
          · right
            refine ⟨.eof, rfl, ?_, Or.inr ⟨rfl, ?_⟩⟩
            · rw [he, ← hBe]
            · have h1 := (heof he).1
              rw [hBe] at h1
              simp only [List.take_zero] at h1
              have := congrArg List.length h1
              simp only [List.length_nil, List.length_drop] at this
              omega
      · rw [← hBe]; exact hinv
    refine ⟨?_, fun hf => ?_⟩
    · rcases hm with ⟨he, hpre, hle⟩ | hq
      · refine Or.inr ⟨⟨content root, pos + B.length⟩, ⟨by rw [he], ?_⟩, rfl, hinv⟩
        simp only
        rw [hB]
        exact ⟨hpre, hle k rfl, trivial, rfl⟩
      · exact Or.inl (hgood hq)
    · obtain ⟨hne, hfl⟩ := hnf hf
      rcases hm with ⟨he, _⟩ | hq
      · exact absurd he hne
      · exact ⟨hgood hq, hfl⟩

theorem seekTo_content (s : Spec) (t : Int) : (s.seekTo t).1.content = s.content := by
  unfold Spec.seekTo; split <;> rfl

theorem spec_content (s : Spec) (op : Op) : (s.step op).1.content = s.content := by
  cases op with
  | read k => rfl
  | writeTo => rfl
  | seek off wh =>
    match wh with
    | 0 => exact seekTo_content _ _
    | 1 => exact seekTo_content _ _
    | 2 => exact seekTo_content _ _
    | n + 3 => rfl

theorem spec_eta (s : Spec) (op : Op) : (s.step op).1 = ⟨s.content, (s.step op).1.pos⟩ := by
  have := spec_content s op
  cases hh : (s.step op).1 with
  | mk c p => rw [hh] at this; simp only at this; rw [this]

/-- every run of the reader, with ANY pattern of fetch failures, agrees with the byte-slice reader up to `faulty`
outcomes -/
theorem run_agreesF (root : FNode) : ∀ (ops : List Op) (r : Reader) (pos : Nat),
    (∀ op ∈ ops, op.isSeek = true → wellSized root = true) →
    Inv root r pos → Spec.runAgreesF ⟨content root, pos⟩ ops (r.run ops) := by
  intro ops
  induction ops with
  | nil => intro r pos _ _; simp [Reader.run, Spec.runAgreesF]
  | cons op ops ih =>
    intro r pos hws h
    have ih := fun r pos => ih r pos (fun o ho => hws o (List.mem_cons_of_mem _ ho))
    obtain ⟨hAF, _⟩ := step_okF root r pos h op (hws op (by simp))
    simp only [Reader.run, Spec.runAgreesF]
    rcases hAF with ⟨ha, hi⟩ | ⟨s', hf, hc, hi⟩
    · left
      refine ⟨ha, ?_⟩
      have := ih (r.step op).1 (Spec.step ⟨content root, pos⟩ op).1.pos hi
      rw [spec_eta]; exact this
    · right
      refine ⟨s', hf, ?_⟩
      have := ih (r.step op).1 s'.pos hi
      have hs : s' = ⟨content root, s'.pos⟩ := by cases s'; simp only at hc; rw [hc]
      rw [hs]; exact this

/-- every run of the reader without fetch failures agrees with the byte-slice reader -/
theorem run_agrees (root : FNode) : ∀ (ops : List Op) (r : Reader) (pos : Nat),
    (∀ op ∈ ops, op.isSeek = true → wellSized root = true) →
    Inv root r pos → r.w.fails = [] → Spec.runAgrees ⟨content root, pos⟩ ops (r.run ops) := by
  intro ops
  induction ops with
  | nil => intro r pos _ _ _; simp [Reader.run, Spec.runAgrees]
  | cons op ops ih =>
    intro r pos hws h hf
    have ih := fun r pos => ih r pos (fun o ho => hws o (List.mem_cons_of_mem _ ho))
    obtain ⟨_, hNF⟩ := step_okF root r pos h op (hws op (by simp))
    obtain ⟨⟨ha, hi⟩, hfl⟩ := hNF hf
    simp only [Reader.run, Spec.runAgrees]
    refine ⟨ha, ?_⟩
    have := ih (r.step op).1 (Spec.step ⟨content root, pos⟩ op).1.pos hi hfl
    rw [spec_eta]; exact this

/-- without zero-length reads, agreement is equality of the output lists -/
theorem runAgrees_eq : ∀ (ops : List Op) (s : Spec) (outs : List Out), (∀ op ∈ ops, op.isZeroRead = false) →
    Spec.runAgrees s ops outs → outs = Spec.run s ops := by
  intro ops
  induction ops with
  | nil =>
    intro s outs _ h
    cases outs with
    | nil => rfl
    | cons _ _ => simp [Spec.runAgrees] at h
  | cons op ops ih =>
    intro s outs hz h
    cases outs with
    | nil => simp [Spec.runAgrees] at h
    | cons o os =>
      simp only [Spec.runAgrees] at h
      obtain ⟨ha, hr⟩ := h
      have hop := hz op (by simp)
      have ho : o = (s.step op).2 := by
        rcases ha with h1 | ⟨e, h1, _⟩
        · exact h1
        · rw [h1] at hop; simp [Op.isZeroRead] at hop
      simp only [Spec.run]
      rw [ho, ih _ _ (fun op' h' => hz op' (by simp [h'])) hr]

/-- example tree for the non-vacuity checks in Props: depth 2, an empty leaf, a link-less internal node -/
def exTree : FNode :=
  .node 7 [(.node 3 [(.leaf [1, 2], 2), (.leaf [], 0), (.leaf [3], 1)], 3), (.node 0 [], 0),
           (.node 4 [(.leaf [4, 5, 6, 7], 4)], 4)]

end C09
