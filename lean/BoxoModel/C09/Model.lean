import BoxoModel.Lib.FileTree
/-
C09 — UnixFS file reader (`ipld/unixfs/io/dagreader.go`) over the `Walker` of go-ipld-format (`walker.go`).

State, field for field:
  Walker {path, childIndex, currentDepth}  ~ `Walker {root, stack}`: `stack` = the live entries
        `(path[d], childIndex[d])` for d = currentDepth … 0 (head = active node); `[]` ⇔ currentDepth = -1.
        (`pauseRequested` is set by the visitor and consumed by `visitActiveNode` in the same `down` call: it is the
        Bool returned by the visitor here.)
  dagReader {dagWalker, currentNodeData, size, offset, rootNode} ~ `Reader {w, cur, size, offset}`;
        `cur` = the unread rest `s[i:]` of the `bytes.Reader` (`some []` ≠ `none`: after `Seek` a fully consumed
        buffer stays non-nil until the next read).
The DAG is a `FileTree.FNode`; fetching a child is structural access (`FetchChild` cannot fail here).
`iterate` is `Walker.Iterate` (two nested loops = two modes), `wseek` is `Walker.Seek`, with fuel.
Core-only.
-/
namespace C09
open FileTree

abbrev Bytes := List UInt8

def children : FNode → List (FNode × Nat)
  | .leaf _ => []
  | .node _ cs => cs

/-- `ChildTotal()` = number of links -/
def childTotal (t : FNode) : Nat := (children t).length

/-- `unixfs.ReadUnixFSNodeData` of a node without links -/
def leafData : FNode → Bytes
  | .leaf d => d
  | .node _ _ => []

structure Walker where
  root : FNode
  stack : List (FNode × Nat) := []
  /-- fetch oracle: whether the next `FetchChild` calls (DAG service / context) fail; `[]` = all succeed -/
  fails : List Bool := []

/-- `fetchChild`: `none` = ErrDownNoChild -/
def Walker.fetchChild (w : Walker) : Option FNode :=
  match w.stack with
  | [] => some w.root
  | (n, i) :: _ => ((children n)[i]?).map (·.1)

/-- does the `FetchChild` of this `down` return an error? (the root is in memory: never) -/
def Walker.fetchFails (w : Walker) : Bool := !w.stack.isEmpty && w.fails.headD false

/-- consume one oracle entry for a real `FetchChild` call -/
def Walker.popFail (w : Walker) : Walker := if w.stack.isEmpty then w else { w with fails := w.fails.tail }

/-- `extendPath` -/
def Walker.extend (w : Walker) (c : FNode) : Walker := { w with stack := (c, 0) :: w.stack }

/-- `up`: `none` = errUpOnRoot -/
def Walker.up (w : Walker) : Option Walker :=
  match w.stack with
  | _ :: p :: r => some { w with stack := p :: r }
  | _ => none

/-- `NextChild`: (walker, err == nil) -/
def Walker.nextChild (w : Walker) : Walker × Bool :=
  match w.stack with
  | (n, i) :: r =>
    let i' := if i + 1 ≤ childTotal n then i + 1 else i          -- incrementActiveChildIndex
    ({ w with stack := (n, i') :: r }, i' != childTotal n)
  | [] => (w, false)                                              -- not reachable (Go would index path[-1])

inductive IterRes where
  | paused | endOfDag | outOfFuel
  | fetchErr      -- `down` returned the error of FetchChild (node not found, context cancelled, …)
  deriving DecidableEq, Repr

/-- `Walker.Iterate(visitor)`; `down = true` is the first inner loop (`down` until ErrDownNoChild), `false` the
second (`NextChild`, else `up`, else EndOfDag).  The visitor returns its new state and whether it called `Pause`. -/
def iterate {V : Type} (visit : V → FNode → V × Bool) : Nat → Bool → Walker → V → Walker × V × IterRes
  | 0, _, w, v => (w, v, .outOfFuel)
  | f + 1, true, w, v =>
    match w.fetchChild with
    | none => iterate visit f false w v
    | some c =>
      if w.fetchFails then (w.popFail, v, .fetchErr)        -- nothing moved: the path is extended after the fetch
      else
        let r := visit v c
        if r.2 then (w.popFail.extend c, r.1, .paused) else iterate visit f true (w.popFail.extend c) r.1
  | f + 1, false, w, v =>
    let x := w.nextChild
    if x.2 then iterate visit f true x.1 v
    else
      match x.1.up with
      | none => (x.1, v, .endOfDag)
      | some w' => iterate visit f false w' v

inductive SeekRes where
  | done | outOfFuel | fetchErr
  deriving DecidableEq, Repr

/-- `Walker.Seek(visitor)`: `down` until ErrDownNoChild; the visitor may move the active child index.
`outOfFuel` never happens (`seek_spec`). -/
def wseek {V : Type} (visit : Walker → V → Walker × V) : Nat → Walker → V → Walker × V × SeekRes
  | 0, w, v => (w, v, .outOfFuel)
  | f + 1, w, v =>
    match w.fetchChild with
    | none => (w, v, .done)
    | some c =>
      if w.fetchFails then (w.popFail, v, .fetchErr)
      else
        let r := visit (w.popFail.extend c) v
        wseek visit f r.1 r.2

/-! ### termination measures (used as fuel) -/

mutual
def nodes : FNode → Nat
  | .leaf _ => 1
  | .node _ cs => 1 + nodesL cs
def nodesL : List (FNode × Nat) → Nat
  | [] => 0
  | c :: r => nodes c.1 + nodesL r
end

/-- weight of the frames below the active one (and of all frames in the second loop) -/
def restW : List (FNode × Nat) → Nat
  | [] => 0
  | (n, i) :: r => 4 * nodesL ((children n).drop (i + 1)) + 1 + restW r

/-- weight of a walker about to run the first loop of `Iterate` -/
def downW (w : Walker) : Nat :=
  match w.stack with
  | [] => 4 * nodes w.root + 1
  | (n, i) :: r => 4 * nodesL ((children n).drop i) + (if i < childTotal n then 0 else 2) + restW r

/-! ### the reader -/

structure Reader where
  w : Walker
  cur : Option Bytes := none
  size : Nat
  offset : Nat := 0

def newReader (root : FNode) : Reader := { w := { root := root }, size := size root }

/-- a reader whose DAG service fails as the oracle says -/
def newReaderF (root : FNode) (fails : List Bool) : Reader := { w := { root := root, fails := fails }, size := size root }

/-- state of the visitor closure of CtxReadFull / WriteTo -/
structure RV where
  need : Option Nat         -- `len(out) - n`; `none` for WriteTo (no limit, never pauses)
  outRev : Bytes := []      -- bytes delivered so far, reversed
  cur : Option Bytes := none

/-- `readNodeDataBuffer` / `writeNodeDataBuffer` on a buffer holding `d` -/
def consume (v : RV) (d : Bytes) : RV :=
  let k := match v.need with
    | some k => min k d.length
    | none => d.length
  { need := v.need.map (· - k), outRev := (d.take k).reverse ++ v.outRev,
    cur := if k < d.length then some (d.drop k) else none }

/-- the visitor: internal nodes are skipped; a leaf is saved and read; `Pause` when the output is full -/
def readVisit (v : RV) (n : FNode) : RV × Bool :=
  if childTotal n > 0 then (v, false)
  else
    let v' := consume v (leafData n)
    (v', v'.need == some 0)

/-- error class returned to the caller -/
inductive Err where
  | nil | eof | err
  deriving DecidableEq, Repr

/-- `if dr.currentNodeData != nil { n = dr.readNodeDataBuffer(out) }` -/
def Reader.drainCur (r : Reader) (need : Option Nat) : RV :=
  match r.cur with
  | some d => consume { need := need } d
  | none => { need := need }

/-- shared body of CtxReadFull (`need = some len(out)`) and WriteTo (`need = none`) -/
def Reader.readGen (r : Reader) (need : Option Nat) : Reader × Bytes × Err :=
  let v1 := r.drainCur need
  if r.cur.isSome ∧ v1.need = some 0 then
    -- `if n == len(out) { return n, nil }` (only inside `if dr.currentNodeData != nil`)
    ({ r with cur := v1.cur, offset := r.offset + v1.outRev.length }, v1.outRev.reverse, .nil)
  else
    let x := iterate readVisit (downW r.w + 1) true r.w v1
    let out := x.2.1.outRev.reverse
    ({ r with w := x.1, cur := x.2.1.cur, offset := r.offset + out.length }, out,
      match x.2.2 with
      | .endOfDag => if need.isSome then .eof else .nil       -- WriteTo maps EndOfDag to nil
      | .paused => .nil
      | .outOfFuel => .err
      | .fetchErr => .err)

/-- `CtxReadFull(ctx, out)` / `Read(out)` with `len(out) = k` -/
def Reader.read (r : Reader) (k : Nat) : Reader × Bytes × Err := r.readGen (some k)

/-- `WriteTo(w)` (the writer never fails) -/
def Reader.writeTo (r : Reader) : Reader × Bytes × Err := r.readGen none

/-- the `for` loop of the Seek visitor on an internal node; `cs` = children from the active index on.
Returns the walker (active index moved by `NextChild`) and what is left to skip. -/
def skipLoop : List (FNode × Nat) → Walker → Nat → Walker × Nat
  | [], w, left => (w, left)
  | (_, sz) :: rest, w, left =>
    if sz > left then (w, left)                      -- this child contains the target: go down
    else
      let x := w.nextChild
      if x.2 then skipLoop rest x.1 (left - sz) else (x.1, left - sz)   -- ErrNextNoChild: the Seek stops on its own

/-- the Seek visitor; state = (left, currentNodeData) -/
def seekVisit (w : Walker) (v : Nat × Option Bytes) : Walker × (Nat × Option Bytes) :=
  match w.stack with
  | (n, i) :: _ =>
    if childTotal n > 0 then
      let x := skipLoop ((children n).drop i) w v.1
      (x.1, (x.2, v.2))
    else (w, (v.1, some ((leafData n).drop v.1)))    -- saveNodeData; currentNodeData.Seek(left, SeekStart)
  | [] => (w, v)

mutual
def height : FNode → Nat
  | .leaf _ => 0
  | .node _ cs => 1 + heightL cs
def heightL : List (FNode × Nat) → Nat
  | [] => 0
  | c :: r => max (height c.1) (heightL r)
end

/-- `Seek(offset, io.SeekStart)`; result = (reader, returned offset, error class) -/
def Reader.seekStart (r : Reader) (off : Int) : Reader × Int × Err :=
  if off < 0 then (r, r.offset, .err)
  else if off = r.offset then (r, off, .nil)
  else
    let r0 : Reader := { r with cur := none, offset := 0, w := { root := r.w.root, fails := r.w.fails } }   -- resetPosition
    if off = 0 then (r0, 0, .nil)
    else
      let x := wseek seekVisit (height r.w.root + 2) r0.w (off.toNat, none)
      match x.2.2 with
      | .done => ({ r0 with w := x.1, cur := x.2.1.2, offset := off.toNat }, off, .nil)
      -- AFTER the `fix:` commit: resetPosition() again before returning the error
      | _ => ({ r0 with w := { root := r.w.root, fails := x.1.fails } }, 0, .err)

/-- int64 addition as Go performs it (two's complement wrap-around) -/
def wrap64 (x : Int) : Int := (x + 2 ^ 63) % 2 ^ 64 - 2 ^ 63

/-- `Seek(offset, whence)`; `dr.offset+offset` and `int64(dr.Size())+offset` are int64 sums -/
def Reader.seek (r : Reader) (off : Int) (whence : Nat) : Reader × Int × Err :=
  match whence with
  | 0 => r.seekStart off
  | 1 => if off = 0 then (r, r.offset, .nil) else r.seekStart (wrap64 (r.offset + off))
  | 2 => r.seekStart (wrap64 (r.size + off))
  | _ => (r, 0, .err)

/-! ### operations, outputs, and the specification (a seekable in-memory byte reader) -/

inductive Op where
  | read (k : Nat)
  | seek (off : Int) (whence : Nat)
  | writeTo
  deriving Repr

structure Out where
  bytes : Bytes
  off : Int        -- Seek: returned offset; read/writeTo: n
  err : Err
  deriving DecidableEq, Repr

def Reader.step (r : Reader) : Op → Reader × Out
  | .read k => let x := r.read k; (x.1, { bytes := x.2.1, off := x.2.1.length, err := x.2.2 })
  | .seek off wh => let x := r.seek off wh; (x.1, { bytes := [], off := x.2.1, err := x.2.2 })
  | .writeTo => let x := r.writeTo; (x.1, { bytes := x.2.1, off := x.2.1.length, err := x.2.2 })

def Reader.run (r : Reader) : List Op → List Out
  | [] => []
  | op :: ops => let x := r.step op; x.2 :: Reader.run x.1 ops

/-- spec state: the file's bytes and the position -/
structure Spec where
  content : Bytes
  pos : Nat

def Spec.seekTo (s : Spec) (t : Int) : Spec × Out :=
  if t < 0 then (s, { bytes := [], off := s.pos, err := .err })
  else ({ s with pos := t.toNat }, { bytes := [], off := t, err := .nil })

def Spec.step (s : Spec) : Op → Spec × Out
  | .read k =>
    let b := (s.content.drop s.pos).take k
    ({ s with pos := s.pos + b.length }, { bytes := b, off := b.length, err := if b.length < k then .eof else .nil })
  | .seek off 0 => s.seekTo off
  | .seek off 1 => s.seekTo (if off = 0 then s.pos else wrap64 (s.pos + off))     -- int64 sums, as bytes.Reader.Seek
  | .seek off 2 => s.seekTo (wrap64 (s.content.length + off))
  | .seek _ _ => (s, { bytes := [], off := 0, err := .err })
  | .writeTo =>
    let b := s.content.drop s.pos
    ({ s with pos := s.pos + b.length }, { bytes := b, off := b.length, err := .nil })

def Spec.run (s : Spec) : List Op → List Out
  | [] => []
  | op :: ops => (s.step op).2 :: Spec.run (s.step op).1 ops

def Op.isSeek : Op → Bool
  | .seek _ _ => true
  | _ => false

def Op.isZeroRead : Op → Bool
  | .read 0 => true
  | _ => false

/-- What the implementation may answer where the spec answers `so` (at position `pos` of `len` bytes):
the same, except that a zero-length read may or may not signal EOF — never before the end
(io.Reader allows both; bytes.Reader says EOF exactly at the end). -/
def agrees (op : Op) (pos len : Nat) (mo so : Out) : Prop :=
  mo = so ∨ (∃ e, op = .read 0 ∧ mo = { so with err := e } ∧ (e = .nil ∨ (e = .eof ∧ len ≤ pos)))

/-- what a call may answer when a fetch failed during it: reads deliver a (possibly shorter) correct prefix and
advance by it; a failed seek leaves the reader at the start of the file -/
def faulty (op : Op) (s : Spec) (mo : Out) (s' : Spec) : Prop :=
  mo.err = .err ∧
  match op with
  | .read k => mo.bytes = (s.content.drop s.pos).take mo.bytes.length ∧ mo.bytes.length ≤ k ∧
      mo.off = mo.bytes.length ∧ s' = { s with pos := s.pos + mo.bytes.length }
  | .writeTo => mo.bytes = (s.content.drop s.pos).take mo.bytes.length ∧
      mo.off = mo.bytes.length ∧ s' = { s with pos := s.pos + mo.bytes.length }
  | .seek _ _ => mo.bytes = [] ∧ mo.off = 0 ∧ s' = { s with pos := 0 }

def Spec.runAgreesF (s : Spec) : List Op → List Out → Prop
  | [], [] => True
  | op :: ops, o :: os =>
    (agrees op s.pos s.content.length o (s.step op).2 ∧ Spec.runAgreesF (s.step op).1 ops os) ∨
    (∃ s', faulty op s o s' ∧ Spec.runAgreesF s' ops os)
  | _, _ => False

def Spec.runAgrees (s : Spec) : List Op → List Out → Prop
  | [], [] => True
  | op :: ops, o :: os => agrees op s.pos s.content.length o (s.step op).2 ∧ Spec.runAgrees (s.step op).1 ops os
  | _, _ => False

end C09
