import BoxoModel.C04.Lemmas
import BoxoModel.C05.Model
/-! Helper lemmas for C05 (trace predicates, the receive loop, getBlock / getBlocks). Core-only. -/
namespace C05
open C04

theorem lookup_append_single (l : List (Key × Data)) (k k' : Key) (d : Data) :
    List.lookup k' (l ++ [(k, d)]) = match List.lookup k' l with
      | some x => some x
      | none => if k' == k then some d else none := by
  induction l with
  | nil => simp [List.lookup]; split <;> simp_all
  | cons e r ih =>
    obtain ⟨a, b⟩ := e
    simp only [List.cons_append, List.lookup]
    split <;> simp_all

theorem has_put_self (st : Store) (k : Key) (d : Data) : (st.put k d).has k = true := by
  unfold Store.put
  by_cases h : st.has k = true
  · simp [h]
  · simp only [h, Bool.false_eq_true, if_false]
    simp only [Store.has] at h ⊢
    rw [lookup_append_single]
    cases hl : List.lookup k st <;> simp_all

theorem has_put_mono (st : Store) (k k' : Key) (d : Data) (h : st.has k' = true) : (st.put k d).has k' = true := by
  unfold Store.put
  split
  · exact h
  · simp only [Store.has] at h ⊢
    rw [lookup_append_single]
    cases hl : List.lookup k' st <;> simp_all

theorem get_put (st : Store) (k k' : Key) (d d' : Data) (h : (st.put k d).get k' = some d') :
    st.get k' = some d' ∨ (st.get k' = none ∧ k' = k ∧ d' = d) := by
  unfold Store.put at h
  split at h
  · exact Or.inl h
  · simp only [Store.get] at h ⊢
    rw [lookup_append_single] at h
    cases hl : List.lookup k' st with
    | some x => simp [hl] at h; simp [h]
    | none =>
      simp [hl] at h
      right; simp [h.1, h.2]

theorem cachedOk_split : ∀ (pre : List Ev) (st : Store) (b : Blk) (post : List Ev),
    cachedOk st (pre ++ .emit b :: post) = true → (replay st pre).has b.1.mh = true := by
  intro pre
  induction pre with
  | nil => intro st b post h; simp [cachedOk] at h; simpa [replay] using h.1
  | cons e r ih =>
    intro st b post h
    cases e with
    | put x => simp only [List.cons_append, cachedOk] at h; simpa [replay] using ih _ b post h
    | emit x => simp only [List.cons_append, cachedOk, Bool.and_eq_true] at h; simpa [replay] using ih _ b post h.2
    | reqOne x => simp only [List.cons_append, cachedOk] at h; simpa [replay] using ih _ b post h
    | reqMany x => simp only [List.cons_append, cachedOk] at h; simpa [replay] using ih _ b post h
    | notify x => simp only [List.cons_append, cachedOk] at h; simpa [replay] using ih _ b post h
    | putFail x => simp only [List.cons_append, cachedOk] at h; simpa [replay] using ih _ b post h


theorem cachedOk_append : ∀ (a : List Ev) (st : Store) (b : List Ev),
    cachedOk st (a ++ b) = (cachedOk st a && cachedOk (replay st a) b) := by
  intro a
  induction a with
  | nil => intro st b; simp [cachedOk, replay]
  | cons e r ih => intro st b; cases e <;> simp [cachedOk, replay, ih, Bool.and_assoc]

theorem reqOk_append : ∀ (a : List Ev) (st : Store) (b : List Ev),
    reqOk st (a ++ b) = (reqOk st a && reqOk (replay st a) b) := by
  intro a
  induction a with
  | nil => intro st b; simp [reqOk, replay]
  | cons e r ih => intro st b; cases e <;> simp [reqOk, replay, ih, Bool.and_assoc]

theorem replay_map_emit (st : Store) (bs : List Blk) : replay st (bs.map Ev.emit) = st := by
  induction bs with
  | nil => rfl
  | cons b r ih => simpa [replay] using ih

theorem emitted_append (a b : List Ev) : emitted (a ++ b) = emitted a ++ emitted b := by
  induction a with
  | nil => simp [emitted]
  | cons e r ih => cases e <;> simp [emitted, ih]

theorem emitted_map_emit (bs : List Blk) : emitted (bs.map Ev.emit) = bs := by
  induction bs with
  | nil => rfl
  | cons b r ih => simp [emitted, ih]

theorem get_some_has {st : Store} {k : Key} {d : Data} (h : st.get k = some d) : st.has k = true := by
  simp only [Store.has, Store.get] at *; simp [h]

theorem get_none_has {st : Store} {k : Key} (h : st.get k = none) : st.has k = false := by
  simp only [Store.has, Store.get] at *; simp [h]

/-! ### the receive loop -/

theorem fetchLoop_cached (fixed : Bool) (misses : List Cid) : ∀ (bs : List Blk) (st : Store) (nf pf : Option Nat),
    cachedOk st (fetchLoop fixed misses st nf pf bs).2 = true ∧ reqOk st (fetchLoop fixed misses st nf pf bs).2 = true ∧
    replay st (fetchLoop fixed misses st nf pf bs).2 = (fetchLoop fixed misses st nf pf bs).1 := by
  intro bs
  induction bs with
  | nil => intro st nf pf; simp [fetchLoop, cachedOk, reqOk, replay]
  | cons b r ih =>
    intro st nf pf
    unfold fetchLoop
    split
    · exact ih st nf pf
    · split
      · simp [cachedOk, reqOk, replay]
      · split
        · simp [cachedOk, reqOk, replay]
        · have := ih (st.put b.1.mh b.2) (nf.map (· - 1)) (pf.map (· - 1))
          simp [cachedOk, reqOk, replay, has_put_self, this]

theorem fetchLoop_emitted (fixed : Bool) (misses : List Cid) : ∀ (bs : List Blk) (st : Store) (nf pf : Option Nat),
    ∀ b ∈ emitted (fetchLoop fixed misses st nf pf bs).2, b ∈ bs ∧ (fixed = true → b.1 ∈ misses) := by
  intro bs
  induction bs with
  | nil => intro st nf pf b hb; simp [fetchLoop, emitted] at hb
  | cons x r ih =>
    intro st nf pf b hb
    unfold fetchLoop at hb
    split at hb
    · have := ih st nf pf b hb
      exact ⟨by simp [this.1], this.2⟩
    · rename_i hdrop
      have hx : fixed = true → x.1 ∈ misses := by
        intro hf; subst hf; simpa using hdrop
      split at hb
      · simp [emitted] at hb
      · split at hb
        · simp [emitted] at hb
        · simp [emitted] at hb
          rcases hb with hb | hb
          · subst hb; exact ⟨by simp, hx⟩
          · have := ih _ _ _ b hb
            exact ⟨by simp [this.1], this.2⟩

theorem storeH_put {H : Key → Data → Prop} {st : Store} {k : Key} {d : Data} (hs : storeH H st) (h : H k d) :
    storeH H (st.put k d) := by
  intro k' d' hg
  rcases get_put st k k' d d' hg with h' | ⟨_, rfl, rfl⟩
  · exact hs k' d' h'
  · exact h

theorem fetchLoop_storeH (H : Key → Data → Prop) (fixed : Bool) (misses : List Cid) :
    ∀ (bs : List Blk) (st : Store) (nf pf : Option Nat), storeH H st → (∀ b ∈ bs, H b.1.mh b.2) →
      storeH H (fetchLoop fixed misses st nf pf bs).1 := by
  intro bs
  induction bs with
  | nil => intro st nf pf hs _; simpa [fetchLoop] using hs
  | cons x r ih =>
    intro st nf pf hs hb
    have hr : ∀ b ∈ r, H b.1.mh b.2 := fun b hb' => hb b (by simp [hb'])
    have hput := storeH_put (k := x.1.mh) (d := x.2) hs (hb x (by simp))
    unfold fetchLoop
    split
    · exact ih st nf pf hs hr
    · split
      · exact hs
      · split
        · exact hput
        · exact ih _ _ _ hput hr

/-! ### getBlock / getBlocks -/

theorem getBlock_trace_none (cfg : Cfg) (st : Store) (c : Cid) (ans : Option Blk) (nOk : Bool) :
    cachedOk st (getBlock cfg st c ans nOk).2.2 = true ∧ reqOk st (getBlock cfg st c ans nOk).2.2 = true := by
  unfold getBlock
  cases hv : validate cfg.al c.code c.len <;> simp [cachedOk, reqOk]
  cases hg : st.get c.mh with
  | some d => simp [cachedOk, reqOk, get_some_has hg]
  | none =>
    have hn := get_none_has hg
    simp only []
    split
    · simp [cachedOk, reqOk]
    · cases ans with
      | none => simp [cachedOk, reqOk, hn]
      | some blk =>
        simp only []
        split
        · simp [cachedOk, reqOk, hn]
        · cases nOk <;> simp [cachedOk, reqOk, hn, has_put_self]

theorem getBlock_requested_none (cfg : Cfg) (hfix : cfg.fixed = true) (st : Store) (c : Cid) (ans : Option Blk) (nOk : Bool) :
    ∀ b ∈ emitted (getBlock cfg st c ans nOk).2.2, b.1 = c ∧ (getBlock cfg st c ans nOk).2.1 = .blk b := by
  unfold getBlock
  cases hv : validate cfg.al c.code c.len <;> simp [emitted]
  cases hg : st.get c.mh with
  | some d => simp [emitted]
  | none =>
    simp only []
    split
    · simp [emitted]
    · cases ans with
      | none => simp [emitted]
      | some blk =>
        simp only [hfix]
        by_cases hne : blk.1 = c
        · cases nOk <;> simp [hne, emitted]
          rintro a b rfl
          exact ⟨hne, rfl⟩
        · simp [hne, emitted]

theorem getBlock_hash_none (H : Key → Data → Prop) (cfg : Cfg) (st : Store) (c : Cid) (ans : Option Blk) (nOk : Bool)
    (hs : storeH H st) (hans : ∀ b, ans = some b → H b.1.mh b.2) :
    (∀ b ∈ emitted (getBlock cfg st c ans nOk).2.2, H b.1.mh b.2) ∧ storeH H (getBlock cfg st c ans nOk).1 := by
  unfold getBlock
  cases hv : validate cfg.al c.code c.len <;> simp [emitted, hs]
  cases hg : st.get c.mh with
  | some d => simp [emitted, hs]; exact hs _ _ hg
  | none =>
    simp only []
    split
    · simp [emitted, hs]
    · cases ans with
      | none => simp [emitted, hs]
      | some blk =>
        have hb := hans blk rfl
        simp only []
        split
        · simp [emitted, hs]
        · cases nOk <;> simp [emitted]
          · exact storeH_put hs hb
          · exact ⟨by rintro a b rfl; exact hb, storeH_put hs hb⟩

theorem emits_ok (st : Store) : ∀ (bs : List Blk), (∀ b ∈ bs, st.has b.1.mh = true) →
    cachedOk st (bs.map Ev.emit) = true ∧ reqOk st (bs.map Ev.emit) = true := by
  intro bs
  induction bs with
  | nil => intro _; simp [cachedOk, reqOk]
  | cons b r ih =>
    intro h
    have := ih (fun b' hb' => h b' (by simp [hb']))
    simp [cachedOk, reqOk, h b (by simp), this]

/-- cached-before-emit holds whatever the blockstore reads do (`rd`) -/
theorem getBlocks_cached (cfg : Cfg) (st : Store) (ks : List Cid) (ans : Option (List Blk)) (nf pf : Option Nat)
    (rd : Nat → Bool) : cachedOk st (getBlocks cfg st ks ans nf pf rd).2 = true := by
  unfold getBlocks
  have hhit := (emits_ok st _ (fun b hb => get_some_has
    (mem_splitLocalR_hits (st := st) (rd := rd) (i := 0) (ks := filterKeys cfg.al ks) hb).2)).1
  simp only []
  split
  · exact hhit
  · cases ans with
    | none =>
      simp only []
      rw [cachedOk_append, replay_map_emit]
      simp [hhit, cachedOk]
    | some bs =>
      have hf := fetchLoop_cached cfg.fixed (splitLocalR st rd 0 (filterKeys cfg.al ks)).2 bs st nf pf
      simp only [List.append_assoc]
      rw [cachedOk_append, replay_map_emit]
      simp [hhit, cachedOk, hf]

/-- local-first needs the reads to succeed: a stored block whose Get failed IS requested (by design) -/
theorem getBlocks_req (cfg : Cfg) (st : Store) (ks : List Cid) (ans : Option (List Blk)) (nf pf : Option Nat)
    (rd : Nat → Bool) (hrd : ∀ j, rd j = true) : reqOk st (getBlocks cfg st ks ans nf pf rd).2 = true := by
  unfold getBlocks
  have hhit := (emits_ok st _ (fun b hb => get_some_has
    (mem_splitLocalR_hits (st := st) (rd := rd) (i := 0) (ks := filterKeys cfg.al ks) hb).2)).2
  have hmiss : ((splitLocalR st rd 0 (filterKeys cfg.al ks)).2.all fun c => !st.has c.mh) = true := by
    simp only [List.all_eq_true]
    intro c hc
    simp [get_none_has ((mem_splitLocalR_misses hc).2 hrd)]
  simp only []
  split
  · exact hhit
  · cases ans with
    | none =>
      simp only []
      rw [reqOk_append, replay_map_emit]
      simp [hhit, reqOk, hmiss]
    | some bs =>
      have hf := fetchLoop_cached cfg.fixed (splitLocalR st rd 0 (filterKeys cfg.al ks)).2 bs st nf pf
      simp only [List.append_assoc]
      rw [reqOk_append, replay_map_emit]
      simp [hhit, reqOk, hmiss, hf]

theorem getBlocks_requested (cfg : Cfg) (hfix : cfg.fixed = true) (st : Store) (ks : List Cid)
    (ans : Option (List Blk)) (nf pf : Option Nat) (rd : Nat → Bool) :
    ∀ b ∈ emitted (getBlocks cfg st ks ans nf pf rd).2, b.1 ∈ ks ∧ valid cfg.al b.1 = true := by
  unfold getBlocks
  have hh : ∀ b ∈ (splitLocalR st rd 0 (filterKeys cfg.al ks)).1, b.1 ∈ ks ∧ valid cfg.al b.1 = true :=
    fun b hb => mem_filterKeys (mem_splitLocalR_hits hb).1
  have hm : ∀ c ∈ (splitLocalR st rd 0 (filterKeys cfg.al ks)).2, c ∈ ks ∧ valid cfg.al c = true :=
    fun c hc => mem_filterKeys (mem_splitLocalR_misses hc).1
  simp only []
  split
  · intro b hb; rw [emitted_map_emit] at hb; exact hh b hb
  · cases ans with
    | none =>
      intro b hb
      simp only [emitted_append, emitted_map_emit, emitted, List.append_nil] at hb
      exact hh b hb
    | some bs =>
      intro b hb
      simp only [emitted_append, emitted_map_emit, emitted, List.append_nil, List.mem_append] at hb
      rcases hb with hb | hb
      · exact hh b hb
      · exact hm _ ((fetchLoop_emitted cfg.fixed _ bs st nf pf b hb).2 hfix)

theorem getBlocks_hash (H : Key → Data → Prop) (cfg : Cfg) (st : Store) (ks : List Cid)
    (ans : Option (List Blk)) (nf pf : Option Nat) (rd : Nat → Bool) (hs : storeH H st)
    (hans : ∀ bs, ans = some bs → ∀ b ∈ bs, H b.1.mh b.2) :
    (∀ b ∈ emitted (getBlocks cfg st ks ans nf pf rd).2, H b.1.mh b.2) ∧ storeH H (getBlocks cfg st ks ans nf pf rd).1 := by
  unfold getBlocks
  have hh : ∀ b ∈ (splitLocalR st rd 0 (filterKeys cfg.al ks)).1, H b.1.mh b.2 :=
    fun b hb => hs _ _ (mem_splitLocalR_hits hb).2
  simp only []
  split
  · exact ⟨fun b hb => hh b (by simpa [emitted_map_emit] using hb), hs⟩
  · cases ans with
    | none =>
      refine ⟨?_, hs⟩
      intro b hb
      simp only [emitted_append, emitted_map_emit, emitted, List.append_nil] at hb
      exact hh b hb
    | some bs =>
      have hb' := hans bs rfl
      refine ⟨?_, fetchLoop_storeH H _ _ bs st nf pf hs hb'⟩
      intro b hb
      simp only [emitted_append, emitted_map_emit, emitted, List.append_nil, List.mem_append] at hb
      rcases hb with hb | hb
      · exact hh b hb
      · exact hb' b (fetchLoop_emitted cfg.fixed _ bs st nf pf b hb).1
end C05

namespace C05
open C04

theorem replay_append : ∀ (a : List Ev) (st : Store) (b : List Ev), replay st (a ++ b) = replay (replay st a) b := by
  intro a
  induction a with
  | nil => intro st b; rfl
  | cons e r ih => intro st b; cases e <;> simp [replay, ih]

theorem replay_has_mono : ∀ (evs : List Ev) (st : Store) (k : Key), st.has k = true → (replay st evs).has k = true := by
  intro evs
  induction evs with
  | nil => intro st k h; exact h
  | cons e r ih =>
    intro st k h
    cases e with
    | put b => exact ih _ k (has_put_mono st _ k _ h)
    | emit b => exact ih st k h
    | reqOne c => exact ih st k h
    | reqMany cs => exact ih st k h
    | notify bs => exact ih st k h
    | putFail b => exact ih st k h

theorem mem_emitted_split : ∀ {evs : List Ev} {b : Blk}, b ∈ emitted evs → ∃ pre post, evs = pre ++ .emit b :: post := by
  intro evs
  induction evs with
  | nil => intro b h; simp [emitted] at h
  | cons e r ih =>
    intro b h
    cases e with
    | emit x =>
      simp [emitted] at h
      rcases h with h | h
      · subst h; exact ⟨[], r, rfl⟩
      · obtain ⟨pre, post, hp⟩ := ih h; exact ⟨.emit x :: pre, post, by simp [hp]⟩
    | put x => obtain ⟨pre, post, hp⟩ := ih (by simpa [emitted] using h); exact ⟨.put x :: pre, post, by simp [hp]⟩
    | reqOne x => obtain ⟨pre, post, hp⟩ := ih (by simpa [emitted] using h); exact ⟨.reqOne x :: pre, post, by simp [hp]⟩
    | reqMany x => obtain ⟨pre, post, hp⟩ := ih (by simpa [emitted] using h); exact ⟨.reqMany x :: pre, post, by simp [hp]⟩
    | notify x => obtain ⟨pre, post, hp⟩ := ih (by simpa [emitted] using h); exact ⟨.notify x :: pre, post, by simp [hp]⟩
    | putFail x => obtain ⟨pre, post, hp⟩ := ih (by simpa [emitted] using h); exact ⟨.putFail x :: pre, post, by simp [hp]⟩

/-- the block GetBlock returns is the block it emitted -/
theorem getBlock_result_emitted_none (cfg : Cfg) (st : Store) (c : Cid) (ans : Option Blk) (nOk : Bool) (b : Blk)
    (h : (getBlock cfg st c ans nOk).2.1 = .blk b) : b ∈ emitted (getBlock cfg st c ans nOk).2.2 := by
  unfold getBlock at h ⊢
  cases hv : validate cfg.al c.code c.len <;> simp [hv] at h ⊢
  cases hg : st.get c.mh with
  | some d => simp [hg] at h ⊢; simp [emitted, h]
  | none =>
    simp only [hg] at h ⊢
    split at h
    · simp at h
    · rename_i hex
      simp only [hex, Bool.false_eq_true, if_false]
      cases ans with
      | none => simp at h
      | some blk =>
        simp only [] at h ⊢
        split at h
        · simp at h
        · rename_i hm
          simp only [hm, Bool.false_eq_true, if_false]
          cases nOk <;> simp at h ⊢
          simp [emitted, h]

/-! ### getBlock with a failing blockstore write -/

/-- a failing Put either is never reached (same as without failure) or ends the call: error, nothing handed out -/
theorem getBlock_fail (cfg : Cfg) (st : Store) (c : Cid) (ans : Option Blk) (nOk : Bool) :
    getBlock cfg st c ans nOk (some 0) = getBlock cfg st c ans nOk none ∨
    ∃ blk, getBlock cfg st c ans nOk (some 0) = (st, .storeErr, [.reqOne c, .putFail blk]) ∧ st.get c.mh = none := by
  unfold getBlock
  cases hv : validate cfg.al c.code c.len <;> simp
  cases hg : st.get c.mh with
  | some d => simp
  | none =>
    simp only []
    split
    · simp
    · cases ans with
      | none => simp
      | some blk =>
        simp only []
        split
        · simp
        · right; exact ⟨⟨blk.1, blk.2, rfl⟩, trivial⟩

theorem getBlock_cases (cfg : Cfg) (st : Store) (c : Cid) (ans : Option Blk) (nOk : Bool) (pf : Option Nat) :
    getBlock cfg st c ans nOk pf = getBlock cfg st c ans nOk none ∨
    ∃ blk, getBlock cfg st c ans nOk pf = (st, .storeErr, [.reqOne c, .putFail blk]) ∧ st.get c.mh = none := by
  by_cases h : pf = some 0
  · subst h; exact getBlock_fail cfg st c ans nOk
  · left; exact getBlock_pf cfg st c ans nOk h

theorem getBlock_trace (cfg : Cfg) (st : Store) (c : Cid) (ans : Option Blk) (nOk : Bool) (pf : Option Nat)
    (rdOk : Bool) :
    cachedOk st (getBlock cfg st c ans nOk pf rdOk).2.2 = true ∧ reqOk st (getBlock cfg st c ans nOk pf rdOk).2.2 = true := by
  cases rdOk with
  | false => rw [(getBlock_rd_false cfg st c ans nOk pf).2.1]; simp [cachedOk, reqOk]
  | true =>
  rcases getBlock_cases cfg st c ans nOk pf with h | ⟨blk, h, hg⟩
  · rw [h]; exact getBlock_trace_none cfg st c ans nOk
  · rw [h]; simp [cachedOk, reqOk, get_none_has hg]

theorem getBlock_requested (cfg : Cfg) (hfix : cfg.fixed = true) (st : Store) (c : Cid) (ans : Option Blk) (nOk : Bool)
    (pf : Option Nat) (rdOk : Bool) :
    ∀ b ∈ emitted (getBlock cfg st c ans nOk pf rdOk).2.2,
      b.1 = c ∧ (getBlock cfg st c ans nOk pf rdOk).2.1 = .blk b := by
  cases rdOk with
  | false => rw [(getBlock_rd_false cfg st c ans nOk pf).2.1]; simp [emitted]
  | true =>
  rcases getBlock_cases cfg st c ans nOk pf with h | ⟨blk, h, _⟩
  · rw [h]; exact getBlock_requested_none cfg hfix st c ans nOk
  · rw [h]; simp [emitted]

theorem getBlock_hash (H : Key → Data → Prop) (cfg : Cfg) (st : Store) (c : Cid) (ans : Option Blk) (nOk : Bool)
    (pf : Option Nat) (rdOk : Bool) (hs : storeH H st) (hans : ∀ b, ans = some b → H b.1.mh b.2) :
    (∀ b ∈ emitted (getBlock cfg st c ans nOk pf rdOk).2.2, H b.1.mh b.2) ∧
    storeH H (getBlock cfg st c ans nOk pf rdOk).1 := by
  cases rdOk with
  | false =>
    have := getBlock_rd_false cfg st c ans nOk pf
    rw [this.1, this.2.1]; simp [emitted]; exact hs
  | true =>
  rcases getBlock_cases cfg st c ans nOk pf with h | ⟨blk, h, _⟩
  · rw [h]; exact getBlock_hash_none H cfg st c ans nOk hs hans
  · rw [h]; simp [emitted]; exact hs

theorem getBlock_result_emitted (cfg : Cfg) (st : Store) (c : Cid) (ans : Option Blk) (nOk : Bool) (pf : Option Nat)
    (rdOk : Bool) (b : Blk) (h : (getBlock cfg st c ans nOk pf rdOk).2.1 = .blk b) :
    b ∈ emitted (getBlock cfg st c ans nOk pf rdOk).2.2 := by
  cases rdOk with
  | false => exact absurd h ((getBlock_rd_false cfg st c ans nOk pf).2.2 b)
  | true =>
  rcases getBlock_cases cfg st c ans nOk pf with h' | ⟨blk, h', _⟩
  · rw [h'] at h ⊢; exact getBlock_result_emitted_none cfg st c ans nOk b h
  · rw [h'] at h; simp at h

/-- with the (only) write of GetBlock failing, whatever is handed out was read from the local store -/
theorem getBlock_fail_local (cfg : Cfg) (st : Store) (c : Cid) (ans : Option Blk) (nOk : Bool) :
    ∀ x ∈ emitted (getBlock cfg st c ans nOk (some 0) true).2.2, st.get x.1.mh = some x.2 := by
  intro x hx
  unfold getBlock at hx
  cases hv : validate cfg.al c.code c.len <;> simp [hv, emitted] at hx
  cases hg : st.get c.mh with
  | some d => simp [hg, emitted] at hx; subst hx; exact hg
  | none =>
    simp only [hg] at hx
    split at hx
    · simp [emitted] at hx
    · cases ans with
      | none => simp [emitted] at hx
      | some blk => simp only [] at hx; split at hx <;> simp [emitted] at hx

/-! ### whole histories -/

def isWrite : Ev → Bool
  | .put _ => true
  | .putFail _ => true
  | .notify _ => true
  | _ => false

theorem writes_ok : ∀ (evs : List Ev) (st : Store), (∀ ev ∈ evs, isWrite ev = true) →
    cachedOk st evs = true ∧ reqOk st evs = true ∧ emitted evs = [] := by
  intro evs
  induction evs with
  | nil => intro st _; simp [cachedOk, reqOk, emitted]
  | cons e r ih =>
    intro st h
    have hr := fun s => ih s (fun ev hev => h ev (by simp [hev]))
    have he := h e (by simp)
    cases e <;> simp [isWrite] at he <;> simp [cachedOk, reqOk, emitted, hr, (hr st).2.2]

theorem addBlock_writes (cfg : Cfg) (st : Store) (o : Blk) (pf : Option Nat) :
    ∀ ev ∈ (addBlock cfg st o pf).2.2, isWrite ev = true := by
  intro ev hev
  unfold addBlock at hev
  cases hv : validate cfg.al o.1.code o.1.len <;> simp [hv] at hev
  split at hev
  · simp at hev
  · split at hev
    · simp at hev; subst hev; rfl
    · simp at hev
      rcases hev with hev | ⟨_, hev⟩ <;> (subst hev; rfl)

theorem addBlocks_tail_writes (cfg : Cfg) (st : Store) (toput : List Blk) (pf : Option Nat) :
    let r : Store × Res × List Ev := if toput.isEmpty then (st, .ok, [])
      else if pf == some 0 then (st, .storeErr, toput.map .putFail)
      else (st.putMany toput, .ok, toput.map .put ++ (if cfg.hasEx then [.notify toput] else []))
    ∀ ev ∈ r.2.2, isWrite ev = true := by
  intro r ev hev
  by_cases he : toput.isEmpty = true
  · simp [r, he] at hev
  · by_cases hp : (pf == some 0) = true
    · simp only [r, he, hp, Bool.false_eq_true, if_false, if_true] at hev
      obtain ⟨b, _, rfl⟩ := List.mem_map.1 hev; rfl
    · simp only [r, he, hp, Bool.false_eq_true, if_false] at hev
      rcases List.mem_append.1 hev with h | h
      · obtain ⟨b, _, rfl⟩ := List.mem_map.1 h; rfl
      · split at h
        · simp at h; subst h; rfl
        · simp at h

theorem addBlocks_writes (cfg : Cfg) (st : Store) (bs : List Blk) (pf : Option Nat) :
    ∀ ev ∈ (addBlocks cfg st bs pf).2.2, isWrite ev = true := by
  unfold addBlocks
  cases hf : firstErr cfg.al bs with
  | some e => simp
  | none =>
    by_cases hcf : cfg.checkFirst = true
    · simp only [hcf, if_true]; exact addBlocks_tail_writes cfg st _ pf
    · simp only [hcf, Bool.false_eq_true, if_false]; exact addBlocks_tail_writes cfg st _ pf

/-! an arbitrary predicate on the ENTRIES of the store is preserved when it holds for what is written -/

def allE (P : Key × Data → Prop) (st : Store) : Prop := ∀ e ∈ st, P e

theorem mem_of_lookup {l : List (Key × Data)} {k : Key} {d : Data} (h : List.lookup k l = some d) : (k, d) ∈ l := by
  induction l with
  | nil => simp [List.lookup] at h
  | cons e r ih =>
    obtain ⟨a, b⟩ := e
    simp only [List.lookup] at h
    by_cases hk : k = a
    · subst hk; simp at h; subst h; simp
    · have : (k == a) = false := by simpa using hk
      simp only [this] at h
      simp [ih h]

theorem allE_storeH {H : Key → Data → Prop} {st : Store} (h : allE (fun e => H e.1 e.2) st) : storeH H st :=
  fun k d hg => h (k, d) (mem_of_lookup hg)

theorem allE_put {P : Key × Data → Prop} {st : Store} {k : Key} {d : Data} (h : allE P st) (hk : P (k, d)) :
    allE P (st.put k d) := by
  unfold Store.put
  split
  · exact h
  · intro e he
    simp at he
    rcases he with he | he
    · exact h e he
    · subst he; exact hk

theorem allE_set {P : Key × Data → Prop} {st : Store} {k : Key} {d : Data} (h : allE P st) (hk : P (k, d)) :
    allE P (st.set k d) := by
  unfold Store.set
  split
  · intro e he
    rw [List.mem_map] at he
    obtain ⟨x, hx, rfl⟩ := he
    split
    · exact hk
    · exact h _ hx
  · intro e he
    simp at he
    rcases he with he | he
    · exact h e he
    · subst he; exact hk

theorem allE_putMany {P : Key × Data → Prop} {st : Store} {bs : List Blk} (h : allE P st)
    (hb : ∀ b ∈ bs, P (b.1.mh, b.2)) : allE P (st.putMany bs) := by
  have key : ∀ (bs : List Blk) (acc : Store), allE P acc → (∀ b ∈ bs, P (b.1.mh, b.2)) →
      allE P (bs.foldl (fun acc b => if st.has b.1.mh then acc else acc.set b.1.mh b.2) acc) := by
    intro bs
    induction bs with
    | nil => intro acc ha _; exact ha
    | cons b r ih =>
      intro acc ha hb
      simp only [List.foldl_cons]
      apply ih
      · split
        · exact ha
        · exact allE_set ha (hb b (by simp))
      · intro b' hb'; exact hb b' (by simp [hb'])
  unfold Store.putMany
  split
  · exact allE_put h (hb _ (by simp))
  · exact key bs st h hb

theorem allE_del {P : Key × Data → Prop} {st : Store} {k : Key} (h : allE P st) : allE P (st.del k) := by
  intro e he
  simp [Store.del] at he
  exact h e he.1

theorem fetchLoop_allE (P : Key × Data → Prop) (fixed : Bool) (misses : List Cid) :
    ∀ (bs : List Blk) (st : Store) (nf pf : Option Nat), allE P st → (∀ b ∈ bs, P (b.1.mh, b.2)) →
      allE P (fetchLoop fixed misses st nf pf bs).1 := by
  intro bs
  induction bs with
  | nil => intro st nf pf hs _; simpa [fetchLoop] using hs
  | cons x r ih =>
    intro st nf pf hs hb
    have hr : ∀ b ∈ r, P (b.1.mh, b.2) := fun b hb' => hb b (by simp [hb'])
    have hput := allE_put (k := x.1.mh) (d := x.2) hs (hb x (by simp))
    unfold fetchLoop
    split
    · exact ih st nf pf hs hr
    · split
      · exact hs
      · split
        · exact hput
        · exact ih _ _ _ hput hr

theorem stepOp_allE (P : Key × Data → Prop) (cfg : Cfg) (st : Store) (op : Op) (hs : allE P st)
    (hf : faithful (fun k d => P (k, d)) op) : allE P (stepOp cfg st op).1 := by
  cases op with
  | add b pf =>
    simp only [stepOp, addBlock]
    cases validate cfg.al b.1.code b.1.len <;> simp <;> try exact hs
    split
    · exact hs
    · split
      · exact hs
      · exact allE_put hs hf
  | addMany bs pf =>
    have tail : ∀ (toput : List Blk), (∀ b ∈ toput, P (b.1.mh, b.2)) →
        allE P (if toput.isEmpty then (st, Res.ok, ([] : List Ev))
          else if pf == some 0 then (st, .storeErr, toput.map .putFail)
          else (st.putMany toput, .ok, toput.map .put ++ (if cfg.hasEx then [.notify toput] else []))).1 := by
      intro toput htp
      by_cases he : toput.isEmpty = true
      · simp only [he, if_true]; exact hs
      · by_cases hp : (pf == some 0) = true
        · simp only [he, hp, Bool.false_eq_true, if_false, if_true]; exact hs
        · simp only [he, hp, Bool.false_eq_true, if_false]; exact allE_putMany hs htp
    simp only [stepOp, addBlocks]
    cases firstErr cfg.al bs with
    | some e => exact hs
    | none =>
      by_cases hcf : cfg.checkFirst = true
      · simp only [hcf, if_true]
        exact tail _ (fun b hb => hf b (List.mem_filter.1 hb).1)
      · simp only [hcf, Bool.false_eq_true, if_false]
        exact tail _ hf
  | get c ans nOk pf rdOk =>
    simp only [stepOp]
    cases rdOk with
    | false => rw [(getBlock_rd_false cfg st c ans nOk pf).1]; exact hs
    | true =>
      rcases getBlock_cases cfg st c ans nOk pf with h | ⟨blk, h, _⟩
      · rw [h]
        unfold getBlock
        cases validate cfg.al c.code c.len <;> simp <;> try exact hs
        cases st.get c.mh with
        | some d => exact hs
        | none =>
          simp only []
          split
          · exact hs
          · cases ans with
            | none => exact hs
            | some blk =>
              simp only []
              split
              · exact hs
              · cases nOk <;> exact allE_put hs (hf blk rfl)
      · rw [h]; exact hs
  | getMany ks ans nf pf rd =>
    simp only [stepOp, getBlocks]
    split
    · exact hs
    · cases ans with
      | none => exact hs
      | some bs => exact fetchLoop_allE P _ _ bs st nf pf hs (hf bs rfl)
  | del c => exact allE_del hs

theorem cachedOk_prefix (st : Store) (a b : List Ev) (h : cachedOk st (a ++ b) = true) : cachedOk st a = true := by
  rw [cachedOk_append] at h; simp at h; exact h.1

theorem reqOk_prefix (st : Store) (a b : List Ev) (h : reqOk st (a ++ b) = true) : reqOk st a = true := by
  rw [reqOk_append] at h; simp at h; exact h.1

theorem grabSession_once (hasEx sesEx : Bool) (s : Ses) : (grabSession hasEx sesEx s).1.once = true := by
  unfold grabSession; split <;> simp_all

theorem grabs_after_once (hasEx sesEx : Bool) : ∀ (n : Nat) (s : Ses), s.once = true →
    ∀ x ∈ grabs hasEx sesEx s n, x = false := by
  intro n
  induction n with
  | zero => intro s _ x hx; simp [grabs] at hx
  | succ n ih =>
    intro s hs x hx
    simp only [grabs, List.mem_cons] at hx
    have hg : grabSession hasEx sesEx s = (s, false) := by simp [grabSession, hs]
    rcases hx with hx | hx
    · rw [hx, hg]
    · rw [hg] at hx; exact ih s hs x hx

end C05
