import BoxoModel.C04.Model
/-
C05 — the block service returns exactly the requested blocks and caches fetched ones.

The executable model of the block service is the one of C04 (`BoxoModel/C04/Model.lean`: getBlock,
getBlocks, the blockstore, the exchange as an adversarial parameter, the trace of boundary events).
This file only adds the trace predicates the C05 theorems are stated with. Core-only.
-/
namespace C05
open C04

/-- every emitted block is in the blockstore — as built up by the writes that precede it in the trace —
at the moment it is handed to the caller -/
def cachedOk : Store → List Ev → Bool
  | _, [] => true
  | st, .put b :: r => cachedOk (st.put b.1.mh b.2) r
  | st, .emit b :: r => st.has b.1.mh && cachedOk st r
  | st, _ :: r => cachedOk st r

/-- no request to the exchange names a CID whose block is in the blockstore at that moment -/
def reqOk : Store → List Ev → Bool
  | _, [] => true
  | st, .put b :: r => reqOk (st.put b.1.mh b.2) r
  | st, .reqOne c :: r => !st.has c.mh && reqOk st r
  | st, .reqMany cs :: r => cs.all (fun c => !st.has c.mh) && reqOk st r
  | st, _ :: r => reqOk st r

/-- "the bytes hash to the multihash", for an arbitrary hash relation `H`: every stored entry satisfies it -/
def storeH (H : Key → Data → Prop) (st : Store) : Prop := ∀ k d, st.get k = some d → H k d

/-! ## whole histories -/

/-- the CIDs an API call asks for -/
def requested : Op → List Cid
  | .get c _ _ _ _ => [c]
  | .getMany ks _ _ _ _ => ks
  | _ => []

/-- every blockstore read of the call succeeds -/
def readsOk : Op → Prop
  | .get _ _ _ _ rdOk => rdOk = true
  | .getMany _ _ _ _ rd => ∀ j, rd j = true
  | _ => True

/-- The C05 clauses along a whole history of calls (the store is threaded from call to call): in every call,
every emitted block is cached when emitted, only requested CIDs are emitted, and — when the call's reads
succeed — nothing stored is requested from the exchange. -/
def histOk (cfg : Cfg) : Store → List Op → Prop
  | _, [] => True
  | st, op :: r =>
    cachedOk st (stepOp cfg st op).2 = true ∧
    (readsOk op → reqOk st (stepOp cfg st op).2 = true) ∧
    (∀ b ∈ emitted (stepOp cfg st op).2, b.1 ∈ requested op) ∧
    histOk cfg (stepOp cfg st op).1 r

/-- the blocks an API call brings in from outside (caller or exchange) are well formed w.r.t. `H` -/
def faithful (H : Key → Data → Prop) : Op → Prop
  | .add b _ => H b.1.mh b.2
  | .addMany bs _ => ∀ b ∈ bs, H b.1.mh b.2
  | .get _ ans _ _ _ => ∀ b, ans = some b → H b.1.mh b.2
  | .getMany _ ans _ _ _ => ∀ bs, ans = some bs → ∀ b ∈ bs, H b.1.mh b.2
  | .del _ => True

/-! ## sessions (blockservice.Session: `createSession sync.Once`, `ses exchange.Fetcher`) -/

structure Ses where
  /-- `createSession.Do` has run -/
  once : Bool := false
  /-- `s.ses` is a fetcher obtained from `exchange.NewSession` (otherwise the exchange itself, or nil) -/
  isSes : Bool := false
  deriving DecidableEq, Repr

/-- `grabSession`: new state, and whether `SessionExchange.NewSession` is called by this invocation.
`sesEx`: the exchange implements SessionExchange. -/
def grabSession (hasEx sesEx : Bool) (s : Ses) : Ses × Bool :=
  if s.once then (s, false) else ({ once := true, isSes := hasEx && sesEx }, hasEx && sesEx)

/-- does getBlock invoke its fetch factory? only after a successful local miss of an allowlisted CID
("lazily create session if needed"); getBlocks invokes it on every call ("don't load exchange unless we have to"
comes after the call in the code). -/
def getBlockGrabs (cfg : Cfg) (st : Store) (c : Cid) (rdOk : Bool) : Bool :=
  valid cfg.al c && rdOk && (st.get c.mh).isNone

/-- Session.GetBlock: the block-level behaviour is `getBlock`; the session state decides which fetcher is
asked (`isSes` after the call) and whether NewSession was called. -/
def sesGetBlock (cfg : Cfg) (sesEx : Bool) (s : Ses) (st : Store) (c : Cid) (ans : Option Blk) (nOk : Bool)
    (pf : Option Nat) (rdOk : Bool) : Ses × Bool × (Store × Res × List Ev) :=
  let g := if getBlockGrabs cfg st c rdOk then grabSession cfg.hasEx sesEx s else (s, false)
  (g.1, g.2, getBlock cfg st c ans nOk pf rdOk)

/-- Session.GetBlocks -/
def sesGetBlocks (cfg : Cfg) (sesEx : Bool) (s : Ses) (st : Store) (ks : List Cid) (ans : Option (List Blk))
    (nf pf : Option Nat) (rd : Nat → Bool) : Ses × Bool × (Store × List Ev) :=
  let g := grabSession cfg.hasEx sesEx s
  (g.1, g.2, getBlocks cfg st ks ans nf pf rd)

/-- the NewSession calls of a sequence of grabSession invocations on one Session object -/
def grabs (hasEx sesEx : Bool) : Ses → Nat → List Bool
  | _, 0 => []
  | s, n + 1 => (grabSession hasEx sesEx s).2 :: grabs hasEx sesEx (grabSession hasEx sesEx s).1 n

end C05
