import BoxoModel.C04.Model
/-
C05 — the block service returns exactly the requested blocks and caches fetched ones.

The executable model of the block service is the one of C04 (`BoxoModel/C04/Model.lean`: getBlock,
getBlocks, the blockstore, the exchange as an adversarial parameter, the trace of boundary events).
This file only adds the trace predicates the C05 theorems are stated with. Core-only.
-/
namespace C05
open C04

/-- every emitted block is in the blockstore — as built up by the writes that precede it in the trace —
at the moment it is handed to the caller -/
def cachedOk : Store → List Ev → Bool
  | _, [] => true
  | st, .put b :: r => cachedOk (st.put b.1.mh b.2) r
  | st, .emit b :: r => st.has b.1.mh && cachedOk st r
  | st, _ :: r => cachedOk st r

/-- no request to the exchange names a CID whose block is in the blockstore at that moment -/
def reqOk : Store → List Ev → Bool
  | _, [] => true
  | st, .put b :: r => reqOk (st.put b.1.mh b.2) r
  | st, .reqOne c :: r => !st.has c.mh && reqOk st r
  | st, .reqMany cs :: r => cs.all (fun c => !st.has c.mh) && reqOk st r
  | st, _ :: r => reqOk st r

/-- "the bytes hash to the multihash", for an arbitrary hash relation `H`: every stored entry satisfies it -/
def storeH (H : Key → Data → Prop) (st : Store) : Prop := ∀ k d, st.get k = some d → H k d

end C05
