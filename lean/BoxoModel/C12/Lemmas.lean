import BoxoModel.C12.Model
/-! Specification vocabulary and helper lemmas for C12. Property theorems: `Props/C12.lean`. -/
namespace C12

/-! ## the error-handler chain -/

/-- the error component of one handler (no logs) -/
def surviveH (h : HK) (e : Option Err) : Option Err :=
  match h with
  | .ignoreErrors => none
  | .ignoreMissing => if e = some .notfound then none else e
  | .onMissing => e
  | .onError m => if m = 1 then none else if m = 2 then some .custom else e

/-- what is left of error `e` after the options `hs` (in option order) -/
def survive (hs : List HK) (e : Option Err) : Option Err := hs.foldl (fun e h => surviveH h e) e

theorem applyH_fst (h : HK) (c : Nat) (e : Option Err) (l : Logs) : (applyH h c e l).1 = surviveH h e := by
  cases h <;> simp [applyH, surviveH]

theorem runChain_fst (hs : List HK) (c : Nat) : ∀ (e : Option Err) (l : Logs),
    (runChain hs c e l).1 = survive hs e := by
  induction hs with
  | nil => intro e l; rfl
  | cons h hs ih =>
    intro e l
    simp only [runChain, survive, List.foldl_cons] at ih ⊢
    rw [show (applyH h c e l) = ((applyH h c e l).1, (applyH h c e l).2) from rfl]
    rw [ih, applyH_fst]

/-- an error is only ever swallowed or replaced by the substitute: never turned into not-found -/
def Derived (e0 : Err) (e : Option Err) : Prop := e = some e0 ∨ e = none ∨ e = some .custom

theorem surviveH_derived (h : HK) (e0 : Err) (e : Option Err) (hd : Derived e0 e) : Derived e0 (surviveH h e) := by
  cases h with
  | ignoreErrors => exact Or.inr (Or.inl rfl)
  | ignoreMissing => simp only [surviveH]; split; exact Or.inr (Or.inl rfl); exact hd
  | onMissing => exact hd
  | onError m =>
    simp only [surviveH]; split
    · exact Or.inr (Or.inl rfl)
    · split
      · exact Or.inr (Or.inr rfl)
      · exact hd

/-- what the chain may add to the logs when run for CID `c` on original error `e0`:
OnMissing entries are `c` and only if `e0` is not-found; OnError entries are `(c, _)`;
visits and provider calls are untouched -/
def ChainLogs (c : Nat) (e0 : Err) (l l' : Logs) : Prop :=
  l'.visits = l.visits ∧ l'.prov = l.prov ∧
  (∃ k, l'.missing = l.missing ++ List.replicate k c ∧ (k > 0 → e0 = .notfound)) ∧
  (∃ es : List (Option Err), l'.onerr = l.onerr ++ es.map (fun e => (c, e)))

theorem ChainLogs.refl (c : Nat) (e0 : Err) (l : Logs) : ChainLogs c e0 l l :=
  ⟨rfl, rfl, ⟨0, by simp, by simp⟩, ⟨[], by simp⟩⟩

theorem ChainLogs.trans {c : Nat} {e0 : Err} {l1 l2 l3 : Logs} (a : ChainLogs c e0 l1 l2) (b : ChainLogs c e0 l2 l3) :
    ChainLogs c e0 l1 l3 := by
  obtain ⟨a1, a2, ⟨k1, a3, a3'⟩, ⟨e1, a4⟩⟩ := a
  obtain ⟨b1, b2, ⟨k2, b3, b3'⟩, ⟨e2, b4⟩⟩ := b
  refine ⟨b1.trans a1, b2.trans a2, ⟨k1 + k2, ?_, ?_⟩, ⟨e1 ++ e2, ?_⟩⟩
  · rw [b3, a3, List.append_assoc, List.replicate_append_replicate]
  · intro h
    by_cases h1 : k1 > 0
    · exact a3' h1
    · exact b3' (by omega)
  · rw [b4, a4]; simp

theorem applyH_logs (h : HK) (c : Nat) (e0 : Err) (e : Option Err) (l : Logs) (hd : Derived e0 e) :
    ChainLogs c e0 l (applyH h c e l).2 := by
  cases h with
  | ignoreErrors => exact ChainLogs.refl c e0 l
  | ignoreMissing => exact ChainLogs.refl c e0 l
  | onMissing =>
    simp only [applyH]
    split
    · rename_i hnf
      refine ⟨rfl, rfl, ⟨1, by simp, fun _ => ?_⟩, ⟨[], by simp⟩⟩
      rcases hd with hd | hd | hd
      · rw [hd] at hnf; simp at hnf; exact hnf
      · rw [hd] at hnf; simp at hnf
      · rw [hd] at hnf; simp at hnf
    · exact ChainLogs.refl c e0 l
  | onError m => exact ⟨rfl, rfl, ⟨0, by simp [applyH], by simp⟩, ⟨[e], by simp [applyH]⟩⟩

theorem runChain_logs (hs : List HK) (c : Nat) (e0 : Err) : ∀ (e : Option Err) (l : Logs), Derived e0 e →
    ChainLogs c e0 l (runChain hs c e l).2 := by
  induction hs with
  | nil => intro e l _; exact ChainLogs.refl c e0 l
  | cons h hs ih =>
    intro e l hd
    simp only [runChain, List.foldl_cons] at ih ⊢
    have h1 := applyH_logs h c e0 e l hd
    have h2 := ih (applyH h c e l).1 (applyH h c e l).2 (by rw [applyH_fst]; exact surviveH_derived h e0 e hd)
    exact h1.trans h2

/-! ## getLinks + handlers + provider -/

/-- the effective answer of a fetch: the links to descend into, or the error that aborts the walk -/
def eff (g : Graph) (cfg : Cfg) (c : Nat) : Except Err (List Nat) :=
  match g.get c with
  | .ok ks => .ok ks
  | .fail e =>
    match (if cfg.handlers.isEmpty then some e else survive cfg.handlers (some e)) with
    | some e' => .error e'
    | none => .ok []

theorem fetchStep_fst (g : Graph) (cfg : Cfg) (c : Nat) (l : Logs) : (fetchStep g cfg c l).1 = eff g cfg c := by
  unfold fetchStep eff
  cases hg : g.get c with
  | ok ks => simp
  | fail e =>
    by_cases hh : cfg.handlers.isEmpty = true
    · simp [hh]
    · simp only [hh]
      simp only [Option.isSome_some, Bool.not_false, Bool.and_self, if_true, Bool.false_eq_true, if_false]
      rw [runChain_fst]
      cases survive cfg.handlers (some e) <;> simp

/-- how one fetch changes the logs -/
def FetchLogs (g : Graph) (cfg : Cfg) (c : Nat) (l l' : Logs) : Prop :=
  l'.visits = l.visits ∧
  (l'.prov = l.prov ∨ (cfg.provider = true ∧ (∃ ks, eff g cfg c = .ok ks) ∧ l'.prov = l.prov ++ [c])) ∧
  ((∃ ks, eff g cfg c = .ok ks) → cfg.provider = true → l'.prov = l.prov ++ [c]) ∧
  (∃ k, l'.missing = l.missing ++ List.replicate k c ∧ (k > 0 → g.get c = .fail .notfound)) ∧
  (∃ es : List (Option Err), l'.onerr = l.onerr ++ es.map (fun e => (c, e)) ∧ (es ≠ [] → ∃ e, g.get c = .fail e))

theorem fetchStep_logs (g : Graph) (cfg : Cfg) (c : Nat) (l : Logs) : FetchLogs g cfg c l (fetchStep g cfg c l).2 := by
  have hfst := fetchStep_fst g cfg c l
  unfold fetchStep at hfst ⊢
  cases hg : g.get c with
  | ok ks =>
    simp only [hg] at hfst ⊢
    simp only [Option.isSome_none, Bool.false_and, Bool.false_eq_true, if_false] at hfst ⊢
    by_cases hp : cfg.provider = true
    · simp only [hp, if_true]
      exact ⟨rfl, Or.inr ⟨hp, ⟨ks, hfst.symm⟩, rfl⟩, fun _ _ => rfl, ⟨0, by simp, by simp⟩, ⟨[], by simp, by simp⟩⟩
    · simp only [hp]
      exact ⟨rfl, Or.inl rfl, fun _ h => absurd h hp, ⟨0, by simp, by simp⟩, ⟨[], by simp, by simp⟩⟩
  | fail e =>
    simp only [hg] at hfst ⊢
    by_cases hh : cfg.handlers.isEmpty = true
    · simp only [hh, Option.isSome_some, Bool.not_true, Bool.and_false, Bool.false_eq_true, if_false] at hfst ⊢
      have noOk : ¬ ∃ ks, eff g cfg c = .ok ks := by
        rintro ⟨ks, hk⟩; rw [← hfst] at hk; cases hk
      exact ⟨rfl, Or.inl rfl, fun h _ => absurd h noOk, ⟨0, by simp, by simp⟩, ⟨[], by simp, by simp⟩⟩
    · simp only [hh, Option.isSome_some, Bool.not_false, Bool.and_self, if_true] at hfst ⊢
      obtain ⟨c1, c2, ⟨k, c3, c3'⟩, ⟨es, c4⟩⟩ := runChain_logs cfg.handlers c e (some e) l (Or.inl rfl)
      have hm : k > 0 → g.get c = Res.fail Err.notfound := fun hk => by rw [hg, c3' hk]
      cases hr : (runChain cfg.handlers c (some e) l).1 with
      | some e' =>
        simp only [hr] at hfst ⊢
        have noOk : ¬ ∃ ks, eff g cfg c = .ok ks := by
          rintro ⟨ks, hk⟩; rw [← hfst] at hk; cases hk
        exact ⟨c1, Or.inl c2, fun h _ => absurd h noOk, ⟨k, c3, hm⟩, ⟨es, c4, fun _ => ⟨e, hg⟩⟩⟩
      | none =>
        simp only [hr] at hfst ⊢
        by_cases hp : cfg.provider = true
        · simp only [hp, if_true]
          exact ⟨c1, Or.inr ⟨hp, ⟨[], hfst.symm⟩, by simp [c2]⟩, fun _ _ => by simp [c2],
            ⟨k, c3, hm⟩, ⟨es, c4, fun _ => ⟨e, hg⟩⟩⟩
        · simp only [hp]
          exact ⟨c1, Or.inl c2, fun _ h => absurd h hp, ⟨k, c3, hm⟩, ⟨es, c4, fun _ => ⟨e, hg⟩⟩⟩

/-! ## the visitor -/

/-- depth `d` is allowed by the limit -/
def InLim (lim : Int) (d : Nat) : Prop := lim < 0 ∨ (d : Int) ≤ lim

/-- an item `(c, d)` needs no (further) processing: it is beyond the limit, or `c` is recorded at a depth
that makes the visitor answer false -/
def Cov (lim : Int) (v : Vis) (c d : Nat) : Prop :=
  (lim ≥ 0 ∧ (d : Int) > lim) ∨ ∃ od, v.find c = some od ∧ (lim < 0 ∨ od ≤ d)

theorem Vis.find_cons (v : Vis) (c d x : Nat) :
    Vis.find ((c, d) :: v) x = if c = x then some d else Vis.find v x := by
  unfold Vis.find
  by_cases h : c = x
  · subst h; simp
  · have : (c == x) = false := by simpa using h
    simp [List.find?, this, h]

theorem Vis.visit_false {lim : Int} {v v' : Vis} {c d : Nat} (h : Vis.visit lim v c d = (v', false)) :
    v' = v ∧ Cov lim v c d := by
  unfold Vis.visit at h
  cases ho : Vis.find v c with
  | none =>
    simp only [ho, Option.isSome_none, Bool.false_and, Bool.false_or] at h
    split at h
    · rename_i hc
      simp at hc
      exact ⟨(Prod.mk.inj h).1.symm, Or.inl ⟨hc.1, by omega⟩⟩
    · simp at h
  | some od =>
    simp only [ho, Option.isSome_some, Bool.true_and] at h
    split at h
    · rename_i hc
      simp at hc
      refine ⟨(Prod.mk.inj h).1.symm, ?_⟩
      rcases hc with hc | hc
      · exact Or.inr ⟨od, ho, Or.inl hc⟩
      · exact Or.inl ⟨hc.1, by omega⟩
    · split at h
      · simp at h
      · rename_i hc hod
        simp at hc
        exact ⟨(Prod.mk.inj h).1.symm, Or.inr ⟨od, ho, Or.inr (by omega)⟩⟩

theorem Vis.visit_true {lim : Int} {v v' : Vis} {c d : Nat} (h : Vis.visit lim v c d = (v', true)) :
    v' = (c, d) :: v ∧ InLim lim d ∧ (Vis.find v c = none ∨ ∃ od, Vis.find v c = some od ∧ od > d) := by
  unfold Vis.visit at h
  cases ho : Vis.find v c with
  | none =>
    simp only [ho, Option.isSome_none, Bool.false_and, Bool.false_or] at h
    split at h
    · simp at h
    · rename_i hc
      simp at hc
      refine ⟨(Prod.mk.inj h).1.symm, ?_, Or.inl rfl⟩
      unfold InLim
      by_cases hl : lim < 0
      · exact Or.inl hl
      · exact Or.inr (hc (by omega))
  | some od =>
    simp only [ho, Option.isSome_some, Bool.true_and] at h
    split at h
    · simp at h
    · rename_i hc
      simp at hc
      split at h
      · rename_i hod
        refine ⟨(Prod.mk.inj h).1.symm, ?_, Or.inr ⟨od, rfl, hod⟩⟩
        exact Or.inr (hc.2 (by omega))
      · simp at h

/-- recording `(c, d)` (only ever a first or a smaller depth) keeps every covered item covered -/
theorem Cov.mono {lim : Int} {v : Vis} {c d : Nat} (hnew : Vis.find v c = none ∨ ∃ od, Vis.find v c = some od ∧ od > d)
    {k D : Nat} (h : Cov lim v k D) : Cov lim ((c, d) :: v) k D := by
  rcases h with h | ⟨od, h1, h2⟩
  · exact Or.inl h
  · right
    rw [Vis.find_cons]
    by_cases hck : c = k
    · subst hck
      simp only [if_true]
      rcases hnew with hn | ⟨od', hn, hlt⟩
      · rw [hn] at h1; cases h1
      · rw [hn] at h1; cases h1
        exact ⟨d, rfl, h2.elim Or.inl (fun h => Or.inr (by omega))⟩
    · simp only [hck, if_false]
      exact ⟨od, h1, h2⟩

theorem Cov.depth_mono {lim : Int} {v : Vis} {k D D' : Nat} (h : Cov lim v k D) (hD : D ≤ D') : Cov lim v k D' := by
  rcases h with h | ⟨od, h1, h2⟩
  · exact Or.inl ⟨h.1, by omega⟩
  · exact Or.inr ⟨od, h1, h2.elim Or.inl (fun h => Or.inr (by omega))⟩

/-! ## reachability and the worklist invariant shared by both walks -/

/-- `Path g cfg root c n`: `c` is reached from `root` by a chain of `n` links, each taken from a node whose
fetch succeeds (or whose error the options swallow, which leaves no links) -/
inductive Path (g : Graph) (cfg : Cfg) (root : Nat) : Nat → Nat → Prop
  | zero : Path g cfg root root 0
  | step {b n ks k} : Path g cfg root b n → eff g cfg b = .ok ks → k ∈ ks → Path g cfg root k (n + 1)

/-- `P c d`: item `(c, d)` is waiting to be passed to the visitor; `O c d`: item `(c, d)` was accepted
(or is the skipped root, which never goes through the visitor) and its links have not been handed out yet. -/
structure Inv (g : Graph) (cfg : Cfg) (root : Nat) (v : Vis) (P O : Nat → Nat → Prop) : Prop where
  sv : ∀ c od, Vis.find v c = some od → Path g cfg root c od ∧ InLim cfg.lim od ∧ (cfg.skipRoot = true → od ≥ 1)
  sp : ∀ c d, P c d → Path g cfg root c d ∧ (cfg.skipRoot = true → d ≥ 1)
  so : ∀ c d, O c d → Path g cfg root c d
  cl : ∀ c od, Vis.find v c = some od → ∀ ks, eff g cfg c = .ok ks → ∀ k ∈ ks,
        Cov cfg.lim v k (od + 1) ∨ (∃ d', d' ≤ od + 1 ∧ P k d') ∨ O c od
  rt : (cfg.skipRoot = true → O root 0 ∨
          ∀ ks, eff g cfg root = .ok ks → ∀ k ∈ ks, Cov cfg.lim v k 1 ∨ ∃ d', d' ≤ 1 ∧ P k d') ∧
       (cfg.skipRoot = false → Cov cfg.lim v root 0 ∨ P root 0)

/-- initial state: the root item is pending — or, with SkipRoot, already open -/
theorem Inv.init (g : Graph) (cfg : Cfg) (root : Nat) :
    Inv g cfg root [] (fun c d => cfg.skipRoot = false ∧ c = root ∧ d = 0)
      (fun c d => cfg.skipRoot = true ∧ c = root ∧ d = 0) where
  sv := by intro c od h; simp [Vis.find] at h
  sp := by rintro c d ⟨hs, rfl, rfl⟩; exact ⟨Path.zero, fun h => by rw [hs] at h; cases h⟩
  so := by rintro c d ⟨_, rfl, rfl⟩; exact Path.zero
  cl := by intro c od h; simp [Vis.find] at h
  rt := ⟨fun hs => Or.inl ⟨hs, rfl, rfl⟩, fun hs => Or.inr ⟨hs, rfl, rfl⟩⟩

/-- the visitor rejected item `(c, d)`: it can be dropped -/
theorem Inv.drop {g cfg root v P O} (I : Inv g cfg root v P O) {c d : Nat} {v' : Vis}
    (hv : Vis.visit cfg.lim v c d = (v', false))
    {P' : Nat → Nat → Prop} (h1 : ∀ x y, P x y → (x = c ∧ y = d) ∨ P' x y) (h2 : ∀ x y, P' x y → P x y) :
    Inv g cfg root v' P' O := by
  obtain ⟨rfl, hcov⟩ := Vis.visit_false hv
  have fix : ∀ k D, (∃ d', d' ≤ D ∧ P k d') → Cov cfg.lim v' k D ∨ ∃ d', d' ≤ D ∧ P' k d' := by
    rintro k D ⟨d', hle, hp⟩
    rcases h1 k d' hp with ⟨rfl, rfl⟩ | hp'
    · exact Or.inl (hcov.depth_mono hle)
    · exact Or.inr ⟨d', hle, hp'⟩
  refine ⟨I.sv, fun x y h => I.sp x y (h2 x y h), I.so, ?_, ?_, ?_⟩
  · intro x od hx ks hks k hk
    rcases I.cl x od hx ks hks k hk with h | h | h
    · exact Or.inl h
    · rcases fix k _ h with h | h
      · exact Or.inl h
      · exact Or.inr (Or.inl h)
    · exact Or.inr (Or.inr h)
  · intro hs
    rcases I.rt.1 hs with h | h
    · exact Or.inl h
    · refine Or.inr fun ks hks k hk => ?_
      rcases h ks hks k hk with h | h
      · exact Or.inl h
      · exact fix k 1 h
  · intro hs
    rcases I.rt.2 hs with h | h
    · exact Or.inl h
    · rcases h1 _ _ h with ⟨rfl, rfl⟩ | h'
      · exact Or.inl hcov
      · exact Or.inr h'

/-- the visitor accepted item `(c, d)`: it becomes open -/
theorem Inv.accept {g cfg root v P O} (I : Inv g cfg root v P O) {c d : Nat} {v' : Vis}
    (hv : Vis.visit cfg.lim v c d = (v', true)) (hp : P c d)
    {P' O' : Nat → Nat → Prop} (h1 : ∀ x y, P x y → (x = c ∧ y = d) ∨ P' x y) (h2 : ∀ x y, P' x y → P x y)
    (h3 : ∀ x y, O' x y ↔ (O x y ∨ (x = c ∧ y = d))) :
    Inv g cfg root v' P' O' := by
  obtain ⟨rfl, hlim, hnew⟩ := Vis.visit_true hv
  have hcov : ∀ D, d ≤ D → Cov cfg.lim ((c, d) :: v) c D := by
    intro D hD
    exact Or.inr ⟨d, by rw [Vis.find_cons]; simp, Or.inr hD⟩
  have fix : ∀ k D, (∃ d', d' ≤ D ∧ P k d') → Cov cfg.lim ((c, d) :: v) k D ∨ ∃ d', d' ≤ D ∧ P' k d' := by
    rintro k D ⟨d', hle, hp⟩
    rcases h1 k d' hp with ⟨rfl, rfl⟩ | hp'
    · exact Or.inl (hcov D hle)
    · exact Or.inr ⟨d', hle, hp'⟩
  have hpath := I.sp c d hp
  refine ⟨?_, fun x y h => I.sp x y (h2 x y h), ?_, ?_, ?_, ?_⟩
  · intro x od hx
    rw [Vis.find_cons] at hx
    by_cases hcx : c = x
    · subst hcx; simp at hx; subst hx
      exact ⟨hpath.1, hlim, hpath.2⟩
    · simp [hcx] at hx; exact I.sv x od hx
  · intro x y h
    rcases (h3 x y).1 h with h | ⟨rfl, rfl⟩
    · exact I.so x y h
    · exact hpath.1
  · intro x od hx ks hks k hk
    rw [Vis.find_cons] at hx
    by_cases hcx : c = x
    · subst hcx; simp at hx; subst hx
      exact Or.inr (Or.inr ((h3 _ _).2 (Or.inr ⟨rfl, rfl⟩)))
    · simp [hcx] at hx
      rcases I.cl x od hx ks hks k hk with h | h | h
      · exact Or.inl (h.mono hnew)
      · rcases fix k _ h with h | h
        · exact Or.inl h
        · exact Or.inr (Or.inl h)
      · exact Or.inr (Or.inr ((h3 _ _).2 (Or.inl h)))
  · intro hs
    rcases I.rt.1 hs with h | h
    · exact Or.inl ((h3 _ _).2 (Or.inl h))
    · refine Or.inr fun ks hks k hk => ?_
      rcases h ks hks k hk with h | h
      · exact Or.inl (h.mono hnew)
      · exact fix k 1 h
  · intro hs
    rcases I.rt.2 hs with h | h
    · exact Or.inl (h.mono hnew)
    · rcases h1 _ _ h with ⟨rfl, rfl⟩ | h'
      · exact Or.inl (hcov 0 (Nat.le_refl _))
      · exact Or.inr h'

/-- the links of an open item are handed out: its children become pending one level deeper -/
theorem Inv.expand {g cfg root v P O} (I : Inv g cfg root v P O) {c d : Nat} {ks : List Nat}
    (ho : O c d) (he : eff g cfg c = .ok ks)
    {P' O' : Nat → Nat → Prop} (h1 : ∀ x y, P' x y ↔ (P x y ∨ (x ∈ ks ∧ y = d + 1)))
    (h2 : ∀ x y, O x y → (x = c ∧ y = d) ∨ O' x y) (h3 : ∀ x y, O' x y → O x y) :
    Inv g cfg root v P' O' := by
  have hpath := I.so c d ho
  have fix : ∀ k D, (∃ d', d' ≤ D ∧ P k d') → ∃ d', d' ≤ D ∧ P' k d' := by
    rintro k D ⟨d', hle, hp⟩; exact ⟨d', hle, (h1 _ _).2 (Or.inl hp)⟩
  refine ⟨I.sv, ?_, fun x y h => I.so x y (h3 x y h), ?_, ?_, ?_⟩
  · intro x y h
    rcases (h1 x y).1 h with h | ⟨hx, rfl⟩
    · exact I.sp x y h
    · exact ⟨Path.step hpath he hx, fun _ => by omega⟩
  · intro x od hx ks' hks k hk
    rcases I.cl x od hx ks' hks k hk with h | h | h
    · exact Or.inl h
    · exact Or.inr (Or.inl (fix k _ h))
    · rcases h2 _ _ h with ⟨rfl, rfl⟩ | h'
      · rw [he] at hks; cases hks
        exact Or.inr (Or.inl ⟨od + 1, Nat.le_refl _, (h1 _ _).2 (Or.inr ⟨hk, rfl⟩)⟩)
      · exact Or.inr (Or.inr h')
  · intro hs
    rcases I.rt.1 hs with h | h
    · rcases h2 _ _ h with ⟨rfl, rfl⟩ | h'
      · refine Or.inr fun ks' hks k hk => ?_
        rw [he] at hks; cases hks
        exact Or.inr ⟨1, Nat.le_refl _, (h1 _ _).2 (Or.inr ⟨hk, rfl⟩)⟩
      · exact Or.inl h'
    · refine Or.inr fun ks' hks k hk => ?_
      rcases h ks' hks k hk with h | h
      · exact Or.inl h
      · exact Or.inr (fix k 1 h)
  · intro hs
    rcases I.rt.2 hs with h | h
    · exact Or.inl h
    · exact Or.inr ((h1 _ _).2 (Or.inl h))

/-- nothing pending, nothing open: every node within the limit is recorded -/
theorem Inv.complete {g cfg root v P O} (I : Inv g cfg root v P O) (hP : ∀ x y, ¬P x y) (hO : ∀ x y, ¬O x y) :
    ∀ c n, Path g cfg root c n → InLim cfg.lim n → (n = 0 ∧ cfg.skipRoot = true) ∨ Cov cfg.lim v c n := by
  intro c n hp
  induction hp with
  | zero =>
    intro _
    cases hs : cfg.skipRoot with
    | true => exact Or.inl ⟨rfl, rfl⟩
    | false =>
      rcases I.rt.2 hs with h | h
      · exact Or.inr h
      · exact absurd h (hP _ _)
  | @step b n ks k hb he hk ih =>
    intro hlim
    have hlimn : InLim cfg.lim n := hlim.elim Or.inl (fun h => Or.inr (by omega))
    right
    rcases ih hlimn with ⟨rfl, hs⟩ | hcov
    · -- b is the skipped root
      have hb0 : b = root := by cases hb; rfl
      subst hb0
      rcases I.rt.1 hs with h | h
      · exact absurd h (hO _ _)
      · rcases h ks he k hk with h | ⟨d', _, h⟩
        · exact h
        · exact absurd h (hP _ _)
    · rcases hcov with ⟨hl, hgt⟩ | ⟨od, hf, hod⟩
      · rcases hlimn with h | h <;> omega
      · rcases I.cl b od hf ks he k hk with h | ⟨d', _, h⟩ | h
        · rcases hod with hneg | hle
          · rcases h with ⟨h1, _⟩ | ⟨od', h1, _⟩
            · omega
            · exact Or.inr ⟨od', h1, Or.inl hneg⟩
          · exact h.depth_mono (by omega)
        · exact absurd h (hP _ _)
        · exact absurd h (hO _ _)

/-! ## the invariant with the logs -/

/-- what holds of the visitor state and the logs at every moment of every walk, aborted or not -/
structure Safe (g : Graph) (cfg : Cfg) (root : Nat) (w : WSt) : Prop where
  /-- every recorded CID is within the limit (a link path of the recorded length exists) -/
  sv : ∀ c od, Vis.find w.vis c = some od → Path g cfg root c od ∧ InLim cfg.lim od ∧ (cfg.skipRoot = true → od ≥ 1)
  /-- OnMissing was only ever called with a CID whose getLinks failed with not-found -/
  lm : ∀ c ∈ w.logs.missing, g.get c = .fail .notfound
  /-- OnError was only ever called with a CID whose getLinks failed -/
  le : ∀ p ∈ w.logs.onerr, ∃ e, g.get p.1 = .fail e
  /-- the provider was only asked to announce CIDs that were accepted by the visitor (or the skipped root)
  and whose fetch did not abort the walk -/
  lp : ∀ c ∈ w.logs.prov, cfg.provider = true ∧ (∃ ks, eff g cfg c = .ok ks) ∧
        ((Vis.find w.vis c).isSome ∨ (cfg.skipRoot = true ∧ c = root))
  /-- recorded CIDs = CIDs for which the visit callback answered true -/
  lv : ∀ c, (Vis.find w.vis c).isSome ↔ ∃ d, (c, d, true) ∈ w.logs.visits

structure Full (g : Graph) (cfg : Cfg) (root : Nat) (w : WSt) (P O : Nat → Nat → Prop) : Prop where
  inv : Inv g cfg root w.vis P O
  safe : Safe g cfg root w
  /-- every accepted CID has been announced or is still open -/
  lc : cfg.provider = true → (∀ c od, Vis.find w.vis c = some od → c ∈ w.logs.prov ∨ O c od) ∧
        (cfg.skipRoot = true → root ∈ w.logs.prov ∨ O root 0)
  lo : ∀ c d, O c d → (Vis.find w.vis c).isSome ∨ (cfg.skipRoot = true ∧ c = root)

theorem Full.init (g : Graph) (cfg : Cfg) (root : Nat) :
    Full g cfg root {} (fun c d => cfg.skipRoot = false ∧ c = root ∧ d = 0)
      (fun c d => cfg.skipRoot = true ∧ c = root ∧ d = 0) where
  inv := Inv.init g cfg root
  safe := ⟨by intro c od h; simp [Vis.find] at h, by simp, by simp, by simp, by intro c; simp [Vis.find]⟩
  lc := fun _ => ⟨by intro c od h; simp [Vis.find] at h, fun hs => Or.inr ⟨hs, rfl, rfl⟩⟩
  lo := by rintro c d ⟨hs, rfl, _⟩; exact Or.inr ⟨hs, rfl⟩

/-- the state after the visit callback ran for `(c, d)` with answer `b` -/
def afterVisit (cfg : Cfg) (w : WSt) (c d : Nat) : WSt × Bool :=
  let r := w.vis.visit cfg.lim c d
  ({ vis := r.1, logs := { w.logs with visits := w.logs.visits ++ [(c, d, r.2)] } }, r.2)

theorem Full.drop {g cfg root w P O} (F : Full g cfg root w P O) {c d : Nat}
    (hb : (afterVisit cfg w c d).2 = false)
    {P' : Nat → Nat → Prop} (h1 : ∀ x y, P x y → (x = c ∧ y = d) ∨ P' x y) (h2 : ∀ x y, P' x y → P x y) :
    Full g cfg root (afterVisit cfg w c d).1 P' O := by
  simp only [afterVisit] at hb ⊢
  have hv : Vis.visit cfg.lim w.vis c d = ((Vis.visit cfg.lim w.vis c d).1, false) := by
    rw [← hb]
  obtain ⟨hveq, _⟩ := Vis.visit_false hv
  have I := F.inv.drop hv h1 h2
  simp only [hb] at ⊢
  refine ⟨I, ⟨I.sv, F.safe.lm, F.safe.le, ?_, ?_⟩, ?_, ?_⟩
  · intro x hx; simp only [hveq]; exact F.safe.lp x hx
  · intro x
    simp only [hveq, List.mem_append, List.mem_singleton, Prod.mk.injEq, Bool.true_eq_false, and_false, or_false]
    exact F.safe.lv x
  · intro hp; simp only [hveq]; exact F.lc hp
  · intro x y h; simp only [hveq]; exact F.lo x y h

theorem Full.accept {g cfg root w P O} (F : Full g cfg root w P O) {c d : Nat}
    (hb : (afterVisit cfg w c d).2 = true) (hp : P c d)
    {P' O' : Nat → Nat → Prop} (h1 : ∀ x y, P x y → (x = c ∧ y = d) ∨ P' x y) (h2 : ∀ x y, P' x y → P x y)
    (h3 : ∀ x y, O' x y ↔ (O x y ∨ (x = c ∧ y = d))) :
    Full g cfg root (afterVisit cfg w c d).1 P' O' := by
  simp only [afterVisit] at hb ⊢
  have hv : Vis.visit cfg.lim w.vis c d = ((Vis.visit cfg.lim w.vis c d).1, true) := by
    rw [← hb]
  obtain ⟨hveq, _, _⟩ := Vis.visit_true hv
  have I := F.inv.accept hv hp h1 h2 h3
  simp only [hb] at ⊢
  have hfind : ∀ x, (Vis.find (Vis.visit cfg.lim w.vis c d).1 x).isSome = true ↔ (x = c ∨ (Vis.find w.vis x).isSome = true) := by
    intro x
    rw [hveq, Vis.find_cons]
    by_cases hcx : c = x
    · subst hcx; simp
    · simp [hcx]; intro h; exact absurd h.symm hcx
  refine ⟨I, ⟨I.sv, F.safe.lm, F.safe.le, ?_, ?_⟩, ?_, ?_⟩
  · intro x hx
    obtain ⟨a, b, c'⟩ := F.safe.lp x hx
    refine ⟨a, b, c'.elim (fun h => Or.inl ((hfind x).2 (Or.inr h))) Or.inr⟩
  · intro x
    rw [hfind x, F.safe.lv x]
    simp only [List.mem_append, List.mem_singleton, Prod.mk.injEq, and_true]
    constructor
    · rintro (rfl | ⟨d', h⟩)
      · exact ⟨d, Or.inr ⟨rfl, rfl⟩⟩
      · exact ⟨d', Or.inl h⟩
    · rintro ⟨d', h | ⟨rfl, _⟩⟩
      · exact Or.inr ⟨d', h⟩
      · exact Or.inl rfl
  · intro hpv
    obtain ⟨a, b⟩ := F.lc hpv
    refine ⟨fun x od hx => ?_, fun hs => (b hs).elim Or.inl (fun h => Or.inr ((h3 _ _).2 (Or.inl h)))⟩
    rw [hveq, Vis.find_cons] at hx
    by_cases hcx : c = x
    · subst hcx; simp at hx; subst hx
      exact Or.inr ((h3 _ _).2 (Or.inr ⟨rfl, rfl⟩))
    · simp [hcx] at hx
      exact (a x od hx).elim Or.inl (fun h => Or.inr ((h3 _ _).2 (Or.inl h)))
  · intro x y h
    rcases (h3 x y).1 h with h | ⟨rfl, rfl⟩
    · exact (F.lo x y h).elim (fun h => Or.inl ((hfind x).2 (Or.inr h))) Or.inr
    · exact Or.inl ((hfind x).2 (Or.inl rfl))

/-- logs part of a fetch, whatever its result -/
theorem Safe.fetch {g cfg root w} (S : Safe g cfg root w) {c : Nat}
    (hc : (Vis.find w.vis c).isSome ∨ (cfg.skipRoot = true ∧ c = root)) :
    Safe g cfg root { w with logs := (fetchStep g cfg c w.logs).2 } := by
  obtain ⟨f1, f2, _, ⟨k, f4, f4'⟩, ⟨es, f5, f5'⟩⟩ := fetchStep_logs g cfg c w.logs
  refine ⟨S.sv, ?_, ?_, ?_, ?_⟩
  · intro x hx
    simp only [f4, List.mem_append, List.mem_replicate] at hx
    rcases hx with hx | ⟨hk, rfl⟩
    · exact S.lm x hx
    · exact f4' (by omega)
  · intro p hp
    simp only [f5, List.mem_append, List.mem_map] at hp
    rcases hp with hp | ⟨e, he, rfl⟩
    · exact S.le p hp
    · exact f5' (by intro h; rw [h] at he; simp at he)
  · intro x hx
    rcases f2 with f2 | ⟨hpv, hok, f2⟩
    · simp only [f2] at hx; exact S.lp x hx
    · simp only [f2, List.mem_append, List.mem_singleton] at hx
      rcases hx with hx | rfl
      · exact S.lp x hx
      · exact ⟨hpv, hok, hc⟩
  · intro x; simp only [f1]; exact S.lv x

/-- an open item is fetched successfully (or its error is swallowed): its links become pending items -/
theorem Full.expand {g cfg root w P O} (F : Full g cfg root w P O) {c d : Nat} {ks : List Nat}
    (ho : O c d) (he : (fetchStep g cfg c w.logs).1 = .ok ks)
    {P' O' : Nat → Nat → Prop} (h1 : ∀ x y, P' x y ↔ (P x y ∨ (x ∈ ks ∧ y = d + 1)))
    (h2 : ∀ x y, O x y → (x = c ∧ y = d) ∨ O' x y) (h3 : ∀ x y, O' x y → O x y) :
    Full g cfg root { w with logs := (fetchStep g cfg c w.logs).2 } P' O' := by
  rw [fetchStep_fst] at he
  have S := F.safe.fetch (F.lo c d ho)
  obtain ⟨_, _, f3, _, _⟩ := fetchStep_logs g cfg c w.logs
  refine ⟨F.inv.expand ho he h1 h2 h3, S, ?_, fun x y h => F.lo x y (h3 x y h)⟩
  intro hpv
  have hprov := f3 ⟨ks, he⟩ hpv
  obtain ⟨a, b⟩ := F.lc hpv
  have key : ∀ x y, O x y → x ∈ (fetchStep g cfg c w.logs).2.prov ∨ O' x y := by
    intro x y h
    rcases h2 x y h with ⟨rfl, rfl⟩ | h'
    · left; rw [hprov]; simp
    · exact Or.inr h'
  have keep : ∀ x, x ∈ w.logs.prov → x ∈ (fetchStep g cfg c w.logs).2.prov := by
    intro x hx; rw [hprov]; simp [hx]
  refine ⟨fun x od hx => ?_, fun hs => ?_⟩
  · rcases a x od hx with h | h
    · exact Or.inl (keep x h)
    · exact key x od h
  · rcases b hs with h | h
    · exact Or.inl (keep _ h)
    · exact key _ _ h

/-! ## sequential walk -/

def addI (P : Nat → Nat → Prop) (c d : Nat) : Nat → Nat → Prop := fun x y => P x y ∨ (x = c ∧ y = d)
def addL (P : Nat → Nat → Prop) (ks : List Nat) (d : Nat) : Nat → Nat → Prop := fun x y => P x y ∨ (x ∈ ks ∧ y = d)

theorem seqWalk_succ (g : Graph) (cfg : Cfg) (fuel c d : Nat) (s : WSt) :
    seqWalk g cfg (fuel + 1) c d s =
      (let vr : WSt × Bool := if !cfg.skipRoot || d != 0 then afterVisit cfg s c d else (s, true)
       if !vr.2 then (.ok, vr.1)
       else match (fetchStep g cfg c vr.1.logs).1 with
         | .error e => (.abort e, { vr.1 with logs := (fetchStep g cfg c vr.1.logs).2 })
         | .ok ks => seqList g cfg fuel ks (d + 1) { vr.1 with logs := (fetchStep g cfg c vr.1.logs).2 }) := by
  rfl

theorem seqList_succ_cons (g : Graph) (cfg : Cfg) (fuel k : Nat) (ks : List Nat) (d : Nat) (s : WSt) :
    seqList g cfg (fuel + 1) (k :: ks) d s =
      (match (seqWalk g cfg fuel k d s).1 with
       | .ok => seqList g cfg fuel ks d (seqWalk g cfg fuel k d s).2
       | o => (o, (seqWalk g cfg fuel k d s).2)) := by
  rfl

def SeqWalkOK (g : Graph) (cfg : Cfg) (root : Nat) (fuel : Nat) : Prop :=
  ∀ c d s o s' (P O : Nat → Nat → Prop), seqWalk g cfg fuel c d s = (o, s') →
    ((cfg.skipRoot = true ∧ d = 0) → Full g cfg root s P (addI O c d)) →
    (¬(cfg.skipRoot = true ∧ d = 0) → Full g cfg root s (addI P c d) O) →
    (o = .ok → Full g cfg root s' P O) ∧ (∀ e, o = .abort e → Safe g cfg root s')

def SeqListOK (g : Graph) (cfg : Cfg) (root : Nat) (fuel : Nat) : Prop :=
  ∀ ks d s o s' (P O : Nat → Nat → Prop), seqList g cfg fuel ks d s = (o, s') → d ≥ 1 →
    Full g cfg root s (addL P ks d) O →
    (o = .ok → Full g cfg root s' P O) ∧ (∀ e, o = .abort e → Safe g cfg root s')

theorem seq_ok (g : Graph) (cfg : Cfg) (root : Nat) : ∀ fuel, SeqWalkOK g cfg root fuel ∧ SeqListOK g cfg root fuel := by
  intro fuel
  induction fuel with
  | zero =>
    constructor
    · intro c d s o s' P O h _ _
      simp [seqWalk] at h
      obtain ⟨rfl, _⟩ := h
      exact ⟨(fun h => nomatch h), (fun _ h => nomatch h)⟩
    · intro ks d s o s' P O h _ _
      simp [seqList] at h
      obtain ⟨rfl, _⟩ := h
      exact ⟨(fun h => nomatch h), (fun _ h => nomatch h)⟩
  | succ n ih =>
    obtain ⟨ihW, ihL⟩ := ih
    constructor
    · intro c d s o s' P O h hA hB
      rw [seqWalk_succ] at h
      -- the part after the visitor accepted (or was bypassed)
      have after : ∀ (w : WSt), Full g cfg root w P (addI O c d) →
          (if (!true) = true then ((Outcome.ok, w) : Outcome × WSt)
           else match (fetchStep g cfg c w.logs).1 with
             | .error e => (.abort e, { w with logs := (fetchStep g cfg c w.logs).2 })
             | .ok ks => seqList g cfg n ks (d + 1) { w with logs := (fetchStep g cfg c w.logs).2 }) = (o, s') →
          (o = .ok → Full g cfg root s' P O) ∧ (∀ e, o = .abort e → Safe g cfg root s') := by
        intro w F h
        simp only [Bool.not_true, Bool.false_eq_true, if_false] at h
        cases hf : (fetchStep g cfg c w.logs).1 with
        | error e =>
          simp only [hf] at h
          obtain ⟨rfl, rfl⟩ := Prod.mk.inj h
          exact ⟨(fun h => nomatch h), fun _ _ => F.safe.fetch (F.lo c d (Or.inr ⟨rfl, rfl⟩))⟩
        | ok ks =>
          simp only [hf] at h
          have F2 : Full g cfg root { w with logs := (fetchStep g cfg c w.logs).2 } (addL P ks (d + 1)) O :=
            F.expand (c := c) (d := d) (Or.inr ⟨rfl, rfl⟩) hf (fun x y => Iff.rfl)
              (fun x y h => h.elim Or.inr Or.inl) (fun x y h => Or.inl h)
          exact ihL ks (d + 1) _ o s' P O h (by omega) F2
      by_cases hsk : cfg.skipRoot = true ∧ d = 0
      · have hc : (!cfg.skipRoot || d != 0) = false := by simp [hsk.1, hsk.2]
        simp only [hc, Bool.false_eq_true, if_false] at h
        exact after s (hA hsk) h
      · have hc : (!cfg.skipRoot || d != 0) = true := by
          cases hs : cfg.skipRoot <;> simp_all
        simp only [hc, if_true] at h
        have F := hB hsk
        cases hb : (afterVisit cfg s c d).2 with
        | false =>
          simp only [hb, Bool.not_false, if_true] at h
          obtain ⟨rfl, rfl⟩ := Prod.mk.inj h
          exact ⟨fun _ => F.drop hb (fun x y h => h.elim Or.inr Or.inl) (fun x y h => Or.inl h), (fun _ h => nomatch h)⟩
        | true =>
          have F1 : Full g cfg root (afterVisit cfg s c d).1 P (addI O c d) :=
            F.accept hb (Or.inr ⟨rfl, rfl⟩) (fun x y h => h.elim Or.inr Or.inl) (fun x y h => Or.inl h)
              (fun x y => Iff.rfl)
          rw [hb] at h
          exact after _ F1 h
    · intro ks d s o s' P O h hd F
      cases ks with
      | nil =>
        simp [seqList] at h
        obtain ⟨rfl, rfl⟩ := h
        have : addL P [] d = P := by
          funext x y; simp [addL]
        rw [this] at F
        exact ⟨fun _ => F, (fun _ h => nomatch h)⟩
      | cons k ks =>
        rw [seqList_succ_cons] at h
        have hns : ¬(cfg.skipRoot = true ∧ d = 0) := by omega
        have e1 : addL P (k :: ks) d = addI (addL P ks d) k d := by
          funext x y; simp only [addL, addI, List.mem_cons]
          apply propext
          constructor
          · rintro (hx | ⟨hx | hx, hy⟩)
            · exact Or.inl (Or.inl hx)
            · exact Or.inr ⟨hx, hy⟩
            · exact Or.inl (Or.inr ⟨hx, hy⟩)
          · rintro ((hx | ⟨hx, hy⟩) | ⟨hx, hy⟩)
            · exact Or.inl hx
            · exact Or.inr ⟨Or.inr hx, hy⟩
            · exact Or.inr ⟨Or.inl hx, hy⟩
        rw [e1] at F
        have r := ihW k d s (seqWalk g cfg n k d s).1 (seqWalk g cfg n k d s).2 (addL P ks d) O rfl
          (fun h => absurd h hns) (fun _ => F)
        cases ho : (seqWalk g cfg n k d s).1 with
        | ok =>
          simp only [ho] at h
          exact ihL ks d _ o s' P O h hd (r.1 ho)
        | abort e =>
          simp only [ho] at h
          obtain ⟨rfl, rfl⟩ := Prod.mk.inj h
          exact ⟨(fun h => nomatch h), fun e' _ => r.2 e ho⟩
        | fuel =>
          simp only [ho] at h
          obtain ⟨rfl, rfl⟩ := Prod.mk.inj h
          exact ⟨(fun h => nomatch h), (fun _ h => nomatch h)⟩

/-! ## parallel walk: abstraction of a dispatcher/worker state to pending and open items -/

theorem Full.congr {g cfg root w P O P' O'} (F : Full g cfg root w P O)
    (hP : ∀ x y, P x y ↔ P' x y) (hO : ∀ x y, O x y ↔ O' x y) : Full g cfg root w P' O' := by
  have e1 : P = P' := funext fun x => funext fun y => propext (hP x y)
  have e2 : O = O' := funext fun x => funext fun y => propext (hO x y)
  rw [← e1, ← e2]; exact F

/-- the fetch of an open item aborts: the item stays open for ever, only the logs change -/
theorem Full.fetchErr {g cfg root w P O} (F : Full g cfg root w P O) {c d : Nat} (ho : O c d) :
    Full g cfg root { w with logs := (fetchStep g cfg c w.logs).2 } P O := by
  have S := F.safe.fetch (F.lo c d ho)
  obtain ⟨_, f2, _, _, _⟩ := fetchStep_logs g cfg c w.logs
  have keep : ∀ x, x ∈ w.logs.prov → x ∈ (fetchStep g cfg c w.logs).2.prov := by
    intro x hx
    rcases f2 with f2 | ⟨_, _, f2⟩ <;> rw [f2]
    · exact hx
    · simp [hx]
  refine ⟨F.inv, S, fun hpv => ?_, F.lo⟩
  obtain ⟨a, b⟩ := F.lc hpv
  exact ⟨fun x od hx => (a x od hx).elim (fun h => Or.inl (keep x h)) Or.inr,
    fun hs => (b hs).elim (fun h => Or.inl (keep _ h)) Or.inr⟩

def Has (ws : List Phase) (f : Phase → Prop) : Prop := ∃ j, ∃ h : j < ws.length, f ws[j]
def Others (ws : List Phase) (i : Nat) (f : Phase → Prop) : Prop := ∃ j, ∃ h : j < ws.length, j ≠ i ∧ f ws[j]

theorem Has_split {ws : List Phase} {i : Nat} {ph : Phase} (hi : ws[i]? = some ph) (f : Phase → Prop) :
    Has ws f ↔ f ph ∨ Others ws i f := by
  obtain ⟨hlt, hget⟩ := List.getElem?_eq_some_iff.1 hi
  constructor
  · rintro ⟨j, hj, hf⟩
    by_cases hji : j = i
    · subst hji; rw [hget] at hf; exact Or.inl hf
    · exact Or.inr ⟨j, hj, hji, hf⟩
  · rintro (hf | ⟨j, hj, _, hf⟩)
    · exact ⟨i, hlt, by rw [hget]; exact hf⟩
    · exact ⟨j, hj, hf⟩

theorem Has_set {ws : List Phase} {i : Nat} (hi : i < ws.length) (p : Phase) (f : Phase → Prop) :
    Has (ws.set i p) f ↔ f p ∨ Others ws i f := by
  constructor
  · rintro ⟨j, hj, hf⟩
    rw [List.getElem_set] at hf
    by_cases hji : i = j
    · simp [hji] at hf; exact Or.inl hf
    · simp [hji] at hf
      exact Or.inr ⟨j, by simpa using hj, fun h => hji h.symm, hf⟩
  · rintro (hf | ⟨j, hj, hji, hf⟩)
    · exact ⟨i, by simpa using hi, by rw [List.getElem_set]; simpa using hf⟩
    · refine ⟨j, by simpa using hj, ?_⟩
      rw [List.getElem_set]
      have : ¬ i = j := fun h => hji h.symm
      simpa [this] using hf

def wG (x y : Nat) : Phase → Prop
  | .got c d => x = c ∧ y = d
  | _ => False
def wOut (x y : Nat) : Phase → Prop
  | .out ks d => x ∈ ks ∧ y = d
  | _ => False
def wF (x y : Nat) : Phase → Prop
  | .fetch c d => x = c ∧ y = d
  | .err _ c d => x = c ∧ y = d
  | _ => False

/-- item `(x, y)` sits in the dispatcher (`next`, `todoQueue`) or in a worker that has not called visit yet -/
def slot (s : PSt) (x y : Nat) : Prop := s.next = some (x, y) ∨ (x, y) ∈ s.queue ∨ Has s.workers (wG x y)
/-- pending items of a state -/
def PP (cfg : Cfg) (s : PSt) (x y : Nat) : Prop :=
  ¬(cfg.skipRoot = true ∧ y = 0) ∧ (slot s x y ∨ Has s.workers (wOut x y))
/-- open items of a state (an item whose fetch failed stays open) -/
def OO (cfg : Cfg) (s : PSt) (x y : Nat) : Prop :=
  Has s.workers (wF x y) ∨ (cfg.skipRoot = true ∧ y = 0 ∧ slot s x y)

def nb : Phase → Nat
  | .idle => 0
  | _ => 1
def busy : List Phase → Nat
  | [] => 0
  | p :: ps => nb p + busy ps

theorem busy_set : ∀ (ws : List Phase) (i : Nat) (h : i < ws.length) (p : Phase),
    busy (ws.set i p) + nb ws[i] = busy ws + nb p := by
  intro ws
  induction ws with
  | nil => intro i h; simp at h
  | cons q qs ih =>
    intro i h p
    cases i with
    | zero => simp [busy]; omega
    | succ i =>
      have := ih i (by simpa using h) p
      simp [busy] at this ⊢; omega

theorem busy_zero : ∀ (ws : List Phase), busy ws = 0 → ∀ j (h : j < ws.length), ws[j] = .idle := by
  intro ws
  induction ws with
  | nil => intro _ j h; simp at h
  | cons q qs ih =>
    intro hb j h
    simp [busy] at hb
    cases j with
    | zero => cases q <;> simp_all [nb]
    | succ j => simpa using ih hb.2 j (by simpa using h)

theorem busy_pos {ws : List Phase} {j : Nat} (h : j < ws.length) (hn : ws[j] ≠ .idle) : busy ws > 0 := by
  induction ws generalizing j with
  | nil => simp at h
  | cons q qs ih =>
    cases j with
    | zero => simp at hn; cases q <;> simp_all [busy, nb] <;> omega
    | succ j => have := ih (j := j) (by simpa using h) (by simpa using hn); simp [busy]; omega

/-- bookkeeping facts of a dispatcher/worker state -/
structure PStruct (s : PSt) : Prop where
  ip : s.inProgress = busy s.workers
  nq : s.next = none → s.queue = []
  qd : ∀ x y, (x, y) ∈ s.queue → y ≥ 1
  od : ∀ j (h : j < s.workers.length) ks d, s.workers[j] = .out ks d → d ≥ 1
  /-- returned nil ⇒ nothing is in flight -/
  fin : s.result = some none → busy s.workers = 0 ∧ s.next = none
  /-- running with every worker idle ⇒ there is an item to send -/
  live : s.result = none → busy s.workers = 0 → s.next.isSome

/-- the combined invariant of the small-step system -/
def PInv (g : Graph) (cfg : Cfg) (root : Nat) (s : PSt) : Prop :=
  Full g cfg root s.w (PP cfg s) (OO cfg s) ∧ PStruct s

theorem getElem_of_getElem? {ws : List Phase} {i : Nat} {ph : Phase} (hi : ws[i]? = some ph) :
    ∃ h : i < ws.length, ws[i] = ph := List.getElem?_eq_some_iff.1 hi

theorem od_set {ws : List Phase} {i : Nat} {p : Phase}
    (hod : ∀ j (h : j < ws.length) ks d, ws[j] = .out ks d → d ≥ 1)
    (hp : ∀ ks d, p = .out ks d → d ≥ 1) :
    ∀ j (h : j < (ws.set i p).length) ks d, (ws.set i p)[j] = .out ks d → d ≥ 1 := by
  intro j h ks d hj
  rw [List.getElem_set] at hj
  split at hj
  · exact hp ks d hj
  · exact hod j (by simpa using h) ks d hj

/-- `case send <- next` -/
theorem pinv_send {g cfg root} {s : PSt} {i c d : Nat} (hi : s.workers[i]? = some .idle) (hn : s.next = some (c, d))
    (hr : s.result = none) (I : PInv g cfg root s) (nx : Option (Nat × Nat)) (q : List (Nat × Nat))
    (hq : (s.queue = [] ∧ nx = none ∧ q = []) ∨ (∃ x, s.queue = x :: q ∧ nx = some x)) :
    PInv g cfg root { s with next := nx, queue := q, inProgress := s.inProgress + 1, workers := s.workers.set i (.got c d) } := by
  obtain ⟨F, S⟩ := I
  obtain ⟨hlt, hget⟩ := getElem_of_getElem? hi
  have hslot : ∀ x y, slot s x y ↔
      slot { s with next := nx, queue := q, inProgress := s.inProgress + 1, workers := s.workers.set i (.got c d) } x y := by
    intro x y
    simp only [slot, hn, Has_split hi, Has_set hlt, wG, false_or]
    rcases hq with ⟨h1, rfl, rfl⟩ | ⟨q0, h1, rfl⟩
    · simp only [h1, List.not_mem_nil, false_or, Option.some.injEq, Prod.mk.injEq, reduceCtorEq]
      constructor
      · rintro (⟨rfl, rfl⟩ | h)
        · exact Or.inl ⟨rfl, rfl⟩
        · exact Or.inr h
      · rintro (⟨rfl, rfl⟩ | h)
        · exact Or.inl ⟨rfl, rfl⟩
        · exact Or.inr h
    · simp only [h1, List.mem_cons, Option.some.injEq, Prod.mk.injEq]
      constructor
      · rintro (⟨rfl, rfl⟩ | (h | h) | h)
        · exact Or.inr (Or.inr (Or.inl ⟨rfl, rfl⟩))
        · exact Or.inl h.symm
        · exact Or.inr (Or.inl h)
        · exact Or.inr (Or.inr (Or.inr h))
      · rintro (h | h | (⟨rfl, rfl⟩ | h))
        · exact Or.inr (Or.inl (Or.inl h.symm))
        · exact Or.inr (Or.inl (Or.inr h))
        · exact Or.inl ⟨rfl, rfl⟩
        · exact Or.inr (Or.inr h)
  have hout : ∀ x y, Has s.workers (wOut x y) ↔ Has (s.workers.set i (.got c d)) (wOut x y) := by
    intro x y; simp only [Has_split hi, Has_set hlt, wOut]
  have hf : ∀ x y, Has s.workers (wF x y) ↔ Has (s.workers.set i (.got c d)) (wF x y) := by
    intro x y; simp only [Has_split hi, Has_set hlt, wF]
  refine ⟨F.congr (fun x y => ?_) (fun x y => ?_), ?_⟩
  · simp only [PP]; rw [hslot x y, hout x y]
  · simp only [OO]; rw [hslot x y, hf x y]
  · have hb := busy_set s.workers i hlt (.got c d)
    rw [hget] at hb
    simp only [nb] at hb
    refine ⟨by simp only [S.ip]; omega, ?_, ?_, od_set S.od (by intro ks d h; cases h), ?_, ?_⟩
    · intro h
      rcases hq with ⟨_, _, rfl⟩ | ⟨q0, _, rfl⟩
      · rfl
      · simp at h
    · intro x y h
      rcases hq with ⟨_, _, rfl⟩ | ⟨q0, h1, _⟩
      · simp at h
      · exact S.qd x y (by rw [h1]; exact List.mem_cons_of_mem _ h)
    · intro h; simp [hr] at h
    · intro _ h0; simp only [] at h0; omega

/-- replacing a busy worker's phase by another busy phase (and any change of the walk state) keeps the bookkeeping -/
theorem PStruct.setBusy {s : PSt} (S : PStruct s) {i : Nat} (hlt : i < s.workers.length) (p : Phase) (w' : WSt)
    (hnb : nb p = nb s.workers[i]) (hp : ∀ ks d, p = .out ks d → d ≥ 1) :
    PStruct { s with w := w', workers := s.workers.set i p } := by
  have hb := busy_set s.workers i hlt p
  have e : busy (s.workers.set i p) = busy s.workers := by omega
  exact ⟨by show s.inProgress = _; rw [e]; exact S.ip, S.nq, S.qd, od_set S.od hp,
    fun h => by show busy (s.workers.set i p) = 0 ∧ _; rw [e]; exact S.fin h,
    fun h1 h2 => S.live h1 (by rw [← e]; exact h2)⟩

/-- the skipped root bypasses the visitor -/
theorem pinv_bypass {g cfg root} {s : PSt} {i c d : Nat} (hi : s.workers[i]? = some (.got c d))
    (hs : cfg.skipRoot = true) (hd : d = 0) (I : PInv g cfg root s) :
    PInv g cfg root { s with workers := s.workers.set i (.fetch c d) } := by
  obtain ⟨F, S⟩ := I
  obtain ⟨hlt, hget⟩ := getElem_of_getElem? hi
  subst hd
  refine ⟨F.congr (fun x y => ?_) (fun x y => ?_), ?_⟩
  · simp only [PP, slot, Has_split hi, Has_set hlt, wG, wOut, hs, true_and, false_or]
    constructor
    · rintro ⟨h0, h⟩
      refine ⟨h0, ?_⟩
      rcases h with (h | h | (⟨_, h⟩ | h)) | h
      · exact Or.inl (Or.inl h)
      · exact Or.inl (Or.inr (Or.inl h))
      · exact absurd h h0
      · exact Or.inl (Or.inr (Or.inr h))
      · exact Or.inr h
    · rintro ⟨h0, h⟩
      refine ⟨h0, ?_⟩
      rcases h with (h | h | h) | h
      · exact Or.inl (Or.inl h)
      · exact Or.inl (Or.inr (Or.inl h))
      · exact Or.inl (Or.inr (Or.inr (Or.inr h)))
      · exact Or.inr h
  · simp only [OO, slot, Has_split hi, Has_set hlt, wG, wF, hs, true_and, false_or]
    constructor
    · rintro (h | ⟨h0, h | h | (h | h)⟩)
      · exact Or.inl (Or.inr h)
      · exact Or.inr ⟨h0, Or.inl h⟩
      · exact Or.inr ⟨h0, Or.inr (Or.inl h)⟩
      · exact Or.inl (Or.inl h)
      · exact Or.inr ⟨h0, Or.inr (Or.inr h)⟩
    · rintro ((h | h) | ⟨h0, h | h | h⟩)
      · exact Or.inr ⟨h.2, Or.inr (Or.inr (Or.inl h))⟩
      · exact Or.inl h
      · exact Or.inr ⟨h0, Or.inl h⟩
      · exact Or.inr ⟨h0, Or.inr (Or.inl h)⟩
      · exact Or.inr ⟨h0, Or.inr (Or.inr (Or.inr h))⟩
  · exact S.setBusy hlt (.fetch c 0) s.w (by rw [hget]; rfl) (by intro ks d h; cases h)

/-- a worker calls the visit callback -/
theorem pinv_visit {g cfg root} {s : PSt} {i c d : Nat} (hi : s.workers[i]? = some (.got c d))
    (hns : ¬(cfg.skipRoot = true ∧ d = 0)) (I : PInv g cfg root s) :
    PInv g cfg root { s with w := (afterVisit cfg s.w c d).1,
                             workers := s.workers.set i (if (afterVisit cfg s.w c d).2 then .fetch c d else .done) } := by
  obtain ⟨F, S⟩ := I
  obtain ⟨hlt, hget⟩ := getElem_of_getElem? hi
  have hpcd : PP cfg s c d := ⟨hns, Or.inl (Or.inr (Or.inr ((Has_split hi _).2 (Or.inl ⟨rfl, rfl⟩))))⟩
  have hskip0 : ∀ x y, cfg.skipRoot = true → y = 0 → ¬(x = c ∧ y = d) := by
    intro x y h1 h2 h3; exact hns ⟨h1, h3.2 ▸ h2⟩
  cases hb : (afterVisit cfg s.w c d).2 with
  | false =>
    simp only [Bool.false_eq_true, if_false]
    refine ⟨?_, S.setBusy hlt .done _ (by rw [hget]; rfl) (by intro ks d h; cases h)⟩
    have F1 := F.drop (P' := PP cfg { s with w := (afterVisit cfg s.w c d).1, workers := s.workers.set i .done }) hb
      (by
        intro x y
        simp only [PP, slot, Has_split hi, Has_set hlt, wG, wOut, false_or]
        rintro ⟨h0, (h | h | (h | h)) | h⟩
        · exact Or.inr ⟨h0, Or.inl (Or.inl h)⟩
        · exact Or.inr ⟨h0, Or.inl (Or.inr (Or.inl h))⟩
        · exact Or.inl h
        · exact Or.inr ⟨h0, Or.inl (Or.inr (Or.inr h))⟩
        · exact Or.inr ⟨h0, Or.inr h⟩)
      (by
        intro x y
        simp only [PP, slot, Has_split hi, Has_set hlt, wG, wOut, false_or]
        rintro ⟨h0, (h | h | h) | h⟩
        · exact ⟨h0, Or.inl (Or.inl h)⟩
        · exact ⟨h0, Or.inl (Or.inr (Or.inl h))⟩
        · exact ⟨h0, Or.inl (Or.inr (Or.inr (Or.inr h)))⟩
        · exact ⟨h0, Or.inr h⟩)
    refine F1.congr (fun _ _ => Iff.rfl) (fun x y => ?_)
    simp only [OO, slot, Has_split hi, Has_set hlt, wG, wF, false_or]
    constructor
    · rintro (h | ⟨h1, h2, h | h | (h | h)⟩)
      · exact Or.inl h
      · exact Or.inr ⟨h1, h2, Or.inl h⟩
      · exact Or.inr ⟨h1, h2, Or.inr (Or.inl h)⟩
      · exact absurd h (hskip0 x y h1 h2)
      · exact Or.inr ⟨h1, h2, Or.inr (Or.inr h)⟩
    · rintro (h | ⟨h1, h2, h | h | h⟩)
      · exact Or.inl h
      · exact Or.inr ⟨h1, h2, Or.inl h⟩
      · exact Or.inr ⟨h1, h2, Or.inr (Or.inl h)⟩
      · exact Or.inr ⟨h1, h2, Or.inr (Or.inr (Or.inr h))⟩
  | true =>
    simp only [if_true]
    refine ⟨?_, S.setBusy hlt (.fetch c d) _ (by rw [hget]; rfl) (by intro ks d h; cases h)⟩
    exact F.accept (P' := PP cfg { s with w := (afterVisit cfg s.w c d).1, workers := s.workers.set i (.fetch c d) })
      (O' := OO cfg { s with w := (afterVisit cfg s.w c d).1, workers := s.workers.set i (.fetch c d) }) hb hpcd
      (by
        intro x y
        simp only [PP, slot, Has_split hi, Has_set hlt, wG, wOut, false_or]
        rintro ⟨h0, (h | h | (h | h)) | h⟩
        · exact Or.inr ⟨h0, Or.inl (Or.inl h)⟩
        · exact Or.inr ⟨h0, Or.inl (Or.inr (Or.inl h))⟩
        · exact Or.inl h
        · exact Or.inr ⟨h0, Or.inl (Or.inr (Or.inr h))⟩
        · exact Or.inr ⟨h0, Or.inr h⟩)
      (by
        intro x y
        simp only [PP, slot, Has_split hi, Has_set hlt, wG, wOut, false_or]
        rintro ⟨h0, (h | h | h) | h⟩
        · exact ⟨h0, Or.inl (Or.inl h)⟩
        · exact ⟨h0, Or.inl (Or.inr (Or.inl h))⟩
        · exact ⟨h0, Or.inl (Or.inr (Or.inr (Or.inr h)))⟩
        · exact ⟨h0, Or.inr h⟩)
      (by
        intro x y
        simp only [OO, slot, Has_split hi, Has_set hlt, wG, wF, false_or]
        constructor
        · rintro ((h | h) | ⟨h1, h2, h | h | h⟩)
          · exact Or.inr h
          · exact Or.inl (Or.inl h)
          · exact Or.inl (Or.inr ⟨h1, h2, Or.inl h⟩)
          · exact Or.inl (Or.inr ⟨h1, h2, Or.inr (Or.inl h)⟩)
          · exact Or.inl (Or.inr ⟨h1, h2, Or.inr (Or.inr (Or.inr h))⟩)
        · rintro ((h | ⟨h1, h2, h | h | (h | h)⟩) | h)
          · exact Or.inl (Or.inr h)
          · exact Or.inr ⟨h1, h2, Or.inl h⟩
          · exact Or.inr ⟨h1, h2, Or.inr (Or.inl h)⟩
          · exact absurd h (hskip0 x y h1 h2)
          · exact Or.inr ⟨h1, h2, Or.inr (Or.inr h)⟩
          · exact Or.inl (Or.inl h))

/-- a worker calls getLinks (+ error handlers + provider) -/
theorem pinv_fetch {g cfg root} {s : PSt} {i c d : Nat} (hi : s.workers[i]? = some (.fetch c d))
    (I : PInv g cfg root s) :
    PInv g cfg root { s with w := { s.w with logs := (fetchStep g cfg c s.w.logs).2 },
                             workers := s.workers.set i (match (fetchStep g cfg c s.w.logs).1 with
                               | .error e => .err e c d
                               | .ok ks => .out ks (d + 1)) } := by
  obtain ⟨F, S⟩ := I
  obtain ⟨hlt, hget⟩ := getElem_of_getElem? hi
  have ho : OO cfg s c d := Or.inl ((Has_split hi _).2 (Or.inl ⟨rfl, rfl⟩))
  cases hf : (fetchStep g cfg c s.w.logs).1 with
  | error e =>
    simp only []
    refine ⟨?_, S.setBusy hlt (.err e c d) _ (by rw [hget]; rfl) (by intro ks d h; cases h)⟩
    refine (F.fetchErr ho).congr (fun x y => ?_) (fun x y => ?_)
    · simp only [PP, slot, Has_split hi, Has_set hlt, wG, wOut]
    · simp only [OO, slot, Has_split hi, Has_set hlt, wG, wF]
  | ok ks =>
    simp only []
    refine ⟨?_, S.setBusy hlt (.out ks (d + 1)) _ (by rw [hget]; rfl) (by intro ks' d' h; cases h; omega)⟩
    exact F.expand (P' := PP cfg { s with w := { s.w with logs := (fetchStep g cfg c s.w.logs).2 }, workers := s.workers.set i (.out ks (d + 1)) })
      (O' := OO cfg { s with w := { s.w with logs := (fetchStep g cfg c s.w.logs).2 }, workers := s.workers.set i (.out ks (d + 1)) }) ho hf
      (by
        intro x y
        simp only [PP, slot, Has_split hi, Has_set hlt, wG, wOut, false_or]
        constructor
        · rintro ⟨h0, h | (h | h)⟩
          · exact Or.inl ⟨h0, Or.inl h⟩
          · exact Or.inr h
          · exact Or.inl ⟨h0, Or.inr h⟩
        · rintro (⟨h0, h | h⟩ | h)
          · exact ⟨h0, Or.inl h⟩
          · exact ⟨h0, Or.inr (Or.inr h)⟩
          · exact ⟨fun hh => by omega, Or.inr (Or.inl h)⟩)
      (by
        intro x y
        simp only [OO, slot, Has_split hi, Has_set hlt, wG, wF, false_or]
        rintro ((h | h) | h)
        · exact Or.inl h
        · exact Or.inr (Or.inl h)
        · exact Or.inr (Or.inr h))
      (by
        intro x y
        simp only [OO, slot, Has_split hi, Has_set hlt, wG, wF, false_or]
        rintro (h | h)
        · exact Or.inl (Or.inr h)
        · exact Or.inr h)

/-- `case linksDepth := <-out` -/
theorem pinv_out {g cfg root} {s : PSt} {i d : Nat} {ks : List Nat} (hi : s.workers[i]? = some (.out ks d))
    (I : PInv g cfg root s) (nx : Option (Nat × Nat)) (q : List (Nat × Nat))
    (hq : (∃ x0, s.next = some x0 ∧ nx = some x0 ∧ q = s.queue ++ ks.map (fun k => (k, d))) ∨
          (s.next = none ∧ ks = [] ∧ nx = none ∧ q = s.queue) ∨
          (∃ k0 ks', s.next = none ∧ ks = k0 :: ks' ∧ nx = some (k0, d) ∧ q = s.queue ++ ks'.map (fun k => (k, d)))) :
    PInv g cfg root { s with next := nx, queue := q, workers := s.workers.set i .done } := by
  obtain ⟨F, S⟩ := I
  obtain ⟨hlt, hget⟩ := getElem_of_getElem? hi
  have hd1 : d ≥ 1 := S.od i hlt ks d hget
  have hmem : ∀ (l : List Nat) x y, (x, y) ∈ l.map (fun k => (k, d)) ↔ (x ∈ l ∧ y = d) := by
    intro l x y; simp only [List.mem_map, Prod.mk.injEq]
    constructor
    · rintro ⟨a, ha, rfl, rfl⟩; exact ⟨ha, rfl⟩
    · rintro ⟨ha, rfl⟩; exact ⟨x, ha, rfl, rfl⟩
  -- the items in the dispatcher afterwards = the items before + the delivered links
  have hdisp : ∀ x y, (nx = some (x, y) ∨ (x, y) ∈ q) ↔ ((s.next = some (x, y) ∨ (x, y) ∈ s.queue) ∨ (x ∈ ks ∧ y = d)) := by
    intro x y
    rcases hq with ⟨x0, h1, rfl, rfl⟩ | ⟨h1, rfl, rfl, rfl⟩ | ⟨k0, ks', h1, rfl, rfl, rfl⟩
    · simp only [h1, List.mem_append, hmem]
      constructor
      · rintro (h | h | h)
        · exact Or.inl (Or.inl h)
        · exact Or.inl (Or.inr h)
        · exact Or.inr h
      · rintro ((h | h) | h)
        · exact Or.inl h
        · exact Or.inr (Or.inl h)
        · exact Or.inr (Or.inr h)
    · simp [h1]
    · simp only [h1, List.mem_append, hmem, List.mem_cons, Option.some.injEq, Prod.mk.injEq, reduceCtorEq, false_or]
      constructor
      · rintro (⟨rfl, rfl⟩ | h | h)
        · exact Or.inr ⟨Or.inl rfl, rfl⟩
        · exact Or.inl h
        · exact Or.inr ⟨Or.inr h.1, h.2⟩
      · rintro (h | ⟨h | h, rfl⟩)
        · exact Or.inr (Or.inl h)
        · exact Or.inl ⟨h.symm, rfl⟩
        · exact Or.inr (Or.inr ⟨h, rfl⟩)
  have hslot : ∀ x y, slot { s with next := nx, queue := q, workers := s.workers.set i .done } x y ↔
      (slot s x y ∨ (x ∈ ks ∧ y = d)) := by
    intro x y
    simp only [slot, Has_split hi, Has_set hlt, wG, false_or]
    rw [← or_assoc, hdisp x y]
    constructor
    · rintro (((h | h) | h) | h)
      · exact Or.inl (Or.inl h)
      · exact Or.inl (Or.inr (Or.inl h))
      · exact Or.inr h
      · exact Or.inl (Or.inr (Or.inr h))
    · rintro ((h | h | h) | h)
      · exact Or.inl (Or.inl (Or.inl h))
      · exact Or.inl (Or.inl (Or.inr h))
      · exact Or.inr h
      · exact Or.inl (Or.inr h)
  refine ⟨F.congr (fun x y => ?_) (fun x y => ?_), ?_⟩
  · simp only [PP]
    rw [hslot x y]
    simp only [Has_split hi, Has_set hlt, wOut, false_or]
    constructor
    · rintro ⟨h0, h | h | h⟩
      · exact ⟨h0, Or.inl (Or.inl h)⟩
      · exact ⟨h0, Or.inl (Or.inr h)⟩
      · exact ⟨h0, Or.inr h⟩
    · rintro ⟨h0, (h | h) | h⟩
      · exact ⟨h0, Or.inl h⟩
      · exact ⟨h0, Or.inr (Or.inl h)⟩
      · exact ⟨h0, Or.inr (Or.inr h)⟩
  · simp only [OO]
    rw [hslot x y]
    simp only [Has_split hi, Has_set hlt, wF, false_or]
    constructor
    · rintro (h | ⟨h1, h2, h⟩)
      · exact Or.inl h
      · exact Or.inr ⟨h1, h2, Or.inl h⟩
    · rintro (h | ⟨h1, h2, h | h⟩)
      · exact Or.inl h
      · exact Or.inr ⟨h1, h2, h⟩
      · omega
  · have hb := busy_set s.workers i hlt .done
    have e : busy (s.workers.set i .done) = busy s.workers := by rw [hget] at hb; simp only [nb] at hb; omega
    refine ⟨by show s.inProgress = _; rw [e]; exact S.ip, ?_, ?_, od_set S.od (by intro ks d h; cases h), ?_, ?_⟩
    · intro h
      show q = []
      rcases hq with ⟨x0, _, rfl, _⟩ | ⟨h1, _, _, rfl⟩ | ⟨k0, ks', _, _, rfl, _⟩
      · cases h
      · exact S.nq h1
      · cases h
    · intro x y h
      have h' : (x, y) ∈ q := h
      have : (x, y) ∈ s.queue ∨ (x ∈ ks ∧ y = d) := by
        rcases hq with ⟨x0, _, _, rfl⟩ | ⟨_, _, _, rfl⟩ | ⟨k0, ks', _, rfl, _, rfl⟩
        · simp only [List.mem_append, hmem] at h'; exact h'
        · exact Or.inl h'
        · simp only [List.mem_append, hmem] at h'
          exact h'.elim Or.inl (fun h => Or.inr ⟨List.mem_cons_of_mem _ h.1, h.2⟩)
      rcases this with h | ⟨_, rfl⟩
      · exact S.qd x y h
      · exact hd1
    · intro h
      show busy (s.workers.set i .done) = 0 ∧ nx = none
      have := S.fin h
      have hp : busy s.workers > 0 := busy_pos hlt (by rw [hget]; intro h; cases h)
      omega
    · intro _ h0
      have hp : busy s.workers > 0 := busy_pos hlt (by rw [hget]; intro h; cases h)
      simp only [] at h0; omega

/-- `case <-done` -/
theorem pinv_done {g cfg root} {s : PSt} {i : Nat} (hi : s.workers[i]? = some .done) (I : PInv g cfg root s)
    (r : Option (Option Err)) (hr : r = if (s.inProgress - 1 == 0 && s.next.isNone) = true then some none else none) :
    PInv g cfg root { s with inProgress := s.inProgress - 1, workers := s.workers.set i .idle, result := r } := by
  obtain ⟨F, S⟩ := I
  obtain ⟨hlt, hget⟩ := getElem_of_getElem? hi
  have hb := busy_set s.workers i hlt .idle
  rw [hget] at hb
  simp only [nb] at hb
  have hp : busy s.workers > 0 := busy_pos hlt (by rw [hget]; intro h; cases h)
  refine ⟨F.congr (fun x y => ?_) (fun x y => ?_), ?_⟩
  · simp only [PP, slot, Has_split hi, Has_set hlt, wG, wOut]
  · simp only [OO, slot, Has_split hi, Has_set hlt, wG, wF]
  · refine ⟨by show s.inProgress - 1 = busy (s.workers.set i .idle); rw [S.ip]; omega, S.nq, S.qd, od_set S.od (by intro ks d h; cases h), ?_, ?_⟩
    · intro h
      show busy (s.workers.set i .idle) = 0 ∧ s.next = none
      have h' : r = some none := h
      rw [hr] at h'
      split at h'
      · rename_i hc
        simp only [Bool.and_eq_true, beq_iff_eq, Option.isNone_iff_eq_none] at hc
        rw [S.ip] at hc
        exact ⟨by omega, hc.2⟩
      · cases h'
    · intro h h0
      have h' : r = none := h
      have h0' : busy (s.workers.set i .idle) = 0 := h0
      show s.next.isSome = true
      rw [hr] at h'
      split at h'
      · cases h'
      · rename_i hc
        simp only [Bool.and_eq_true, beq_iff_eq, Option.isNone_iff_eq_none, not_and] at hc
        cases hn : s.next with
        | none => exact absurd hn (hc (by rw [S.ip]; omega))
        | some _ => rfl

/-- `case err := <-errChan` -/
theorem pinv_err {g cfg root} {s : PSt} (I : PInv g cfg root s) (e : Err) :
    PInv g cfg root { s with result := some (some e) } := by
  obtain ⟨F, S⟩ := I
  exact ⟨F, S.ip, S.nq, S.qd, S.od, (fun h => nomatch h), (fun h => nomatch h)⟩

theorem pinv_init (g : Graph) (cfg : Cfg) (root conc : Nat) : PInv g cfg root (PSt.init root conc) := by
  have hidle : ∀ (f : Phase → Prop), f .idle = False → ¬ Has (List.replicate conc Phase.idle) f := by
    rintro f hf ⟨j, hj, h⟩
    simp at h; rw [hf] at h; exact h
  have hb : ∀ n, busy (List.replicate n Phase.idle) = 0 := by
    intro n; induction n with
    | zero => rfl
    | succ n ih => simp [List.replicate_succ, busy, nb, ih]
  refine ⟨(Full.init g cfg root).congr (fun x y => ?_) (fun x y => ?_), ?_⟩
  · simp only [PP, slot, PSt.init, Option.some.injEq, Prod.mk.injEq, List.not_mem_nil, false_or]
    have h1 := hidle (wG x y) rfl
    have h2 := hidle (wOut x y) rfl
    constructor
    · rintro ⟨hs, rfl, rfl⟩
      exact ⟨fun h => by rw [hs] at h; exact absurd h.1 (by simp), Or.inl (Or.inl ⟨rfl, rfl⟩)⟩
    · rintro ⟨h0, (h | h) | h⟩
      · obtain ⟨rfl, rfl⟩ := h
        refine ⟨?_, rfl, rfl⟩
        cases hs : cfg.skipRoot with
        | false => rfl
        | true => exact absurd ⟨hs, rfl⟩ h0
      · exact absurd h h1
      · exact absurd h h2
  · simp only [OO, slot, PSt.init, Option.some.injEq, Prod.mk.injEq, List.not_mem_nil, false_or]
    have h1 := hidle (wG x y) rfl
    have h2 := hidle (wF x y) rfl
    constructor
    · rintro ⟨hs, rfl, rfl⟩
      exact Or.inr ⟨hs, rfl, Or.inl ⟨rfl, rfl⟩⟩
    · rintro (h | ⟨hs, rfl, h | h⟩)
      · exact absurd h h2
      · exact ⟨hs, h.1.symm, rfl⟩
      · exact absurd h h1
  · refine ⟨by simp [PSt.init, hb], by simp [PSt.init], by simp [PSt.init], ?_, by simp [PSt.init], by simp [PSt.init]⟩
    intro j h ks d hj
    simp [PSt.init] at hj

/-- every event of the small-step system preserves the invariant -/
theorem pstep_pinv {g cfg root} {s s' : PSt} {i : Nat} (h : pstep g cfg s i = some s') (I : PInv g cfg root s) :
    PInv g cfg root s' := by
  unfold pstep at h
  cases hr : s.result with
  | some r => simp [hr] at h
  | none =>
    simp only [show s.result.isSome = false by rw [hr]; rfl, Bool.false_eq_true, if_false] at h
    cases hi : s.workers[i]? with
    | none => simp [hi] at h
    | some ph =>
      simp only [hi] at h
      cases ph with
      | idle =>
        simp only at h
        cases hn : s.next with
        | none => simp [hn] at h
        | some cd =>
          obtain ⟨c, d⟩ := cd
          simp only [hn] at h
          cases hq : s.queue with
          | nil =>
            simp only [hq, Option.some.injEq] at h
            subst h
            have := pinv_send hi hn hr I none [] (Or.inl ⟨hq, rfl, rfl⟩)
            simpa [hq] using this
          | cons x q =>
            simp only [hq, Option.some.injEq] at h
            subst h
            exact pinv_send hi hn hr I (some x) q (Or.inr ⟨x, hq, rfl⟩)
      | got c d =>
        simp only at h
        by_cases hsk : (cfg.skipRoot && d == 0) = true
        · simp only [hsk, if_true, Option.some.injEq] at h
          subst h
          simp only [Bool.and_eq_true, beq_iff_eq] at hsk
          exact pinv_bypass hi hsk.1 hsk.2 I
        · simp only [hsk, Bool.false_eq_true, if_false, Option.some.injEq] at h
          subst h
          simp only [Bool.and_eq_true, beq_iff_eq] at hsk
          exact pinv_visit hi hsk I
      | fetch c d =>
        simp only at h
        have := pinv_fetch (g := g) (cfg := cfg) (root := root) hi I
        cases hf : (fetchStep g cfg c s.w.logs).1 with
        | error e =>
          simp only [hf, Option.some.injEq] at h this
          subst h; exact this
        | ok ks =>
          simp only [hf, Option.some.injEq] at h this
          subst h; exact this
      | out ks d =>
        simp only at h
        cases hn : s.next with
        | some x0 =>
          simp only [hn, Option.some.injEq] at h
          subst h
          exact pinv_out hi I (some x0) _ (Or.inl ⟨x0, hn, rfl, rfl⟩)
        | none =>
          cases ks with
          | nil =>
            simp only [hn, List.map_nil, Option.some.injEq] at h
            subst h
            exact pinv_out hi I none _ (Or.inr (Or.inl ⟨hn, rfl, rfl, rfl⟩))
          | cons k0 ks' =>
            simp only [hn, List.map_cons, Option.some.injEq] at h
            subst h
            exact pinv_out hi I (some (k0, d)) _ (Or.inr (Or.inr ⟨k0, ks', hn, rfl, rfl, rfl⟩))
      | done =>
        simp only [Option.some.injEq] at h
        subst h
        exact pinv_done hi I _ rfl
      | err e c d =>
        simp only [Option.some.injEq] at h
        subst h
        exact pinv_err I e

/-- states reachable from the initial state under any schedule (any sequence of worker indices) -/
inductive PReach (g : Graph) (cfg : Cfg) (root conc : Nat) : PSt → Prop
  | init : PReach g cfg root conc (PSt.init root conc)
  | step {s s' i} : PReach g cfg root conc s → pstep g cfg s i = some s' → PReach g cfg root conc s'

theorem PReach.pinv {g cfg root conc s} (h : PReach g cfg root conc s) : PInv g cfg root s := by
  induction h with
  | init => exact pinv_init g cfg root conc
  | step _ hs ih => exact pstep_pinv hs ih

theorem pstep_len {g : Graph} {cfg : Cfg} {s s' : PSt} {i : Nat} (hs : pstep g cfg s i = some s') :
    s'.workers.length = s.workers.length := by
  unfold pstep at hs
  split at hs
  · cases hs
  · split at hs
    · cases hs
    · rename_i ph _
      cases ph <;> simp only at hs
      · split at hs
        · cases hs
        · split at hs <;> (cases hs; simp)
      · split at hs <;> (cases hs; simp)
      · split at hs <;> (cases hs; simp)
      · split at hs <;> (cases hs; simp)
      · cases hs; simp
      · cases hs; simp

theorem PReach.len {g cfg root conc s} (h : PReach g cfg root conc s) : s.workers.length = conc := by
  induction h with
  | init => simp [PSt.init]
  | step _ hs ih => rw [pstep_len hs, ih]

theorem busy_ne_zero : ∀ (ws : List Phase), busy ws ≠ 0 → ∃ j, ∃ h : j < ws.length, ws[j] ≠ .idle := by
  intro ws
  induction ws with
  | nil => intro h; exact absurd rfl h
  | cons q qs ih =>
    intro h
    by_cases hq : q = .idle
    · subst hq
      obtain ⟨j, hj, hne⟩ := ih (by simpa [busy, nb] using h)
      exact ⟨j + 1, by simpa using hj, by simpa using hne⟩
    · exact ⟨0, by simp, by simpa using hq⟩

/-! ## a failing provider changes nothing -/

theorem fetchStep_provFail (g : Graph) (cfg : Cfg) (f : Nat → Bool) (c : Nat) (l : Logs) :
    fetchStep g { cfg with provFail := f } c l = fetchStep g cfg c l := rfl

theorem seq_provFail (g : Graph) (cfg : Cfg) (f : Nat → Bool) : ∀ fuel,
    (∀ c d s, seqWalk g { cfg with provFail := f } fuel c d s = seqWalk g cfg fuel c d s) ∧
    (∀ ks d s, seqList g { cfg with provFail := f } fuel ks d s = seqList g cfg fuel ks d s) := by
  intro fuel
  induction fuel with
  | zero => exact ⟨fun _ _ _ => rfl, fun _ _ _ => rfl⟩
  | succ n ih =>
    obtain ⟨ihW, ihL⟩ := ih
    constructor
    · intro c d s
      rw [seqWalk_succ, seqWalk_succ]
      simp only [fetchStep_provFail, ihL]
      rfl
    · intro ks d s
      cases ks with
      | nil => rfl
      | cons k ks =>
        rw [seqList_succ_cons, seqList_succ_cons]
        simp only [ihW, ihL]

theorem pstep_provFail (g : Graph) (cfg : Cfg) (f : Nat → Bool) (s : PSt) (i : Nat) :
    pstep g { cfg with provFail := f } s i = pstep g cfg s i := rfl

end C12
