import BoxoModel.C12.Lemmas
/-! Termination of the parallel walk under every schedule: a measure that every event strictly decreases. -/
namespace C12

/-! ## the visitor's budget: how many more `true` answers it can give for CID `c` -/

def remv (lim : Int) (v : Vis) (c : Nat) : Nat :=
  match v.find c with
  | none => if lim < 0 then 1 else lim.toNat + 1
  | some od => if lim < 0 then 0 else od

def budget (lim : Int) (v : Vis) : Nat → Nat
  | 0 => 0
  | m + 1 => budget lim v m + remv lim v m

theorem visit_true_lim {lim : Int} {v v' : Vis} {c d od : Nat} (h : Vis.visit lim v c d = (v', true))
    (ho : Vis.find v c = some od) : lim ≥ 0 := by
  unfold Vis.visit at h
  simp only [ho, Option.isSome_some, Bool.true_and] at h
  split at h
  · simp at h
  · rename_i hc
    simp at hc
    omega

theorem remv_visit {lim : Int} {v v' : Vis} {c d : Nat} (h : Vis.visit lim v c d = (v', true)) :
    remv lim v' c + 1 ≤ remv lim v c ∧ ∀ x, x ≠ c → remv lim v' x = remv lim v x := by
  obtain ⟨rfl, hlim, hnew⟩ := Vis.visit_true h
  constructor
  · simp only [remv, Vis.find_cons, if_true]
    rcases hnew with hn | ⟨od, hn, hgt⟩
    · simp only [hn]
      rcases hlim with hl | hl
      · simp [hl]
      · have : ¬ lim < 0 := by omega
        simp only [this, if_false]
        omega
    · have hl := visit_true_lim h hn
      have : ¬ lim < 0 := by omega
      simp only [hn, this, if_false]
      omega
  · intro x hx
    simp only [remv, Vis.find_cons]
    have : ¬ c = x := fun h => hx h.symm
    simp [this]

theorem budget_visit {lim : Int} {v v' : Vis} {c d : Nat} (h : Vis.visit lim v c d = (v', true)) :
    ∀ M, c < M → budget lim v' M + 1 ≤ budget lim v M := by
  obtain ⟨h1, h2⟩ := remv_visit h
  have hle : ∀ M, budget lim v' M ≤ budget lim v M := by
    intro M
    induction M with
    | zero => simp [budget]
    | succ m ih =>
      simp only [budget]
      by_cases hm : m = c
      · subst hm; omega
      · rw [h2 m hm]; omega
  intro M
  induction M with
  | zero => intro h; omega
  | succ m ih =>
    intro hc
    simp only [budget]
    by_cases hm : m = c
    · subst hm
      have := hle m
      omega
    · have := ih (by omega)
      rw [h2 m hm]; omega

theorem budget_visit_false {lim : Int} {v v' : Vis} {c d : Nat} (h : Vis.visit lim v c d = (v', false)) : v' = v :=
  (Vis.visit_false h).1

/-! ## the universe of CIDs and the degree bound -/

def degOf (g : Graph) (c : Nat) : Nat := match g.get c with | .ok ks => ks.length | .fail _ => 0
def maxDeg (g : Graph) : Nat → Nat
  | 0 => 0
  | m + 1 => max (maxDeg g m) (degOf g m)

theorem degOf_le_maxDeg (g : Graph) : ∀ M c, c < M → degOf g c ≤ maxDeg g M := by
  intro M
  induction M with
  | zero => intro c h; omega
  | succ m ih =>
    intro c hc
    simp only [maxDeg]
    by_cases hm : c = m
    · subst hm; omega
    · have := ih c (by omega); omega

/-- `M` bounds every CID the walk can meet: the root and every link target -/
def Bounded (g : Graph) (root M : Nat) : Prop :=
  root < M ∧ g.n ≤ M ∧ ∀ c ks, g.get c = .ok ks → ∀ k ∈ ks, k < M

theorem eff_links {g : Graph} {cfg : Cfg} {c : Nat} {ks : List Nat} (h : eff g cfg c = .ok ks) :
    g.get c = .ok ks ∨ ks = [] := by
  unfold eff at h
  cases hg : g.get c with
  | ok ks' => simp [hg] at h; exact Or.inl (by rw [h])
  | fail e =>
    simp only [hg] at h
    split at h
    · cases h
    · simp at h; exact Or.inr h

theorem eff_len {g : Graph} {cfg : Cfg} {c M : Nat} {ks : List Nat} (hn : g.n ≤ M) (h : eff g cfg c = .ok ks) :
    ks.length ≤ maxDeg g M := by
  rcases eff_links h with hg | rfl
  · have hc : c < g.n := by
      unfold Graph.get at hg
      by_cases hc : c < g.n
      · exact hc
      · simp [hc] at hg
    have := degOf_le_maxDeg g M c (by omega)
    simp only [degOf, hg] at this
    exact this
  · simp

/-! ## weights -/

/-- extra weight of the skipped root item, which becomes open without consulting the visitor -/
def extra (cfg : Cfg) (Dg d : Nat) : Nat := if cfg.skipRoot = true ∧ d = 0 then 5 * Dg else 0

def itemW (cfg : Cfg) (Dg : Nat) (it : Nat × Nat) : Nat := 5 + extra cfg Dg it.2

def phaseW (cfg : Cfg) (Dg : Nat) : Phase → Nat
  | .idle => 0
  | .got _ d => 4 + extra cfg Dg d
  | .fetch _ _ => 3 + 5 * Dg
  | .out ks _ => 2 + 5 * ks.length
  | .done => 1
  | .err _ _ _ => 1

def sumW (f : α → Nat) : List α → Nat
  | [] => 0
  | x :: xs => f x + sumW f xs

theorem sumW_append (f : α → Nat) (xs ys : List α) : sumW f (xs ++ ys) = sumW f xs + sumW f ys := by
  induction xs with
  | nil => simp [sumW]
  | cons x xs ih => simp [sumW, ih]; omega

theorem sumW_set (f : Phase → Nat) : ∀ (ws : List Phase) (i : Nat) (h : i < ws.length) (p : Phase),
    sumW f (ws.set i p) + f ws[i] = sumW f ws + f p := by
  intro ws
  induction ws with
  | nil => intro i h; simp at h
  | cons q qs ih =>
    intro i h p
    cases i with
    | zero => simp [sumW]; omega
    | succ i =>
      have := ih i (by simpa using h) p
      simp [sumW] at this ⊢; omega

def optW (cfg : Cfg) (Dg : Nat) : Option (Nat × Nat) → Nat
  | none => 0
  | some it => itemW cfg Dg it

/-- the termination measure -/
def mu (g : Graph) (cfg : Cfg) (M : Nat) (s : PSt) : Nat :=
  (if s.result.isNone then 1 else 0) + (5 * maxDeg g M + 2) * budget cfg.lim s.w.vis M
    + optW cfg (maxDeg g M) s.next + sumW (itemW cfg (maxDeg g M)) s.queue + sumW (phaseW cfg (maxDeg g M)) s.workers

/-! ## every CID in flight is below the bound -/

structure InB (M : Nat) (s : PSt) : Prop where
  nx : ∀ c d, s.next = some (c, d) → c < M
  qu : ∀ c d, (c, d) ∈ s.queue → c < M
  gt : ∀ j (h : j < s.workers.length) c d, s.workers[j] = .got c d → c < M
  ou : ∀ j (h : j < s.workers.length) ks d, s.workers[j] = .out ks d → ∀ k ∈ ks, k < M

theorem sumW_items (cfg : Cfg) (Dg d : Nat) (hd : d ≥ 1) : ∀ ks : List Nat,
    sumW (itemW cfg Dg) (ks.map (fun k => (k, d))) = 5 * ks.length := by
  intro ks
  induction ks with
  | nil => rfl
  | cons k ks ih =>
    have : extra cfg Dg d = 0 := by
      unfold extra
      have : ¬(cfg.skipRoot = true ∧ d = 0) := by omega
      simp [this]
    simp only [List.map_cons, sumW, itemW, ih, this, List.length_cons]
    omega

theorem extra_zero {cfg : Cfg} {Dg d : Nat} (h : ¬(cfg.skipRoot = true ∧ d = 0)) : extra cfg Dg d = 0 := by
  unfold extra; simp [h]

theorem extra_skip {cfg : Cfg} {Dg d : Nat} (h : cfg.skipRoot = true ∧ d = 0) : extra cfg Dg d = 5 * Dg := by
  unfold extra; simp [h]

theorem InB.set {M : Nat} {s : PSt} (B : InB M s) {i : Nat} (p : Phase) (w' : WSt)
    (hg : ∀ c d, p = .got c d → c < M) (ho : ∀ ks d, p = .out ks d → ∀ k ∈ ks, k < M) :
    InB M { s with w := w', workers := s.workers.set i p } := by
  refine ⟨B.nx, B.qu, ?_, ?_⟩
  · intro j h c d hj
    rw [List.getElem_set] at hj
    split at hj
    · exact hg c d hj
    · exact B.gt j (by simpa using h) c d hj
  · intro j h ks d hj
    rw [List.getElem_set] at hj
    split at hj
    · exact ho ks d hj
    · exact B.ou j (by simpa using h) ks d hj

/-- measure after replacing worker `i`'s phase (walk state possibly changed, dispatcher untouched) -/
theorem mu_setW (g : Graph) (cfg : Cfg) (M : Nat) (s : PSt) (i : Nat) (hlt : i < s.workers.length) (p : Phase) (w' : WSt) :
    mu g cfg M { s with w := w', workers := s.workers.set i p } + phaseW cfg (maxDeg g M) s.workers[i]
      + (5 * maxDeg g M + 2) * budget cfg.lim s.w.vis M =
    mu g cfg M s + phaseW cfg (maxDeg g M) p + (5 * maxDeg g M + 2) * budget cfg.lim w'.vis M := by
  have := sumW_set (phaseW cfg (maxDeg g M)) s.workers i hlt p
  simp only [mu]
  omega

/-- `case send <- next` decreases the measure -/
theorem mu_send {g cfg M} {s : PSt} {i c d : Nat} (hi : s.workers[i]? = some .idle) (hn : s.next = some (c, d))
    (B : InB M s) (nx : Option (Nat × Nat)) (q : List (Nat × Nat))
    (hq : (s.queue = [] ∧ nx = none ∧ q = []) ∨ (∃ x, s.queue = x :: q ∧ nx = some x)) :
    mu g cfg M { s with next := nx, queue := q, inProgress := s.inProgress + 1, workers := s.workers.set i (.got c d) }
      < mu g cfg M s ∧
    InB M { s with next := nx, queue := q, inProgress := s.inProgress + 1, workers := s.workers.set i (.got c d) } := by
  obtain ⟨hlt, hget⟩ := getElem_of_getElem? hi
  have hw := sumW_set (phaseW cfg (maxDeg g M)) s.workers i hlt (.got c d)
  rw [hget] at hw
  constructor
  · have hwk : sumW (phaseW cfg (maxDeg g M)) (s.workers.set i (.got c d)) =
        sumW (phaseW cfg (maxDeg g M)) s.workers + (4 + extra cfg (maxDeg g M) d) := by
      simpa [phaseW] using hw
    have hdisp : optW cfg (maxDeg g M) nx + sumW (itemW cfg (maxDeg g M)) q = sumW (itemW cfg (maxDeg g M)) s.queue := by
      rcases hq with ⟨h1, rfl, rfl⟩ | ⟨x, h1, rfl⟩
      · simp [h1, optW, sumW]
      · simp [h1, optW, sumW]
    show (if s.result.isNone then 1 else 0) + (5 * maxDeg g M + 2) * budget cfg.lim s.w.vis M
        + optW cfg (maxDeg g M) nx + sumW (itemW cfg (maxDeg g M)) q
        + sumW (phaseW cfg (maxDeg g M)) (s.workers.set i (.got c d)) < mu g cfg M s
    have hmu : mu g cfg M s = (if s.result.isNone then 1 else 0) + (5 * maxDeg g M + 2) * budget cfg.lim s.w.vis M
        + (5 + extra cfg (maxDeg g M) d) + sumW (itemW cfg (maxDeg g M)) s.queue
        + sumW (phaseW cfg (maxDeg g M)) s.workers := by
      simp [mu, hn, optW, itemW]
    rw [hmu, hwk]
    omega
  · refine ⟨?_, ?_, ?_, ?_⟩
    · intro c' d' h
      rcases hq with ⟨_, rfl, _⟩ | ⟨x, h1, rfl⟩
      · cases h
      · simp only [Option.some.injEq] at h
        exact B.qu c' d' (by rw [h1, h]; exact List.mem_cons_self)
    · intro c' d' h
      rcases hq with ⟨_, _, rfl⟩ | ⟨x, h1, _⟩
      · simp at h
      · exact B.qu c' d' (by rw [h1]; exact List.mem_cons_of_mem _ h)
    · intro j h c' d' hj
      rw [List.getElem_set] at hj
      split at hj
      · cases hj; exact B.nx c d hn
      · exact B.gt j (by simpa using h) c' d' hj
    · intro j h ks d' hj
      rw [List.getElem_set] at hj
      split at hj
      · cases hj
      · exact B.ou j (by simpa using h) ks d' hj

theorem mu_bypass {g cfg M} {s : PSt} {i c d : Nat} (hi : s.workers[i]? = some (.got c d))
    (hs : cfg.skipRoot = true) (hd : d = 0) (B : InB M s) :
    mu g cfg M { s with workers := s.workers.set i (.fetch c d) } < mu g cfg M s ∧
    InB M { s with workers := s.workers.set i (.fetch c d) } := by
  obtain ⟨hlt, hget⟩ := getElem_of_getElem? hi
  have h := mu_setW g cfg M s i hlt (.fetch c d) s.w
  rw [hget] at h
  simp only [phaseW, extra_skip ⟨hs, hd⟩] at h
  exact ⟨by omega, B.set _ _ (by intro _ _ h; cases h) (by intro _ _ h; cases h)⟩

theorem mu_visit {g cfg M} {s : PSt} {i c d : Nat} (hi : s.workers[i]? = some (.got c d))
    (hns : ¬(cfg.skipRoot = true ∧ d = 0)) (B : InB M s) :
    mu g cfg M { s with w := (afterVisit cfg s.w c d).1,
                        workers := s.workers.set i (if (afterVisit cfg s.w c d).2 then .fetch c d else .done) }
      < mu g cfg M s ∧
    InB M { s with w := (afterVisit cfg s.w c d).1,
                   workers := s.workers.set i (if (afterVisit cfg s.w c d).2 then .fetch c d else .done) } := by
  obtain ⟨hlt, hget⟩ := getElem_of_getElem? hi
  have hcM : c < M := B.gt i hlt c d hget
  cases hb : (afterVisit cfg s.w c d).2 with
  | false =>
    simp only [Bool.false_eq_true, if_false]
    have h := mu_setW g cfg M s i hlt .done (afterVisit cfg s.w c d).1
    rw [hget] at h
    have hv : Vis.visit cfg.lim s.w.vis c d = ((Vis.visit cfg.lim s.w.vis c d).1, false) := by
      simp only [afterVisit] at hb; rw [← hb]
    have hvis : (afterVisit cfg s.w c d).1.vis = s.w.vis := by
      simp only [afterVisit]; exact budget_visit_false hv
    rw [hvis] at h
    simp only [phaseW, extra_zero hns] at h
    exact ⟨by omega, B.set _ _ (by intro _ _ h; cases h) (by intro _ _ h; cases h)⟩
  | true =>
    simp only [if_true]
    have h := mu_setW g cfg M s i hlt (.fetch c d) (afterVisit cfg s.w c d).1
    rw [hget] at h
    have hv : Vis.visit cfg.lim s.w.vis c d = ((Vis.visit cfg.lim s.w.vis c d).1, true) := by
      simp only [afterVisit] at hb; rw [← hb]
    have hbud := budget_visit hv M hcM
    have hvis : (afterVisit cfg s.w c d).1.vis = (Vis.visit cfg.lim s.w.vis c d).1 := rfl
    rw [hvis] at h
    simp only [phaseW, extra_zero hns] at h
    have hmul := Nat.mul_le_mul_left (5 * maxDeg g M + 2) hbud
    rw [Nat.mul_add, Nat.mul_one] at hmul
    refine ⟨?_, B.set _ _ (by intro _ _ h; cases h) (by intro _ _ h; cases h)⟩
    generalize (5 * maxDeg g M + 2) * budget cfg.lim (Vis.visit cfg.lim s.w.vis c d).1 M = X at h hmul
    generalize (5 * maxDeg g M + 2) * budget cfg.lim s.w.vis M = Y at h hmul
    omega

theorem mu_fetch {g cfg M root} {s : PSt} {i c d : Nat} (hi : s.workers[i]? = some (.fetch c d))
    (hB : Bounded g root M) (B : InB M s) :
    mu g cfg M { s with w := { s.w with logs := (fetchStep g cfg c s.w.logs).2 },
                        workers := s.workers.set i (match (fetchStep g cfg c s.w.logs).1 with
                          | .error e => .err e c d
                          | .ok ks => .out ks (d + 1)) } < mu g cfg M s ∧
    InB M { s with w := { s.w with logs := (fetchStep g cfg c s.w.logs).2 },
                   workers := s.workers.set i (match (fetchStep g cfg c s.w.logs).1 with
                     | .error e => .err e c d
                     | .ok ks => .out ks (d + 1)) } := by
  obtain ⟨hlt, hget⟩ := getElem_of_getElem? hi
  cases hf : (fetchStep g cfg c s.w.logs).1 with
  | error e =>
    simp only []
    have h := mu_setW g cfg M s i hlt (.err e c d) { s.w with logs := (fetchStep g cfg c s.w.logs).2 }
    rw [hget] at h
    simp only [phaseW] at h
    exact ⟨by omega, B.set _ _ (by intro _ _ h; cases h) (by intro _ _ h; cases h)⟩
  | ok ks =>
    simp only []
    have h := mu_setW g cfg M s i hlt (.out ks (d + 1)) { s.w with logs := (fetchStep g cfg c s.w.logs).2 }
    rw [hget] at h
    simp only [phaseW] at h
    rw [fetchStep_fst] at hf
    have hlen := eff_len (M := M) hB.2.1 hf
    refine ⟨by omega, B.set _ _ (by intro _ _ h; cases h) ?_⟩
    intro ks' d' he k hk
    cases he
    rcases eff_links hf with hg | rfl
    · exact hB.2.2 c ks hg k hk
    · simp at hk

theorem mu_out {g cfg M} {s : PSt} {i d : Nat} {ks : List Nat} (hi : s.workers[i]? = some (.out ks d))
    (hd : d ≥ 1) (B : InB M s) (nx : Option (Nat × Nat)) (q : List (Nat × Nat))
    (hq : (∃ x0, s.next = some x0 ∧ nx = some x0 ∧ q = s.queue ++ ks.map (fun k => (k, d))) ∨
          (s.next = none ∧ ks = [] ∧ nx = none ∧ q = s.queue) ∨
          (∃ k0 ks', s.next = none ∧ ks = k0 :: ks' ∧ nx = some (k0, d) ∧ q = s.queue ++ ks'.map (fun k => (k, d)))) :
    mu g cfg M { s with next := nx, queue := q, workers := s.workers.set i .done } < mu g cfg M s ∧
    InB M { s with next := nx, queue := q, workers := s.workers.set i .done } := by
  obtain ⟨hlt, hget⟩ := getElem_of_getElem? hi
  have hw := sumW_set (phaseW cfg (maxDeg g M)) s.workers i hlt .done
  rw [hget] at hw
  have hwk : sumW (phaseW cfg (maxDeg g M)) (s.workers.set i .done) + (1 + 5 * ks.length) =
      sumW (phaseW cfg (maxDeg g M)) s.workers := by
    simp only [phaseW] at hw; omega
  have hex : extra cfg (maxDeg g M) d = 0 := extra_zero (by omega)
  have hdisp : optW cfg (maxDeg g M) nx + sumW (itemW cfg (maxDeg g M)) q =
      optW cfg (maxDeg g M) s.next + sumW (itemW cfg (maxDeg g M)) s.queue + 5 * ks.length := by
    rcases hq with ⟨x0, h1, rfl, rfl⟩ | ⟨h1, rfl, rfl, rfl⟩ | ⟨k0, ks', h1, rfl, rfl, rfl⟩
    · rw [h1, sumW_append, sumW_items cfg _ d hd]; omega
    · simp [h1]
    · rw [h1, sumW_append, sumW_items cfg _ d hd]
      simp only [optW, itemW, hex, List.length_cons]; omega
  have hks : ∀ k ∈ ks, k < M := B.ou i hlt ks d hget
  constructor
  · show (if s.result.isNone then 1 else 0) + (5 * maxDeg g M + 2) * budget cfg.lim s.w.vis M
        + optW cfg (maxDeg g M) nx + sumW (itemW cfg (maxDeg g M)) q
        + sumW (phaseW cfg (maxDeg g M)) (s.workers.set i .done) < mu g cfg M s
    simp only [mu]
    omega
  · refine ⟨?_, ?_, ?_, ?_⟩
    · intro c' d' h
      have h' : nx = some (c', d') := h
      rcases hq with ⟨x0, h1, rfl, _⟩ | ⟨_, _, rfl, _⟩ | ⟨k0, ks', _, rfl, rfl, _⟩
      · exact B.nx c' d' (by rw [h1, h'])
      · cases h'
      · simp only [Option.some.injEq, Prod.mk.injEq] at h'
        exact hks c' (by rw [← h'.1]; exact List.mem_cons_self)
    · intro c' d' h
      have h' : (c', d') ∈ q := h
      have hm : ∀ (l : List Nat), (c', d') ∈ l.map (fun k => (k, d)) → c' ∈ l := by
        intro l hl
        simp only [List.mem_map, Prod.mk.injEq] at hl
        obtain ⟨a, ha, rfl, _⟩ := hl
        exact ha
      rcases hq with ⟨x0, _, _, rfl⟩ | ⟨_, _, _, rfl⟩ | ⟨k0, ks', _, rfl, _, rfl⟩
      · rcases List.mem_append.1 h' with h'' | h''
        · exact B.qu c' d' h''
        · exact hks c' (hm ks h'')
      · exact B.qu c' d' h'
      · rcases List.mem_append.1 h' with h'' | h''
        · exact B.qu c' d' h''
        · exact hks c' (List.mem_cons_of_mem _ (hm ks' h''))
    · intro j h c' d' hj
      rw [List.getElem_set] at hj
      split at hj
      · cases hj
      · exact B.gt j (by simpa using h) c' d' hj
    · intro j h ks' d' hj
      rw [List.getElem_set] at hj
      split at hj
      · cases hj
      · exact B.ou j (by simpa using h) ks' d' hj

theorem mu_done {g cfg M} {s : PSt} {i : Nat} (hi : s.workers[i]? = some .done) (hr : s.result = none) (B : InB M s)
    (r : Option (Option Err)) :
    mu g cfg M { s with inProgress := s.inProgress - 1, workers := s.workers.set i .idle, result := r } < mu g cfg M s ∧
    InB M { s with inProgress := s.inProgress - 1, workers := s.workers.set i .idle, result := r } := by
  obtain ⟨hlt, hget⟩ := getElem_of_getElem? hi
  have hw := sumW_set (phaseW cfg (maxDeg g M)) s.workers i hlt .idle
  rw [hget] at hw
  simp only [phaseW] at hw
  constructor
  · show (if r.isNone then 1 else 0) + (5 * maxDeg g M + 2) * budget cfg.lim s.w.vis M
        + optW cfg (maxDeg g M) s.next + sumW (itemW cfg (maxDeg g M)) s.queue
        + sumW (phaseW cfg (maxDeg g M)) (s.workers.set i .idle) < mu g cfg M s
    simp only [mu, hr, Option.isNone_none, if_true]
    have : (if r.isNone = true then 1 else 0) ≤ 1 := by split <;> omega
    omega
  · refine ⟨B.nx, B.qu, ?_, ?_⟩
    · intro j h c' d' hj
      rw [List.getElem_set] at hj
      split at hj
      · cases hj
      · exact B.gt j (by simpa using h) c' d' hj
    · intro j h ks' d' hj
      rw [List.getElem_set] at hj
      split at hj
      · cases hj
      · exact B.ou j (by simpa using h) ks' d' hj

theorem mu_err {g cfg M} {s : PSt} (hr : s.result = none) (B : InB M s) (e : Err) :
    mu g cfg M { s with result := some (some e) } < mu g cfg M s ∧ InB M { s with result := some (some e) } := by
  constructor
  · show (if (some (some e) : Option (Option Err)).isNone then 1 else 0) + (5 * maxDeg g M + 2) * budget cfg.lim s.w.vis M
        + optW cfg (maxDeg g M) s.next + sumW (itemW cfg (maxDeg g M)) s.queue
        + sumW (phaseW cfg (maxDeg g M)) s.workers < mu g cfg M s
    simp only [mu, hr, Option.isNone_none, if_true, Option.isNone_some, Bool.false_eq_true, if_false]
    omega
  · exact ⟨B.nx, B.qu, B.gt, B.ou⟩

theorem inb_init {g : Graph} {root M : Nat} (hB : Bounded g root M) (conc : Nat) : InB M (PSt.init root conc) := by
  refine ⟨?_, by simp [PSt.init], ?_, ?_⟩
  · intro c d h; simp [PSt.init] at h; rw [← h.1]; exact hB.1
  · intro j h c d hj; simp [PSt.init] at hj
  · intro j h ks d hj; simp [PSt.init] at hj

/-- every event strictly decreases the measure (and keeps every CID in flight below the bound) -/
theorem pstep_mu {g cfg root M} {s s' : PSt} {i : Nat} (hB : Bounded g root M) (h : pstep g cfg s i = some s')
    (I : PInv g cfg root s) (B : InB M s) : mu g cfg M s' < mu g cfg M s ∧ InB M s' := by
  unfold pstep at h
  cases hr : s.result with
  | some r => simp [hr] at h
  | none =>
    simp only [show s.result.isSome = false by rw [hr]; rfl, Bool.false_eq_true, if_false] at h
    cases hi : s.workers[i]? with
    | none => simp [hi] at h
    | some ph =>
      simp only [hi] at h
      cases ph with
      | idle =>
        simp only at h
        cases hn : s.next with
        | none => simp [hn] at h
        | some cd =>
          obtain ⟨c, d⟩ := cd
          simp only [hn] at h
          cases hq : s.queue with
          | nil =>
            simp only [hq, Option.some.injEq] at h
            subst h
            have := mu_send (g := g) (cfg := cfg) hi hn B none [] (Or.inl ⟨hq, rfl, rfl⟩)
            simpa [hq] using this
          | cons x q =>
            simp only [hq, Option.some.injEq] at h
            subst h
            exact mu_send hi hn B (some x) q (Or.inr ⟨x, hq, rfl⟩)
      | got c d =>
        simp only at h
        by_cases hsk : (cfg.skipRoot && d == 0) = true
        · simp only [hsk, if_true, Option.some.injEq] at h
          subst h
          simp only [Bool.and_eq_true, beq_iff_eq] at hsk
          exact mu_bypass hi hsk.1 hsk.2 B
        · simp only [hsk, Bool.false_eq_true, if_false, Option.some.injEq] at h
          subst h
          simp only [Bool.and_eq_true, beq_iff_eq] at hsk
          exact mu_visit hi hsk B
      | fetch c d =>
        simp only at h
        have := mu_fetch (g := g) (cfg := cfg) (M := M) (root := root) hi hB B
        cases hf : (fetchStep g cfg c s.w.logs).1 with
        | error e =>
          simp only [hf, Option.some.injEq] at h this
          subst h; exact this
        | ok ks =>
          simp only [hf, Option.some.injEq] at h this
          subst h; exact this
      | out ks d =>
        simp only at h
        obtain ⟨hlt, hget⟩ := getElem_of_getElem? hi
        have hd : d ≥ 1 := I.2.od i hlt ks d hget
        cases hn : s.next with
        | some x0 =>
          simp only [hn, Option.some.injEq] at h
          subst h
          exact mu_out hi hd B (some x0) _ (Or.inl ⟨x0, hn, rfl, rfl⟩)
        | none =>
          cases ks with
          | nil =>
            simp only [hn, List.map_nil, Option.some.injEq] at h
            subst h
            exact mu_out hi hd B none _ (Or.inr (Or.inl ⟨hn, rfl, rfl, rfl⟩))
          | cons k0 ks' =>
            simp only [hn, List.map_cons, Option.some.injEq] at h
            subst h
            exact mu_out hi hd B (some (k0, d)) _ (Or.inr (Or.inr ⟨k0, ks', hn, rfl, rfl, rfl⟩))
      | done =>
        simp only [Option.some.injEq] at h
        subst h
        exact mu_done hi hr B _
      | err e c d =>
        simp only [Option.some.injEq] at h
        subst h
        exact mu_err hr B e

/-- along any schedule the measure bounds the number of events still possible -/
theorem PReach.inb {g cfg root conc M s} (hB : Bounded g root M) (h : PReach g cfg root conc s) : InB M s := by
  induction h with
  | init => exact inb_init hB conc
  | step hs hstep ih => exact (pstep_mu hB hstep hs.pinv ih).2

/-- a bound `M` exists for every graph and root -/
def linkBound (g : Graph) : Nat → Nat
  | 0 => 0
  | m + 1 => max (linkBound g m) (match g.get m with | .ok ks => ks.foldl (fun a k => max a (k + 1)) 0 | .fail _ => 0)

theorem foldl_max_ge (ks : List Nat) : ∀ a, a ≤ ks.foldl (fun a k => max a (k + 1)) a ∧
    ∀ k ∈ ks, k < ks.foldl (fun a k => max a (k + 1)) a := by
  induction ks with
  | nil => intro a; simp
  | cons x xs ih =>
    intro a
    simp only [List.foldl_cons]
    obtain ⟨h1, h2⟩ := ih (max a (x + 1))
    refine ⟨by omega, ?_⟩
    intro k hk
    rcases List.mem_cons.1 hk with rfl | hk
    · omega
    · exact h2 k hk

theorem linkBound_spec (g : Graph) : ∀ m c ks, c < m → g.get c = .ok ks → ∀ k ∈ ks, k < linkBound g m := by
  intro m
  induction m with
  | zero => intro c ks h; omega
  | succ m ih =>
    intro c ks hc hg k hk
    simp only [linkBound]
    by_cases hm : c = m
    · subst hm
      simp only [hg]
      have := (foldl_max_ge ks 0).2 k hk
      omega
    · have := ih c ks (by omega) hg k hk
      omega

theorem bounded_exists (g : Graph) (root : Nat) : ∃ M, Bounded g root M := by
  refine ⟨max (max (root + 1) g.n) (linkBound g g.n), by omega, by omega, ?_⟩
  intro c ks hg k hk
  have hc : c < g.n := by
    unfold Graph.get at hg
    by_cases hc : c < g.n
    · exact hc
    · simp [hc] at hg
  have := linkBound_spec g g.n c ks hc hg k hk
  omega

end C12

namespace C12

/-! ## fuel sufficiency of the sequential walk -/

theorem budget_afterVisit_le (cfg : Cfg) (w : WSt) (c d M : Nat) :
    budget cfg.lim (afterVisit cfg w c d).1.vis M ≤ budget cfg.lim w.vis M := by
  cases hb : (Vis.visit cfg.lim w.vis c d).2 with
  | false =>
    have hv : Vis.visit cfg.lim w.vis c d = ((Vis.visit cfg.lim w.vis c d).1, false) := by rw [← hb]
    have : (afterVisit cfg w c d).1.vis = w.vis := by simp only [afterVisit]; exact budget_visit_false hv
    rw [this]; exact Nat.le_refl _
  | true =>
    have hv : Vis.visit cfg.lim w.vis c d = ((Vis.visit cfg.lim w.vis c d).1, true) := by rw [← hb]
    obtain ⟨h1, h2⟩ := remv_visit hv
    show budget cfg.lim (Vis.visit cfg.lim w.vis c d).1 M ≤ _
    induction M with
    | zero => simp [budget]
    | succ m ih =>
      simp only [budget]
      by_cases hm : m = c
      · subst hm; omega
      · rw [h2 m hm]; omega

/-- fuel that suffices for `seqWalk … c d s` / `seqList … ks d s`, in terms of the visitor's remaining budget `b` -/
def needW (cfg : Cfg) (Dg b d : Nat) : Nat := 1 + b * (Dg + 2) + (if cfg.skipRoot = true ∧ d = 0 then Dg + 2 else 0)
def needL (Dg b n : Nat) : Nat := n + 2 + b * (Dg + 2)

def SeqFuelW (g : Graph) (cfg : Cfg) (M fuel : Nat) : Prop :=
  ∀ c d s, c < M → needW cfg (maxDeg g M) (budget cfg.lim s.vis M) d ≤ fuel →
    (seqWalk g cfg fuel c d s).1 ≠ .fuel ∧ budget cfg.lim (seqWalk g cfg fuel c d s).2.vis M ≤ budget cfg.lim s.vis M

def SeqFuelL (g : Graph) (cfg : Cfg) (M fuel : Nat) : Prop :=
  ∀ ks d s, (∀ k ∈ ks, k < M) → d ≥ 1 → needL (maxDeg g M) (budget cfg.lim s.vis M) ks.length ≤ fuel →
    (seqList g cfg fuel ks d s).1 ≠ .fuel ∧ budget cfg.lim (seqList g cfg fuel ks d s).2.vis M ≤ budget cfg.lim s.vis M

theorem seq_fuel {g : Graph} {cfg : Cfg} {root M : Nat} (hB : Bounded g root M) :
    ∀ fuel, SeqFuelW g cfg M fuel ∧ SeqFuelL g cfg M fuel := by
  intro fuel
  induction fuel with
  | zero =>
    constructor
    · intro c d s _ h; simp [needW] at h
    · intro ks d s _ _ h; simp [needL] at h
  | succ n ih =>
    obtain ⟨ihW, ihL⟩ := ih
    constructor
    · intro c d s hc hneed
      rw [seqWalk_succ]
      -- after the visitor accepted (or was bypassed) in state `w` with budget `bw`
      have after : ∀ (w : WSt), needL (maxDeg g M) (budget cfg.lim w.vis M) (maxDeg g M) ≤ n →
          budget cfg.lim w.vis M ≤ budget cfg.lim s.vis M →
          (match (fetchStep g cfg c w.logs).1 with
            | .error e => ((Outcome.abort e, ({ w with logs := (fetchStep g cfg c w.logs).2 } : WSt)) : Outcome × WSt)
            | .ok ks => seqList g cfg n ks (d + 1) { w with logs := (fetchStep g cfg c w.logs).2 }).1 ≠ .fuel ∧
          budget cfg.lim (match (fetchStep g cfg c w.logs).1 with
            | .error e => ((Outcome.abort e, ({ w with logs := (fetchStep g cfg c w.logs).2 } : WSt)) : Outcome × WSt)
            | .ok ks => seqList g cfg n ks (d + 1) { w with logs := (fetchStep g cfg c w.logs).2 }).2.vis M
            ≤ budget cfg.lim s.vis M := by
        intro w hn hle
        cases hf : (fetchStep g cfg c w.logs).1 with
        | error e => exact ⟨(fun h => nomatch h), hle⟩
        | ok ks =>
          simp only []
          rw [fetchStep_fst] at hf
          have hlen := eff_len (M := M) hB.2.1 hf
          have hks : ∀ k ∈ ks, k < M := by
            intro k hk
            rcases eff_links hf with hg | rfl
            · exact hB.2.2 c ks hg k hk
            · simp at hk
          have := ihL ks (d + 1) { w with logs := (fetchStep g cfg c w.logs).2 } hks (by omega)
            (by simp only [needL] at hn ⊢; omega)
          exact ⟨this.1, Nat.le_trans this.2 hle⟩
      by_cases hsk : cfg.skipRoot = true ∧ d = 0
      · have hc' : (!cfg.skipRoot || d != 0) = false := by simp [hsk.1, hsk.2]
        simp only [hc', Bool.false_eq_true, if_false, Bool.not_true]
        refine after s ?_ (Nat.le_refl _)
        simp only [needW, hsk, and_self, if_true] at hneed
        simp only [needL]; omega
      · have hc' : (!cfg.skipRoot || d != 0) = true := by
          cases hs : cfg.skipRoot <;> simp_all
        simp only [hc', if_true]
        simp only [needW, hsk, if_false] at hneed
        cases hb : (afterVisit cfg s c d).2 with
        | false =>
          simp only [Bool.not_false, if_true]
          exact ⟨(fun h => nomatch h), budget_afterVisit_le cfg s c d M⟩
        | true =>
          simp only [Bool.not_true, Bool.false_eq_true, if_false]
          have hv : Vis.visit cfg.lim s.vis c d = ((Vis.visit cfg.lim s.vis c d).1, true) := by
            simp only [afterVisit] at hb; rw [← hb]
          have hbud : budget cfg.lim (afterVisit cfg s c d).1.vis M + 1 ≤ budget cfg.lim s.vis M :=
            budget_visit hv M hc
          refine after _ ?_ (by omega)
          have hmul := Nat.mul_le_mul_right (maxDeg g M + 2) hbud
          rw [Nat.add_mul, Nat.one_mul] at hmul
          simp only [needL]
          generalize budget cfg.lim (afterVisit cfg s c d).1.vis M * (maxDeg g M + 2) = X at hmul ⊢
          generalize budget cfg.lim s.vis M * (maxDeg g M + 2) = Y at hmul hneed
          omega
    · intro ks d s hks hd hneed
      cases ks with
      | nil => exact ⟨by simp [seqList], by simp [seqList]⟩
      | cons k ks =>
        rw [seqList_succ_cons]
        have hnsk : ¬(cfg.skipRoot = true ∧ d = 0) := by omega
        simp only [needL, List.length_cons] at hneed
        have hw := ihW k d s (hks k List.mem_cons_self) (by simp only [needW, hnsk, if_false]; omega)
        cases ho : (seqWalk g cfg n k d s).1 with
        | ok =>
          simp only []
          have hmul := Nat.mul_le_mul_right (maxDeg g M + 2) hw.2
          have hl := ihL ks d (seqWalk g cfg n k d s).2 (fun x hx => hks x (List.mem_cons_of_mem _ hx)) hd
            (by simp only [needL]; omega)
          exact ⟨hl.1, Nat.le_trans hl.2 hw.2⟩
        | abort e => exact ⟨(fun h => nomatch h), hw.2⟩
        | fuel => exact absurd ho hw.1

/-- a fuel bound for the whole sequential walk from `root` -/
def seqFuel (g : Graph) (cfg : Cfg) (M : Nat) : Nat := (budget cfg.lim [] M + 1) * (maxDeg g M + 2) + 1

theorem seqWalk_fuel_ok {g : Graph} {cfg : Cfg} {root M : Nat} (hB : Bounded g root M) (fuel : Nat)
    (hf : seqFuel g cfg M ≤ fuel) : (seqWalk g cfg fuel root 0 {}).1 ≠ .fuel := by
  refine ((seq_fuel hB fuel).1 root 0 {} hB.1 ?_).1
  simp only [needW, seqFuel] at hf ⊢
  have : (budget cfg.lim [] M + 1) * (maxDeg g M + 2) = budget cfg.lim [] M * (maxDeg g M + 2) + (maxDeg g M + 2) := by
    rw [Nat.add_mul, Nat.one_mul]
  show 1 + budget cfg.lim ({} : WSt).vis M * (maxDeg g M + 2) + _ ≤ fuel
  have e : ({} : WSt).vis = [] := rfl
  rw [e]
  split <;> omega

end C12
