/-
C12 — ipld/merkledag: executable model of the DAG walks.

Transcribed from /repo/ipld/merkledag/merkledag.go (with the two `fix:` commits of branch verif/walks applied:
`addHandler` captures the previous handler, `parallelWalkDepth` passes the failing CID `ci` — not the walk
root — to the error handler and the provider):
  walkOptions / addHandler / IgnoreErrors / IgnoreMissing / OnMissing / OnError  ~ `HK`, `runChain`
  FetchGraphWithDepthLimit's visit closure (and cid.Set.Visit for lim < 0)       ~ `Vis.visit`
  sequentialWalkDepth                                                            ~ `seqWalk`
  parallelWalkDepth                                                              ~ `PSt`, `pstep` (small-step:
       one event per channel rendezvous / visit call / getLinks call), `prun` (a scheduler-driven run)

A CID is a natural number. The graph is what `getLinks` answers: links in order or an error.
Core-only: imported by the line-protocol driver.
-/
namespace C12

inductive Err where
  | notfound   -- format.IsNotFound(err)
  | other      -- any other error of getLinks
  | custom     -- the error an OnError handler substitutes
  deriving DecidableEq, Repr

inductive Res where
  | ok (ks : List Nat)
  | fail (e : Err)
  deriving Repr

structure Graph where
  /-- CIDs `≥ n` are unknown: getLinks answers not-found -/
  n : Nat
  links : Nat → Res

def Graph.get (g : Graph) (c : Nat) : Res := if c < g.n then g.links c else .fail .notfound

/-- the error options, in the order they were passed -/
inductive HK where
  | ignoreErrors
  | ignoreMissing
  | onMissing
  /-- OnError with a handler that records its arguments and returns: 0 the error it got, 1 nil, 2 a new error -/
  | onError (mode : Nat)
  deriving DecidableEq, Repr

structure Logs where
  /-- every call of the visit callback: (cid, depth, answer) -/
  visits : List (Nat × Nat × Bool) := []
  /-- arguments of the OnMissing callback -/
  missing : List Nat := []
  /-- arguments of the OnError handler -/
  onerr : List (Nat × Option Err) := []
  /-- arguments of Provider.StartProviding -/
  prov : List Nat := []

/-- one handler of the chain (the closures built by the option constructors) -/
def applyH (h : HK) (c : Nat) (e : Option Err) (l : Logs) : Option Err × Logs :=
  match h with
  | .ignoreErrors => (none, l)
  | .ignoreMissing => (if e = some .notfound then none else e, l)
  | .onMissing => (e, if e = some .notfound then { l with missing := l.missing ++ [c] } else l)
  | .onError m =>
    let l' := { l with onerr := l.onerr ++ [(c, e)] }
    (if m = 1 then none else if m = 2 then some .custom else e, l')

/-- `opts.ErrorHandler(c, err)` as composed by (the repaired) `addHandler`: the handlers run in option
order, each receiving what the previous one returned (possibly nil). -/
def runChain (hs : List HK) (c : Nat) (e : Option Err) (l : Logs) : Option Err × Logs :=
  hs.foldl (fun (st : Option Err × Logs) h => applyH h c st.1 st.2) (e, l)

structure Cfg where
  skipRoot : Bool := false
  provider : Bool := false
  handlers : List HK := []
  /-- depth limit of the visitor (`< 0` = unlimited) -/
  lim : Int := -1
  /-- the CIDs for which `Provider.StartProviding` returns an error -/
  provFail : Nat → Bool := fun _ => false

/-- the `set map[cid.Cid]int` of FetchGraphWithDepthLimit -/
abbrev Vis := List (Nat × Nat)

def Vis.find (v : Vis) (c : Nat) : Option Nat := (v.find? (fun p => p.1 == c)).map (·.2)

/-- the visit closure of FetchGraphWithDepthLimit; for `lim < 0` it is `cid.Set.Visit` -/
def Vis.visit (lim : Int) (v : Vis) (c d : Nat) : Vis × Bool :=
  let old := v.find c
  if (old.isSome && lim < 0) || (lim ≥ 0 && (d : Int) > lim) then (v, false)
  else
    match old with
    | none => ((c, d) :: v, true)
    | some od => if od > d then ((c, d) :: v, true) else (v, false)

structure WSt where
  vis : Vis := []
  logs : Logs := {}

/-- getLinks + error handler + provider, as both walks do it. `none` = the walk aborts with the error. -/
def fetchStep (g : Graph) (cfg : Cfg) (c : Nat) (l : Logs) : (Except Err (List Nat)) × Logs :=
  let r : (Option Err × List Nat) := match g.get c with
    | .ok ks => (none, ks)
    | .fail e => (some e, [])
  let r2 : Option Err × Logs :=
    if r.1.isSome && !cfg.handlers.isEmpty then runChain cfg.handlers c r.1 l else (r.1, l)
  match r2.1 with
  | some e => (.error e, r2.2)
  | none =>
    -- `if err = prov.StartProviding(false, c.Hash()); err != nil { log.Warnf(...) }`: the provider's error is
    -- only logged; neither walk returns it (`C12.c12_provider_error_ignored`)
    let l3 := if cfg.provider then
        let _warned : Bool := cfg.provFail c
        { r2.2 with prov := r2.2.prov ++ [c] }
      else r2.2
    (.ok r.2, l3)

inductive Outcome where
  | ok
  | abort (e : Err)
  | fuel
  deriving DecidableEq, Repr

mutual
/-- `sequentialWalkDepth` -/
def seqWalk (g : Graph) (cfg : Cfg) : Nat → Nat → Nat → WSt → Outcome × WSt
  | 0, _, _, s => (.fuel, s)
  | fuel + 1, c, d, s =>
    let vr : WSt × Bool :=
      if !cfg.skipRoot || d != 0 then
        let r := s.vis.visit cfg.lim c d
        ({ vis := r.1, logs := { s.logs with visits := s.logs.visits ++ [(c, d, r.2)] } }, r.2)
      else (s, true)
    if !vr.2 then (.ok, vr.1)
    else
      let fr := fetchStep g cfg c vr.1.logs
      match fr.1 with
      | .error e => (.abort e, { vr.1 with logs := fr.2 })
      | .ok ks => seqList g cfg fuel ks (d + 1) { vr.1 with logs := fr.2 }
/-- the `for _, lnk := range links` loop -/
def seqList (g : Graph) (cfg : Cfg) : Nat → List Nat → Nat → WSt → Outcome × WSt
  | 0, _, _, s => (.fuel, s)
  | _ + 1, [], _, s => (.ok, s)
  | fuel + 1, k :: ks, d, s =>
    let r := seqWalk g cfg fuel k d s
    match r.1 with
    | .ok => seqList g cfg fuel ks d r.2
    | o => (o, r.2)
end

/-! ## parallel walk, small-step -/

inductive Phase where
  | idle                         -- blocked in `for cdepth := range feed`
  | got (c d : Nat)              -- received an item, about to call visit (or bypass it for the skipped root)
  | fetch (c d : Nat)            -- shouldVisit = true, about to call getLinks
  | out (ks : List Nat) (d : Nat) -- blocked in `out <- outLinks` (d = depth of the children)
  | done                         -- blocked in `done <- struct{}{}`
  | err (e : Err) (c d : Nat)    -- blocked in `errChan <- err` (c, d: the item whose fetch failed; ghost)
  deriving Repr

structure PSt where
  next : Option (Nat × Nat)
  queue : List (Nat × Nat) := []
  inProgress : Nat := 0
  workers : List Phase
  w : WSt := {}
  /-- `none` = the dispatcher loop is running; `some r` = parallelWalkDepth returned `r` -/
  result : Option (Option Err) := none

def PSt.init (root : Nat) (conc : Nat) : PSt :=
  { next := some (root, 0), workers := List.replicate conc .idle }

/-- the event worker `i` takes part in next (its own step or its rendezvous with the dispatcher);
`none` = not enabled -/
def pstep (g : Graph) (cfg : Cfg) (s : PSt) (i : Nat) : Option PSt :=
  if s.result.isSome then none else
  match s.workers[i]? with
  | none => none
  | some ph =>
    let setW (p : Phase) : List Phase := s.workers.set i p
    match ph with
    | .idle =>
      -- `case send <- next`
      match s.next with
      | none => none
      | some (c, d) =>
        let (nx, q) := match s.queue with
          | [] => (none, [])
          | x :: q => (some x, q)
        some { s with next := nx, queue := q, inProgress := s.inProgress + 1, workers := setW (.got c d) }
    | .got c d =>
      if cfg.skipRoot && d == 0 then some { s with workers := setW (.fetch c d) }
      else
        let r := s.w.vis.visit cfg.lim c d
        let w' : WSt := { vis := r.1, logs := { s.w.logs with visits := s.w.logs.visits ++ [(c, d, r.2)] } }
        some { s with w := w', workers := setW (if r.2 then .fetch c d else .done) }
    | .fetch c d =>
      let fr := fetchStep g cfg c s.w.logs
      match fr.1 with
      | .error e => some { s with w := { s.w with logs := fr.2 }, workers := setW (.err e c d) }
      | .ok ks => some { s with w := { s.w with logs := fr.2 }, workers := setW (.out ks (d + 1)) }
    | .out ks d =>
      -- `case linksDepth := <-out`
      let items := ks.map (fun k => (k, d))
      let (nx, q) := match s.next, items with
        | some x, its => (some x, s.queue ++ its)
        | none, [] => (none, s.queue)
        | none, it :: its => (some it, s.queue ++ its)
      some { s with next := nx, queue := q, workers := setW .done }
    | .done =>
      -- `case <-done`
      let ip := s.inProgress - 1
      some { s with inProgress := ip, workers := setW .idle,
                    result := if ip == 0 && s.next.isNone then some none else none }
    | .err e _ _ =>
      -- `case err := <-errChan`
      some { s with result := some (some e) }

/-- run under a scheduler: at every step try the workers in the order `sched t` proposes
(a rotation of 0..n-1) and take the first enabled one -/
def firstEnabled (g : Graph) (cfg : Cfg) (s : PSt) : List Nat → Option PSt
  | [] => none
  | i :: is => match pstep g cfg s i with
    | some s' => some s'
    | none => firstEnabled g cfg s is

def prun (g : Graph) (cfg : Cfg) (sched : Nat → List Nat) : Nat → PSt → PSt
  | 0, s => s
  | fuel + 1, s =>
    match firstEnabled g cfg s (sched fuel) with
    | none => s
    | some s' => prun g cfg sched fuel s'

end C12
