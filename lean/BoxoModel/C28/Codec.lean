import BoxoModel.C28.Model
import BoxoModel.Lib.BaseX
import BoxoModel.Lib.Varint
/-
C28 — the concrete codecs behind `ipns.Name` (core-only, imported by the driver):
  * go-varint `FromUvarint`: minimal LEB128, at most 9 bytes (`readUvarint`);
  * go-multihash `Cast`/`Decode` (`validMhB`): code varint, length varint ≤ MaxInt32, digest of exactly that length;
  * go-cid `Cast`/`CidFromBytes` + peer.FromCid (`castLibp2pKey`): not the CIDv0 shape, version varint 1, codec
    varint libp2p-key (0x72), the rest exactly one multihash;
  * go-multibase prefixes `k`/`K` (base36, case-insensitive) and `z` (base58btc) with the big-number codecs of
    `Lib.BaseX`; every other multibase is the parameter `extra` (whole string ↦ decoded bytes);
  * peer.Decode (`peerDecodeB`): `Qm…`/`1…` = raw base58btc multihash, otherwise a CID string;
  * `Name.String` = `"k" ++ base36(0x01 0x72 multihash)` (`cidB36B`).
-/
namespace C28
open PathClean

abbrev Bytes := List UInt8

def b2s (b : Bytes) : Str := b.map (fun x => Char.ofNat x.toNat)
def c2b (c : Char) : Option UInt8 := if c.toNat < 256 then some c.toNat.toUInt8 else none
def s2b? (s : Str) : Option Bytes := BaseN.mapOpt c2b s

/-- go-varint FromUvarint: value and rest; minimal encoding, at most 9 bytes -/
def readUvarint (b : Bytes) : Option (Nat × Bytes) :=
  match Varint.decode b with
  | some (v, r) => if Varint.encode v ++ r = b ∧ (Varint.encode v).length ≤ 9 then some (v, r) else none
  | none => none

/-- mh.Cast succeeds -/
def validMhB (m : Bytes) : Bool :=
  match readUvarint m with
  | some (_, r1) =>
    match readUvarint r1 with
    | some (len, r2) => decide (len ≤ 2147483647) && decide (r2.length = len)
    | none => false
  | none => false

def libp2pKey : Nat := 0x72

/-- cid.Cast followed by peer.FromCid: the multihash of a CIDv1 with codec libp2p-key -/
def castLibp2pKey (data : Bytes) : Option Bytes :=
  match data with
  | a :: b :: _ :: _ =>
    if a = 0x12 ∧ b = 32 then none   -- CIDv0 shape: an error or codec dag-pb, never a peer ID
    else
      match readUvarint data with
      | some (1, r1) =>
        match readUvarint r1 with
        | some (codec, r2) => if codec = libp2pKey ∧ validMhB r2 = true then some r2 else none
        | none => none
      | _ => none
  | _ =>
    match readUvarint data with
    | some (1, r1) =>
      match readUvarint r1 with
      | some (codec, r2) => if codec = libp2pKey ∧ validMhB r2 = true then some r2 else none
      | none => none
    | _ => none

def isPrefixStr (p : String) (s : Str) : Bool := p.toList.isPrefixOf s

/-- peer.Decode on bytes -/
def peerDecodeB (extra : Str → Option Bytes) (s : Str) : Option Bytes :=
  if isPrefixStr "Qm" s || isPrefixStr "1" s then
    match BaseX.decode BaseX.b58 s with
    | some m => if validMhB m then some m else none
    | none => none
  else if s.length < 2 then none
  else
    let data := match s with
      | 'k' :: r => BaseX.decode BaseX.b36 r
      | 'K' :: r => BaseX.decode BaseX.b36 r
      | 'z' :: r => BaseX.decode BaseX.b58 r
      | _ => extra s
    match data with
    | some d => castLibp2pKey d
    | none => none

/-- cid.NewCidV1(Libp2pKey, m).StringOfBase(Base36) -/
def cidB36B (m : Bytes) : Str := 'k' :: BaseX.encode BaseX.b36 (1 :: 0x72 :: m)

/-- the codec record of the name model, built from the concrete codecs -/
def concreteCodec (extra : Str → Option Bytes) : NameCodec where
  peerDecode := fun s => (peerDecodeB extra s).map b2s
  validMh := fun m => match s2b? m with
    | some b => validMhB b
    | none => false
  cidB36 := fun m => cidB36B ((s2b? m).getD [])

end C28
