import BoxoModel.C28.Model
import BoxoModel.Lib.PathCleanLemmas
/-! Helper lemmas for C28. -/
namespace C28
open PathClean

theorem normal_all_ne_noslash {cs : List Str} (h : ∀ c ∈ cs, Normal c = true) :
    ∀ c ∈ cs, c ≠ [] ∧ '/' ∉ c :=
  fun c hc => ⟨normal_ne_nil (h c hc), normal_noslash (h c hc)⟩

/-- On a rooted string `StringToSegments` returns exactly the elements of the cleaned path. -/
theorem stringToSegments_rooted {s : Str} (hr : isRooted s = true) :
    stringToSegments s = (cleanCP s).comps := by
  have hn := cleanCP_rooted_normal hr
  have hrt : (cleanCP s).rooted = true := hr
  unfold stringToSegments clean CP.render render
  simp only [hrt, if_true]
  generalize (cleanCP s).comps = cs at hn
  cases cs with
  | nil => simp [joinSlash, dot, trimSuffixSlash, trimPrefixSlash]
  | cons c t =>
    have hl := joinSlash_getLast (cs := c :: t) (by simp) (normal_all_ne_noslash hn)
    have hj : joinSlash (c :: t) ≠ [] := joinSlash_ne_nil (normal_ne_nil (hn c (by simp)))
    have hd : ('/' :: joinSlash (c :: t)) ≠ dot := by simp [dot]
    rw [if_neg hd]
    have hts : trimSuffixSlash ('/' :: joinSlash (c :: t)) = '/' :: joinSlash (c :: t) := by
      unfold trimSuffixSlash
      cases hjl : joinSlash (c :: t) with
      | nil => exact absurd hjl hj
      | cons y ys =>
        rw [hjl] at hl
        simp only [List.getLast?_cons_cons]
        cases hq : (y :: ys).getLast? with
        | none => simp at hq
        | some z =>
          rw [hq] at hl
          have : z ≠ '/' := by simpa using hl
          simp [this]
    simp only [hts, trimPrefixSlash]
    rw [if_neg hj]
    exact splitSlash_joinSlash _ (by simp) (fun x hx => normal_noslash (hn x hx))

theorem hasPrefixSlash_eq (s : Str) : hasPrefixSlash s = isRooted s := rfl

/-- re-cleaning the printed form of a rooted clean path, with or without a trailing slash -/
theorem cleanCP_printed {cs : List Str} (_hne : cs ≠ []) (hn : ∀ c ∈ cs, Normal c = true) (trail : Bool) :
    cleanCP (('/' :: joinSlash cs) ++ (if trail then ['/'] else [])) = { rooted := true, comps := cs } := by
  have hcf : CleanForm true cs = true := stkOK_of_normal (by simpa using hn)
  have h0 : cleanCP ('/' :: joinSlash cs) = { rooted := true, comps := cs } := by
    have := cleanCP_render (p := { rooted := true, comps := cs }) hcf
    simpa [CP.render, render] using this
  cases trail with
  | false => simpa using h0
  | true =>
    have : ('/' :: joinSlash cs) ++ (if true then ['/'] else []) = ('/' :: joinSlash cs) ++ '/' :: [] := by simp
    rw [this, cleanCP_append_slash _ (by simp), h0]
    simp [isRooted, splitSlash, cleanStep]

theorem hasSuffixSlash_printed {cs : List Str} (hne : cs ≠ []) (hn : ∀ c ∈ cs, Normal c = true) (trail : Bool) :
    hasSuffixSlash (('/' :: joinSlash cs) ++ (if trail then ['/'] else [])) = trail := by
  cases trail with
  | true =>
    have : ('/' :: joinSlash cs) ++ (if true then ['/'] else []) = ('/' :: joinSlash cs) ++ ['/'] := by simp
    rw [this]
    unfold hasSuffixSlash
    rw [List.getLast?_append]
    simp
  | false =>
    have hl := joinSlash_getLast hne (normal_all_ne_noslash hn)
    cases cs with
    | nil => exact absurd rfl hne
    | cons c t =>
      have hj : joinSlash (c :: t) ≠ [] := joinSlash_ne_nil (normal_ne_nil (hn c (by simp)))
      cases hjl : joinSlash (c :: t) with
      | nil => exact absurd hjl hj
      | cons y ys =>
        rw [hjl] at hl
        simp only [hasSuffixSlash, if_false, Bool.false_eq_true, List.append_nil, List.getLast?_cons_cons]
        cases hq : (y :: ys).getLast? with
        | none => simp at hq
        | some z =>
          rw [hq] at hl
          have : z ≠ '/' := by simpa using hl
          simp [this]

theorem segmentsToString_normal {cs : List Str} (hne : cs ≠ []) (hn : ∀ c ∈ cs, Normal c = true) :
    segmentsToString cs = '/' :: joinSlash cs := by
  cases cs with
  | nil => exact absurd rfl hne
  | cons c t =>
    have hj : joinSlash (c :: t) ≠ [] := joinSlash_ne_nil (normal_ne_nil (hn c (by simp)))
    simp [segmentsToString, hj]

end C28

namespace C28
open PathClean

/-- what `NewPath` accepted: the input is rooted, its cleaned elements `segs` are ≥ 2 ordinary names, the
namespace is the first one and is known, and the printed form is `/`-joined `segs` plus the trailing
slash of the input. -/
theorem newPath_ok {Cid : Type} {dec : Str → Option Cid} {s : Str} {p : Path Cid}
    (h : newPath dec s = .ok p) :
    isRooted s = true ∧ ∃ s0 s1 rest, (cleanCP s).comps = s0 :: s1 :: rest ∧
      (∀ c ∈ s0 :: s1 :: rest, Normal c = true) ∧
      p.str = ('/' :: joinSlash (s0 :: s1 :: rest)) ++ (if hasSuffixSlash s then ['/'] else []) ∧
      p.ns = s0 ∧
      (((s0 = nsIpfs ∨ s0 = nsIpld) ∧ ∃ c, dec s1 = some c ∧ p.root = some c) ∨
        (s0 = nsIpns ∧ p.root = none)) := by
  by_cases hr : isRooted s = true
  · refine ⟨hr, ?_⟩
    have hn := cleanCP_rooted_normal hr
    unfold newPath at h
    rw [stringToSegments_rooted hr] at h
    simp only at h
    split at h
    · rename_i s0 s1 rest hseg
      rw [hseg] at hn
      refine ⟨s0, s1, rest, hseg, hn, ?_⟩
      rw [hseg, segmentsToString_normal (by simp) hn] at h
      split at h
      · simp at h
      · split at h
        · rename_i hns
          split at h
          · simp at h
          · rename_i c hc
            simp at h; subst h
            exact ⟨rfl, rfl, Or.inl ⟨hns, c, hc, rfl⟩⟩
        · split at h
          · rename_i hns
            simp at h; subst h
            exact ⟨rfl, rfl, Or.inr ⟨hns, rfl⟩⟩
          · simp at h
    · simp at h
  · exfalso
    unfold newPath at h
    simp only at h
    split at h
    · have : hasPrefixSlash s = false := by simpa [hasPrefixSlash_eq] using hr
      simp [this] at h
    · simp at h

/-- conversely, the value `NewPath` computes on a rooted string with ≥ 2 cleaned elements -/
theorem newPath_rooted {Cid : Type} (dec : Str → Option Cid) {s : Str} (hr : isRooted s = true)
    {s0 s1 : Str} {rest : List Str} (hseg : (cleanCP s).comps = s0 :: s1 :: rest) :
    newPath dec s =
      (if s0 = nsIpfs ∨ s0 = nsIpld then
        match dec s1 with
        | none => .error .badCid
        | some c => .ok { str := ('/' :: joinSlash (s0 :: s1 :: rest)) ++ (if hasSuffixSlash s then ['/'] else []),
                          ns := s0, root := some c }
      else if s0 = nsIpns then
        .ok { str := ('/' :: joinSlash (s0 :: s1 :: rest)) ++ (if hasSuffixSlash s then ['/'] else []),
              ns := s0, root := none }
      else .error .unknownNs) := by
  have hn := cleanCP_rooted_normal hr
  rw [hseg] at hn
  unfold newPath
  rw [stringToSegments_rooted hr, hseg]
  simp only
  have h1 : s1 ≠ [] := normal_ne_nil (hn s1 (by simp))
  have hp : hasPrefixSlash s = true := hr
  rw [segmentsToString_normal (by simp) hn]
  simp only [hp, h1, Bool.not_true, Bool.false_or, decide_false, Bool.false_eq_true, if_false]
  by_cases ha : s0 = nsIpfs ∨ s0 = nsIpld
  · simp only [ha, if_true]
    cases dec s1 <;> rfl
  · simp only [ha, if_false]

theorem hasURIScheme_of {scheme rest ns : Str} (hl : ns.length = 4) (hs : scheme.map toLowerASCII = ns)
    (ns' : Str) (hl' : ns'.length = 4) :
    hasURIScheme (scheme ++ ':' :: rest) ns' = decide (ns = ns') := by
  have hsl : scheme.length = 4 := by rw [← hl, ← hs]; simp
  match scheme, hsl with
  | [a, b, c, d], _ =>
    subst hs
    simp [hasURIScheme, hl']
    by_cases e : [toLowerASCII a, toLowerASCII b, toLowerASCII c, toLowerASCII d] = ns' <;> simp [e]

theorem normalize_scheme {scheme rest ns : Str} (hns : ns = nsIpfs ∨ ns = nsIpns ∨ ns = nsIpld)
    (hs : scheme.map toLowerASCII = ns) :
    normalizeURIScheme (scheme ++ ':' :: rest) = '/' :: ns ++ '/' :: trimPrefix2Slash rest := by
  have hl : ns.length = 4 := by rcases hns with e | e | e <;> subst e <;> rfl
  have hsl : scheme.length = 4 := by rw [← hl, ← hs]; simp
  have hd : (scheme ++ ':' :: rest).drop (4 + 1) = rest := by
    rw [show 4 + 1 = scheme.length + 1 by rw [hsl]]
    simp [List.drop_append]
  have hf : [nsIpfs, nsIpns, nsIpld].find? (hasURIScheme (scheme ++ ':' :: rest)) = some ns := by
    simp only [List.find?, hasURIScheme_of hl hs nsIpfs rfl, hasURIScheme_of hl hs nsIpns rfl,
      hasURIScheme_of hl hs nsIpld rfl]
    rcases hns with e | e | e <;> rw [e] <;> decide
  unfold normalizeURIScheme
  rw [hf]
  simp only [hl, hd]

/-- the laws of the external codecs used by `ipns.Name` (checked on the real go-libp2p / go-cid
functions by the harness monitor on every run) -/
structure NameCodec.Lawful (k : NameCodec) : Prop where
  /-- `peer.Decode` of the base36 libp2p-key CID string of a multihash gives the multihash back -/
  decode_encode : ∀ m, k.validMh m = true → k.peerDecode (k.cidB36 m) = some m
  /-- the base36 string starts with the multibase prefix, never with `/ipns/` -/
  encode_no_ns : ∀ m, nsPrefix.isPrefixOf (k.cidB36 m) = false
  /-- a decoded peer ID is a well-formed multihash -/
  decode_valid : ∀ s m, k.peerDecode s = some m → k.validMh m = true

end C28
