import BoxoModel.C28.Codec
import BoxoModel.C28.Lemmas
/-! C28: the concrete codecs satisfy the laws assumed by `c28_name_laws`. -/
namespace C28
open PathClean

theorem toNat_ofNat_byte (n : Nat) (h : n < 256) : (Char.ofNat n).toNat = n := by
  have hv : n.isValidChar := by left; omega
  simp [Char.ofNat, hv, Char.ofNatAux, Char.toNat]

theorem c2b_ofNat (n : Nat) (h : n < 256) : c2b (Char.ofNat n) = some n.toUInt8 := by
  simp [c2b, toNat_ofNat_byte n h, h]

theorem c2b_b (x : UInt8) : c2b (Char.ofNat x.toNat) = some x := by
  rw [c2b_ofNat _ x.toNat_lt]; simp

theorem s2b_b2s (b : Bytes) : s2b? (b2s b) = some b := by
  induction b with
  | nil => rfl
  | cons x t ih =>
    simp only [s2b?, b2s, List.map_cons, BaseN.mapOpt] at ih ⊢
    rw [c2b_b x, ih]

theorem c2b_inv {c : Char} {x : UInt8} (h : c2b c = some x) : Char.ofNat x.toNat = c := by
  unfold c2b at h
  split at h
  · rename_i hlt
    simp at h; subst h
    have : c.toNat.toUInt8.toNat = c.toNat := by simp; omega
    rw [this, Char.ofNat_toNat]
  · simp at h

theorem b2s_of_s2b {m : Str} {b : Bytes} (h : s2b? m = some b) : b2s b = m := by
  induction m generalizing b with
  | nil => simp [s2b?, BaseN.mapOpt] at h; subst h; rfl
  | cons c t ih =>
    simp only [s2b?, BaseN.mapOpt] at h ih
    cases hc : c2b c with
    | none => simp [hc] at h
    | some x =>
      cases ht : BaseN.mapOpt c2b t with
      | none => simp [hc, ht] at h
      | some bt =>
        simp [hc, ht] at h; subst h
        simp only [b2s, List.map_cons]
        rw [c2b_inv hc]
        congr 1
        exact ih ht

theorem readUvarint_encode (n : Nat) (rest : Bytes) (h : Varint.size n ≤ 9) :
    readUvarint (Varint.encode n ++ rest) = some (n, rest) := by
  unfold readUvarint
  rw [Varint.decode_encode]
  simp [Varint.encode_length, h]

theorem readUvarint_one (rest : Bytes) : readUvarint (1 :: rest) = some (1, rest) := by
  have := readUvarint_encode 1 rest (by rw [Varint.size_small 1 (by decide)]; decide)
  have e : Varint.encode 1 = [1] := by rw [Varint.encode]; simp
  rw [e] at this; simpa using this

theorem readUvarint_key (rest : Bytes) : readUvarint (0x72 :: rest) = some (libp2pKey, rest) := by
  have := readUvarint_encode 0x72 rest (by rw [Varint.size_small 0x72 (by decide)]; decide)
  have e : Varint.encode 0x72 = [0x72] := by rw [Varint.encode]; simp
  rw [e] at this; simpa [libp2pKey] using this

theorem readUvarint_small (n : Nat) (hn : n < 128) (rest : Bytes) :
    readUvarint (n.toUInt8 :: rest) = some (n, rest) := by
  have := readUvarint_encode n rest (by rw [Varint.size_small n hn]; decide)
  have e : Varint.encode n = [n.toUInt8] := by rw [Varint.encode]; simp [hn]
  rw [e] at this; simpa using this

/-- multihashes with a one-byte code and a one-byte length (identity and sha2-256 peer IDs are of this
shape) are well formed exactly when the digest has the announced length -/
theorem validMhB_small (code len : Nat) (hc : code < 128) (hl : len < 128) (digest : Bytes)
    (hd : digest.length = len) : validMhB (code.toUInt8 :: len.toUInt8 :: digest) = true := by
  unfold validMhB
  rw [readUvarint_small code hc]
  simp only
  rw [readUvarint_small len hl]
  simp [hd]; omega

/-- the CID bytes of a libp2p-key CIDv1 are read back as its multihash -/
theorem castLibp2pKey_framing (m : Bytes) (hm : validMhB m = true) :
    castLibp2pKey (1 :: 0x72 :: m) = some m := by
  have h1 := readUvarint_one (0x72 :: m)
  have h2 := readUvarint_key m
  have hne : ¬ ((1 : UInt8) = 0x12 ∧ (0x72 : UInt8) = 32) := by decide
  unfold castLibp2pKey
  cases m with
  | nil => simp [h1, h2, hm]
  | cons x t => simp only [hne, if_false, h1, h2]; simp [hm]

theorem castLibp2pKey_valid {d m : Bytes} (h : castLibp2pKey d = some m) : validMhB m = true := by
  unfold castLibp2pKey at h
  split at h
  · split at h
    · simp at h
    · split at h
      · split at h
        · split at h
          · rename_i hc; simp at h; subst h; exact hc.2
          · simp at h
        · simp at h
      · simp at h
  · split at h
    · split at h
      · split at h
        · rename_i hc; simp at h; subst h; exact hc.2
        · simp at h
      · simp at h
    · simp at h

/-- **Decoded peer IDs are well-formed multihashes** (whatever the other multibases do). -/
theorem peerDecodeB_valid (extra : Str → Option Bytes) {s : Str} {m : Bytes}
    (h : peerDecodeB extra s = some m) : validMhB m = true := by
  unfold peerDecodeB at h
  split at h
  · split at h
    · split at h
      · rename_i hv; simp at h; subst h; exact hv
      · simp at h
    · simp at h
  · split at h
    · simp at h
    · simp only at h
      split at h
      · exact castLibp2pKey_valid h
      · simp at h

/-- **`peer.Decode` inverts the base36 libp2p-key CID string** of every well-formed multihash. -/
theorem peerDecodeB_cidB36 (extra : Str → Option Bytes) (m : Bytes) (hm : validMhB m = true) :
    peerDecodeB extra (cidB36B m) = some m := by
  have hne : BaseX.encode BaseX.b36 (1 :: 0x72 :: m) ≠ [] := BaseX.encode_ne_nil _ BaseX.b36_wf _ (by simp)
  have hdec := BaseX.decode_encode BaseX.b36 BaseX.b36_wf (1 :: 0x72 :: m) (by simp)
  unfold peerDecodeB cidB36B
  have h1 : (isPrefixStr "Qm" ('k' :: BaseX.encode BaseX.b36 (1 :: 0x72 :: m)) ||
      isPrefixStr "1" ('k' :: BaseX.encode BaseX.b36 (1 :: 0x72 :: m))) = false := by
    simp [isPrefixStr, List.isPrefixOf]
  rw [if_neg (by simp [h1])]
  have hlen : ¬ ('k' :: BaseX.encode BaseX.b36 (1 :: 0x72 :: m)).length < 2 := by
    cases he : BaseX.encode BaseX.b36 (1 :: 0x72 :: m) with
    | nil => exact absurd he hne
    | cons x t => simp
  rw [if_neg hlen]
  simp only [hdec]
  exact castLibp2pKey_framing m hm

/-- the concrete codecs satisfy the three laws, for every behaviour of the multibases that are not modelled -/
theorem concreteCodec_lawful (extra : Str → Option Bytes) : (concreteCodec extra).Lawful where
  decode_encode := by
    intro m hm
    simp only [concreteCodec] at hm ⊢
    cases hb : s2b? m with
    | none => simp [hb] at hm
    | some b =>
      simp only [hb] at hm
      simp only [Option.getD_some, peerDecodeB_cidB36 extra b hm, Option.map_some, b2s_of_s2b hb]
  encode_no_ns := by
    intro m
    simp [concreteCodec, cidB36B, nsPrefix, List.isPrefixOf]
  decode_valid := by
    intro s m h
    simp only [concreteCodec] at h ⊢
    cases hp : peerDecodeB extra s with
    | none => simp [hp] at h
    | some b =>
      simp [hp] at h; subst h
      simp [s2b_b2s, peerDecodeB_valid extra hp]

end C28
