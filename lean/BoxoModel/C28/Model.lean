import BoxoModel.Lib.PathClean
/-
C28 — path/path.go, path/uri.go, ipns/name.go: executable model.

Paths (transcribed statement by statement):
  StringToSegments: gopath.Clean; "." ⇒ nil; TrimSuffix "/"; TrimPrefix "/"; "" ⇒ nil; strings.Split "/"
  SegmentsToString: strings.Join "/", prefixed with "/" unless empty
  NewPath: segments; reject unless HasPrefix(str,"/") ∧ len ≥ 2 ∧ segments[1] ≠ ""; cleaned = SegmentsToString
           (+ "/" when the input ends with "/"); namespace switch; cid.Decode(segments[1]) for ipfs/ipld
  Join / NewPathFromSegments; normalizeURIScheme / hasURIScheme / toLowerASCII; NewPathFromURI
`cid.Decode` is a parameter `dec : Str → Option Cid` (the harness supplies, per input, the table of
`/`-separated pieces that the real decoder accepts).

Names: `Name` is the multihash byte string.  The external codecs are the fields of `NameCodec`
(peer.Decode, mh.Cast validity, CIDv1-libp2p-key-base36 printing); the conversions are transcribed over them.
Core-only: imported by the driver.
-/
namespace C28
open PathClean

def hasSuffixSlash (s : Str) : Bool := s.getLast? == some '/'
def hasPrefixSlash (s : Str) : Bool := s.head? == some '/'
/-- strings.TrimSuffix(s, "/") -/
def trimSuffixSlash (s : Str) : Str := if s.getLast? == some '/' then s.dropLast else s
/-- strings.TrimPrefix(s, "/") -/
def trimPrefixSlash : Str → Str
  | '/' :: r => r
  | s => s

def stringToSegments (str : Str) : List Str :=
  let c := clean str
  if c = dot then []
  else
    let c := trimPrefixSlash (trimSuffixSlash c)
    if c = [] then [] else splitSlash c

def segmentsToString (segs : List Str) : Str :=
  let s := joinSlash segs
  if s = [] then [] else '/' :: s

def nsIpfs : Str := "ipfs".toList
def nsIpns : Str := "ipns".toList
def nsIpld : Str := "ipld".toList

inductive Err where
  | insufficient
  | badCid
  | unknownNs
deriving DecidableEq, Repr

/-- `path` / `ImmutablePath`: printed form, namespace, root CID (ipfs/ipld only) -/
structure Path (Cid : Type) where
  str : Str
  ns : Str
  root : Option Cid
deriving DecidableEq, Repr

def Path.segments {Cid : Type} (p : Path Cid) : List Str := stringToSegments p.str
def Path.mutable {Cid : Type} (p : Path Cid) : Bool := p.ns ≠ nsIpfs && p.ns ≠ nsIpld

def newPath {Cid : Type} (dec : Str → Option Cid) (str : Str) : Except Err (Path Cid) :=
  let segs := stringToSegments str
  match segs with
  | s0 :: s1 :: _ =>
    if !hasPrefixSlash str || s1 = [] then .error .insufficient
    else
      let cleaned := segmentsToString segs ++ (if hasSuffixSlash str then ['/'] else [])
      if s0 = nsIpfs ∨ s0 = nsIpld then
        match dec s1 with
        | none => .error .badCid
        | some c => .ok { str := cleaned, ns := s0, root := some c }
      else if s0 = nsIpns then .ok { str := cleaned, ns := s0, root := none }
      else .error .unknownNs
  | _ => .error .insufficient

def newPathFromSegments {Cid : Type} (dec : Str → Option Cid) (segs : List Str) : Except Err (Path Cid) :=
  newPath dec (segmentsToString segs)

/-- path.Join -/
def join {Cid : Type} (dec : Str → Option Cid) (p : Path Cid) (extra : List Str) : Except Err (Path Cid) :=
  newPathFromSegments dec (p.segments ++ extra)

def toLowerASCII (c : Char) : Char :=
  if 'A' ≤ c ∧ c ≤ 'Z' then Char.ofNat (c.toNat + 32) else c

/-- hasURIScheme: `len(str) > len(ns)`, `str[len(ns)] == ':'`, first bytes equal `ns` ignoring ASCII case -/
def hasURIScheme (str ns : Str) : Bool :=
  str.length > ns.length && str[ns.length]? == some ':' && (str.take ns.length).map toLowerASCII == ns

/-- strings.TrimPrefix(s, "//") -/
def trimPrefix2Slash : Str → Str
  | '/' :: '/' :: r => r
  | s => s

def normalizeURIScheme (str : Str) : Str :=
  match [nsIpfs, nsIpns, nsIpld].find? (hasURIScheme str) with
  | some ns => '/' :: ns ++ '/' :: trimPrefix2Slash (str.drop (ns.length + 1))
  | none => str

def newPathFromURI {Cid : Type} (dec : Str → Option Cid) (str : Str) : Except Err (Path Cid) :=
  newPath dec (normalizeURIScheme str)

/-! ### IPNS names -/

/-- external codecs used by ipns/name.go -/
structure NameCodec where
  /-- `peer.Decode`: base58 multihash or libp2p-key CID string ↦ multihash bytes -/
  peerDecode : Str → Option Str
  /-- `mh.Cast` succeeds -/
  validMh : Str → Bool
  /-- `cid.NewCidV1(Libp2pKey, m).StringOfBase(Base36)` -/
  cidB36 : Str → Str

abbrev Name := Str

def nsPrefix : Str := "/ipns/".toList

/-- strings.TrimPrefix(s, "/ipns/") -/
def trimNsPrefix (s : Str) : Str := if nsPrefix.isPrefixOf s then s.drop nsPrefix.length else s

def nameFromString (k : NameCodec) (s : Str) : Option Name := k.peerDecode (trimNsPrefix s)
def nameFromPeer (pid : Str) : Name := pid
def Name.peer (n : Name) : Str := n
def Name.routingKey (n : Name) : Str := nsPrefix ++ n
/-- peer.IDFromBytes = mh.Cast check -/
def nameFromRoutingKey (k : NameCodec) (data : Str) : Option Name :=
  if !nsPrefix.isPrefixOf data then none
  else if k.validMh (data.drop nsPrefix.length) then some (data.drop nsPrefix.length) else none

/-- a CID as far as name.go looks at it: codec is libp2p-key or not, and the multihash -/
structure KCid where
  libp2pKey : Bool
  hash : Str
deriving DecidableEq, Repr

def nameFromCid (c : KCid) : Option Name := if c.libp2pKey then some c.hash else none
/-- `Name.Cid`: `cid.Undef` (none) when the bytes are not a multihash -/
def Name.cid (k : NameCodec) (n : Name) : Option KCid :=
  if k.validMh n then some { libp2pKey := true, hash := n } else none
/-- `Name.String` (panics on an invalid name: none) -/
def Name.toStr (k : NameCodec) (n : Name) : Option Str :=
  if k.validMh n then some (k.cidB36 n) else none

end C28
