/-
C32 — gateway/hostname.go: subdomain / DNSLink addressing.

Transcribed from /repo/gateway/hostname.go (after the `fix:` commits "keep the URL fragment in subdomain
redirects" and "use the effective host in the canonical-CID test"; the Bool arguments of `handle` /
`toSubdomainURL` select the tree before each of them):

  InlineDNSLink, UninlineDNSLink     the optimised byte loops
  toDNSLabel                          63-character rule (dnsLabelMaxLength)
  toSubdomainURL                      path  → subdomain URL
  hasPrefix, stripPort, prepareHostnameGateways / isKnownHostname / knownSubdomainDetails
  NewHostnameHandler                  host → path (or redirect / 404 / 400)

Go strings are byte strings (`Bytes = List Nat`).  Parameters of the model (never modelled, supplied by
the harness as finite tables of what the real functions returned, quantified over in the theorems):
  * `Codecs.decode`  = cid.Decode,
    `Codecs.enc b36 codec mh` = cid.NewCidV1(codec, mh).StringOfBase(Base36 | Base32),
    `Codecs.peerCid s` = peer.Decode(s) followed by peer.ToCid(id).String();
  * `hasDNSLink name` = hasDNSLinkRecord(ctx, backend, name) (stripPort, IP / peer-ID / dns.IsDomainName
    filters and the backend's DNS answer);
  * `urlHostOK rootID` = url.Parse accepts the redirect URL whose host starts with `rootID`.
URLs are structured values (scheme, host, decoded path, raw query, fragment); net/url's escaping is
not modelled (the harness parses the Location header back with url.Parse).
Core-only (no Mathlib): this file is imported by the line-protocol driver.
-/
namespace C32

abbrev Bytes := List Nat

/-! ## strings -/

/-- strings.Split(s, sep) for a one-byte separator -/
def splitOn (sep : Nat) : Bytes → List Bytes
  | [] => [[]]
  | c :: r =>
    let rest := splitOn sep r
    if c == sep then [] :: rest else (c :: rest.headD []) :: rest.tail

/-- strings.Join(parts, sep) for a one-byte separator -/
def join (sep : Nat) : List Bytes → Bytes
  | [] => []
  | [a] => a
  | a :: b :: r => a ++ sep :: join sep (b :: r)

/-- strings.Cut -/
def cut (sep : Nat) : Bytes → Option (Bytes × Bytes)
  | [] => none
  | c :: r =>
    if c == sep then some ([], r)
    else match cut sep r with
      | some (a, b) => some (c :: a, b)
      | none => none

/-- strings.SplitN(s, sep, n) -/
def splitN (sep : Nat) : Nat → Bytes → List Bytes
  | 0, _ => []
  | 1, s => [s]
  | n + 2, s =>
    match cut sep s with
    | none => [s]
    | some (a, b) => a :: splitN sep (n + 1) b

def hasPrefix : Bytes → Bytes → Bool
  | _, [] => true
  | [], _ :: _ => false
  | c :: s, d :: p => c == d && hasPrefix s p

def str (s : String) : Bytes := s.toList.map Char.toNat

def IPFS : Bytes := [105, 112, 102, 115]
def IPNS : Bytes := [105, 112, 110, 115]
def P2P : Bytes := [112, 50, 112]
def IPLD : Bytes := [105, 112, 108, 100]

/-- "/ipns/" -/
def ipnsSlash : Bytes := [47, 105, 112, 110, 115, 47]

def isSubdomainNamespace (ns : Bytes) : Bool := ns == IPFS || ns == IPNS || ns == P2P || ns == IPLD
def isPeerIDNamespace (ns : Bytes) : Bool := ns == IPNS || ns == P2P

/-! ## label codec -/

def dnsLabelMaxLength : Nat := 63

/-- the loop of InlineDNSLink: `-` ↦ `--`, `.` ↦ `-` -/
def inlineRaw : Bytes → Bytes
  | [] => []
  | c :: r =>
    if c == 45 then 45 :: 45 :: inlineRaw r
    else if c == 46 then 45 :: inlineRaw r
    else c :: inlineRaw r

/-- InlineDNSLink: `none` = error (label longer than 63) -/
def inlineDNSLink (fqdn : Bytes) : Option Bytes :=
  let result := inlineRaw fqdn
  if result.length > dnsLabelMaxLength then none else some result

/-- UninlineDNSLink: the index loop (`--` ↦ `-`, single `-` ↦ `.`) -/
def uninlineDNSLink : Bytes → Bytes
  | [] => []
  | [c] => if c == 45 then [46] else [c]
  | c :: d :: r =>
    if c == 45 then
      if d == 45 then 45 :: uninlineDNSLink r
      else 46 :: uninlineDNSLink (d :: r)
    else c :: uninlineDNSLink (d :: r)

/-- toDNSLabel(rootID, rootCID); `b36` = NewCidV1(rootCID.Type(), rootCID.Hash()) in Base36 -/
def toDNSLabel (rootID b36 : Bytes) : Option Bytes :=
  if rootID.length ≤ dnsLabelMaxLength then some rootID
  else if b36.length ≤ dnsLabelMaxLength then some b36
  else none

/-! ## parameters -/

structure Cid where
  version : Nat
  codec : Nat
  mh : Bytes
  deriving DecidableEq, Repr

def libp2pKey : Nat := 0x72

structure Codecs where
  decode : Bytes → Option Cid
  enc : Bool → Nat → Bytes → Bytes
  peerCid : Bytes → Option Bytes

structure Env where
  codecs : Codecs
  hasDNSLink : Bytes → Bool
  /-- url.Parse accepts `http://<rootID>.<ns>.<hostname>/` (net/url rejects some bytes in a host) -/
  urlHostOK : Bytes → Bool

/-! ## configuration -/

structure GW where
  paths : List Bytes
  useSubdomains : Bool
  noDNSLink : Bool
  inlineDNSLink : Bool
  deriving DecidableEq, Repr

structure Config where
  /-- PublicGateways whose hostname has no `*`, and those with `*` (wildcard patterns; Go keeps them in a map:
  the model assumes at most one pattern matches a host) -/
  exact : List (Bytes × GW)
  wildcard : List (Bytes × GW)
  noDNSLink : Bool

/-- one entry of Config.PublicGateways; `isIP` = net.ParseIP(stripPort(hostname)) != nil (parameter) -/
structure RawGW where
  hostname : Bytes
  gw : GW
  isIP : Bool

/-- prepareHostnameGateways: UseSubdomains gateways on IP addresses are dropped; hostnames with `*`
become wildcard patterns, the others exact entries -/
def prepare (raw : List RawGW) (noDNSLink : Bool) : Config :=
  let kept := raw.filter fun g => !(g.gw.useSubdomains && g.isIP)
  { exact := (kept.filter fun g => !g.hostname.any (· == 42)).map fun g => (g.hostname, g.gw)
    wildcard := (kept.filter fun g => g.hostname.any (· == 42)).map fun g => (g.hostname, g.gw)
    noDNSLink := noDNSLink }

def lookup (k : Bytes) : List (Bytes × GW) → Option GW
  | [] => none
  | (k', v) :: r => if k' == k then some v else lookup k r

def countByte (c : Nat) (s : Bytes) : Nat := (s.filter (· == c)).length

/-- stripPort (net.SplitHostPort) for hosts without brackets: exactly one colon ⇒ the part before it -/
def stripPort (host : Bytes) : Bytes :=
  if countByte 58 host == 1 then
    match cut 58 host with
    | some (h, _) => h
    | none => host
  else host

def isDigit (c : Nat) : Bool := 48 ≤ c && c ≤ 57

/-- optional `:port` at the end of a wildcard match: `(?::\d+)?$` -/
def portSuffixOrEnd : Bytes → Bool
  | [] => true
  | 58 :: ds => !ds.isEmpty && ds.all isDigit
  | _ => false

/-- The regular expression prepareHostnameGateways builds for a hostname pattern with `*`:
every `.` is literal, every `*` is `[^.]+` (one or more bytes other than `.`), anchored, with an optional
`:digits` port at the end.  (Other regexp metacharacters do not occur in host names.) -/
def globMatch : Bytes → Bytes → Bool
  | [], h => portSuffixOrEnd h
  | _ :: _, [] => false
  | c :: p, d :: h =>
    if c == 42 then d != 46 && (globMatch p h || globMatch (c :: p) h)
    else c == d && globMatch p h
termination_by p h => (h.length, p.length)

def lookupWildcard (host : Bytes) : List (Bytes × GW) → Option GW
  | [] => none
  | (pat, v) :: r => if globMatch pat host then some v else lookupWildcard host r

/-- isKnownHostname -/
def isKnownHostname (cfg : Config) (host : Bytes) : Option GW :=
  match lookup host cfg.exact with
  | some gw => some gw
  | none =>
    match lookup (stripPort host) cfg.exact with
    | some gw => some gw
    | none => lookupWildcard host cfg.wildcard

/-- the `for i := len(labels)-1; i >= 2; i--` loop of knownSubdomainDetails; the argument is `i - 1` -/
def subdomainLoop (cfg : Config) (labels : List Bytes) : Nat → Option (GW × Bytes × Bytes × Bytes)
  | 0 => none
  | k + 1 =>
    let i := k + 2
    let fqdn := join 46 (labels.drop i)
    match isKnownHostname cfg fqdn with
    | none => subdomainLoop cfg labels k
    | some gw =>
      let ns := labels.getD (i - 1) []
      if !isSubdomainNamespace ns then subdomainLoop cfg labels k
      else some (gw, fqdn, ns, join 46 (labels.take (i - 1)))

/-- knownSubdomainDetails: (gw, gwHostname, ns, rootID) -/
def knownSubdomainDetails (cfg : Config) (host : Bytes) : Option (GW × Bytes × Bytes × Bytes) :=
  let labels := splitOn 46 host
  subdomainLoop cfg labels (labels.length - 2)

def trimSuffixSlash (p : Bytes) : Bytes :=
  match p.reverse with
  | 47 :: r => r.reverse
  | _ => p

/-- hasPrefix(path, prefixes...) -/
def hasPathPrefix (path : Bytes) : List Bytes → Bool
  | [] => false
  | prefix_ :: r =>
    let p := trimSuffixSlash prefix_
    if p == path || hasPrefix path (p ++ [47]) then true else hasPathPrefix path r

/-! ## toSubdomainURL -/

structure URL where
  https : Bool
  host : Bytes
  /-- decoded path as a client that follows the redirect sends it -/
  path : Bytes
  rawQuery : Bytes
  fragment : Bytes
  deriving DecidableEq, Repr

/-- the `?uri=` query parameter (registerProtocolHandler redirect), after url.Parse (a parameter) -/
inductive UriParam where
  | absent                              -- no (or empty) uri parameter
  | unparsable                          -- url.Parse failed
  | parsed (scheme joined : Bytes)      -- u.Scheme, and gopath.Join("/", u.Scheme, u.Host, u.EscapedPath()
                                        --   [+ "?" + url.PathEscape(u.RawQuery)])
  deriving DecidableEq, Repr

structure Req where
  /-- r.Host -/
  host : Bytes
  /-- X-Forwarded-Host header ("" = absent): when present it replaces r.Host -/
  xfh : Bytes := []
  path : Bytes
  rawQuery : Bytes
  fragment : Bytes
  /-- isHTTPSRequest: URL scheme or X-Forwarded-Proto is https -/
  https : Bool
  uri : UriParam := .absent

inductive Redir where
  | err                -- error ⇒ 400
  | no                 -- "" ⇒ no redirect
  | to (u : URL)
  deriving DecidableEq, Repr

def contains (c : Nat) (s : Bytes) : Bool := s.any (· == c)

/-- the path a client sends after following `u.String()` where `u.Path = rest` was set on
`http://host/`: a missing leading slash is added by URL.String -/
def locationPath (rest : Bytes) : Bytes :=
  match rest with
  | [] => [47]
  | 47 :: _ => rest
  | _ => 47 :: rest

/-- "Normalize problematic PeerIDs (eg. ed25519+identity) to CID representation" -/
def normalizePeerID (env : Env) (ns rootID : Bytes) : Bytes :=
  if isPeerIDNamespace ns then
    match env.codecs.peerCid rootID with
    | some c => c
    | none => rootID
  else rootID

/-- toSubdomainURL after `parts := strings.SplitN(path, "/", 4)` has given `ns`, `rootID` and `rest` -/
def subdomainURLOf (keepFragment : Bool) (env : Env) (hostname : Bytes) (r : Req) (inlineDNS : Bool)
    (ns rootID rest : Bytes) : Redir :=
  if !isSubdomainNamespace ns then .no
  else
    let rootID := normalizePeerID env ns rootID
    let finish (rootID : Bytes) : Redir :=
      if rootID.isEmpty then .no
      else if !env.urlHostOK rootID then .err
      else .to { https := r.https, host := rootID ++ 46 :: ns ++ 46 :: hostname, path := locationPath rest,
                 rawQuery := r.rawQuery, fragment := if keepFragment then r.fragment else [] }
    match env.codecs.decode rootID with
    | some c =>
      let multicodec := if isPeerIDNamespace ns then libp2pKey else c.codec
      let rootID := env.codecs.enc (isPeerIDNamespace ns) multicodec c.mh
      match toDNSLabel rootID (env.codecs.enc true multicodec c.mh) with
      | none => .err
      | some rootID => finish rootID
    | none =>
      let rootID :=
        if ns == IPNS && !contains 46 rootID && contains 45 rootID then
          let fqdn := uninlineDNSLink rootID
          if env.hasDNSLink fqdn then fqdn else rootID
        else rootID
      if (inlineDNS || r.https) && ns == IPNS && contains 46 rootID then
        if env.hasDNSLink rootID then
          match inlineDNSLink rootID with
          | none => .err
          | some l => finish l
        else finish rootID
      else if ns == IPFS then .no
      else finish rootID

def toSubdomainURL (keepFragment : Bool) (env : Env) (hostname path : Bytes) (r : Req) (inlineDNS : Bool) : Redir :=
  match splitN 47 4 path with
  | [_, ns, rootID, rest] => subdomainURLOf keepFragment env hostname r inlineDNS ns rootID rest
  | [_, ns, rootID] => subdomainURLOf keepFragment env hostname r inlineDNS ns rootID []
  | _ => .no

/-! ## NewHostnameHandler -/

inductive Ctx where
  | none                       -- no hostname in the context ("old school gateway")
  | gateway (host : Bytes)     -- withHostnameContext
  | subdomain (host : Bytes)   -- withSubdomainContext
  | dnslink (host : Bytes)     -- withDNSLinkContext
  deriving DecidableEq, Repr

inductive Out where
  | redirect (u : URL)                 -- 301
  | redirectPath (p : Bytes)           -- 301 to a path on the same host (protocol-handler redirect)
  | next (path : Bytes) (ctx : Ctx)    -- next.ServeHTTP with the rewritten r.URL.Path
  | notFound                           -- 404
  | badRequest                         -- 400
  deriving DecidableEq, Repr

/-- the host the handler works with: X-Forwarded-Host if present, else Host -/
def effectiveHost (r : Req) : Bytes := if r.xfh.isEmpty then r.host else r.xfh

/-- `keepFragment` and `cidTestOnEffectiveHost` select the code after (`true`) or before (`false`) the two
`fix:` commits that touched this handler: "keep the URL fragment in subdomain redirects" and "use the
effective host in the canonical-CID test" (before it the test was `strings.HasPrefix(r.Host, dnsCID)`). -/
def handleHost (keepFragment cidTestOnEffectiveHost : Bool) (env : Env) (cfg : Config) (r : Req) : Out :=
  let host := effectiveHost r
  match isKnownHostname cfg host with
  | some gw =>
    if hasPathPrefix r.path gw.paths then
      if gw.useSubdomains then
        match toSubdomainURL keepFragment env host r.path r gw.inlineDNSLink with
        | .err => .badRequest
        | .to u => .redirect u
        | .no => .next r.path (.gateway host)
      else .next r.path (.gateway host)
    else if !gw.noDNSLink && env.hasDNSLink host then
      .next (ipnsSlash ++ stripPort host ++ r.path) (.dnslink host)
    else .notFound
  | none =>
    match knownSubdomainDetails cfg host with
    | some (gw, gwHostname, ns, rootID) =>
      let pathPrefix := 47 :: ns ++ 47 :: rootID
      if !(gw.useSubdomains && hasPathPrefix pathPrefix gw.paths) then .notFound
      else
        match env.codecs.decode rootID with
        | some c =>
          match toDNSLabel rootID (env.codecs.enc true c.codec c.mh) with
          | none => .badRequest
          | some dnsCID =>
            -- redirect to the canonical DNS representation of the CID?
            let r1 : Option Out :=
              if !hasPrefix (if cidTestOnEffectiveHost then host else r.host) dnsCID then
                match toSubdomainURL keepFragment env gwHostname ((47 :: ns ++ 47 :: dnsCID) ++ r.path) r gw.inlineDNSLink with
                | .err => some .badRequest
                | .to u => some (.redirect u)
                | .no => none
              else none
            match r1 with
            | some o => o
            | none =>
              -- fix the multicodec of a PeerID represented as CIDv1?
              let r2 : Option Out :=
                if isPeerIDNamespace ns && c.codec != libp2pKey then
                  match toSubdomainURL keepFragment env gwHostname (pathPrefix ++ r.path) r gw.inlineDNSLink with
                  | .err => some .badRequest
                  | .to u => some (.redirect u)
                  | .no => none
                else none
              match r2 with
              | some o => o
              | none => .next (pathPrefix ++ r.path) (.subdomain gwHostname)
        | none =>
          let pathPrefix :=
            if ns == IPNS && !contains 46 rootID && contains 45 rootID then
              let fqdn := uninlineDNSLink rootID
              if env.hasDNSLink fqdn then ipnsSlash ++ fqdn
              else if !env.hasDNSLink rootID then ipnsSlash ++ fqdn
              else pathPrefix
            else pathPrefix
          .next (pathPrefix ++ r.path) (.subdomain gwHostname)
    | none =>
      if !cfg.noDNSLink && env.hasDNSLink host then
        .next (ipnsSlash ++ stripPort host ++ r.path) (.dnslink host)
      else .next r.path .none

def IPFSscheme : Bytes := [105, 112, 102, 115]
def IPNSscheme : Bytes := [105, 112, 110, 115]

/-- NewHostnameHandler: handleProtocolHandlerRedirect first, then the host-based dispatch -/
def handle (keepFragment cidTestOnEffectiveHost : Bool) (env : Env) (cfg : Config) (r : Req) : Out :=
  match r.uri with
  | .unparsable => .badRequest
  | .parsed scheme joined =>
    if scheme != IPFSscheme && scheme != IPNSscheme then .badRequest else .redirectPath joined
  | .absent => handleHost keepFragment cidTestOnEffectiveHost env cfg r

end C32
