import BoxoModel.Lib.BaseN
import BoxoModel.Lib.Varint
import BoxoModel.C32.Model
/-!
C32 — the base32 CID text codec, concretely (instead of a parameter).

A CIDv1 in binary is `varint(1) ++ varint(codec) ++ multihash`; its default text form is the multibase
prefix `b` followed by RFC 4648 base32, lower case, no padding (go-cid `Cid.String()` /
`StringOfBase(mbase.Base32)`). Base32 is a 5-bit packing (`Lib/BaseN`), LEB128 is `Lib/Varint`, so the
re-encoding round trip `cid.Decode(c.StringOfBase(Base32)) = c`, "no dot in the label" and "label not
empty" are THEOREMS for this base. Base36 (not a k-bit packing: a big-number radix conversion) and
base58btc (CIDv0) stay parameters.  Core-only; the driver runs `enc32` against go-cid (`b32` op).
-/
namespace C32

def b32lowerAlphabet : List Char := "abcdefghijklmnopqrstuvwxyz234567".toList

/-- multibase `b`: RFC 4648 base32, lower case, no padding (decoder of go-multibase accepts both cases) -/
def b32lower : BaseN.Codec := { k := 5, alphabet := b32lowerAlphabet, fold := Char.toLower }

theorem b32lower_wf : b32lower.WF :=
  { kpos := by decide, kle := by decide, size := by decide, inv := by decide }

def toU8 (bs : Bytes) : List UInt8 := bs.map Nat.toUInt8
def ofU8 (bs : List UInt8) : Bytes := bs.map UInt8.toNat
def ofChars (cs : List Char) : Bytes := cs.map Char.toNat

theorem ofU8_toU8 (bs : Bytes) (h : ∀ b ∈ bs, b < 256) : ofU8 (toU8 bs) = bs := by
  induction bs with
  | nil => rfl
  | cons b r ih =>
    have hb : b < 256 := h b (by simp)
    simp only [toU8, ofU8, List.map_cons, List.map_map] at ih ⊢
    rw [ih (fun x hx => h x (List.mem_cons_of_mem _ hx))]
    congr 1
    exact Varint.toNat_toUInt8 b hb

/-- binary CIDv1 -/
def cidV1Bytes (codec : Nat) (mh : Bytes) : List UInt8 :=
  Varint.encode 1 ++ (Varint.encode codec ++ toU8 mh)

/-- `cid.NewCidV1(codec, mh).StringOfBase(mbase.Base32)` as characters -/
def enc32Chars (codec : Nat) (mh : Bytes) : List Char := 'b' :: BaseN.encode b32lower (cidV1Bytes codec mh)

/-- … and as the byte string the model works with -/
def enc32 (codec : Nat) (mh : Bytes) : Bytes := ofChars (enc32Chars codec mh)

/-- `cid.Decode` restricted to multibase `b` strings: version, codec and the remaining bytes (the multihash;
go-cid additionally validates its inner structure) -/
def decode32Chars : List Char → Option Cid
  | 'b' :: r =>
    match BaseN.decode b32lower r with
    | none => none
    | some bytes =>
      match Varint.decode bytes with
      | none => none
      | some (v, r1) =>
        match Varint.decode r1 with
        | none => none
        | some (c, r2) => some { version := v, codec := c, mh := ofU8 r2 }
  | _ => none

/-- **Re-encoding round trip for base32**: decoding the base32 text of a CIDv1 gives back version 1, the codec
and the multihash bytes. -/
theorem decode32_enc32 (codec : Nat) (mh : Bytes) (h : ∀ b ∈ mh, b < 256) :
    decode32Chars (enc32Chars codec mh) = some { version := 1, codec := codec, mh := mh } := by
  unfold decode32Chars enc32Chars
  simp only [BaseN.decode_encode b32lower b32lower_wf, cidV1Bytes, Varint.decode_encode, ofU8_toU8 mh h]

theorem enc32Chars_alphabet (codec : Nat) (mh : Bytes) :
    ∀ ch ∈ enc32Chars codec mh, ch = 'b' ∨ ch ∈ b32lowerAlphabet := by
  intro ch h
  simp only [enc32Chars, List.mem_cons] at h
  rcases h with h | h
  · exact Or.inl h
  · exact Or.inr (BaseN.encode_mem_alphabet b32lower b32lower_wf _ ch h)

/-- no `.` and no `/` in a base32 CID string; it is not empty -/
theorem enc32_no_dot (codec : Nat) (mh : Bytes) : 46 ∉ enc32 codec mh ∧ 47 ∉ enc32 codec mh ∧ enc32 codec mh ≠ [] := by
  refine ⟨?_, ?_, by simp [enc32, ofChars, enc32Chars]⟩
  all_goals
    intro h
    simp only [enc32, ofChars, List.mem_map] at h
    obtain ⟨ch, hch, hv⟩ := h
    rcases enc32Chars_alphabet codec mh ch hch with rfl | hm
    · simp at hv
    · clear hch
      revert hv
      revert hm
      revert ch
      decide

/-- length of the label: 1 + ⌈8·n/5⌉ characters for an n-byte binary CID -/
theorem enc32_length (codec : Nat) (mh : Bytes) :
    (enc32 codec mh).length = 1 + (8 * (cidV1Bytes codec mh).length + 4) / 5 := by
  simp only [enc32, ofChars, enc32Chars, List.length_map, List.length_cons]
  obtain ⟨p, hp, he⟩ := BaseN.encode_length_mul b32lower b32lower_wf (cidV1Bytes codec mh)
  have hk : b32lower.k = 5 := rfl
  rw [hk] at hp he
  omega

/-- the concrete decoder on the model's byte strings -/
def decode32 (s : Bytes) : Option Cid := decode32Chars (s.map Char.ofNat)

theorem decode32_enc32' (codec : Nat) (mh : Bytes) (h : ∀ b ∈ mh, b < 256) :
    decode32 (enc32 codec mh) = some { version := 1, codec := codec, mh := mh } := by
  unfold decode32 enc32 ofChars
  have : (List.map Char.toNat (enc32Chars codec mh)).map Char.ofNat = enc32Chars codec mh := by
    rw [List.map_map]
    conv => rhs; rw [← List.map_id (enc32Chars codec mh)]
    apply List.map_congr_left
    intro ch _
    simp
  rw [this]
  exact decode32_enc32 codec mh h

end C32
