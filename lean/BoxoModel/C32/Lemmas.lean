import BoxoModel.C32.Model
/-! C32 — helper lemmas: the label codec (inline / un-inline), string splitting, and the pieces of the
path ↔ subdomain round trip. Core-only. -/
namespace C32

/-! ### the label codec -/

/-- after every `.` comes a byte that is neither `.` nor `-` (or the end): no label but the first is
empty or starts with a hyphen -/
def inlineSafe : Bytes → Bool
  | [] => true
  | [_] => true
  | c :: d :: r => (if c == 46 then d != 45 && d != 46 else true) && inlineSafe (d :: r)

theorem inlineRaw_eq_nil {s : Bytes} : inlineRaw s = [] ↔ s = [] := by
  cases s with
  | nil => simp [inlineRaw]
  | cons c r => simp only [inlineRaw]; split <;> simp; split <;> simp

theorem uninline_inlineRaw : ∀ (s : Bytes), inlineSafe s = true → uninlineDNSLink (inlineRaw s) = s
  | [], _ => by simp [inlineRaw, uninlineDNSLink]
  | [c], _ => by
    simp only [inlineRaw]
    by_cases h1 : c = 45
    · subst h1; simp [uninlineDNSLink]
    · by_cases h2 : c = 46
      · subst h2; simp [uninlineDNSLink]
      · simp [h1, h2, uninlineDNSLink]
  | c :: d :: r, h => by
    simp only [inlineSafe, Bool.and_eq_true] at h
    have ih := uninline_inlineRaw (d :: r) h.2
    by_cases h1 : c = 45
    · subst h1
      simp only [inlineRaw, beq_self_eq_true, ↓reduceIte] at ih ⊢
      simp only [uninlineDNSLink, beq_self_eq_true, ↓reduceIte]
      rw [ih]
    · by_cases h2 : c = 46
      · subst h2
        have hd := h.1
        simp at hd
        -- the next byte is an ordinary one, so the inlined tail does not start with a hyphen
        have hne : inlineRaw (d :: r) = d :: inlineRaw r := by simp [inlineRaw, hd.1, hd.2]
        have : inlineRaw (46 :: d :: r) = 45 :: d :: inlineRaw r := by
          simp [inlineRaw, hd.1, hd.2]
        rw [this]
        simp only [uninlineDNSLink, beq_self_eq_true, ↓reduceIte]
        have hd45 : (d == 45) = false := by simp [hd.1]
        simp only [hd45, Bool.false_eq_true, ↓reduceIte]
        rw [← hne, ih]
      · have : inlineRaw (c :: d :: r) = c :: inlineRaw (d :: r) := by
          simp [inlineRaw, h1, h2]
        rw [this]
        cases hi : inlineRaw (d :: r) with
        | nil => simp [inlineRaw_eq_nil] at hi
        | cons e t =>
          simp only [uninlineDNSLink]
          have : (c == 45) = false := by simp [h1]
          simp only [this, Bool.false_eq_true, ↓reduceIte]
          rw [← hi, ih]

theorem inlineRaw_uninline : ∀ (l : Bytes), 46 ∉ l → inlineRaw (uninlineDNSLink l) = l
  | [], _ => by simp [inlineRaw, uninlineDNSLink]
  | [c], h => by
    have hc : c ≠ 46 := by intro he; apply h; simp [he]
    by_cases h1 : c = 45
    · subst h1; simp [uninlineDNSLink, inlineRaw]
    · simp [uninlineDNSLink, inlineRaw, h1, hc]
  | c :: d :: r, h => by
    have hc : c ≠ 46 := by intro he; apply h; simp [he]
    have hr : 46 ∉ d :: r := fun hm => h (List.mem_cons_of_mem _ hm)
    have hr' : 46 ∉ r := fun hm => hr (List.mem_cons_of_mem _ hm)
    simp only [uninlineDNSLink]
    by_cases h1 : c = 45
    · subst h1
      simp only [beq_self_eq_true, ↓reduceIte]
      by_cases h2 : d = 45
      · subst h2
        simp only [beq_self_eq_true, ↓reduceIte, inlineRaw]
        rw [inlineRaw_uninline r hr']
      · have : (d == 45) = false := by simp [h2]
        simp only [this, Bool.false_eq_true, ↓reduceIte, inlineRaw]
        simp
        exact inlineRaw_uninline (d :: r) hr
    · have : (c == 45) = false := by simp [h1]
      simp only [this, Bool.false_eq_true, ↓reduceIte, inlineRaw]
      simp [hc]
      exact inlineRaw_uninline (d :: r) hr

theorem not_dot_mem_inlineRaw : ∀ (s : Bytes), 46 ∉ inlineRaw s
  | [] => by simp [inlineRaw]
  | c :: r => by
    have ih := not_dot_mem_inlineRaw r
    simp only [inlineRaw]
    split
    · simp [ih]
    · split
      · simp [ih]
      · rename_i h1 h2
        simp at h2
        simp [ih]; omega

theorem mem_inlineRaw {x : Nat} : ∀ (s : Bytes), x ∈ inlineRaw s → x = 45 ∨ x ∈ s
  | [], h => by simp [inlineRaw] at h
  | c :: r, h => by
    simp only [inlineRaw] at h
    split at h
    · simp at h; rcases h with h | h
      · exact Or.inl h
      · rcases mem_inlineRaw r h with h | h
        · exact Or.inl h
        · exact Or.inr (List.mem_cons_of_mem _ h)
    · split at h
      · simp at h; rcases h with h | h
        · exact Or.inl h
        · rcases mem_inlineRaw r h with h | h
          · exact Or.inl h
          · exact Or.inr (List.mem_cons_of_mem _ h)
      · simp at h; rcases h with h | h
        · right; simp [h]
        · rcases mem_inlineRaw r h with h | h
          · exact Or.inl h
          · exact Or.inr (List.mem_cons_of_mem _ h)

/-! ### splitting -/

theorem splitOn_ne_nil (sep : Nat) : ∀ (s : Bytes), splitOn sep s ≠ []
  | [] => by simp [splitOn]
  | c :: r => by simp only [splitOn]; split <;> simp

theorem splitOn_cons (sep c : Nat) (r : Bytes) : splitOn sep (c :: r) =
    if c == sep then [] :: splitOn sep r else (c :: (splitOn sep r).headD []) :: (splitOn sep r).tail := by
  simp [splitOn]

/-- names whose labels (all but possibly the first) are non-empty and do not start with a hyphen
are safe to inline -/
theorem inlineSafe_of_tail_labels : ∀ (s : Bytes),
    (∀ l ∈ (splitOn 46 s).tail, l ≠ [] ∧ l.head? ≠ some 45) → inlineSafe s = true
  | [], _ => by simp [inlineSafe]
  | [_], _ => by simp [inlineSafe]
  | c :: d :: r, h => by
    simp only [inlineSafe, Bool.and_eq_true]
    rw [splitOn_cons] at h
    by_cases hc : c = 46
    · subst hc
      simp only [beq_self_eq_true, ↓reduceIte, List.tail_cons] at h
      rw [splitOn_cons] at h
      constructor
      · by_cases hd : d = 46
        · subst hd
          simp at h
        · have hd' : (d == 46) = false := by simp [hd]
          simp only [hd', Bool.false_eq_true, ↓reduceIte] at h
          have := h _ (List.mem_cons_self ..)
          simp at this
          simp [hd]
          exact this
      · apply inlineSafe_of_tail_labels (d :: r)
        intro l hl
        apply h
        rw [splitOn_cons] at hl
        split
        · rename_i hd; simp only [hd, ↓reduceIte, List.tail_cons] at hl; exact List.mem_cons_of_mem _ hl
        · rename_i hd; simp only [hd, ↓reduceIte, List.tail_cons] at hl; exact List.mem_cons_of_mem _ hl
    · have hc' : (c == 46) = false := by simp [hc]
      simp only [hc', Bool.false_eq_true, ↓reduceIte, List.tail_cons] at h
      constructor
      · simp [hc]
      · exact inlineSafe_of_tail_labels (d :: r) h

theorem cut_none {sep : Nat} : ∀ {s : Bytes}, sep ∉ s → cut sep s = none
  | [], _ => rfl
  | c :: r, h => by
    have hc : c ≠ sep := by intro he; apply h; simp [he]
    have hr : sep ∉ r := fun hm => h (List.mem_cons_of_mem _ hm)
    simp [cut, hc, cut_none hr]

theorem cut_append {sep : Nat} : ∀ {a : Bytes} (b : Bytes), sep ∉ a → cut sep (a ++ sep :: b) = some (a, b)
  | [], b, _ => by simp [cut]
  | c :: r, b, h => by
    have hc : c ≠ sep := by intro he; apply h; simp [he]
    have hr : sep ∉ r := fun hm => h (List.mem_cons_of_mem _ hm)
    simp [cut, hc, cut_append b hr]

theorem splitOn_not_mem {sep : Nat} : ∀ {s : Bytes}, sep ∉ s → splitOn sep s = [s]
  | [], _ => rfl
  | c :: r, h => by
    have hc : c ≠ sep := by intro he; apply h; simp [he]
    have hr : sep ∉ r := fun hm => h (List.mem_cons_of_mem _ hm)
    simp [splitOn, hc, splitOn_not_mem hr]

theorem splitOn_append (sep : Nat) : ∀ (a b : Bytes),
    splitOn sep (a ++ sep :: b) = splitOn sep a ++ splitOn sep b
  | [], b => by simp [splitOn]
  | c :: r, b => by
    have ih := splitOn_append sep r b
    have hne := splitOn_ne_nil sep r
    simp only [List.cons_append, splitOn_cons]
    rw [ih]
    cases hs : splitOn sep r with
    | nil => exact absurd hs hne
    | cons x xs => by_cases hc : c = sep <;> simp [hc]

theorem join_splitOn (sep : Nat) : ∀ (s : Bytes), join sep (splitOn sep s) = s
  | [] => by simp [splitOn, join]
  | c :: r => by
    have ih := join_splitOn sep r
    have hne := splitOn_ne_nil sep r
    rw [splitOn_cons]
    cases hs : splitOn sep r with
    | nil => exact absurd hs hne
    | cons x xs =>
      rw [hs] at ih
      by_cases hc : c = sep
      · subst hc
        simp only [beq_self_eq_true, ↓reduceIte]
        simp only [join]
        simp [ih]
      · have hc' : (c == sep) = false := by simp [hc]
        simp only [hc', Bool.false_eq_true, ↓reduceIte, List.headD_cons, List.tail_cons]
        cases xs with
        | nil => simp [join] at ih ⊢; exact ih
        | cons y ys => simp [join] at ih ⊢; exact ih

/-! ### knownSubdomainDetails -/

theorem subdomainLoop_skip (cfg : Config) (R G : List Bytes) (ns : Bytes) :
    ∀ j, (∀ k, 0 < k → k ≤ j → isKnownHostname cfg (join 46 (G.drop k)) = none) →
      subdomainLoop cfg (R ++ ns :: G) (R.length + j) = subdomainLoop cfg (R ++ ns :: G) R.length
  | 0, _ => rfl
  | j + 1, h => by
    have ih := subdomainLoop_skip cfg R G ns j (fun k h1 h2 => h k h1 (by omega))
    have e : R.length + (j + 1) = (R.length + j) + 1 := by omega
    rw [e, subdomainLoop]
    simp only []
    have hd : (R ++ ns :: G).drop (R.length + j + 2) = G.drop (j + 1) := by
      have : R.length + j + 2 = R.length + (j + 2) := by omega
      rw [this, List.drop_append]
      simp
    rw [hd, h (j + 1) (by omega) (by omega)]
    exact ih

theorem subdomainLoop_hit (cfg : Config) (R G : List Bytes) (ns : Bytes) (gw : GW) (hR : R ≠ [])
    (hk : isKnownHostname cfg (join 46 G) = some gw) (hns : isSubdomainNamespace ns = true) :
    subdomainLoop cfg (R ++ ns :: G) R.length = some (gw, join 46 G, ns, join 46 R) := by
  cases hl : R.length with
  | zero => simp at hl; exact absurd hl hR
  | succ k =>
    rw [subdomainLoop]
    simp only []
    have hd : (R ++ ns :: G).drop (k + 2) = G := by
      have : k + 2 = R.length + 1 := by omega
      rw [this, List.drop_append]
      simp
    have hg : (R ++ ns :: G).getD (k + 2 - 1) [] = ns := by
      have : k + 2 - 1 = R.length := by omega
      rw [this]
      simp [List.getD]
    have ht : (R ++ ns :: G).take (k + 2 - 1) = R := by
      have : k + 2 - 1 = R.length := by omega
      rw [this]
      simp
    rw [hd, hk]
    simp only [hg, hns, ht, Bool.not_true, Bool.false_eq_true, ↓reduceIte]

/-- knownSubdomainDetails finds `<rootID>.<ns>.<gwHost>` when no proper label-suffix of the gateway
hostname is itself a known gateway -/
theorem knownSubdomainDetails_hit (cfg : Config) (rootID ns gwHost : Bytes) (gw : GW)
    (hk : isKnownHostname cfg gwHost = some gw) (hns : isSubdomainNamespace ns = true) (hdot : 46 ∉ ns)
    (hsfx : ∀ k, 0 < k → k < (splitOn 46 gwHost).length →
      isKnownHostname cfg (join 46 ((splitOn 46 gwHost).drop k)) = none) :
    knownSubdomainDetails cfg (rootID ++ 46 :: (ns ++ 46 :: gwHost)) = some (gw, gwHost, ns, rootID) := by
  unfold knownSubdomainDetails
  simp only []
  rw [splitOn_append, splitOn_append, splitOn_not_mem hdot]
  have hR := splitOn_ne_nil 46 rootID
  have hG := splitOn_ne_nil 46 gwHost
  have hlen : (splitOn 46 rootID ++ ([ns] ++ splitOn 46 gwHost)).length - 2 =
      (splitOn 46 rootID).length + ((splitOn 46 gwHost).length - 1) := by
    have : 0 < (splitOn 46 gwHost).length := List.length_pos_iff.mpr hG
    simp
    omega
  rw [hlen]
  have := subdomainLoop_skip cfg (splitOn 46 rootID) (splitOn 46 gwHost) ns ((splitOn 46 gwHost).length - 1)
    (fun k h1 h2 => hsfx k h1 (by have : 0 < (splitOn 46 gwHost).length := List.length_pos_iff.mpr hG; omega))
  simp only [List.singleton_append]
  rw [this, subdomainLoop_hit cfg _ _ ns gw hR (by rw [join_splitOn]; exact hk) hns]
  simp [join_splitOn]

/-! ### toSubdomainURL -/

theorem splitN_path3 (ns id : Bytes) (h1 : 47 ∉ ns) (h2 : 47 ∉ id) :
    splitN 47 4 (47 :: (ns ++ 47 :: id)) = [[], ns, id] := by
  simp [splitN, cut, cut_append id h1, cut_none h2]

theorem splitN_path4 (ns id rest : Bytes) (h1 : 47 ∉ ns) (h2 : 47 ∉ id) :
    splitN 47 4 (47 :: (ns ++ 47 :: (id ++ 47 :: rest))) = [[], ns, id, rest] := by
  simp [splitN, cut, cut_append (id ++ 47 :: rest) h1, cut_append rest h2]

/-- the tail of a content path: nothing, or `/rest` -/
def tailOf : Option Bytes → Bytes
  | none => []
  | some rest => 47 :: rest

/-- toSubdomainURL on a path `/ns/id[/rest]` -/
theorem toSubdomainURL_split (kf : Bool) (env : Env) (gwHost ns id : Bytes) (rest : Option Bytes) (r : Req)
    (inl : Bool) (h1 : 47 ∉ ns) (h2 : 47 ∉ id) :
    toSubdomainURL kf env gwHost (47 :: (ns ++ 47 :: (id ++ tailOf rest))) r inl =
      subdomainURLOf kf env gwHost r inl ns id (rest.getD []) := by
  cases rest with
  | none => simp [tailOf, toSubdomainURL, splitN_path3 ns id h1 h2]
  | some rest => simp [tailOf, toSubdomainURL, splitN_path4 ns id rest h1 h2]

/-- the CID branch of toSubdomainURL -/
theorem subdomainURLOf_cid (kf : Bool) (env : Env) (gwHost : Bytes) (r : Req) (inl : Bool) (ns id rest : Bytes)
    (hns : isSubdomainNamespace ns = true) (c : Cid) (L : Bytes)
    (hd : env.codecs.decode (normalizePeerID env ns id) = some c)
    (hL : toDNSLabel (env.codecs.enc (isPeerIDNamespace ns) (if isPeerIDNamespace ns then libp2pKey else c.codec) c.mh)
      (env.codecs.enc true (if isPeerIDNamespace ns then libp2pKey else c.codec) c.mh) = some L)
    (hne : L ≠ []) (hu : env.urlHostOK L = true) :
    subdomainURLOf kf env gwHost r inl ns id rest =
      .to { https := r.https, host := L ++ 46 :: ns ++ 46 :: gwHost, path := locationPath rest,
            rawQuery := r.rawQuery, fragment := if kf then r.fragment else [] } := by
  unfold subdomainURLOf
  simp only [hns, Bool.not_true, Bool.false_eq_true, ↓reduceIte, hd, hL]
  have : L.isEmpty = false := by cases L <;> simp_all
  simp [this, hu]

/-! ### the handler on a subdomain host -/

theorem hasPrefix_append : ∀ (a b : Bytes), hasPrefix (a ++ b) a = true
  | [], b => by cases b <;> simp [hasPrefix]
  | c :: r, b => by simp [hasPrefix, hasPrefix_append r b]

theorem contains_iff {c : Nat} {s : Bytes} : contains c s = true ↔ c ∈ s := by
  simp [contains]

theorem contains_false {c : Nat} {s : Bytes} : contains c s = false ↔ c ∉ s := by
  rw [← contains_iff]; cases contains c s <;> simp

/-- an inlined name that had a dot contains a hyphen -/
theorem dash_mem_inlineRaw : ∀ (s : Bytes), 46 ∈ s → 45 ∈ inlineRaw s
  | [], h => by simp at h
  | c :: r, h => by
    simp only [inlineRaw]
    split
    · simp
    · split
      · simp
      · rename_i h1 h2
        simp at h2
        have : 46 ∈ r := by
          simp at h
          rcases h with h | h
          · exact absurd h.symm h2
          · exact h
        simp [dash_mem_inlineRaw r this]

/-- the handler on `<L>.<ns>.<gwHost>` (as Host or as X-Forwarded-Host) where `L` is a canonical CID label -/
theorem handle_subdomain_cid (kf : Bool) (env : Env) (cfg : Config) (gwHost ns L : Bytes) (rq : Req)
    (gw : GW) (c : Cid)
    (heff : effectiveHost rq = L ++ 46 :: (ns ++ 46 :: gwHost))
    (hunk : isKnownHostname cfg (L ++ 46 :: (ns ++ 46 :: gwHost)) = none)
    (hksd : knownSubdomainDetails cfg (L ++ 46 :: (ns ++ 46 :: gwHost)) = some (gw, gwHost, ns, L))
    (hus : gw.useSubdomains = true) (hpp : hasPathPrefix (47 :: ns ++ 47 :: L) gw.paths = true)
    (hd : env.codecs.decode L = some c) (hlen : L.length ≤ 63)
    (hcodec : isPeerIDNamespace ns = true → c.codec = libp2pKey) :
    handleHost kf true env cfg rq = .next ((47 :: ns ++ 47 :: L) ++ rq.path) (.subdomain gwHost) := by
  unfold handleHost
  simp only [heff]
  simp only [hunk, hksd, hus, hpp, hd, Bool.and_self, Bool.not_true, Bool.false_eq_true, ↓reduceIte]
  have hl : toDNSLabel L (env.codecs.enc true c.codec c.mh) = some L := by
    simp [toDNSLabel, dnsLabelMaxLength, hlen]
  simp only [hl, hasPrefix_append, Bool.not_true, Bool.false_eq_true, ↓reduceIte]
  cases hp : isPeerIDNamespace ns
  · simp
  · simp [hcodec hp]

/-- the handler on `<rootID>.ipns.<gwHost>` where `rootID` is not a CID -/
theorem handle_subdomain_name (kf ch : Bool) (env : Env) (cfg : Config) (gwHost rootID : Bytes) (rq : Req)
    (gw : GW)
    (heff : effectiveHost rq = rootID ++ 46 :: (IPNS ++ 46 :: gwHost))
    (hunk : isKnownHostname cfg (rootID ++ 46 :: (IPNS ++ 46 :: gwHost)) = none)
    (hksd : knownSubdomainDetails cfg (rootID ++ 46 :: (IPNS ++ 46 :: gwHost)) = some (gw, gwHost, IPNS, rootID))
    (hus : gw.useSubdomains = true) (hpp : hasPathPrefix (47 :: IPNS ++ 47 :: rootID) gw.paths = true)
    (hd : env.codecs.decode rootID = none) :
    handleHost kf ch env cfg rq =
      .next ((if !contains 46 rootID && contains 45 rootID then
          if env.hasDNSLink (uninlineDNSLink rootID) then ipnsSlash ++ uninlineDNSLink rootID
          else if !env.hasDNSLink rootID then ipnsSlash ++ uninlineDNSLink rootID
          else 47 :: IPNS ++ 47 :: rootID
        else 47 :: IPNS ++ 47 :: rootID) ++ rq.path) (.subdomain gwHost) := by
  unfold handleHost
  simp only [heff]
  simp only [hunk, hksd, hus, hpp, hd, Bool.and_self, Bool.not_true, Bool.false_eq_true, ↓reduceIte]
  simp

/-- the optional canonical-CID / peer-ID redirects never produce a `next` outcome -/
theorem redir_opt_not_next (c : Bool) (x : Redir) (p : Bytes) (k : Ctx) :
    (if c then (match x with
      | Redir.err => some Out.badRequest
      | Redir.to u => some (Out.redirect u)
      | Redir.no => none) else none) ≠ some (Out.next p k) := by
  cases c <;> cases x <;> simp

theorem handle_absent (kf ch : Bool) (env : Env) (cfg : Config) (r : Req) (h : r.uri = .absent) :
    handle kf ch env cfg r = handleHost kf ch env cfg r := by
  unfold handle; rw [h]

theorem opt_out_next_eq {o : Option Out} {d x : Out} (h : (match o with | some v => v | none => d) = x) :
    o = some x ∨ (o = none ∧ d = x) := by
  cases o <;> simp_all

end C32
