import BoxoModel.C26.Time
/-! Proof that parsing inverts formatting for RFC3339Nano UTC instants of years 0001–9999 (core only). -/
namespace C26.Time

theorem dby_succ (y : Nat) (hy : 1 ≤ y) : dby (y + 1) = dby y + 365 + (if isLeap y then 1 else 0) := by
  unfold dby isLeap
  simp only [Nat.add_sub_cancel]
  by_cases h4 : y % 4 = 0 <;> by_cases h100 : y % 100 = 0 <;> by_cases h400 : y % 400 = 0 <;>
    simp [h4, h100, h400] <;> omega

theorem findYear_spec (y0 z : Nat) (h : z < dby (y0 + 1)) :
    1 ≤ findYear y0 z ∧ dby (findYear y0 z) ≤ z ∧ z < dby (findYear y0 z + 1) := by
  induction y0 with
  | zero => simp [dby] at h
  | succ y ih =>
    unfold findYear
    split
    · rename_i hle; exact ⟨by omega, hle, h⟩
    · rename_i hnle
      cases y with
      | zero => simp [dby] at hnle
      | succ y' => exact ih (by omega)

theorem year_start (z : Nat) : z < dby (z / 365 + 1 + 1) := by
  unfold dby
  simp only [Nat.add_sub_cancel]
  omega

theorem year_lt (y z : Nat) (h1 : dby y ≤ z) (h2 : z < 3652059) (hy : 1 ≤ y) : y < 10000 := by
  simp only [dby] at h1
  omega

set_option maxRecDepth 100000 in
theorem findMonth_spec : ∀ (leap : Bool) (doy : Nat), doy < 366 → doy < dbm leap 13 →
    1 ≤ findMonth leap 12 doy ∧ findMonth leap 12 doy ≤ 12 ∧
    dbm leap (findMonth leap 12 doy) ≤ doy ∧ doy < dbm leap (findMonth leap 12 doy + 1) := by
  decide

/-- the civil date of a day number of years 1–9999: well-formed, and it determines the day number -/
theorem civil_spec (z : Nat) (hz : z < 3652059) :
    1 ≤ (civil z).1 ∧ (civil z).1 < 10000 ∧ 1 ≤ (civil z).2.1 ∧ (civil z).2.1 ≤ 12 ∧ 1 ≤ (civil z).2.2 ∧
    (civil z).2.2 ≤ dbm (isLeap (civil z).1) ((civil z).2.1 + 1) - dbm (isLeap (civil z).1) (civil z).2.1 ∧
    dby (civil z).1 + dbm (isLeap (civil z).1) (civil z).2.1 + ((civil z).2.2 - 1) = z := by
  obtain ⟨y1, y2, y3⟩ := findYear_spec (z / 365 + 1) z (year_start z)
  have ylt := year_lt _ z y2 hz y1
  have hs := dby_succ _ y1
  have hdoy : z - dby (findYear (z / 365 + 1) z) < dbm (isLeap (findYear (z / 365 + 1) z)) 13 := by
    cases hl : isLeap (findYear (z / 365 + 1) z) <;> simp [hl] at hs <;> simp [dbm] <;> omega
  have hdoy' : z - dby (findYear (z / 365 + 1) z) < 366 := by
    cases hl : isLeap (findYear (z / 365 + 1) z) <;> simp [hl, dbm] at hdoy <;> omega
  obtain ⟨m1, m2, m3, m4⟩ := findMonth_spec _ _ hdoy' hdoy
  simp only [civil]
  refine ⟨y1, ylt, m1, m2, by omega, by omega, by omega⟩

theorem num2_d (n : Nat) (h : n < 100) : num2 (48 + n / 10) (48 + n % 10) = some n := by
  have h1 : isDigit (48 + n / 10) = true := by simp [isDigit]; omega
  have h2 : isDigit (48 + n % 10) = true := by simp [isDigit]; omega
  simp only [num2, h1, h2, Bool.and_self, if_true, Option.some.injEq]
  omega

theorem num4_d (n : Nat) (h : n < 10000) :
    num4 (48 + n / 1000) (48 + n / 100 % 10) (48 + n / 10 % 10) (48 + n % 10) = some n := by
  have h1 : isDigit (48 + n / 1000) = true := by simp [isDigit]; omega
  have h2 : isDigit (48 + n / 100 % 10) = true := by simp [isDigit]; omega
  have h3 : isDigit (48 + n / 10 % 10) = true := by simp [isDigit]; omega
  have h4 : isDigit (48 + n % 10) = true := by simp [isDigit]; omega
  simp only [num4, h1, h2, h3, h4, Bool.and_self, if_true, Option.some.injEq]
  omega

theorem fracDigits_digits (w : Nat) : ∀ n, n < 10 ^ w → ∀ b ∈ fracDigits w n, isDigit b = true := by
  induction w with
  | zero => intro n _ b hb; simp [fracDigits] at hb
  | succ w ih =>
    intro n hn b hb
    unfold fracDigits at hb
    split at hb
    · simp at hb
    · simp only [List.mem_cons] at hb
      rcases hb with rfl | hb
      · have : n / 10 ^ w < 10 := by
          apply Nat.div_lt_of_lt_mul
          rw [Nat.pow_succ] at hn; omega
        simp [isDigit]; omega
      · exact ih (n % 10 ^ w) (Nat.mod_lt _ (Nat.pow_pos (by omega))) b hb

theorem fracValue_digits (w : Nat) : ∀ n, n < 10 ^ w → fracValue w (fracDigits w n) = n := by
  induction w with
  | zero => intro n hn; simp at hn; simp [fracValue, hn]
  | succ w ih =>
    intro n hn
    unfold fracDigits
    split
    · rename_i h0; simp at h0; simp [fracValue, h0]
    · simp only [fracValue, Nat.add_sub_cancel_left]
      rw [ih (n % 10 ^ w) (Nat.mod_lt _ (Nat.pow_pos (by omega)))]
      rw [Nat.mul_comm]; exact Nat.div_add_mod n (10 ^ w)

theorem spanDigits_append (ds : Bytes) (x : Nat) (r : Bytes) (hd : ∀ b ∈ ds, isDigit b = true)
    (hx : isDigit x = false) : spanDigits (ds ++ x :: r) = (ds, x :: r) := by
  induction ds with
  | nil => simp [spanDigits, hx]
  | cons a t ih =>
    have ha := hd a (by simp)
    have := ih (fun b hb => hd b (by simp [hb]))
    simp [spanDigits, ha, this]


theorem fracDigits_ne_nil (n : Nat) (h : n ≠ 0) : fracDigits 9 n ≠ [] := by
  unfold fracDigits
  have : (n == 0) = false := by simp [h]
  simp [this]

/-- the fraction and the zone of a formatted instant parse back -/
theorem frac_roundtrip (nsec : Nat) (h : nsec < 1000000000) :
    parseFrac (formatFrac nsec ++ [90]) = some (nsec, [90]) := by
  unfold parseFrac
  unfold formatFrac
  by_cases h0 : nsec = 0
  · subst h0; rfl
  · have hb : (nsec == 0) = false := by simp [h0]
    simp only [hb, Bool.false_eq_true, if_false, List.cons_append]
    have hd := fracDigits_digits 9 nsec (by omega)
    rw [spanDigits_append (fracDigits 9 nsec) 90 [] hd (by decide)]
    have hne := fracDigits_ne_nil nsec h0
    have : (fracDigits 9 nsec).isEmpty = false := by
      cases hf : fracDigits 9 nsec with
      | nil => exact absurd hf hne
      | cons _ _ => rfl
    simp only [this, Bool.false_eq_true, if_false]
    rw [fracValue_digits 9 nsec (by omega)]

/-- `time.Parse(RFC3339Nano, t.UTC().Format(RFC3339Nano)) = t` for every instant of years 0001–9999,
to the nanosecond. -/
theorem parse_format (t : Int) (h : InRange t) : parseTime (formatTime t) = some t := by
  obtain ⟨h0, h1⟩ := h
  -- the pieces of the instant
  have hT : ((t + epochShift).toNat : Int) = t + epochShift := Int.toNat_of_nonneg h0
  have hTlt : (t + epochShift).toNat < endOfRange := by omega
  generalize hTdef : (t + epochShift).toNat = T at hT hTlt
  have hS : T / 1000000000 < 3652059 * 86400 := by unfold endOfRange at hTlt; omega
  have hz : T / 1000000000 / 86400 < 3652059 := by omega
  obtain ⟨c1, c2, c3, c4, c5, c6, c7⟩ := civil_spec (T / 1000000000 / 86400) hz
  have hn : T % 1000000000 < 1000000000 := Nat.mod_lt _ (by omega)
  have hsod : T / 1000000000 % 86400 < 86400 := Nat.mod_lt _ (by omega)
  have hfr := frac_roundtrip (T % 1000000000) hn
  unfold formatTime
  simp only [hTdef]
  generalize civil (T / 1000000000 / 86400) = c at c1 c2 c3 c4 c5 c6 c7
  obtain ⟨y, m, d⟩ := c
  simp only at c1 c2 c3 c4 c5 c6 c7
  generalize hsd : T / 1000000000 % 86400 = sod at hsod
  simp only [d4, d2, List.cons_append, List.nil_append, List.append_assoc, parseTime]
  have hd : d < 100 := by
    have : dbm (isLeap y) (m + 1) - dbm (isLeap y) m ≤ 31 := by
      have hm : m = 1 ∨ m = 2 ∨ m = 3 ∨ m = 4 ∨ m = 5 ∨ m = 6 ∨ m = 7 ∨ m = 8 ∨ m = 9 ∨ m = 10 ∨ m = 11 ∨ m = 12 := by omega
      rcases hm with rfl | rfl | rfl | rfl | rfl | rfl | rfl | rfl | rfl | rfl | rfl | rfl <;>
        cases isLeap y <;> simp [dbm]
    omega
  rw [num4_d y c2, num2_d m (by omega), num2_d d hd, num2_d (sod / 3600) (by omega),
    num2_d (sod % 3600 / 60) (by omega), num2_d (sod % 60) (by omega)]
  simp only
  have hcond : y ≥ 1 ∧ 1 ≤ m ∧ m ≤ 12 ∧ 1 ≤ d ∧ d ≤ dbm (isLeap y) (m + 1) - dbm (isLeap y) m ∧
      sod / 3600 < 24 ∧ sod % 3600 / 60 < 60 ∧ sod % 60 < 60 :=
    ⟨c1, c3, c4, c5, c6, by omega, by omega, by omega⟩
  simp only [hcond, and_self, if_true]
  rw [hfr]
  simp only [parseZone, Int.sub_zero]
  congr 1
  have e1 : (dby y + dbm (isLeap y) m + (d - 1)) * 86400 + sod / 3600 * 3600 + sod % 3600 / 60 * 60 + sod % 60 =
      T / 1000000000 := by
    rw [c7]; omega
  rw [e1]
  have e2 : ((T / 1000000000 : Nat) : Int) * 1000000000 + ((T % 1000000000 : Nat) : Int) = (T : Int) := by
    have := Nat.div_add_mod T 1000000000
    omega
  omega
end C26.Time
