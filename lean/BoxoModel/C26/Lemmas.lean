import BoxoModel.C26.Model
import BoxoModel.C25.Lemmas
/-! Helper lemmas for C26 (core only). -/
namespace C26
open C25

/-! ### sorting keeps the association -/
theorem insertKey_perm (x : String × CVal) (l : List (String × CVal)) : (insertKey x l).Perm (x :: l) := by
  induction l with
  | nil => exact List.Perm.refl _
  | cons y ys ih =>
    simp only [insertKey]
    split
    · exact List.Perm.refl _
    · exact (List.Perm.cons y ih).trans (List.Perm.swap x y ys)

theorem sortNode_perm (l : List (String × CVal)) : (sortNode l).Perm l := by
  induction l with
  | nil => exact List.Perm.refl _
  | cons x xs ih => exact (insertKey_perm x (sortNode xs)).trans (List.Perm.cons x ih)

theorem lookup_of_mem (l : Node) (k : String) (v : CVal) (hn : (l.map (·.1)).Nodup) (hm : (k, v) ∈ l) :
    lookup l k = some v := by
  induction l with
  | nil => simp at hm
  | cons a t ih =>
    simp only [List.map_cons, List.nodup_cons] at hn
    simp only [List.mem_cons] at hm
    rcases hm with rfl | hm
    · simp [lookup]
    · have hne : a.1 ≠ k := by
        intro e
        apply hn.1
        rw [e]
        exact List.mem_map_of_mem (f := (·.1)) hm
      have : (a.1 == k) = false := by simp [hne]
      have := ih hn.2 hm
      simp only [lookup, List.find?_cons, *] at this ⊢
      exact this

theorem lookup_sortNode (l : Node) (k : String) (v : CVal) (hn : (l.map (·.1)).Nodup) (hm : (k, v) ∈ l) :
    lookup (sortNode l) k = some v := by
  have hp := sortNode_perm l
  apply lookup_of_mem
  · exact ((hp.map (·.1)).nodup_iff).mpr hn
  · exact hp.mem_iff.mpr hm

/-! ### metadata checks -/
theorem checkAll_keys (m : List (String × MVal)) (ms : List (String × CVal)) (h : checkAll m = .ok ms) :
    ms.map (·.1) = m.map (·.1) ∧ (∀ k ∈ ms.map (·.1), k ≠ "" ∧ reservedKeys.contains k = false) ∧
    (∀ e ∈ m, ∃ v, anyToNode e.2 = .ok v ∧ (e.1, v) ∈ ms) := by
  induction m generalizing ms with
  | nil => simp [checkAll] at h; subst h; simp
  | cons e rest ih =>
    simp only [checkAll] at h
    cases hc : checkEntry e with
    | error err => simp [hc] at h
    | ok x =>
      simp only [hc] at h
      cases hr : checkAll rest with
      | error err => simp [hr] at h
      | ok xs =>
        simp only [hr, Except.ok.injEq] at h
        subst h
        obtain ⟨i1, i2, i3⟩ := ih xs hr
        unfold checkEntry at hc
        split at hc
        · simp at hc
        · rename_i hne
          split at hc
          · simp at hc
          · rename_i hres
            cases ha : anyToNode e.2 with
            | error err => simp [ha] at hc
            | ok v =>
              simp only [ha, Except.ok.injEq] at hc
              subst hc
              refine ⟨by simp [i1], ?_, ?_⟩
              · intro k hk
                simp only [List.map_cons, List.mem_cons] at hk
                rcases hk with rfl | hk
                · exact ⟨by simpa using hne, by simpa using hres⟩
                · exact i2 k hk
              · intro e' he'
                simp only [List.mem_cons] at he'
                rcases he' with rfl | he'
                · exact ⟨v, ha, by simp⟩
                · obtain ⟨v', h1, h2⟩ := i3 e' he'
                  exact ⟨v', h1, by simp [h2]⟩

/-! ### integer conversions -/
theorem toU64_toI64 (n : Nat) (h : n < 2 ^ 64) : toU64 (toI64 n) = n := by
  unfold toU64 toI64
  split
  · have : ((n : Int) % (2 ^ 64 : Int)) = n := Int.emod_eq_of_lt (by omega) (by omega)
    rw [this]; simp
  · have : (((n : Int) - 2 ^ 64) % (2 ^ 64 : Int)) = n := by
      rw [Int.sub_emod, Int.emod_self]
      simp only [Int.sub_zero, Int.emod_emod]
      exact Int.emod_eq_of_lt (by omega) (by omega)
    rw [this]; simp

theorem toU64_nonneg (t : Int) (h0 : 0 ≤ t) (h1 : t < 2 ^ 64) : toU64 t = t.toNat := by
  unfold toU64
  rw [Int.emod_eq_of_lt h0 h1]

/-! ### sufficient conditions for validation -/
theorem validate_intro (C : Crypto) (decode : Bytes → Option Node) (parseTime : Bytes → Option Int)
    (now : Int) (r : Record) (pk : Nat) (eol : Int)
    (h1 : r.pb.size ≤ maxRecordSize) (h2 : r.pb.sigV2 ≠ []) (h3 : r.pb.data ≠ [])
    (h4 : C.verify pk (sigPrefix ++ r.pb.data) r.pb.sigV2 = true)
    (h5 : legacyGuard r.pb → cborMatchesPb decode r.pb = .ok ())
    (h6 : validity parseTime r = .ok eol) (h7 : now ≤ eol) (h8 : ∀ t, ttl r = .ok t → 0 ≤ t) :
    validate C decode parseTime now r pk = .ok () := by
  unfold validate
  have e1 : ¬ r.pb.size > maxRecordSize := by omega
  have e2 : (r.pb.sigV2.length == 0) = false := by
    cases hs : r.pb.sigV2 with
    | nil => exact absurd hs h2
    | cons _ _ => simp
  have e3 : (r.pb.data.length == 0) = false := by
    cases hs : r.pb.data with
    | nil => exact absurd hs h3
    | cons _ _ => simp
  simp only [e1, if_false, e2, e3, h4, Bool.not_true, Bool.false_eq_true]
  have e5 : (if (r.pb.sigV1.length != 0 || r.pb.value.length != 0) = true then cborMatchesPb decode r.pb
      else Except.ok ()) = .ok () := by
    split
    · rename_i hg
      apply h5
      simp only [Bool.or_eq_true, bne_iff_ne, ne_eq] at hg
      rcases hg with hg | hg
      · left; intro e; simp [e] at hg
      · right; intro e; simp [e] at hg
    · rfl
  rw [e5, h6]
  simp only
  have e7 : ¬ now > eol := by omega
  simp only [e7, if_false]
  cases ht : ttl r with
  | error e => rfl
  | ok t =>
    have := h8 t ht
    have : ¬ t < 0 := by omega
    simp [this]


/-- the unsorted association list `createNode` builds -/
def rawNode (ms : List (String × CVal)) (value : Bytes) (seq : Nat) (validity : Bytes) (ttl : Int) : Node :=
  ms ++ [("Value", .bytes value), ("Validity", .bytes validity), ("ValidityType", .int 0),
    ("Sequence", .int (toI64 seq)), ("TTL", .int (max 0 ttl))]

/-- field by field, what `newRecord` returns -/
theorem newRecord_shape (K : Keys) (encode : Node → Bytes) (sk : Nat) (value : Bytes) (seq : Nat)
    (validity : Bytes) (ttl : Int) (o : Opts) (sizeOf : Pb → Nat) (rec : Record)
    (h : newRecord K encode sk value seq validity ttl o sizeOf = .ok rec) :
    ∃ ms, checkAll o.metadata = .ok ms ∧ rec.node = sortNode (rawNode ms value seq validity ttl) ∧
      rec.pb.data = encode rec.node ∧ rec.pb.sigV2 = K.sign sk (sigPrefix ++ encode rec.node) ∧
      (o.v1 = true → rec.pb.value = value ∧ rec.pb.validity = validity ∧ rec.pb.validityType = 0 ∧
        rec.pb.sequence = seq ∧ rec.pb.ttl = (max 0 ttl).toNat) ∧
      (o.v1 = false → rec.pb.value = [] ∧ rec.pb.sigV1 = []) ∧
      (embedOf K o sk = true → rec.pb.pubKey = K.marshalKey (K.pubOf sk)) ∧
      (embedOf K o sk = false → rec.pb.pubKey = []) := by
  unfold newRecord createNode at h
  cases hc : checkAll o.metadata with
  | error e => simp [hc] at h
  | ok ms =>
    simp only [hc, Except.ok.injEq] at h
    subst h
    refine ⟨ms, rfl, rfl, ?_⟩
    cases o.v1 <;> cases embedOf K o sk <;> simp [rawNode]

end C26
