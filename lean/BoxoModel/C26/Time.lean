/-
C26 — RFC3339Nano formatting and parsing of UTC instants (what `util.FormatRFC3339` / `util.ParseRFC3339`
= `t.UTC().Format(time.RFC3339Nano)` / `time.Parse(time.RFC3339Nano, s)` compute), for years 0001–9999.

An instant is an integer of nanoseconds since the Unix epoch. The civil date is computed with a
proof-friendly algorithm (year by a downward search from an over-estimate, month from the cumulative
table); that it prints what Go's `time` package prints is checked byte for byte by the correspondence
run (cmd/c26, field `fmt`), not proved.  The parser accepts exactly
  YYYY-MM-DD 'T' HH:MM:SS [ ('.'|',') digits ] ( 'Z' | ('+'|'-') HH ':' MM )
with Go's range checks (month, day of month incl. leap years, hour, minute, second < 60) and year ≥ 1.
Core-only (no Mathlib): imported by the line-protocol driver.
-/
namespace C26.Time

abbrev Bytes := List Nat

def isLeap (y : Nat) : Bool := y % 4 == 0 && (y % 100 != 0 || y % 400 == 0)

/-- days before January 1st of year `y ≥ 1`, counted from 0001-01-01 -/
def dby (y : Nat) : Nat :=
  let p := y - 1
  365 * p + p / 4 - p / 100 + p / 400

/-- days before the first of month `m` (1..12; 13 = length of the year) in a (leap) year -/
def dbm (leap : Bool) (m : Nat) : Nat :=
  let l := if leap then 1 else 0
  match m with
  | 0 => 0 | 1 => 0 | 2 => 31 | 3 => 59 + l | 4 => 90 + l | 5 => 120 + l | 6 => 151 + l | 7 => 181 + l
  | 8 => 212 + l | 9 => 243 + l | 10 => 273 + l | 11 => 304 + l | 12 => 334 + l
  | _ => 365 + l

/-- the largest `r ≤ y` (`r ≥ 1`) with `dby r ≤ z` -/
def findYear : Nat → Nat → Nat
  | 0, _ => 1
  | y + 1, z => if dby (y + 1) ≤ z then y + 1 else findYear y z

/-- the largest `r ≤ m` (`r ≥ 1`) with `dbm leap r ≤ doy` -/
def findMonth (leap : Bool) : Nat → Nat → Nat
  | 0, _ => 1
  | m + 1, doy => if dbm leap (m + 1) ≤ doy then m + 1 else findMonth leap m doy

/-- (year, month, day) of day number `z` (0 = 0001-01-01) -/
def civil (z : Nat) : Nat × Nat × Nat :=
  let y := findYear (z / 365 + 1) z
  let doy := z - dby y
  let m := findMonth (isLeap y) 12 doy
  (y, m, doy - dbm (isLeap y) m + 1)

/-- nanoseconds between 0001-01-01T00:00:00Z and the Unix epoch -/
def epochShift : Int := 62135596800 * 1000000000
/-- first instant of year 10000, in nanoseconds since 0001-01-01 -/
def endOfRange : Nat := 3652059 * 86400 * 1000000000

/-- instants of years 0001–9999 -/
def InRange (t : Int) : Prop := 0 ≤ t + epochShift ∧ t + epochShift < (endOfRange : Int)

def d2 (n : Nat) : Bytes := [48 + n / 10, 48 + n % 10]
def d4 (n : Nat) : Bytes := [48 + n / 1000, 48 + n / 100 % 10, 48 + n / 10 % 10, 48 + n % 10]

/-- fractional digits of `n < 10^w` written with `w` digits, trailing zeros dropped -/
def fracDigits : Nat → Nat → Bytes
  | 0, _ => []
  | w + 1, n => if n == 0 then [] else (48 + n / 10 ^ w) :: fracDigits w (n % 10 ^ w)

def formatFrac (nsec : Nat) : Bytes := if nsec == 0 then [] else 46 :: fracDigits 9 nsec

/-- `t.UTC().Format(time.RFC3339Nano)` -/
def formatTime (t : Int) : Bytes :=
  let T := (t + epochShift).toNat
  let S := T / 1000000000
  let nsec := T % 1000000000
  let z := S / 86400
  let sod := S % 86400
  let c := civil z
  d4 c.1 ++ [45] ++ d2 c.2.1 ++ [45] ++ d2 c.2.2 ++ [84] ++ d2 (sod / 3600) ++ [58] ++ d2 (sod % 3600 / 60) ++ [58] ++
    d2 (sod % 60) ++ formatFrac nsec ++ [90]

def isDigit (b : Nat) : Bool := 48 ≤ b && b ≤ 57

def num2 (a b : Nat) : Option Nat := if isDigit a && isDigit b then some ((a - 48) * 10 + (b - 48)) else none
def num4 (a b c d : Nat) : Option Nat :=
  if isDigit a && isDigit b && isDigit c && isDigit d then
    some ((a - 48) * 1000 + (b - 48) * 100 + (c - 48) * 10 + (d - 48)) else none

/-- leading digits and the rest -/
def spanDigits : Bytes → Bytes × Bytes
  | [] => ([], [])
  | b :: r => if isDigit b then let p := spanDigits r; (b :: p.1, p.2) else ([], b :: r)

/-- value of fractional digits in units of 10^-w (digits beyond the w-th are dropped, as Go does) -/
def fracValue : Nat → Bytes → Nat
  | 0, _ => 0
  | _ + 1, [] => 0
  | w + 1, d :: ds => (d - 48) * 10 ^ w + fracValue w ds

/-- optional fractional second: (nanoseconds, remaining input) -/
def parseFrac (rest : Bytes) : Option (Nat × Bytes) :=
  match rest with
  | 46 :: r =>
    let p := spanDigits r
    if p.1.isEmpty then none else some (fracValue 9 p.1, p.2)
  | 44 :: r =>   -- Go's parser also accepts a comma as the decimal separator
    let p := spanDigits r
    if p.1.isEmpty then none else some (fracValue 9 p.1, p.2)
  | _ => some (0, rest)

/-- zone designator: offset east of UTC in seconds -/
def parseZone : Bytes → Option Int
  | [90] => some 0
  | [sg, h1, h2, 58, m1, m2] =>
    match num2 h1 h2, num2 m1 m2 with
    | some h, some m =>
      if h ≤ 24 ∧ m ≤ 60 then   -- Go accepts hour 24 and minute 60 in a zone offset
        (if sg == 43 then some ((h * 3600 + m * 60 : Nat) : Int)
         else if sg == 45 then some (-((h * 3600 + m * 60 : Nat) : Int)) else none)
      else none
    | _, _ => none
  | _ => none

/-- `time.Parse(time.RFC3339Nano, s)` then `.UTC()`, as nanoseconds since the Unix epoch -/
def parseTime (bs : Bytes) : Option Int :=
  match bs with
  | y1 :: y2 :: y3 :: y4 :: 45 :: m1 :: m2 :: 45 :: dd1 :: dd2 :: 84 :: h1 :: h2 :: 58 :: i1 :: i2 :: 58 :: s1 :: s2 :: rest =>
    match num4 y1 y2 y3 y4, num2 m1 m2, num2 dd1 dd2, num2 h1 h2, num2 i1 i2, num2 s1 s2 with
    | some y, some m, some d, some h, some mi, some s =>
      if y ≥ 1 ∧ 1 ≤ m ∧ m ≤ 12 ∧ 1 ≤ d ∧ d ≤ dbm (isLeap y) (m + 1) - dbm (isLeap y) m ∧ h < 24 ∧ mi < 60 ∧ s < 60 then
        match parseFrac rest with
        | none => none
        | some (nsec, zone) =>
          match parseZone zone with
          | none => none
          | some off =>
            let days := dby y + dbm (isLeap y) m + (d - 1)
            let secs : Int := ((days * 86400 + h * 3600 + mi * 60 + s : Nat) : Int) - off
            some (secs * 1000000000 + (nsec : Int) - epochShift)
      else none
    | _, _, _, _, _, _ => none
  | _ => none

end C26.Time
