import BoxoModel.C25.Model
/-
C26 — ipns: executable model of record creation (`NewRecord`/`newRecord`, `createNode`, `anyToNode`,
`needToEmbedPublicKey`), on top of the C25 model of decoding / validation / accessors.

Transcribed from /repo/ipns/record.go. Parameters (structures whose laws are hypotheses of the
theorems, never axioms): the signature scheme and key codec (`Keys`), the DAG-CBOR codec, the
protobuf codec, RFC3339 formatting/parsing (`formatTime`/`parseTime`).
Core-only (no Mathlib): this file is also imported by the line-protocol driver.
-/
namespace C26
open C25

/-- a Go value passed in the metadata map -/
inductive MVal where
  | str (s : String)
  | bytes (b : Bytes)
  | int64 (i : Int)
  | int (i : Int)
  | bool (b : Bool)
  | nil
  | unsupported          -- any other Go type (float64, uint, slices, maps, …)
  deriving DecidableEq, Repr

inductive CreateErr where
  | emptyKey             -- ErrMetadataEmptyKey
  | conflict             -- ErrMetadataConflict
  | nilValue             -- ErrInvalidRecord (nil value)
  | unsupportedType      -- ErrMetadataUnsupportedType
  deriving DecidableEq, Repr

def reservedKeys : List String := ["Value", "Validity", "ValidityType", "Sequence", "TTL"]

/-- `anyToNode` -/
def anyToNode : MVal → Except CreateErr CVal
  | .str s => .ok (.str s)
  | .bytes b => .ok (.bytes b)
  | .int64 i => .ok (.int i)
  | .int i => .ok (.int i)
  | .bool b => .ok (.bool b)
  | .nil => .error .nilValue
  | .unsupported => .error .unsupportedType

/-- the checks of the `for key, val := range metadata` loop for one entry -/
def checkEntry (e : String × MVal) : Except CreateErr (String × CVal) :=
  if e.1 == "" then .error .emptyKey
  else if reservedKeys.contains e.1 then .error .conflict
  else match anyToNode e.2 with
    | .error err => .error err
    | .ok v => .ok (e.1, v)

/-- Go map iteration visits the entries in an arbitrary order: `metadata` is the list in the order
visited; the first offending entry decides the error. -/
def checkAll : List (String × MVal) → Except CreateErr (List (String × CVal))
  | [] => .ok []
  | e :: rest =>
    match checkEntry e with
    | .error err => .error err
    | .ok x =>
      match checkAll rest with
      | .error err => .error err
      | .ok xs => .ok (x :: xs)

/-- the comparison of `slices.SortFunc(keys, …)`: by byte length, then bytewise -/
def keyLe (a b : String) : Bool :=
  if a.utf8ByteSize == b.utf8ByteSize then a ≤ b else a.utf8ByteSize < b.utf8ByteSize

def insertKey (x : String × CVal) : List (String × CVal) → List (String × CVal)
  | [] => [x]
  | y :: ys => if keyLe x.1 y.1 then x :: y :: ys else y :: insertKey x ys

def sortNode : List (String × CVal) → List (String × CVal)
  | [] => []
  | x :: xs => insertKey x (sortNode xs)

/-- int64(x) of a uint64 -/
def toI64 (n : Nat) : Int := if n < 2 ^ 63 then (n : Int) else (n : Int) - 2 ^ 64

/-- `createNode(value, seq, eol, ttl, metadata)`; `validity` = []byte(util.FormatRFC3339(eol)) -/
def createNode (value : Bytes) (seq : Nat) (validity : Bytes) (ttl : Int)
    (metadata : List (String × MVal)) : Except CreateErr Node :=
  match checkAll metadata with
  | .error e => .error e
  | .ok ms =>
    .ok (sortNode (ms ++ [("Value", .bytes value), ("Validity", .bytes validity), ("ValidityType", .int 0),
      ("Sequence", .int (toI64 seq)), ("TTL", .int ttl)]))

structure Keys where
  sign : Nat → Bytes → Bytes          -- sk.Sign(data) (private key id)
  pubOf : Nat → Nat                   -- sk.GetPublic()
  marshalKey : Nat → Bytes            -- ic.MarshalPublicKey
  needEmbed : Nat → Bool              -- needToEmbedPublicKey(pk): the peer ID does not inline the key

structure Opts where
  v1 : Bool := true                   -- WithV1Compatibility
  embed : Option Bool := none         -- WithPublicKey
  metadata : List (String × MVal) := []

/-- data signed by SignatureV1: Value ++ Validity ++ fmt.Append(nil, ValidityType) ("EOL") -/
def sigV1Data (value validity : Bytes) : Bytes := value ++ validity ++ [69, 79, 76]

/-- whether the public key is embedded: the option, else `needToEmbedPublicKey` -/
def embedOf (K : Keys) (o : Opts) (sk : Nat) : Bool :=
  match o.embed with
  | none => K.needEmbed (K.pubOf sk)
  | some b => b

/-- `newRecord(sk, value, seq, eol, ttl, opts…)`; `encode` = nodeToCBOR, `validity` as in createNode.
`size` (proto.Size of the message) is supplied by the protobuf codec. -/
def newRecord (K : Keys) (encode : Node → Bytes) (sk : Nat) (value : Bytes) (seq : Nat) (validity : Bytes)
    (ttl : Int) (o : Opts) (sizeOf : Pb → Nat) : Except CreateErr Record :=
  let ttl := max 0 ttl
  match createNode value seq validity ttl o.metadata with
  | .error e => .error e
  | .ok node =>
    let data := encode node
    let sig2 := K.sign sk (sigPrefix ++ data)
    let pb0 : Pb := { data := data, sigV2 := sig2 }
    let pb1 : Pb :=
      if o.v1 then
        { pb0 with value := value, validityType := 0, sequence := seq, validity := validity, ttl := ttl.toNat,
                   sigV1 := K.sign sk (sigV1Data value validity) }
      else pb0
    let pb2 : Pb := if embedOf K o sk then { pb1 with pubKey := K.marshalKey (K.pubOf sk) } else pb1
    .ok { pb := { pb2 with size := sizeOf pb2 }, node := node }

/-- `Metadata(key)` then the typed accessor matching the stored kind -/
def metadata (r : Record) (key : String) : Option CVal :=
  if reservedKeys.contains key then none else lookup r.node key


/-- `MetadataExists(key)` -/
def metadataExists (r : Record) (key : String) : Bool :=
  if reservedKeys.contains key then false else (lookup r.node key).isSome

/-- `MetadataEntries()`: the node's entries in map order, reserved keys skipped -/
def metadataEntries (r : Record) : List (String × CVal) := r.node.filter fun e => !reservedKeys.contains e.1

end C26
