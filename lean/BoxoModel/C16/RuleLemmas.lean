import BoxoModel.C16.DirLemmas
/-! C16 — the documented sharding rule and the exactness of the basic → HAMT decision. -/
namespace C15

/-- the documented size estimate of an entry list: links mode = Σ (name + CID bytes); block mode =
exact dag-pb size (data field + Σ serialised links) -/
def sizeOf (mode : Nat) (stat : Stat) (links : List (Name × Lnk)) : Int :=
  (if mode = 1 then ((dataFieldSize stat : Nat) : Int) else 0) + (links.map fun e => linkSizeIn mode (nameLen e.1) e.2).sum

/-- **the documented rule**: sharded iff switching is enabled and (estimated size above the threshold,
unless size estimation is disabled, or more links than the link limit) -/
def Rule (g : Globals) (s : Settings) (stat : Stat) (links : List (Name × Lnk)) : Prop :=
  s.effThr g ≠ 0 ∧ ((s.effMode g ≠ 2 ∧ sizeOf (s.effMode g) stat links > s.effThr g) ∨
    (s.maxLinks > 0 ∧ (links.length : Int) > s.maxLinks))

/-- exact bookkeeping of a basic directory -/
def BasicExact (g : Globals) (b : Basic) : Prop :=
  (b.links.map (·.1)).Nodup ∧ b.total = b.links.length ∧
  b.est = (if b.s.effMode g = 2 then 0 else sizeOf (b.s.effMode g) b.nodeStat b.links) ∧
  (b.s.maxLinks > 0 → b.total ≤ b.s.maxLinks)

theorem linkSizeIn_nonneg (mode nlen : Nat) (l : Lnk) : 0 ≤ linkSizeIn mode nlen l := by
  unfold linkSizeIn; split <;> exact Int.natCast_nonneg _

theorem sum_nonneg (mode : Nat) (links : List (Name × Lnk)) :
    0 ≤ (links.map fun e => linkSizeIn mode (nameLen e.1) e.2).sum := by
  induction links with
  | nil => simp
  | cons x xs ih => simp only [List.map_cons, List.sum_cons]; have := linkSizeIn_nonneg mode (nameLen x.1) x.2; omega

/-- removing the (unique) entry of a name from the list: length and size -/
theorem filter_present (f : Name × Lnk → Int) (links : List (Name × Lnk)) (hn : (links.map (·.1)).Nodup) (n : Name) (lo : Lnk)
    (hp : (links.find? (·.1 = n)).map (·.2) = some lo) :
    (links.filter (·.1 ≠ n)).length + 1 = links.length ∧
    ((links.filter (·.1 ≠ n)).map f).sum = (links.map f).sum - f (n, lo) := by
  induction links with
  | nil => simp at hp
  | cons x xs ih =>
    simp only [List.map_cons, List.nodup_cons] at hn
    by_cases hx : x.1 = n
    · have hxe : x = (n, lo) := by
        simp [List.find?_cons, hx] at hp
        exact Prod.ext hx hp
      have hab : (xs.find? (·.1 = n)).map (·.2) = none := by
        cases hf : xs.find? (·.1 = n) with
        | none => rfl
        | some y =>
          exfalso
          have h1 := List.find?_some hf
          have h2 := List.mem_of_find?_eq_some hf
          simp at h1
          exact hn.1 (List.mem_map.2 ⟨y, h2, by rw [h1, hx]⟩)
      have hf := filter_absent xs hn.2 n hab
      simp only [List.filter_cons, hx, ne_eq, not_true_eq_false, decide_false, Bool.false_eq_true, if_false, hf,
        List.length_cons, List.map_cons, List.sum_cons, hxe]
      constructor
      · trivial
      · omega
    · have hp' : (xs.find? (·.1 = n)).map (·.2) = some lo := by simpa [List.find?_cons, hx] using hp
      obtain ⟨h1, h2⟩ := ih hn.2 hp'
      simp only [ne_eq] at h1 h2
      simp only [List.filter_cons, hx, ne_eq, not_false_eq_true, decide_true, if_true, List.length_cons, List.map_cons,
        List.sum_cons]
      constructor
      · omega
      · omega


theorem sizeOf_append (mode : Nat) (stat : Stat) (xs : List (Name × Lnk)) (n : Name) (l : Lnk) :
    sizeOf mode stat (xs ++ [(n, l)]) = sizeOf mode stat xs + linkSizeIn mode (nameLen n) l := by
  simp only [sizeOf, List.map_append, List.sum_append, List.map_cons, List.map_nil, List.sum_cons, List.sum_nil]
  omega

/-- **basic → HAMT is exact**: with exact bookkeeping, `needsToSwitchToHAMTDir` answers the documented
rule evaluated on the entry list the operation produces -/
theorem needsHamt_iff_rule (g : Globals) (b : Basic) (n : Name) (l : Lnk) (hx : BasicExact g b) :
    needsHamt g b n l = true ↔ Rule g b.s b.nodeStat (b.links.filter (·.1 ≠ n) ++ [(n, l)]) := by
  obtain ⟨hn, ht, he, hml⟩ := hx
  unfold needsHamt Rule
  by_cases hthr : b.s.effThr g = 0
  · simp [hthr]
  · simp only [hthr, if_false, ne_eq, not_false_eq_true, true_and]
    rw [sizeOf_append, List.length_append]
    simp only [List.length_cons, List.length_nil]
    cases hold : b.getLink n with
    | none =>
      have hf := filter_absent b.links hn n hold
      rw [hf]
      by_cases hm2 : b.s.effMode g = 2
      · simp only [hm2, if_true, Option.isNone_none, true_and, not_true_eq_false, false_and, false_or, decide_eq_true_eq]
        rw [ht]; constructor <;> intro h <;> (constructor <;> omega)
      · simp only [hm2, if_false, Option.isNone_none, true_and, not_false_eq_true, Bool.or_eq_true, decide_eq_true_eq]
        rw [he, if_neg hm2, ht]
        simp only [sizeOf]
        constructor
        · rintro (h | h)
          · left; omega
          · right; constructor <;> omega
        · rintro (h | h)
          · left; omega
          · right; constructor <;> omega
    | some lo =>
      obtain ⟨hlen, hsum⟩ := filter_present (fun e => linkSizeIn (b.s.effMode g) (nameLen e.1) e.2) b.links hn n lo hold
      have hcount : ¬ (b.s.maxLinks > 0 ∧ ((b.links.filter (·.1 ≠ n)).length : Int) + 1 > b.s.maxLinks) := by
        intro ⟨h1, h2⟩
        have := hml h1
        rw [ht] at this
        omega
      by_cases hm2 : b.s.effMode g = 2
      · simp only [hm2, if_true, Option.isNone_some, Bool.false_eq_true, false_and, decide_false, not_true_eq_false, false_or]
        constructor
        · intro h; cases h
        · intro h; exact absurd (by simpa using h) hcount
      · simp only [hm2, if_false, Option.isNone_some, Bool.false_eq_true, false_and, decide_false, Bool.or_false,
          decide_eq_true_eq, not_false_eq_true, true_and]
        rw [he, if_neg hm2]
        simp only [sizeOf]
        simp only [ne_eq] at hsum ⊢
        constructor
        · intro h; left; omega
        · rintro (h | h)
          · omega
          · exact absurd (by simpa using h) hcount


theorem sizeOf_nonneg (mode : Nat) (stat : Stat) (links : List (Name × Lnk)) : 0 ≤ sizeOf mode stat links := by
  unfold sizeOf
  have := sum_nonneg mode links
  split <;> omega

/-- `addLinkChild` keeps the bookkeeping exact -/
theorem addLink_exact (g : Globals) (b : Basic) (n : Name) (l : Lnk) (hx : BasicExact g b) (hm : b.s.effMode g ≤ 2) :
    match Basic.addLink g b n l with
    | .ok b' => b'.links = b.links.filter (·.1 ≠ n) ++ [(n, l)] ∧ b'.s = b.s ∧ b'.nodeStat = b.nodeStat ∧
        (b'.links.map (·.1)).Nodup ∧ b'.total = b'.links.length ∧
        b'.est = (if b.s.effMode g = 2 then 0 else sizeOf (b.s.effMode g) b.nodeStat b'.links)
    | .maxlinks => b.getLink n = none ∧ b.s.maxLinks > 0 ∧ b.total + 1 > b.s.maxLinks := by
  obtain ⟨hn, ht, he, hml⟩ := hx
  have hdelta : ∀ (b1 : Basic) (k : Name) (x : Lnk), b1.s = b.s →
      b1.delta g k x = if b.s.effMode g = 2 then 0 else linkSizeIn (b.s.effMode g) (nameLen k) x := by
    intro b1 k x hs
    simp only [Basic.delta, hs]
    by_cases h2 : b.s.effMode g = 2
    · simp [h2]
    · have : b.s.effMode g = 1 ∨ b.s.effMode g = 0 := by omega
      simp [h2, this]
  unfold Basic.addLink Basic.remove
  cases hold : b.getLink n with
  | none =>
    simp only
    have hf := filter_absent b.links hn n hold
    by_cases hfull : b.s.maxLinks > 0 ∧ b.total + 1 > b.s.maxLinks
    · simp only [hfull, and_self, if_true]
    · simp only [hfull, if_false]
      refine ⟨by rw [hf], by trivial, by trivial, ?_, ?_, ?_⟩
      · have := nodup_filter_append b.links hn n l; rwa [hf] at this
      · simp only [List.length_append, List.length_cons, List.length_nil, ht]; omega
      · rw [hdelta b n l rfl, he]
        by_cases h2 : b.s.effMode g = 2
        · simp [h2]
        · simp only [h2, if_false]; rw [sizeOf_append]
  | some lo =>
    simp only
    obtain ⟨hlen, hsum⟩ := filter_present (fun e => linkSizeIn (b.s.effMode g) (nameLen e.1) e.2) b.links hn n lo hold
    simp only [ne_eq] at hsum hlen
    have hest : ¬ b.est - b.delta g n lo < 0 := by
      rw [hdelta b n lo rfl, he]
      by_cases h2 : b.s.effMode g = 2
      · simp [h2]
      · simp only [h2, if_false, sizeOf]
        have := sum_nonneg (b.s.effMode g) (b.links.filter (·.1 ≠ n))
        simp only [ne_eq] at this
        have hd : (0 : Int) ≤ (if b.s.effMode g = 1 then ((dataFieldSize b.nodeStat : Nat) : Int) else 0) := by
          split <;> simp
        omega
    simp only [hest, if_false]
    refine ⟨by trivial, by trivial, by trivial, nodup_filter_append b.links hn n l, ?_, ?_⟩
    · simp only [List.length_append, List.length_cons, List.length_nil, ht, ne_eq]; omega
    · rw [hdelta _ n l (by rfl), hdelta b n lo rfl, he]
      by_cases h2 : b.s.effMode g = 2
      · simp [h2]
      · simp only [h2, if_false]
        rw [sizeOf_append]
        simp only [sizeOf, ne_eq]
        omega


/-- one AddChild on an auto-switching directory that is currently basic with exact bookkeeping -/
theorem rule_step (h : Name → List Byte) (g : Globals) (b : Basic) (n : Name) (l : Lnk)
    (hx : BasicExact g b) (hm : b.s.effMode g ≤ 2) :
    (Rule g b.s b.nodeStat (b.links.filter (·.1 ≠ n) ++ [(n, l)]) →
      (∃ hd, (addChild h g { dyn := true, dir := .basic b } n l).1.dir = .hamt hd) ∨
      ((addChild h g { dyn := true, dir := .basic b } n l).1 = { dyn := true, dir := .basic b } ∧
        (addChild h g { dyn := true, dir := .basic b } n l).2 ≠ .ok)) ∧
    (¬ Rule g b.s b.nodeStat (b.links.filter (·.1 ≠ n) ++ [(n, l)]) →
      (∃ b', (addChild h g { dyn := true, dir := .basic b } n l).1.dir = .basic b' ∧
        (addChild h g { dyn := true, dir := .basic b } n l).2 = .ok ∧
        b'.links = b.links.filter (·.1 ≠ n) ++ [(n, l)] ∧ b'.s = b.s ∧ b'.nodeStat = b.nodeStat ∧ BasicExact g b') ∨
      (b.s.effThr g = 0 ∧ (addChild h g { dyn := true, dir := .basic b } n l).2 = .maxlinks ∧
        (addChild h g { dyn := true, dir := .basic b } n l).1 = { dyn := true, dir := .basic b })) := by
  have hiff := needsHamt_iff_rule g b n l hx
  have hal := addLink_exact g b n l hx hm
  constructor
  · intro hr
    have hnh : needsHamt g b n l = true := hiff.2 hr
    simp only [addChild, Bool.not_true, Bool.false_eq_true, if_false, hnh]
    cases hs : switchToSharding h g b with
    | none => right; exact ⟨rfl, by simp⟩
    | some hd =>
      simp only
      cases hac : Hamt.addChild h { hd with s := { hd.s with thr := b.s.thr } } n l with
      | mk hd' res =>
        cases res with
        | ok => left; exact ⟨hd', rfl⟩
        | notfound => right; exact ⟨rfl, by simp⟩
        | maxlinks => right; exact ⟨rfl, by simp⟩
        | toodeep => right; exact ⟨rfl, by simp⟩
        | invalid => right; exact ⟨rfl, by simp⟩
  · intro hr
    have hnh : needsHamt g b n l = false := by
      cases hq : needsHamt g b n l with
      | false => rfl
      | true => exact absurd (hiff.1 hq) hr
    simp only [addChild, Bool.not_true, Bool.false_eq_true, if_false, hnh, Bool.not_false, if_true]
    cases hadd : Basic.addLink g b n l with
    | ok b' =>
      rw [hadd] at hal
      simp only at hal ⊢
      obtain ⟨hl, hs, hns, hnd, htot, hest⟩ := hal
      left
      refine ⟨b', by trivial, by trivial, hl, hs, hns, hnd, htot, by rw [hs, hns]; exact hest, ?_⟩
      intro hpos
      rw [hs] at hpos
      -- the count clause of the rule is false
      have : ¬ (b.s.maxLinks > 0 ∧ ((b.links.filter (·.1 ≠ n) ++ [(n, l)]).length : Int) > b.s.maxLinks) ∨ b.s.effThr g = 0 := by
        by_cases ht0 : b.s.effThr g = 0
        · exact Or.inr ht0
        · left; intro hc; exact hr ⟨ht0, Or.inr hc⟩
      rcases this with hc | ht0
      · rw [hs, htot, hl]
        have : ¬ ((b.links.filter (·.1 ≠ n) ++ [(n, l)]).length : Int) > b.s.maxLinks := fun h' => hc ⟨hpos, h'⟩
        omega
      · -- sharding disabled: the link limit is enforced by addLinkChild itself
        rw [hs, htot, hl]
        obtain ⟨hn0, ht, he, hml⟩ := hx
        unfold Basic.addLink at hadd
        cases hrm : b.remove g n with
        | none =>
          rw [hrm] at hadd
          simp only at hadd
          by_cases hfull : b.s.maxLinks > 0 ∧ b.total + 1 > b.s.maxLinks
          · simp [hfull] at hadd
          · have hab : b.getLink n = none := by
              unfold Basic.remove at hrm
              cases hg : b.getLink n with
              | none => rfl
              | some x => simp [hg] at hrm
            have hf := filter_absent b.links hn0 n hab
            simp only [ne_eq] at hf
            simp only [List.length_append, List.length_cons, List.length_nil, ne_eq, hf]
            rw [ht] at hfull
            omega
        | some b1 =>
          have hp : b.getLink n ≠ none := by
            unfold Basic.remove at hrm
            cases hg : b.getLink n with
            | none => simp [hg] at hrm
            | some x => simp
          cases hg : b.getLink n with
          | none => exact absurd hg hp
          | some lo =>
            obtain ⟨hlen, _⟩ := filter_present (fun _ => (0 : Int)) b.links hn0 n lo hg
            simp only [ne_eq] at hlen
            simp only [List.length_append, List.length_cons, List.length_nil, ne_eq]
            have := hml hpos
            rw [ht] at this
            omega
    | maxlinks =>
      rw [hadd] at hal
      simp only at hal ⊢
      right
      refine ⟨?_, by trivial, by trivial⟩
      -- otherwise the count clause of the rule would hold
      apply Classical.byContradiction
      intro ht0
      apply hr
      refine ⟨ht0, Or.inr ⟨hal.2.1, ?_⟩⟩
      obtain ⟨hn0, ht, he, hml⟩ := hx
      have hf := filter_absent b.links hn0 n hal.1
      simp only [ne_eq] at hf
      simp only [List.length_append, List.length_cons, List.length_nil, ne_eq, hf]
      have := hal.2.2
      rw [ht] at this
      omega

end C15
