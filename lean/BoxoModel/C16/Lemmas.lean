import BoxoModel.C15.Lemmas
/-!
C16 — uniqueness of the canonical HAMT: two well-formed canonical tries denoting the same map
serialise to the same DAG.
-/
namespace C15
namespace Trie

def firstIdx : Trie → Nat
  | nil => 0
  | val j _ _ _ _ _ => j
  | sub j _ _ _ => j

/-- a non-empty canonical trie finds some key in its first slot -/
theorem exists_first : ∀ (dgl : Name → List Nat) (t : Trie), t ≠ nil → WF dgl t → Canon t →
    ∃ k l r, dgl k = firstIdx t :: r ∧ lookup k t (firstIdx t) r = some l
  | _, nil, h, _, _ => absurd rfl h
  | dgl, val j k _ _ l rest, _, ⟨a, _, _⟩, _ => by
    cases hd : dgl k with
    | nil => simp [hd] at a
    | cons x y =>
      simp [hd] at a; subst a
      exact ⟨k, l, y, hd, by simp [lookup, firstIdx]⟩
  | dgl, sub j _ c rest, _, ⟨a, wc, _, _⟩, hc => by
    obtain ⟨k, l, r, e, hl⟩ := exists_first (fun k => (dgl k).tail) c
      (by intro h; rw [h] at hc; exact hc.1) wc hc.2.1
    have hh := lookup_some_keys c _ _ l hl a
    cases hd : dgl k with
    | nil => simp [hd] at hh
    | cons x y =>
      simp [hd] at hh e; subst hh; subst e
      refine ⟨k, l, _, hd, ?_⟩
      show lookup k (sub x _ c rest) x (firstIdx c :: r) = some l
      simp only [lookup, Nat.lt_irrefl, if_false]
      exact hl

/-- a non-trivial canonical slot list finds two different keys -/
theorem exists_two : ∀ (dgl : Name → List Nat) (t : Trie), NonTriv t → WF dgl t → Canon t →
    ∃ k1 l1 i1 r1 k2 l2 i2 r2, k1 ≠ k2 ∧ dgl k1 = i1 :: r1 ∧ lookup k1 t i1 r1 = some l1 ∧
      dgl k2 = i2 :: r2 ∧ lookup k2 t i2 r2 = some l2
  | _, nil, h, _, _ => absurd h (by simp [NonTriv])
  | dgl, val j k _ _ l rest, hn, ⟨a, b, c⟩, hc => by
    obtain ⟨k2, l2, r2, e2, h2⟩ := exists_first dgl rest hn c hc
    cases hd : dgl k with
    | nil => simp [hd] at a
    | cons x y =>
      simp [hd] at a; subst a
      have hlt : x < firstIdx rest := by
        cases rest with
        | nil => exact absurd rfl hn
        | val => exact b.1
        | sub => exact b.1
      refine ⟨k, l, x, y, k2, l2, _, r2, ?_, hd, by simp [lookup], e2, by simp [lookup, hlt, h2]⟩
      intro h; subst h; rw [hd] at e2; simp at e2; omega
  | dgl, sub j _ c rest, _, ⟨a, wc, _, _⟩, hc => by
    obtain ⟨k1, l1, i1, r1, k2, l2, i2, r2, hne, e1, h1, e2, h2⟩ := exists_two (fun k => (dgl k).tail) c hc.1 wc hc.2.1
    have hh1 := lookup_some_keys c _ _ l1 h1 a
    have hh2 := lookup_some_keys c _ _ l2 h2 a
    cases hd1 : dgl k1 with
    | nil => simp [hd1] at hh1
    | cons x1 y1 =>
      cases hd2 : dgl k2 with
      | nil => simp [hd2] at hh2
      | cons x2 y2 =>
        simp [hd1] at hh1 e1; simp [hd2] at hh2 e2
        subst hh1; subst hh2; subst e1; subst e2
        exact ⟨k1, l1, _, _, k2, l2, _, _, hne, hd1, by simp [lookup, h1], hd2, by simp [lookup, h2]⟩

/-- the two tries denote the same map (on every name, read along that name's digits) -/
def Agree (dgl : Name → List Nat) (t1 t2 : Trie) : Prop :=
  ∀ k i r, dgl k = i :: r → lookup k t1 i r = lookup k t2 i r

theorem Agree.symm {dgl : Name → List Nat} {t1 t2 : Trie} (h : Agree dgl t1 t2) : Agree dgl t2 t1 :=
  fun k i r e => (h k i r e).symm

theorem first_lt_absurd (dgl : Name → List Nat) (t1 t2 : Trie) (hn : t1 ≠ nil) (hw : WF dgl t1) (hc : Canon t1)
    (hlt : AllIdx (firstIdx t1 < ·) t2) (ha : Agree dgl t1 t2) : False := by
  obtain ⟨k, l, r, e, hl⟩ := exists_first dgl t1 hn hw hc
  have := ha k _ r e
  rw [hl, lookup_lt t2 _ r hlt] at this
  simp at this

/-- agreement of the slot lists after a common first index -/
theorem agree_rest (dgl : Name → List Nat) (t1 t2 rest1 rest2 : Trie) (j : Nat)
    (h1 : ∀ k i r, j < i → lookup k t1 i r = lookup k rest1 i r)
    (h2 : ∀ k i r, j < i → lookup k t2 i r = lookup k rest2 i r)
    (b1 : AllIdx (j < ·) rest1) (b2 : AllIdx (j < ·) rest2) (ha : Agree dgl t1 t2) : Agree dgl rest1 rest2 := by
  intro k i r e
  by_cases hji : j < i
  · rw [← h1 k i r hji, ← h2 k i r hji]; exact ha k i r e
  · rw [lookup_le rest1 i j r b1 (by omega), lookup_le rest2 i j r b2 (by omega)]

/-- agreement of two sub-shards sitting in the same slot -/
theorem agree_child (dgl : Name → List Nat) (c1 c2 rest1 rest2 : Trie) (j : Nat) (ld1 ld2 : Bool)
    (a1 : AllKeys (fun k => (dgl k).head? = some j) c1) (a2 : AllKeys (fun k => (dgl k).head? = some j) c2)
    (ha : Agree dgl (sub j ld1 c1 rest1) (sub j ld2 c2 rest2)) : Agree (fun k => (dgl k).tail) c1 c2 := by
  intro k i r e
  cases hd : dgl k with
  | nil => simp [hd] at e
  | cons x y =>
    simp [hd] at e; subst e
    by_cases hx : x = j
    · subst hx
      have := ha k x (i :: r) hd
      simpa [lookup] using this
    · have n1 : lookup k c1 i r = none := by
        cases h : lookup k c1 i r with
        | none => rfl
        | some l => have := lookup_some_keys c1 i r l h a1; simp [hd] at this; exact absurd this hx
      have n2 : lookup k c2 i r = none := by
        cases h : lookup k c2 i r with
        | none => rfl
        | some l => have := lookup_some_keys c2 i r l h a2; simp [hd] at this; exact absurd this hx
      rw [n1, n2]

theorem allIdx_of_first : ∀ (t : Trie) (j : Nat) (dgl : Name → List Nat), WF dgl t → j < firstIdx t → AllIdx (j < ·) t
  | nil, _, _, _, _ => trivial
  | val j' _ _ _ _ rest, j, _, ⟨_, b, _⟩, h => ⟨h, AllIdx.imp (fun _ hx => Nat.lt_trans h hx) rest b⟩
  | sub j' _ _ rest, j, _, ⟨_, _, b, _⟩, h => ⟨h, AllIdx.imp (fun _ hx => Nat.lt_trans h hx) rest b⟩

/-- **Canonical form is unique**: well-formed canonical tries with the same lookups have the same DAG. -/
theorem canon_unique : ∀ (t1 t2 : Trie) (dgl : Name → List Nat), WF dgl t1 → WF dgl t2 → Canon t1 → Canon t2 →
    Agree dgl t1 t2 → toDag t1 = toDag t2 := by
  intro t1
  induction t1 with
  | nil =>
    intro t2 dgl w1 w2 c1 c2 ha
    cases t2 with
    | nil => rfl
    | val j k p ld l rest => exact absurd (first_lt_absurd dgl _ nil (by simp) w2 c2 trivial ha.symm) id
    | sub j ld c rest => exact absurd (first_lt_absurd dgl _ nil (by simp) w2 c2 trivial ha.symm) id
  | val j1 k1 p1 ld1 l1 rest1 ihr =>
    intro t2 dgl w1 w2 c1 c2 ha
    have hne1 : val j1 k1 p1 ld1 l1 rest1 ≠ nil := by simp
    cases t2 with
    | nil => exact absurd (first_lt_absurd dgl _ nil hne1 w1 c1 trivial ha) id
    | val j2 k2 p2 ld2 l2 rest2 =>
      rcases Nat.lt_trichotomy j1 j2 with h | h | h
      · exact absurd (first_lt_absurd dgl _ _ hne1 w1 c1 (allIdx_of_first _ _ dgl w2 h) ha) id
      · subst h
        obtain ⟨a1, b1, wr1⟩ := w1
        obtain ⟨a2, b2, wr2⟩ := w2
        cases hd : dgl k1 with
        | nil => simp [hd] at a1
        | cons x y =>
          simp [hd] at a1; subst a1
          have := ha k1 x y hd
          simp [lookup] at this
          obtain ⟨e1, e2⟩ := this
          subst e1; subst e2
          have hr := ihr rest2 dgl wr1 wr2 c1 c2
            (agree_rest dgl _ _ rest1 rest2 x (fun k i r h => by simp [lookup, h]) (fun k i r h => by simp [lookup, h]) b1 b2 ha)
          simp [toDag, hr]
      · exact absurd (first_lt_absurd dgl _ _ (by simp) w2 c2 (allIdx_of_first _ _ dgl w1 h) ha.symm) id
    | sub j2 ld2 cc2 rest2 =>
      rcases Nat.lt_trichotomy j1 j2 with h | h | h
      · exact absurd (first_lt_absurd dgl _ _ hne1 w1 c1 (allIdx_of_first _ _ dgl w2 h) ha) id
      · subst h
        exfalso
        obtain ⟨a2, wc2, b2, wr2⟩ := w2
        obtain ⟨ka, la, ia, ra, kb, lb, ib, rb, hne, ea, ha', eb, hb'⟩ := exists_two _ cc2 c2.1 wc2 c2.2.1
        have hha := lookup_some_keys cc2 _ _ la ha' a2
        have hhb := lookup_some_keys cc2 _ _ lb hb' a2
        cases hda : dgl ka with
        | nil => simp [hda] at hha
        | cons xa ya =>
          cases hdb : dgl kb with
          | nil => simp [hdb] at hhb
          | cons xb yb =>
            simp [hda] at hha ea; simp [hdb] at hhb eb
            subst hha; subst ea; subst eb
            have t1a := ha ka _ _ hda
            have t1b := ha kb _ _ hdb
            simp [lookup, ha'] at t1a
            simp [lookup, hhb, hb'] at t1b
            exact hne (t1a.1.symm.trans t1b.1)
      · exact absurd (first_lt_absurd dgl _ _ (by simp) w2 c2 (allIdx_of_first _ _ dgl w1 h) ha.symm) id
  | sub j1 ld1 cc1 rest1 ihc ihr =>
    intro t2 dgl w1 w2 c1 c2 ha
    have hne1 : sub j1 ld1 cc1 rest1 ≠ nil := by simp
    cases t2 with
    | nil => exact absurd (first_lt_absurd dgl _ nil hne1 w1 c1 trivial ha) id
    | val j2 k2 p2 ld2 l2 rest2 =>
      rcases Nat.lt_trichotomy j1 j2 with h | h | h
      · exact absurd (first_lt_absurd dgl _ _ hne1 w1 c1 (allIdx_of_first _ _ dgl w2 h) ha) id
      · subst h
        exfalso
        obtain ⟨a1, wc1, b1, wr1⟩ := w1
        obtain ⟨ka, la, ia, ra, kb, lb, ib, rb, hne, ea, ha', eb, hb'⟩ := exists_two _ cc1 c1.1 wc1 c1.2.1
        have hha := lookup_some_keys cc1 _ _ la ha' a1
        have hhb := lookup_some_keys cc1 _ _ lb hb' a1
        cases hda : dgl ka with
        | nil => simp [hda] at hha
        | cons xa ya =>
          cases hdb : dgl kb with
          | nil => simp [hdb] at hhb
          | cons xb yb =>
            simp [hda] at hha ea; simp [hdb] at hhb eb
            subst hha; subst ea; subst eb
            have t1a := ha ka _ _ hda
            have t1b := ha kb _ _ hdb
            simp [lookup, ha'] at t1a
            simp [lookup, hhb, hb'] at t1b
            exact hne (t1a.1.symm.trans t1b.1)
      · exact absurd (first_lt_absurd dgl _ _ (by simp) w2 c2 (allIdx_of_first _ _ dgl w1 h) ha.symm) id
    | sub j2 ld2 cc2 rest2 =>
      rcases Nat.lt_trichotomy j1 j2 with h | h | h
      · exact absurd (first_lt_absurd dgl _ _ hne1 w1 c1 (allIdx_of_first _ _ dgl w2 h) ha) id
      · subst h
        obtain ⟨a1, wc1, b1, wr1⟩ := w1
        obtain ⟨a2, wc2, b2, wr2⟩ := w2
        have hc' := ihc cc2 _ wc1 wc2 c1.2.1 c2.2.1 (agree_child dgl cc1 cc2 rest1 rest2 j1 ld1 ld2 a1 a2 ha)
        have hr := ihr rest2 dgl wr1 wr2 c1.2.2 c2.2.2
          (agree_rest dgl _ _ rest1 rest2 j1 (fun k i r h => by simp [lookup, h]) (fun k i r h => by simp [lookup, h]) b1 b2 ha)
        simp [toDag, hc', hr]
      · exact absurd (first_lt_absurd dgl _ _ (by simp) w2 c2 (allIdx_of_first _ _ dgl w1 h) ha.symm) id


end Trie
end C15
