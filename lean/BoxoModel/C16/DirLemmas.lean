import BoxoModel.C15.DirLemmas
/-!
C16 — lemmas about the switching logic of the dynamic directory model: which settings each
conversion hands over.
-/
namespace C15

/-- the configuration of a directory as the property means it: link limit, per-directory threshold,
effective estimation mode, CID builder (nil = v0), effective shard width, stat -/
def Settings.cfg (g : Globals) (s : Settings) : Int × Int × Nat × String × Int × Stat :=
  (s.maxLinks, s.thr, s.effMode g, (if s.builder = "nil" then "v0" else s.builder),
    (if validShardWidth s.fanout then s.fanout else g.defWidth), s.stat)

theorem valid_zero : validShardWidth 0 = false := by decide

theorem Stat.set_empty (st : Stat) : ({} : Stat).set st.mode st.mtime = st := by
  cases st with
  | mk mode mtime =>
    simp only [Stat.set]
    congr 1
    · by_cases h : mode > 0
      · simp [h]
      · have : mode = 0 := by omega
        simp [this]
    · cases mtime <;> rfl

theorem Basic.remove_s (g : Globals) (b b' : Basic) (n : Name) (h : b.remove g n = some b') : b'.s = b.s := by
  unfold Basic.remove at h
  split at h
  · cases h
  · simp only [Option.some.injEq] at h; rw [← h]

theorem Basic.addLink_s (g : Globals) (b b' : Basic) (n : Name) (l : Lnk) (h : Basic.addLink g b n l = .ok b') : b'.s = b.s := by
  unfold Basic.addLink at h
  split at h
  · rename_i b1 hr
    simp only [Basic.AddRes.ok.injEq] at h
    rw [← h]; exact Basic.remove_s g b b1 n hr
  · split at h
    · cases h
    · simp only [Basic.AddRes.ok.injEq] at h; rw [← h]

theorem Basic.new_s (g : Globals) (s : Settings) (b : Basic) (h : Basic.new g s = some b) :
    b.s = { s with fanout := (if s.fanout = 0 then g.defWidth else s.fanout),
                   builder := (if s.builder = "nil" then "v0" else s.builder) } ∧
    (s.fanout = 0 ∨ validShardWidth s.fanout = true) := by
  simp only [Basic.new] at h
  split at h
  · cases h
  · rename_i hv
    simp only [Option.some.injEq] at h
    refine ⟨by rw [← h], ?_⟩
    by_cases h0 : s.fanout = 0
    · exact Or.inl h0
    · right
      cases hvv : validShardWidth s.fanout with
      | true => rfl
      | false => exact absurd ⟨h0, by simp [hvv]⟩ hv

theorem Hamt.new_s (g : Globals) (s : Settings) (hd : Hamt) (h : Hamt.new g s = some hd) :
    hd.s = { s with fanout := (if s.fanout = 0 then g.defWidth else s.fanout) } ∧
    (s.fanout = 0 ∨ validShardWidth s.fanout = true) ∧ 0 < (if s.fanout = 0 then g.defWidth else s.fanout) := by
  simp only [Hamt.new] at h
  by_cases hv : s.fanout ≠ 0 ∧ (!validShardWidth s.fanout) = true
  · rw [if_pos hv] at h; cases h
  · rw [if_neg hv] at h
    by_cases hr : (if s.fanout = 0 then g.defWidth else s.fanout) ≤ 0 ∨ (if s.fanout = 0 then g.defWidth else s.fanout) > 1024
    · rw [if_pos hr] at h; cases h
    · rw [if_neg hr] at h
      simp only [Option.some.injEq] at h
      refine ⟨by rw [← h], ?_, by omega⟩
      by_cases h0 : s.fanout = 0
      · exact Or.inl h0
      · right
        cases hvv : validShardWidth s.fanout with
        | true => rfl
        | false => exact absurd ⟨h0, by simp [hvv]⟩ hv

theorem Hamt.addChild_s (h : Name → List Byte) (hd : Hamt) (n : Name) (l : Lnk) : (hd.addChild h n l).1.s = hd.s := by
  unfold Hamt.addChild
  split <;> rfl

theorem Hamt.removeChild_s (h : Name → List Byte) (hd : Hamt) (n : Name) : (hd.removeChild h n).1.s = hd.s := by
  unfold Hamt.removeChild
  split <;> rfl

theorem Hamt.countLinks_s (hd : Hamt) : hd.countLinks.s = hd.s := by
  unfold Hamt.countLinks; split <;> rfl

theorem Hamt.needsBasic_s (h : Name → List Byte) (g : Globals) (hd : Hamt) (n : Name) (a : Option Lnk) :
    (hd.needsBasic h g n a).1.s = hd.s := by
  unfold Hamt.needsBasic
  split
  · rfl
  · split
    · rfl
    · simp only [Hamt.countLinks_s]
    · simp only [Hamt.countLinks_s]

theorem switchToBasic_s (g : Globals) (hd : Hamt) (ml : Int) :
    (switchToBasic g hd ml).1.s = hd.s ∧
    ∀ b, (switchToBasic g hd ml).2 = some (.inl b) →
      ∃ b0, Basic.new g (basicOpts g hd ml) = some b0 ∧ b.s = b0.s := by
  unfold switchToBasic
  cases hb : Basic.new g (basicOpts g hd ml) with
  | none => simp
  | some b0 =>
    simp only
    -- the fold keeps the settings of the accumulator
    have key : ∀ (es : List (Name × Lnk)) (acc : (Basic ⊕ OpRes) × Nat),
        (∀ b, acc.1 = .inl b → b.s = b0.s) →
        ∀ b, (es.foldl (fun (acc : (Basic ⊕ OpRes) × Nat) e =>
          match acc.1 with
          | .inl b => (match Basic.addLink g b e.1 e.2 with
              | .ok b' => (.inl b', acc.2 + 1)
              | .maxlinks => (.inr OpRes.maxlinks, acc.2 + 1))
          | .inr x => (.inr x, acc.2)) acc).1 = .inl b → b.s = b0.s := by
      intro es
      induction es with
      | nil => intro acc ha b hb'; exact ha b hb'
      | cons e es ih =>
        intro acc ha b hb'
        simp only [List.foldl_cons] at hb'
        refine ih _ ?_ b hb'
        intro b1 h1
        cases hacc : acc.1 with
        | inl bb =>
          simp only [hacc] at h1
          cases hal : Basic.addLink g bb e.1 e.2 with
          | ok b' =>
            simp only [hal, Sum.inl.injEq] at h1
            rw [← h1, Basic.addLink_s g bb b' _ _ hal]; exact ha bb hacc
          | maxlinks => simp [hal] at h1
        | inr x => simp [hacc] at h1
    split
    · rename_i b hres
      refine ⟨rfl, fun b' hb' => ⟨b0, rfl, ?_⟩⟩
      simp only [Option.some.injEq, Sum.inl.injEq] at hb'
      subst hb'
      exact key _ _ (by intro b1 h1; simp only [Sum.inl.injEq] at h1; rw [← h1]) b hres
    · refine ⟨rfl, fun b' hb' => ?_⟩
      simp at hb'

theorem switchToSharding_s (h : Name → List Byte) (g : Globals) (b : Basic) (hd : Hamt) (hs : switchToSharding h g b = some hd) :
    ∃ hd0, Hamt.new g (hamtOpts g b) = some hd0 ∧ hd.s = hd0.s := by
  unfold switchToSharding at hs
  cases hn : Hamt.new g (hamtOpts g b) with
  | none => simp [hn] at hs
  | some hd0 =>
    refine ⟨hd0, rfl, ?_⟩
    simp only [hn] at hs
    have key : ∀ (es : List (Name × Lnk)) (acc : Option Hamt), (∀ x, acc = some x → x.s = hd0.s) →
        ∀ x, es.foldl (fun acc e =>
          match acc with
          | none => none
          | some hd =>
            match hd.swapTop h e.1 (some e.2) with
            | (t, .ok _) => some { hd with shard := t, total := hd.total + 1 }
            | _ => none) acc = some x → x.s = hd0.s := by
      intro es
      induction es with
      | nil => intro acc ha x hx; exact ha x hx
      | cons e es ih =>
        intro acc ha x hx
        simp only [List.foldl_cons] at hx
        refine ih _ ?_ x hx
        intro y hy
        cases acc with
        | none => simp at hy
        | some hd1 =>
          simp only at hy
          split at hy
          · simp only [Option.some.injEq] at hy; rw [← hy]; exact ha hd1 rfl
          · cases hy
    exact key _ _ (by intro x hx; simp only [Option.some.injEq] at hx; rw [← hx]) hd hs

end C15

namespace C15

theorem effMode_some (g : Globals) (s : Settings) (m : Nat) : Settings.effMode g { s with pmode := some m } = m := rfl

/-- settings of the basic directory a HAMT directory is converted to, once the caller has restored
the per-directory threshold and the link limit -/
theorem cfg_to_basic (g : Globals) (hd : Hamt) (ml : Int) (b0 : Basic) (hb : Basic.new g (basicOpts g hd ml) = some b0) :
    Settings.cfg g { b0.s with thr := hd.s.thr, maxLinks := hd.s.maxLinks } = hd.s.cfg g := by
  obtain ⟨hs, hv⟩ := Basic.new_s g _ b0 hb
  rw [hs]
  simp only [Settings.cfg, basicOpts, Settings.effMode, Option.getD_some, Stat.set_empty]
  refine Prod.ext rfl (Prod.ext rfl (Prod.ext rfl (Prod.ext ?_ (Prod.ext ?_ rfl))))
  · simp only
    by_cases hb' : hd.s.builder = "nil"
    · simp [hb']
    · simp [hb']
  · simp only
    simp only [basicOpts] at hv
    rcases hv with h0 | hv
    · simp [h0, valid_zero]
    · have : hd.s.fanout ≠ 0 := by intro h0; rw [h0, valid_zero] at hv; cases hv
      simp [this, hv]

theorem cfg_to_hamt (g : Globals) (b : Basic) (hd0 : Hamt) (hn : Hamt.new g (hamtOpts g b) = some hd0) :
    Settings.cfg g { hd0.s with thr := b.s.thr } = b.s.cfg g := by
  obtain ⟨hs, hv, hpos⟩ := Hamt.new_s g _ hd0 hn
  rw [hs]
  simp only [Settings.cfg, hamtOpts, Settings.effMode, Option.getD_some, Stat.set_empty]
  refine Prod.ext rfl (Prod.ext rfl (Prod.ext rfl (Prod.ext rfl (Prod.ext ?_ rfl))))
  simp only
  simp only [hamtOpts] at hv hpos
  by_cases hvb : validShardWidth b.s.fanout = true
  · have : b.s.fanout ≠ 0 := by intro h0; rw [h0, valid_zero] at hvb; cases hvb
    simp [hvb, this]
  · simp only [hvb, if_false] at hv hpos ⊢
    by_cases hd0' : g.defWidth = 0
    · simp [hd0']
    · simp [hd0']

/-- **Every conversion keeps the configuration**: AddChild -/
theorem addChild_cfg (h : Name → List Byte) (g : Globals) (st : State) (n : Name) (l : Lnk) :
    (addChild h g st n l).1.dir.settings.cfg g = st.dir.settings.cfg g := by
  obtain ⟨dyn, dir⟩ := st
  cases dir with
  | hamt hd =>
    simp only [addChild, Dir.settings]
    cases dyn with
    | false => simp only [Bool.not_false, if_true, Dir.settings]; rw [Hamt.addChild_s]
    | true =>
      simp only [Bool.not_true, Bool.false_eq_true, if_false]
      have hnb := Hamt.needsBasic_s h g hd n (some l)
      cases hx : hd.needsBasic h g n (some l) with
      | mk hd1 gate =>
        rw [hx] at hnb; simp only at hnb
        cases gate with
        | toodeep => simp only [Dir.settings, hnb]
        | no => simp only [Dir.settings, Hamt.addChild_s, hnb]
        | yes =>
          simp only
          have hsb := switchToBasic_s g hd1 hd1.s.maxLinks
          cases hy : switchToBasic g hd1 hd1.s.maxLinks with
          | mk hd2 r =>
            rw [hy] at hsb; simp only at hsb
            cases r with
            | none => simp only [Dir.settings, hsb.1, hnb]
            | some r' =>
              cases r' with
              | inr e => simp only [Dir.settings, hsb.1, hnb]
              | inl b =>
                obtain ⟨b0, hb0, hbs⟩ := hsb.2 b rfl
                simp only
                cases hal : Basic.addLink g { b with s := { b.s with thr := hd1.s.thr } } n l with
                | maxlinks => simp only [Dir.settings, hsb.1, hnb]
                | ok b' =>
                  simp only [Dir.settings]
                  rw [Basic.addLink_s g _ b' n l hal]
                  simp only
                  rw [hbs, ← hnb]
                  have := cfg_to_basic g hd1 hd1.s.maxLinks b0 hb0
                  have e : ({ b0.s with thr := hd1.s.thr, maxLinks := hd1.s.maxLinks } : Settings) = { b0.s with thr := hd1.s.thr } := by
                    obtain ⟨hs, _⟩ := Basic.new_s g _ b0 hb0
                    rw [hs]; rfl
                  rw [e] at this
                  exact this
  | basic b =>
    cases dyn with
    | false =>
      simp only [addChild, Bool.not_false, if_true]
      cases hal : Basic.addLink g b n l with
      | ok b' => simp only [Dir.settings]; rw [Basic.addLink_s g b b' n l hal]
      | maxlinks => rfl
    | true =>
      simp only [addChild, Bool.not_true, Bool.false_eq_true, if_false]
      cases hnh : needsHamt g b n l with
      | false =>
        simp only [Bool.not_false, if_true]
        cases hal : Basic.addLink g b n l with
        | ok b' => simp only [Dir.settings]; rw [Basic.addLink_s g b b' n l hal]
        | maxlinks => rfl
      | true =>
        simp only [Bool.not_true, Bool.false_eq_true, if_false]
        cases hs : switchToSharding h g b with
        | none => rfl
        | some hd =>
          simp only
          obtain ⟨hd0, hn0, hs0⟩ := switchToSharding_s h g b hd hs
          have has := Hamt.addChild_s h { hd with s := { hd.s with thr := b.s.thr } } n l
          cases hac : Hamt.addChild h { hd with s := { hd.s with thr := b.s.thr } } n l with
          | mk hd' res =>
            rw [hac] at has; simp only at has
            cases res with
            | ok =>
              simp only [Dir.settings, has]
              rw [hs0]
              exact cfg_to_hamt g b hd0 hn0
            | notfound => rfl
            | maxlinks => rfl
            | toodeep => rfl
            | invalid => rfl

end C15

namespace C15

theorem rm_conv (g : Globals) (hd1 : Hamt) (ml : Int) (b0 b' : Basic)
    (hb0 : Basic.new g (basicOpts g hd1 ml) = some b0) (hs' : b'.s = { b0.s with thr := hd1.s.thr })
    (hrel : (ml > 0 → ml - 1 = hd1.s.maxLinks) ∧ (¬ ml > 0 → ml = hd1.s.maxLinks)) :
    Settings.cfg g (if ml > 0 then { b' with s := { b'.s with maxLinks := b'.s.maxLinks - 1 } } else b').s = hd1.s.cfg g := by
  have hcfg := cfg_to_basic g hd1 ml b0 hb0
  obtain ⟨hs0, _⟩ := Basic.new_s g _ b0 hb0
  have hm : b0.s.maxLinks = ml := by rw [hs0]; rfl
  rw [← hcfg]
  by_cases hml : ml > 0
  · simp only [if_pos hml, hs']
    congr 1
    simp only [Settings.mk.injEq, and_true, true_and]
    rw [hm]; exact hrel.1 hml
  · simp only [if_neg hml, hs']
    congr 1
    simp only [Settings.mk.injEq, and_true, true_and]
    rw [hm]; exact hrel.2 hml

/-- **Every conversion keeps the configuration**: RemoveChild -/
theorem removeChild_cfg (h : Name → List Byte) (g : Globals) (st : State) (n : Name) :
    (removeChild h g st n).1.dir.settings.cfg g = st.dir.settings.cfg g := by
  obtain ⟨dyn, dir⟩ := st
  cases dir with
  | basic b =>
    simp only [removeChild]
    cases hr : b.remove g n with
    | none => rfl
    | some b' => simp only [Dir.settings]; rw [Basic.remove_s g b b' n hr]
  | hamt hd =>
    cases dyn with
    | false => simp only [removeChild, Bool.not_false, if_true, Dir.settings]; rw [Hamt.removeChild_s]
    | true =>
      simp only [removeChild, Bool.not_true, Bool.false_eq_true, if_false]
      have hnb := Hamt.needsBasic_s h g hd n none
      cases hx : hd.needsBasic h g n none with
      | mk hd1 gate =>
        rw [hx] at hnb; simp only at hnb
        cases gate with
        | toodeep => simp only [Dir.settings, hnb]
        | no => simp only [Dir.settings, Hamt.removeChild_s, hnb]
        | yes =>
          simp only
          generalize hmle : (if hd1.s.maxLinks > 0 then hd1.s.maxLinks + 1 else hd1.s.maxLinks) = ml
          have hrel : (ml > 0 → ml - 1 = hd1.s.maxLinks) ∧ (¬ ml > 0 → ml = hd1.s.maxLinks) := by
            rw [← hmle]; split <;> constructor <;> intros <;> omega
          have hsb := switchToBasic_s g hd1 ml
          cases hy : switchToBasic g hd1 ml with
          | mk hd2 r =>
            rw [hy] at hsb; simp only at hsb
            cases r with
            | none => simp only [Dir.settings, hsb.1, hnb]
            | some r' =>
              cases r' with
              | inr e => simp only [Dir.settings, hsb.1, hnb]
              | inl b =>
                obtain ⟨b0, hb0, hbs⟩ := hsb.2 b rfl
                simp only
                cases hrm : Basic.remove g { b with s := { b.s with thr := hd1.s.thr } } n with
                | none => simp only [Dir.settings, hsb.1, hnb]
                | some b' =>
                  have hs' := Basic.remove_s g _ b' n hrm
                  simp only at hs'
                  rw [hbs] at hs'
                  simp only [Dir.settings]
                  rw [← hnb]
                  exact rm_conv g hd1 ml b0 b' hb0 hs' hrel

end C15
