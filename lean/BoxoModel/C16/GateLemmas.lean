import BoxoModel.C16.RuleLemmas
/-!
C16 — `sizeBelowThreshold`: the loop over `EnumLinksAsync` (whose delivery order is not determined) with its
early exit computes an order-independent answer, the one the model's `Hamt.sizeBelow` states directly.
-/
namespace C15

/-- the loop of `sizeBelowThreshold` over the link sizes in delivery order: `partialSize += size;
if partialSize + sizeChange > threshold { below = false; break }` -/
def sizeBelowLoop (thr op : Int) : Int → List Int → Bool
  | _, [] => true
  | p, x :: r => if p + x + op > thr then false else sizeBelowLoop thr op (p + x) r

theorem sizeBelowLoop_eq (thr op : Int) : ∀ (xs : List Int) (p : Int), (∀ x ∈ xs, 0 ≤ x) →
    sizeBelowLoop thr op p xs = (xs.isEmpty || decide (p + xs.sum + op ≤ thr))
  | [], p, _ => by simp [sizeBelowLoop]
  | x :: r, p, hpos => by
    have hx : 0 ≤ x := hpos x (by simp)
    have hr : ∀ y ∈ r, 0 ≤ y := fun y hy => hpos y (by simp [hy])
    have hsum : 0 ≤ r.sum := by
      clear hpos hx
      induction r with
      | nil => simp
      | cons a t ih =>
        simp only [List.sum_cons]
        have := hr a (by simp)
        have := ih (fun y hy => hr y (by simp [hy]))
        omega
    unfold sizeBelowLoop
    by_cases hc : p + x + op > thr
    · simp only [hc, if_true, List.isEmpty_cons, Bool.false_or, List.sum_cons]
      have : ¬ (p + (x + r.sum) + op ≤ thr) := by omega
      simp [this]
    · simp only [hc, if_false]
      rw [sizeBelowLoop_eq thr op r (p + x) hr]
      simp only [List.isEmpty_cons, Bool.false_or, List.sum_cons]
      cases r with
      | nil => simp; omega
      | cons a t => simp only [List.isEmpty_cons, Bool.false_or]; congr 1; simp only [eq_iff_iff]; constructor <;> intro h <;> omega

theorem perm_sum_int {l1 l2 : List Int} (hp : l1.Perm l2) : l1.sum = l2.sum := by
  induction hp with
  | nil => rfl
  | cons x _ ih => simp [ih]
  | swap x y l => simp only [List.sum_cons]; omega
  | trans _ _ ih1 ih2 => rw [ih1, ih2]

/-- **Order independence of `sizeBelowThreshold`**: whatever order `EnumLinksAsync` delivers the entries in
(any permutation of the trie's entries), the loop with early exit answers what `Hamt.sizeBelow` says. -/
theorem sizeBelow_order_independent (g : Globals) (hd : Hamt) (op : Int) (order : List (Name × Lnk))
    (hp : order.Perm hd.shard.ents) :
    sizeBelowLoop (hd.s.effThr g) op
        (if hd.s.effMode g = 1 then ((dataFieldSize hd.s.stat : Nat) : Int) else 0)
        (order.map fun e => hd.linkSizeFor g (nameLen e.1) e.2) = hd.sizeBelow g op := by
  rw [sizeBelowLoop_eq]
  · unfold Hamt.sizeBelow
    simp only
    have h1 : (order.map fun e => hd.linkSizeFor g (nameLen e.1) e.2).isEmpty = hd.shard.ents.isEmpty := by
      cases ho : order with
      | nil => rw [ho] at hp; rw [List.nil_perm.1 hp]; rfl
      | cons a t =>
        rw [ho] at hp
        cases he : hd.shard.ents with
        | nil => rw [he] at hp; exact absurd (List.perm_nil.1 hp) (by simp)
        | cons b u => rfl
    rw [h1, perm_sum_int (hp.map _)]
  · intro x hx
    obtain ⟨e, _, rfl⟩ := List.mem_map.1 hx
    unfold Hamt.linkSizeFor
    exact linkSizeIn_nonneg _ _ _

end C15
