import BoxoModel.C29.Lemmas
/-! Lemmas about the concurrent-publish small-step system of `Model.lean` (core only). -/
namespace C29

def run' (s : St) (ops : List Op) : St := ops.foldl step s

def reqOp (r : Req) : Op := .publish r.k r.value r.ttl r.seq

/-- `publish` is the composition of its three phases (read+write under the lock, routing put, cache) -/
theorem publish_eq_steps (s : St) (r : Req) :
    publish s r.k r.value r.ttl r.seq =
      match pubWrite s (getPublished s r.k) r with
      | (s1, none) => (s1, .badseq)
      | (s1, some rec) =>
        match pubRoute false s1 r.k rec with
        | (s2, res) => (pubFinish s2 r res, res) := by
  unfold publish pubWrite
  cases hn : nextSeq (getPublished s r.k) r.value r.seq with
  | none => rfl
  | some n =>
    simp only [pubRoute, routePut]
    by_cases hf : s.failPut = true
    · simp [hf, pubFinish]
    · have hf' : s.failPut = false := by simpa using hf
      simp only [hf', Bool.false_eq_true, if_false, pubFinish]
      generalize (if r.ttl.getD defaultRecordTTL ≥ 0 then r.ttl.getD defaultRecordTTL else defaultResolverCacheTTL) = ttl
      by_cases hl : ttl ≤ 0 <;> simp [hl]

/-- what the concurrent run and a sequential run must agree on: the publisher's datastore, and the
routing records of names the publisher has no record for (those are read by `GetPublished`) -/
abbrev Rel (c q : St) : Prop :=
  c.dstore = q.dstore ∧ ∀ k, afind c.dstore k = none → afind c.store k = afind q.store k

abbrev Inv (c : Conc) : Prop :=
  (∀ (i : Nat) (cur : Option Rec), c.lock = some (i, cur) →
    ∃ r : Req, c.pcs[i]? = some (r, PC.locked) ∧ cur = getPublished c.st r.k) ∧
  (∀ (i : Nat) (r : Req) (rec : Rec), c.pcs[i]? = some (r, PC.recorded rec) → afind c.st.dstore r.k ≠ none)

def reqsOf (c : Conc) : List Req := c.pcs.map (·.1)

theorem getPublished_of_rel (c q : St) (h : Rel c q) (k : Nat) : getPublished c k = getPublished q k := by
  unfold getPublished
  rw [← h.1]
  cases hd : afind c.dstore k with
  | some r => rfl
  | none => simp only; exact h.2 k hd

theorem afind_routePut_other (v : Bool) (store : List (Nat × Rec)) (k k' : Nat) (rec : Rec) (h : k' ≠ k) :
    afind (routePut v store k rec) k' = afind store k' := by
  unfold routePut
  split
  · split
    · split
      · rfl
      · exact afind_aput_other _ _ _ _ h
    · exact afind_aput_other _ _ _ _ h
  · exact afind_aput_other _ _ _ _ h

theorem set_same {α} (l : List α) (i : Nat) (a : α) (h : l[i]? = some a) : l.set i a = l := by
  apply List.ext_getElem?
  intro j
  rw [List.getElem?_set]
  split
  · rename_i hij; subst hij
    obtain ⟨hl, _⟩ := List.getElem?_eq_some_iff.mp h
    rw [h]; simp [hl]
  · rfl

theorem reqs_set (pcs : List (Req × PC)) (i : Nat) (r : Req) (pc pc' : PC) (h : pcs[i]? = some (r, pc)) :
    (pcs.set i (r, pc')).map (·.1) = pcs.map (·.1) := by
  rw [List.map_set]
  apply set_same
  simp [h]

theorem lt_of_get {α} (l : List α) (i : Nat) (a : α) (h : l[i]? = some a) : i < l.length :=
  (List.getElem?_eq_some_iff.mp h).1

theorem tick_getPublished (s : St) (k : Nat) : getPublished (tick s) k = getPublished s k := rfl

/-- one step of the concurrent system is simulated by zero or one sequential `publish` -/
theorem stepAt_sim (v : Bool) (c : Conc) (q : St) (i : Nat) (hi : Inv c) (hr : Rel c.st q) :
    Inv (stepAt v c i) ∧ reqsOf (stepAt v c i) = reqsOf c ∧
    ∃ ord : List Req, (∀ r ∈ ord, r ∈ reqsOf c) ∧ Rel (stepAt v c i).st (run' q (ord.map reqOp)) := by
  have same : Inv c ∧ reqsOf c = reqsOf c ∧ ∃ ord : List Req, (∀ r ∈ ord, r ∈ reqsOf c) ∧ Rel c.st (run' q (ord.map reqOp)) :=
    ⟨hi, rfl, [], by simp, hr⟩
  unfold stepAt
  cases hp : c.pcs[i]? with
  | none => exact same
  | some rp =>
    obtain ⟨r, pc⟩ := rp
    have hlen := lt_of_get _ _ _ hp
    simp only
    cases pc with
    | done res => exact same
    | start =>
      simp only
      cases hl : c.lock with
      | some _ => exact same
      | none =>
        simp only
        refine ⟨⟨?_, ?_⟩, ?_, [], by simp, hr⟩
        · intro j cur hj
          simp only [Option.some.injEq, Prod.mk.injEq] at hj
          obtain ⟨rfl, rfl⟩ := hj
          exact ⟨r, List.getElem?_set_self hlen, rfl⟩
        · intro j r' rec hj
          by_cases hij : i = j
          · subst hij; rw [List.getElem?_set_self hlen] at hj; simp at hj
          · rw [List.getElem?_set_ne hij] at hj; exact hi.2 j r' rec hj
        · simp only [reqsOf]; exact reqs_set _ _ _ _ _ hp
    | routed res =>
      simp only
      have hst : (pubFinish c.st r res).store = c.st.store ∧ (pubFinish c.st r res).dstore = c.st.dstore := by
        cases res with
        | ok =>
          simp only [pubFinish]
          generalize (if r.ttl.getD defaultRecordTTL ≥ 0 then r.ttl.getD defaultRecordTTL else defaultResolverCacheTTL) = ttl
          by_cases hl : ttl ≤ 0
          · simp only [hl, if_true]
            exact ⟨(cacheInvalidate_store _ _).1, (cacheInvalidate_store _ _).2.1⟩
          · simp only [hl, if_false]
            exact ⟨(cacheSet_store _ _ _ _).1, (cacheSet_store _ _ _ _).2.1⟩
        | badseq => exact ⟨(cacheInvalidate_store _ _).1, (cacheInvalidate_store _ _).2.1⟩
        | puterr => exact ⟨(cacheInvalidate_store _ _).1, (cacheInvalidate_store _ _).2.1⟩
      refine ⟨⟨?_, ?_⟩, ?_, [], by simp, ?_⟩
      · intro j cur hj
        obtain ⟨r', h1, h2⟩ := hi.1 j cur hj
        refine ⟨r', ?_, ?_⟩
        · by_cases hij : i = j
          · subst hij; rw [hp] at h1; simp at h1
          · rw [List.getElem?_set_ne hij]; exact h1
        · rw [h2]; simp only [getPublished, hst.1, hst.2]
      · intro j r' rec hj
        rw [hst.2]
        by_cases hij : i = j
        · subst hij; rw [List.getElem?_set_self hlen] at hj; simp at hj
        · rw [List.getElem?_set_ne hij] at hj; exact hi.2 j r' rec hj
      · simp only [reqsOf]; exact reqs_set _ _ _ _ _ hp
      · exact ⟨by rw [hst.2]; exact hr.1, fun k hk => by rw [hst.1]; exact hr.2 k (by rw [← hst.2]; exact hk)⟩
    | recorded rec =>
      simp only
      have hk := hi.2 i r rec hp
      -- the routing put touches only the record of r.k, for which the publisher has a record
      have hst : (pubRoute v c.st r.k rec).1.dstore = c.st.dstore ∧
          ∀ k', k' ≠ r.k → afind (pubRoute v c.st r.k rec).1.store k' = afind c.st.store k' := by
        unfold pubRoute
        split
        · exact ⟨rfl, fun _ _ => rfl⟩
        · exact ⟨rfl, fun k' h => afind_routePut_other v _ _ _ _ h⟩
      have hgp : ∀ k', getPublished (pubRoute v c.st r.k rec).1 k' = getPublished c.st k' := by
        intro k'
        unfold getPublished
        rw [hst.1]
        cases hd : afind c.st.dstore k' with
        | some x => rfl
        | none =>
          simp only
          exact hst.2 k' (by intro e; subst e; exact hk hd)
      cases hpr : pubRoute v c.st r.k rec with
      | mk s1 res =>
        rw [hpr] at hst hgp
        simp only at hst hgp ⊢
        refine ⟨⟨?_, ?_⟩, ?_, [], by simp, ?_⟩
        · intro j cur hj
          obtain ⟨r', h1, h2⟩ := hi.1 j cur hj
          refine ⟨r', ?_, by rw [h2, hgp]⟩
          by_cases hij : i = j
          · subst hij; rw [hp] at h1; simp at h1
          · rw [List.getElem?_set_ne hij]; exact h1
        · intro j r' rec' hj
          rw [hst.1]
          by_cases hij : i = j
          · subst hij; rw [List.getElem?_set_self hlen] at hj; simp at hj
          · rw [List.getElem?_set_ne hij] at hj; exact hi.2 j r' rec' hj
        · simp only [reqsOf]; exact reqs_set _ _ _ _ _ hp
        · refine ⟨by rw [hst.1]; exact hr.1, ?_⟩
          intro k' hk'
          rw [hst.1] at hk'
          rw [hst.2 k' (by intro e; subst e; exact hk hk')]
          exact hr.2 k' hk'
    | locked =>
      simp only
      cases hl : c.lock with
      | none => exact same
      | some jc =>
        obtain ⟨j, cur⟩ := jc
        simp only
        by_cases hji : j = i
        · subst hji
          simp only [beq_self_eq_true, if_true]
          obtain ⟨r0, h1, hcur⟩ := hi.1 j cur hl
          rw [hp] at h1
          simp only [Option.some.injEq, Prod.mk.injEq, and_true] at h1
          subst h1
          -- the sequential counterpart: one full publish of this request
          have hq : getPublished (tick q) r.k = cur := by
            rw [tick_getPublished, ← getPublished_of_rel c.st q hr, hcur]
          have hmem : r ∈ reqsOf c := by
            simp only [reqsOf]
            exact List.mem_map_of_mem (f := (·.1)) (List.mem_of_getElem? hp)
          have hrun : run' q ([r].map reqOp) = (publish (tick q) r.k r.value r.ttl r.seq).1 := by
            simp [run', reqOp, step]
          unfold pubWrite
          cases hn : nextSeq cur r.value r.seq with
          | none =>
            simp only
            have hci := cacheInvalidate_store c.st (Root.name r.k 0)
            refine ⟨⟨by intro j' cur' h; simp at h, ?_⟩, ?_, [r], by simpa using hmem, ?_⟩
            · intro j' r' rec' hj
              rw [hci.2.1]
              by_cases hij : j = j'
              · subst hij; rw [List.getElem?_set_self hlen] at hj; simp at hj
              · rw [List.getElem?_set_ne hij] at hj; exact hi.2 j' r' rec' hj
            · simp only [reqsOf]; exact reqs_set _ _ _ _ _ hp
            · rw [hrun]
              rcases publish_cases (tick q) r.k r.value r.ttl r.seq with ⟨_, _, hs, hd⟩ | ⟨n, hn', _⟩ | ⟨n, hn', _⟩
              · refine ⟨by rw [hci.2.1, hd]; exact hr.1, ?_⟩
                intro k hk
                rw [hci.2.1] at hk
                rw [hci.1, hs]
                exact hr.2 k hk
              · rw [hq, hn] at hn'; simp at hn'
              · rw [hq, hn] at hn'; simp at hn'
          | some n =>
            simp only
            refine ⟨⟨by intro j' cur' h; simp at h, ?_⟩, ?_, [r], by simpa using hmem, ?_⟩
            · intro j' r' rec' hj
              simp only
              by_cases hij : j = j'
              · subst hij
                rw [List.getElem?_set_self hlen] at hj
                simp only [Option.some.injEq, Prod.mk.injEq, PC.recorded.injEq] at hj
                rw [← hj.1, afind_aput_same]; simp
              · rw [List.getElem?_set_ne hij] at hj
                have := hi.2 j' r' rec' hj
                by_cases hkk : r'.k = r.k
                · rw [hkk, afind_aput_same]; simp
                · rw [afind_aput_other _ _ _ _ hkk]; exact this
            · simp only [reqsOf]; exact reqs_set _ _ _ _ _ hp
            · rw [hrun]
              have key : ∀ (qs : List (Nat × Rec)), (qs = q.store ∨ qs = aput q.store r.k (newRec r.value r.ttl n)) →
                  ∀ k, afind (aput c.st.dstore r.k (newRec r.value r.ttl n)) k = none → afind c.st.store k = afind qs k := by
                intro qs hqs k hk
                have hne : k ≠ r.k := by intro e; subst e; rw [afind_aput_same] at hk; simp at hk
                rw [afind_aput_other _ _ _ _ hne] at hk
                rcases hqs with rfl | rfl
                · exact hr.2 k hk
                · rw [afind_aput_other _ _ _ _ hne]; exact hr.2 k hk
              rcases publish_cases (tick q) r.k r.value r.ttl r.seq with ⟨hn', _⟩ | ⟨n', hn', _, _, hs, hd⟩ | ⟨n', hn', _, _, hs, hd⟩
              · rw [hq, hn] at hn'; simp at hn'
              · rw [hq, hn] at hn'
                simp only [Option.some.injEq] at hn'; subst hn'
                refine ⟨?_, ?_⟩
                · show aput c.st.dstore r.k _ = _
                  rw [hd]; simp only [tick, newRec]; rw [hr.1]
                · rw [hs]; exact key _ (.inl rfl)
              · rw [hq, hn] at hn'
                simp only [Option.some.injEq] at hn'; subst hn'
                refine ⟨?_, ?_⟩
                · show aput c.st.dstore r.k _ = _
                  rw [hd]; simp only [tick, newRec]; rw [hr.1]
                · rw [hs]; exact key _ (.inr rfl)
        · have : (j == i) = false := by simp [hji]
          simp only [this]
          exact same

/-- every schedule of the concurrent system is simulated by a sequential run of full publishes, in
the order in which the threads performed their locked read+write -/
theorem runSched_sim (v : Bool) (sched : List Nat) : ∀ (c : Conc) (q : St), Inv c → Rel c.st q →
    ∃ ord : List Req, (∀ r ∈ ord, r ∈ reqsOf c) ∧ Rel (runSched v c sched).st (run' q (ord.map reqOp)) := by
  induction sched with
  | nil => intro c q _ hr; exact ⟨[], by simp, hr⟩
  | cons i rest ih =>
    intro c q hi hr
    obtain ⟨hi', hreq, ord1, hm1, hr1⟩ := stepAt_sim v c q i hi hr
    obtain ⟨ord2, hm2, hr2⟩ := ih (stepAt v c i) (run' q (ord1.map reqOp)) hi' hr1
    refine ⟨ord1 ++ ord2, ?_, ?_⟩
    · intro r hr'
      simp only [List.mem_append] at hr'
      rcases hr' with h | h
      · exact hm1 r h
      · rw [← hreq]; exact hm2 r h
    · simp only [runSched, List.foldl_cons]
      simp only [run', List.map_append, List.foldl_append] at hr2 ⊢
      exact hr2

theorem inv_init (s : St) (reqs : List Req) : Inv (initConc s reqs) := by
  refine ⟨by intro i cur h; simp [initConc] at h, ?_⟩
  intro i r rec h
  simp only [initConc, List.getElem?_map] at h
  cases hq : reqs[i]? with
  | none => simp [hq] at h
  | some x => simp [hq] at h

end C29
