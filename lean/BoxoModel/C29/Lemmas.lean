import BoxoModel.C29.Model
/-! Helper lemmas for C29 (core only). -/
namespace C29

/-! ### association lists -/
theorem afind_aput_same {β} (m : List (Nat × β)) (k : Nat) (v : β) : afind (aput m k v) k = some v := by
  simp [afind, aput]

theorem find_filter_ne {β} (m : List (Nat × β)) (k k' : Nat) (h : k' ≠ k) :
    (m.filter (·.1 != k)).find? (·.1 == k') = m.find? (·.1 == k') := by
  induction m with
  | nil => rfl
  | cons a t ih =>
    by_cases ha : a.1 = k
    · have h1 : (a.1 != k) = false := by simp [ha]
      have h2 : (a.1 == k') = false := by
        simp only [beq_eq_false_iff_ne, ne_eq]; intro e; exact h (e.symm.trans ha)
      rw [List.filter_cons_of_neg (p := fun x : Nat × β => x.1 != k) (a := a) (by simp [h1]), List.find?_cons_of_neg (by simp [h2])]
      exact ih
    · have h1 : (a.1 != k) = true := by simp [ha]
      rw [List.filter_cons_of_pos (p := fun x : Nat × β => x.1 != k) (a := a) h1]
      by_cases hb : a.1 = k'
      · have h2 : (a.1 == k') = true := by simp [hb]
        rw [List.find?_cons_of_pos (by exact h2), List.find?_cons_of_pos (by exact h2)]
      · have h2 : (a.1 == k') = false := by simp [hb]
        rw [List.find?_cons_of_neg (by simp [h2]), List.find?_cons_of_neg (by simp [h2])]
        exact ih

theorem afind_aput_other {β} (m : List (Nat × β)) (k k' : Nat) (v : β) (h : k' ≠ k) :
    afind (aput m k v) k' = afind m k' := by
  have hk : ((k == k') = false) := by
    simp only [beq_eq_false_iff_ne, ne_eq]; exact fun e => h e.symm
  unfold afind aput
  rw [List.find?_cons_of_neg (by simp [hk]), find_filter_ne m k k' h]

/-! ### cache operations never touch the stores -/
theorem cacheInvalidate_store (s : St) (key : Root) :
    (cacheInvalidate s key).store = s.store ∧ (cacheInvalidate s key).dstore = s.dstore ∧
    (cacheInvalidate s key).cap = s.cap := by
  unfold cacheInvalidate; split <;> simp

theorem cacheSet_store (s : St) (key : Root) (v : Path) (t : Int) :
    (cacheSet s key v t).store = s.store ∧ (cacheSet s key v t).dstore = s.dstore ∧
    (cacheSet s key v t).cap = s.cap ∧ (cacheSet s key v t).dns = s.dns ∧
    (cacheSet s key v t).maxTTL = s.maxTTL ∧ (cacheSet s key v t).now = s.now := by
  unfold cacheSet; split <;> simp

theorem cacheGet_store (s : St) (key : Root) :
    (cacheGet s key).1.store = s.store ∧ (cacheGet s key).1.dstore = s.dstore ∧
    (cacheGet s key).1.cap = s.cap ∧ (cacheGet s key).1.dns = s.dns ∧
    (cacheGet s key).1.maxTTL = s.maxTTL ∧ (cacheGet s key).1.now = s.now := by
  unfold cacheGet
  split
  · simp
  · simp only
    split <;> (try split) <;> simp

theorem resolveOnce_store (s : St) (p : Path) :
    (resolveOnce s p).1.store = s.store ∧ (resolveOnce s p).1.dstore = s.dstore ∧
    (resolveOnce s p).1.cap = s.cap ∧ (resolveOnce s p).1.dns = s.dns ∧
    (resolveOnce s p).1.maxTTL = s.maxTTL ∧ (resolveOnce s p).1.now = s.now := by
  unfold resolveOnce
  have hg := cacheGet_store s (ckey p.root)
  split
  · simp
  · simp only
    split
    · rename_i s1 val ttl heq
      rw [heq] at hg; exact hg
    · rename_i s1 heq
      rw [heq] at hg
      simp only at hg
      split
      · split
        · exact hg
        · have := cacheSet_store s1 (ckey p.root) ‹Rec›.value (max 0 ‹Rec›.ttl)
          simp only [this]; exact hg
      · split
        · exact hg
        · rename_i v ttl _
          have := cacheSet_store s1 (ckey p.root) v ttl
          simp only [this]; exact hg
      · exact hg
      · exact hg

theorem resolve_store (fuel : Nat) : ∀ (s : St) (p : Path) (d : Nat),
    (resolve fuel s p d).1.store = s.store ∧ (resolve fuel s p d).1.dstore = s.dstore := by
  induction fuel with
  | zero => intro s p d; simp [resolve]
  | succ fuel ih =>
    intro s p d
    have h1 := resolveOnce_store s p
    unfold resolve
    split
    · rename_i s1 heq; rw [heq] at h1; exact ⟨h1.1, h1.2.1⟩
    · rename_i s1 e heq; rw [heq] at h1; exact ⟨h1.1, h1.2.1⟩
    · rename_i s1 q t heq
      rw [heq] at h1
      simp only at h1
      split
      · exact ⟨h1.1, h1.2.1⟩
      · split
        · exact ⟨h1.1, h1.2.1⟩
        · have h2 := ih s1 q (if d > 1 then d - 1 else d)
          split
          · rename_i s2 q' t' heq2
            rw [heq2] at h2
            exact ⟨h2.1.trans h1.1, h2.2.trans h1.2.1⟩
          · exact ⟨h2.1.trans h1.1, h2.2.trans h1.2.1⟩

/-! ### the publisher -/

/-- sequence number of the publisher's own record of key `k` -/
def dsSeq (s : St) (k : Nat) : Option Nat := (afind s.dstore k).map (·.seq)
def stSeq (s : St) (k : Nat) : Option Nat := (afind s.store k).map (·.seq)

/-- `a ≤ b` on optional sequence numbers: a missing record is below everything, and a record never disappears -/
def optLe (a b : Option Nat) : Prop :=
  match a, b with
  | none, _ => True
  | some _, none => False
  | some x, some y => x ≤ y

theorem optLe_refl (a : Option Nat) : optLe a a := by
  cases a <;> simp [optLe]

theorem optLe_trans (a b c : Option Nat) (h1 : optLe a b) (h2 : optLe b c) : optLe a c := by
  cases a <;> cases b <;> cases c <;> simp_all [optLe]
  omega

theorem nextSeq_ge (cur : Rec) (v : Path) (q : Option Nat) (n : Nat)
    (h : nextSeq (some cur) v q = some n) :
    cur.seq ≤ n ∧ (v ≠ cur.value → cur.seq < n) ∧ (∀ x, q = some x → cur.seq < x ∧ n = x) := by
  unfold nextSeq at h
  cases q with
  | some x =>
    simp only at h
    split at h
    · simp at h
    · simp at h; subst h
      exact ⟨by omega, fun _ => by omega, fun y hy => by simp at hy; subst hy; exact ⟨by omega, rfl⟩⟩
  | none =>
    simp only at h
    split at h
    · split at h
      · simp at h
      · simp at h; subst h; exact ⟨by omega, fun _ => by omega, fun y hy => by simp at hy⟩
    · rename_i hne
      simp at h; subst h
      refine ⟨by omega, fun hv => ?_, fun y hy => by simp at hy⟩
      simp at hne
      exact absurd hne hv


/-- the record a successful `updateRecord` writes -/
def newRec (v : Path) (t : Option Int) (n : Nat) : Rec :=
  { value := v, seq := n, ttl := max 0 (t.getD defaultRecordTTL) }

/-- the three outcomes of `namesys.Publish`, with their effect on the two stores -/
theorem publish_cases (s : St) (k : Nat) (v : Path) (t : Option Int) (q : Option Nat) :
    (nextSeq (getPublished s k) v q = none ∧ (publish s k v t q).2 = .badseq ∧
      (publish s k v t q).1.store = s.store ∧ (publish s k v t q).1.dstore = s.dstore) ∨
    (∃ n, nextSeq (getPublished s k) v q = some n ∧ s.failPut = true ∧ (publish s k v t q).2 = .puterr ∧
      (publish s k v t q).1.store = s.store ∧ (publish s k v t q).1.dstore = aput s.dstore k (newRec v t n)) ∨
    (∃ n, nextSeq (getPublished s k) v q = some n ∧ s.failPut = false ∧ (publish s k v t q).2 = .ok ∧
      (publish s k v t q).1.store = aput s.store k (newRec v t n) ∧
      (publish s k v t q).1.dstore = aput s.dstore k (newRec v t n)) := by
  unfold publish
  cases hn : nextSeq (getPublished s k) v q with
  | none =>
    left
    simp [(cacheInvalidate_store s (Root.name k 0)).1, (cacheInvalidate_store s (Root.name k 0)).2.1]
  | some n =>
    right
    by_cases hf : s.failPut = true
    · left
      refine ⟨n, rfl, hf, ?_⟩
      simp only [hf, if_true]
      refine ⟨trivial, ?_, ?_⟩
      · rw [(cacheInvalidate_store _ _).1]
      · rw [(cacheInvalidate_store _ _).2.1]; rfl
    · right
      have hf' : s.failPut = false := by simpa using hf
      refine ⟨n, rfl, hf', ?_⟩
      simp only [hf', Bool.false_eq_true, if_false]
      generalize (if t.getD defaultRecordTTL ≥ 0 then t.getD defaultRecordTTL else defaultResolverCacheTTL) = ttl
      by_cases h : ttl ≤ 0
      · simp only [h, if_true]
        refine ⟨trivial, ?_, ?_⟩
        · rw [(cacheInvalidate_store _ _).1]; rfl
        · rw [(cacheInvalidate_store _ _).2.1]; rfl
      · simp only [h, if_false]
        refine ⟨trivial, ?_, ?_⟩
        · rw [(cacheSet_store _ _ _ _).1]; rfl
        · rw [(cacheSet_store _ _ _ _).2.1]; rfl

theorem nextSeq_none_explicit (v : Path) (x n : Nat) (h : nextSeq none v (some x) = some n) : n = x := by
  simp only [nextSeq] at h
  split at h <;> simp at h
  exact h.symm


/-! ### cache coherence for one key -/

/-- every cache entry under `key` (if there is a cache) carries the value `v` -/
def Coh (s : St) (key : Root) (v : Path) : Prop :=
  s.cap ≠ 0 → ∀ e ∈ s.cache, e.key = key → e.val = v

theorem coh_invalidate (s : St) (key : Root) (v : Path) : Coh (cacheInvalidate s key) key v := by
  intro hc e he hk
  unfold cacheInvalidate at he hc
  split at he
  · rename_i h; simp at h; simp [h] at hc
  · simp only [lruRemove, List.mem_filter] at he
    simp [hk] at he

theorem coh_set (s : St) (key : Root) (v : Path) (ttl : Int) (h : ttl > 0) : Coh (cacheSet s key v ttl) key v := by
  intro hc e he hk
  unfold cacheSet at he hc
  split at he
  · rename_i h'
    simp only [Bool.or_eq_true, decide_eq_true_eq] at h'
    rcases h' with h' | h'
    · simp at h'; simp [h'] at hc
    · omega
  · simp only [lruAdd] at he
    have := List.mem_of_mem_take he
    simp only [List.mem_cons, List.mem_filter] at this
    rcases this with rfl | ⟨_, hne⟩
    · rfl
    · simp [hk] at hne

/-- `now` plays no role in coherence -/
theorem coh_now (s : St) (key : Root) (v : Path) (n : Int) (h : Coh s key v) : Coh { s with now := n } key v := h

theorem find_mem {α} (p : α → Bool) (l : List α) (a : α) (h : l.find? p = some a) : a ∈ l ∧ p a = true :=
  ⟨List.mem_of_find?_eq_some h, List.find?_some h⟩

/-- a coherent cache cannot change what one hop returns for a name: the value in the routing store -/
theorem resolveOnce_coherent (s : St) (k f : Nat) (segs : List String) (tr : Bool) (rec : Rec)
    (hs : afind s.store k = some rec) (hc : Coh s (Root.name k 0) rec.value) :
    ∃ ttl, (resolveOnce s ⟨.name k f, segs, tr⟩).2 = .ok (joinPaths rec.value ⟨.name k f, segs, tr⟩) ttl := by
  unfold resolveOnce
  simp only [Path.mutable, Bool.not_true, Bool.false_eq_true, if_false, ckey]
  have hst := (cacheGet_store s (Root.name k 0)).1
  cases hg : cacheGet s (Root.name k 0) with
  | mk s1 o =>
    rw [hg] at hst
    simp only at hst
    cases o with
    | some vt =>
      obtain ⟨val, ttl⟩ := vt
      simp only
      -- a hit returns an entry of the cache under this key
      have hv : val = rec.value := by
        unfold cacheGet at hg
        split at hg
        · simp at hg
        · rename_i hcap
          simp only [lruGet] at hg
          cases hf : s.cache.find? (·.key == Root.name k 0) with
          | none => simp [hf] at hg
          | some e =>
            simp only [hf] at hg
            split at hg
            · simp only [Prod.mk.injEq, Option.some.injEq] at hg
              obtain ⟨hm, hk⟩ := find_mem _ _ _ hf
              have := hc (by simpa using hcap) e hm (by simpa using hk)
              rw [← this]; exact hg.2.1.symm
            · simp at hg
      exact ⟨ttl, by rw [hv]⟩
    | none =>
      simp only [hst, hs]
      exact ⟨_, rfl⟩

/-- what a successful publish establishes (whatever the clock shows afterwards) -/
theorem publish_ok_coherent (s : St) (k : Nat) (v : Path) (t : Option Int) (q : Option Nat)
    (h : (publish s k v t q).2 = .ok) : Coh (publish s k v t q).1 (Root.name k 0) v := by
  unfold publish at h ⊢
  cases hn : nextSeq (getPublished s k) v q with
  | none => simp [hn] at h
  | some n =>
    simp only [hn] at h ⊢
    by_cases hf : s.failPut = true
    · simp [hf] at h
    · have hf' : s.failPut = false := by simpa using hf
      simp only [hf', Bool.false_eq_true, if_false]
      generalize (if t.getD defaultRecordTTL ≥ 0 then t.getD defaultRecordTTL else defaultResolverCacheTTL) = ttl
      by_cases hl : ttl ≤ 0
      · simp only [hl, if_true]; exact coh_invalidate _ _ _
      · simp only [hl, if_false]; exact coh_set _ _ _ _ (by omega)


/-! ### chains of hops -/

/-- `Walk s p hs last s'`: starting in state `s`, successive `resolveOnce` calls on `p`, then on each
returned path, succeed with the (path, ttl) results `hs`; every result but the last is mutable (that
is why the next hop happens); `last` is the final path, `s'` the final state. -/
inductive Walk : St → Path → List (Path × Int) → Path → St → Prop
  | one {s p s1 q t} : resolveOnce s p = (s1, .ok q t) → Walk s p [(q, t)] q s1
  | cons {s p s1 q t rest last s2} : resolveOnce s p = (s1, .ok q t) → q.mutable = true →
      Walk s1 q rest last s2 → Walk s p ((q, t) :: rest) last s2

/-- TTL reported for a chain of hop TTLs: `minNonZeroTTL` folded from the innermost hop outwards -/
def foldTTL : List Int → Int
  | [] => 0
  | [t] => t
  | t :: rest => minNonZeroTTL t (foldTTL rest)

theorem Walk.ne_nil {s p hs last s'} (w : Walk s p hs last s') : hs ≠ [] := by
  cases w <;> simp

theorem foldTTL_cons (t : Int) (rest : List Int) (h : rest ≠ []) :
    foldTTL (t :: rest) = minNonZeroTTL t (foldTTL rest) := by
  cases rest with
  | nil => exact absurd rfl h
  | cons a r => rfl

/-- the int64 range of a `time.Duration` -/
def inI64 (a : Int) : Prop := -2 ^ 63 ≤ a ∧ a < 2 ^ 63

theorem toInt_ofInt_range (a : Int) (h : inI64 a) : (BitVec.ofInt 64 a).toInt = a := by
  rw [BitVec.toInt_ofInt]
  apply Int.bmod_eq_of_le <;> (have := h.1; have := h.2; omega)

/-- the regenerated Go function computes, on int64 values, the intended integer function -/
theorem minNonZeroTTL_eq (a b : Int) (ha : inI64 a) (hb : inI64 b) :
    minNonZeroTTL a b = (if min a b ≤ 0 then max 0 (max a b) else min a b) := by
  have ea := toInt_ofInt_range a ha
  have eb := toInt_ofInt_range b hb
  have e0 : (0#64 : BitVec 64).toInt = 0 := by decide
  unfold minNonZeroTTL Gen.C29.minNonZeroTTL GoInt.smin GoInt.smax
  simp only
  by_cases hba : b < a
  · have h1 : BitVec.slt (BitVec.ofInt 64 b) (BitVec.ofInt 64 a) = true := by
      rw [BitVec.slt_iff_toInt_lt, ea, eb]; exact hba
    simp only [h1, if_true]
    by_cases hb0 : b ≤ 0
    · have h2 : BitVec.sle (BitVec.ofInt 64 b) 0#64 = true := by
        rw [BitVec.sle_iff_toInt_le, eb, e0]; exact hb0
      simp only [h2, if_true]
      by_cases ha0 : 0 < a
      · have h3 : BitVec.slt 0#64 (BitVec.ofInt 64 a) = true := by
          rw [BitVec.slt_iff_toInt_lt, ea, e0]; exact ha0
        have h4 : BitVec.slt (BitVec.ofInt 64 a) (BitVec.ofInt 64 b) = false := by
          rw [Bool.eq_false_iff]; intro h; rw [BitVec.slt_iff_toInt_lt, ea, eb] at h; omega
        simp only [h3, if_true, h4, Bool.false_eq_true, if_false, ea]
        have : min a b = b := by omega
        rw [this]; simp only [hb0, if_true]; omega
      · have h3 : BitVec.slt 0#64 (BitVec.ofInt 64 a) = false := by
          rw [Bool.eq_false_iff]; intro h; rw [BitVec.slt_iff_toInt_lt, ea, e0] at h; omega
        have h4 : BitVec.slt 0#64 (BitVec.ofInt 64 b) = false := by
          rw [Bool.eq_false_iff]; intro h; rw [BitVec.slt_iff_toInt_lt, eb, e0] at h; omega
        simp only [h3, Bool.false_eq_true, if_false, h4, e0]
        have : min a b = b := by omega
        rw [this]; simp only [hb0, if_true]; omega
    · have h2 : BitVec.sle (BitVec.ofInt 64 b) 0#64 = false := by
        rw [Bool.eq_false_iff]; intro h; rw [BitVec.sle_iff_toInt_le, eb, e0] at h; omega
      simp only [h2, Bool.false_eq_true, if_false, eb]
      have : min a b = b := by omega
      rw [this]; simp only [hb0, if_false]
  · have h1 : BitVec.slt (BitVec.ofInt 64 b) (BitVec.ofInt 64 a) = false := by
      rw [Bool.eq_false_iff]; intro h; rw [BitVec.slt_iff_toInt_lt, ea, eb] at h; omega
    simp only [h1, Bool.false_eq_true, if_false]
    have hmin : min a b = a := by omega
    rw [hmin]
    by_cases ha0 : a ≤ 0
    · have h2 : BitVec.sle (BitVec.ofInt 64 a) 0#64 = true := by
        rw [BitVec.sle_iff_toInt_le, ea, e0]; exact ha0
      have h3 : BitVec.slt 0#64 (BitVec.ofInt 64 a) = false := by
        rw [Bool.eq_false_iff]; intro h; rw [BitVec.slt_iff_toInt_lt, ea, e0] at h; omega
      simp only [h2, if_true, h3, Bool.false_eq_true, if_false, ha0]
      by_cases hb0 : 0 < b
      · have h4 : BitVec.slt 0#64 (BitVec.ofInt 64 b) = true := by
          rw [BitVec.slt_iff_toInt_lt, eb, e0]; exact hb0
        simp only [h4, if_true, eb]; omega
      · have h4 : BitVec.slt 0#64 (BitVec.ofInt 64 b) = false := by
          rw [Bool.eq_false_iff]; intro h; rw [BitVec.slt_iff_toInt_lt, eb, e0] at h; omega
        simp only [h4, Bool.false_eq_true, if_false, e0]; omega
    · have h2 : BitVec.sle (BitVec.ofInt 64 a) 0#64 = false := by
        rw [Bool.eq_false_iff]; intro h; rw [BitVec.sle_iff_toInt_le, ea, e0] at h; omega
      simp only [h2, Bool.false_eq_true, if_false, ea, ha0]

theorem minNonZeroTTL_spec (a b : Int) (ha : inI64 a) (hb : inI64 b) :
    (0 < a → 0 < b → minNonZeroTTL a b = min a b) ∧
    (0 < a → b ≤ 0 → minNonZeroTTL a b = a) ∧
    (a ≤ 0 → 0 < b → minNonZeroTTL a b = b) ∧
    (a ≤ 0 → b ≤ 0 → minNonZeroTTL a b = 0) := by
  rw [minNonZeroTTL_eq a b ha hb]
  refine ⟨?_, ?_, ?_, ?_⟩ <;> intro h1 h2 <;> split <;> omega

theorem minNonZeroTTL_range (a b : Int) (ha : inI64 a) (hb : inI64 b) : inI64 (minNonZeroTTL a b) := by
  rw [minNonZeroTTL_eq a b ha hb]
  unfold inI64 at *
  split <;> omega

theorem foldTTL_range (ts : List Int) (h : ∀ t ∈ ts, inI64 t) : inI64 (foldTTL ts) := by
  induction ts with
  | nil => unfold inI64; simp [foldTTL]
  | cons a rest ih =>
    cases rest with
    | nil => simpa [foldTTL] using h a (by simp)
    | cons b r =>
      rw [foldTTL_cons a (b :: r) (by simp)]
      exact minNonZeroTTL_range _ _ (h a (by simp)) (ih (fun t ht => h t (by simp [ht])))

/-- the folded TTL is the smallest positive hop TTL, or ≤ 0 when there is none -/
theorem foldTTL_good (ts : List Int) (h : ts ≠ []) (hr : ∀ t ∈ ts, inI64 t) :
    (∀ t ∈ ts, 0 < t → foldTTL ts ≤ t) ∧
    ((foldTTL ts ≤ 0 ∧ ∀ t ∈ ts, t ≤ 0) ∨ (0 < foldTTL ts ∧ foldTTL ts ∈ ts)) := by
  induction ts with
  | nil => exact absurd rfl h
  | cons a rest ih =>
    cases rest with
    | nil =>
      simp only [foldTTL, List.mem_singleton, forall_eq]
      refine ⟨fun _ => Int.le_refl _, ?_⟩
      by_cases ha : 0 < a
      · exact .inr ⟨ha, trivial⟩
      · exact .inl ⟨by omega, by omega⟩
    | cons b r =>
      have ih := ih (by simp) (fun t ht => hr t (by simp [ht]))
      have hm := foldTTL_range (b :: r) (fun t ht => hr t (by simp [ht]))
      rw [foldTTL_cons a (b :: r) (by simp)]
      generalize foldTTL (b :: r) = m at ih hm ⊢
      have sp := minNonZeroTTL_spec a m (hr a (by simp)) hm
      obtain ⟨ih1, ih2⟩ := ih
      by_cases ha : 0 < a
      · rcases ih2 with ⟨hm, hall⟩ | ⟨hm, hmem⟩
        · rw [sp.2.1 ha hm]
          refine ⟨?_, .inr ⟨ha, by simp⟩⟩
          intro t ht hpos
          simp only [List.mem_cons] at ht
          rcases ht with rfl | ht
          · exact Int.le_refl _
          · have := hall t (by simpa using ht); omega
        · rw [sp.1 ha hm]
          refine ⟨?_, .inr ⟨by omega, ?_⟩⟩
          · intro t ht hpos
            simp only [List.mem_cons] at ht
            rcases ht with rfl | ht
            · omega
            · have := ih1 t (by simpa using ht) hpos; omega
          · by_cases hle : a ≤ m
            · rw [Int.min_eq_left hle]; simp
            · rw [Int.min_eq_right (by omega)]; exact List.mem_cons_of_mem _ hmem
      · have ha' : a ≤ 0 := by omega
        rcases ih2 with ⟨hm, hall⟩ | ⟨hm, hmem⟩
        · rw [sp.2.2.2 ha' hm]
          refine ⟨?_, .inl ⟨Int.le_refl _, ?_⟩⟩
          · intro t ht hpos
            simp only [List.mem_cons] at ht
            rcases ht with rfl | ht
            · omega
            · have := hall t (by simpa using ht); omega
          · intro t ht
            simp only [List.mem_cons] at ht
            rcases ht with rfl | ht
            · exact ha'
            · exact hall t (by simpa using ht)
        · rw [sp.2.2.1 ha' hm]
          refine ⟨?_, .inr ⟨hm, List.mem_cons_of_mem _ hmem⟩⟩
          intro t ht hpos
          simp only [List.mem_cons] at ht
          rcases ht with rfl | ht
          · omega
          · exact ih1 t (by simpa using ht) hpos

theorem minNonZeroTTL_nonneg (a b : Int) (ha : inI64 a) (hb : inI64 b) : 0 ≤ minNonZeroTTL a b := by
  rw [minNonZeroTTL_eq a b ha hb]; split <;> omega

end C29
