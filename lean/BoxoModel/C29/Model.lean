import BoxoModel.Gen.C29
/-
C29 — namesys: executable model of publishing (sequence rule, publish-time cache fill), the resolver
cache and recursive resolution.

Transcribed from (with the three `fix:` commits of branch verif/ipns applied)
  namesys/ipns_publisher.go  updateRecord, GetPublished, Publish
  namesys/namesys.go         Publish, resolveOnceAsync, resolveCacheKey
  namesys/namesys_cache.go   cacheGet, cacheSet, capTTL, cacheInvalidate
  namesys/ipns_resolver.go   resolveOnceAsync, calculateBestTTL
  namesys/dns_resolver.go    resolveOnceAsync (DNSLink lookup is a table: domain ↦ (path, ttl))
  namesys/utilities.go       resolve, resolveAsync, minNonZeroTTL, joinPaths
Parameters: the routing store and the publisher's datastore are association lists; the clock is the
field `now` (every duration is an integer of nanoseconds); golang-lru is modelled as a
most-recent-first list; a record is (value, sequence, ttl) — its EOL is assumed further away than
any TTL in play (so `time.Until(EOL)` never bounds a TTL).  Channels carry at most one result per hop
(the in-memory store yields one value); the model is the fully drained `ResolveAsync`, which is also
what `resolve` returns (last result, or the first error).
Core-only (no Mathlib): this file is also imported by the line-protocol driver.
-/
namespace C29

/-- root segment of a path; a name is written in one of several textual forms -/
inductive Root where
  | name (k : Nat) (form : Nat)   -- /ipns/<peer id of key k written in form `form`>
  | cid (i : Nat)                 -- /ipfs/<cid i>
  | dns (d : Nat)                 -- /ipns/<domain d>
  | junk (j : Nat)                -- /ipns/<neither a name nor a domain>
  deriving DecidableEq, Repr

structure Path where
  root : Root
  segs : List String := []
  trailing : Bool := false
  deriving DecidableEq, Repr

def Path.mutable (p : Path) : Bool :=
  match p.root with
  | .cid _ => false
  | _ => true

/-- `joinPaths(resolvedBase, unresolvedPath)`: the remainder (segments after the root, plus the
trailing-slash marker) of the unresolved path is appended to the resolved base. -/
def joinPaths (base p : Path) : Path :=
  if p.segs.isEmpty && !p.trailing then base
  else { root := base.root, segs := base.segs ++ p.segs, trailing := p.trailing }

structure Rec where
  value : Path
  seq : Nat
  ttl : Int
  deriving DecidableEq, Repr

structure Entry where
  key : Root       -- cache key: `.name k 0` (canonical name string) or `.dns d` (the path string)
  val : Path
  ttl : Int
  cacheEOL : Int
  deriving DecidableEq, Repr

structure St where
  cap : Nat := 0                 -- LRU size, 0 = no cache (ns.cache == nil)
  maxTTL : Option Int := none    -- WithMaxCacheTTL
  cache : List Entry := []       -- most recently used first
  store : List (Nat × Rec) := [] -- routing.ValueStore: key id ↦ record
  dstore : List (Nat × Rec) := []-- the publisher's datastore
  dns : List (Nat × (Path × Int)) := []
  failPut : Bool := false        -- the next PutValue fails
  now : Int := 0
  deriving Repr

def maxSeq : Nat := 2 ^ 64 - 1
def minute : Int := 60000000000
def defaultRecordTTL : Int := 5 * minute       -- ipns.DefaultRecordTTL
def defaultResolverCacheTTL : Int := minute    -- DefaultResolverCacheTTL
def defaultDepthLimit : Nat := 32

/-! association lists -/
def afind {β} (m : List (Nat × β)) (k : Nat) : Option β := (m.find? (·.1 == k)).map (·.2)
def aput {β} (m : List (Nat × β)) (k : Nat) (v : β) : List (Nat × β) := (k, v) :: m.filter (·.1 != k)
def adel {β} (m : List (Nat × β)) (k : Nat) : List (Nat × β) := m.filter (·.1 != k)

/-! golang-lru -/
def lruGet (c : List Entry) (key : Root) : List Entry × Option Entry :=
  match c.find? (·.key == key) with
  | none => (c, none)
  | some e => (e :: c.filter (·.key != key), some e)

def lruAdd (cap : Nat) (c : List Entry) (e : Entry) : List Entry :=
  (e :: c.filter (·.key != e.key)).take cap

def lruRemove (c : List Entry) (key : Root) : List Entry := c.filter (·.key != key)

/-- `resolveCacheKey` (fix): IPNS names are keyed by their canonical string whatever form was used -/
def ckey : Root → Root
  | .name k _ => .name k 0
  | r => r

/-- `cacheGet` -/
def cacheGet (s : St) (key : Root) : St × Option (Path × Int) :=
  if s.cap == 0 then (s, none)
  else
    let (c', oe) := lruGet s.cache key
    let s' := { s with cache := c' }
    match oe with
    | none => (s', none)
    | some e =>
      let remaining := e.cacheEOL - s.now
      if remaining > 0 then (s', some (e.val, min e.ttl remaining)) else (s', none)

/-- `cacheSet` (the lastMod heuristic is not modelled: nothing observable depends on it) -/
def cacheSet (s : St) (key : Root) (val : Path) (ttl : Int) : St :=
  if s.cap == 0 || ttl ≤ 0 then s
  else
    let cacheTTL := match s.maxTTL with
      | none => ttl
      | some m => min ttl (max 0 m)
    { s with cache := lruAdd s.cap s.cache { key := key, val := val, ttl := ttl, cacheEOL := s.now + cacheTTL } }

def cacheInvalidate (s : St) (key : Root) : St :=
  if s.cap == 0 then s else { s with cache := lruRemove s.cache key }

def capTTL (s : St) (ttl : Int) : Int :=
  match s.maxTTL with
  | some m => if m > 0 ∧ ttl > m then m else ttl
  | none => ttl

/-- `minNonZeroTTL`: NOT hand-written — `Gen.C29.minNonZeroTTL` is regenerated from
namesys/utilities.go by `extract ints` (T-gen) on every check; durations are Go int64. -/
def minNonZeroTTL (a b : Int) : Int :=
  (Gen.C29.minNonZeroTTL (BitVec.ofInt 64 a) (BitVec.ofInt 64 b)).toInt

inductive PubRes where
  | ok | badseq | puterr
  deriving DecidableEq, Repr

/-- `IPNSPublisher.updateRecord`: the sequence number of the new record, `none` = ErrInvalidSequence.
`cur` is what `GetPublished(name, checkRouting = true)` returns. -/
def nextSeq (cur : Option Rec) (value : Path) (explicit : Option Nat) : Option Nat :=
  match cur with
  | some rec =>
    match explicit with
    | some q => if q ≤ rec.seq then none else some q
    | none =>
      if value != rec.value then
        (if rec.seq == maxSeq then none else some (rec.seq + 1))   -- fix: no wrap to 0
      else some rec.seq
  | none =>
    match explicit with
    | some q => if q == 0 then none else some q
    | none => some 0

/-- `GetPublished(ctx, name, true)`: datastore first, then the routing system -/
def getPublished (s : St) (k : Nat) : Option Rec :=
  match afind s.dstore k with
  | some r => some r
  | none => afind s.store k

/-- `namesys.Publish(ctx, key k, value, PublishWithTTL(ttl)?, PublishWithSequence(seq)?)` -/
def publish (s : St) (k : Nat) (value : Path) (ttlOpt : Option Int) (explicit : Option Nat) : St × PubRes :=
  let optTTL := ttlOpt.getD defaultRecordTTL
  let key := Root.name k 0
  match nextSeq (getPublished s k) value explicit with
  | none => (cacheInvalidate s key, .badseq)
  | some seq =>
    let rec' : Rec := { value := value, seq := seq, ttl := max 0 optTTL }   -- newRecord floors the TTL
    let s1 := { s with dstore := aput s.dstore k rec' }
    if s1.failPut then (cacheInvalidate { s1 with failPut := false } key, .puterr)
    else
      let s2 := { s1 with store := aput s1.store k rec' }
      let ttl := if optTTL ≥ 0 then optTTL else defaultResolverCacheTTL
      if ttl ≤ 0 then (cacheInvalidate s2 key, .ok)                        -- fix: drop the old entry
      else (cacheSet s2 key value ttl, .ok)

inductive Err where
  | dnserr | cannot
  deriving DecidableEq, Repr

/-- what one `resolveOnceAsync` channel delivers -/
inductive Hop where
  | none                       -- closed without a result
  | err (e : Err)
  | ok (p : Path) (ttl : Int)
  deriving DecidableEq, Repr

/-- `namesys.resolveOnceAsync` (with the IPNS / DNS resolvers inlined) -/
def resolveOnce (s : St) (p : Path) : St × Hop :=
  if !p.mutable then (s, .ok p 0)
  else
    let key := ckey p.root
    match cacheGet s key with
    | (s1, some (val, ttl)) => (s1, .ok (joinPaths val p) ttl)
    | (s1, none) =>
      match p.root with
      | .name k _ =>
        match afind s1.store k with
        | none => (s1, .none)
        | some rec =>
          let ttl := max 0 rec.ttl                       -- calculateBestTTL
          (cacheSet s1 key rec.value ttl, .ok (joinPaths rec.value p) (capTTL s1 ttl))
      | .dns d =>
        match afind s1.dns d with
        | none => (s1, .err .dnserr)
        | some (v, ttl) => (cacheSet s1 key v ttl, .ok (joinPaths v p) (capTTL s1 ttl))
      | .junk _ => (s1, .err .cannot)
      | .cid _ => (s1, .ok p 0)   -- unreachable: immutable

inductive Res where
  | ok (p : Path) (ttl : Int)
  | recursion (p : Path)        -- ErrResolveRecursion, with the mutable path reached
  | failed                      -- ErrResolveFailed: no result at all
  | err (e : Err)
  deriving DecidableEq, Repr

/-- `resolveAsync` drained / `resolve`. `depth` as in ResolveOptions.Depth (0 = unlimited);
`fuel` bounds the recursion of the model (`depth` suffices when `depth ≥ 1`). -/
def resolve : Nat → St → Path → Nat → St × Res
  | 0, s, _, _ => (s, .failed)
  | fuel + 1, s, p, depth =>
    match resolveOnce s p with
    | (s1, .none) => (s1, .failed)
    | (s1, .err e) => (s1, .err e)
    | (s1, .ok q t) =>
      if !q.mutable then (s1, .ok q t)
      else if depth == 1 then (s1, .recursion q)
      else
        match resolve fuel s1 q (if depth > 1 then depth - 1 else depth) with
        | (s2, .ok q' t') => (s2, .ok q' (minNonZeroTTL t t'))
        | r => r

/-- operations of a history -/
inductive Op where
  | publish (k : Nat) (value : Path) (ttl : Option Int) (seq : Option Nat)
  | put (k : Nat) (value : Path) (ttl : Int) (seq : Nat)      -- somebody else writes the routing store
  | setDns (d : Nat) (e : Option (Path × Int))
  | failPut
  | resolve (p : Path) (depth : Nat)                           -- depth ≥ 1
  deriving Repr

def tick (s : St) : St := { s with now := s.now + 1 }

def step (s0 : St) (op : Op) : St :=
  let s := tick s0
  match op with
  | .publish k v t q => (publish s k v t q).1
  | .put k v t q => { s with store := aput s.store k { value := v, seq := q, ttl := max 0 t } }
  | .setDns d (some e) => { s with dns := aput s.dns d e }
  | .setDns d none => { s with dns := adel s.dns d }
  | .failPut => { s with failPut := true }
  | .resolve p d => (resolve d s p d).1


/-! ## Concurrent publishes: small-step system

`namesys.Publish` = `IPNSPublisher.updateRecord` (takes `p.mu`, reads the current record with
`GetPublished`, computes the sequence, writes the datastore, releases `p.mu`), then the routing put
(`PublishIPNSRecord`), then the cache update — the last two OUTSIDE the lock. The steps of one
publish, and a system of several publishes whose steps interleave arbitrarily. -/

structure Req where
  k : Nat
  value : Path
  ttl : Option Int := none
  seq : Option Nat := none
  deriving Repr

/-- the part of `updateRecord` after the read: sequence rule, NewRecord, datastore Put. `cur` is the
record read earlier. A rejected request (ErrInvalidSequence) makes `namesys.Publish` invalidate. -/
def pubWrite (s : St) (cur : Option Rec) (r : Req) : St × Option Rec :=
  match nextSeq cur r.value r.seq with
  | none => (cacheInvalidate s (Root.name r.k 0), none)
  | some n =>
    let rec' : Rec := { value := r.value, seq := n, ttl := max 0 (r.ttl.getD defaultRecordTTL) }
    ({ s with dstore := aput s.dstore r.k rec' }, some rec')

/-- routing put. `validating` = the store keeps the record with the higher sequence number (what a
validating store / the DHT does); `false` = plain overwrite. -/
def routePut (validating : Bool) (store : List (Nat × Rec)) (k : Nat) (rec : Rec) : List (Nat × Rec) :=
  if validating then
    match afind store k with
    | some old => if rec.seq < old.seq then store else aput store k rec
    | none => aput store k rec
  else aput store k rec

def pubRoute (validating : Bool) (s : St) (k : Nat) (rec : Rec) : St × PubRes :=
  if s.failPut then ({ s with failPut := false }, .puterr)
  else ({ s with store := routePut validating s.store k rec }, .ok)

/-- the tail of `namesys.Publish`: cache fill on success, invalidation on error -/
def pubFinish (s : St) (r : Req) (res : PubRes) : St :=
  let key := Root.name r.k 0
  match res with
  | .ok =>
    let optTTL := r.ttl.getD defaultRecordTTL
    let ttl := if optTTL ≥ 0 then optTTL else defaultResolverCacheTTL
    if ttl ≤ 0 then cacheInvalidate s key else cacheSet s key r.value ttl
  | _ => cacheInvalidate s key

inductive PC where
  | start                       -- before p.mu.Lock()
  | locked                      -- holds p.mu, has read GetPublished (the value is kept with the lock)
  | recorded (rec : Rec)        -- updateRecord returned, lock released
  | routed (res : PubRes)       -- PutValue returned
  | done (res : PubRes)
  deriving Repr

structure Conc where
  st : St
  lock : Option (Nat × Option Rec) := none   -- holder of p.mu and the record it read
  pcs : List (Req × PC)

/-- one atomic action of thread `i` (a blocked or finished thread does nothing) -/
def stepAt (validating : Bool) (c : Conc) (i : Nat) : Conc :=
  match c.pcs[i]? with
  | none => c
  | some (r, pc) =>
    match pc with
    | .start =>
      match c.lock with
      | some _ => c
      | none => { c with lock := some (i, getPublished c.st r.k), pcs := c.pcs.set i (r, .locked) }
    | .locked =>
      match c.lock with
      | some (j, cur) =>
        if j == i then
          match pubWrite c.st cur r with
          | (s1, none) => { st := s1, lock := none, pcs := c.pcs.set i (r, .done .badseq) }
          | (s1, some rec) => { st := s1, lock := none, pcs := c.pcs.set i (r, .recorded rec) }
        else c
      | none => c
    | .recorded rec =>
      match pubRoute validating c.st r.k rec with
      | (s1, res) => { c with st := s1, pcs := c.pcs.set i (r, .routed res) }
    | .routed res => { c with st := pubFinish c.st r res, pcs := c.pcs.set i (r, .done res) }
    | .done _ => c

def runSched (validating : Bool) (c : Conc) (sched : List Nat) : Conc := sched.foldl (stepAt validating) c

def initConc (s : St) (reqs : List Req) : Conc := { st := s, pcs := reqs.map fun r => (r, PC.start) }

end C29
