import BoxoModel.C20.Defs
/-! C20 — kernel-evaluated discipline checks over the regenerated fact table (split over files so that they build in parallel). -/
namespace C20
open LockFacts

/-- guarded-field rule: from every exported function / method (unexported helpers are reached from them with their
callers' locks), every access to `Directory.entriesCache`, `Directory.unixfsDir`, `File.node`, `fileDescriptor.state`,
`fileDescriptor.mod` happens with the guarding lock of the same object held (write mode for stores), except the
accesses listed in `Gen.C20.allowUnguarded` (existing unguarded reads, see docs/notes/C20.md) -/
theorem guarded_access :
    Gen.C20.exportedFuncs.all (fun i => checkFrom Gen.C20.tableAcc fuel (entryOf i) i) = true := by
  decide +kernel

end C20
