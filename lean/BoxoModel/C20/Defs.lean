import BoxoModel.Gen.C20
/-! C20 — configuration of the lock-discipline check (readable rank assignment, entry contracts). -/
namespace C20
open LockFacts

/-- rank classes: File.desclock (0) < fileDescriptor.mu (1) < Directory.lock at depth d (2, d) < File.nodeLock (3) -/
def cfg : Config where
  kindOf := fun s => if s == "Directory" then .dir else if s == "File" then .file else if s == "fileDescriptor" then .fd
                     else if s == "Root" then .root else .other
  classRank := fun s =>
    if s == "File.desclock" then some (0, .file) else if s == "fileDescriptor.mu" then some (1, .fd)
    else if s == "Directory.lock" then some (2, .dir) else if s == "File.nodeLock" then some (3, .file) else none
  keeps := ["File.Open"]
  gives := ["fileDescriptor.Close"]
  mustGive := ["File.Flush"]

/-- locks held when a function is entered: descriptor methods are called on an open descriptor, which holds
its File's desclock since `File.Open` -/
def entryOf (i : Nat) : List Lock := if Gen.C20.funcKinds.getD i .other == .fd then [(0, 0)] else []

def nFuncs : Nat := Gen.C20.mfsLockFacts.length

/-- functions that take a descriptor lock themselves: they must not be called by a goroutine that already
holds a descriptor (of any file) -/
def opensDescriptor : List String := ["File.Flush", "File.Open", "File.Sync", "FlushPath"]

def fuel : Nat := 200

/-- the facts the extractor produced for the unrepaired `File.Mode` (re-entrant RLock through GetNode):
function 0 = File.Mode, function 1 = File.GetNode; lock class 0 = File.nodeLock -/
def buggyTable : Tbl :=
  ⟨[[.acq 0 (some []) false, .deferRel 0 (some []) false, .call 1 (some []), .retOk],
    [.acq 0 (some []) false, .deferRel 0 (some []) false, .retOk]],
   [.file, .file], [some (3, .file)], [], [], [], false, []⟩

end C20
