import BoxoModel.C20.Model
import BoxoModel.C20.Disc1
import BoxoModel.C20.Disc2
import BoxoModel.C20.Disc3
import BoxoModel.Lib.LockOrder
/-!
C20 — helper lemmas: the inductive invariant `VInv` of the step model. (The configuration of the lock-discipline
check is in `Defs.lean`, its kernel-evaluated instances in `Disc1..3.lean`.)
-/
namespace C20
open LockFacts

/-! ### invariant of the step model (every interleaving of `Step`) -/

def postNodeSet : Option Stage → Bool
  | some (.nodeSet ..) => true
  | some (.subDone ..) => true
  | some (.rootDone ..) => true
  | some (.finish ..) => true
  | _ => false

structure VInv (s : St) : Prop where
  w1 : ∀ w fd, (s.ws w).fd = some fd → fd.write = true → s.descW fd.file = true
  r1 : ∀ w fd, (s.ws w).fd = some fd → fd.write = false → w ∈ s.descR fd.file
  r2 : ∀ f w, w ∈ s.descR f → ∃ fd, (s.ws w).fd = some fd ∧ fd.file = f ∧ fd.write = false
  x : ∀ w1 w2 a b, w1 ≠ w2 → (s.ws w1).fd = some a → (s.ws w2).fd = some b → a.file = b.file →
        a.write = false ∧ b.write = false
  wr : ∀ f, s.descW f = true → s.descR f = []
  st : ∀ w, (s.ws w).fd = none → (s.ws w).stage = none
  d : ∀ w fd, (s.ws w).fd = some fd → fd.write = false → fd.st ≠ .dirty
  b : ∀ w fd, (s.ws w).fd = some fd →
        (fd.st = .dirty ∧ postNodeSet (s.ws w).stage = false) ∨ fd.buf = s.fnode fd.file
  a : ∀ f, s.fnode f = s.acked f ∨
        ∃ w fd, (s.ws w).fd = some fd ∧ fd.file = f ∧ postNodeSet (s.ws w).stage = true

theorem vinv_init (sub : Nat → Bool) : VInv { sub := sub } := by
  constructor <;> simp

theorem vinv_rootGet {s : St} (h : VInv s) : VInv (rootGetNode s) := by
  obtain ⟨a, b, c, d, e, f, g, i, j⟩ := h
  exact ⟨a, b, c, d, e, f, g, i, j⟩

theorem vinv_list {s : St} (h : VInv s) : VInv (listRoot s) := by
  obtain ⟨a, b, c, d, e, f, g, i, j⟩ := h
  exact ⟨a, b, c, d, e, f, g, i, j⟩

theorem vinv_write {s : St} {w v : Nat} {fd : Fd} (h : VInv s) (hfd : (s.ws w).fd = some fd) (hw : fd.write = true)
    (hst : (s.ws w).stage = none) : VInv (writeFd s w v) := by
  simp only [writeFd, hfd, setWorker]
  obtain ⟨h1, h2, h3, h4, h5, h6, h7, h8, h9⟩ := h
  constructor
  all_goals simp only [upd]
  · grind
  · grind
  · intro f w' hw'
    obtain ⟨fd', a, b, c⟩ := h3 f w' hw'
    by_cases hww : w' = w
    · subst hww; simp_all
    · exact ⟨fd', by simp [hww, a], b, c⟩
  · grind
  · grind
  · grind
  · grind
  · intro w' fd' hh
    by_cases hww : w' = w
    · subst hww; simp at hh; subst hh; simp [hst, postNodeSet]
    · simp [hww] at hh ⊢; exact h8 w' fd' hh
  · intro f
    rcases h9 f with h | ⟨w', fd', a, b, c⟩
    · exact Or.inl h
    · right
      by_cases hww : w' = w
      · subst hww; simp [hst, postNodeSet] at c
      · exact ⟨w', fd', by simp [hww, a], b, by simp [hww, c]⟩

theorem vinv_begin {s : St} {w : Nat} {closing : Bool} {fd : Fd} (h : VInv s) (hfd : (s.ws w).fd = some fd)
    (hst : (s.ws w).stage = none) : VInv (beginFlush s w closing) := by
  simp only [beginFlush, hfd, setWorker]
  obtain ⟨h1, h2, h3, h4, h5, h6, h7, h8, h9⟩ := h
  constructor
  all_goals simp only [upd]
  · grind
  · grind
  · intro f w' hw'
    obtain ⟨fd', a, b, c⟩ := h3 f w' hw'
    by_cases hww : w' = w
    · subst hww
      have : fd = fd' := by rw [hfd] at a; exact Option.some.inj a
      subst this
      exact ⟨fd, by simp [hfd], b, c⟩
    · exact ⟨fd', by simp [hww, a], b, c⟩
  · grind
  · grind
  · grind
  · grind
  · intro w' fd' hh
    by_cases hww : w' = w
    · subst hww; simp at hh; simp [postNodeSet]
      have := h8 w' fd' (by simp [hfd, hh]); simp [hst, postNodeSet] at this; exact this
    · simp [hww] at hh ⊢; exact h8 w' fd' hh
  · intro f
    rcases h9 f with h | ⟨w', fd', a, b, c⟩
    · exact Or.inl h
    · right
      by_cases hww : w' = w
      · subst hww; simp [hst, postNodeSet] at c
      · exact ⟨w', fd', by simp [hww, a], b, by simp [hww, c]⟩

theorem vinv_open {s : St} {w f : Nat} {write sync : Bool} (h : VInv s) (hfd : (s.ws w).fd = none)
    (hst : (s.ws w).stage = none) (hc : canOpen s f write = true) : VInv (openFd s w f write sync) := by
  obtain ⟨h1, h2, h3, h4, h5, h6, h7, h8, h9⟩ := h
  simp only [canOpen, Bool.and_eq_true, Bool.not_eq_true', Bool.or_eq_true, List.isEmpty_iff] at hc
  obtain ⟨hcw, hcr⟩ := hc
  have hnotin : ∀ g, w ∉ s.descR g := by
    intro g hg
    obtain ⟨fd', a, _, _⟩ := h3 g w hg
    simp [hfd] at a
  cases write with
  | true =>
    have hr : s.descR f = [] := by simpa using hcr
    simp only [openFd, setWorker, ↓reduceIte]
    constructor
    all_goals simp only [upd]
    · grind
    · grind
    · intro g w' hw'
      obtain ⟨fd', a, b, c⟩ := h3 g w' hw'
      by_cases hww : w' = w
      · subst hww; simp [hfd] at a
      · exact ⟨fd', by simp [hww, a], b, c⟩
    · intro w1 w2 a b hne ha hb hab
      by_cases e1 : w1 = w <;> by_cases e2 : w2 = w
      · omega
      · subst e1; simp [e2] at ha hb; subst ha
        simp at hab
        cases hbw : b.write with
        | true => have := h1 w2 b hb hbw; rw [← hab] at this; simp [hcw] at this
        | false => have := h2 w2 b hb hbw; rw [← hab, hr] at this; simp at this
      · subst e2; simp [e1] at ha hb; subst hb
        simp at hab
        cases haw : a.write with
        | true => have := h1 w1 a ha haw; rw [hab] at this; simp [hcw] at this
        | false => have := h2 w1 a ha haw; rw [hab, hr] at this; simp at this
      · simp [e1, e2] at ha hb; exact h4 w1 w2 a b hne ha hb hab
    · grind
    · grind
    · grind
    · intro w' fd' hh
      by_cases hww : w' = w
      · subst hww; simp at hh; subst hh; simp
      · simp [hww] at hh ⊢; exact h8 w' fd' hh
    · intro g
      rcases h9 g with h | ⟨w', fd', a, b, c⟩
      · exact Or.inl h
      · right
        by_cases hww : w' = w
        · subst hww; simp [hfd] at a
        · exact ⟨w', fd', by simp [hww, a], b, by simp [hww, c]⟩
  | false =>
    simp only [openFd, setWorker, Bool.false_eq_true, ↓reduceIte]
    constructor
    all_goals simp only [upd]
    · grind
    · intro w' fd' hh hw
      by_cases hww : w' = w
      · subst hww; simp at hh; subst hh; simp
      · simp only [hww, ite_false] at hh
        have := h2 w' fd' hh hw
        by_cases hf : fd'.file = f
        · simp [hf]; right; rw [← hf]; exact this
        · simp [hf]; exact this
    · intro g w' hw'
      by_cases hg : g = f
      · subst hg
        simp at hw'
        rcases hw' with rfl | hw'
        · exact ⟨{ file := g, write := false, sync := sync, buf := s.fnode g, st := .created }, by simp, rfl, rfl⟩
        · obtain ⟨fd', a, b, c⟩ := h3 g w' hw'
          by_cases hww : w' = w
          · subst hww; simp [hfd] at a
          · exact ⟨fd', by simp [hww, a], b, c⟩
      · simp [hg] at hw'
        obtain ⟨fd', a, b, c⟩ := h3 g w' hw'
        by_cases hww : w' = w
        · subst hww; simp [hfd] at a
        · exact ⟨fd', by simp [hww, a], b, c⟩
    · intro w1 w2 a b hne ha hb hab
      by_cases e1 : w1 = w <;> by_cases e2 : w2 = w
      · omega
      · subst e1; simp [e2] at ha hb; subst ha
        simp at hab ⊢
        cases hbw : b.write with
        | true => have := h1 w2 b hb hbw; rw [← hab] at this; simp [hcw] at this
        | false => rfl
      · subst e2; simp [e1] at ha hb; subst hb
        simp at hab ⊢
        cases haw : a.write with
        | true => have := h1 w1 a ha haw; rw [hab] at this; simp [hcw] at this
        | false => rfl
      · simp [e1, e2] at ha hb; exact h4 w1 w2 a b hne ha hb hab
    · intro g hg
      by_cases hgf : g = f
      · subst hgf; simp [hcw] at hg
      · simp [hgf]; exact h5 g hg
    · grind
    · grind
    · intro w' fd' hh
      by_cases hww : w' = w
      · subst hww; simp at hh; subst hh; simp
      · simp [hww] at hh ⊢; exact h8 w' fd' hh
    · intro g
      rcases h9 g with h | ⟨w', fd', a, b, c⟩
      · exact Or.inl h
      · right
        by_cases hww : w' = w
        · subst hww; simp [hfd] at a
        · exact ⟨w', fd', by simp [hww, a], b, by simp [hww, c]⟩

theorem vinv_chmod {s : St} {f m : Nat} (h : VInv s) : VInv (chmod s f m) := by
  obtain ⟨h1, h2, h3, h4, h5, h6, h7, h8, h9⟩ := h
  simp only [chmod, localSub, localRootDir, localRootFile]
  split <;> exact ⟨h1, h2, h3, h4, h5, h6, h7, h8, h9⟩

/-- steps of `micro` that keep `fnode`, `acked`, the descriptor table and the lock state, and move worker `w`
from a stage to a stage that is `postNodeSet` -/
theorem vinv_links {s : St} {w : Nat} (h : VInv s) (fd : Fd) (hfd : (s.ws w).fd = some fd)
    (stg : Stage) (hpost : postNodeSet (some stg) = true)
    (hb : fd.buf = s.fnode fd.file)
    (ls lr : View) (pub : Option View) (lf : View) :
    VInv (setWorker { s with linkSub := ls, linkRoot := lr, pub := pub, lastFull := lf } w { (s.ws w) with stage := some stg }) := by
  obtain ⟨h1, h2, h3, h4, h5, h6, h7, h8, h9⟩ := h
  simp only [setWorker]
  constructor
  all_goals simp only [upd]
  · grind
  · grind
  · intro f w' hw'
    obtain ⟨fd', a, b, c⟩ := h3 f w' hw'
    by_cases hww : w' = w
    · subst hww
      have : fd = fd' := by rw [hfd] at a; exact Option.some.inj a
      subst this
      exact ⟨fd, by simp [hfd], b, c⟩
    · exact ⟨fd', by simp [hww, a], b, c⟩
  · grind
  · grind
  · grind
  · grind
  · intro w' fd' hh
    by_cases hww : w' = w
    · subst hww; simp at hh
      have : fd = fd' := by rw [hfd] at hh; exact Option.some.inj hh
      subst this; right; exact hb
    · simp [hww] at hh ⊢; exact h8 w' fd' hh
  · intro f
    rcases h9 f with h | ⟨w', fd', a, b, c⟩
    · exact Or.inl h
    · right
      by_cases hww : w' = w
      · subst hww
        exact ⟨w', fd', by simp [a], b, by simpa using hpost⟩
      · exact ⟨w', fd', by simp [hww, a], b, by simp [hww, c]⟩

theorem vinv_nodeSet {s : St} {w : Nat} (h : VInv s) (fd : Fd) (hfd : (s.ws w).fd = some fd)
    (hpre : postNodeSet (s.ws w).stage = false) (full closing : Bool) :
    VInv (setWorker { s with fnode := upd s.fnode fd.file fd.buf } w { (s.ws w) with stage := some (.nodeSet full closing) }) := by
  obtain ⟨h1, h2, h3, h4, h5, h6, h7, h8, h9⟩ := h
  -- any other descriptor on the same file is a reader, like ours, and shows the same content
  have same : ∀ w' fd', w' ≠ w → (s.ws w').fd = some fd' → fd'.file = fd.file → fd.buf = s.fnode fd.file := by
    intro w' fd' hne hh hf
    have hx := h4 w' w fd' fd hne hh hfd hf
    rcases h8 w fd hfd with ⟨hd, _⟩ | hb
    · exact absurd hd (h7 w fd hfd hx.2)
    · exact hb
  simp only [setWorker]
  constructor
  all_goals simp only [upd]
  · grind
  · grind
  · intro f w' hw'
    obtain ⟨fd', a, b, c⟩ := h3 f w' hw'
    by_cases hww : w' = w
    · subst hww
      have : fd = fd' := by rw [hfd] at a; exact Option.some.inj a
      subst this
      exact ⟨fd, by simp [hfd], b, c⟩
    · exact ⟨fd', by simp [hww, a], b, c⟩
  · grind
  · grind
  · grind
  · grind
  · intro w' fd' hh
    by_cases hww : w' = w
    · subst hww; simp at hh
      have : fd = fd' := by rw [hfd] at hh; exact Option.some.inj hh
      subst this; right; simp
    · simp only [hww, ite_false] at hh ⊢
      by_cases hf : fd'.file = fd.file
      · have hs := same w' fd' hww hh hf
        rcases h8 w' fd' hh with h | h
        · exact Or.inl h
        · right; simp [hf]; rw [h, hf, ← hs]
      · simp [hf]; exact h8 w' fd' hh
  · intro f
    by_cases hf : f = fd.file
    · right; exact ⟨w, fd, by simp [hfd], hf.symm, by simp [postNodeSet]⟩
    · simp only [hf, ite_false]
      rcases h9 f with h | ⟨w', fd', a, b, c⟩
      · exact Or.inl h
      · right
        by_cases hww : w' = w
        · subst hww; rw [hpre] at c; simp at c
        · exact ⟨w', fd', by simp [hww, a], b, by simp [hww, c]⟩

theorem vinv_finish_keep {s : St} {w : Nat} (h : VInv s) (fd : Fd) (hfd : (s.ws w).fd = some fd)
    (hb : fd.buf = s.fnode fd.file) :
    VInv (setWorker { s with acked := upd s.acked fd.file (s.fnode fd.file) } w { fd := some { fd with st := .flushed }, stage := none }) := by
  obtain ⟨h1, h2, h3, h4, h5, h6, h7, h8, h9⟩ := h
  simp only [setWorker]
  constructor
  all_goals simp only [upd]
  · grind
  · grind
  · intro f w' hw'
    obtain ⟨fd', a, b, c⟩ := h3 f w' hw'
    by_cases hww : w' = w
    · subst hww
      have : fd = fd' := by rw [hfd] at a; exact Option.some.inj a
      subst this
      exact ⟨{ fd with st := .flushed }, by simp, b, c⟩
    · exact ⟨fd', by simp [hww, a], b, c⟩
  · grind
  · grind
  · grind
  · grind
  · intro w' fd' hh
    by_cases hww : w' = w
    · subst hww; simp at hh; subst hh; right; exact hb
    · simp [hww] at hh ⊢; exact h8 w' fd' hh
  · intro f
    by_cases hf : f = fd.file
    · left; simp [hf]
    · simp only [hf, ite_false]
      rcases h9 f with h | ⟨w', fd', a, b, c⟩
      · exact Or.inl h
      · right
        by_cases hww : w' = w
        · subst hww
          have : fd = fd' := by rw [hfd] at a; exact Option.some.inj a
          subst this; exact absurd b.symm hf
        · exact ⟨w', fd', by simp [hww, a], b, by simp [hww, c]⟩

theorem vinv_finish_close {s : St} {w : Nat} (h : VInv s) (fd : Fd) (hfd : (s.ws w).fd = some fd) :
    let s1 := { s with acked := upd s.acked fd.file (s.fnode fd.file) }
    let s2 := if fd.write then { s1 with descW := upd s1.descW fd.file false }
              else { s1 with descR := upd s1.descR fd.file ((s1.descR fd.file).filter (· != w)) }
    VInv (setWorker s2 w {}) := by
  obtain ⟨h1, h2, h3, h4, h5, h6, h7, h8, h9⟩ := h
  have hA : ∀ f, (if f = fd.file then s.fnode fd.file else s.acked f) = s.fnode f ∨
      ∃ w' fd', (if w' = w then ({} : Worker) else s.ws w').fd = some fd' ∧ fd'.file = f ∧
        postNodeSet (if w' = w then ({} : Worker) else s.ws w').stage = true := by
    intro f
    by_cases hf : f = fd.file
    · left; simp [hf]
    · simp only [hf, ite_false]
      rcases h9 f with h | ⟨w', fd', a, b, c⟩
      · exact Or.inl h.symm
      · right
        by_cases hww : w' = w
        · subst hww
          have : fd = fd' := by rw [hfd] at a; exact Option.some.inj a
          subst this; exact absurd b.symm hf
        · exact ⟨w', fd', by simp [hww, a], b, by simp [hww, c]⟩
  cases hw : fd.write with
  | true =>
    simp only [setWorker, ↓reduceIte]
    constructor
    all_goals simp only [upd]
    · intro w' fd' hh hfw
      by_cases hww : w' = w
      · subst hww; simp at hh
      · simp only [hww, ite_false] at hh
        have hne : fd'.file ≠ fd.file := by
          intro hf
          have := (h4 w' w fd' fd hww hh hfd hf).2
          simp [hw] at this
        simp [hne]; exact h1 w' fd' hh hfw
    · grind
    · intro f w' hw'
      obtain ⟨fd', a, b, c⟩ := h3 f w' hw'
      by_cases hww : w' = w
      · subst hww
        have : fd = fd' := by rw [hfd] at a; exact Option.some.inj a
        subst this; simp [hw] at c
      · exact ⟨fd', by simp [hww, a], b, c⟩
    · grind
    · grind
    · grind
    · grind
    · grind
    · intro f
      rcases hA f with h | h
      · exact Or.inl h.symm
      · exact Or.inr h
  | false =>
    simp only [setWorker, Bool.false_eq_true, ↓reduceIte]
    constructor
    all_goals simp only [upd]
    · grind
    · intro w' fd' hh hfw
      by_cases hww : w' = w
      · subst hww; simp at hh
      · simp only [hww, ite_false] at hh
        have := h2 w' fd' hh hfw
        by_cases hf : fd'.file = fd.file
        · simp [hf]; rw [← hf]; exact ⟨this, hww⟩
        · simp [hf]; exact this
    · intro f w' hw'
      have hmem : w' ∈ s.descR f ∧ (f = fd.file → w' ≠ w) := by
        by_cases hf : f = fd.file
        · subst hf; simp at hw'; exact ⟨hw'.1, fun _ => hw'.2⟩
        · simp [hf] at hw'; exact ⟨hw', fun h => absurd h hf⟩
      obtain ⟨fd', a, b, c⟩ := h3 f w' hmem.1
      by_cases hww : w' = w
      · subst hww
        have : fd = fd' := by rw [hfd] at a; exact Option.some.inj a
        subst this; exact absurd rfl (hmem.2 b.symm)
      · exact ⟨fd', by simp [hww, a], b, c⟩
    · grind
    · intro f hf'
      have := h5 f hf'
      by_cases hf : f = fd.file
      · simp [hf]; rw [hf] at this; simp [this]
      · simp [hf]; exact this
    · grind
    · grind
    · grind
    · intro f
      rcases hA f with h | h
      · exact Or.inl h.symm
      · exact Or.inr h

theorem vinv_micro {s s' : St} {w : Nat} (h : VInv s) (hm : micro s w = some s') : VInv s' := by
  unfold micro at hm
  dsimp only at hm
  split at hm
  · -- start
    rename_i full closing fd hst hfd
    split at hm
    · simp at hm; subst hm
      have hb : fd.buf = s.fnode fd.file := by
        rcases h.b w fd hfd with ⟨hd, _⟩ | hb
        · simp_all
        · exact hb
      have := vinv_links h fd hfd (.finish closing) rfl hb s.linkSub s.linkRoot s.pub s.lastFull
      simpa using this
    · simp at hm; subst hm
      exact vinv_nodeSet h fd hfd (by simp [hst, postNodeSet]) full closing
  · -- nodeSet
    rename_i full closing fd hst hfd
    have hb : fd.buf = s.fnode fd.file := by
      rcases h.b w fd hfd with ⟨_, hp⟩ | hb
      · simp [hst, postNodeSet] at hp
      · exact hb
    split at hm
    · simp at hm; subst hm
      have := vinv_links h fd hfd (.finish closing) rfl hb s.linkSub s.linkRoot s.pub s.lastFull
      simpa using this
    · split at hm
      · simp [localSub] at hm; subst hm
        exact vinv_links h fd hfd _ rfl hb _ s.linkRoot s.pub s.lastFull
      · simp [localRootFile] at hm; subst hm
        exact vinv_links h fd hfd _ rfl hb s.linkSub _ s.pub s.lastFull
  · -- subDone
    rename_i snap closing fd hst hfd
    have hb : fd.buf = s.fnode fd.file := by
      rcases h.b w fd hfd with ⟨_, hp⟩ | hb
      · simp [hst, postNodeSet] at hp
      · exact hb
    simp [localRootDir] at hm; subst hm
    exact vinv_links h fd hfd _ rfl hb s.linkSub _ s.pub s.lastFull
  · -- rootDone
    rename_i snap closing fd hst hfd
    have hb : fd.buf = s.fnode fd.file := by
      rcases h.b w fd hfd with ⟨_, hp⟩ | hb
      · simp [hst, postNodeSet] at hp
      · exact hb
    simp at hm; subst hm
    exact vinv_links h fd hfd _ rfl hb s.linkSub s.linkRoot _ _
  · -- finish
    rename_i closing fd hst hfd
    have hb : fd.buf = s.fnode fd.file := by
      rcases h.b w fd hfd with ⟨_, hp⟩ | hb
      · simp [hst, postNodeSet] at hp
      · exact hb
    split at hm
    · simp at hm; subst hm
      exact vinv_finish_close h fd hfd
    · simp at hm; subst hm
      exact vinv_finish_keep h fd hfd hb
  · simp at hm

theorem vinv_step {s s' : St} (h : VInv s) (hs : Step s s') : VInv s' := by
  cases hs with
  | openFd w f write sync h1 h2 h3 => exact vinv_open h h1 h2 h3
  | write w v fd h1 h2 h3 => exact vinv_write h h1 h2 h3
  | begin w closing fd h1 h2 => exact vinv_begin h h1 h2
  | micro _ _ hm => exact vinv_micro h hm
  | rootGet => exact vinv_rootGet h
  | list => exact vinv_list h
  | chmod f m _ => exact vinv_chmod h

theorem vinv_reach {sub : Nat → Bool} {s : St} (h : Reach sub s) : VInv s := by
  induction h with
  | init => exact vinv_init sub
  | step _ hs ih => exact vinv_step ih hs

end C20
