import BoxoModel.C20.Defs
/-! C20 — kernel-evaluated discipline checks over the regenerated fact table (split over files so that they build in parallel). -/
namespace C20
open LockFacts

theorem discipline_holding_descriptor :
    (List.range nFuncs).all (fun i =>
      opensDescriptor.contains (Gen.C20.funcNames.getD i "") || checkFrom Gen.C20.table fuel ((0, 0) :: entryOf i) i) = true := by
  decide +kernel

end C20
