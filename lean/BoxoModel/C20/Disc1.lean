import BoxoModel.C20.Defs
/-! C20 — kernel-evaluated discipline checks over the regenerated fact table (split over files so that they build in parallel). -/
namespace C20
open LockFacts

theorem tables_agree :
    let t := compile cfg Gen.C20.mfsLockFacts Gen.C20.funcRecv Gen.C20.funcNames Gen.C20.lockClasses
    t.kinds = Gen.C20.funcKinds ∧ t.ranks = Gen.C20.classRanks ∧ t.keeps = Gen.C20.keeps ∧ t.gives = Gen.C20.gives ∧
    t.mustGive = Gen.C20.mustGive := by
  decide +kernel

theorem discipline_all :
    (List.range nFuncs).all (fun i => checkFrom Gen.C20.table fuel (entryOf i) i) = true := by
  decide +kernel

end C20
