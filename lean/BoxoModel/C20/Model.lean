/-!
C20 — executable step model of MFS write / flush / propagation (mfs/file.go, fd.go, dir.go, root.go) for a
two-level tree: files that live in the root directory and files that live in one sub-directory `/d`.

State per file: `fnode` (File.node: the content token the File object points at), `fmode`.
Directories are modelled by what their UnixFS link tables show for every file below them ("views",
`Nat → Nat`): `linkSub` = links of `/d`, `linkRoot` = what the root directory's link chain shows (through its
link to `/d` for sub files, through its own links for root files). `pub` = the last node handed to
`Root.updateChildEntry` (the value given to the republisher), as a view.
Descriptors: one per worker; `buf` is the DagModifier's content, `st` the descriptor state of fd.go.

`flushUp` is split at the points where the Go code holds no directory lock (the schedule points of the verif
hooks): after `fi.inode.node = nd` (`Stage.nodeSet`), after each `Directory.localUpdate` (`Stage.subDone`,
`Stage.rootDone`), and the final `Root.updateChildEntry` (publish). `micro` advances one worker by one stage;
any interleaving of `micro` steps of different workers is a behaviour of the model.
Ghost state: `acked` (content of the last completed flushUp per file), `lastFull` (content of the last
completed flushUp that propagated).
Core-only.
-/
namespace C20

inductive FdSt where
  | created | dirty | flushed
  deriving DecidableEq, Repr

structure Fd where
  file : Nat
  write : Bool
  sync : Bool
  buf : Nat
  st : FdSt
  deriving Repr

abbrev View := Nat → Nat

/-- where a worker's in-flight flushUp stands -/
inductive Stage where
  | start (full closing : Bool)                      -- Flush()/Close() entered, flushUp not yet run
  | nodeSet (full closing : Bool)                    -- fi.inode.node = nd done
  | subDone (snap : View) (closing : Bool)           -- localUpdate of /d done, carrying d's new node
  | rootDone (snap : View) (closing : Bool)          -- localUpdate of the root directory done, carrying its new node
  | finish (closing : Bool)                          -- propagation done (or skipped), descriptor state to be updated

structure Worker where
  fd : Option Fd := none
  stage : Option Stage := none

structure St where
  sub : Nat → Bool                 -- static shape: does file f live in /d (else in /)
  fnode : View := fun _ => 0
  fmode : Nat → Nat := fun _ => 0
  linkSub : View := fun _ => 0
  linkRoot : View := fun _ => 0
  pub : Option View := none
  ws : Nat → Worker := fun _ => {}
  descW : Nat → Bool := fun _ => false      -- File.desclock held in write mode (an open write descriptor)
  descR : Nat → List Nat := fun _ => []     -- workers holding File.desclock in read mode (open read descriptors)
  acked : View := fun _ => 0       -- ghost
  lastFull : View := fun _ => 0    -- ghost

def upd {α : Type} (f : Nat → α) (i : Nat) (v : α) : Nat → α := fun j => if j = i then v else f j

/-- `Directory.localUpdate` of `/d` for child file `f` with node content `c`; returns the new state and d's new node -/
def localSub (s : St) (f c : Nat) : St × View :=
  let l := upd s.linkSub f c
  ({ s with linkSub := l }, l)

/-- `Directory.localUpdate` of the root directory for child `/d` carrying `snap` -/
def localRootDir (s : St) (snap : View) : St × View :=
  let l : View := fun g => if s.sub g then snap g else s.linkRoot g
  ({ s with linkRoot := l }, l)

/-- `Directory.localUpdate` of the root directory for a root-level file -/
def localRootFile (s : St) (f c : Nat) : St × View :=
  let l := upd s.linkRoot f c
  ({ s with linkRoot := l }, l)

def setWorker (s : St) (w : Nat) (x : Worker) : St := { s with ws := upd s.ws w x }

/-- one stage of worker `w`'s flushUp; `none` if the worker has nothing in flight -/
def micro (s : St) (w : Nat) : Option St :=
  let wk := s.ws w
  match wk.stage, wk.fd with
  | some (.start full closing), some fd =>
    if fd.st == .flushed then some (setWorker s w { wk with stage := some (.finish closing) })
    else
      -- nd = mod.GetNode(); dagService.Add; fi.inode.node = nd
      some (setWorker { s with fnode := upd s.fnode fd.file fd.buf } w { wk with stage := some (.nodeSet full closing) })
  | some (.nodeSet full closing), some fd =>
    if !full then some (setWorker s w { wk with stage := some (.finish closing) })
    else if s.sub fd.file then
      let (s1, snap) := localSub s fd.file fd.buf
      some (setWorker s1 w { wk with stage := some (.subDone snap closing) })
    else
      let (s1, snap) := localRootFile s fd.file fd.buf
      some (setWorker s1 w { wk with stage := some (.rootDone snap closing) })
  | some (.subDone snap closing), some _ =>
    let (s1, snap') := localRootDir s snap
    some (setWorker s1 w { wk with stage := some (.rootDone snap' closing) })
  | some (.rootDone snap closing), some fd =>
    -- Root.updateChildEntry: repub.Update(node)
    some (setWorker { s with pub := some snap, lastFull := upd s.lastFull fd.file fd.buf } w { wk with stage := some (.finish closing) })
  | some (.finish closing), some fd =>
    let s1 := { s with acked := upd s.acked fd.file (s.fnode fd.file) }
    if closing then
      -- Close gives File.desclock back (deferred Unlock / RUnlock)
      let s2 := if fd.write then { s1 with descW := upd s1.descW fd.file false }
                else { s1 with descR := upd s1.descR fd.file ((s1.descR fd.file).filter (· != w)) }
      some (setWorker s2 w {})
    else some (setWorker s1 w { fd := some { fd with st := .flushed }, stage := none })
  | _, _ => none

/-- the schedule point a worker is standing at (the hook names of the harness): n = nodeSet, l = localDone -/
def atPoint (s : St) (w : Nat) : Option String :=
  match (s.ws w).stage with
  | some (.nodeSet ..) => some "n"
  | some (.subDone ..) => some "l"
  | some (.rootDone ..) => some "l"
  | _ => none

/-- run worker `w` until it reaches schedule point `park` (after at least one step) or finishes -/
def runUntil (park : String) : Nat → St → Nat → St
  | 0, s, _ => s
  | fuel + 1, s, w =>
    match micro s w with
    | none => s
    | some s1 => if atPoint s1 w == some park then s1 else runUntil park fuel s1 w

/-! service-level operations (each is atomic in the Go code at this granularity) -/

def writerOf (s : St) (nw f : Nat) : Bool :=
  (List.range nw).any fun w => match (s.ws w).fd with | some fd => fd.file == f && fd.write | none => false
def readersOf (s : St) (nw f : Nat) : Bool :=
  (List.range nw).any fun w => match (s.ws w).fd with | some fd => fd.file == f && !fd.write | none => false
def anyFd (s : St) (nw : Nat) : Bool := (List.range nw).any fun w => (s.ws w).fd.isSome

/-- `File.Open`: the descriptor's DagModifier starts from the File's current node -/
def openFd (s : St) (w f : Nat) (write sync : Bool) : St :=
  let s := if write then { s with descW := upd s.descW f true } else { s with descR := upd s.descR f (w :: s.descR f) }
  setWorker s w { fd := some { file := f, write := write, sync := sync, buf := s.fnode f, st := .created } }

/-- `File.Open` does not block: desclock is free in the requested mode -/
def canOpen (s : St) (f : Nat) (write : Bool) : Bool :=
  !s.descW f && (!write || (s.descR f).isEmpty)

/-- Seek(0) + Write(token) -/
def writeFd (s : St) (w v : Nat) : St :=
  match (s.ws w).fd with
  | some fd => setWorker s w { (s.ws w) with fd := some { fd with buf := v, st := .dirty } }
  | none => s

/-- enter Flush() / Close() -/
def beginFlush (s : St) (w : Nat) (closing : Bool) : St :=
  match (s.ws w).fd with
  | some fd => setWorker s w { (s.ws w) with stage := some (.start (if closing then fd.sync else true) closing) }
  | none => s

/-- `Root.GetDirectory().GetNode()`: every directory re-adds the current node of each cached child
(`cacheSync`), so all link tables are brought up to the File objects' nodes; the returned node shows `fnode` -/
def rootGetNode (s : St) : St :=
  { s with linkSub := s.fnode, linkRoot := s.fnode }

/-- `Directory.List` / `ForEachEntry` of the root directory: it calls `GetNode()` on every entry, and for the entry
`/d` that is `Directory.getNode`, whose cache synchronisation brings /d's link table up to its File objects' nodes
(the root directory's own links are not touched) -/
def listRoot (s : St) : St :=
  { s with linkSub := s.fnode }

/-- `File.SetMode` when nothing else is going on: new node with the same content, full propagation, published -/
def chmod (s : St) (f m : Nat) : St :=
  let s := { s with fmode := upd s.fmode f m }
  if s.sub f then
    let (s1, snap) := localSub s f (s.fnode f)
    let (s2, snap') := localRootDir s1 snap
    { s2 with pub := some snap' }
  else
    let (s1, snap) := localRootFile s f (s.fnode f)
    { s1 with pub := some snap }


/-! ### the transition relation (every interleaving of these steps is a behaviour of the model) -/

inductive Step : St → St → Prop where
  | openFd (s : St) (w f : Nat) (write sync : Bool) :
      (s.ws w).fd = none → (s.ws w).stage = none → canOpen s f write = true → Step s (openFd s w f write sync)
  | write (s : St) (w v : Nat) (fd : Fd) :
      (s.ws w).fd = some fd → fd.write = true → (s.ws w).stage = none → Step s (writeFd s w v)
  | begin (s : St) (w : Nat) (closing : Bool) (fd : Fd) :
      (s.ws w).fd = some fd → (s.ws w).stage = none → Step s (beginFlush s w closing)
  | micro (s s' : St) (w : Nat) : micro s w = some s' → Step s s'
  | rootGet (s : St) : Step s (rootGetNode s)
  | list (s : St) : Step s (listRoot s)
  | chmod (s : St) (f m : Nat) : (∀ w, (s.ws w).fd = none) → Step s (chmod s f m)

inductive Reach (sub : Nat → Bool) : St → Prop where
  | init : Reach sub { sub := sub }
  | step {s s' : St} : Reach sub s → Step s s' → Reach sub s'

end C20
