import BoxoModel.C25.Model
/-! Helper lemmas for C25 (core only). -/
namespace C25

instance : DecidableEq (Except Err Unit) := fun a b =>
  match a, b with
  | .ok (), .ok () => isTrue rfl
  | .error e1, .error e2 => if h : e1 = e2 then isTrue (by rw [h]) else isFalse (by intro h'; cases h'; exact h rfl)
  | .ok (), .error _ => isFalse (by intro h; cases h)
  | .error _, .ok () => isFalse (by intro h; cases h)

/-- the legacy-field check runs only in this case -/
def legacyGuard (pb : Pb) : Prop := pb.sigV1 ≠ [] ∨ pb.value ≠ []

instance (pb : Pb) : Decidable (legacyGuard pb) := by unfold legacyGuard; exact inferInstance

/-- all five legacy fields agree with the CBOR map -/
def LegacyAgree (pb : Pb) (nd : Node) : Prop :=
  lookup nd "Value" = some (.bytes pb.value) ∧
  lookup nd "Validity" = some (.bytes pb.validity) ∧
  lookup nd "ValidityType" = some (.int pb.validityType) ∧
  (∃ i, lookup nd "Sequence" = some (.int i) ∧ pb.sequence = toU64 i) ∧
  (∃ i, lookup nd "TTL" = some (.int i) ∧ pb.ttl = toU64 i)

theorem cborMatchesPb_ok (decode : Bytes → Option Node) (pb : Pb) (h : cborMatchesPb decode pb = .ok ()) :
    ∃ nd, decode pb.data = some nd ∧ LegacyAgree pb nd := by
  unfold cborMatchesPb at h
  split at h
  · simp at h
  · split at h
    · simp at h
    · rename_i nd hnd
      refine ⟨nd, hnd, ?_⟩
      split at h
      · rename_i b1 h1
        split at h
        · simp at h
        · rename_i hv
          split at h
          · rename_i b2 h2
            split at h
            · simp at h
            · rename_i hvy
              split at h
              · rename_i i1 h3
                split at h
                · simp at h
                · rename_i hvt
                  split at h
                  · rename_i i2 h4
                    split at h
                    · simp at h
                    · rename_i hs
                      split at h
                      · rename_i i3 h5
                        split at h
                        · simp at h
                        · rename_i ht
                          simp only [bne_iff_ne, ne_eq, Decidable.not_not] at hv hvy hvt hs ht
                          exact ⟨by rw [h1, hv], by rw [h2, hvy], by rw [h3, hvt], ⟨i2, h4, hs⟩, ⟨i3, h5, ht⟩⟩
                      · simp at h
                  · simp at h
              · simp at h
          · simp at h
      · simp at h

theorem validate_ok (C : Crypto) (decode : Bytes → Option Node) (parseTime : Bytes → Option Int)
    (now : Int) (r : Record) (pk : Nat) (h : validate C decode parseTime now r pk = .ok ()) :
    r.pb.size ≤ maxRecordSize ∧ r.pb.sigV2 ≠ [] ∧ r.pb.data ≠ [] ∧
    C.verify pk (sigPrefix ++ r.pb.data) r.pb.sigV2 = true ∧
    (legacyGuard r.pb → cborMatchesPb decode r.pb = .ok ()) ∧
    (∃ eol, validity parseTime r = .ok eol ∧ now ≤ eol) ∧
    (∀ t, ttl r = .ok t → 0 ≤ t) := by
  unfold validate at h
  split at h
  · simp at h
  · rename_i hsz
    split at h
    · simp at h
    · rename_i hs2
      split at h
      · simp at h
      · rename_i hd
        split at h
        · simp at h
        · rename_i hver
          split at h
          · simp at h
          · rename_i hleg
            split at h
            · simp at h
            · rename_i eol heol
              split at h
              · simp at h
              · rename_i hexp
                refine ⟨by omega, ?_, ?_, by simpa using hver, ?_, ⟨eol, heol, by omega⟩, ?_⟩
                · intro e; simp [e] at hs2
                · intro e; simp [e] at hd
                · intro hg
                  have : (r.pb.sigV1.length != 0 || r.pb.value.length != 0) = true := by
                    rcases hg with hg | hg
                    · have : r.pb.sigV1.length ≠ 0 := by
                        intro e; exact hg (List.eq_nil_of_length_eq_zero e)
                      simp [this]
                    · have : r.pb.value.length ≠ 0 := by
                        intro e; exact hg (List.eq_nil_of_length_eq_zero e)
                      simp [this]
                  rw [this] at hleg
                  simpa using hleg
                · intro t ht
                  rw [ht] at h
                  simp only at h
                  split at h
                  · simp at h
                  · omega

end C25
