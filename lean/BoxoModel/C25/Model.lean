/-
C25 — ipns: executable model of record decoding, public-key extraction, validation and accessors.

Transcribed from /repo/ipns/record.go (UnmarshalRecord, Sequence/TTL/ValidityType/Validity/Value/PubKey,
getBytesValue/getIntValue, ExtractPublicKey) and /repo/ipns/validation.go (Validate, ValidateWithName,
validateCborDataMatchesPbData, Validator.Validate/getPublicKey), branch for branch.

Parameters (never modelled, never axioms — theorems take them as arbitrary functions, the driver gets
the observed values on the op line):
  * the signature scheme, key (de)serialisation and peer-ID derivation: `Crypto`
  * the DAG-CBOR decoder for the `data` field: `decode : Bytes → Option Node`
  * RFC3339 parsing of the validity bytes: `parseTime : Bytes → Option Int` (ns since epoch)
  * content-path parsing of the value bytes: `parsePath : Bytes → Option String`
  * protobuf decoding: a record arrives as its decoded field values `Pb` (with `proto.Size`)
  * the clock: `now`
Core-only (no Mathlib): this file is also imported by the line-protocol driver.
-/
namespace C25

abbrev Bytes := List Nat

/-- decoded protobuf message as the code reads it through `GetX()` (absent = zero value) -/
structure Pb where
  value : Bytes := []
  sigV1 : Bytes := []
  validityType : Int := 0       -- enum read as int32
  validity : Bytes := []
  sequence : Nat := 0           -- uint64
  ttl : Nat := 0                -- uint64
  pubKey : Bytes := []
  sigV2 : Bytes := []
  data : Bytes := []
  size : Nat := 0               -- proto.Size(pb)
  deriving DecidableEq, Repr

/-- scalar kinds of an IPLD node stored under a key of the CBOR map -/
inductive CVal where
  | bytes (b : Bytes)
  | int (i : Int)               -- int64 range
  | str (s : String)
  | bool (b : Bool)
  | other                       -- map / list / link / null / float
  deriving DecidableEq, Repr

abbrev Node := List (String × CVal)

structure Record where
  pb : Pb
  node : Node
  deriving DecidableEq, Repr

inductive Err where
  | size              -- ErrRecordSize
  | signature         -- ErrSignature
  | invalidRecord     -- errors.Is(err, ErrInvalidRecord)
  | mismatch          -- "field … did not match between protobuf and CBOR"
  | cbor              -- raw go-ipld-prime error out of validateCborDataMatchesPbData
  | unrecognizedValidity
  | invalidValidity
  | expired
  | keyMismatch       -- ErrPublicKeyMismatch
  | invalidKey        -- ErrInvalidPublicKey
  | keyNotFound       -- ErrPublicKeyNotFound (Validator without key book) / peer.ErrNoPublicKey (ValidateWithName)
  | invalidName       -- ErrInvalidName
  | invalidPath       -- ErrInvalidPath
  deriving DecidableEq, Repr

def maxRecordSize : Nat := 10240
/-- the bytes of "ipns-signature:" -/
def sigPrefix : Bytes := [105, 112, 110, 115, 45, 115, 105, 103, 110, 97, 116, 117, 114, 101, 58]

structure Crypto where
  verify : Nat → Bytes → Bytes → Bool     -- pk.Verify(data, sig) returned (true, nil)
  parseKey : Bytes → Option Nat           -- ic.UnmarshalPublicKey
  nameOf : Nat → Nat                      -- NameFromPeer(peer.IDFromPublicKey(pk))
  inlineKey : Nat → Option Nat            -- name.Peer().ExtractPublicKey()

def lookup (nd : Node) (k : String) : Option CVal := (nd.find? (·.1 == k)).map (·.2)

/-- `UnmarshalRecord`: `rawLen` = len(data), `pb` = result of proto.Unmarshal (`none` = error) -/
def unmarshal (decode : Bytes → Option Node) (rawLen : Nat) (pb : Option Pb) : Except Err Record :=
  if rawLen > maxRecordSize then .error .size
  else match pb with
    | none => .error .invalidRecord
    | some pb =>
      if pb.data.length == 0 then .error .invalidRecord
      else match decode pb.data with
        | none => .error .invalidRecord
        | some nd => .ok { pb := pb, node := nd }

/-- `getBytesValue` -/
def getBytes (r : Record) (k : String) : Except Err Bytes :=
  match lookup r.node k with
  | some (.bytes b) => .ok b
  | _ => .error .invalidRecord

/-- `getIntValue` -/
def getInt (r : Record) (k : String) : Except Err Int :=
  match lookup r.node k with
  | some (.int i) => .ok i
  | _ => .error .invalidRecord

def toU64 (i : Int) : Nat := (i % (2 ^ 64 : Int)).toNat

/-- `Sequence()` -/
def sequence (r : Record) : Except Err Nat := (getInt r "Sequence").map toU64
/-- `TTL()` (a time.Duration: int64 ns) -/
def ttl (r : Record) : Except Err Int := getInt r "TTL"
/-- `ValidityType()` -/
def validityType (r : Record) : Except Err Int := getInt r "ValidityType"

/-- `Validity()` -/
def validity (parseTime : Bytes → Option Int) (r : Record) : Except Err Int :=
  match validityType r with
  | .error e => .error e
  | .ok vt =>
    if vt == 0 then
      match getBytes r "Validity" with
      | .error e => .error e
      | .ok b =>
        match parseTime b with
        | none => .error .invalidValidity
        | some t => .ok t
    else .error .unrecognizedValidity

/-- `Value()`: `parsePath` covers the NoopValue substitution, path.NewPath and cid.Cast -/
def value (parsePath : Bytes → Option String) (r : Record) : Except Err String :=
  match getBytes r "Value" with
  | .error e => .error e
  | .ok b =>
    match parsePath b with
    | none => .error .invalidPath
    | some p => .ok p

/-- `validateCborDataMatchesPbData(pb)` (decodes `data` again) -/
def cborMatchesPb (decode : Bytes → Option Node) (pb : Pb) : Except Err Unit :=
  if pb.data.length == 0 then .error .cbor
  else match decode pb.data with
    | none => .error .cbor
    | some nd =>
      match lookup nd "Value" with
      | some (.bytes b) =>
        if pb.value != b then .error .mismatch
        else match lookup nd "Validity" with
          | some (.bytes b) =>
            if pb.validity != b then .error .mismatch
            else match lookup nd "ValidityType" with
              | some (.int i) =>
                if pb.validityType != i then .error .mismatch
                else match lookup nd "Sequence" with
                  | some (.int i) =>
                    if pb.sequence != toU64 i then .error .mismatch
                    else match lookup nd "TTL" with
                      | some (.int i) => if pb.ttl != toU64 i then .error .mismatch else .ok ()
                      | _ => .error .cbor
                  | _ => .error .cbor
              | _ => .error .cbor
          | _ => .error .cbor
      | _ => .error .cbor

/-- `Validate(rec, pk)` at time `now` -/
def validate (C : Crypto) (decode : Bytes → Option Node) (parseTime : Bytes → Option Int)
    (now : Int) (r : Record) (pk : Nat) : Except Err Unit :=
  if r.pb.size > maxRecordSize then .error .size
  else if r.pb.sigV2.length == 0 then .error .signature
  else if r.pb.data.length == 0 then .error .invalidRecord
  else if !C.verify pk (sigPrefix ++ r.pb.data) r.pb.sigV2 then .error .signature
  else
    match (if r.pb.sigV1.length != 0 || r.pb.value.length != 0 then cborMatchesPb decode r.pb else .ok ()) with
    | .error e => .error e
    | .ok () =>
      match validity parseTime r with
      | .error e => .error e
      | .ok eol =>
        if now > eol then .error .expired
        else match ttl r with
          | .ok t => if t < 0 then .error .invalidRecord else .ok ()
          | .error _ => .ok ()

/-- `ExtractPublicKey(rec, name)`; `noKey` = what a missing inline key is reported as -/
def extractKey (C : Crypto) (r : Record) (name : Nat) : Except Err Nat :=
  if r.pb.pubKey.length != 0 then
    match C.parseKey r.pb.pubKey with
    | none => .error .invalidKey
    | some pk => if C.nameOf pk != name then .error .keyMismatch else .ok pk
  else
    match C.inlineKey name with
    | none => .error .keyNotFound
    | some pk => .ok pk

/-- `ValidateWithName(rec, name)` -/
def validateWithName (C : Crypto) (decode : Bytes → Option Node) (parseTime : Bytes → Option Int)
    (now : Int) (r : Record) (name : Nat) : Except Err Unit :=
  match extractKey C r name with
  | .error e => .error e
  | .ok pk => validate C decode parseTime now r pk

/-- `Validator.getPublicKey`: only "the record and the name carry no key" (peer.ErrNoPublicKey) falls
through to the key book; every other extraction error is returned. `book = none` is a nil KeyBook. -/
def getPublicKey (C : Crypto) (book : Option (Nat → Option Nat)) (r : Record) (name : Nat) : Except Err Nat :=
  match extractKey C r name with
  | .ok pk => .ok pk
  | .error .keyNotFound =>
    match book with
    | none => .error .keyNotFound
    | some kb =>
      match kb name with
      | none => .error .keyNotFound
      | some pk => .ok pk
  | .error e => .error e

/-- `Validator{KeyBook: book}.Validate(key, value)`: `name` = NameFromRoutingKey(key) (`none` = error) -/
def validatorValidateKB (C : Crypto) (decode : Bytes → Option Node) (parseTime : Bytes → Option Int)
    (now : Int) (book : Option (Nat → Option Nat)) (name : Option Nat) (rawLen : Nat) (pb : Option Pb) :
    Except Err Unit :=
  match name with
  | none => .error .invalidName
  | some name =>
    match unmarshal decode rawLen pb with
    | .error e => .error e
    | .ok r =>
      match getPublicKey C book r name with
      | .error e => .error e
      | .ok pk => validate C decode parseTime now r pk

/-- `Validator{KeyBook: nil}.Validate(key, value)`: `name` = NameFromRoutingKey(key) (`none` = error) -/
def validatorValidate (C : Crypto) (decode : Bytes → Option Node) (parseTime : Bytes → Option Int)
    (now : Int) (name : Option Nat) (rawLen : Nat) (pb : Option Pb) : Except Err Unit :=
  match name with
  | none => .error .invalidName
  | some name =>
    match unmarshal decode rawLen pb with
    | .error e => .error e
    | .ok r => validateWithName C decode parseTime now r name

end C25
