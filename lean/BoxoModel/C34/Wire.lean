import BoxoModel.C34.Model
/-! Wire round trip of pb.Message for C34: `decodePMsg (encodePMsg p) = some p`. -/
namespace C34
open Varint Proto

/-! ### accessors over appended / mapped field lists -/

theorem allBytes_append (n : Nat) (a b : List Field) : allBytes n (a ++ b) = allBytes n a ++ allBytes n b := by
  induction a with
  | nil => rfl
  | cons f fs ih =>
    obtain ⟨k, v⟩ := f
    cases v <;> simp [allBytes, ih]
    split <;> simp

theorem lastBytes?_append (n : Nat) (a b : List Field) :
    lastBytes? n (a ++ b) = match lastBytes? n b with | some w => some w | none => lastBytes? n a := by
  induction a with
  | nil => cases h : lastBytes? n b <;> simp [h, lastBytes?]
  | cons f fs ih =>
    obtain ⟨k, v⟩ := f
    cases v <;> simp only [List.cons_append, lastBytes?, ih]
    cases lastBytes? n b <;> simp

theorem lastVarint?_append (n : Nat) (a b : List Field) :
    lastVarint? n (a ++ b) = match lastVarint? n b with | some w => some w | none => lastVarint? n a := by
  induction a with
  | nil => cases h : lastVarint? n b <;> simp [h, lastVarint?]
  | cons f fs ih =>
    obtain ⟨k, v⟩ := f
    cases v <;> simp only [List.cons_append, lastVarint?, ih]
    cases lastVarint? n b <;> simp

theorem allBytes_map_bytes {α : Type} (n k : Nat) (g : α → Bytes) (l : List α) :
    allBytes n (l.map (fun x => (⟨k, .bytes (g x)⟩ : Field))) = if k = n then l.map g else [] := by
  induction l with
  | nil => simp [allBytes]
  | cons a l ih =>
    simp only [List.map_cons, allBytes, ih]
    by_cases h : k = n <;> simp [h]

theorem lastVarint?_map_bytes {α : Type} (n k : Nat) (g : α → Bytes) (l : List α) :
    lastVarint? n (l.map (fun x => (⟨k, .bytes (g x)⟩ : Field))) = none := by
  induction l with
  | nil => rfl
  | cons a l ih => simp [lastVarint?, ih]

theorem lastBytes?_map_bytes_ne {α : Type} (n k : Nat) (h : k ≠ n) (g : α → Bytes) (l : List α) :
    lastBytes? n (l.map (fun x => (⟨k, .bytes (g x)⟩ : Field))) = none := by
  induction l with
  | nil => rfl
  | cons a l ih => simp [lastBytes?, ih, h]

/-! ### int32 on the wire -/

def isInt32 (x : Int) : Prop := -2 ^ 31 ≤ x ∧ x < 2 ^ 31

theorem intEnc_lt (x : Int) (h : isInt32 x) : intEnc x < 2 ^ 64 := by
  unfold intEnc isInt32 at *
  split <;> omega

theorem intDec32_intEnc (x : Int) (h : isInt32 x) : intDec32 (intEnc x) = x := by
  unfold intDec32 intEnc isInt32 at *
  by_cases hx : x ≥ 0
  · simp only [hx, ↓reduceIte]
    have : x.toNat % 2 ^ 32 = x.toNat := Nat.mod_eq_of_lt (by omega)
    rw [this]
    have : x.toNat < 2 ^ 31 := by omega
    simp only [this, ↓reduceIte]
    omega
  · simp only [hx, ↓reduceIte]
    have h1 : (2 ^ 64 + x).toNat = 2 ^ 64 - (-x).toNat := by omega
    have h2 : (2 ^ 64 + x).toNat % 2 ^ 32 = 2 ^ 32 - (-x).toNat := by
      rw [h1]
      have : (2:Nat) ^ 64 - (-x).toNat = (2 ^ 32 - (-x).toNat) + 2 ^ 32 * (2 ^ 32 - 1) := by omega
      rw [this, Nat.add_mul_mod_self_left]
      exact Nat.mod_eq_of_lt (by omega)
    rw [h2]
    have : ¬ (2 ^ 32 - (-x).toNat < 2 ^ 31) := by omega
    simp only [this, ↓reduceIte]
    omega


/-! ### one element -/

def valOK (f : Field) : Prop :=
  match f.val with
  | .varint v => v < 2 ^ 64
  | .fixed64 v => v < 2 ^ 64
  | .fixed32 v => v < 2 ^ 32
  | .bytes _ => True

def fieldOK (f : Field) : Prop := (1 ≤ f.num ∧ f.num < 2 ^ 29) ∧ valOK f

theorem ok_optBytes (n : Nat) (hn : 1 ≤ n ∧ n < 2 ^ 29) (b : Bytes) : ∀ f ∈ optBytes n b, fieldOK f := by
  intro f hf
  unfold optBytes at hf
  split at hf
  · cases hf
  · simp only [List.mem_singleton] at hf; subst hf; exact ⟨hn, trivial⟩

theorem ok_optVarint (n : Nat) (hn : 1 ≤ n ∧ n < 2 ^ 29) (x : Int) (hx : isInt32 x) : ∀ f ∈ optVarint n x, fieldOK f := by
  intro f hf
  unfold optVarint at hf
  split at hf
  · cases hf
  · simp only [List.mem_singleton] at hf; subst hf; exact ⟨hn, intEnc_lt x hx⟩

theorem ok_optBool (n : Nat) (hn : 1 ≤ n ∧ n < 2 ^ 29) (b : Bool) : ∀ f ∈ optBool n b, fieldOK f := by
  intro f hf
  unfold optBool at hf
  split at hf
  · simp only [List.mem_singleton] at hf; subst hf; exact ⟨hn, by simp [valOK, Field.vint]⟩
  · cases hf

theorem ok_append {a b : List Field} (ha : ∀ f ∈ a, fieldOK f) (hb : ∀ f ∈ b, fieldOK f) : ∀ f ∈ a ++ b, fieldOK f := by
  intro f hf
  rcases List.mem_append.mp hf with h | h
  · exact ha f h
  · exact hb f h

/-- a field list of in-range fields shorter than 2^64 bytes is read back as written -/
theorem decode_of_ok (fs : List Field) (hok : ∀ f ∈ fs, fieldOK f) (hlen : (encodeMsg fs).length < 2 ^ 64) :
    decodeMsg (encodeMsg fs) = some fs :=
  decodeMsg_encodeMsg fs (wf_of_length_lt fs hlen
    (fun f hf => ⟨(hok f hf).1.1, Nat.lt_trans (hok f hf).1.2 (by decide)⟩) (fun f hf => (hok f hf).2))

/-- the payload of an embedded message is shorter than the message that contains it -/
theorem inner_length_le {outer : List Field} {k : Nat} {b : Bytes} (h : (⟨k, .bytes b⟩ : Field) ∈ outer) :
    b.length ≤ (encodeMsg outer).length :=
  Nat.le_trans (Field.bytes_length_le k b) (Field.encode_length_le_of_mem h)

def PEntry.ok (e : PEntry) : Prop := isInt32 e.priority ∧ isInt32 e.wantType

theorem PEntry.fields_ok (e : PEntry) (h : e.ok) : ∀ f ∈ e.fields, fieldOK f := by
  unfold PEntry.fields
  exact ok_append (ok_append (ok_append (ok_append (ok_optBytes 1 (by omega) _) (ok_optVarint 2 (by omega) _ h.1))
    (ok_optBool 3 (by omega) _)) (ok_optVarint 4 (by omega) _ h.2)) (ok_optBool 5 (by omega) _)

theorem PBlock.fields_ok (b : PBlock) : ∀ f ∈ b.fields, fieldOK f := by
  unfold PBlock.fields
  exact ok_append (ok_optBytes 1 (by omega) _) (ok_optBytes 2 (by omega) _)

theorem PPres.fields_ok (p : PPres) (h : isInt32 p.ty) : ∀ f ∈ p.fields, fieldOK f := by
  unfold PPres.fields
  exact ok_append (ok_optBytes 1 (by omega) _) (ok_optVarint 2 (by omega) _ h)

theorem bytes_of_length_zero {b : Bytes} (h : b.length = 0) : b = [] := List.length_eq_zero_iff.mp h

theorem PEntry.ofFields_fields (e : PEntry) (h : e.ok) : PEntry.ofFields e.fields = e := by
  obtain ⟨blk, pr, cn, ty, sd⟩ := e
  obtain ⟨h1, h2⟩ := h
  simp only at h1 h2
  have e1 := intDec32_intEnc pr h1
  have e2 := intDec32_intEnc ty h2
  have z : intDec32 0 = 0 := by decide
  simp only [PEntry.ofFields, PEntry.fields, optBytes, optVarint, optBool]
  by_cases c1 : blk.length = 0 <;> by_cases c2 : pr = 0 <;> cases cn <;> by_cases c4 : ty = 0 <;> cases sd <;>
    simp [c1, c2, c4, lastBytes?, lastVarint?, Field.byts, Field.vint, e1, e2, z, bytes_of_length_zero]

theorem PBlock.ofFields_fields (b : PBlock) : PBlock.ofFields b.fields = b := by
  obtain ⟨p, d⟩ := b
  simp only [PBlock.ofFields, PBlock.fields, optBytes]
  by_cases c1 : p.length = 0 <;> by_cases c2 : d.length = 0 <;>
    simp [c1, c2, lastBytes?, Field.byts, bytes_of_length_zero]

theorem PPres.ofFields_fields (p : PPres) (h : isInt32 p.ty) : PPres.ofFields p.fields = p := by
  obtain ⟨c, t⟩ := p
  simp only at h
  have e1 := intDec32_intEnc t h
  have z : intDec32 0 = 0 := by decide
  simp only [PPres.ofFields, PPres.fields, optBytes, optVarint]
  by_cases c1 : c.length = 0 <;> by_cases c2 : t = 0 <;>
    simp [c1, c2, lastBytes?, lastVarint?, Field.byts, Field.vint, e1, z, bytes_of_length_zero]

theorem decodeAll_map {α : Type} (dec : Bytes → Option (List Field)) (of : List Field → α) (flds : α → List Field)
    (l : List α) (h : ∀ x ∈ l, dec (encodeMsg (flds x)) = some (flds x) ∧ of (flds x) = x) :
    decodeAllWith dec of (l.map (fun x => encodeMsg (flds x))) = some l := by
  induction l with
  | nil => rfl
  | cons a l ih =>
    obtain ⟨h1, h2⟩ := h a List.mem_cons_self
    simp only [List.map_cons, decodeAllWith, h1, ih (fun x hx => h x (List.mem_cons_of_mem _ hx)), h2]

/-- what a field-loop reader must do on Marshal output: read in-range field lists back as written -/
def ReadsBack (dec : Bytes → Option (List Field)) : Prop :=
  ∀ fs : List Field, (∀ f ∈ fs, fieldOK f) → (encodeMsg fs).length < 2 ^ 64 → dec (encodeMsg fs) = some fs

theorem readsBack_decodeMsg : ReadsBack decodeMsg := fun fs hok hlen => decode_of_ok fs hok hlen

/-! ### the whole message -/

def PMsg.ok (p : PMsg) : Prop :=
  (∀ es f, p.wantlist = some (es, f) → ∀ e ∈ es, e.ok) ∧ (∀ x ∈ p.presences, isInt32 x.ty) ∧ isInt32 p.pendingBytes

def PMsg.W (p : PMsg) : List Field :=
  match p.wantlist with | some (es, f) => [Field.msg 1 (wantlistFields es f)] | none => []
def PMsg.B (p : PMsg) : List Field := p.blocks.map (fun b => (⟨2, .bytes (id b)⟩ : Field))
def PMsg.P (p : PMsg) : List Field := p.payload.map (fun b => (⟨3, .bytes (encodeMsg b.fields)⟩ : Field))
def PMsg.R (p : PMsg) : List Field := p.presences.map (fun x => (⟨4, .bytes (encodeMsg x.fields)⟩ : Field))

theorem PMsg.fields_eq (p : PMsg) : p.fields = p.W ++ p.B ++ p.P ++ p.R ++ optVarint 5 p.pendingBytes := rfl

theorem lastBytes?_optVarint (n k : Nat) (x : Int) : lastBytes? n (optVarint k x) = none := by
  unfold optVarint; split <;> simp [lastBytes?, Field.vint]
theorem allBytes_optVarint (n k : Nat) (x : Int) : allBytes n (optVarint k x) = [] := by
  unfold optVarint; split <;> simp [allBytes, Field.vint]
theorem allBytes_optBool (n k : Nat) (b : Bool) : allBytes n (optBool k b) = [] := by
  unfold optBool; split <;> simp [allBytes, Field.vint]
theorem lastVarint?_optBool (n : Nat) (b : Bool) : ((lastVarint? n (optBool n b)).getD 0 != 0) = b := by
  unfold optBool; cases b <;> simp [lastVarint?, Field.vint]
theorem lastVarint?_optVarint (n : Nat) (x : Int) (h : isInt32 x) :
    intDec32 ((lastVarint? n (optVarint n x)).getD 0) = x := by
  unfold optVarint
  by_cases hx : x = 0
  · subst hx; simp [lastVarint?]; decide
  · simp [hx, lastVarint?, Field.vint, intDec32_intEnc x h]

theorem wantlist_ok (es : List PEntry) (f : Bool) (h : ∀ e ∈ es, e.ok) : ∀ x ∈ wantlistFields es f, fieldOK x := by
  unfold wantlistFields
  apply ok_append
  · intro x hx
    obtain ⟨e, _, rfl⟩ := List.mem_map.mp hx
    exact ⟨by simp [Field.msg], trivial⟩
  · exact ok_optBool 2 (by omega) f

theorem PMsg.fields_ok (p : PMsg) (h : p.ok) : ∀ f ∈ p.fields, fieldOK f := by
  rw [PMsg.fields_eq]
  refine ok_append (ok_append (ok_append (ok_append ?_ ?_) ?_) ?_) (ok_optVarint 5 (by omega) _ h.2.2)
  · intro f hf
    unfold PMsg.W at hf
    split at hf
    · simp only [List.mem_singleton] at hf; subst hf; exact ⟨by simp [Field.msg], trivial⟩
    · cases hf
  · intro f hf
    obtain ⟨b, _, rfl⟩ := List.mem_map.mp hf
    exact ⟨by simp, trivial⟩
  · intro f hf
    obtain ⟨b, _, rfl⟩ := List.mem_map.mp hf
    exact ⟨by simp, trivial⟩
  · intro f hf
    obtain ⟨b, _, rfl⟩ := List.mem_map.mp hf
    exact ⟨by simp, trivial⟩

/-- **Wire round trip**: what proto.Marshal writes for a pb.Message, the field-loop decoder reads back. -/
theorem decodePMsgWith_encodePMsg (dec : Bytes → Option (List Field)) (hdec : ReadsBack dec)
    (p : PMsg) (hok : p.ok) (hlen : (encodePMsg p).length < 2 ^ 64) :
    decodePMsgWith dec (encodePMsg p) = some p := by
  have hd : dec (encodePMsg p) = some p.fields := hdec _ (p.fields_ok hok) hlen
  have hlen' : (encodeMsg p.fields).length < 2 ^ 64 := hlen
  -- accessors
  have a2 : allBytes 2 p.fields = p.blocks := by
    rw [PMsg.fields_eq]
    simp only [allBytes_append, allBytes_optVarint, PMsg.B, PMsg.P, PMsg.R, allBytes_map_bytes, List.append_nil]
    unfold PMsg.W
    split <;> simp [allBytes, Field.msg]
  have a3 : allBytes 3 p.fields = p.payload.map (fun b => encodeMsg b.fields) := by
    rw [PMsg.fields_eq]
    simp only [allBytes_append, allBytes_optVarint, PMsg.B, PMsg.P, PMsg.R, allBytes_map_bytes, List.append_nil]
    unfold PMsg.W
    split <;> simp [allBytes, Field.msg]
  have a4 : allBytes 4 p.fields = p.presences.map (fun b => encodeMsg b.fields) := by
    rw [PMsg.fields_eq]
    simp only [allBytes_append, allBytes_optVarint, PMsg.B, PMsg.P, PMsg.R, allBytes_map_bytes, List.append_nil]
    unfold PMsg.W
    split <;> simp [allBytes, Field.msg]
  have a5 : intDec32 ((lastVarint? 5 p.fields).getD 0) = p.pendingBytes := by
    rw [PMsg.fields_eq]
    have hW : lastVarint? 5 p.W = none := by unfold PMsg.W; split <;> simp [lastVarint?, Field.msg]
    have : lastVarint? 5 (p.W ++ p.B ++ p.P ++ p.R ++ optVarint 5 p.pendingBytes) =
        lastVarint? 5 (optVarint 5 p.pendingBytes) := by
      rw [lastVarint?_append]
      cases hl : lastVarint? 5 (optVarint 5 p.pendingBytes) with
      | some w => rfl
      | none =>
        simp only [lastVarint?_append, PMsg.B, PMsg.P, PMsg.R, lastVarint?_map_bytes, hW]
    rw [this]
    exact lastVarint?_optVarint 5 _ hok.2.2
  have a1 : allBytes 1 p.fields = allBytes 1 p.W := by
    rw [PMsg.fields_eq]
    simp only [allBytes_append, allBytes_optVarint, PMsg.B, PMsg.P, PMsg.R, allBytes_map_bytes, List.append_nil]
    simp
  -- embedded messages
  have dP : decodeAllWith dec PBlock.ofFields (p.payload.map (fun b => encodeMsg b.fields)) = some p.payload := by
    apply decodeAll_map
    intro b hb
    refine ⟨hdec _ b.fields_ok ?_, b.ofFields_fields⟩
    have hm : (⟨3, .bytes (encodeMsg b.fields)⟩ : Field) ∈ p.fields := by
      rw [PMsg.fields_eq]
      simp only [List.mem_append, PMsg.P, List.mem_map]
      exact .inl (.inl (.inr ⟨b, hb, rfl⟩))
    exact Nat.lt_of_le_of_lt (inner_length_le hm) hlen'
  have dR : decodeAllWith dec PPres.ofFields (p.presences.map (fun b => encodeMsg b.fields)) = some p.presences := by
    apply decodeAll_map
    intro b hb
    refine ⟨hdec _ (b.fields_ok (hok.2.1 b hb)) ?_, b.ofFields_fields (hok.2.1 b hb)⟩
    have hm : (⟨4, .bytes (encodeMsg b.fields)⟩ : Field) ∈ p.fields := by
      rw [PMsg.fields_eq]
      simp only [List.mem_append, PMsg.R, List.mem_map]
      exact .inl (.inr ⟨b, hb, rfl⟩)
    exact Nat.lt_of_le_of_lt (inner_length_le hm) hlen'
  unfold decodePMsgWith
  rw [hd]
  simp only [a1, a2, a3, a4, a5, dP, dR]
  obtain ⟨wl, bl, pl, pr, pb⟩ := p
  cases wl with
  | none => simp [PMsg.W, allBytes]
  | some w =>
    obtain ⟨es, f⟩ := w
    have hes : ∀ e ∈ es, e.ok := hok.1 es f rfl
    have hmW : (⟨1, .bytes (encodeMsg (wantlistFields es f))⟩ : Field) ∈
        (PMsg.mk (some (es, f)) bl pl pr pb).fields := by
      rw [PMsg.fields_eq]
      simp [PMsg.W, Field.msg]
    have hlW : (encodeMsg (wantlistFields es f)).length < 2 ^ 64 :=
      Nat.lt_of_le_of_lt (inner_length_le hmW) hlen'
    have dW : dec (encodeMsg (wantlistFields es f)) = some (wantlistFields es f) :=
      hdec _ (wantlist_ok es f hes) hlW
    have aE : allBytes 1 (wantlistFields es f) = es.map (fun e => encodeMsg e.fields) := by
      unfold wantlistFields
      rw [allBytes_append, allBytes_optBool]
      have : es.map (fun e => Field.msg 1 e.fields) = es.map (fun e => (⟨1, .bytes (encodeMsg e.fields)⟩ : Field)) := rfl
      rw [this, allBytes_map_bytes]
      simp
    have dE : decodeAllWith dec PEntry.ofFields (es.map (fun e => encodeMsg e.fields)) = some es := by
      apply decodeAll_map
      intro e he
      refine ⟨hdec _ (e.fields_ok (hes e he)) ?_, e.ofFields_fields (hes e he)⟩
      have hm : (⟨1, .bytes (encodeMsg e.fields)⟩ : Field) ∈ wantlistFields es f := by
        unfold wantlistFields
        simp only [List.mem_append, List.mem_map]
        exact .inl ⟨e, he, rfl⟩
      exact Nat.lt_of_le_of_lt (inner_length_le hm) hlW
    have aF : ((lastVarint? 2 (wantlistFields es f)).getD 0 != 0) = f := by
      unfold wantlistFields
      rw [lastVarint?_append]
      have : es.map (fun e => Field.msg 1 e.fields) = es.map (fun e => (⟨1, .bytes (encodeMsg e.fields)⟩ : Field)) := rfl
      have hb := lastVarint?_optBool 2 f
      cases hl : lastVarint? 2 (optBool 2 f) with
      | some w => rw [hl] at hb; simpa using hb
      | none => rw [hl] at hb; simp only [this, lastVarint?_map_bytes]; simpa using hb
    simp [PMsg.W, allBytes, Field.msg, mergeAll, dW, aE, dE, aF]

theorem decodePMsg_encodePMsg (p : PMsg) (hok : p.ok) (hlen : (encodePMsg p).length < 2 ^ 64) :
    decodePMsg (encodePMsg p) = some p := decodePMsgWith_encodePMsg decodeMsg readsBack_decodeMsg p hok hlen

/-! ### the general reader on Marshal output -/

theorem consumeVal_encode (f : Field) (rest : Bytes) (h : f.wf) :
    consumeVal f.val.wireType (f.val.encode ++ rest) = some (f.val, rest) := by
  have hc := consumeField_encode f rest h
  obtain ⟨num, v⟩ := f
  obtain ⟨h1, h2, _⟩ := h
  simp only [Field.encode, List.append_assoc, consumeField] at hc
  rw [consumeTag_tag num _ _ h1 h2 (by cases v <;> simp [Val.wireType])] at hc
  simp only at hc
  cases hv : consumeVal v.wireType (v.encode ++ rest) with
  | none => simp [hv] at hc
  | some x =>
    obtain ⟨v', r'⟩ := x
    simp only [hv, Option.some.injEq, Prod.mk.injEq, Field.mk.injEq, true_and] at hc
    simp [hc.1, hc.2]

theorem consumeTagImpl_tag (num wt : Nat) (rest : Bytes) (h1 : 1 ≤ num) (h2 : num < 2 ^ 29) (hw : wt < 8) :
    consumeTagImpl (tag num wt ++ rest) = some (num, wt, rest) := by
  have hlt : num * 8 + wt < 2 ^ 64 := by omega
  have hd : (num * 8 + wt) / 8 = num := by omega
  have hm : (num * 8 + wt) % 8 = wt := by omega
  simp only [consumeTagImpl, tag, consumeU64_encode _ rest hlt, hd, hm]
  have : ¬ (num < 1 ∨ num > 2 ^ 29 - 1) := by omega
  rw [if_neg this]

theorem unmarshalFieldsAux_encodeMsg (fs : List Field) (hok : ∀ f ∈ fs, fieldOK f) (hwf : ∀ f ∈ fs, f.wf)
    (fuel : Nat) (hf : (encodeMsg fs).length < fuel) : unmarshalFieldsAux fuel (encodeMsg fs) = some fs := by
  induction fs generalizing fuel with
  | nil =>
    cases fuel with
    | zero => simp at hf
    | succ k => simp [encodeMsg, unmarshalFieldsAux]
  | cons f fs ih =>
    cases fuel with
    | zero => simp at hf
    | succ k =>
      have hpos := f.encode_length_pos
      have hl : (encodeMsg (f :: fs)).length = f.encode.length + (encodeMsg fs).length :=
        encodeMsg_length_cons f fs
      have hne : encodeMsg (f :: fs) ≠ [] := by
        intro h0; rw [h0] at hl; simp at hl; omega
      have hfs := ih (fun g hg => hok g (List.mem_cons_of_mem _ hg)) (fun g hg => hwf g (List.mem_cons_of_mem _ hg))
        k (by omega)
      have hfo := hok f List.mem_cons_self
      have hfw := hwf f List.mem_cons_self
      have hwt : f.val.wireType < 8 ∧ f.val.wireType ≠ 4 ∧ f.val.wireType ≠ 3 := by
        cases f.val <;> simp [Val.wireType]
      have he : encodeMsg (f :: fs) = tag f.num f.val.wireType ++ (f.val.encode ++ encodeMsg fs) := by
        simp [encodeMsg, Field.encode]
      unfold unmarshalFieldsAux
      rw [if_neg hne, he, consumeTagImpl_tag _ _ _ hfo.1.1 hfo.1.2 hwt.1]
      simp only [hwt.2.1, hwt.2.2, ↓reduceIte, consumeVal_encode f _ hfw, hfs]

theorem readsBack_unmarshal : ReadsBack unmarshalFields := by
  intro fs hok hlen
  unfold unmarshalFields
  exact unmarshalFieldsAux_encodeMsg fs hok
    (wf_of_length_lt fs hlen (fun f hf => ⟨(hok f hf).1.1, Nat.lt_trans (hok f hf).1.2 (by decide)⟩)
      (fun f hf => (hok f hf).2)) _ (Nat.lt_succ_self _)

/-- proto.Unmarshal reads back what proto.Marshal wrote (general reader: unknown fields, groups, wrong
wire types and truncation are handled, none of which occurs in Marshal output) -/
theorem unmarshalPMsg_encodePMsg (p : PMsg) (hok : p.ok) (hlen : (encodePMsg p).length < 2 ^ 64) :
    unmarshalPMsg (encodePMsg p) = some p := decodePMsgWith_encodePMsg unmarshalFields readsBack_unmarshal p hok hlen

end C34
