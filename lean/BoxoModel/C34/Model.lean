import BoxoModel.Lib.Proto
/-
C34 — bitswap messages: executable model of /repo/bitswap/message/message.go.

  message.impl {full, wantlist, blocks, blockPresences, pendingBytes}   ~ `Msg` (the three Go maps are
                                                                          association lists keyed by the CID bytes)
  addEntry / AddBlock / AddBlockPresence / Remove / Reset                ~ `Msg.addEntry` …
  ToProtoV0 / ToProtoV1                                                   ~ `toProtoV0` / `toProtoV1`
  pb.Message (generated from message.proto)                               ~ `PMsg`
  newMessageFromProto                                                     ~ `fromProto`
  protobuf-go Marshal of pb.Message (proto3)                              ~ `encodePMsg` (over Lib.Proto)

CIDs are opaque byte strings.  Everything go-cid / go-multihash / go-block-format compute is a
parameter (`Hash`): whether a byte string is a CID (`cid.Cast`), the CID prefix bytes of a CID
(`c.Prefix().Bytes()`), the CID of a payload block (`cid.PrefixFromBytes(prefix)` then
`prefix.Sum(data)`, as in `NewWantlistBlock`) and of a bitswap-1.0 block (`blocks.NewBlock(data)`).
Theorems are stated for an arbitrary `Hash`; the harness supplies the values it observed.
Core-only (no Mathlib): imported by the line-protocol driver.
-/
namespace C34
open Varint Proto

structure Hash where
  /-- `cid.Cast(b)` succeeds (the result then has exactly the bytes `b`) -/
  cast : Bytes → Bool
  /-- `c.Prefix().Bytes()` of the CID with bytes `c` -/
  prefixOf : Bytes → Bytes
  /-- `cid.PrefixFromBytes(prefix)` followed by `prefix.Sum(data)`: bytes of the CID, `none` = error -/
  sum : Bytes → Bytes → Option Bytes
  /-- `blocks.NewBlock(data).Cid()` (CIDv0, sha2-256) -/
  sumV0 : Bytes → Bytes

/-- message.Entry; WantType is an open proto3 enum (Block = 0, Have = 1), hence an integer -/
structure Entry where
  cid : Bytes
  prio : Int
  ty : Int
  cancel : Bool
  sdh : Bool
  deriving DecidableEq, Repr

structure Msg where
  full : Bool := false
  wl : List Entry := []
  blocks : List (Bytes × Bytes) := []
  pres : List (Bytes × Int) := []
  pending : Int := 0

namespace Msg

def getEntry (m : Msg) (c : Bytes) : Option Entry := m.wl.find? (fun e => e.cid == c)
def getBlock (m : Msg) (c : Bytes) : Option Bytes := (m.blocks.find? (fun x => x.1 == c)).map (·.2)
def getPres (m : Msg) (c : Bytes) : Option Int := (m.pres.find? (fun x => x.1 == c)).map (·.2)

/-- the merge rule of impl.addEntry for an existing entry `e` -/
def mergeEntry (e : Entry) (prio : Int) (cancel : Bool) (ty : Int) (sdh : Bool) : Entry :=
  { cid := e.cid
    prio := if e.ty = ty then prio else e.prio       -- only change priority if want is of the same type
    cancel := e.cancel || cancel                      -- only change from "dont cancel" to "do cancel"
    sdh := e.sdh || sdh                               -- only change from "dont send" to "do send" DONT_HAVE
    ty := if ty = 0 ∧ e.ty = 1 then ty else e.ty }    -- want-block overrides existing want-have

/-- impl.addEntry -/
def addEntry (m : Msg) (c : Bytes) (prio : Int) (cancel : Bool) (ty : Int) (sdh : Bool) : Msg :=
  match m.getEntry c with
  | some e => { m with wl := mergeEntry e prio cancel ty sdh :: m.wl.filter (fun x => x.cid != c) }
  | none => { m with wl := ⟨c, prio, ty, cancel, sdh⟩ :: m.wl.filter (fun x => x.cid != c) }

/-- impl.Cancel -/
def cancel (m : Msg) (c : Bytes) : Msg := m.addEntry c 0 true 0 false
/-- impl.Remove -/
def remove (m : Msg) (c : Bytes) : Msg := { m with wl := m.wl.filter (fun x => x.cid != c) }
/-- impl.AddBlock -/
def addBlock (m : Msg) (c d : Bytes) : Msg :=
  { m with pres := m.pres.filter (fun x => x.1 != c), blocks := (c, d) :: m.blocks.filter (fun x => x.1 != c) }
/-- impl.AddBlockPresence -/
def addPresence (m : Msg) (c : Bytes) (t : Int) : Msg :=
  match m.getBlock c with
  | some _ => m
  | none => { m with pres := (c, t) :: m.pres.filter (fun x => x.1 != c) }
/-- impl.Reset -/
def reset (full : Bool) : Msg := { full := full }

end Msg

/-! ### pb.Message -/

structure PEntry where
  block : Bytes
  priority : Int
  cancel : Bool
  wantType : Int
  sendDontHave : Bool
  deriving DecidableEq, Repr

structure PBlock where
  pfx : Bytes
  data : Bytes
  deriving DecidableEq, Repr

structure PPres where
  cid : Bytes
  ty : Int
  deriving DecidableEq, Repr

structure PMsg where
  /-- `pbm.Wantlist` (nil or entries + full) -/
  wantlist : Option (List PEntry × Bool) := none
  blocks : List Bytes := []
  payload : List PBlock := []
  presences : List PPres := []
  pendingBytes : Int := 0
  deriving DecidableEq, Repr

def Entry.toPB (e : Entry) : PEntry := ⟨e.cid, e.prio, e.cancel, e.ty, e.sdh⟩

/-- impl.ToProtoV1 -/
def toProtoV1 (H : Hash) (m : Msg) : PMsg :=
  { wantlist := some (m.wl.map Entry.toPB, m.full)
    blocks := []
    payload := m.blocks.map (fun b => ⟨H.prefixOf b.1, b.2⟩)
    presences := m.pres.map (fun x => ⟨x.1, x.2⟩)
    pendingBytes := m.pending }

/-- impl.ToProtoV0 -/
def toProtoV0 (m : Msg) : PMsg :=
  { wantlist := some (m.wl.map Entry.toPB, m.full)
    blocks := m.blocks.map (·.2) }

/-- the wantlist loop of newMessageFromProto -/
def fromEntries (H : Hash) : List PEntry → Msg → Option Msg
  | [], m => some m
  | e :: r, m =>
    if e.block.length = 0 then none                       -- errCidMissing
    else if H.cast e.block = false then none              -- cid.Cast error
    else fromEntries H r (m.addEntry e.block e.priority e.cancel e.wantType e.sendDontHave)

/-- the deprecated `Blocks` loop: CIDv0, sha256 -/
def fromV0Blocks (H : Hash) : List Bytes → Msg → Msg
  | [], m => m
  | d :: r, m => fromV0Blocks H r (m.addBlock (H.sumV0 d) d)

/-- the `Payload` loop: the block's CID is computed from the prefix and the data -/
def fromPayload (H : Hash) : List PBlock → Msg → Option Msg
  | [], m => some m
  | b :: r, m =>
    match H.sum b.pfx b.data with
    | none => none
    | some c => fromPayload H r (m.addBlock c b.data)

def fromPresences (H : Hash) : List PPres → Msg → Option Msg
  | [], m => some m
  | p :: r, m =>
    if p.cid.length = 0 then none
    else if H.cast p.cid = false then none
    else fromPresences H r (m.addPresence p.cid p.ty)

/-- newMessageFromProto -/
def fromProto (H : Hash) (p : PMsg) : Option Msg :=
  let m0 : Msg := { full := match p.wantlist with | some (_, f) => f | none => false }
  match fromEntries H (match p.wantlist with | some (es, _) => es | none => []) m0 with
  | none => none
  | some m1 =>
    match fromPayload H p.payload (fromV0Blocks H p.blocks m1) with
    | none => none
    | some m2 =>
      match fromPresences H p.presences m2 with
      | none => none
      | some m3 => some { m3 with pending := p.pendingBytes }

/-! ### wire format (proto3, fields in field-number order, zero values omitted) -/

/-- two's-complement 64-bit image of an int32/int64 field value (protobuf `int32` on the wire) -/
def intEnc (x : Int) : Nat := if x ≥ 0 then x.toNat else (2 ^ 64 + x).toNat

/-- int32 value of a varint (low 32 bits, signed) -/
def intDec32 (v : Nat) : Int :=
  if v % 2 ^ 32 < 2 ^ 31 then ((v % 2 ^ 32 : Nat) : Int) else ((v % 2 ^ 32 : Nat) : Int) - 2 ^ 32

def optVarint (num : Nat) (x : Int) : List Field := if x = 0 then [] else [Field.vint num (intEnc x)]
def optBool (num : Nat) (b : Bool) : List Field := if b then [Field.vint num 1] else []
def optBytes (num : Nat) (b : Bytes) : List Field := if b.length = 0 then [] else [Field.byts num b]

def PEntry.fields (e : PEntry) : List Field :=
  optBytes 1 e.block ++ optVarint 2 e.priority ++ optBool 3 e.cancel ++ optVarint 4 e.wantType ++ optBool 5 e.sendDontHave

def PBlock.fields (b : PBlock) : List Field := optBytes 1 b.pfx ++ optBytes 2 b.data
def PPres.fields (p : PPres) : List Field := optBytes 1 p.cid ++ optVarint 2 p.ty

def wantlistFields (es : List PEntry) (full : Bool) : List Field :=
  es.map (fun e => Field.msg 1 e.fields) ++ optBool 2 full

def PMsg.fields (p : PMsg) : List Field :=
  (match p.wantlist with | some (es, f) => [Field.msg 1 (wantlistFields es f)] | none => [])
  ++ p.blocks.map (Field.byts 2)
  ++ p.payload.map (fun b => Field.msg 3 b.fields)
  ++ p.presences.map (fun x => Field.msg 4 x.fields)
  ++ optVarint 5 p.pendingBytes

/-- proto.Marshal(pbm) -/
def encodePMsg (p : PMsg) : Bytes := encodeMsg p.fields

/-- impl.Empty -/
def Msg.empty (m : Msg) : Bool := m.blocks.isEmpty && m.wl.isEmpty && m.pres.isEmpty

/-- impl.Size: block bytes + BlockPresenceSize of every presence + proto.Size of every wantlist entry -/
def Msg.size (m : Msg) : Nat :=
  (m.blocks.map (fun b => b.2.length)).sum
  + (m.pres.map (fun x => (encodeMsg (PPres.fields ⟨x.1, 0⟩)).length)).sum
  + (m.wl.map (fun e => (encodeMsg e.toPB.fields).length)).sum

/-- impl.Haves / impl.DontHaves -/
def Msg.presOf (m : Msg) (t : Int) : List Bytes := (m.pres.filter (fun x => x.2 == t)).map (·.1)

/-! decoding of field lists (scalars: last occurrence wins; repeated: wire order) -/

def PEntry.ofFields (fs : List Field) : PEntry :=
  { block := (lastBytes? 1 fs).getD []
    priority := intDec32 ((lastVarint? 2 fs).getD 0)
    cancel := (lastVarint? 3 fs).getD 0 != 0
    wantType := intDec32 ((lastVarint? 4 fs).getD 0)
    sendDontHave := (lastVarint? 5 fs).getD 0 != 0 }

def PBlock.ofFields (fs : List Field) : PBlock :=
  { pfx := (lastBytes? 1 fs).getD [], data := (lastBytes? 2 fs).getD [] }

def PPres.ofFields (fs : List Field) : PPres :=
  { cid := (lastBytes? 1 fs).getD [], ty := intDec32 ((lastVarint? 2 fs).getD 0) }

def decodeAllWith {α : Type} (dec : Bytes → Option (List Field)) (f : List Field → α) : List Bytes → Option (List α)
  | [] => some []
  | b :: r =>
    match dec b, decodeAllWith dec f r with
    | some fs, some xs => some (f fs :: xs)
    | _, _ => none

/-- all occurrences of an embedded message field merged: the concatenation of their field lists -/
def mergeAll (dec : Bytes → Option (List Field)) : List Bytes → Option (List Field)
  | [] => some []
  | b :: r =>
    match dec b, mergeAll dec r with
    | some fs, some gs => some (fs ++ gs)
    | _, _ => none

/-- proto.Unmarshal into pb.Message over a field-loop reader `dec`: scalars – last occurrence wins;
repeated fields – wire order; the singular `wantlist` message – all occurrences merged; a known field
number with another wire type is an unknown field (the accessors only look at the expected type);
an undecodable embedded message fails the whole parse. -/
def decodePMsgWith (dec : Bytes → Option (List Field)) (b : Bytes) : Option PMsg :=
  match dec b with
  | none => none
  | some fs =>
    let wl : Option (Option (List PEntry × Bool)) :=
      match allBytes 1 fs with
      | [] => some none
      | wbs =>
        match mergeAll dec wbs with
        | none => none
        | some wfs =>
          match decodeAllWith dec PEntry.ofFields (allBytes 1 wfs) with
          | none => none
          | some es => some (some (es, (lastVarint? 2 wfs).getD 0 != 0))
    match wl, decodeAllWith dec PBlock.ofFields (allBytes 3 fs), decodeAllWith dec PPres.ofFields (allBytes 4 fs) with
    | some w, some pl, some pr =>
      some { wantlist := w, blocks := allBytes 2 fs, payload := pl, presences := pr,
             pendingBytes := intDec32 ((lastVarint? 5 fs).getD 0) }
    | _, _, _ => none

/-- the reader for bytes written by Marshal (Lib.Proto's field loop; no groups) -/
def decodePMsg (b : Bytes) : Option PMsg := decodePMsgWith decodeMsg b

/-! ### proto.Unmarshal of ARBITRARY bytes (protobuf-go impl/decode.go + protowire) -/

/-- tag of a field inside a message: field numbers 1 … 2^29-1 (`protowire.MaxValidNumber`) -/
def consumeTagImpl (b : Bytes) : Option (Nat × Nat × Bytes) :=
  match consumeU64 b with
  | none => none
  | some (v, r) => if v / 8 < 1 ∨ v / 8 > 2 ^ 29 - 1 then none else some (v / 8, v % 8, r)

mutual
/-- `protowire.ConsumeFieldValue` for a start-group tag: skip fields up to the matching end-group -/
def skipGroup : Nat → Nat → Bytes → Option Bytes
  | 0, _, _ => none
  | fuel + 1, g, b =>
    match consumeTag b with                     -- protowire.ConsumeTag: 1 ≤ num ≤ MaxInt32
    | none => none
    | some (num, wt, r) =>
      if wt = 4 then (if num = g then some r else none)
      else match skipVal fuel num wt r with
        | none => none
        | some r' => skipGroup fuel g r'
/-- `protowire.ConsumeFieldValue`: the bytes after one field value -/
def skipVal : Nat → Nat → Nat → Bytes → Option Bytes
  | 0, _, _, _ => none
  | fuel + 1, num, wt, b =>
    if wt = 3 then skipGroup fuel num b
    else match consumeVal wt b with              -- wire types 0,1,2,5; 4,6,7 are errors
      | none => none
      | some (_, r) => some r
end

/-- the field loop of `unmarshalPointerEager` (groupTag = 0): known wire types are kept as fields,
groups (always unknown for this schema) are skipped, a stray end-group or a reserved wire type fails -/
def unmarshalFieldsAux : Nat → Bytes → Option (List Field)
  | 0, _ => none
  | fuel + 1, b =>
    if b = [] then some []
    else match consumeTagImpl b with
      | none => none
      | some (num, wt, r) =>
        if wt = 4 then none
        else if wt = 3 then
          match skipGroup fuel num r with
          | none => none
          | some r' => unmarshalFieldsAux fuel r'
        else match consumeVal wt r with
          | none => none
          | some (v, r') =>
            match unmarshalFieldsAux fuel r' with
            | none => none
            | some fs => some (⟨num, v⟩ :: fs)

def unmarshalFields (b : Bytes) : Option (List Field) := unmarshalFieldsAux (b.length + 1) b

/-- proto.Unmarshal(b, &pb.Message{}) -/
def unmarshalPMsg (b : Bytes) : Option PMsg := decodePMsgWith unmarshalFields b

/-- message.FromNet after the length prefix: Unmarshal, then newMessageFromProto -/
def fromWire (H : Hash) (b : Bytes) : Option Msg := (unmarshalPMsg b).bind (fromProto H)

end C34
