import BoxoModel.C34.Model
/-! Helper lemmas for C34 (property theorems are in `BoxoModel/Props/C34.lean`). -/
namespace C34
open Varint Proto

/-! ### association lists keyed by bytes -/

theorem find_filter_ne {α : Type} (key : α → Bytes) (l : List α) (c c' : Bytes) :
    (l.filter (fun x => key x != c)).find? (fun x => key x == c') =
      if c' = c then none else l.find? (fun x => key x == c') := by
  induction l with
  | nil => simp
  | cons a l ih =>
    simp only [List.filter_cons]
    by_cases h : key a = c
    · simp only [h, bne_self_eq_false, Bool.false_eq_true, ↓reduceIte, ih, List.find?_cons]
      by_cases h' : c' = c
      · simp [h']
      · have : (c == c') = false := by simpa using fun x => h' x.symm
        simp [h', this]
    · have hb : (key a != c) = true := by simpa using h
      simp only [hb, ↓reduceIte, List.find?_cons, ih]
      by_cases h' : c' = c
      · subst h'
        have : (key a == c') = false := by simpa using h
        simp [this]
      · simp [h']

theorem find_cons_key {α : Type} (key : α → Bytes) (a : α) (l : List α) (c' : Bytes) :
    (a :: l).find? (fun x => key x == c') = if key a = c' then some a else l.find? (fun x => key x == c') := by
  simp only [List.find?_cons]
  by_cases h : key a = c'
  · simp [h]
  · have : (key a == c') = false := by simpa using h
    simp [h, this]

theorem find_none_of_not_mem {α : Type} (key : α → Bytes) (l : List α) (c : Bytes) (h : c ∉ l.map key) :
    l.find? (fun x => key x == c) = none := by
  rw [List.find?_eq_none]
  intro x hx hk
  exact h (List.mem_map.mpr ⟨x, hx, by simpa using hk⟩)

theorem find_of_mem_nodup {α : Type} (key : α → Bytes) (l : List α) (h : (l.map key).Nodup) {a : α} (ha : a ∈ l) :
    l.find? (fun x => key x == key a) = some a := by
  induction l with
  | nil => cases ha
  | cons x l ih =>
    simp only [List.map_cons, List.nodup_cons] at h
    rw [find_cons_key]
    rcases List.mem_cons.mp ha with rfl | ha'
    · simp
    · have : ¬ key x = key a := fun hx => h.1 (hx ▸ List.mem_map.mpr ⟨a, ha', rfl⟩)
      simp [this, ih h.2 ha']

namespace Msg

theorem getEntry_addEntry (m : Msg) (c : Bytes) (prio : Int) (cn : Bool) (ty : Int) (sdh : Bool) (c' : Bytes) :
    (m.addEntry c prio cn ty sdh).getEntry c' =
      if c' = c then
        some (match m.getEntry c with
              | some e => mergeEntry e prio cn ty sdh
              | none => ⟨c, prio, ty, cn, sdh⟩)
      else m.getEntry c' := by
  unfold addEntry
  cases hg : m.getEntry c with
  | none =>
    simp only [getEntry, find_cons_key (fun (x : Entry) => x.cid), find_filter_ne (fun (x : Entry) => x.cid)]
    by_cases h : c' = c
    · simp [h]
    · have : ¬ c = c' := fun x => h x.symm
      simp [h, this]
  | some e =>
    have hc : e.cid = c := by
      have := List.find?_some hg
      simpa using this
    simp only [getEntry, find_cons_key (fun (x : Entry) => x.cid), find_filter_ne (fun (x : Entry) => x.cid), mergeEntry, hc]
    by_cases h : c' = c
    · simp [h]
    · have : ¬ c = c' := fun x => h x.symm
      simp [h, this]

theorem addEntry_blocks (m : Msg) (c : Bytes) (prio : Int) (cn : Bool) (ty : Int) (sdh : Bool) :
    (m.addEntry c prio cn ty sdh).blocks = m.blocks ∧ (m.addEntry c prio cn ty sdh).pres = m.pres ∧
    (m.addEntry c prio cn ty sdh).full = m.full ∧ (m.addEntry c prio cn ty sdh).pending = m.pending := by
  unfold addEntry; split <;> simp

theorem getBlock_addBlock (m : Msg) (c d c' : Bytes) :
    (m.addBlock c d).getBlock c' = if c' = c then some d else m.getBlock c' := by
  simp only [getBlock, addBlock, find_cons_key (fun (x : Bytes × Bytes) => x.1), find_filter_ne (fun (x : Bytes × Bytes) => x.1)]
  by_cases h : c' = c
  · simp [h]
  · have : ¬ c = c' := fun x => h x.symm
    simp [h, this]

theorem getPres_addBlock (m : Msg) (c d c' : Bytes) :
    (m.addBlock c d).getPres c' = if c' = c then none else m.getPres c' := by
  simp only [getPres, addBlock, find_filter_ne (fun (x : Bytes × Int) => x.1)]
  by_cases h : c' = c <;> simp [h]

theorem getPres_addPresence (m : Msg) (c : Bytes) (t : Int) (c' : Bytes) :
    (m.addPresence c t).getPres c' =
      if c' = c ∧ m.getBlock c = none then some t else m.getPres c' := by
  unfold addPresence
  cases hg : m.getBlock c with
  | some d => simp
  | none =>
    simp only [getPres, find_cons_key (fun (x : Bytes × Int) => x.1), find_filter_ne (fun (x : Bytes × Int) => x.1)]
    by_cases h : c' = c
    · simp [h]
    · have : ¬ c = c' := fun x => h x.symm
      simp [h, this]

theorem addPresence_other (m : Msg) (c : Bytes) (t : Int) :
    (m.addPresence c t).blocks = m.blocks ∧ (m.addPresence c t).wl = m.wl ∧
    (m.addPresence c t).full = m.full ∧ (m.addPresence c t).pending = m.pending := by
  unfold addPresence; split <;> simp

theorem mem_blocks_addBlock {m : Msg} {c d : Bytes} {x : Bytes × Bytes} (h : x ∈ (m.addBlock c d).blocks) :
    x = (c, d) ∨ (x ∈ m.blocks ∧ x.1 ≠ c) := by
  simp only [addBlock, List.mem_cons, List.mem_filter, bne_iff_ne, ne_eq] at h
  exact h

end Msg

/-! ### the loops of newMessageFromProto -/

theorem fromEntries_other {H : Hash} {es : List PEntry} {m m' : Msg} (h : fromEntries H es m = some m') :
    m'.blocks = m.blocks ∧ m'.pres = m.pres ∧ m'.full = m.full ∧ m'.pending = m.pending := by
  induction es generalizing m with
  | nil => simp [fromEntries] at h; subst h; simp
  | cons e r ih =>
    unfold fromEntries at h
    split at h
    · cases h
    · split at h
      · cases h
      · obtain ⟨a, b, c, d⟩ := ih h
        obtain ⟨a', b', c', d'⟩ := Msg.addEntry_blocks m e.block e.priority e.cancel e.wantType e.sendDontHave
        exact ⟨a.trans a', b.trans b', c.trans c', d.trans d'⟩

theorem fromPresences_other {H : Hash} {ps : List PPres} {m m' : Msg} (h : fromPresences H ps m = some m') :
    m'.blocks = m.blocks ∧ m'.wl = m.wl ∧ m'.full = m.full ∧ m'.pending = m.pending := by
  induction ps generalizing m with
  | nil => simp [fromPresences] at h; subst h; simp
  | cons e r ih =>
    unfold fromPresences at h
    split at h
    · cases h
    · split at h
      · cases h
      · obtain ⟨a, b, c, d⟩ := ih h
        obtain ⟨a', b', c', d'⟩ := Msg.addPresence_other m e.cid e.ty
        exact ⟨a.trans a', b.trans b', c.trans c', d.trans d'⟩

/-- every block of the message carries a CID computed from its own data -/
def Cert (H : Hash) (m : Msg) : Prop :=
  ∀ x ∈ m.blocks, (∃ pfx, H.sum pfx x.2 = some x.1) ∨ x.1 = H.sumV0 x.2

theorem Cert.addBlock {H : Hash} {m : Msg} (h : Cert H m) (c d : Bytes)
    (hc : (∃ pfx, H.sum pfx d = some c) ∨ c = H.sumV0 d) : Cert H (m.addBlock c d) := by
  intro x hx
  rcases Msg.mem_blocks_addBlock hx with rfl | ⟨hx, _⟩
  · exact hc
  · exact h x hx

theorem cert_fromV0Blocks {H : Hash} (ds : List Bytes) {m : Msg} (h : Cert H m) : Cert H (fromV0Blocks H ds m) := by
  induction ds generalizing m with
  | nil => exact h
  | cons d r ih => exact ih (h.addBlock _ _ (.inr rfl))

theorem cert_fromPayload {H : Hash} (bs : List PBlock) {m m' : Msg} (h : Cert H m)
    (hf : fromPayload H bs m = some m') : Cert H m' := by
  induction bs generalizing m with
  | nil => simp [fromPayload] at hf; subst hf; exact h
  | cons b r ih =>
    unfold fromPayload at hf
    split at hf
    · cases hf
    · rename_i c hs
      exact ih (h.addBlock _ _ (.inl ⟨b.pfx, hs⟩)) hf

end C34
