import BoxoModel.C34.Lemmas
/-! Round-trip lemmas for C34: the loops of newMessageFromProto re-insert what ToProto wrote. -/
namespace C34
open Varint Proto

def PEntry.toEntry (e : PEntry) : Entry := ⟨e.block, e.priority, e.wantType, e.cancel, e.sendDontHave⟩

theorem toEntry_toPB (e : Entry) : e.toPB.toEntry = e := by cases e; rfl

/-- entries with distinct, decodable CIDs that are not yet in the message are inserted as they are -/
theorem fromEntries_fresh (H : Hash) (es : List PEntry) (hn : (es.map (·.block)).Nodup)
    (hok : ∀ e ∈ es, e.block.length ≠ 0 ∧ H.cast e.block = true) (m0 : Msg)
    (hf : ∀ e ∈ es, m0.getEntry e.block = none) :
    ∃ m', fromEntries H es m0 = some m' ∧
      ∀ c, m'.getEntry c = match es.find? (fun e => e.block == c) with
        | some e => some e.toEntry
        | none => m0.getEntry c := by
  induction es generalizing m0 with
  | nil => exact ⟨m0, rfl, fun c => rfl⟩
  | cons e r ih =>
    simp only [List.map_cons, List.nodup_cons] at hn
    obtain ⟨h1, h2⟩ := hok e List.mem_cons_self
    have hg0 := hf e List.mem_cons_self
    have hf' : ∀ e' ∈ r, (m0.addEntry e.block e.priority e.cancel e.wantType e.sendDontHave).getEntry e'.block = none := by
      intro e' he'
      rw [Msg.getEntry_addEntry]
      have : ¬ e'.block = e.block := fun hx => hn.1 (hx ▸ List.mem_map.mpr ⟨e', he', rfl⟩)
      simp only [this, ↓reduceIte]
      exact hf e' (List.mem_cons_of_mem _ he')
    obtain ⟨m', hm', hget⟩ := ih hn.2 (fun e' he' => hok e' (List.mem_cons_of_mem _ he')) _ hf'
    refine ⟨m', ?_, ?_⟩
    · unfold fromEntries
      simp only [h1, ↓reduceIte, h2, Bool.true_eq_false]
      exact hm'
    · intro c
      rw [hget c, find_cons_key (fun (x : PEntry) => x.block)]
      by_cases hc : e.block = c
      · subst hc
        have : r.find? (fun x => x.block == e.block) = none := find_none_of_not_mem _ _ _ hn.1
        simp [this, Msg.getEntry_addEntry, hg0, PEntry.toEntry]
      · have hc' : ¬ c = e.block := fun x => hc x.symm
        simp only [hc, ↓reduceIte]
        cases r.find? (fun x => x.block == c) with
        | some x => rfl
        | none => simp [Msg.getEntry_addEntry, hc']

theorem fromPayload_fresh (H : Hash) (bs : List (Bytes × Bytes)) (hn : (bs.map (·.1)).Nodup)
    (hh : ∀ x ∈ bs, H.sum (H.prefixOf x.1) x.2 = some x.1) (m0 : Msg) :
    ∃ m', fromPayload H (bs.map (fun b => ⟨H.prefixOf b.1, b.2⟩)) m0 = some m' ∧ m'.wl = m0.wl ∧
      m'.full = m0.full ∧ m'.pending = m0.pending ∧
      (∀ c, m'.getBlock c = match bs.find? (fun x => x.1 == c) with
        | some x => some x.2
        | none => m0.getBlock c) ∧
      (∀ c, m0.getPres c = none → m'.getPres c = none) := by
  induction bs generalizing m0 with
  | nil => exact ⟨m0, rfl, rfl, rfl, rfl, fun c => rfl, fun c h => h⟩
  | cons b r ih =>
    simp only [List.map_cons, List.nodup_cons] at hn
    have hs := hh b List.mem_cons_self
    obtain ⟨m', hm', hwl, hfull, hpend, hget, hpres⟩ :=
      ih hn.2 (fun x hx => hh x (List.mem_cons_of_mem _ hx)) (m0.addBlock b.1 b.2)
    refine ⟨m', ?_, hwl, hfull, hpend, ?_, ?_⟩
    · simp only [List.map_cons, fromPayload, hs]
      exact hm'
    · intro c
      rw [hget c, find_cons_key (fun (x : Bytes × Bytes) => x.1)]
      by_cases hc : b.1 = c
      · subst hc
        have : r.find? (fun x => x.1 == b.1) = none := find_none_of_not_mem _ _ _ hn.1
        simp [this, Msg.getBlock_addBlock]
      · have hc' : ¬ c = b.1 := fun x => hc x.symm
        simp only [hc, ↓reduceIte]
        cases r.find? (fun x => x.1 == c) with
        | some x => rfl
        | none => simp [Msg.getBlock_addBlock, hc']
    · intro c hc
      apply hpres
      rw [Msg.getPres_addBlock]
      split
      · rfl
      · exact hc

theorem fromPresences_fresh (H : Hash) (ps : List (Bytes × Int)) (hn : (ps.map (·.1)).Nodup)
    (hok : ∀ x ∈ ps, x.1.length ≠ 0 ∧ H.cast x.1 = true) (m0 : Msg)
    (hb : ∀ x ∈ ps, m0.getBlock x.1 = none) :
    ∃ m', fromPresences H (ps.map (fun x => ⟨x.1, x.2⟩)) m0 = some m' ∧ m'.wl = m0.wl ∧ m'.blocks = m0.blocks ∧
      m'.full = m0.full ∧ m'.pending = m0.pending ∧
      (∀ c, m'.getPres c = match ps.find? (fun x => x.1 == c) with
        | some x => some x.2
        | none => m0.getPres c) := by
  induction ps generalizing m0 with
  | nil => exact ⟨m0, rfl, rfl, rfl, rfl, rfl, fun c => rfl⟩
  | cons p r ih =>
    simp only [List.map_cons, List.nodup_cons] at hn
    obtain ⟨h1, h2⟩ := hok p List.mem_cons_self
    have hb0 := hb p List.mem_cons_self
    obtain ⟨o1, o2, o3, o4⟩ := Msg.addPresence_other m0 p.1 p.2
    have hb' : ∀ x ∈ r, (m0.addPresence p.1 p.2).getBlock x.1 = none := by
      intro x hx
      have := hb x (List.mem_cons_of_mem _ hx)
      unfold Msg.getBlock at this ⊢
      rw [o1]; exact this
    obtain ⟨m', hm', hwl, hblk, hfull, hpend, hget⟩ :=
      ih hn.2 (fun x hx => hok x (List.mem_cons_of_mem _ hx)) _ hb'
    refine ⟨m', ?_, hwl.trans o2, hblk.trans o1, hfull.trans o3, hpend.trans o4, ?_⟩
    · simp only [List.map_cons, fromPresences, h1, ↓reduceIte, h2, Bool.true_eq_false]
      exact hm'
    · intro c
      rw [hget c, find_cons_key (fun (x : Bytes × Int) => x.1)]
      by_cases hc : p.1 = c
      · subst hc
        have : r.find? (fun x => x.1 == p.1) = none := find_none_of_not_mem _ _ _ hn.1
        simp [this, Msg.getPres_addPresence, hb0]
      · have hc' : ¬ c = p.1 := fun x => hc x.symm
        simp only [hc, ↓reduceIte]
        cases r.find? (fun x => x.1 == c) with
        | some x => rfl
        | none => simp [Msg.getPres_addPresence, hc']


/-- the bitswap-1.0 `blocks` loop: with a collision-free hash on the data involved, the resulting
blocks are exactly the pairs (CIDv0 of d, d) -/
theorem fromV0Blocks_spec (H : Hash) (P : Bytes → Prop)
    (hinj : ∀ a b, P a → P b → H.sumV0 a = H.sumV0 b → a = b) (ds : List Bytes) (hds : ∀ d ∈ ds, P d)
    (m0 : Msg) (hm0 : ∀ x ∈ m0.blocks, P x.2 ∧ x.1 = H.sumV0 x.2) :
    (fromV0Blocks H ds m0).wl = m0.wl ∧ (fromV0Blocks H ds m0).full = m0.full ∧
    ∀ x, x ∈ (fromV0Blocks H ds m0).blocks ↔ (x.1 = H.sumV0 x.2 ∧ (x.2 ∈ ds ∨ x ∈ m0.blocks)) := by
  induction ds generalizing m0 with
  | nil =>
    refine ⟨rfl, rfl, fun x => ?_⟩
    simp only [fromV0Blocks, List.not_mem_nil, false_or]
    exact ⟨fun hx => ⟨(hm0 x hx).2, hx⟩, fun hx => hx.2⟩
  | cons d r ih =>
    have hm1 : ∀ x ∈ (m0.addBlock (H.sumV0 d) d).blocks, P x.2 ∧ x.1 = H.sumV0 x.2 := by
      intro x hx
      rcases Msg.mem_blocks_addBlock hx with rfl | ⟨hx, _⟩
      · exact ⟨hds d List.mem_cons_self, rfl⟩
      · exact hm0 x hx
    obtain ⟨i1, i2, i3⟩ := ih (fun y hy => hds y (List.mem_cons_of_mem _ hy)) _ hm1
    refine ⟨i1, i2, fun x => ?_⟩
    simp only [fromV0Blocks]
    rw [i3 x]
    constructor
    · rintro ⟨h1, h2 | h2⟩
      · exact ⟨h1, .inl (List.mem_cons_of_mem _ h2)⟩
      · rcases Msg.mem_blocks_addBlock h2 with rfl | ⟨h2, _⟩
        · exact ⟨h1, .inl List.mem_cons_self⟩
        · exact ⟨h1, .inr h2⟩
    · rintro ⟨h1, h2 | h2⟩
      · rcases List.mem_cons.mp h2 with h2 | h2
        · refine ⟨h1, .inr ?_⟩
          have : x = (H.sumV0 d, d) := by
            cases x; simp only at h1 h2; subst h2; rw [h1]
          rw [this]
          simp [Msg.addBlock]
        · exact ⟨h1, .inl h2⟩
      · refine ⟨h1, .inr ?_⟩
        by_cases hk : x.1 = H.sumV0 d
        · have hx2 : x.2 = d :=
            hinj _ _ (hm0 x h2).1 (hds d List.mem_cons_self) (by rw [← h1, hk])
          have : x = (H.sumV0 d, d) := by
            cases x; simp only at hk hx2; subst hx2; rw [hk]
          rw [this]
          simp [Msg.addBlock]
        · simp only [Msg.addBlock, List.mem_cons, List.mem_filter, bne_iff_ne, ne_eq]
          exact .inr ⟨h2, hk⟩

end C34
