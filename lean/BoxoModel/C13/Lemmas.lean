import BoxoModel.C13.Model
/-! Specification-level definitions and helper lemmas for C13. Property theorems: `Props/C13.lean`. -/
namespace C13

/-! ## specification vocabulary -/

/-- the walker can pass through `c`: the locality check accepts it and its block can be fetched -/
def avail (g : Graph) (c : Nat) : Prop := g.loc c = true ∧ g.fetch c ≠ none

/-- `Reach g a c`: there is a link path `a → … → c` all of whose nodes (both ends included) are available -/
inductive Reach (g : Graph) : Nat → Nat → Prop
  | refl {a} : avail g a → Reach g a a
  | step {a b d ks} : Reach g a b → g.fetch b = some ks → d ∈ ks → avail g d → Reach g a d

/-- Reference traversal: the textbook *recursive* pre-order DFS over a list of CIDs in order, children in
link order, mark-on-entry in a visited set of tracker keys, as a big-step relation
`Dfs g S cs S' out`: starting with visited set `S`, traversing `cs` ends with visited set `S'` and
has emitted `out`. -/
inductive Dfs (g : Graph) : List Nat → List Nat → List Nat → List Nat → Prop
  | nil (S) : Dfs g S [] S []
  | seen {S c cs S' o} : g.key c ∈ S → Dfs g S cs S' o → Dfs g S (c :: cs) S' o
  | skip {S c cs S' o} : g.key c ∉ S → (g.loc c = false ∨ g.fetch c = none) →
      Dfs g (g.key c :: S) cs S' o → Dfs g S (c :: cs) S' o
  | node {S c cs ks S1 o1 S2 o2} : g.key c ∉ S → g.loc c = true → g.fetch c = some ks →
      Dfs g (g.key c :: S) ks S1 o1 → Dfs g S1 cs S2 o2 →
      Dfs g S (c :: cs) S2 ((if g.ident c then [] else [c]) ++ o1 ++ o2)

/-- CIDs that share a tracker key are indistinguishable to the walker (true for CIDv0/CIDv1 aliases of
one dag-pb block when locality is a blockstore lookup; false for a raw-codec alias of a dag-pb block). -/
def AliasOK (g : Graph) : Prop :=
  ∀ c c', g.key c = g.key c' → g.loc c = g.loc c' ∧ g.ident c = g.ident c' ∧ g.fetch c = g.fetch c'

/-- a visited set is closed when the children of every available marked node are marked -/
def Closed (g : Graph) (S : List Nat) : Prop :=
  ∀ c, g.key c ∈ S → avail g c → ∀ ks, g.fetch c = some ks → ∀ d ∈ ks, g.key d ∈ S

/-- every available, non-identity marked node has been emitted (some alias of it is in `O`) -/
def Emitted (g : Graph) (S O : List Nat) : Prop :=
  ∀ c, g.key c ∈ S → avail g c → g.ident c = false → ∃ c' ∈ O, g.key c' = g.key c

/-! ## loop ↔ Dfs -/

theorem loop_nil (g : Graph) (useT : Bool) (stopAt fuel : Nat) (tr : MapT) (out : List Nat) :
    loop g useT stopAt (fuel + 1) { stack := [], tr := tr, out := out } = some { stack := [], tr := tr, out := out } := by
  simp [loop]

/-- A terminating run of the loop from stack `cs ++ rest` splits into a reference traversal of `cs`
followed by a run from `rest`. -/
theorem loop_decompose (g : Graph) : ∀ (fuel : Nat) (cs rest S : List Nat) (d : Nat) (out0 : List Nat) (r : St),
    loop g true 0 fuel { stack := cs ++ rest, tr := { set := S, dedup := d }, out := out0 } = some r →
    ∃ S' o d' fuel', fuel' ≤ fuel ∧ Dfs g S cs S' o ∧
      loop g true 0 fuel' { stack := rest, tr := { set := S', dedup := d' }, out := out0 ++ o } = some r := by
  intro fuel
  induction fuel using Nat.strongRecOn with
  | _ fuel ih =>
    intro cs rest S d out0 r h
    cases fuel with
    | zero => simp [loop] at h
    | succ n =>
      cases cs with
      | nil => exact ⟨S, [], d, n + 1, Nat.le_refl _, Dfs.nil S, by simpa using h⟩
      | cons c cs' =>
        by_cases hk : g.key c ∈ S
        · -- already visited
          simp [loop, MapT.visit, hk] at h
          obtain ⟨S', o, d', f', hf, hd, hl⟩ := ih n (Nat.lt_succ_self n) cs' rest S (d + 1) out0 r h
          exact ⟨S', o, d', f', Nat.le_succ_of_le hf, Dfs.seen hk hd, hl⟩
        · by_cases hloc : g.loc c = true
          · cases hf : g.fetch c with
            | none =>
              simp [loop, MapT.visit, hk, hloc, hf] at h
              obtain ⟨S', o, d', f', hf', hd, hl⟩ := ih n (Nat.lt_succ_self n) cs' rest _ d out0 r h
              exact ⟨S', o, d', f', Nat.le_succ_of_le hf', Dfs.skip hk (Or.inr hf) hd, hl⟩
            | some ks =>
              by_cases hid : g.ident c = true
              · simp [loop, MapT.visit, hk, hloc, hf, hid] at h
                rw [← List.append_assoc] at h
                obtain ⟨S1, o1, d1, f1, hf1, hd1, hl1⟩ := ih n (Nat.lt_succ_self n) ks (cs' ++ rest) _ d out0 r
                  (by simpa using h)
                obtain ⟨S2, o2, d2, f2, hf2, hd2, hl2⟩ := ih f1 (Nat.lt_succ_of_le hf1) cs' rest S1 d1 _ r hl1
                refine ⟨S2, _, d2, f2, by omega, Dfs.node hk hloc hf hd1 hd2, ?_⟩
                simpa [hid, List.append_assoc] using hl2
              · have hid' : g.ident c = false := by cases h' : g.ident c <;> simp_all
                simp [loop, MapT.visit, hk, hloc, hf, hid'] at h
                obtain ⟨S1, o1, d1, f1, hf1, hd1, hl1⟩ := ih n (Nat.lt_succ_self n) ks (cs' ++ rest) _ d (out0 ++ [c]) r
                  (by simpa using h)
                obtain ⟨S2, o2, d2, f2, hf2, hd2, hl2⟩ := ih f1 (Nat.lt_succ_of_le hf1) cs' rest S1 d1 _ r hl1
                refine ⟨S2, _, d2, f2, by omega, Dfs.node hk hloc hf hd1 hd2, ?_⟩
                simpa [hid', List.append_assoc] using hl2
          · have hloc' : g.loc c = false := by cases h' : g.loc c <;> simp_all
            simp [loop, MapT.visit, hk, hloc'] at h
            obtain ⟨S', o, d', f', hf', hd, hl⟩ := ih n (Nat.lt_succ_self n) cs' rest _ d out0 r h
            exact ⟨S', o, d', f', Nat.le_succ_of_le hf', Dfs.skip hk (Or.inl hloc') hd, hl⟩

/-! ## fuel -/

theorem pending_cons_le (g : Graph) (k : Nat) (S : List Nat) : ∀ m, pending g (k :: S) m ≤ pending g S m := by
  intro m
  induction m with
  | zero => simp [pending]
  | succ m ih =>
    simp only [pending]
    by_cases h1 : g.key m ∈ S
    · have : g.key m ∈ k :: S := List.mem_cons_of_mem _ h1
      simp [h1, this]; exact ih
    · by_cases h2 : g.key m ∈ k :: S
      · simp [h1, h2]; omega
      · simp [h1, h2]; omega

theorem pending_visit (g : Graph) (S : List Nat) (c : Nat) (hk : g.key c ∉ S) :
    ∀ m, c < m → pending g (g.key c :: S) m + 1 + deg g c ≤ pending g S m := by
  intro m
  induction m with
  | zero => intro h; omega
  | succ m ih =>
    intro hc
    simp only [pending]
    by_cases hcm : c = m
    · subst hcm
      have := pending_cons_le g (g.key c) S c
      simp [hk]; omega
    · have := ih (by omega)
      by_cases h1 : g.key m ∈ S
      · have h2 : g.key m ∈ g.key c :: S := List.mem_cons_of_mem _ h1
        simp [h1, h2]; omega
      · by_cases h2 : g.key m ∈ g.key c :: S
        · simp [h1, h2]; omega
        · simp [h1, h2]; omega

theorem loop_fuel_ok (g : Graph) (stopAt : Nat) : ∀ (fuel : Nat) (s : St),
    fuelFor g s.tr.set s.stack ≤ fuel → (loop g true stopAt fuel s).isSome = true := by
  intro fuel
  induction fuel with
  | zero => intro s h; simp [fuelFor] at h
  | succ n ih =>
    intro s h
    obtain ⟨stack, tr, out⟩ := s
    obtain ⟨S, d⟩ := tr
    cases stack with
    | nil => simp [loop]
    | cons c rest =>
      simp only [fuelFor, List.length_cons] at h
      by_cases hk : g.key c ∈ S
      · simp only [loop, MapT.visit, hk]
        simp
        apply ih; simp [fuelFor]; omega
      · have hp := pending_cons_le g (g.key c) S g.n
        by_cases hloc : g.loc c = true
        · cases hf : g.fetch c with
          | none =>
            simp [loop, MapT.visit, hk, hloc, hf]
            apply ih; simp [fuelFor]; omega
          | some ks =>
            have hcn : c < g.n := by
              unfold Graph.fetch at hf
              by_cases hc : c < g.n
              · exact hc
              · simp [hc] at hf
            have hv := pending_visit g S c hk g.n hcn
            have hdeg : deg g c = ks.length := by simp [deg, hf]
            by_cases hid : g.ident c = true
            · simp [loop, MapT.visit, hk, hloc, hf, hid]
              apply ih; simp [fuelFor]; omega
            · have hid' : g.ident c = false := by cases h' : g.ident c <;> simp_all
              simp only [loop, MapT.visit, hk, hloc, hf, hid']
              simp
              split
              · rfl
              · apply ih; simp [fuelFor]; omega
        · have hloc' : g.loc c = false := by cases h' : g.loc c <;> simp_all
          simp [loop, MapT.visit, hk, hloc']
          apply ih; simp [fuelFor]; omega

/-! ## facts about the reference traversal -/

theorem Dfs.mono {g : Graph} {S cs S' o} (h : Dfs g S cs S' o) : ∀ k ∈ S, k ∈ S' := by
  induction h with
  | nil S => intro k hk; exact hk
  | seen _ _ ih => exact ih
  | skip _ _ _ ih => intro k hk; exact ih k (List.mem_cons_of_mem _ hk)
  | node _ _ _ _ _ ih1 ih2 => intro k hk; exact ih2 k (ih1 k (List.mem_cons_of_mem _ hk))

theorem Dfs.roots_marked {g : Graph} {S cs S' o} (h : Dfs g S cs S' o) : ∀ c ∈ cs, g.key c ∈ S' := by
  induction h with
  | nil S => intro c hc; simp at hc
  | seen hk hd ih =>
    intro c hc
    rcases List.mem_cons.1 hc with rfl | hc
    · exact hd.mono _ hk
    · exact ih c hc
  | skip _ _ hd ih =>
    intro c hc
    rcases List.mem_cons.1 hc with rfl | hc
    · exact hd.mono _ (List.mem_cons_self)
    · exact ih c hc
  | node _ _ _ hd1 hd2 _ ih2 =>
    intro c hc
    rcases List.mem_cons.1 hc with rfl | hc
    · exact hd2.mono _ (hd1.mono _ (List.mem_cons_self))
    · exact ih2 c hc

theorem Dfs.deterministic {g : Graph} {S cs S1 o1} (h1 : Dfs g S cs S1 o1) :
    ∀ {S2 o2}, Dfs g S cs S2 o2 → S1 = S2 ∧ o1 = o2 := by
  induction h1 with
  | nil S => intro S2 o2 h2; cases h2; exact ⟨rfl, rfl⟩
  | seen hk _ ih =>
    intro S2 o2 h2
    cases h2 with
    | seen _ h => exact ih h
    | skip hk' _ _ => exact absurd hk hk'
    | node hk' _ _ _ _ => exact absurd hk hk'
  | skip hk hs _ ih =>
    intro S2 o2 h2
    cases h2 with
    | seen hk' _ => exact absurd hk' hk
    | skip _ _ h => exact ih h
    | node _ hl hf _ _ =>
      rcases hs with hs | hs
      · rw [hl] at hs; cases hs
      · rw [hf] at hs; cases hs
  | node hk hl hf _ _ ih1 ih2 =>
    intro S2 o2 h2
    cases h2 with
    | seen hk' _ => exact absurd hk' hk
    | skip _ hs _ =>
      rcases hs with hs | hs
      · rw [hl] at hs; cases hs
      · rw [hf] at hs; cases hs
    | node _ _ hf' ha hb =>
      rw [hf] at hf'; cases hf'
      obtain ⟨rfl, rfl⟩ := ih1 ha
      obtain ⟨rfl, rfl⟩ := ih2 hb
      exact ⟨rfl, rfl⟩

/-- the keys of the emitted CIDs, in order, followed by the old set, have no duplicates
(⇒ nothing emitted twice, nothing emitted whose key was already marked) -/
theorem Dfs.emitted_new {g : Graph} {S cs S' o} (h : Dfs g S cs S' o) :
    (∀ c ∈ o, g.key c ∉ S ∧ g.key c ∈ S') ∧ (o.map g.key).Nodup := by
  induction h with
  | nil S => simp
  | seen _ _ ih => exact ih
  | skip _ _ _ ih =>
    refine ⟨fun c hc => ⟨fun hS => (ih.1 c hc).1 (List.mem_cons_of_mem _ hS), (ih.1 c hc).2⟩, ih.2⟩
  | @node S c cs ks S1 o1 S2 o2 hk _ _ hd1 hd2 ih1 ih2 =>
    have hkS1 : g.key c ∈ S1 := hd1.mono _ (List.mem_cons_self)
    have m1 : ∀ x ∈ o1, g.key x ∉ S ∧ g.key x ≠ g.key c ∧ g.key x ∈ S2 := by
      intro x hx
      have := ih1.1 x hx
      refine ⟨fun hS => this.1 (List.mem_cons_of_mem _ hS), fun he => this.1 (he ▸ List.mem_cons_self), hd2.mono _ this.2⟩
    have m2 : ∀ x ∈ o2, g.key x ∉ S ∧ g.key x ∉ S1 ∧ g.key x ∈ S2 := by
      intro x hx
      have := ih2.1 x hx
      exact ⟨fun hS => this.1 (hd1.mono _ (List.mem_cons_of_mem _ hS)), this.1, this.2⟩
    constructor
    · intro x hx
      simp only [List.mem_append] at hx
      rcases hx with (hx | hx) | hx
      · by_cases hid : g.ident c = true
        · simp [hid] at hx
        · simp [hid] at hx; subst hx; exact ⟨hk, hd2.mono _ hkS1⟩
      · exact ⟨(m1 x hx).1, (m1 x hx).2.2⟩
      · exact ⟨(m2 x hx).1, (m2 x hx).2.2⟩
    · rw [List.map_append, List.map_append, List.nodup_append, List.nodup_append]
      refine ⟨⟨?_, ih1.2, ?_⟩, ih2.2, ?_⟩
      · by_cases hid : g.ident c = true <;> simp [hid]
      · intro a ha b hb hab
        by_cases hid : g.ident c = true
        · simp [hid] at ha
        · simp [hid] at ha
          obtain ⟨x, hx, rfl⟩ := List.mem_map.1 hb
          exact (m1 x hx).2.1 (by rw [← hab, ha])
      · intro a ha b hb hab
        obtain ⟨y, hy, rfl⟩ := List.mem_map.1 hb
        rcases List.mem_append.1 ha with ha | ha
        · by_cases hid : g.ident c = true
          · simp [hid] at ha
          · simp [hid] at ha
            exact (m2 y hy).2.1 (by rw [← hab, ha]; exact hkS1)
        · obtain ⟨x, hx, rfl⟩ := List.mem_map.1 ha
          exact (m2 y hy).2.1 (by rw [← hab]; exact (ih1.1 x hx).2)

theorem Reach.head {g : Graph} {a r c : Nat} {ks : List Nat} (ha : avail g a) (hf : g.fetch a = some ks)
    (hr : r ∈ ks) (h : Reach g r c) : Reach g a c := by
  induction h with
  | refl hav => exact Reach.step (Reach.refl ha) hf hr hav
  | step _ hf' hd hav ih => exact Reach.step ih hf' hd hav

/-- soundness: whatever the reference traversal emits is a non-identity CID that passed the locality
check, was fetched, and is reachable from one of the start CIDs through available nodes only -/
theorem Dfs.sound {g : Graph} {S cs S' o} (h : Dfs g S cs S' o) :
    ∀ c ∈ o, g.ident c = false ∧ ∃ r ∈ cs, Reach g r c := by
  induction h with
  | nil S => intro c hc; simp at hc
  | seen _ _ ih =>
    intro x hx; obtain ⟨h1, r, hr, h2⟩ := ih x hx
    exact ⟨h1, r, List.mem_cons_of_mem _ hr, h2⟩
  | skip _ _ _ ih =>
    intro x hx; obtain ⟨h1, r, hr, h2⟩ := ih x hx
    exact ⟨h1, r, List.mem_cons_of_mem _ hr, h2⟩
  | @node S c cs ks S1 o1 S2 o2 _ hl hf _ _ ih1 ih2 =>
    have hav : avail g c := ⟨hl, by rw [hf]; simp⟩
    intro x hx
    simp only [List.mem_append] at hx
    rcases hx with (hx | hx) | hx
    · by_cases hid : g.ident c = true
      · simp [hid] at hx
      · have hid' : g.ident c = false := by cases h' : g.ident c <;> simp_all
        simp [hid'] at hx; subst hx
        exact ⟨hid', x, List.mem_cons_self, Reach.refl hav⟩
    · obtain ⟨h1, r, hr, h2⟩ := ih1 x hx
      exact ⟨h1, c, List.mem_cons_self, Reach.head hav hf hr h2⟩
    · obtain ⟨h1, r, hr, h2⟩ := ih2 x hx
      exact ⟨h1, r, List.mem_cons_of_mem _ hr, h2⟩

/-- what the traversal newly marks has been fully processed -/
theorem Dfs.processed {g : Graph} (hA : AliasOK g) {S cs S' o} (h : Dfs g S cs S' o) :
    ∀ c, g.key c ∈ S' → g.key c ∉ S → avail g c →
      (∀ ks, g.fetch c = some ks → ∀ d ∈ ks, g.key d ∈ S') ∧
      (g.ident c = false → ∃ c' ∈ o, g.key c' = g.key c) := by
  induction h with
  | nil S => intro c h1 h2; exact absurd h1 h2
  | seen _ _ ih => exact ih
  | @skip S c0 cs S' o hk hs hd ih =>
    intro c h1 h2 hav
    by_cases he : g.key c = g.key c0
    · obtain ⟨e1, _, e3⟩ := hA c c0 he
      rcases hs with hs | hs
      · rw [hav.1] at e1; rw [hs] at e1; cases e1
      · exact absurd (e3.trans hs) hav.2
    · exact ih c h1 (by simp [he, h2]) hav
  | @node S c0 cs ks0 S1 o1 S2 o2 hk hl hf hd1 hd2 ih1 ih2 =>
    intro c h1 h2 hav
    by_cases he : g.key c = g.key c0
    · obtain ⟨_, e2, e3⟩ := hA c c0 he
      constructor
      · intro ks hks d hd
        rw [e3, hf] at hks; cases hks
        exact hd2.mono _ (hd1.roots_marked d hd)
      · intro hid
        rw [e2] at hid
        exact ⟨c0, by simp [hid], he.symm⟩
    · by_cases h3 : g.key c ∈ S1
      · obtain ⟨a, b⟩ := ih1 c h3 (by simp [he, h2]) hav
        refine ⟨fun ks hks d hd => hd2.mono _ (a ks hks d hd), fun hid => ?_⟩
        obtain ⟨c', hc', e⟩ := b hid
        exact ⟨c', by simp [hc'], e⟩
      · obtain ⟨a, b⟩ := ih2 c h1 h3 hav
        refine ⟨a, fun hid => ?_⟩
        obtain ⟨c', hc', e⟩ := b hid
        exact ⟨c', by simp [hc'], e⟩

theorem Dfs.closed {g : Graph} (hA : AliasOK g) {S cs S' o} (h : Dfs g S cs S' o) (hC : Closed g S) :
    Closed g S' := by
  intro c hc hav ks hks d hd
  by_cases hS : g.key c ∈ S
  · exact h.mono _ (hC c hS hav ks hks d hd)
  · exact (h.processed hA c hc hS hav).1 ks hks d hd

theorem Closed.reach {g : Graph} {S : List Nat} (hC : Closed g S) {a c : Nat} (ha : g.key a ∈ S)
    (h : Reach g a c) : g.key c ∈ S := by
  induction h with
  | refl _ => exact ha
  | @step b d ks hr hf hd _ ih =>
    have hb : avail g b := by
      cases hr with
      | refl hav => exact hav
      | step _ _ _ hav => exact hav
    exact hC _ ih hb _ hf _ hd

/-! ## emit returning false: the output is a prefix -/

/-- one iteration of the loop on a non-empty stack, with the tracker verdict named `v` -/
def body (g : Graph) (useT : Bool) (stopAt n : Nat) (c : Nat) (rest : List Nat) (out : List Nat)
    (v : MapT × Bool) : Option St :=
  if !v.2 then loop g useT stopAt n { stack := rest, tr := v.1, out := out }
  else if !g.loc c then loop g useT stopAt n { stack := rest, tr := v.1, out := out }
  else
    match g.fetch c with
    | none => loop g useT stopAt n { stack := rest, tr := v.1, out := out }
    | some ks =>
      if g.ident c then loop g useT stopAt n { stack := ks ++ rest, tr := v.1, out := out }
      else if stopAt != 0 && out.length + 1 == stopAt then
        some { stack := ks ++ rest, tr := v.1, out := out ++ [c] }
      else loop g useT stopAt n { stack := ks ++ rest, tr := v.1, out := out ++ [c] }

theorem loop_succ_cons (g : Graph) (useT : Bool) (stopAt n c : Nat) (rest : List Nat) (tr : MapT) (out : List Nat) :
    loop g useT stopAt (n + 1) { stack := c :: rest, tr := tr, out := out } =
      body g useT stopAt n c rest out (if useT then tr.visit (g.key c) else (tr, true)) := by
  rfl

theorem loop_out_prefix (g : Graph) (useT : Bool) (stopAt : Nat) : ∀ (fuel : Nat) (s r : St),
    loop g useT stopAt fuel s = some r → ∃ t, r.out = s.out ++ t := by
  intro fuel
  induction fuel with
  | zero => intro s r h; simp [loop] at h
  | succ n ih =>
    intro s r h
    obtain ⟨stack, tr, out⟩ := s
    cases stack with
    | nil => simp [loop] at h; subst h; exact ⟨[], by simp⟩
    | cons c rest =>
      rw [loop_succ_cons] at h
      generalize (if useT then tr.visit (g.key c) else (tr, true)) = v at h
      unfold body at h
      show ∃ t, r.out = out ++ t
      split at h
      · exact ih _ _ h
      · split at h
        · exact ih _ _ h
        · split at h
          · exact ih _ _ h
          · split at h
            · exact ih _ _ h
            · split at h
              · simp at h; subst h; exact ⟨[c], rfl⟩
              · obtain ⟨t, ht⟩ := ih _ _ h
                exact ⟨c :: t, by simp [ht]⟩

/-- a walk whose emit callback stops it after `k` calls emits the first `k` CIDs of the unstopped walk -/
theorem loop_stop_take (g : Graph) (useT : Bool) (k : Nat) : ∀ (fuel : Nat) (s r0 : St),
    s.out.length < k → loop g useT 0 fuel s = some r0 →
    ∃ r, loop g useT k fuel s = some r ∧ r.out = r0.out.take k := by
  intro fuel
  induction fuel with
  | zero => intro s r0 _ h; simp [loop] at h
  | succ n ih =>
    intro s r0 hlen h
    obtain ⟨stack, tr, out⟩ := s
    have hk0 : k ≠ 0 := by omega
    cases stack with
    | nil =>
      simp [loop] at h ⊢; subst h
      simp at hlen
      simp [List.take_of_length_le (Nat.le_of_lt hlen)]
    | cons c rest =>
      rw [loop_succ_cons] at h ⊢
      generalize (if useT then tr.visit (g.key c) else (tr, true)) = v at h ⊢
      unfold body at h ⊢
      simp only [] at hlen
      split
      · rename_i hv; simp only [hv, if_true] at h; exact ih _ _ hlen h
      · rename_i hv; simp only [hv, if_false] at h
        split
        · rename_i hl; simp only [hl, if_true] at h; exact ih _ _ hlen h
        · rename_i hl; simp only [hl, if_false] at h
          split
          · rename_i hf; simp only [hf] at h; exact ih _ _ hlen h
          · rename_i ks hf; simp only [hf] at h
            split
            · rename_i hid; simp only [hid, if_true] at h; exact ih _ _ hlen h
            · rename_i hid; simp only [hid] at h
              simp at h
              split
              · rename_i hstop
                simp [hk0] at hstop
                obtain ⟨t, ht⟩ := loop_out_prefix g useT 0 n _ _ h
                refine ⟨_, rfl, ?_⟩
                simp at ht ⊢
                have e : out ++ c :: t = (out ++ [c]) ++ t := by simp
                rw [ht, e, List.take_append_of_le_length (by simp; omega)]
                rw [List.take_of_length_le (by simp; omega)]
              · rename_i hstop
                simp [hk0] at hstop
                exact ih _ _ (by simp; omega) h

/-! ## BloomTracker -/

/-- bits only get added -/
def BitsLe (a b : List (List Nat)) : Prop :=
  a.length ≤ b.length ∧ ∀ i (h : i < a.length), ∀ p ∈ a[i], ∃ h' : i < b.length, p ∈ b[i]

theorem fhas_mono {f f' pos : List Nat} (h : ∀ p ∈ f, p ∈ f') (hh : fhas f pos = true) : fhas f' pos = true := by
  simp only [fhas, List.all_eq_true, List.contains_iff_mem] at hh ⊢
  intro p hp
  simpa using h p (by simpa using hh p hp)

/-- key `k` is covered by the filters `fs` (numbered from `i`) -/
theorem hasFrom_mono (h : Nat → Nat → List Nat) (k : Nat) : ∀ (fs fs' : List (List Nat)) (i : Nat),
    fs.length ≤ fs'.length → (∀ j (hj : j < fs.length), ∀ p ∈ fs[j], ∃ hj' : j < fs'.length, p ∈ fs'[j]) →
    hasFrom h k i fs = true → hasFrom h k i fs' = true := by
  intro fs
  induction fs with
  | nil => intro fs' i _ _ hh; simp [hasFrom] at hh
  | cons f fs ih =>
    intro fs' i hl hb hh
    cases fs' with
    | nil => simp at hl
    | cons f' fs' =>
      simp only [hasFrom, Bool.or_eq_true] at hh ⊢
      rcases hh with hh | hh
      · left
        refine fhas_mono (fun p hp => ?_) hh
        obtain ⟨_, hp'⟩ := hb 0 (by simp) p (by simpa using hp)
        simpa using hp'
      · right
        refine ih fs' (i + 1) (by simpa using hl) (fun j hj p hp => ?_) hh
        obtain ⟨hj', hp'⟩ := hb (j + 1) (by simpa using hj) p (by simpa using hp)
        exact ⟨by simpa using hj', by simpa using hp'⟩

theorem fhas_self_append (pos f : List Nat) : fhas (pos ++ f) pos = true := by
  simp [fhas, List.all_eq_true]
  intro p hp; exact Or.inl hp

/-- `visitFrom` keeps the length, only adds bits, and afterwards the key is covered; it answers `false`
exactly when the key was covered before (and then changes nothing) -/
theorem visitFrom_spec (h : Nat → Nat → List Nat) (k : Nat) : ∀ (fs : List (List Nat)) (i : Nat), fs ≠ [] →
    (visitFrom h k i fs).1.length = fs.length ∧
    (∀ j (hj : j < fs.length), ∀ p ∈ fs[j], ∃ hj' : j < (visitFrom h k i fs).1.length, p ∈ (visitFrom h k i fs).1[j]) ∧
    hasFrom h k i (visitFrom h k i fs).1 = true ∧
    ((visitFrom h k i fs).2 = !hasFrom h k i fs) ∧
    ((visitFrom h k i fs).2 = false → (visitFrom h k i fs).1 = fs) := by
  intro fs
  induction fs with
  | nil => intro i hne; exact absurd rfl hne
  | cons f fs ih =>
    intro i _
    cases fs with
    | nil =>
      by_cases hf : fhas f (h i k) = true
      · simp [visitFrom, hf, hasFrom]
      · have hf' : fhas f (h i k) = false := by cases h' : fhas f (h i k) <;> simp_all
        simp [visitFrom, hf', hasFrom, fhas_self_append]
        intro p hp; exact Or.inr hp
    | cons f' fs' =>
      by_cases hf : fhas f (h i k) = true
      · simp [visitFrom, hf, hasFrom]
        intro j hj p hp; exact ⟨hj, hp⟩
      · have hf' : fhas f (h i k) = false := by cases h' : fhas f (h i k) <;> simp_all
        obtain ⟨a, b, c, d, e⟩ := ih (i + 1) (by simp)
        simp only [visitFrom, hf', hasFrom, Bool.false_eq_true, if_false, Bool.false_or]
        refine ⟨by simp [a], ?_, c, d, fun hh => by rw [e hh]⟩
        intro j hj p hp
        cases j with
        | zero => exact ⟨by simp, by simpa using hp⟩
        | succ j =>
          obtain ⟨hj', hp'⟩ := b j (by simpa using hj) p (by simpa using hp)
          exact ⟨by simpa using hj', by simpa using hp'⟩

theorem hasFrom_append_nil (h : Nat → Nat → List Nat) (k : Nat) : ∀ (fs : List (List Nat)) (i : Nat),
    hasFrom h k i fs = true → hasFrom h k i (fs ++ [[]]) = true := by
  intro fs i hh
  refine hasFrom_mono h k fs (fs ++ [[]]) i (by simp) (fun j hj p hp => ?_) hh
  exact ⟨by simp; omega, by rw [List.getElem_append_left hj]; exact hp⟩

/-- the chain after `Visit` extends the chain before (same filters with more bits, maybe one more filter) -/
theorem BT.visit_chain (h : Nat → Nat → List Nat) (bt : BT) (k : Nat) (hne : bt.chain ≠ []) :
    (bt.visit h k).1.chain ≠ [] ∧
    bt.chain.length ≤ (bt.visit h k).1.chain.length ∧
    (∀ j (hj : j < bt.chain.length), ∀ p ∈ bt.chain[j],
        ∃ hj' : j < (bt.visit h k).1.chain.length, p ∈ (bt.visit h k).1.chain[j]) ∧
    (bt.visit h k).1.has h k = true ∧
    ((bt.visit h k).2 = !bt.has h k) := by
  obtain ⟨a, b, c, d, e⟩ := visitFrom_spec h k bt.chain 0 hne
  unfold BT.visit
  by_cases hr : (visitFrom h k 0 bt.chain).2 = true
  · simp only [hr, Bool.not_true, Bool.false_eq_true, if_false]
    split
    · refine ⟨by simp, by simp; omega, ?_, ?_, by simpa [BT.has, hr] using d⟩
      · intro j hj p hp
        obtain ⟨hj', hp'⟩ := b j hj p hp
        exact ⟨by simp; omega, by rw [List.getElem_append_left hj']; exact hp'⟩
      · exact hasFrom_append_nil h k _ 0 c
    · refine ⟨?_, by simp [a], ?_, by simpa [BT.has] using c, by simpa [BT.has, hr] using d⟩
      · intro hnil; simp at hnil; rw [hnil] at a; simp at a; exact hne (List.eq_nil_of_length_eq_zero a.symm)
      · intro j hj p hp; exact b j hj p hp
  · have hr' : (visitFrom h k 0 bt.chain).2 = false := by cases h' : (visitFrom h k 0 bt.chain).2 <;> simp_all
    simp only [hr', Bool.not_false, if_true]
    refine ⟨hne, Nat.le_refl _, fun j hj p hp => ⟨hj, hp⟩, ?_, ?_⟩
    · have := e hr'; rw [this] at c; simpa [BT.has] using c
    · simpa [BT.has, hr'] using d

/-! ## entity walk -/

/-- the entity walk descends below `c` (Directory, HAMT shard, unknown) -/
def descends (ent : Nat → Entity) (c : Nat) : Prop := ent c ≠ .file ∧ ent c ≠ .symlink

/-- reachability for the entity walk: available nodes only, never through a File / Symlink entity -/
inductive ReachE (g : Graph) (ent : Nat → Entity) : Nat → Nat → Prop
  | refl {a} : avail g a → ReachE g ent a a
  | step {a b d ks} : ReachE g ent a b → descends ent b → g.fetch b = some ks → d ∈ ks → avail g d →
      ReachE g ent a d

theorem cut_fetch (g : Graph) (ent : Nat → Entity) (c : Nat) :
    (cut g ent).fetch c = match g.fetch c with
      | none => none
      | some ks => if ent c = .file ∨ ent c = .symlink then some [] else some ks := by
  unfold Graph.fetch cut
  by_cases hc : c < g.n
  · simp only [hc, if_true]; cases g.links c <;> rfl
  · simp [hc]

theorem avail_cut (g : Graph) (ent : Nat → Entity) (c : Nat) : avail (cut g ent) c ↔ avail g c := by
  unfold avail
  rw [cut_fetch]
  have : (cut g ent).loc c = g.loc c := rfl
  rw [this]
  cases hf : g.fetch c with
  | none => simp
  | some ks => by_cases he : ent c = .file ∨ ent c = .symlink <;> simp [he]

theorem reach_cut_iff (g : Graph) (ent : Nat → Entity) (a c : Nat) :
    Reach (cut g ent) a c ↔ ReachE g ent a c := by
  constructor
  · intro h
    induction h with
    | refl hav => exact ReachE.refl ((avail_cut g ent _).1 hav)
    | @step b d ks _ hf hd hav ih =>
      rw [cut_fetch] at hf
      cases hf' : g.fetch b with
      | none => simp [hf'] at hf
      | some ks' =>
        by_cases he : ent b = .file ∨ ent b = .symlink
        · simp [hf', he] at hf; subst hf; simp at hd
        · simp [hf', he] at hf; subst hf
          exact ReachE.step ih ⟨fun h => he (Or.inl h), fun h => he (Or.inr h)⟩ hf' hd ((avail_cut g ent _).1 hav)
  · intro h
    induction h with
    | refl hav => exact Reach.refl ((avail_cut g ent _).2 hav)
    | @step b d ks _ hdesc hf hd hav ih =>
      refine Reach.step ih ?_ hd ((avail_cut g ent _).2 hav)
      rw [cut_fetch, hf]
      have : ¬(ent b = .file ∨ ent b = .symlink) := fun h => h.elim hdesc.1 hdesc.2
      simp [this]

end C13
