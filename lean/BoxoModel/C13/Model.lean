/-
C13 — dag/walker: executable model of the provide-walker and its visited trackers.

Transcribed from /repo/dag/walker/{walker,visited,entity}.go:
  walkLoop (walker.go:97)           ~ `loop`   : explicit stack (head of the list = top of the Go slice),
                                       pop, tracker.Visit, locality, fetch, push children (the Go code
                                       reverses them and appends, i.e. the first link is popped next),
                                       identity CIDs are not emitted, emit may stop the walk
  MapTracker (visited.go:116)       ~ `MapT`   : set of multihash keys + `deduplicated`
  BloomTracker (visited.go:200)     ~ `BT`     : chain of filters (a filter = the set of set bit positions),
                                       lastCap/curInserts/totalInserts/deduplicated, Visit/Has/grow; the
                                       probe positions of filter number i for key k are `h i k`, an
                                       arbitrary function (bbloom + random SipHash keys are not modelled)
  WalkEntityRoots (entity.go:121)   ~ `loop` over `cut g stops` (the wrapped fetch returns no children for
                                       File/Symlink entities)
  detectEntityType (entity.go:61)   ~ `detect`

A CID is a natural number (the driver numbers them `3*node + view`); what the code can observe of it is
given by the `Graph` record: its tracker key (the multihash for MapTracker/BloomTracker, the CID itself
for cid.Set), what the fetch callback returns for it (`none` = error), the locality verdict and whether
its multihash is the identity hash.  Hash functions are parameters: the theorems hold for every `Graph`.
Core-only (no Mathlib): imported by the line-protocol driver.
-/
import Std.Data.HashSet
namespace C13

/-! ## the graph as the walker sees it -/

structure Graph where
  /-- CIDs `≥ n` are unknown to the block source: fetching them fails -/
  n : Nat
  key : Nat → Nat
  links : Nat → Option (List Nat)
  /-- verdict of the locality check (`true` when no check is configured; an erroring check = `false`) -/
  loc : Nat → Bool
  ident : Nat → Bool

/-- the fetch callback: children in link order, `none` = error -/
def Graph.fetch (g : Graph) (c : Nat) : Option (List Nat) := if c < g.n then g.links c else none

/-! ## MapTracker -/

structure MapT where
  set : List Nat := []
  dedup : Nat := 0

def MapT.visit (t : MapT) (k : Nat) : MapT × Bool :=
  if k ∈ t.set then ({ t with dedup := t.dedup + 1 }, false) else ({ t with set := k :: t.set }, true)

def MapT.has (t : MapT) (k : Nat) : Bool := decide (k ∈ t.set)

/-! ## walkLoop -/

structure St where
  stack : List Nat
  tr : MapT
  out : List Nat

/-- `walkLoop`. `useT` = a tracker is configured; `stopAt = k > 0` = the emit callback returns false on
its k-th call (0 = never).  One unit of fuel per loop iteration; `none` = out of fuel
(`C13.c13_fuel_ok`: never happens with a tracker and the fuel `fuelFor`). -/
def loop (g : Graph) (useT : Bool) (stopAt : Nat) : Nat → St → Option St
  | 0, _ => none
  | fuel + 1, s =>
    match s.stack with
    | [] => some s
    | c :: rest =>
      let v := if useT then s.tr.visit (g.key c) else (s.tr, true)
      if !v.2 then loop g useT stopAt fuel { stack := rest, tr := v.1, out := s.out }
      else if !g.loc c then loop g useT stopAt fuel { stack := rest, tr := v.1, out := s.out }
      else
        match g.fetch c with
        | none => loop g useT stopAt fuel { stack := rest, tr := v.1, out := s.out }
        | some ks =>
          if g.ident c then loop g useT stopAt fuel { stack := ks ++ rest, tr := v.1, out := s.out }
          else if stopAt != 0 && s.out.length + 1 == stopAt then
            some { stack := ks ++ rest, tr := v.1, out := s.out ++ [c] }
          else loop g useT stopAt fuel { stack := ks ++ rest, tr := v.1, out := s.out ++ [c] }

/-- number of links the fetch callback returns for `c` (0 on error) -/
def deg (g : Graph) (c : Nat) : Nat := ((g.fetch c).getD []).length

/-- Σ over the CIDs `c < m` whose key is not yet in `S` of `1 + deg c` -/
def pending (g : Graph) (S : List Nat) : Nat → Nat
  | 0 => 0
  | m + 1 => pending g S m + (if g.key m ∈ S then 0 else 1 + deg g m)

/-- termination measure of `loop` with a tracker; `+ 1` for the final iteration that sees the empty stack -/
def fuelFor (g : Graph) (S : List Nat) (stack : List Nat) : Nat := stack.length + pending g S g.n + 1

/-- WalkDAG / WalkEntityRoots with a tracker (`tr` may already hold keys of earlier walks). -/
def walk (g : Graph) (stopAt : Nat) (tr : MapT) (root : Nat) : Option St :=
  loop g true stopAt (fuelFor g tr.set [root]) { stack := [root], tr := tr, out := [] }

/-- Context cancelled during the k-th emit call (the callback itself returns true): the loop reaches its
`ctx.Err()` test with exactly the state `walk g k …` stops in, and returns the context error iff the stack is
not empty (otherwise the `for` condition ends the walk with nil). -/
def cancelledErr (s : St) : Bool := !s.stack.isEmpty

/-- without a tracker nothing bounds the walk but the shape of the DAG: the caller supplies the fuel -/
def walkNoTracker (g : Graph) (stopAt : Nat) (fuel : Nat) (root : Nat) : Option St :=
  loop g false stopAt fuel { stack := [root], tr := {}, out := [] }

/-! ## entity walk -/

inductive Entity where
  | unknown | file | directory | hamt | symlink
  deriving DecidableEq, Repr

inductive Codec where
  | raw | dagpb | other
  deriving DecidableEq, Repr

/-- `detectEntityType`. `data` describes the dag-pb `Data` field: `none` = absent/null/not bytes,
`some none` = bytes that are not a UnixFS message, `some (some t)` = UnixFS message of DataType `t`
(0 Raw, 1 Directory, 2 File, 3 Metadata, 4 Symlink, 5 HAMTShard). -/
def detect (codec : Codec) (data : Option (Option Nat)) : Entity :=
  match codec with
  | .raw => .file
  | .other => .unknown
  | .dagpb =>
    match data with
    | none => .unknown
    | some none => .unknown
    | some (some t) =>
      if t = 2 ∨ t = 0 then .file
      else if t = 1 then .directory
      else if t = 5 then .hamt
      else if t = 4 then .symlink
      else .unknown

/-- the fetch wrapper of WalkEntityRoots: no children for File / Symlink entities -/
def cut (g : Graph) (ent : Nat → Entity) : Graph :=
  { g with links := fun c =>
      match g.links c with
      | none => none
      | some ks => if ent c = .file ∨ ent c = .symlink then some [] else some ks }

/-! ## BloomTracker (mechanism level, arbitrary probe positions) -/

/-- bbloom `Has`: all probe positions are set -/
def fhas (bits pos : List Nat) : Bool := pos.all (fun p => bits.contains p)

structure BT where
  chain : List (List Nat)
  lastCap : Nat
  curInserts : Nat := 0
  totalInserts : Nat := 0
  dedup : Nat := 0

def BT.new (cap : Nat) : BT := { chain := [[]], lastCap := cap }

/-- `Has`: any filter of the chain, oldest first; `i` = index of the head of `fs` in the chain -/
def hasFrom (h : Nat → Nat → List Nat) (k : Nat) : Nat → List (List Nat) → Bool
  | _, [] => false
  | i, f :: fs => fhas f (h i k) || hasFrom h k (i + 1) fs

def BT.has (h : Nat → Nat → List Nat) (bt : BT) (k : Nat) : Bool := hasFrom h k 0 bt.chain

/-- the two loops of `Visit`: `Has` on the earlier filters, `AddIfNotHas` on the last one.
Returns the new chain and whether the key was added. -/
def visitFrom (h : Nat → Nat → List Nat) (k : Nat) : Nat → List (List Nat) → List (List Nat) × Bool
  | _, [] => ([], false)
  | i, [f] => if fhas f (h i k) then ([f], false) else ([h i k ++ f], true)
  | i, f :: f' :: fs =>
    if fhas f (h i k) then (f :: f' :: fs, false)
    else let r := visitFrom h k (i + 1) (f' :: fs); (f :: r.1, r.2)

def BT.visit (h : Nat → Nat → List Nat) (bt : BT) (k : Nat) : BT × Bool :=
  let r := visitFrom h k 0 bt.chain
  if !r.2 then ({ bt with dedup := bt.dedup + 1 }, false)
  else
    let cur := bt.curInserts + 1
    if cur > bt.lastCap then
      -- grow(): new empty filter with fresh keys, 4x capacity
      ({ bt with chain := r.1 ++ [[]], lastCap := bt.lastCap * 4, curInserts := 0,
                 totalInserts := bt.totalInserts + 1 }, true)
    else ({ bt with chain := r.1, curInserts := cur, totalInserts := bt.totalInserts + 1 }, true)

/-! ## BloomTracker, relational form used by the driver

The real filters' answers depend on SipHash keys, so the driver cannot compute them: it is given the
answer the implementation produced (`ans`) and checks it is admissible with respect to the exact set of
keys visited so far, while the counters evolve exactly as in `BT.visit`
(`C13.c13_bloom_refines`: for every probe family `h` the mechanism model is an instance of this). -/

structure RB where
  seen : Std.HashSet Nat := {}
  chainLen : Nat := 1
  lastCap : Nat
  curInserts : Nat := 0
  totalInserts : Nat := 0
  dedup : Nat := 0

/-- `Visit k` answered `ans`; second component = the answer is admissible (a seen key is never new) -/
def RB.visit (r : RB) (k : Nat) (ans : Bool) : RB × Bool :=
  let adm := !(r.seen.contains k && ans)
  let r1 := { r with seen := r.seen.insert k }
  if !ans then ({ r1 with dedup := r.dedup + 1 }, adm)
  else
    let cur := r.curInserts + 1
    if cur > r.lastCap then
      ({ r1 with chainLen := r.chainLen + 1, lastCap := r.lastCap * 4, curInserts := 0,
                 totalInserts := r.totalInserts + 1 }, adm)
    else ({ r1 with curInserts := cur, totalInserts := r.totalInserts + 1 }, adm)

/-- `Has k` answered `ans`: admissible unless a seen key is reported absent -/
def RB.has (r : RB) (k : Nat) (ans : Bool) : Bool := !(r.seen.contains k && !ans)

/-- visit the keys `a, a+1, …, a+n-1` in order; `neg` = the keys for which the implementation answered
`false`. Returns the final state and whether every answer was admissible. -/
def RB.visitRange (r : RB) (neg : Std.HashSet Nat) : Nat → Nat → Bool → RB × Bool
  | _, 0, ok => (r, ok)
  | a, n + 1, ok =>
    let v := r.visit a (!neg.contains a)
    RB.visitRange v.1 neg (a + 1) n (ok && v.2)

end C13
