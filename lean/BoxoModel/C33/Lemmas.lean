import BoxoModel.C33.Model
/-! C33 — helper lemmas (core only). -/
namespace C33

/-! ### hashBits -/

theorem nextAux_consumed (b : Bytes) : ∀ (fuel c i : Nat), i < fuel → (nextAux fuel b c i).2 = c + i := by
  intro fuel
  induction fuel with
  | zero => intro c i h; omega
  | succ f ih =>
    intro c i h
    unfold nextAux
    simp only
    split
    · rfl
    · split
      · rfl
      · have h8 : c % 8 < 8 := Nat.mod_lt _ (by omega)
        rw [ih (c + (8 - c % 8)) (i - (8 - c % 8)) (by omega)]
        omega

theorem next_some (h : Bytes) (c l : Nat) (hle : c + l ≤ 8 * h.length) :
    (HashBits.mk h c).next l = some ((nextAux (l + 1) h c l).1, HashBits.mk h (c + l)) := by
  unfold HashBits.next
  have : ¬ (c + l > h.length * 8) := by omega
  simp [this, nextAux_consumed h (l + 1) c l (by omega)]

theorem next_none (h : Bytes) (c l : Nat) (hgt : 8 * h.length < c + l) :
    (HashBits.mk h c).next l = none := by
  unfold HashBits.next
  have : c + l > h.length * 8 := by omega
  simp [this]

theorem next_eq_some {h : Bytes} {c l d : Nat} {hv : HashBits}
    (e : (HashBits.mk h c).next l = some (d, hv)) :
    hv = HashBits.mk h (c + l) ∧ c + l ≤ 8 * h.length := by
  by_cases hle : c + l ≤ 8 * h.length
  · rw [next_some h c l hle] at e
    simp at e
    exact ⟨e.2.symm, hle⟩
  · rw [next_none h c l (by omega)] at e
    simp at e

theorem digit_some_iff (H : Bytes → Bytes) (k : Bytes) (c l p : Nat) :
    digit H k c l = some p ↔ (HashBits.mk (H k) c).next l = some (p, HashBits.mk (H k) (c + l)) := by
  unfold digit
  constructor
  · intro e
    cases hn : (HashBits.mk (H k) c).next l with
    | none => simp [hn] at e
    | some r =>
      obtain ⟨d, hv⟩ := r
      simp [hn] at e
      have := (next_eq_some hn).1
      simp [e, this]
  · intro e; simp [e]

theorem digit_isSome (H : Bytes → Bytes) (k : Bytes) (c l : Nat) (hle : c + l ≤ 8 * (H k).length) :
    ∃ p, digit H k c l = some p := by
  refine ⟨(nextAux (l + 1) (H k) c l).1, ?_⟩
  unfold digit
  simp [next_some (H k) c l hle]

/-! ### bitfield positions -/

theorem positions_pairwise (fanout bf : Nat) : (positions fanout bf).Pairwise (· < ·) := by
  unfold positions
  exact List.Pairwise.filter _ (List.pairwise_lt_range)

theorem positions_nodup (fanout bf : Nat) : (positions fanout bf).Nodup := by
  have := positions_pairwise fanout bf
  exact this.imp (fun h => Nat.ne_of_lt h)

theorem mem_positions {fanout bf p : Nat} : p ∈ positions fanout bf ↔ p < fanout ∧ bit bf p = true := by
  simp [positions]

/-- The `OnesBefore(p)`-th set bit is `p`: the slot index computed by `getChildLink` addresses the
link written for bit `p`. -/
theorem positions_onesBefore {fanout bf p : Nat} (hp : p < fanout) (hb : bit bf p = true) :
    (positions fanout bf)[onesBefore bf p]? = some p := by
  unfold positions onesBefore
  have hsplit : List.range fanout = List.range p ++ (p :: (List.range' (p + 1) (fanout - (p + 1)))) := by
    have h1 : fanout = p + ((fanout - (p + 1)) + 1) := by omega
    rw [List.range_eq_range', List.range_eq_range']
    conv => lhs; rw [h1]
    rw [← List.range'_append_1, List.range'_succ]
    simp
  rw [hsplit, List.filter_append, List.filter_cons]
  simp [hb]

/-! ### the trie -/

variable {α : Type}

theorem findRes_nil (k : Bytes) : findRes k ([] : List (Bytes × α)) = .noSuchField := rfl

theorem findRes_append (k : Bytes) (a b : List (Bytes × α)) :
    findRes k (a ++ b) = (match a.find? (fun e => e.1 == k) with
      | some e => .found e.2
      | none => findRes k b) := by
  unfold findRes
  rw [List.find?_append]
  cases a.find? (fun e => e.1 == k) <;> simp

theorem findRes_of_not_mem (k : Bytes) (a : List (Bytes × α)) (h : ∀ e ∈ a, e.1 ≠ k) :
    a.find? (fun e => e.1 == k) = none := by
  rw [List.find?_eq_none]
  intro e he
  simpa using h e he

/-- every key stored below a well-formed link list has its digit among the list's positions -/
theorem wfSlots_digit_mem (H : Bytes → Bytes) (L : Nat) :
    ∀ (s : Slots α) (c l pad : Nat) (ps : List Nat), wfSlots H L c l pad s ps = true →
      ∀ e ∈ entries pad s, ∃ p ∈ ps, digit H e.1 c l = some p := by
  intro s
  induction s with
  | nil => intro c l pad ps _ e he; simp [entries] at he
  | val name v rest ih =>
    intro c l pad ps hwf e he
    cases ps with
    | nil => simp [wfSlots] at hwf
    | cons p ps =>
      simp only [wfSlots, Bool.and_eq_true, beq_iff_eq, decide_eq_true_eq] at hwf
      simp only [entries, List.mem_cons] at he
      rcases he with rfl | he
      · exact ⟨p, by simp, hwf.1.2⟩
      · obtain ⟨q, hq, hd⟩ := ih c l pad ps hwf.2 e he
        exact ⟨q, by simp [hq], hd⟩
  | sub name fanout bf slots rest _ ih2 =>
    intro c l pad ps hwf e he
    cases ps with
    | nil => simp [wfSlots] at hwf
    | cons p ps =>
      simp only [wfSlots, Bool.and_eq_true, decide_eq_true_eq, List.all_eq_true, beq_iff_eq] at hwf
      simp only [entries, List.mem_append] at he
      rcases he with he | he
      · exact ⟨p, by simp, hwf.1.1.1.2 e he⟩
      · obtain ⟨q, hq, hd⟩ := ih2 c l pad ps hwf.2 e he
        exact ⟨q, by simp [hq], hd⟩

/-- Core of the HAMT theorem: walking to slot `j` and continuing as `lookup` does finds exactly the
first stored entry with that key, provided the key's digit at this level is the slot's position. -/
theorem lookupAt_eq_findRes (H : Bytes → Bytes) (L : Nat) (hL : ∀ k, (H k).length = L) (k : Bytes) :
    ∀ (s : Slots α) (c l pad : Nat) (ps : List Nat) (j p : Nat),
      wfSlots H L c l pad s ps = true → ps.Nodup → ps[j]? = some p → digit H k c l = some p →
      lookupAt k s j pad (HashBits.mk (H k) (c + l)) = findRes k (entries pad s) := by
  intro s
  induction s with
  | nil =>
    intro c l pad ps j p hwf _ hj _
    cases ps with
    | nil => simp at hj
    | cons q qs => simp [wfSlots] at hwf
  | val name v rest ih =>
    intro c l pad ps j p hwf hnd hj hd
    cases ps with
    | nil => simp [wfSlots] at hwf
    | cons q qs =>
      simp only [wfSlots, Bool.and_eq_true, beq_iff_eq, decide_eq_true_eq] at hwf
      obtain ⟨⟨⟨_, hlen⟩, hdig⟩, hrest⟩ := hwf
      have hnd' := List.nodup_cons.mp hnd
      cases j with
      | zero =>
        simp at hj; subst hj
        simp only [lookupAt, entries]
        have hnle : ¬ name.length ≤ pad := by omega
        simp only [hnle, if_false]
        by_cases hk : name.drop pad = k
        · simp [hk, findRes]
        · -- k is not below `rest`: its digit q is not among qs
          have hnone : (entries pad rest).find? (fun e => e.1 == k) = none := by
            apply findRes_of_not_mem
            intro e he hek
            obtain ⟨q', hq', hd'⟩ := wfSlots_digit_mem H L rest c l pad qs hrest e he
            rw [hek, hd] at hd'
            simp at hd'; subst hd'
            exact hnd'.1 hq'
          simp [hk, findRes, hnone]
      | succ j =>
        simp at hj
        simp only [lookupAt, entries]
        rw [ih c l pad qs j p hrest hnd'.2 hj hd]
        have hne : ¬ (name.drop pad = k) := by
          intro hek
          rw [hek, hd] at hdig
          simp at hdig; subst hdig
          exact hnd'.1 (List.mem_of_getElem? hj)
        simp [findRes, hne]
  | sub name fanout bf slots rest ih1 ih2 =>
    intro c l pad ps j p hwf hnd hj hd
    cases ps with
    | nil => simp [wfSlots] at hwf
    | cons q qs =>
      simp only [wfSlots, Bool.and_eq_true, decide_eq_true_eq, List.all_eq_true, beq_iff_eq] at hwf
      obtain ⟨⟨⟨⟨⟨_, hlen⟩, hall⟩, hdeep⟩, hsub⟩, hrest⟩ := hwf
      have hnd' := List.nodup_cons.mp hnd
      cases j with
      | zero =>
        simp at hj; subst hj
        simp only [lookupAt, entries]
        have hnn : ¬ name.length ≠ pad := by omega
        simp only [hnn, if_false]
        -- k is not below `rest`
        have hnone : (entries pad rest).find? (fun e => e.1 == k) = none := by
          apply findRes_of_not_mem
          intro e he hek
          obtain ⟨q', hq', hd'⟩ := wfSlots_digit_mem H L rest c l pad qs hrest e he
          rw [hek, hd] at hd'
          simp at hd'; subst hd'
          exact hnd'.1 hq'
        rw [findRes_append]
        have hle : c + l + log2Size fanout ≤ 8 * (H k).length := by rw [hL k]; exact hdeep.1
        rw [next_some (H k) (c + l) (log2Size fanout) hle]
        simp only
        by_cases hb : bit bf (nextAux (log2Size fanout + 1) (H k) (c + l) (log2Size fanout)).1 = true
        · simp only [hb, if_true]
          have hd2 : digit H k (c + l) (log2Size fanout)
              = some (nextAux (log2Size fanout + 1) (H k) (c + l) (log2Size fanout)).1 := by
            unfold digit; simp [next_some (H k) (c + l) (log2Size fanout) hle]
          by_cases hlt : (nextAux (log2Size fanout + 1) (H k) (c + l) (log2Size fanout)).1 < fanout
          · rw [ih1 (c + l) (log2Size fanout) (padLen fanout) (positions fanout bf) _ _ hsub
              (positions_nodup fanout bf) (positions_onesBefore hlt hb) hd2]
            unfold findRes
            cases (entries (padLen fanout) slots).find? (fun e => e.1 == k) with
            | some e => rfl
            | none => simp [hnone]
          · exfalso
            have : bf < 2 ^ (nextAux (log2Size fanout + 1) (H k) (c + l) (log2Size fanout)).1 :=
              Nat.lt_of_lt_of_le hdeep.2 (Nat.pow_le_pow_right (by omega) (by omega))
            have := Nat.testBit_lt_two_pow this
            simp [bit, this] at hb
        · simp only [hb]
          -- digit of k at the child level is not a set bit: k is not below `slots`
          have hnone2 : (entries (padLen fanout) slots).find? (fun e => e.1 == k) = none := by
            apply findRes_of_not_mem
            intro e he hek
            obtain ⟨q', hq', hd'⟩ := wfSlots_digit_mem H L slots (c + l) (log2Size fanout) (padLen fanout)
              (positions fanout bf) hsub e he
            rw [hek] at hd'
            have hd2 : digit H k (c + l) (log2Size fanout)
                = some (nextAux (log2Size fanout + 1) (H k) (c + l) (log2Size fanout)).1 := by
              unfold digit; simp [next_some (H k) (c + l) (log2Size fanout) hle]
            rw [hd2] at hd'
            simp at hd'; subst hd'
            exact hb (mem_positions.mp hq').2
          simp [hnone2, findRes, hnone]
      | succ j =>
        simp at hj
        simp only [lookupAt, entries]
        rw [ih2 c l pad qs j p hrest hnd'.2 hj hd, findRes_append]
        have hnone2 : (entries (padLen fanout) slots).find? (fun e => e.1 == k) = none := by
          apply findRes_of_not_mem
          intro e he hek
          have := hall e he
          rw [hek, hd] at this
          simp at this; subst this
          exact hnd'.1 (List.mem_of_getElem? hj)
        simp [hnone2]

/-- HAMT lookup on a well-formed shard = first stored entry with that key (any hash function with
fixed output length). -/
theorem lookupShard_eq_findRes (H : Bytes → Bytes) (L : Nat) (hL : ∀ k, (H k).length = L) (k : Bytes)
    (c fanout bf : Nat) (s : Slots α) (hwf : wfShard H L c fanout bf s = true) :
    lookupShard H k c fanout bf s = findRes k (entries (padLen fanout) s) := by
  simp only [wfShard, Bool.and_eq_true, decide_eq_true_eq] at hwf
  obtain ⟨⟨hdeep, hbf⟩, hs⟩ := hwf
  unfold lookupShard
  have hle : c + log2Size fanout ≤ 8 * (H k).length := by rw [hL k]; exact hdeep
  rw [next_some (H k) c (log2Size fanout) hle]
  simp only
  have hd2 : digit H k c (log2Size fanout) = some (nextAux (log2Size fanout + 1) (H k) c (log2Size fanout)).1 := by
    unfold digit; simp [next_some (H k) c (log2Size fanout) hle]
  by_cases hb : bit bf (nextAux (log2Size fanout + 1) (H k) c (log2Size fanout)).1 = true
  · simp only [hb, if_true]
    by_cases hlt : (nextAux (log2Size fanout + 1) (H k) c (log2Size fanout)).1 < fanout
    · exact lookupAt_eq_findRes H L hL k s c (log2Size fanout) (padLen fanout) (positions fanout bf) _ _ hs
        (positions_nodup fanout bf) (positions_onesBefore hlt hb) hd2
    · exfalso
      have : bf < 2 ^ (nextAux (log2Size fanout + 1) (H k) c (log2Size fanout)).1 :=
        Nat.lt_of_lt_of_le hbf (Nat.pow_le_pow_right (by omega) (by omega))
      have := Nat.testBit_lt_two_pow this
      simp [bit, this] at hb
  · simp only [hb]
    have hnone : (entries (padLen fanout) s).find? (fun e => e.1 == k) = none := by
      apply findRes_of_not_mem
      intro e he hek
      obtain ⟨q', hq', hd'⟩ := wfSlots_digit_mem H L s c (log2Size fanout) (padLen fanout)
        (positions fanout bf) hs e he
      rw [hek, hd2] at hd'
      simp at hd'; subst hd'
      exact hb (mem_positions.mp hq').2
    simp [findRes, hnone]

/-- soundness without any well-formedness: whatever `lookupAt` finds is a stored entry with that key -/
theorem lookupAt_found_mem (k : Bytes) :
    ∀ (s : Slots α) (j pad : Nat) (hv : HashBits) (v : α),
      lookupAt k s j pad hv = .found v → (k, v) ∈ entries pad s := by
  intro s
  induction s with
  | nil => intro j pad hv v h; simp [lookupAt] at h
  | val name w rest ih =>
    intro j pad hv v h
    cases j with
    | zero =>
      simp only [lookupAt] at h
      split at h
      · simp at h
      · split at h
        · rename_i hk
          simp at h; subst h
          simp [entries, hk]
        · simp at h
    | succ j =>
      simp only [lookupAt] at h
      simp [entries, ih j pad hv v h]
  | sub name fanout bf slots rest ih1 ih2 =>
    intro j pad hv v h
    cases j with
    | zero =>
      simp only [lookupAt] at h
      split at h
      · simp at h
      · split at h
        · simp at h
        · split at h
          · simp [entries, ih1 _ _ _ v h]
          · simp at h
    | succ j =>
      simp only [lookupAt] at h
      simp [entries, ih2 j pad hv v h]

theorem lookupShard_found_mem (H : Bytes → Bytes) (k : Bytes) (c fanout bf : Nat) (s : Slots α) (v : α)
    (h : lookupShard H k c fanout bf s = .found v) : (k, v) ∈ entries (padLen fanout) s := by
  unfold lookupShard at h
  split at h
  · simp at h
  · split at h
    · exact lookupAt_found_mem k s _ _ _ v h
    · simp at h

theorem entries_values (pad : Nat) (s : Slots α) : ∀ e ∈ entries pad s, e.2 ∈ s.values := by
  induction s generalizing pad with
  | nil => intro e he; simp [entries] at he
  | val name v rest ih =>
    intro e he
    simp only [entries, List.mem_cons] at he
    rcases he with rfl | he
    · simp [Slots.values]
    · simp [Slots.values, ih pad e he]
  | sub name fanout bf slots rest ih1 ih2 =>
    intro e he
    simp only [entries, List.mem_append] at he
    rcases he with he | he
    · simp [Slots.values, ih1 _ e he]
    · simp [Slots.values, ih2 _ e he]

theorem findRes_found_mem {k : Bytes} {es : List (Bytes × α)} {v : α} (h : findRes k es = .found v) :
    (k, v) ∈ es := by
  unfold findRes at h
  split at h
  · rename_i e he
    have hm := List.mem_of_find?_eq_some he
    have hk := List.find?_some he
    simp at h hk
    subst h; subst hk
    exact hm
  · simp at h

/-! ### trees -/

theorem wfEnts_mem (H : Bytes → Bytes) (L : Nat) (ents : List (Bytes × Node)) (h : wfEnts H L ents = true) :
    ∀ e ∈ ents, wfTree H L e.2 = true := by
  induction ents with
  | nil => intro e he; simp at he
  | cons a r ih =>
    intro e he
    simp only [wfEnts, Bool.and_eq_true] at h
    simp only [List.mem_cons] at he
    rcases he with rfl | he
    · exact h.1
    · exact ih h.2 e he

theorem wfVals_mem (H : Bytes → Bytes) (L : Nat) (s : Slots Node) (h : wfVals H L s = true) :
    ∀ v ∈ s.values, wfTree H L v = true := by
  induction s with
  | nil => intro v hv; simp [Slots.values] at hv
  | val name w rest ih =>
    intro v hv
    simp only [wfVals, Bool.and_eq_true] at h
    simp only [Slots.values, List.mem_cons] at hv
    rcases hv with rfl | hv
    · exact h.1
    · exact ih h.2 v hv
  | sub name fanout bf slots rest ih1 ih2 =>
    intro v hv
    simp only [wfVals, Bool.and_eq_true] at h
    simp only [Slots.values, List.mem_append] at hv
    rcases hv with hv | hv
    · exact ih1 h.1 v hv
    · exact ih2 h.2 v hv

/-- on a well-formed tree, the node-level lookup the resolver performs is lookup by name in the listing -/
theorem lookupSeg_eq_children (H : Bytes → Bytes) (L : Nat) (hL : ∀ k, (H k).length = L) (n : Node) (s : Bytes)
    (hwf : wfTree H L n = true) (hm : n.isMap = true) :
    lookupSeg H n s = findRes s (children n) := by
  cases n with
  | file c => simp [Node.isMap] at hm
  | sym c => simp [lookupSeg, children, findRes]
  | dir c ents => simp [lookupSeg, children]
  | hdir c fanout bf slots =>
    simp only [wfTree, Bool.and_eq_true] at hwf
    simp only [lookupSeg, children]
    exact lookupShard_eq_findRes H L hL s 0 fanout bf slots hwf.1

theorem children_wf (H : Bytes → Bytes) (L : Nat) (n : Node) (hwf : wfTree H L n = true) :
    ∀ e ∈ children n, wfTree H L e.2 = true := by
  cases n with
  | file c => intro e he; simp [children] at he
  | sym c => intro e he; simp [children] at he
  | dir c ents => simp only [wfTree] at hwf; exact wfEnts_mem H L ents hwf
  | hdir c fanout bf slots =>
    simp only [wfTree, Bool.and_eq_true] at hwf
    intro e he
    exact wfVals_mem H L slots hwf.2 e.2 (entries_values _ slots e he)

theorem loadableEnts_mem (ents : List (Bytes × Node)) (h : loadableEnts ents = true) :
    ∀ e ∈ ents, loadableTree e.2 = true := by
  induction ents with
  | nil => intro e he; simp at he
  | cons a r ih =>
    intro e he
    simp only [loadableEnts, Bool.and_eq_true] at h
    simp only [List.mem_cons] at he
    rcases he with rfl | he
    · exact h.1
    · exact ih h.2 e he

theorem loadableVals_mem (s : Slots Node) (h : loadableVals s = true) :
    ∀ v ∈ s.values, loadableTree v = true := by
  induction s with
  | nil => intro v hv; simp [Slots.values] at hv
  | val name w rest ih =>
    intro v hv
    simp only [loadableVals, Bool.and_eq_true] at h
    simp only [Slots.values, List.mem_cons] at hv
    rcases hv with rfl | hv
    · exact h.1
    · exact ih h.2 v hv
  | sub name fanout bf slots rest ih1 ih2 =>
    intro v hv
    simp only [loadableVals, Bool.and_eq_true] at h
    simp only [Slots.values, List.mem_append] at hv
    rcases hv with hv | hv
    · exact ih1 h.1 v hv
    · exact ih2 h.2 v hv

theorem children_loadable (n : Node) (h : loadableTree n = true) :
    ∀ e ∈ children n, loadableTree e.2 = true := by
  cases n with
  | file c => intro e he; simp [children] at he
  | sym c => intro e he; simp [children] at he
  | dir c ents => simp only [loadableTree] at h; exact loadableEnts_mem ents h
  | hdir c fanout bf slots =>
    simp only [loadableTree, Bool.and_eq_true] at h
    intro e he
    exact loadableVals_mem slots h.2 e.2 (entries_values _ slots e he)

theorem loadableTree_loadable (n : Node) (h : loadableTree n = true) : n.loadable = true := by
  cases n with
  | file c => rfl
  | sym c => rfl
  | dir c ents => rfl
  | hdir c fanout bf slots =>
    simp only [loadableTree, Bool.and_eq_true] at h
    simp [Node.loadable, h.1]

theorem walkAll_ne_nil (H : Bytes → Bytes) (n : Node) (segs : List Bytes) (l : List Node)
    (h : walkAll H n segs = some l) : l ≠ [] := by
  cases segs with
  | nil => simp [walkAll] at h; subst h; simp
  | cons s r =>
    simp only [walkAll] at h
    split at h
    · simp at h; subst h; simp
    · split at h
      · split at h
        · simp at h
        · simp only [Option.map_eq_some_iff] at h
          obtain ⟨a, _, ha⟩ := h
          subst ha; simp
      · simp at h; subst h; simp

theorem getLastD_irrel {β : Type} (l : List β) (a b : β) (h : l ≠ []) : l.getLastD a = l.getLastD b := by
  cases l with
  | nil => exact absurd rfl h
  | cons x xs => simp [List.getLastD]

theorem rtlBody_single (H : Bytes → Bytes) (root : Node) (s : Bytes) :
    rtlBody H root [s] = resolveSpec H root [s] := by
  simp only [rtlBody, List.dropLast, walkAll, resolveSpec, List.length_cons, List.length_nil,
    List.getLastD, List.isEmpty]
  cases hl : lookupSeg H root s <;> simp [hl]

theorem rtlBody_cons_found (H : Bytes → Bytes) (root ch : Node) (s s2 : Bytes) (rest : List Bytes)
    (hm : root.isMap = true) (hl : lookupSeg H root s = .found ch) (hld : ch.loadable = true) :
    rtlBody H root (s :: s2 :: rest) = rtlBody H ch (s2 :: rest) := by
  unfold rtlBody
  simp only [List.dropLast_cons_cons, walkAll, hm, Bool.not_true, Bool.false_eq_true, if_false, hl, hld]
  cases hw : walkAll H ch (s2 :: rest).dropLast with
  | none => simp
  | some nodes =>
    simp only [Option.map_some]
    have hnn := walkAll_ne_nil H ch _ nodes hw
    have hpos : 0 < nodes.length := List.length_pos_iff.mpr hnn
    obtain ⟨m, hm'⟩ : ∃ m, nodes.length = m + 1 := ⟨_, (Nat.succ_pred_eq_of_pos hpos).symm⟩
    have e5 : (root :: nodes).getLastD root = nodes.getLastD ch := by
      rw [List.getLastD_cons]
      exact getLastD_irrel _ _ _ hnn
    have e6 : (s :: s2 :: rest).getLastD [] = (s2 :: rest).getLastD [] := by
      simp
    rw [e5, e6]
    simp only [List.length_cons, hm']
    have e1 : ¬ (m + 1 + 1 < 1) := by omega
    have e2 : ¬ (m + 1 < 1) := by omega
    simp only [e1, e2, if_false]
    by_cases h3 : m + 1 < rest.length + 1
    · have h3' : m + 1 + 1 < rest.length + 1 + 1 := by omega
      simp [h3, h3']
    · have h3' : ¬ (m + 1 + 1 < rest.length + 1 + 1) := by omega
      simp [h3, h3']

theorem rtlBody_cons_bad (H : Bytes → Bytes) (root ch : Node) (s s2 : Bytes) (rest : List Bytes)
    (hm : root.isMap = true) (hl : lookupSeg H root s = .found ch) (hld : ch.loadable = false) :
    rtlBody H root (s :: s2 :: rest) = .err .load := by
  unfold rtlBody
  simp [List.dropLast_cons_cons, walkAll, hm, hl, hld]

theorem rtlBody_cons_stop (H : Bytes → Bytes) (root : Node) (s s2 : Bytes) (rest : List Bytes)
    (h : root.isMap = false ∨ ∀ ch, lookupSeg H root s ≠ .found ch) :
    rtlBody H root (s :: s2 :: rest) = .noLink s := by
  have hw : walkAll H root (s :: s2 :: rest).dropLast = some [root] := by
    simp only [List.dropLast_cons_cons, walkAll]
    rcases h with h | h
    · simp [h]
    · cases hl : lookupSeg H root s with
      | found ch => exact absurd hl (h ch)
      | noSuchField => simp
      | err e => simp
  unfold rtlBody
  rw [hw]
  simp

theorem rtlBody_eq_spec (H : Bytes → Bytes) : ∀ (segs : List Bytes) (root : Node), segs ≠ [] →
    rtlBody H root segs = resolveSpec H root segs := by
  intro segs
  induction segs with
  | nil => intro root h; exact absurd rfl h
  | cons s rest ih =>
    intro root _
    cases rest with
    | nil => exact rtlBody_single H root s
    | cons s2 rest =>
      by_cases hm : root.isMap = true
      · cases hl : lookupSeg H root s with
        | found ch =>
          by_cases hld : ch.loadable = true
          · rw [rtlBody_cons_found H root ch s s2 rest hm hl hld, ih ch (by simp)]
            conv => rhs; unfold resolveSpec
            simp [hl, hld]
          · have hld' : ch.loadable = false := by simpa using hld
            rw [rtlBody_cons_bad H root ch s s2 rest hm hl hld']
            conv => rhs; unfold resolveSpec
            simp [hl, hld']
        | noSuchField =>
          rw [rtlBody_cons_stop H root s s2 rest (Or.inr (by simp [hl]))]
          conv => rhs; unfold resolveSpec
          simp [hl]
        | err e =>
          rw [rtlBody_cons_stop H root s s2 rest (Or.inr (by simp [hl]))]
          conv => rhs; unfold resolveSpec
          simp [hl]
      · have hm' : root.isMap = false := by simpa using hm
        rw [rtlBody_cons_stop H root s s2 rest (Or.inl hm')]
        cases root with
        | file c => simp [resolveSpec, lookupSeg]
        | sym c => simp [Node.isMap] at hm'
        | dir c ents => simp [Node.isMap] at hm'
        | hdir c fanout bf slots => simp [Node.isMap] at hm'

theorem resolveNames_last (n : Node) (s : Bytes) (e : Bytes × Node)
    (hf : (children n).find? (fun e => e.1 == s) = some e) : resolveNames n [s] = .ok e.2.cid [] := by
  cases n with
  | file c => simp [children] at hf
  | sym c => simp [children] at hf
  | dir c ents => simp only [resolveNames, hf]
  | hdir c fanout bf slots => simp only [resolveNames, hf]

theorem resolveSpec_eq_names (H : Bytes → Bytes) (L : Nat) (hL : ∀ k, (H k).length = L) :
    ∀ (segs : List Bytes) (root : Node), wfTree H L root = true → loadableTree root = true →
      resolveSpec H root segs = resolveNames root segs := by
  intro segs
  induction segs with
  | nil => intro root _ _; simp [resolveSpec, resolveNames]
  | cons s rest ih =>
    intro root hwf hld
    by_cases hm : root.isMap = true
    · have hl := lookupSeg_eq_children H L hL root s hwf hm
      have hcw := children_wf H L root hwf
      have hcl := children_loadable root hld
      simp only [resolveSpec, hl]
      have hrn : resolveNames root (s :: rest) =
          (match (children root).find? (fun e => e.1 == s) with
            | some e => resolveNames e.2 rest
            | none => .noLink s) := by
        cases root with
        | file c => simp [Node.isMap] at hm
        | sym c => simp only [resolveNames]; cases List.find? _ _ <;> rfl
        | dir c ents => simp only [resolveNames]; cases List.find? _ _ <;> rfl
        | hdir c fanout bf slots => simp only [resolveNames]; cases List.find? _ _ <;> rfl
      rw [hrn]
      unfold findRes
      cases hf : (children root).find? (fun e => e.1 == s) with
      | none => simp
      | some e =>
        simp only
        have hmem := List.mem_of_find?_eq_some hf
        cases rest with
        | nil => simp [resolveNames]
        | cons s2 rest =>
          have : e.2.loadable = true := loadableTree_loadable e.2 (hcl e hmem)
          simp only [List.isEmpty_cons, Bool.false_eq_true, if_false, this, Bool.not_true]
          exact ih e.2 (hcw e hmem) (hcl e hmem)
    · cases root with
      | file c => simp [resolveSpec, resolveNames, lookupSeg]
      | sym c => simp [Node.isMap] at hm
      | dir c ents => simp [Node.isMap] at hm
      | hdir c fanout bf slots => simp [Node.isMap] at hm

theorem resolveToLastNode_eq_spec (H : Bytes → Bytes) (root : Node) (segs : List Bytes) :
    resolveToLastNode H root segs =
      if segs.isEmpty then .ok root.cid []
      else if !root.loadable then .err .load
      else resolveSpec H root segs := by
  cases segs with
  | nil => simp [resolveToLastNode]
  | cons s rest =>
    have := rtlBody_eq_spec H (s :: rest) root (by simp)
    rw [← this]
    simp [resolveToLastNode]

theorem resolveToLastNode_eq_spec' (H : Bytes → Bytes) (root : Node) (segs : List Bytes)
    (hld : root.loadable = true) :
    resolveToLastNode H root segs = resolveSpec H root segs := by
  rw [resolveToLastNode_eq_spec]
  cases segs with
  | nil => simp [resolveSpec]
  | cons s rest => simp [hld]

theorem resolveNames_found : ∀ (segs : List Bytes) (root t : Node), follow root segs = some t →
    resolveNames root segs = .ok t.cid [] := by
  intro segs
  induction segs with
  | nil => intro root t h; simp [follow] at h; simp [resolveNames, h]
  | cons s rest ih =>
    intro root t h
    simp only [follow] at h
    cases hf : (children root).find? (fun e => e.1 == s) with
    | none => simp [hf] at h
    | some e =>
      simp only [hf] at h
      cases root with
      | file c => simp [children] at hf
      | sym c => simp [children] at hf
      | dir c ents => simp only [resolveNames, hf]; exact ih e.2 t h
      | hdir c fanout bf slots => simp only [resolveNames, hf]; exact ih e.2 t h

theorem resolveNames_missing : ∀ (pre : List Bytes) (root d : Node) (s : Bytes) (post : List Bytes),
    follow root pre = some d → d.isMap = true → (children d).find? (fun e => e.1 == s) = none →
    resolveNames root (pre ++ s :: post) = .noLink s := by
  intro pre
  induction pre with
  | nil =>
    intro root d s post h hm hn
    simp [follow] at h; subst h
    cases root with
    | file c => simp [Node.isMap] at hm
    | sym c => simp [resolveNames, children]
    | dir c ents => simp only [List.nil_append, resolveNames, hn]
    | hdir c fanout bf slots => simp only [List.nil_append, resolveNames, hn]
  | cons a pre ih =>
    intro root d s post h hm hn
    simp only [follow] at h
    cases hf : (children root).find? (fun e => e.1 == a) with
    | none => simp [hf] at h
    | some e =>
      simp only [hf] at h
      cases root with
      | file c => simp [children] at hf
      | sym c => simp [children] at hf
      | dir c ents => simp only [List.cons_append, resolveNames, hf]; exact ih e.2 d s post h hm hn
      | hdir c fanout bf slots => simp only [List.cons_append, resolveNames, hf]; exact ih e.2 d s post h hm hn

/-- walkLeaf on a tree without unloadable blocks yields exactly the node named by the path, or nothing -/
theorem walkLeaf_eq (H : Bytes → Bytes) (L : Nat) (hL : ∀ k, (H k).length = L) :
    ∀ (segs : List Bytes) (n : Node), wfTree H L n = true → loadableTree n = true →
      walkLeaf H n segs = some (follow n segs).toList := by
  intro segs
  induction segs with
  | nil => intro n _ _; simp [walkLeaf, follow]
  | cons s rest ih =>
    intro n hwf hld
    by_cases hm : n.isMap = true
    · simp only [walkLeaf, follow, hm, Bool.not_true, Bool.false_eq_true, if_false,
        lookupSeg_eq_children H L hL n s hwf hm]
      unfold findRes
      cases hf : (children n).find? (fun e => e.1 == s) with
      | none => simp
      | some e =>
        have hmem := List.mem_of_find?_eq_some hf
        have : e.2.loadable = true := loadableTree_loadable e.2 (children_loadable n hld e hmem)
        simp only [this, Bool.not_true, Bool.false_eq_true, if_false]
        exact ih e.2 (children_wf H L n hwf e hmem) (children_loadable n hld e hmem)
    · cases n with
      | file c => simp [walkLeaf, follow, Node.isMap, children]
      | sym c => simp [Node.isMap] at hm
      | dir c ents => simp [Node.isMap] at hm
      | hdir c fanout bf slots => simp [Node.isMap] at hm

/-- keys of a well-formed link list are pairwise distinct -/
theorem wfSlots_keys_nodup (H : Bytes → Bytes) (L : Nat) :
    ∀ (s : Slots α) (c l pad : Nat) (ps : List Nat), wfSlots H L c l pad s ps = true → ps.Nodup →
      ((entries pad s).map (·.1)).Nodup := by
  intro s
  induction s with
  | nil => intro c l pad ps _ _; simp [entries]
  | val name v rest ih =>
    intro c l pad ps hwf hnd
    cases ps with
    | nil => simp [wfSlots] at hwf
    | cons q qs =>
      simp only [wfSlots, Bool.and_eq_true, beq_iff_eq, decide_eq_true_eq] at hwf
      obtain ⟨⟨_, hdig⟩, hrest⟩ := hwf
      have hnd' := List.nodup_cons.mp hnd
      simp only [entries, List.map_cons, List.nodup_cons]
      refine ⟨?_, ih c l pad qs hrest hnd'.2⟩
      intro hmem
      obtain ⟨e, he, hek⟩ := List.mem_map.mp hmem
      obtain ⟨q', hq', hd'⟩ := wfSlots_digit_mem H L rest c l pad qs hrest e he
      rw [hek, hdig] at hd'
      simp at hd'; subst hd'
      exact hnd'.1 hq'
  | sub name fanout bf slots rest ih1 ih2 =>
    intro c l pad ps hwf hnd
    cases ps with
    | nil => simp [wfSlots] at hwf
    | cons q qs =>
      simp only [wfSlots, Bool.and_eq_true, decide_eq_true_eq, List.all_eq_true, beq_iff_eq] at hwf
      obtain ⟨⟨⟨⟨_, hall⟩, _⟩, hsub⟩, hrest⟩ := hwf
      have hnd' := List.nodup_cons.mp hnd
      simp only [entries, List.map_append]
      rw [List.nodup_append]
      refine ⟨ih1 _ _ _ _ hsub (positions_nodup fanout bf), ih2 c l pad qs hrest hnd'.2, ?_⟩
      intro a ha b hb hab
      obtain ⟨e1, he1, hek1⟩ := List.mem_map.mp ha
      obtain ⟨e2, he2, hek2⟩ := List.mem_map.mp hb
      have h1 := hall e1 he1
      obtain ⟨q', hq', hd'⟩ := wfSlots_digit_mem H L rest c l pad qs hrest e2 he2
      rw [hek1] at h1
      rw [hek2, ← hab, h1] at hd'
      simp at hd'; subst hd'
      exact hnd'.1 hq'

theorem findRes_of_mem_nodup {k : Bytes} {v : α} : ∀ (es : List (Bytes × α)),
    (es.map (·.1)).Nodup → (k, v) ∈ es → findRes k es = .found v := by
  intro es
  induction es with
  | nil => intro _ h; simp at h
  | cons e r ih =>
    intro hnd hm
    simp only [List.map_cons, List.nodup_cons] at hnd
    simp only [List.mem_cons] at hm
    rcases hm with rfl | hm
    · simp [findRes]
    · have hne : e.1 ≠ k := by
        intro he
        exact hnd.1 (List.mem_map.mpr ⟨(k, v), hm, he.symm⟩)
      have := ih hnd.2 hm
      unfold findRes at this ⊢
      simp only [List.find?_cons]
      have : (e.1 == k) = false := by simpa using hne
      simp only [this]
      assumption

end C33
