import BoxoModel.C33.NonLink
/-! C33 (deepening) — ResolveToLastNode over plain IPLD trees equals the property's reading; core only. -/
namespace C33

/-- the mechanism as a recursion over the remaining segments, carrying the fold state `st` of
`resolveNodes` (already including the current node) and the segments consumed so far -/
def mechV : V → Cid → Option Cid × Nat → List Bytes → List Bytes → ResV
  | _, blk, _, _, [] => .ok blk []
  | v, blk, st, done, [last] =>
    match v with
    | .map fs =>
      match V.find fs last with
      | none => .err
      | some (.link c' _) => .ok c' []
      | some _ => .ok (st.1.getD blk) ((done ++ [last]).drop ((done ++ [last]).length - st.2 - 1))
    | _ => .err
  | v, blk, st, done, s :: s2 :: rest =>
    match v with
    | .map fs =>
      match V.find fs s with
      | none => .noLink s
      | some (.link c' t) => mechV t c' (depthStep st c') (done ++ [s]) (s2 :: rest)
      | some v' => mechV v' blk (depthStep st blk) (done ++ [s]) (s2 :: rest)
    | _ => .noLink s

abbrev foldSt := depthOf

theorem foldSt_snoc (pre : List (V × Cid)) (n : V × Cid) :
    foldSt (pre ++ [n]) = depthStep (foldSt pre) n.2 := by
  simp [depthOf, List.foldl_append]

theorem foldSt_fst (pre : List (V × Cid)) (n : V × Cid) : (foldSt (pre ++ [n])).1 = some n.2 := by
  rw [foldSt_snoc]
  unfold depthStep
  split
  · assumption
  · rfl

theorem getLastD_snoc {β : Type} (l : List β) (x d : β) : (l ++ [x]).getLastD d = x := by
  simp [List.getLastD_eq_getLast?]

theorem bodyV_eq_mech (dflt : V × Cid) : ∀ (rem : List Bytes) (pre : List (V × Cid)) (v : V) (blk : Cid)
    (done : List Bytes), rem ≠ [] → pre.length = done.length →
    bodyV pre v blk done rem dflt = mechV v blk (foldSt (pre ++ [(v, blk)])) done rem := by
  intro rem
  induction rem with
  | nil => intro pre v blk done h; exact absurd rfl h
  | cons s rest ih =>
    intro pre v blk done _ hlen
    cases rest with
    | nil =>
      have hst := foldSt_fst pre (v, blk)
      simp only [bodyV, List.dropLast, walkV, List.length_append, List.length_cons, List.length_nil,
        getLastD_snoc]
      have e1 : ¬ (pre.length + (0 + 1) < 1) := by omega
      have e2 : ¬ (pre.length + (0 + 1) < done.length + (0 + 1)) := by omega
      simp only [e1, e2, if_false]
      simp only [mechV, hst, Option.getD_some, List.length_append, List.length_cons, List.length_nil]
      cases v with
      | scalar => rfl
      | link c t => rfl
      | map fs =>
        simp only
        cases V.find fs s with
        | none => rfl
        | some x => cases x <;> rfl
    | cons s2 rest =>
      simp only [mechV]
      cases v with
      | scalar =>
        simp only [bodyV, List.dropLast_cons_cons, walkV, List.length_append, List.length_cons,
          List.length_nil]
        have e1 : ¬ (pre.length + (0 + 1) < 1) := by omega
        have e2 : pre.length + (0 + 1) < done.length + (rest.length + 1 + 1) := by omega
        simp only [e1, e2, if_false, if_true]
        congr 1
        rw [List.getD_eq_getElem?_getD, List.getElem?_append_right (by omega)]
        simp [hlen]
      | link c t =>
        simp only [bodyV, List.dropLast_cons_cons, walkV, List.length_append, List.length_cons,
          List.length_nil]
        have e1 : ¬ (pre.length + (0 + 1) < 1) := by omega
        have e2 : pre.length + (0 + 1) < done.length + (rest.length + 1 + 1) := by omega
        simp only [e1, e2, if_false, if_true]
        congr 1
        rw [List.getD_eq_getElem?_getD, List.getElem?_append_right (by omega)]
        simp [hlen]
      | map fs =>
        simp only
        have hstop : ∀ (tail : List (V × Cid)), tail = [] →
            (let nodes := pre ++ (V.map fs, blk) :: tail
             let segs := done ++ s :: s2 :: rest
             (if nodes.length < 1 then ResV.err
              else if nodes.length < segs.length then ResV.noLink (segs.getD (nodes.length - 1) [])
              else ResV.err)) = ResV.noLink s := by
          intro tail ht
          subst ht
          simp only [List.length_append, List.length_cons, List.length_nil]
          have e1 : ¬ (pre.length + (0 + 1) < 1) := by omega
          have e2 : pre.length + (0 + 1) < done.length + (rest.length + 1 + 1) := by omega
          simp only [e1, e2, if_false, if_true]
          congr 1
          rw [List.getD_eq_getElem?_getD, List.getElem?_append_right (by omega)]
          simp [hlen]
        cases hf : V.find fs s with
        | none =>
          simp only [bodyV, List.dropLast_cons_cons, walkV, hf, List.length_append, List.length_cons,
            List.length_nil]
          have e1 : ¬ (pre.length + (0 + 1) < 1) := by omega
          have e2 : pre.length + (0 + 1) < done.length + (rest.length + 1 + 1) := by omega
          simp only [e1, e2, if_false, if_true]
          congr 1
          rw [List.getD_eq_getElem?_getD, List.getElem?_append_right (by omega)]
          simp [hlen]
        | some x =>
          have key : ∀ (v' : V) (blk' : Cid),
              walkV (V.map fs) blk (s :: (s2 :: rest).dropLast) = (V.map fs, blk) :: walkV v' blk' (s2 :: rest).dropLast →
              bodyV pre (V.map fs) blk done (s :: s2 :: rest) dflt
                = mechV v' blk' (depthStep (foldSt (pre ++ [(V.map fs, blk)])) blk') (done ++ [s]) (s2 :: rest) := by
            intro v' blk' hw
            have := ih (pre ++ [(V.map fs, blk)]) v' blk' (done ++ [s]) (by simp) (by simp [hlen])
            rw [foldSt_snoc (pre ++ [(V.map fs, blk)]) (v', blk')] at this
            rw [← this]
            unfold bodyV
            simp only [List.dropLast_cons_cons, hw, List.append_assoc, List.singleton_append]
          cases x with
          | scalar => exact key .scalar blk (by simp [walkV, hf])
          | map fs' => exact key (.map fs') blk (by simp [walkV, hf])
          | link c' t => exact key t c' (by simp [walkV, hf])

theorem rtlV_eq_mech (v : V) (c : Cid) (segs : List Bytes) (h : segs ≠ []) :
    rtlV v c segs = mechV v c (depthStep (none, 0) c) [] segs := by
  have := bodyV_eq_mech (v, c) segs [] v c [] h rfl
  simp only [List.nil_append, depthOf, List.foldl_cons, List.foldl_nil] at this
  rw [← this]
  unfold rtlV
  have : ¬ segs.length = 0 := by
    intro h0; exact h (List.length_eq_zero_iff.mp h0)
  simp only [this, if_false]

/-! ### the mechanism computes the property's reading -/

theorem acyclicL_find : ∀ (fs : List (Bytes × V)) (blk : Cid) (s : Bytes) (x : V),
    V.acyclic.acyclicL fs blk = true → V.find fs s = some x → V.acyclic x blk = true := by
  intro fs
  induction fs with
  | nil => intro blk s x _ hf; simp [V.find] at hf
  | cons e r ih =>
    intro blk s x ha hf
    simp only [V.acyclic.acyclicL, Bool.and_eq_true] at ha
    by_cases he : (e.1 == s) = true
    · have : V.find (e :: r) s = some e.2 := by simp [V.find, he]
      rw [this] at hf
      simp at hf; subst hf; exact ha.1
    · have he' : (e.1 == s) = false := by simpa using he
      have : V.find (e :: r) s = V.find r s := by simp [V.find, he']
      rw [this] at hf
      exact ih blk s x ha.2 hf

theorem specV_map_cons (fs : List (Bytes × V)) (blk : Cid) (inBlock : List Bytes) (s : Bytes) (rest : List Bytes) :
    specV (.map fs) blk inBlock (s :: rest) =
      (match V.find fs s with
        | none => if rest.isEmpty then .err else .noLink s
        | some (.link c' t) => if rest.isEmpty then .ok c' [] else specV t c' [] rest
        | some v' => specV v' blk (inBlock ++ [s]) rest) := by
  rw [specV]
  cases V.find fs s with
  | none => rfl
  | some x => cases x <;> rfl

theorem specV_scalar_cons (blk : Cid) (inBlock : List Bytes) (s : Bytes) (rest : List Bytes) :
    specV .scalar blk inBlock (s :: rest) = if rest.isEmpty then .err else .noLink s := by
  rw [specV]
  intro fs h; cases h

theorem specV_link_cons (c : Cid) (t : V) (blk : Cid) (inBlock : List Bytes) (s : Bytes) (rest : List Bytes) :
    specV (.link c t) blk inBlock (s :: rest) = if rest.isEmpty then .err else .noLink s := by
  rw [specV]
  intro fs h; cases h

theorem mechV_eq_spec : ∀ (rem : List Bytes) (v : V) (blk : Cid) (k : Nat) (d0 inBlock : List Bytes),
    V.acyclic v blk = true → inBlock.length = k →
    (rem ≠ [] → mechV v blk (some blk, k) (d0 ++ inBlock) rem = specV v blk inBlock rem) := by
  intro rem
  induction rem with
  | nil => intro v blk k d0 inBlock _ _ h; exact absurd rfl h
  | cons s rest ih =>
    intro v blk k d0 inBlock hac hk _
    cases rest with
    | nil =>
      simp only [mechV, specV]
      cases v with
      | scalar => simp
      | link c t => simp
      | map fs =>
        simp only
        cases hf : V.find fs s with
        | none => simp
        | some x =>
          have hdrop : ∀ n, n = d0.length → List.drop n (d0 ++ (inBlock ++ [s])) = inBlock ++ [s] := by
            intro n hn; subst hn; exact List.drop_left
          cases x with
          | scalar =>
            simp only [List.append_assoc, ResV.ok.injEq]
            refine ⟨rfl, ?_⟩
            apply hdrop
            simp only [List.length_append, List.length_cons, List.length_nil]; omega
          | map fs' =>
            simp only [List.append_assoc, ResV.ok.injEq]
            refine ⟨rfl, ?_⟩
            apply hdrop
            simp only [List.length_append, List.length_cons, List.length_nil]; omega
          | link c' t => simp
    | cons s2 rest =>
      simp only [mechV]
      cases v with
      | scalar => simp [specV_scalar_cons]
      | link c t => simp [specV_link_cons]
      | map fs =>
        rw [specV_map_cons]
        simp only
        simp only [V.acyclic] at hac
        cases hf : V.find fs s with
        | none => simp
        | some x =>
          have hx := acyclicL_find fs blk s x hac hf
          cases x with
          | scalar =>
            simp only
            have : depthStep (some blk, k) blk = (some blk, k + 1) := by simp [depthStep]
            rw [this]
            have := ih .scalar blk (k + 1) d0 (inBlock ++ [s]) hx (by simp [hk]) (by simp)
            simpa [List.append_assoc] using this
          | map fs' =>
            simp only
            have : depthStep (some blk, k) blk = (some blk, k + 1) := by simp [depthStep]
            rw [this]
            have := ih (.map fs') blk (k + 1) d0 (inBlock ++ [s]) hx (by simp [hk]) (by simp)
            simpa [List.append_assoc] using this
          | link c' t =>
            simp only [V.acyclic, Bool.and_eq_true, bne_iff_ne, ne_eq] at hx
            simp only [List.isEmpty_cons, Bool.false_eq_true, if_false]
            have hne : ¬ (some blk = some c') := by
              intro h; simp at h; exact hx.1 h.symm
            have : depthStep (some blk, k) c' = (some c', 0) := by simp [depthStep, hne]
            rw [this]
            have := ih t c' 0 (d0 ++ inBlock ++ [s]) [] hx.2 rfl (by simp)
            simpa using this

theorem rtlV_eq_spec (v : V) (c : Cid) (segs : List Bytes) (hac : V.acyclic v c = true) :
    rtlV v c segs = specV v c [] segs := by
  cases segs with
  | nil => simp [rtlV, specV]
  | cons s rest =>
    rw [rtlV_eq_mech v c (s :: rest) (by simp)]
    have : depthStep (none, 0) c = (some c, 0) := by simp [depthStep]
    rw [this]
    have := mechV_eq_spec (s :: rest) v c 0 [] [] hac rfl (by simp)
    simpa using this

end C33
