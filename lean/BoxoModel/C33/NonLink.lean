import BoxoModel.C33.Model
/-
C33 (deepening) — the NON-LINK terminal branch of `ResolveToLastNode` and the `depth` bookkeeping of
`resolveNodes` (path/resolver/resolver.go), over plain IPLD (dag-cbor style) trees.  Core-only.

  V            a value inside a block: scalar | map of named values | link (CID of the target block + its
               root value).
  walkV        what `BlockMatching` reports for `pathAllSelector`: (value, `LastBlockLink`) pairs; following
               a link field loads the target block, and the reported node is the target's root value.
  depthOf      the fold of `resolveNodes`: `depth = 0` on a block boundary (`!lastLink.Equals(cid)`),
               `depth++` otherwise; returns (lastLink, depth).
  rtlV         ResolveToLastNode: count test, final `LookupBySegment` (missing key → `ErrNotExists` →
               the generic error branch), then `nd.Kind() != Kind_Link` → `(lastCid,
               remainder[len(remainder)-depth-1:])`, else the link's CID and an empty remainder.
  specV        the property's reading: the CID of the last block entered and the segments walked inside it.
-/
namespace C33

inductive V where
  | scalar
  | map (fields : List (Bytes × V))
  | link (c : Cid) (target : V)

def V.find (fs : List (Bytes × V)) (s : Bytes) : Option V :=
  match fs.find? (fun e => e.1 == s) with
  | some e => some e.2
  | none => none

/-- nodes reported by the traversal, each with the link of the block it lives in -/
def walkV : V → Cid → List Bytes → List (V × Cid)
  | v, c, [] => [(v, c)]
  | v, c, s :: rest =>
    (v, c) :: (match v with
      | .map fs =>
        match V.find fs s with
        | some (.link c' t) => walkV t c' rest      -- explore: load the link, LastBlock := c'
        | some v' => walkV v' c rest
        | none => []
      | _ => [])

/-- `resolveNodes`' callback, folded over the reported nodes; `lastLink = none` is `cid.Undef` -/
def depthStep (st : Option Cid × Nat) (c : Cid) : Option Cid × Nat :=
  if st.1 = some c then (st.1, st.2 + 1) else (some c, 0)

def depthOf (nodes : List (V × Cid)) : Option Cid × Nat :=
  nodes.foldl (fun st n => depthStep st n.2) (none, 0)

inductive ResV where
  | ok (c : Cid) (rem : List Bytes)
  | noLink (name : Bytes)
  | err
  deriving DecidableEq

/-- the body of ResolveToLastNode, generalised for the proofs: `pre` nodes already reported, `done`
segments already consumed (`rtlV` uses `pre = done = []`) -/
def bodyV (pre : List (V × Cid)) (v : V) (blk : Cid) (done rem : List Bytes) (dflt : V × Cid) : ResV :=
  let nodes := pre ++ walkV v blk rem.dropLast
  let segs := done ++ rem
  if nodes.length < 1 then .err
  else if nodes.length < segs.length then .noLink (segs.getD (nodes.length - 1) [])
  else
    -- parent := nodes[len(nodes)-1]; parent.LookupBySegment(lastSegment)
    match (nodes.getLastD dflt).1 with
    | .map fs =>
      match V.find fs (segs.getLastD []) with
      | none => .err                                   -- ErrNotExists: the generic error branch
      | some (.link c' _) => .ok c' []                 -- nd.Kind() == Kind_Link
      | some _ =>                                      -- lastCid, remainder[len(remainder)-depth-1:]
        .ok ((depthOf nodes).1.getD dflt.2) (segs.drop (segs.length - (depthOf nodes).2 - 1))
    | _ => .err                                        -- ErrWrongKind

/-- ResolveToLastNode on a non-UnixFS root (block `c`, root value `v`) -/
def rtlV (v : V) (c : Cid) (segs : List Bytes) : ResV :=
  if segs.length = 0 then .ok c [] else bodyV [] v c [] segs (v, c)

/-- the property's reading: `blk` = last block entered, `inBlock` = segments walked inside it so far -/
def specV : V → Cid → List Bytes → List Bytes → ResV
  | _, blk, inBlock, [] => .ok blk inBlock
  | v, blk, inBlock, s :: rest =>
    match v with
    | .map fs =>
      match V.find fs s with
      | none => if rest.isEmpty then .err else .noLink s
      | some (.link c' t) => if rest.isEmpty then .ok c' [] else specV t c' [] rest
      | some v' => specV v' blk (inBlock ++ [s]) rest
    | _ => if rest.isEmpty then .err else .noLink s

/-- no link points back to the block it is in, nor to the block of its own target's links … i.e.
consecutive blocks on any path have different CIDs (true for hash links: a block cannot contain its own
hash). Needed because `resolveNodes` detects block boundaries by comparing CIDs. -/
def V.acyclic : V → Cid → Bool
  | .scalar, _ => true
  | .map fs, blk => acyclicL fs blk
  | .link c t, blk => c != blk && V.acyclic t c
where acyclicL : List (Bytes × V) → Cid → Bool
  | [], _ => true
  | e :: r, blk => V.acyclic e.2 blk && acyclicL r blk

end C33
