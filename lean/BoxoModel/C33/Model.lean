/-
C33 — path resolution over UnixFS names (basic and HAMT-sharded directories).  Core-only.

What is modelled, and from where:
  * `HashBits.next`            ← /repo/ipld/unixfs/hamt/util.go `hashBits.Next/next` (go-unixfsnode carries a
                                 verbatim copy, hamt/util.go); byte arithmetic transcribed on `Nat`.
  * `Slots`, `lookupAt`, `lookupShard`
                               ← the HAMT read path used by the resolver: go-unixfsnode `hamt/shardeddir.go`
                                 `lookup` (hv.Next(log2) → bitfield.Bit → OnesBefore → link → isValueLink →
                                 MatchKey | loadChild + recurse).  The shard tree is the one WRITTEN by boxo
                                 (`hamt.Shard.Node()`: one link per set bit, in bit order, name =
                                 hex-prefix ++ key) and dumped block by block by the harness.
  * `Node`, `lookupSeg`        ← unixfsnode reification by UnixFS type: File/Raw → bytes node (not a map),
                                 Directory → `utils.Lookup` (first link with that name), HAMTShard → above,
                                 Symlink/Metadata → PathedPBNode (map without matching links).
  * `walkAll`, `walkLeaf`      ← what `fetcherhelpers.BlockMatching` yields for the selectors built by
                                 /repo/path/resolver/resolver.go `pathAllSelector` / `pathLeafSelector`
                                 (go-ipld-prime `walkAdv`: visit; stop unless map; for the single field of
                                 interest `LookupBySegment`, ANY error → `continue`).
  * `resolveToLastNode`, `resolvePath`, `resolvePathComponents`
                               ← /repo/path/resolver/resolver.go, the index arithmetic boxo itself contributes.

The hash function (murmur3-64 of the name, 8 bytes) is a parameter `H`; CIDs are opaque strings.
Not modelled: the non-link terminal branch of ResolveToLastNode (`nd.Kind() != Kind_Link`, the `depth`
bookkeeping) — UnixFS directory lookups always return links; it concerns dag-cbor/dag-json paths.
-/
namespace C33

abbrev Bytes := List UInt8
abbrev Cid := String

/-! ## hashBits -/

structure HashBits where
  b : Bytes
  consumed : Nat
  deriving Repr

/-- `hashBits.next(i)`; `fuel` bounds the recursion of the third branch (`i` strictly decreases). Returns
(out, consumed'). -/
def nextAux : Nat → Bytes → Nat → Nat → Nat × Nat
  | 0, _, consumed, _ => (0, consumed)
  | fuel + 1, b, consumed, i =>
    let curbi := consumed / 8
    let leftb := 8 - consumed % 8
    let curb := (b.getD curbi 0).toNat
    if i = leftb then
      (curb % 2 ^ i, consumed + i)                      -- mkmask(i) & curb
    else if i < leftb then
      let a := curb % 2 ^ leftb                          -- curb & mkmask(leftb)
      let b' := a - a % 2 ^ (leftb - i)                  -- a & ^mkmask(leftb-i)
      (b' / 2 ^ (leftb - i), consumed + i)               -- b >> (leftb-i)
    else
      let out := (curb % 2 ^ leftb) * 2 ^ (i - leftb)    -- (mkmask(leftb) & curb) << (i-leftb)
      let r := nextAux fuel b (consumed + leftb) (i - leftb)
      (out + r.1, r.2)

/-- `hashBits.Next(i)`: `none` = "sharded directory too deep". -/
def HashBits.next (hb : HashBits) (i : Nat) : Option (Nat × HashBits) :=
  if hb.consumed + i > hb.b.length * 8 then none
  else
    let r := nextAux (i + 1) hb.b hb.consumed i
    some (r.1, { hb with consumed := r.2 })

/-! ## shard parameters -/

def tzAux : Nat → Nat → Nat
  | 0, _ => 0
  | f + 1, n => if n % 2 = 1 then 0 else 1 + tzAux f (n / 2)

/-- `bits.TrailingZeros(uint(fanout))` -/
def log2Size (fanout : Nat) : Nat := if fanout = 0 then 64 else tzAux fanout fanout

def hexLenAux : Nat → Nat → Nat
  | 0, _ => 1
  | f + 1, n => if n < 16 then 1 else 1 + hexLenAux f (n / 16)

/-- `len(fmt.Sprintf("%X", fanout-1))` -/
def padLen (fanout : Nat) : Nat := hexLenAux fanout (fanout - 1)

/-- `bitfield.Bit(i)` of the big-endian bitfield read as a number -/
def bit (bf i : Nat) : Bool := bf.testBit i

/-- `bitfield.OnesBefore(i)` -/
def onesBefore (bf i : Nat) : Nat := ((List.range i).filter (bit bf)).length

/-- the set bits below `fanout`, ascending: slot `j` of a shard sits at `positions[j]` -/
def positions (fanout bf : Nat) : List Nat := (List.range fanout).filter (bit bf)

/-! ## the shard tree -/

/-- The links of one shard block, in block order. `val` = value link (name longer than the pad),
`sub` = link to a child shard (name = pad only) with the child's fanout, bitfield and links. -/
inductive Slots (α : Type) where
  | nil
  | val (name : Bytes) (v : α) (rest : Slots α)
  | sub (name : Bytes) (fanout : Nat) (bf : Nat) (slots : Slots α) (rest : Slots α)

inductive LErr where
  | tooDeep | badLink | childIndex | wrongKind
  deriving DecidableEq, Repr

inductive LRes (α : Type) where
  | found (v : α)
  | noSuchField
  | err (e : LErr)

/-- `getChildLink(linkIndex)` followed by the rest of `lookup`: walk to link `idx` of the current shard
(whose pad length is `pad`), then value-match or descend. `hv` has already consumed this shard's digit. -/
def lookupAt {α : Type} (key : Bytes) : Slots α → Nat → Nat → HashBits → LRes α
  | .nil, _, _, _ => .err .childIndex
  | .val name v _, 0, pad, _ =>
    if name.length ≤ pad then .err .badLink          -- isValueLink says error / shard, but it is a value
    else if name.drop pad = key then .found v else .noSuchField
  | .val _ _ rest, i + 1, pad, hv => lookupAt key rest i pad hv
  | .sub name fanout bf slots _, 0, pad, hv =>
    if name.length ≠ pad then .err .badLink
    else
      match hv.next (log2Size fanout) with
      | none => .err .tooDeep
      | some (ci, hv') =>
        if bit bf ci then lookupAt key slots (onesBefore bf ci) (padLen fanout) hv' else .noSuchField
  | .sub _ _ _ _ rest, i + 1, pad, hv => lookupAt key rest i pad hv

/-- `lookup(key, hv)` on a shard whose digit starts at bit `c` of the hash. The resolver starts with `c = 0`. -/
def lookupShard {α : Type} (H : Bytes → Bytes) (key : Bytes) (c fanout bf : Nat) (slots : Slots α) : LRes α :=
  match (HashBits.mk (H key) c).next (log2Size fanout) with
  | none => .err .tooDeep
  | some (ci, hv') =>
    if bit bf ci then lookupAt key slots (onesBefore bf ci) (padLen fanout) hv' else .noSuchField

/-- all (key, value) pairs stored below a link list whose shard has pad length `pad`, in block order -/
def entries {α : Type} : Nat → Slots α → List (Bytes × α)
  | _, .nil => []
  | pad, .val name v rest => (name.drop pad, v) :: entries pad rest
  | pad, .sub _ fanout _ slots rest => entries (padLen fanout) slots ++ entries pad rest

/-- digit of `k` read with `l` bits after `c` consumed bits -/
def digit (H : Bytes → Bytes) (k : Bytes) (c l : Nat) : Option Nat :=
  ((HashBits.mk (H k) c).next l).map (·.1)

def hexDigitU (n : Nat) : UInt8 := if n < 10 then UInt8.ofNat (48 + n) else UInt8.ofNat (55 + n)

/-- `fmt.Sprintf("%0<pad>X", p)` for `p < 16^pad`: the link-name prefix boxo writes for slot `p` -/
def hexPad : Nat → Nat → Bytes
  | 0, _ => []
  | k + 1, p => hexPad k (p / 16) ++ [hexDigitU (p % 16)]

/-- Well-formedness of a link list against the ascending list `ps` of its shard's set bits:
`c` bits consumed before this shard's digit of `l` bits; `L` = hash length in bytes.
Every link name starts with the upper-case hex of its slot (`linkNamePrefix`), every value sits in the
slot its own hash digit names, every key below a child shard has this shard's
digit equal to the child's slot, child shards are themselves well-formed. Decidable; the driver
evaluates it on every dumped HAMT. -/
def wfSlots {α : Type} (H : Bytes → Bytes) (L c l pad : Nat) : Slots α → List Nat → Bool
  | .nil, ps => ps.isEmpty
  | .val name _ rest, p :: ps =>
    decide (name.take pad = hexPad pad p) && decide (pad < name.length)
      && digit H (name.drop pad) c l == some p && wfSlots H L c l pad rest ps
  | .sub name fanout bf slots rest, p :: ps =>
    decide (name.take pad = hexPad pad p) && decide (name.length = pad)
      && ((entries (padLen fanout) slots).all fun e => digit H e.1 c l == some p)
      && decide (c + l + log2Size fanout ≤ 8 * L ∧ bf < 2 ^ fanout)
      && wfSlots H L (c + l) (log2Size fanout) (padLen fanout) slots (positions fanout bf)
      && wfSlots H L c l pad rest ps
  | _, [] => false

/-- a whole HAMT directory (root shard) -/
def wfShard {α : Type} (H : Bytes → Bytes) (L c fanout bf : Nat) (slots : Slots α) : Bool :=
  decide (c + log2Size fanout ≤ 8 * L ∧ bf < 2 ^ fanout) && wfSlots H L c (log2Size fanout) (padLen fanout) slots (positions fanout bf)

/-- first entry with that key -/
def findRes {α : Type} (k : Bytes) (es : List (Bytes × α)) : LRes α :=
  match es.find? (fun e => e.1 == k) with
  | some e => .found e.2
  | none => .noSuchField

def Slots.values {α : Type} : Slots α → List α
  | .nil => []
  | .val _ v rest => v :: values rest
  | .sub _ _ _ slots rest => values slots ++ values rest

/-! ## UnixFS nodes as the resolver sees them (after unixfsnode.Reify) -/

inductive Node where
  | file (c : Cid)                                         -- File / Raw / raw leaf: bytes node
  | sym (c : Cid)                                          -- Symlink / Metadata: PathedPBNode
  | dir (c : Cid) (ents : List (Bytes × Node))             -- basic directory, links in block order
  | hdir (c : Cid) (fanout bf : Nat) (slots : Slots Node)  -- HAMT root shard
  deriving Inhabited

def Node.cid : Node → Cid
  | .file c => c
  | .sym c => c
  | .dir c _ => c
  | .hdir c _ _ _ => c

/-- `n.Kind() == Kind_Map` -/
def Node.isMap : Node → Bool
  | .file _ => false
  | _ => true

/-- `n.LookupBySegment(seg)` of the reified node -/
def lookupSeg (H : Bytes → Bytes) (n : Node) (s : Bytes) : LRes Node :=
  match n with
  | .file _ => .err .wrongKind
  | .sym _ => .noSuchField
  | .dir _ ents => findRes s ents
  | .hdir _ fanout bf slots => lookupShard H s 0 fanout bf slots

/-- logical listing of a node: the (name, child) pairs a reader of the directory sees -/
def children : Node → List (Bytes × Node)
  | .file _ => []
  | .sym _ => []
  | .dir _ ents => ents
  | .hdir _ fanout _ slots => entries (padLen fanout) slots

/-- Can the block be loaded and reified by the link system? go-unixfsnode refuses a HAMTShard whose
UnixFS `Data` (bitfield) field is absent (`ErrNoDataField`), and boxo's `Shard.Node()` writes
`bitfield.Bytes()`, which is nil — field omitted — exactly when no bit is set: the EMPTY HAMT directory
written by boxo is unreadable for the resolver (known finding `empty-hamt-unreadable`). -/
def Node.loadable : Node → Bool
  | .hdir _ _ bf _ => bf != 0
  | _ => true

/-- nodes reported by BlockMatching for `pathAllSelector segs` (Matcher ∪ ExploreFields, nested);
`none` = the traversal returned an error (a link target failed to load) -/
def walkAll (H : Bytes → Bytes) : Node → List Bytes → Option (List Node)
  | n, [] => some [n]
  | n, s :: rest =>
    if !n.isMap then some [n]
    else match lookupSeg H n s with
      | .found ch => if !ch.loadable then none else (walkAll H ch rest).map (n :: ·)
      | _ => some [n]

/-- nodes reported for `pathLeafSelector segs` (ExploreFields nested, Matcher only at the end) -/
def walkLeaf (H : Bytes → Bytes) : Node → List Bytes → Option (List Node)
  | n, [] => some [n]
  | n, s :: rest =>
    if !n.isMap then some []
    else match lookupSeg H n s with
      | .found ch => if !ch.loadable then none else walkLeaf H ch rest
      | _ => some []

inductive RErr where
  | notResolved | lookup | load
  deriving DecidableEq, Repr

inductive Res where
  | ok (c : Cid) (rem : List Bytes)
  | noLink (name : Bytes)
  | err (e : RErr)
  deriving DecidableEq, Repr

/-- ResolveToLastNode after the `len(remainder) == 0` shortcut and the load of the root block -/
def rtlBody (H : Bytes → Bytes) (root : Node) (segs : List Bytes) : Res :=
  match walkAll H root segs.dropLast with              -- resolveNodes(pathAllSelector(remainder[:len-1]))
  | none => .err .load
  | some nodes =>
    if nodes.length < 1 then .err .notResolved
    else if nodes.length < segs.length then .noLink (segs.getD (nodes.length - 1) [])
    else
      -- parent := nodes[len(nodes)-1]; parent.LookupBySegment(lastSegment)
      match lookupSeg H (nodes.getLastD root) (segs.getLastD []) with
      | .found ch => .ok ch.cid []
      | .noSuchField => .noLink (segs.getLastD [])
      | .err _ => .err .lookup

/-- ResolveToLastNode -/
def resolveToLastNode (H : Bytes → Bytes) (root : Node) (segs : List Bytes) : Res :=
  if segs.length = 0 then .ok root.cid []
  else if !root.loadable then .err .load
  else rtlBody H root segs

/-- ResolvePath: the link of the last matched node, or an error (load error, or the generic
"did not resolve to a node") -/
def resolvePath (H : Bytes → Bytes) (root : Node) (segs : List Bytes) : Option Cid :=
  if !root.loadable then none
  else match walkLeaf H root segs with
    | none => none
    | some l => l.getLast?.map Node.cid

/-- ResolvePathComponents: the matched nodes (no error when a name is missing: the list is short);
`none` = error -/
def resolvePathComponents (H : Bytes → Bytes) (root : Node) (segs : List Bytes) : Option (List Node) :=
  if !root.loadable then none else walkAll H root segs

/-! ## specification -/

/-- what the code computes, as a recursion over the path (lookup errors in the middle of a path are
reported as a missing link, at the end as an error; an intermediate block that cannot be loaded is an
error) -/
def resolveSpec (H : Bytes → Bytes) : Node → List Bytes → Res
  | n, [] => .ok n.cid []
  | n, s :: rest =>
    match lookupSeg H n s with
    | .found ch =>
      if rest.isEmpty then .ok ch.cid []          -- the last link is returned without loading its target
      else if !ch.loadable then .err .load
      else resolveSpec H ch rest
    | .noSuchField => .noLink s
    | .err _ => if rest.isEmpty then .err .lookup else .noLink s

/-- resolution by *names*: independent of hashes, tries and block layout -/
def resolveNames : Node → List Bytes → Res
  | n, [] => .ok n.cid []
  | n, s :: rest =>
    match n with
    | .file _ => if rest.isEmpty then .err .lookup else .noLink s
    | _ =>
      match (children n).find? (fun e => e.1 == s) with
      | some e => resolveNames e.2 rest
      | none => .noLink s

/-- the node a path names, by directory listings only -/
def follow : Node → List Bytes → Option Node
  | n, [] => some n
  | n, s :: rest =>
    match (children n).find? (fun e => e.1 == s) with
    | some e => follow e.2 rest
    | none => none

mutual
/-- every HAMT directory anywhere in the tree is well-formed w.r.t. `H` (hash length `L` bytes) -/
def wfTree (H : Bytes → Bytes) (L : Nat) : Node → Bool
  | .file _ => true
  | .sym _ => true
  | .dir _ ents => wfEnts H L ents
  | .hdir _ fanout bf slots => wfShard H L 0 fanout bf slots && wfVals H L slots
def wfEnts (H : Bytes → Bytes) (L : Nat) : List (Bytes × Node) → Bool
  | [] => true
  | e :: r => wfTree H L e.2 && wfEnts H L r
def wfVals (H : Bytes → Bytes) (L : Nat) : Slots Node → Bool
  | .nil => true
  | .val _ v rest => wfTree H L v && wfVals H L rest
  | .sub _ _ _ slots rest => wfVals H L slots && wfVals H L rest
end

mutual
/-- guard of the `_partial` theorems: no EMPTY HAMT directory anywhere in the tree -/
def loadableTree : Node → Bool
  | .file _ => true
  | .sym _ => true
  | .dir _ ents => loadableEnts ents
  | .hdir _ _ bf slots => bf != 0 && loadableVals slots
def loadableEnts : List (Bytes × Node) → Bool
  | [] => true
  | e :: r => loadableTree e.2 && loadableEnts r
def loadableVals : Slots Node → Bool
  | .nil => true
  | .val _ v rest => loadableTree v && loadableVals rest
  | .sub _ _ _ slots rest => loadableVals slots && loadableVals rest
end

mutual
def countNodes : Node → Nat
  | .file _ => 1
  | .sym _ => 1
  | .dir _ ents => 1 + countEnts ents
  | .hdir _ _ _ slots => 1 + countVals slots
def countEnts : List (Bytes × Node) → Nat
  | [] => 0
  | e :: r => countNodes e.2 + countEnts r
def countVals : Slots Node → Nat
  | .nil => 0
  | .val _ v rest => countNodes v + countVals rest
  | .sub _ _ _ slots rest => countVals slots + countVals rest
end

end C33
