import BoxoModel.C33.Lemmas
import BoxoModel.C15.BitsLemmas
/-!
C33 — `hashBits.next` (the `Nat`-arithmetic transcription `C33.nextAux`) reads big-endian bit windows.
Mirrors `C15.nextBits_eq_window_fuel` (agent b-dirs, BitVec transcription of the same Go function) and
reuses its list-level lemmas (`bitsBE`, `ofBits`, `bitsBE_drop_split`, …); the per-byte fact is
re-checked here for the `Nat` formulas by the kernel.
-/
namespace C33

/-- the hash as one big-endian bit string -/
def hashBitsBE (b : Bytes) : List Bool := C15.bitsBE (b.map (·.toBitVec))

/-- per-byte fact (256 bytes × 8 offsets × 9 widths): the two non-recursive branches of `nextAux`,
as written with `%`, `-`, `/` on `Nat`, read `i` bits at offset `o` of the byte, most significant first -/
theorem byte_eq_fin : ∀ (n : Fin 256) (o : Fin 8) (i : Fin 9), i.val ≤ 8 - o.val →
    (if i.val = 8 - o.val then n.val % 2 ^ i.val
     else (n.val % 2 ^ (8 - o.val) - n.val % 2 ^ (8 - o.val) % 2 ^ (8 - o.val - i.val)) / 2 ^ (8 - o.val - i.val))
      = C15.ofBits (((C15.byteBits (BitVec.ofFin n)).drop o.val).take i.val) := by
  decide +kernel

theorem byte_eq (x : UInt8) (o i : Nat) (ho : o < 8) (hi : i ≤ 8 - o) :
    (if i = 8 - o then x.toNat % 2 ^ i
     else (x.toNat % 2 ^ (8 - o) - x.toNat % 2 ^ (8 - o) % 2 ^ (8 - o - i)) / 2 ^ (8 - o - i))
      = C15.ofBits (((C15.byteBits x.toBitVec).drop o).take i) :=
  byte_eq_fin x.toBitVec.toFin ⟨o, ho⟩ ⟨i, by omega⟩ hi

theorem getD_map_toBitVec (b : Bytes) (q : Nat) :
    (b.map (·.toBitVec)).getD q 0 = (b.getD q 0).toBitVec := by
  simp only [List.getD_eq_getElem?_getD, List.getElem?_map]
  cases b[q]? <;> simp

/-- `nextAux` with any sufficient fuel reads the window `[consumed, consumed+i)` -/
theorem nextAux_eq_window_fuel (b : Bytes) : ∀ (fuel consumed i : Nat), i < fuel →
    consumed + i ≤ b.length * 8 →
    (nextAux fuel b consumed i).1 = C15.ofBits (((hashBitsBE b).drop consumed).take i) := by
  intro fuel
  induction fuel with
  | zero => intro _ _ h; omega
  | succ fuel ih =>
    intro consumed i hf h
    have ho : consumed % 8 < 8 := Nat.mod_lt _ (by omega)
    have hc : consumed = 8 * (consumed / 8) + consumed % 8 := (Nat.div_add_mod consumed 8).symm
    generalize hq : consumed / 8 = q at hc
    generalize hoo : consumed % 8 = o at hc ho
    unfold nextAux
    simp only [hq, hoo]
    have hlenm : (b.map (·.toBitVec)).length = b.length := by simp
    by_cases hle : i ≤ 8 - o
    · have hb := byte_eq (b.getD q 0) o i ho hle
      have hwin : ((hashBitsBE b).drop consumed).take i
          = ((C15.byteBits (b.getD q 0).toBitVec).drop o).take i := by
        unfold hashBitsBE
        by_cases hql : q < b.length
        · rw [hc, C15.bitsBE_drop_split _ q o (by rw [hlenm]; exact hql) (by omega),
            List.take_append_of_le_length (by simp; omega), getD_map_toBitVec]
        · have hi0 : i = 0 := by omega
          subst hi0
          simp
      rw [hwin, ← hb]
      by_cases he : i = 8 - o
      · simp [he]
      · have hlt : i < 8 - o := by omega
        simp [he, hlt]
    · have hql : q < b.length := by omega
      have hne : ¬ i = 8 - o := by omega
      have hnl : ¬ i < 8 - o := by omega
      simp only [hne, hnl, if_false]
      have hb := byte_eq (b.getD q 0) o (8 - o) ho (Nat.le_refl _)
      simp only [if_true] at hb
      rw [hb, ih (consumed + (8 - o)) (i - (8 - o)) (by omega) (by omega)]
      have h1 : consumed + (8 - o) = 8 * (q + 1) := by omega
      unfold hashBitsBE
      rw [h1, C15.bitsBE_drop, hc, C15.bitsBE_drop_split _ q o (by rw [hlenm]; exact hql) (by omega)]
      rw [List.take_append, C15.ofBits_append, getD_map_toBitVec]
      have hlen : ((C15.byteBits (b.getD q 0).toBitVec).drop o).length = 8 - o := by simp
      have hl2 : (C15.bitsBE (List.drop (q + 1) (b.map (·.toBitVec)))).length = 8 * (b.length - (q + 1)) := by
        rw [C15.bitsBE_length]; simp
      have e1 : ((C15.byteBits (b.getD q 0).toBitVec).drop o).take (8 - o)
          = (C15.byteBits (b.getD q 0).toBitVec).drop o := List.take_of_length_le (by omega)
      have e2 : ((C15.byteBits (b.getD q 0).toBitVec).drop o).take i
          = (C15.byteBits (b.getD q 0).toBitVec).drop o := List.take_of_length_le (by omega)
      have e3 : ((C15.bitsBE (List.drop (q + 1) (b.map (·.toBitVec)))).take (i - (8 - o))).length = i - (8 - o) := by
        rw [List.length_take, hl2]; omega
      rw [e1, e2, hlen, e3]

/-- `hashBits.Next(i)`: success iff enough bits are left; the value is the window `[c, c+i)` of the hash
read as one big-endian bit string, below `2^i`; `i` more bits are consumed. -/
theorem next_eq_window (h : Bytes) (c i : Nat) :
    (HashBits.mk h c).next i
      = if c + i ≤ 8 * h.length then
          some (C15.ofBits (((hashBitsBE h).drop c).take i), HashBits.mk h (c + i))
        else none := by
  by_cases hle : c + i ≤ 8 * h.length
  · rw [next_some h c i hle, nextAux_eq_window_fuel h (i + 1) c i (Nat.lt_succ_self i) (by omega)]
    simp [hle]
  · rw [next_none h c i (by omega)]
    simp [hle]

theorem window_lt (h : Bytes) (c i : Nat) (hle : c + i ≤ 8 * h.length) :
    C15.ofBits (((hashBitsBE h).drop c).take i) < 2 ^ i := by
  have := C15.ofBits_lt (((hashBitsBE h).drop c).take i)
  have hl : (((hashBitsBE h).drop c).take i).length = i := by
    unfold hashBitsBE
    rw [List.length_take, List.length_drop, C15.bitsBE_length]
    simp
    omega
  rwa [hl] at this

/-- the `Nat` transcription used here agrees with b-dirs' BitVec transcription, whose `mkmask` is the
definition REGENERATED from /repo/ipld/unixfs/hamt/util.go on every run (`Gen.C15.mkmask`) -/
theorem nextAux_eq_c15 (h : Bytes) (c i : Nat) (hle : c + i ≤ h.length * 8) :
    (nextAux (i + 1) h c i).1 = C15.nextBits (h.map (·.toBitVec)) (i + 1) c i := by
  rw [nextAux_eq_window_fuel h (i + 1) c i (Nat.lt_succ_self i) hle,
    C15.nextBits_eq_window (h.map (·.toBitVec)) c i (by simpa using hle)]
  rfl

end C33
