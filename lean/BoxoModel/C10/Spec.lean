import BoxoModel.C10.Model
/-!
C10 — the specification side: a byte-array file with a position, and the operation alphabet with the
model's dispatch (`step`) and the file model's (`specStep`).  Core-only; no theorems here.

Chosen semantics of the file model (docs/notes/C10.md): `Write` writes at the position and advances it;
`WriteAt(b, off)` writes at `off` and leaves the position at `off + len b` (the DagModifier shares one write
buffer between Write and WriteAt; it has no independent "pwrite"); a write at an offset beyond the end first
extends the file with zeros, also when it writes zero bytes; `Seek` follows io.Seeker (negative target or
unknown whence ⇒ error, nothing changes) and — as the DagModifier does eagerly — extends the file with
zeros when the target lies beyond the end; `Read` returns the bytes from the position, short at the end;
`Truncate` cuts or zero-extends; it does not move a position that the last write or seek established
(`anchor`, may then lie beyond the end — as the repo's TestDagSync expects), but when it cuts below a position
that was only reached by reading it takes the position back to `max anchor newSize` (the repo's mfs
TestTruncateAndWrite expects the following Write at the new end).  `anchor` = the position left by the last
Write / WriteAt / Seek; Read moves `pos` only.
-/
namespace C10
open FileTree

/-- `ow C o buf`: `C` with the bytes from offset `o` on replaced by `buf`, never growing `C` -/
def ow : List UInt8 → Nat → List UInt8 → List UInt8
  | [], _, _ => []
  | c :: C, o + 1, buf => c :: ow C o buf
  | c :: C, 0, [] => c :: C
  | _ :: C, 0, b :: buf => b :: ow C 0 buf

/-- the part of `buf` that did not fit -/
def owRest : List UInt8 → Nat → List UInt8 → List UInt8
  | [], _, buf => buf
  | _ :: C, o + 1, buf => owRest C o buf
  | _ :: _, 0, [] => []
  | _ :: C, 0, _ :: buf => owRest C 0 buf


structure File where
  bytes : List UInt8
  pos : Nat
  /-- the position left by the last write or seek (reads do not move it) -/
  anchor : Nat

/-- `b` extended with zeros to length at least `n` -/
def zext (b : List UInt8) (n : Nat) : List UInt8 := b ++ List.replicate (n - b.length) 0

/-- positional write: the bytes before `off` (zero padded), then `b`, then what the file had after `off + len b` -/
def pwrite (f : List UInt8) (off : Nat) (b : List UInt8) : List UInt8 :=
  (zext f off).take off ++ b ++ f.drop (off + b.length)

inductive Op where
  | write (b : List UInt8)
  | writeAt (b : List UInt8) (off : Int)
  | seek (off : Int) (whence : Nat)
  | read (k : Nat)
  | truncate (sz : Int)
  | size
  | sync
  | getNode

inductive Out where
  | wrote (n : Nat)
  | pos (p : Int)
  | data (d : List UInt8)
  | size (n : Nat)
  | content (bytes : List UInt8)
  | ok
  | err
  deriving DecidableEq, Repr

/-- the file model -/
def specStep (f : File) : Op → File × Out
  | .write b => ({ bytes := pwrite f.bytes f.pos b, pos := f.pos + b.length, anchor := f.pos + b.length },
      .wrote b.length)
  | .writeAt b off =>
    if off < 0 then (f, .err)      -- io.WriterAt: a negative offset is an error
    else ({ bytes := pwrite f.bytes off.toNat b, pos := off.toNat + b.length, anchor := off.toNat + b.length },
      .wrote b.length)
  | .seek off whence =>
    let target : Option Int :=
      if whence = 1 then some ((f.pos : Int) + off)
      else if whence = 0 then some off
      else if whence = 2 then some ((f.bytes.length : Int) + off)
      else none
    match target with
    | none => (f, .err)
    | some t => if t < 0 then (f, .err)
      else ({ bytes := zext f.bytes t.toNat, pos := t.toNat, anchor := t.toNat }, .pos t)
  | .read k => ({ f with pos := f.pos + ((f.bytes.drop f.pos).take k).length }, .data ((f.bytes.drop f.pos).take k))
  | .truncate sz =>
    if sz < 0 then (f, .err)       -- a negative size is an error
    else
      let sz := sz.toNat
      ({ f with bytes := (zext f.bytes sz).take sz,
                pos := if sz < f.bytes.length ∧ f.pos > sz then max f.anchor sz else f.pos }, .ok)
  | .size => (f, .size f.bytes.length)
  | .sync => (f, .ok)
  | .getNode => (f, .content f.bytes)

/-- the DagModifier model, same alphabet (error returns of the model become `.err`) -/
def step (c : Cfg) (s : DM) : Op → DM × Out
  | .write b => let r := write c s b; (r.1, if r.2.2 then .wrote r.2.1 else .err)
  | .writeAt b off => let r := writeAtI c s b off; (r.1, if r.2.2 then .wrote r.2.1 else .err)
  | .seek off whence => let r := seek c s off whence; (r.1, if r.2.2 then .pos r.2.1 else .err)
  | .read k => let r := read c s k; (r.1, if r.2.2 then .data r.2.1 else .err)
  | .truncate sz => let r := truncateI c s sz; (r.1, if r.2 then .ok else .err)
  | .size => (s, .size s.size)
  | .sync => match sync c s with
    | some s' => (s', .ok)
    | none => (s, .err)
  | .getNode => let r := getNode c s
    match r.2 with
    | some t => (r.1, .content (content t))
    | none => (r.1, .err)

/-- what the pending write buffer and the current DAG denote together -/
def DM.bytes (s : DM) : List UInt8 :=
  match s.wrBuf with
  | none => content s.cur
  | some buf => pwrite (content s.cur) s.writeStart buf

/-- where the last write or seek left the offset: `writeStart` once flushed, `curWrOff` while a write is pending -/
def DM.anchor (s : DM) : Nat :=
  match s.wrBuf with
  | none => s.writeStart
  | some _ => s.curWrOff

def abs (s : DM) : File := { bytes := s.bytes, pos := s.curWrOff, anchor := s.anchor }

def runModel (c : Cfg) : DM → List Op → List Out
  | _, [] => []
  | s, op :: ops => (step c s op).2 :: runModel c (step c s op).1 ops

def runSpec : File → List Op → List Out
  | _, [] => []
  | f, op :: ops => (specStep f op).2 :: runSpec (specStep f op).1 ops

end C10
