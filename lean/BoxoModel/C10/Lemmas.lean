import BoxoModel.C08.Lemmas
import BoxoModel.C10.Model
import BoxoModel.C10.Spec
/-! Helper lemmas for C10.  Tree layer: effect of modifyDag / dagTruncate / appendData on `content`, sizes and
shape.  Control layer: the abstraction to a byte-array file and the per-operation refinement steps. -/
set_option linter.unusedSimpArgs false
set_option linter.unusedVariables false
namespace C10
open FileTree C07 C08

/-! ### overwrite on byte lists (recursive characterisation, `ow` / `owRest` are in Spec.lean) -/

@[simp] theorem ow_length (C : List UInt8) : ∀ o buf, (ow C o buf).length = C.length := by
  induction C with
  | nil => intro o buf; simp [ow]
  | cons c C ih =>
    intro o buf
    cases o with
    | succ o => simp [ow, ih]
    | zero => cases buf <;> simp [ow, ih]

@[simp] theorem ow_nil_buf (C : List UInt8) : ∀ o, ow C o [] = C := by
  induction C with
  | nil => intro o; simp [ow]
  | cons c C ih => intro o; cases o <;> simp [ow, ih]

@[simp] theorem owRest_nil_buf (C : List UInt8) : ∀ o, owRest C o [] = [] := by
  induction C with
  | nil => intro o; simp [owRest]
  | cons c C ih => intro o; cases o <;> simp [owRest, ih]

theorem ow_beyond (C : List UInt8) : ∀ o buf, C.length ≤ o → ow C o buf = C ∧ owRest C o buf = buf := by
  induction C with
  | nil => intro o buf _; simp [ow, owRest]
  | cons c C ih =>
    intro o buf h
    cases o with
    | zero => simp at h
    | succ o =>
      simp only [List.length_cons, Nat.add_le_add_iff_right] at h
      simp [ow, owRest, ih o buf h]

theorem ow_append (A R : List UInt8) : ∀ o buf,
    ow (A ++ R) o buf = ow A o buf ++ ow R (o - A.length) (owRest A o buf) ∧
    owRest (A ++ R) o buf = owRest R (o - A.length) (owRest A o buf) := by
  induction A with
  | nil => intro o buf; simp [ow, owRest]
  | cons a A ih =>
    intro o buf
    cases o with
    | succ o =>
      have := ih o buf
      simp only [List.cons_append, ow, owRest, List.length_cons, Nat.add_sub_add_right]
      exact ⟨by rw [this.1], this.2⟩
    | zero =>
      cases buf with
      | nil => simp [ow, owRest]
      | cons b buf =>
        have := ih 0 buf
        simp only [List.cons_append, ow, owRest, List.length_cons, Nat.zero_sub] at this ⊢
        exact ⟨by rw [this.1], this.2⟩

/-- the take/drop form used by the leaf case of modifyDag -/
theorem ow_eq_take_drop (d : List UInt8) : ∀ off buf,
    d.take off ++ buf.take (min buf.length (d.length - off)) ++ d.drop (off + min buf.length (d.length - off))
      = ow d off buf ∧
    buf.drop (min buf.length (d.length - off)) = owRest d off buf := by
  induction d with
  | nil => intro off buf; simp [ow, owRest]
  | cons c d ih =>
    intro off buf
    cases off with
    | succ o =>
      have := ih o buf
      simp only [List.length_cons, Nat.add_sub_add_right, List.take_succ_cons, ow, owRest]
      refine ⟨?_, this.2⟩
      have e : o + 1 + min buf.length (d.length - o) = (o + min buf.length (d.length - o)) + 1 := by omega
      rw [e, List.drop_succ_cons, ← this.1]
      simp
    | zero =>
      cases buf with
      | nil => simp [ow, owRest]
      | cons b buf =>
        have := ih 0 buf
        simp only [Nat.sub_zero, List.take_zero, List.nil_append, Nat.zero_add] at this
        simp only [List.length_cons, Nat.sub_zero, List.take_zero, List.nil_append, Nat.zero_add, ow, owRest]
        have e : min (buf.length + 1) (d.length + 1) = min buf.length d.length + 1 := by omega
        rw [e]
        simp only [List.take_succ_cons, List.drop_succ_cons, List.cons_append]
        exact ⟨by rw [this.1], this.2⟩

/-! ### modifyDag -/

@[simp] theorem modifyDag_leaf (d : List UInt8) (off : Nat) (buf : List UInt8) :
    modifyDag (.leaf d) off buf = (.leaf (ow d off buf), owRest d off buf) := by
  have := ow_eq_take_drop d off buf
  simp [modifyDag, this.1, this.2]

@[simp] theorem modifyDag_node (fs : Nat) (cs : List (FNode × Nat)) (off : Nat) (buf : List UInt8) :
    modifyDag (.node fs cs) off buf = (.node fs (modifyL cs 0 off buf).1, (modifyL cs 0 off buf).2) := by
  simp [modifyDag]

@[simp] theorem modifyL_nil (cur off : Nat) (buf : List UInt8) : modifyL [] cur off buf = ([], buf) := by
  simp [modifyL]

theorem modifyL_cons (c : FNode × Nat) (r : List (FNode × Nat)) (cur off : Nat) (buf : List UInt8) :
    modifyL (c :: r) cur off buf =
      if cur + c.2 > off then
        if (modifyDag c.1 (off - cur) buf).2.isEmpty then
          (((modifyDag c.1 (off - cur) buf).1, c.2) :: r, (modifyDag c.1 (off - cur) buf).2)
        else
          (((modifyDag c.1 (off - cur) buf).1, c.2) ::
            (modifyL r (cur + c.2) (cur + c.2) (modifyDag c.1 (off - cur) buf).2).1,
           (modifyL r (cur + c.2) (cur + c.2) (modifyDag c.1 (off - cur) buf).2).2)
      else (c :: (modifyL r (cur + c.2) off buf).1, (modifyL r (cur + c.2) off buf).2) := by
  rw [modifyL]

/-- a per-child shape check survives replacing the child by one that verifies wherever the old one did -/
theorem childOK_imp (st : Bool) (w : Nat) (D : Int) (i : Nat) (t t' : FNode)
    (himp : ∀ D : Int, tshape w D t = true → tshape w D t' = true) (h : childOK st w D i t = true) :
    childOK st w D i t' = true := by
  unfold childOK at h ⊢
  split
  · rename_i hi
    simp only [hi, if_true] at h
    cases st with
    | false => simp
    | true => simpa using himp 0 (by simpa using h)
  · rename_i hi
    simp only [hi, if_false, Bool.and_eq_true] at h ⊢
    exact ⟨h.1, himp _ h.2⟩

/-- relaxed or strict, a list of at most `w - i` children starting at index `i` has nothing to check when relaxed -/
theorem tshapeL_relaxed_short (w : Nat) (D : Int) (cs : List (FNode × Nat)) : ∀ i, i + cs.length ≤ w →
    tshapeL false w D i cs = true := by
  induction cs with
  | nil => intro i _; simp
  | cons c r ih =>
    intro i h
    simp only [List.length_cons] at h
    have : i < w := by omega
    rw [tshapeL_cons']
    simp [childOK, this, ih (i + 1) (by omega)]

theorem tshapeL_relax (w : Nat) (D : Int) (cs : List (FNode × Nat)) : ∀ i, tshapeL true w D i cs = true →
    tshapeL false w D i cs = true := by
  induction cs with
  | nil => intro i _; simp
  | cons c r ih =>
    intro i h
    rw [tshapeL_cons'] at h ⊢
    simp only [Bool.and_eq_true] at h ⊢
    refine ⟨?_, ih _ h.2⟩
    have h1 := h.1
    unfold childOK at h1 ⊢
    split
    · simp
    · rename_i hi; simpa [hi] using h1

theorem rootShape_relax (w : Nat) (t : FNode) (h : tshape w (-1) t = true) : rootShape false w (-1) t = true := by
  cases t with
  | leaf d => simp at h
  | node fs cs =>
    simp only [tshape_node, Bool.and_eq_true] at h
    exact tshapeL_relax w (-1) cs 0 h.2

/-- everything modifyDag guarantees on a well-sized tree -/
def ModOK (w : Nat) (t t' : FNode) (rest : List UInt8) (off : Nat) (buf : List UInt8) : Prop :=
  content t' = ow (content t) off buf ∧ rest = owRest (content t) off buf ∧ wellSized t' = true ∧
  size t' = size t ∧ (∀ D : Int, tshape w D t = true → tshape w D t' = true) ∧ (isNode t' = isNode t) ∧
  (∀ (st : Bool) (D : Int), rootShape st w D t = true → rootShape st w D t' = true)

def ModLOK (w : Nat) (cs cs' : List (FNode × Nat)) (rest : List UInt8) (o : Nat) (buf : List UInt8) : Prop :=
  contentL cs' = ow (contentL cs) o buf ∧ rest = owRest (contentL cs) o buf ∧ wellSizedL cs' = true ∧
  recSum cs' = recSum cs ∧ (∀ (st : Bool) (D : Int) i, tshapeL st w D i cs = true → tshapeL st w D i cs' = true)

theorem modify_ok (w : Nat) (t : FNode) :
    wellSized t = true → ∀ off buf, ModOK w t (modifyDag t off buf).1 (modifyDag t off buf).2 off buf := by
  refine FNode.induct (P := fun t => wellSized t = true → ∀ off buf,
      ModOK w t (modifyDag t off buf).1 (modifyDag t off buf).2 off buf)
    (Q := fun cs => wellSizedL cs = true → ∀ cur off buf, cur ≤ off →
      ModLOK w cs (modifyL cs cur off buf).1 (modifyL cs cur off buf).2 (off - cur) buf)
    ?_ ?_ ?_ ?_ t
  · intro d _ off buf
    simp [ModOK, isNode, rootShape]
  · intro fs cs ih hws off buf
    simp only [wellSized_node, Bool.and_eq_true, beq_iff_eq] at hws
    obtain ⟨h1, h2, h3, h4, h5⟩ := ih hws.2 0 off buf (Nat.zero_le _)
    simp only [Nat.sub_zero] at h1 h2
    refine ⟨by simpa using h1, by simpa using h2, ?_, by simp, ?_, by simp [isNode], ?_⟩
    · simp [h3, h4, hws.1]
    · intro D hD
      simp only [modifyDag_node, tshape_node, Bool.and_eq_true] at hD ⊢
      exact ⟨hD.1, h5 true D 0 hD.2⟩
    · intro st D hD
      simp only [modifyDag_node, rootShape] at hD ⊢
      exact h5 st D 0 hD
  · intro _ cur off buf _
    simp [ModLOK, ow, owRest]
  · intro c r ihc ihr hws cur off buf hle
    simp only [wellSizedL_cons, Bool.and_eq_true, beq_iff_eq] at hws
    obtain ⟨⟨hc2, hcw⟩, hrw⟩ := hws
    have hlen : (content c.1).length = c.2 := by rw [hc2, size_eq_of_wellSized c.1 hcw]
    rw [modifyL_cons]
    by_cases hgt : cur + c.2 > off
    · simp only [hgt, if_true]
      obtain ⟨m1, m2, m3, m4, m5, _, _⟩ := ihc hcw (off - cur) buf
      have hoa := ow_append (content c.1) (contentL r) (off - cur) buf
      have hz : off - cur - (content c.1).length = 0 := by omega
      rw [hz] at hoa
      by_cases he : (modifyDag c.1 (off - cur) buf).2.isEmpty = true
      · simp only [he, if_true]
        have hemp : owRest (content c.1) (off - cur) buf = [] := by
          rw [← m2]; simpa using he
        refine ⟨?_, ?_, ?_, by simp, ?_⟩
        · simp only [contentL_cons, m1, hoa.1, hemp, ow_nil_buf]
        · rw [contentL_cons, hoa.2, hemp, owRest_nil_buf]
          rw [m2] ; exact hemp
        · simp only [wellSizedL_cons, m3, m4, hrw, ← hc2]; simp
        · intro st D i h
          rw [tshapeL_cons'] at h ⊢
          simp only [Bool.and_eq_true] at h ⊢
          exact ⟨childOK_imp st w D i _ _ m5 h.1, h.2⟩
      · simp only [he, Bool.false_eq_true, if_false]
        obtain ⟨r1, r2, r3, r4, r5⟩ := ihr hrw (cur + c.2) (cur + c.2) (modifyDag c.1 (off - cur) buf).2
          (Nat.le_refl _)
        simp only [Nat.sub_self] at r1 r2
        simp only [m2] at r1 r2 r3 r4 r5 ⊢
        refine ⟨?_, ?_, ?_, ?_, ?_⟩
        · simp only [contentL_cons, m1, r1, hoa.1]
        · rw [contentL_cons, hoa.2, r2]
        · simp only [wellSizedL_cons, m3, m4, r3, ← hc2]; simp
        · simp [r4]
        · intro st D i h
          rw [tshapeL_cons'] at h ⊢
          simp only [Bool.and_eq_true] at h ⊢
          exact ⟨childOK_imp st w D i _ _ m5 h.1, r5 st D _ h.2⟩
    · simp only [hgt, if_false]
      obtain ⟨r1, r2, r3, r4, r5⟩ := ihr hrw (cur + c.2) off buf (by omega)
      have hb := ow_beyond (content c.1) (off - cur) buf (by omega)
      have hoa := ow_append (content c.1) (contentL r) (off - cur) buf
      have e : off - cur - (content c.1).length = off - (cur + c.2) := by omega
      rw [e, hb.1, hb.2] at hoa
      refine ⟨?_, ?_, ?_, ?_, ?_⟩
      · simp only [contentL_cons, r1, hoa.1]
      · rw [contentL_cons, hoa.2, r2]
      · simp only [wellSizedL_cons, hcw, r3, ← hc2]; simp
      · simp [r4]
      · intro st D i h
        rw [tshapeL_cons'] at h ⊢
        simp only [Bool.and_eq_true] at h ⊢
        exact ⟨h.1, r5 st D _ h.2⟩

/-! ### dagTruncate -/

@[simp] theorem dagTruncate_leaf (d : List UInt8) (sz : Nat) : dagTruncate (.leaf d) sz = some (.leaf (d.take sz)) := by
  simp [dagTruncate]

theorem dagTruncate_node (fs : Nat) (cs : List (FNode × Nat)) (sz : Nat) :
    dagTruncate (.node fs cs) sz = (truncL cs 0 sz).map fun l => .node (recSum l) l := by
  rw [dagTruncate]; cases truncL cs 0 sz <;> rfl

@[simp] theorem truncL_nil (cur sz : Nat) : truncL [] cur sz = none := by simp [truncL]

theorem truncL_cons (c : FNode × Nat) (r : List (FNode × Nat)) (cur sz : Nat) :
    truncL (c :: r) cur sz =
      if sz < cur + size c.1 then (dagTruncate c.1 (sz - cur)).map fun t => [(t, sz - cur)]
      else (truncL r (cur + size c.1) sz).map fun l => (c.1, size c.1) :: l := by
  rw [truncL]
  split
  · cases dagTruncate c.1 (sz - cur) <;> rfl
  · cases truncL r (cur + size c.1) sz <;> rfl

def TruncOK (w : Nat) (t t' : FNode) (sz : Nat) : Prop :=
  content t' = (content t).take sz ∧ wellSized t' = true ∧ size t' = sz ∧
  (∀ D : Int, tshape w D t = true → tshape w D t' = true) ∧ isNode t' = isNode t ∧
  (∀ (st : Bool) (D : Int), rootShape st w D t = true → rootShape st w D t' = true)

theorem truncate_ok (w : Nat) (t : FNode) :
    wellSized t = true → ∀ sz, sz < size t → ∃ t', dagTruncate t sz = some t' ∧ TruncOK w t t' sz := by
  refine FNode.induct (P := fun t => wellSized t = true → ∀ sz, sz < size t →
      ∃ t', dagTruncate t sz = some t' ∧ TruncOK w t t' sz)
    (Q := fun cs => wellSizedL cs = true → ∀ cur sz, cur ≤ sz → sz < cur + recSum cs →
      ∃ l, truncL cs cur sz = some l ∧ contentL l = (contentL cs).take (sz - cur) ∧ wellSizedL l = true ∧
        recSum l = sz - cur ∧ (∀ (st : Bool) (D : Int) i, tshapeL st w D i cs = true → tshapeL st w D i l = true))
    ?_ ?_ ?_ ?_ t
  · intro d _ sz hsz
    simp only [size_leaf] at hsz
    exact ⟨_, dagTruncate_leaf d sz, by simp, by simp, by simp; omega, by intro D h; simpa using h, by simp [isNode],
      by intro st D h; simp [rootShape] at h⟩
  · intro fs cs ih hws sz hsz
    simp only [wellSized_node, Bool.and_eq_true, beq_iff_eq] at hws
    simp only [size_node] at hsz
    obtain ⟨l, hl, l1, l2, l3, l4⟩ := ih hws.2 0 sz (Nat.zero_le _) (by omega)
    refine ⟨.node (recSum l) l, by rw [dagTruncate_node, hl]; rfl, ?_, ?_, ?_, ?_, by simp [isNode], ?_⟩
    · simpa using l1
    · simp [l2]
    · simpa using l3
    · intro D hD
      simp only [tshape_node, Bool.and_eq_true] at hD ⊢
      exact ⟨hD.1, l4 true D 0 hD.2⟩
    · intro st D hD
      simp only [rootShape] at hD ⊢
      exact l4 st D 0 hD
  · intro _ cur sz _ h; simp at h; omega
  · intro c r ihc ihr hws cur sz hle hlt
    simp only [wellSizedL_cons, Bool.and_eq_true, beq_iff_eq] at hws
    obtain ⟨⟨hc2, hcw⟩, hrw⟩ := hws
    have hlen : (content c.1).length = size c.1 := (size_eq_of_wellSized c.1 hcw).symm
    simp only [recSum_cons] at hlt
    rw [truncL_cons]
    by_cases hin : sz < cur + size c.1
    · simp only [hin, if_true]
      obtain ⟨t', ht', c1, c2, c3, c4, _, _⟩ := ihc hcw (sz - cur) (by omega)
      refine ⟨[(t', sz - cur)], by rw [ht']; rfl, ?_, ?_, by simp, ?_⟩
      · simp only [contentL_cons, contentL_nil, List.append_nil, c1]
        rw [List.take_append_of_le_length (by omega)]
      · simp [c2, c3]
      · intro st D i h
        rw [tshapeL_cons'] at h
        simp only [Bool.and_eq_true] at h
        rw [tshapeL_cons']
        simp only [tshapeL_nil, Bool.and_true]
        exact childOK_imp st w D i _ _ c4 h.1
    · simp only [hin, if_false]
      obtain ⟨l, hl, l1, l2, l3, l4⟩ := ihr hrw (cur + size c.1) sz (by omega) (by omega)
      refine ⟨(c.1, size c.1) :: l, by rw [hl]; rfl, ?_, ?_, ?_, ?_⟩
      · simp only [contentL_cons, l1]
        have e : sz - cur = (content c.1).length + (sz - (cur + size c.1)) := by omega
        rw [e, List.take_append]
        simp [List.take_of_length_le]
      · simp [hcw, l2]
      · simp [l3]; omega
      · intro st D i h
        rw [tshapeL_cons'] at h ⊢
        simp only [Bool.and_eq_true] at h ⊢
        exact ⟨h.1, l4 st D _ h.2⟩

/-! ### the size splitter -/

theorem sizeSplit_flatten (k : Nat) (hk : 1 ≤ k) : ∀ fuel (bs : List UInt8), bs.length < fuel →
    (sizeSplit k fuel bs).flatten = bs := by
  intro fuel
  induction fuel with
  | zero => intro bs h; omega
  | succ fuel ih =>
    intro bs h
    unfold sizeSplit
    cases bs with
    | nil => simp
    | cons b r =>
      simp only [List.isEmpty_cons, Bool.false_eq_true, if_false, List.flatten_cons]
      rw [ih _ (by simp only [List.length_drop, List.length_cons] at h ⊢; omega)]
      exact List.take_append_drop k (b :: r)

theorem chunksOf_flatten (k : Nat) (hk : 1 ≤ k) (bs : List UInt8) : (chunksOf k bs).flatten = bs :=
  sizeSplit_flatten k hk _ bs (Nat.lt_succ_self _)

/-! ### appendData / expandSparse -/

/-- the trees the modifier works on: well-sized, and either a single leaf or a node whose children from index
`w` on are trickle sub-graphs of the right depths (`rootShape false`): every trickle root, every balanced root
(it has at most `w` children), and whatever the modifier makes of them -/
def TOK (w : Nat) (t : FNode) : Prop :=
  wellSized t = true ∧ (isNode t = false ∨ rootShape false w (-1) t = true)

theorem appendData_ok (c : Cfg) (hw : 1 ≤ c.w) (t : FNode) (chunks : List Chunk) (ht : TOK c.w t) :
    ∃ t', appendData c t chunks = some t' ∧ content t' = content t ++ chunks.flatten ∧
      wellSized t' = true ∧ rootShape false c.w (-1) t' = true := by
  obtain ⟨hws, hsh⟩ := ht
  have key : ∀ b : FNode, wellSized b = true → rootShape false c.w (-1) b = true →
      ∃ t', (append c.w b chunks).map (·.root) = some t' ∧ content t' = content b ++ chunks.flatten ∧
        wellSized t' = true ∧ rootShape false c.w (-1) t' = true := by
    intro b hb hs
    obtain ⟨o, ho⟩ := append_total false c.w hw b chunks hb hs
    cases b with
    | leaf d => simp [append, getChild] at ho
    | node fs links =>
      simp only [wellSized_node, Bool.and_eq_true, beq_iff_eq] at hb
      simp only [rootShape] at hs
      have ho' := ho
      simp only [append, getChild] at ho'
      have sp := appendB_spec c.w _ { links := links, filesize := fs } { spl := chunks } o ⟨hb.1, hb.2⟩ ho'
      refine ⟨o.root, by simp [ho], ?_, sp.1, ?_⟩
      · simpa [DB.flat, DB.pending] using sp.2
      · exact appendB_shape false c.w hw _ { links := links, filesize := fs } { spl := chunks } o hs ho'
  cases t with
  | node fs cs =>
    rcases hsh with h | h
    · simp [isNode] at h
    · simpa [appendData] using key (.node fs cs) hws h
  | leaf d =>
    unfold appendData
    by_cases hcond : c.raw = true ∨ ¬ d.isEmpty = true
    · simp only [hcond, if_true]
      have := key (.node d.length [(.leaf d, d.length)]) (by simp)
        (by simp only [rootShape]; exact tshapeL_relaxed_short c.w (-1) _ 0 (by simp; omega))
      simpa using this
    · simp only [hcond, if_false]
      have hd : d = [] := by
        have : d.isEmpty = true := by
          cases h : d.isEmpty with
          | true => rfl
          | false => exact absurd (Or.inr (by simp [h])) hcond
        simpa using this
      subst hd
      have := key (.node 0 []) (by simp) (by simp [rootShape])
      simpa using this

theorem expandSparse_ok (c : Cfg) (hw : 1 ≤ c.w) (t : FNode) (n : Nat) (ht : TOK c.w t) :
    ∃ t', expandSparse c t n = some t' ∧ content t' = content t ++ List.replicate n 0 ∧
      wellSized t' = true ∧ rootShape false c.w (-1) t' = true := by
  obtain ⟨t', h1, h2, h3⟩ := appendData_ok c hw t (chunksOf 4096 (List.replicate n 0)) ht
  exact ⟨t', h1, by rw [h2, chunksOf_flatten 4096 (by omega)], h3⟩

/-! ### bytes, pointwise (reading beyond the end gives 0: zero-extension disappears) -/

def getB (l : List UInt8) (i : Nat) : UInt8 := l[i]?.getD 0

theorem ext_getB (x y : List UInt8) (hl : x.length = y.length) (h : ∀ i, getB x i = getB y i) : x = y := by
  apply List.ext_getElem hl
  intro i h1 h2
  have := h i
  simp only [getB, List.getElem?_eq_getElem h1, List.getElem?_eq_getElem h2, Option.getD_some] at this
  exact this

theorem getB_append (a b : List UInt8) (i : Nat) :
    getB (a ++ b) i = if i < a.length then getB a i else getB b (i - a.length) := by
  unfold getB
  split
  · rename_i h; rw [List.getElem?_append_left h]
  · rename_i h; rw [List.getElem?_append_right (by omega)]

theorem getB_replicate (n i : Nat) : getB (List.replicate n 0) i = 0 := by
  unfold getB
  rw [List.getElem?_replicate]
  split <;> simp

theorem getB_beyond (l : List UInt8) (i : Nat) (h : l.length ≤ i) : getB l i = 0 := by
  unfold getB
  rw [List.getElem?_eq_none h]; rfl

theorem getB_zext (f : List UInt8) (n i : Nat) : getB (zext f n) i = getB f i := by
  unfold zext
  rw [getB_append]
  split
  · rfl
  · rw [getB_replicate, getB_beyond _ _ (by omega)]

theorem getB_take (l : List UInt8) (n i : Nat) : getB (l.take n) i = if i < n then getB l i else 0 := by
  unfold getB
  rw [List.getElem?_take]
  split <;> simp

theorem getB_drop (l : List UInt8) (n i : Nat) : getB (l.drop n) i = getB l (n + i) := by
  unfold getB
  rw [List.getElem?_drop]

@[simp] theorem zext_length (f : List UInt8) (n : Nat) : (zext f n).length = max f.length n := by
  simp [zext]; omega

@[simp] theorem pwrite_length (f : List UInt8) (o : Nat) (b : List UInt8) :
    (pwrite f o b).length = max f.length (o + b.length) := by
  simp [pwrite]; omega

theorem getB_pwrite (f : List UInt8) (o : Nat) (b : List UInt8) (i : Nat) :
    getB (pwrite f o b) i = if o ≤ i ∧ i < o + b.length then getB b (i - o) else getB f i := by
  unfold pwrite
  rw [getB_append, getB_append]
  simp only [List.length_append, List.length_take, zext_length]
  have hmin : min o (max f.length o) = o := by omega
  rw [hmin]
  by_cases h1 : i < o
  · have : i < o + b.length := by omega
    simp only [this, if_true, h1]
    rw [getB_take, getB_zext]
    simp [h1]
    intro h; omega
  · by_cases h2 : i < o + b.length
    · simp [h1, h2]
    · simp only [h1, h2, if_false]
      rw [getB_drop]
      simp only [and_false, if_false]
      congr 1; omega

theorem pwrite_pwrite_append (f : List UInt8) (o : Nat) (a b : List UInt8) :
    pwrite (pwrite f o a) (o + a.length) b = pwrite f o (a ++ b) := by
  apply ext_getB
  · simp; omega
  · intro i
    simp only [getB_pwrite, List.length_append, getB_append]
    by_cases h1 : o ≤ i ∧ i < o + a.length
    · have : ¬ (o + a.length ≤ i ∧ i < o + a.length + b.length) := by omega
      have h3 : o ≤ i ∧ i < o + (a.length + b.length) := by omega
      have h4 : i - o < a.length := by omega
      simp [h1, this, h3, h4]
    · by_cases h2 : o + a.length ≤ i ∧ i < o + a.length + b.length
      · have h3 : o ≤ i ∧ i < o + (a.length + b.length) := by omega
        have h4 : ¬ i - o < a.length := by omega
        have h5 : i - (o + a.length) = i - o - a.length := by omega
        simp [h2, h3, h4, h5]
      · have h3 : ¬ (o ≤ i ∧ i < o + (a.length + b.length)) := by omega
        simp [h1, h2, h3]

theorem pwrite_pwrite_cover (f : List UInt8) (o : Nat) (a b : List UInt8) (h : a.length ≤ b.length) :
    pwrite (pwrite f o a) o b = pwrite f o b := by
  apply ext_getB
  · simp; omega
  · intro i
    simp only [getB_pwrite]
    by_cases h1 : o ≤ i ∧ i < o + b.length
    · simp [h1]
    · have : ¬ (o ≤ i ∧ i < o + a.length) := by omega
      simp [h1, this]

/-- writing at `off` does not care what zero padding the file already has below `off` -/
theorem pwrite_congr (X Y : List UInt8) (off : Nat) (b : List UInt8) (hx : X.length ≤ off) (hy : Y.length ≤ off)
    (h : ∀ i, getB X i = getB Y i) : pwrite X off b = pwrite Y off b := by
  apply ext_getB
  · simp; omega
  · intro i; simp only [getB_pwrite, h]

theorem getB_append_zeros (C : List UInt8) (m i : Nat) : getB (C ++ List.replicate m 0) i = getB C i := by
  rw [getB_append]
  split
  · rfl
  · rw [getB_replicate, getB_beyond _ _ (by omega)]

theorem zext_of_le (f : List UInt8) (n : Nat) (h : n ≤ f.length) : zext f n = f := by
  have : n - f.length = 0 := by omega
  simp [zext, this]

/-- structural form of "overwrite, then what did not fit" -/
theorem ow_owRest (X : List UInt8) : ∀ ws buf, ws ≤ X.length →
    ow X ws buf ++ owRest X ws buf = X.take ws ++ buf ++ X.drop (ws + buf.length) := by
  induction X with
  | nil => intro ws buf h; simp at h; subst h; simp [ow, owRest]
  | cons x X ih =>
    intro ws buf h
    cases ws with
    | succ ws =>
      simp only [List.length_cons, Nat.add_le_add_iff_right] at h
      have e : ws + 1 + buf.length = (ws + buf.length) + 1 := by omega
      simp only [ow, owRest, List.cons_append, List.take_succ_cons, e, List.drop_succ_cons, ih ws buf h]
    | zero =>
      cases buf with
      | nil => simp [ow, owRest]
      | cons b buf =>
        have := ih 0 buf (Nat.zero_le _)
        simp only [List.take_zero, List.nil_append, Nat.zero_add] at this
        simp only [ow, owRest, List.cons_append, List.take_zero, List.nil_append, Nat.zero_add, List.length_cons,
          List.drop_succ_cons, this]

/-- what Sync computes (expand to writeStart, overwrite in place, append the rest) is the positional write -/
theorem sync_bytes (C : List UInt8) (ws : Nat) (buf : List UInt8) :
    ow (zext C ws) ws buf ++ owRest (zext C ws) ws buf = pwrite C ws buf := by
  rw [ow_owRest _ _ _ (by simp; omega)]
  unfold pwrite
  congr 1
  by_cases h : ws ≤ C.length
  · rw [zext_of_le _ _ h]
  · have h1 : (zext C ws).length ≤ ws + buf.length := by simp; omega
    rw [List.drop_eq_nil_of_le h1, List.drop_eq_nil_of_le (by omega)]

theorem take_zext (f : List UInt8) (sz : Nat) :
    (zext f sz).take sz = if sz ≤ f.length then f.take sz else f ++ List.replicate (sz - f.length) 0 := by
  split
  · rename_i h; rw [zext_of_le _ _ h]
  · rename_i h
    apply List.take_of_length_le
    simp [zext]; omega

/-! ### control layer -/

/-- the representation invariant of the modifier state -/
def Inv (c : Cfg) (s : DM) : Prop :=
  1 ≤ c.w ∧ 1 ≤ c.k ∧ TOK c.w s.cur ∧ ∀ buf, s.wrBuf = some buf → s.curWrOff = s.writeStart + buf.length

theorem TOK.size_eq {w : Nat} {t : FNode} (h : TOK w t) : size t = (content t).length :=
  size_eq_of_wellSized t h.1

theorem TOK.of_node {w : Nat} {t : FNode} (h1 : wellSized t = true) (h2 : rootShape false w (-1) t = true) : TOK w t :=
  ⟨h1, Or.inr h2⟩

theorem DM.anchor_none {s : DM} (h : s.wrBuf = none) : s.anchor = s.writeStart := by simp [DM.anchor, h]
theorem DM.anchor_some {s : DM} {buf : List UInt8} (h : s.wrBuf = some buf) : s.anchor = s.curWrOff := by
  simp [DM.anchor, h]

theorem sync_ok (c : Cfg) (s : DM) (h : Inv c s) :
    ∃ s1, sync c s = some s1 ∧ Inv c s1 ∧ s1.wrBuf = none ∧ content s1.cur = s.bytes ∧
      s1.curWrOff = s.curWrOff ∧ s1.writeStart = s.anchor := by
  obtain ⟨hw, hk, htok, hbuf⟩ := h
  cases hb : s.wrBuf with
  | none =>
    refine ⟨s, by simp [sync, hb], ⟨hw, hk, htok, hbuf⟩, hb, by simp [DM.bytes, hb], rfl, by simp [DM.anchor, hb]⟩
  | some buf =>
    have hsz := htok.size_eq
    -- expandSparse up to writeStart
    have h1 : ∃ cur1, (if size s.cur < s.writeStart then expandSparse c s.cur (s.writeStart - size s.cur)
        else some s.cur) = some cur1 ∧ content cur1 = zext (content s.cur) s.writeStart ∧ TOK c.w cur1 := by
      by_cases hlt : size s.cur < s.writeStart
      · obtain ⟨t', e1, e2, e3, e4⟩ := expandSparse_ok c hw s.cur (s.writeStart - size s.cur) htok
        exact ⟨t', by simp [hlt, e1], by rw [e2, hsz]; rfl, TOK.of_node e3 e4⟩
      · exact ⟨s.cur, by simp [hlt], by rw [zext_of_le _ _ (by omega)], htok⟩
    obtain ⟨cur1, e1, c1, t1⟩ := h1
    obtain ⟨m1, m2, m3, m4, m5, m6, m7⟩ := modify_ok c.w cur1 t1.1 s.writeStart buf
    have tm : TOK c.w (modifyDag cur1 s.writeStart buf).1 := by
      refine ⟨m3, ?_⟩
      rcases t1.2 with hl | hn
      · left; rw [m6]; exact hl
      · right; exact m7 _ _ hn
    have h2 : ∃ cur2, (if (modifyDag cur1 s.writeStart buf).2.isEmpty then some (modifyDag cur1 s.writeStart buf).1
        else appendData c (modifyDag cur1 s.writeStart buf).1 (chunksOf c.k (modifyDag cur1 s.writeStart buf).2))
          = some cur2 ∧ content cur2 = pwrite (content s.cur) s.writeStart buf ∧ TOK c.w cur2 := by
      have hb := sync_bytes (content s.cur) s.writeStart buf
      rw [← c1, ← m1, ← m2] at hb
      by_cases he : (modifyDag cur1 s.writeStart buf).2.isEmpty = true
      · refine ⟨_, by simp [he], ?_, tm⟩
        have : (modifyDag cur1 s.writeStart buf).2 = [] := by simpa using he
        rw [this] at hb; simpa using hb
      · obtain ⟨t', a1, a2, a3, a4⟩ := appendData_ok c hw _ (chunksOf c.k (modifyDag cur1 s.writeStart buf).2) tm
        refine ⟨t', by simp [he, a1], ?_, TOK.of_node a3 a4⟩
        rw [a2, chunksOf_flatten c.k hk, hb]
    obtain ⟨cur2, e2, c2, t2⟩ := h2
    have hs1 : ∃ s1, sync c s = some s1 ∧ s1.cur = cur2 ∧ s1.writeStart = s.writeStart + buf.length ∧
        s1.curWrOff = s.curWrOff ∧ s1.wrBuf = none := by
      unfold sync
      simp only [hb, e1, e2]
      exact ⟨_, rfl, rfl, rfl, rfl, rfl⟩
    obtain ⟨s1, q1, q2, q3, q4, q5⟩ := hs1
    refine ⟨s1, q1, ?_, q5, ?_, q4, ?_⟩
    · exact ⟨hw, hk, by rw [q2]; exact t2, by intro b hb'; simp [q5] at hb'⟩
    · simp [DM.bytes, hb, q2, c2]
    · simp [DM.anchor, hb, hbuf buf hb, q3]

theorem DM.size_eq (c : Cfg) (s : DM) (h : Inv c s) : s.size = s.bytes.length := by
  obtain ⟨_, _, htok, _⟩ := h
  unfold DM.size DM.bytes
  cases s.wrBuf with
  | none => exact htok.size_eq
  | some buf => simp only [pwrite_length, htok.size_eq]; omega

theorem write_ok (c : Cfg) (s : DM) (b : List UInt8) (h : Inv c s) :
    (write c s b).2.2 = true ∧ (write c s b).2.1 = b.length ∧ Inv c (write c s b).1 ∧
    (write c s b).1.bytes = pwrite s.bytes s.curWrOff b ∧ (write c s b).1.curWrOff = s.curWrOff + b.length ∧
    (write c s b).1.anchor = s.curWrOff + b.length := by
  obtain ⟨hw, hk, htok, hbuf⟩ := h
  -- the state with the bytes added to the buffer
  have hs1 : ∀ s1 : DM, s1 = DM.mk s.cur (if s.wrBuf.isNone then s.curWrOff else s.writeStart)
        (s.curWrOff + b.length) (some (s.wrBuf.getD [] ++ b)) s.touched →
      Inv c s1 ∧ s1.bytes = pwrite s.bytes s.curWrOff b ∧ s1.curWrOff = s.curWrOff + b.length ∧
        s1.anchor = s.curWrOff + b.length := by
    intro s1 e
    subst e
    cases hb : s.wrBuf with
    | none =>
      refine ⟨⟨hw, hk, htok, ?_⟩, ?_, rfl, by simp [DM.anchor]⟩
      · intro buf hb'
        simp only [hb, Option.getD_none, List.nil_append, Option.some.injEq] at hb'
        subst hb'; simp [hb]
      · simp [DM.bytes, hb]
    | some buf =>
      have hpos := hbuf buf hb
      refine ⟨⟨hw, hk, htok, ?_⟩, ?_, rfl, by simp [DM.anchor]⟩
      · intro buf' hb'
        simp only [hb, Option.getD_some, Option.some.injEq] at hb'
        subst hb'; simp [hb, hpos]; omega
      · simp only [DM.bytes, hb, Option.getD_some, Option.isNone_some, Bool.false_eq_true, if_false]
        rw [hpos, pwrite_pwrite_append]
  obtain ⟨i1, i2, i3, i4⟩ := hs1 _ rfl
  unfold write
  simp only
  split
  · obtain ⟨s2, y1, y2, y3, y4, y5, y6⟩ := sync_ok c _ i1
    simp only [y1]
    refine ⟨trivial, trivial, y2, ?_, ?_, ?_⟩
    · simp only [DM.bytes, y3, y4]; exact i2
    · rw [y5]
    · rw [DM.anchor_none y3, y6]; exact i4
  · exact ⟨rfl, rfl, i1, i2, i3, i4⟩

theorem read_ok (c : Cfg) (s : DM) (k : Nat) (h : Inv c s) :
    (read c s k).2.2 = true ∧ (read c s k).2.1 = (s.bytes.drop s.curWrOff).take k ∧ Inv c (read c s k).1 ∧
    (read c s k).1.bytes = s.bytes ∧
    (read c s k).1.curWrOff = s.curWrOff + ((s.bytes.drop s.curWrOff).take k).length ∧
    (read c s k).1.anchor = s.anchor := by
  obtain ⟨s1, y1, y2, y3, y4, y5, y6⟩ := sync_ok c s h
  unfold read
  simp only [y1, y4, y5]
  refine ⟨trivial, trivial, ?_, ?_, trivial, by simp [DM.anchor, y3, y6]⟩
  · obtain ⟨a, b, c', d⟩ := y2
    exact ⟨a, b, c', by intro buf hb; simp [y3] at hb⟩
  · simp [DM.bytes, y3, y4]

theorem seek_ok (c : Cfg) (s : DM) (off : Int) (whence : Nat) (h : Inv c s) :
    Inv c (seek c s off whence).1 ∧
    C10.abs (seek c s off whence).1 = (specStep (C10.abs s) (.seek off whence)).1 ∧
    (if (seek c s off whence).2.2 then Out.pos (seek c s off whence).2.1 else Out.err) =
      (specStep (C10.abs s) (.seek off whence)).2 := by
  obtain ⟨s1, y1, y2, y3, y4, y5, y6⟩ := sync_ok c s h
  have hsz : (s1.size : Int) = (s.bytes.length : Int) := by
    rw [DM.size_eq c s1 y2]; simp [DM.bytes, y3, y4]
  have habs : C10.abs s1 = C10.abs s := by simp [C10.abs, DM.bytes, DM.anchor, y3, y4, y5, y6]
  unfold seek
  simp only [y1, specStep, C10.abs, hsz, y5]
  generalize ht : (if whence = 1 then some ((s.curWrOff : Int) + off)
      else if whence = 0 then some off
      else if whence = 2 then some ((s.bytes.length : Int) + off) else none) = target
  cases target with
  | none =>
    simp only
    exact ⟨y2, by simpa [C10.abs] using habs, by simp⟩
  | some t =>
    simp only
    by_cases hneg : t < 0
    · simp only [hneg, if_true]
      exact ⟨y2, by simpa [C10.abs] using habs, by simp⟩
    · simp only [hneg, if_false]
      obtain ⟨hw, hk, htok, _⟩ := y2
      have h1 : ∃ cur1, (if t > (s.bytes.length : Int) then expandSparse c s1.cur (t - (s.bytes.length : Int)).toNat
          else some s1.cur) = some cur1 ∧ content cur1 = zext s.bytes t.toNat ∧ TOK c.w cur1 := by
        by_cases hgt : t > (s.bytes.length : Int)
        · obtain ⟨t', e1, e2, e3, e4⟩ := expandSparse_ok c hw s1.cur (t - (s.bytes.length : Int)).toNat htok
          refine ⟨t', by rw [if_pos hgt]; exact e1, ?_, TOK.of_node e3 e4⟩
          rw [e2, y4]
          have : (t - (s.bytes.length : Int)).toNat = t.toNat - s.bytes.length := by omega
          rw [this]; rfl
        · refine ⟨s1.cur, by simp [hgt], ?_, htok⟩
          rw [y4, zext_of_le _ _ (by omega)]
      obtain ⟨cur1, e1, c1, t1⟩ := h1
      simp only [e1]
      refine ⟨⟨hw, hk, t1, by intro buf hb; simp [y3] at hb⟩, ?_, by simp⟩
      simp [DM.bytes, DM.anchor, y3, c1]

theorem truncate_ctl_ok (c : Cfg) (s : DM) (sz : Nat) (h : Inv c s) :
    (truncate c s sz).2 = true ∧ Inv c (truncate c s sz).1 ∧
    (truncate c s sz).1.bytes = (zext s.bytes sz).take sz ∧
    (truncate c s sz).1.curWrOff =
      (if sz < s.bytes.length ∧ s.curWrOff > sz then max s.anchor sz else s.curWrOff) ∧
    (truncate c s sz).1.anchor = s.anchor := by
  obtain ⟨s1, y1, y2, y3, y4, y5, y6⟩ := sync_ok c s h
  have hsz : s1.size = s.bytes.length := by
    rw [DM.size_eq c s1 y2]; simp [DM.bytes, y3, y4]
  obtain ⟨hw, hk, htok, _⟩ := y2
  have hnb : ∀ t, ∀ buf, ({ s1 with cur := t } : DM).wrBuf = some buf →
      ({ s1 with cur := t } : DM).curWrOff = ({ s1 with cur := t } : DM).writeStart + buf.length := by
    intro t buf hb; simp [y3] at hb
  unfold truncate
  simp only [y1, hsz]
  rw [take_zext]
  by_cases heq : sz = s.bytes.length
  · simp only [heq, if_true, Nat.le_refl]
    refine ⟨trivial, ⟨hw, hk, htok, by intro buf hb; simp [y3] at hb⟩, ?_, by simp [y5],
      by rw [DM.anchor_none y3, y6]⟩
    simp [DM.bytes, y3, y4]
  · simp only [heq, if_false]
    by_cases hgt : sz > s.bytes.length
    · have hle : ¬ sz ≤ s.bytes.length := by omega
      simp only [hgt, if_true, hle, if_false]
      obtain ⟨t', e1, e2, e3, e4⟩ := expandSparse_ok c hw s1.cur (sz - s.bytes.length) htok
      simp only [e1]
      refine ⟨trivial, ⟨hw, hk, TOK.of_node e3 e4, hnb t'⟩, ?_, ?_, by simp [DM.anchor, y3, y6]⟩
      · simp [DM.bytes, y3, e2, y4]
      · have : ¬ (sz < s.bytes.length ∧ s.curWrOff > sz) := by omega
        simp [this, y5]
    · have hle : sz ≤ s.bytes.length := by omega
      simp only [hgt, if_false, hle, if_true]
      obtain ⟨t', e1, e2, e3, e4, e5, e6, e7⟩ := truncate_ok c.w s1.cur htok.1 sz (by rw [htok.size_eq, y4]; omega)
      simp only [e1]
      have hlt : sz < s.bytes.length := by omega
      refine ⟨trivial, ⟨hw, hk, ⟨e3, ?_⟩, by intro buf hb; simp [y3] at hb⟩, ?_, ?_, by simp [DM.anchor, y3, y6]⟩
      · rcases htok.2 with hl | hn
        · left; rw [e6]; exact hl
        · right; exact e7 _ _ hn
      · simp [DM.bytes, y3, e2, y4]
      · simp only [y5, y6, hlt, true_and]

theorem content_collapse (c : Cfg) (t : FNode) : content (collapse c t) = content t := by
  unfold collapse
  split
  · split
    · simp
    · rfl
  · rfl

theorem getNode_ok (c : Cfg) (s : DM) (h : Inv c s) :
    ∃ t, (getNode c s).2 = some t ∧ content t = s.bytes ∧ Inv c (getNode c s).1 ∧
      (getNode c s).1.bytes = s.bytes ∧ (getNode c s).1.curWrOff = s.curWrOff ∧
      (getNode c s).1.anchor = s.anchor := by
  obtain ⟨s1, y1, y2, y3, y4, y5, y6⟩ := sync_ok c s h
  unfold getNode
  simp only [y1]
  exact ⟨_, rfl, by rw [content_collapse, y4], y2, by simp [DM.bytes, y3, y4], y5, by rw [DM.anchor_none y3, y6]⟩

theorem writeAt_ok (c : Cfg) (s : DM) (b : List UInt8) (off : Nat) (h : Inv c s) :
    (writeAt c s b off).2.2 = true ∧ (writeAt c s b off).2.1 = b.length ∧ Inv c (writeAt c s b off).1 ∧
    (writeAt c s b off).1.bytes = pwrite s.bytes off b ∧ (writeAt c s b off).1.curWrOff = off + b.length ∧
    (writeAt c s b off).1.anchor = off + b.length := by
  have hgen : (writeAt.general c s b off).2.2 = true ∧ (writeAt.general c s b off).2.1 = b.length ∧
      Inv c (writeAt.general c s b off).1 ∧ (writeAt.general c s b off).1.bytes = pwrite s.bytes off b ∧
      (writeAt.general c s b off).1.curWrOff = off + b.length ∧
      (writeAt.general c s b off).1.anchor = off + b.length := by
    unfold writeAt.general
    by_cases hne : off ≠ s.curWrOff
    · simp only [hne, ne_eq, not_false_eq_true, if_true]
      obtain ⟨hw, hk, htok, hbuf⟩ := h
      have hsz := DM.size_eq c s ⟨hw, hk, htok, hbuf⟩
      -- the early expandSparse
      have h1 : ∃ cur1, (if off > s.size then expandSparse c s.cur (off - s.size) else some s.cur) = some cur1 ∧
          TOK c.w cur1 ∧ ∃ m, content cur1 = content s.cur ++ List.replicate m 0 ∧
            (m = 0 ∨ (content s.cur).length + m ≤ off ∧ s.bytes.length + m ≤ off) := by
        by_cases hgt : off > s.size
        · obtain ⟨t', e1, e2, e3, e4⟩ := expandSparse_ok c hw s.cur (off - s.size) htok
          refine ⟨t', by simp [hgt, e1], TOK.of_node e3 e4, off - s.size, e2, Or.inr ?_⟩
          have : (content s.cur).length ≤ s.bytes.length := by
            unfold DM.bytes; cases s.wrBuf <;> simp; omega
          omega
        · exact ⟨s.cur, by simp [hgt], htok, 0, by simp, Or.inl rfl⟩
      obtain ⟨cur1, e1, t1, m, c1, hm⟩ := h1
      simp only [e1]
      have key : ∀ tb : Bool, ∃ s2, sync c { s with cur := cur1, touched := tb } = some s2 ∧ Inv c s2 ∧
          s2.wrBuf = none ∧ content s2.cur = ({ s with cur := cur1 } : DM).bytes ∧ s2.curWrOff = s.curWrOff := by
        intro tb
        obtain ⟨s2, y1, y2, y3, y4, y5, _⟩ := sync_ok c { s with cur := cur1, touched := tb } ⟨hw, hk, t1, hbuf⟩
        exact ⟨s2, y1, y2, y3, by simpa [DM.bytes] using y4, y5⟩
      obtain ⟨s2, y1, y2, y3, y4, y5⟩ := key (s.touched ||
        (decide (off > s.size) && appendTouches c s.cur (chunksOf 4096 (List.replicate (off - s.size) 0))))
      simp only [y1]
      have inv3 : Inv c { s2 with writeStart := off, curWrOff := off } := by
        obtain ⟨a1, a2, a3, _⟩ := y2
        exact ⟨a1, a2, a3, by intro buf hb; simp [y3] at hb⟩
      obtain ⟨w1, w2, w3, w4, w5, w6⟩ := write_ok c _ b inv3
      refine ⟨w1, w2, w3, ?_, w5, w6⟩
      rw [w4]
      simp only [DM.bytes, y3]
      rw [y4]
      -- zero padding below `off` is irrelevant
      rcases hm with hm | ⟨hm1, hm2⟩
      · subst hm
        have : cur1 = cur1 := rfl
        simp only [List.replicate_zero, List.append_nil] at c1
        simp [DM.bytes, c1]
      · apply pwrite_congr
        · unfold DM.bytes
          cases hb : s.wrBuf with
          | none => simp [c1]; omega
          | some buf =>
            simp only [c1, pwrite_length, List.length_append, List.length_replicate]
            have : s.bytes.length = max (content s.cur).length (s.writeStart + buf.length) := by
              simp [DM.bytes, hb]
            omega
        · show s.bytes.length ≤ off
          omega
        · intro i
          unfold DM.bytes
          cases hb : s.wrBuf with
          | none => simp [c1, getB_append_zeros]
          | some buf => simp only [getB_pwrite, c1, getB_append_zeros]
    · have he : off = s.curWrOff := by simpa using hne
      simp only [he, ne_eq, not_true_eq_false, if_false]
      obtain ⟨w1, w2, w3, w4, w5, w6⟩ := write_ok c s b h
      exact ⟨w1, w2, w3, w4, w5, w6⟩
  unfold writeAt
  cases hb : s.wrBuf with
  | none => simpa using hgen
  | some buf =>
    simp only
    by_cases hcond : off = s.writeStart ∧ b.length ≥ buf.length
    · simp only [hcond, and_self, if_true]
      obtain ⟨hw, hk, htok, hbuf⟩ := h
      have inv' : Inv c { s with wrBuf := some [], curWrOff := s.writeStart } :=
        ⟨hw, hk, htok, by intro buf' hb'; simp at hb'; subst hb'; simp⟩
      obtain ⟨w1, w2, w3, w4, w5, w6⟩ := write_ok c _ b inv'
      refine ⟨w1, w2, w3, ?_, by rw [w5]; try simp [hcond.1], by rw [w6]; try simp [hcond.1]⟩
      rw [w4]
      simp only [DM.bytes, hb, hcond.1]
      rw [pwrite_pwrite_cover _ _ [] b (by simp), pwrite_pwrite_cover _ _ buf b hcond.2]
    · simp only [hcond, if_false]
      exact hgen

/-- one step: the model's result and output are those of the file model, and the invariant is kept -/
theorem step_refines (c : Cfg) (s : DM) (op : Op) (h : Inv c s) :
    Inv c (step c s op).1 ∧ C10.abs (step c s op).1 = (specStep (C10.abs s) op).1 ∧
    (step c s op).2 = (specStep (C10.abs s) op).2 := by
  cases op with
  | write b =>
    obtain ⟨w1, w2, w3, w4, w5, w6⟩ := write_ok c s b h
    simp only [step, specStep, C10.abs, w1, w2, if_true, w4, w5, w6]
    exact ⟨w3, trivial, trivial⟩
  | writeAt b off =>
    by_cases hneg : off < 0
    · simp only [step, specStep, writeAtI, hneg, if_true]
      exact ⟨h, trivial, by simp⟩
    · obtain ⟨w1, w2, w3, w4, w5, w6⟩ := writeAt_ok c s b off.toNat h
      simp only [step, specStep, writeAtI, hneg, if_false, C10.abs, w1, w2, if_true, w4, w5, w6]
      exact ⟨w3, trivial, trivial⟩
  | seek off whence =>
    obtain ⟨k1, k2, k3⟩ := seek_ok c s off whence h
    simp only [step]
    exact ⟨k1, k2, k3⟩
  | read k =>
    obtain ⟨r1, r2, r3, r4, r5, r6⟩ := read_ok c s k h
    simp only [step, specStep, C10.abs, r1, r2, if_true, r4, r5, r6]
    exact ⟨r3, trivial, trivial⟩
  | truncate sz =>
    by_cases hneg : sz < 0
    · simp only [step, specStep, truncateI, hneg, if_true]
      exact ⟨h, trivial, by simp⟩
    · obtain ⟨t1, t2, t3, t4, t5⟩ := truncate_ctl_ok c s sz.toNat h
      simp only [step, specStep, truncateI, hneg, if_false, C10.abs, t1, if_true, t3, t4, t5]
      exact ⟨t2, rfl, trivial⟩
  | size =>
    simp only [step, specStep, C10.abs, DM.size_eq c s h]
    exact ⟨h, trivial, trivial⟩
  | sync =>
    obtain ⟨s1, y1, y2, y3, y4, y5, y6⟩ := sync_ok c s h
    simp only [step, y1, specStep, C10.abs, y5]
    refine ⟨y2, ?_, trivial⟩
    simp [DM.bytes, DM.anchor, y3, y4, y6]
  | getNode =>
    obtain ⟨t, g1, g2, g3, g4, g5, g6⟩ := getNode_ok c s h
    simp only [step, g1, specStep, C10.abs, g2, g4, g5, g6]
    exact ⟨g3, trivial, trivial⟩

end C10
